(* Server/Model.v — one server connection (server.go: ServeCodec,
   ServeRequest, handleRequest, readRequestBody, callService, sendResponse,
   and the teardown tail), as a machine of atomic actions.

   The order of the teardown steps is not written here: it is read from the
   source on every run (Gen/Generated.v: servecodec_tail, poll_eof_tail) and
   interpreted by [tail_steps]. *)
From Coq Require Import List Arith Bool Lia String.
From RPC Require Import Res Upgrade.
From RPC Require Generated.
Import ListNotations.
Open Scope nat_scope.

(* ---- dispatch: what ServeRequest / readRequestBody / callService do with one decoded header ---- *)
Inductive decision :=
| DAck            (* heartbeat: answered at once, no method lookup, no handler *)
| DExec           (* look the method up, decode the arguments, run the handler, answer *)
| DErrResp        (* answered with an error response without running a handler *)
| DStreamOpen | DStreamMsg | DStreamClose.

(* [known]: the method is registered; [argsok]: the body decodes *)
Definition decide (legacy : bool) (u : upgrade) (known argsok : bool) : res decision :=
  if N.eqb (Heartbeat u) Generated.c_heartbeat then Ok DAck
  else if N.eqb (Stream u) Generated.c_openStream then (if known then Ok DStreamOpen else Ok DErrResp)
  else if N.eqb (Stream u) Generated.c_closeStream then Ok DStreamClose
  else if N.eqb (Stream u) Generated.c_streaming then Ok DStreamMsg
  else
    if legacy then
      (* pinned tree: the lookup is skipped when NoRequest is set, and the result is dereferenced anyway *)
      if N.eqb (NoRequest u) Generated.c_noRequest then Panic
      else if negb known then Ok DErrResp
      else if negb argsok then Ok DErrResp
      else Ok DExec
    else
      if negb known then Ok DErrResp
      else if negb (N.eqb (NoRequest u) Generated.c_noRequest) && negb argsok then Ok DErrResp
      else Ok DExec.

(* ---- the per-connection machine (unary traffic; streams are in Stream/) ---- *)
Inductive rkind :=
| KBadHeader                    (* header does not decode: dropped *)
| KPing
| KUnknown                      (* unknown method: error response *)
| KBadArgs                      (* undecodable arguments: error response *)
| KCall (fails : bool).         (* a registered handler; does it return an error? *)

Record req := { r_id : nat; r_kind : rkind }.

Inductive rresp := RAck | RReply | RError.
Inductive ev :=
| EStart (id : nat)             (* the handler is entered *)
| EEnd (id : nat)               (* the handler returns *)
| EResp (id : nat) (k : rresp). (* a response frame carrying this request's number is written *)

Inductive tstep := TDrain | TWgWait | TCodecClose | TSchedClose | TStreamsClose | TQueueClose | TOther.

(* interpretation of the call names the extractor found in the tail *)
Definition tstep_of (s : string) : option tstep :=
  if String.eqb s "drain" then Some TDrain
  else if String.eqb s "wg.Wait" || String.eqb s "svrctx.wg.Wait" then Some TWgWait
  else if String.eqb s "codec.Close" || String.eqb s "svrctx.codec.Close" then Some TCodecClose
  else if String.eqb s "sched.Close" || String.eqb s "svrctx.sched.Close" then Some TSchedClose
  else if String.eqb s "range:streams" || String.eqb s "range:svrctx.streams" then Some TStreamsClose
  else if String.eqb s "readStream.Close" || String.eqb s "svrctx.readStream.Close"
          || String.eqb s "pipeline.Close" || String.eqb s "svrctx.pipeline.Close" then Some TQueueClose
  else if String.eqb s "server.mutex.Lock" || String.eqb s "server.mutex.Unlock" || String.eqb s "server.deleteCodec"
          || String.eqb s "delete" || String.eqb s "ctx.stream.Close" || String.eqb s "end:streams"
          || String.eqb s "end:svrctx.streams" then Some TOther
  else None.

Fixpoint tail_steps (l : list string) : option (list tstep) :=
  match l with
  | [] => Some []
  | s :: r => match tstep_of s, tail_steps r with
              | Some t, Some ts => Some (t :: ts)
              | _, _ => None
              end
  end.

Definition tstep_eqb (a b : tstep) : bool :=
  match a, b with
  | TDrain, TDrain | TWgWait, TWgWait | TCodecClose, TCodecClose | TSchedClose, TSchedClose
  | TStreamsClose, TStreamsClose | TQueueClose, TQueueClose | TOther, TOther => true
  | _, _ => false
  end.

(* index of the first occurrence *)
Fixpoint first_at (a : tstep) (l : list tstep) : option nat :=
  match l with
  | [] => None
  | x :: r => if tstep_eqb x a then Some 0 else option_map S (first_at a r)
  end.

Definition precedes (a b : tstep) (l : list tstep) : bool :=
  match first_at a l, first_at b l with
  | Some i, Some j => i <? j
  | Some _, None => true
  | None, Some _ => false
  | None, None => true
  end.

(* the order is safe when the decode queue is drained before the wait for the handlers and before
   the stream table is iterated, and the wait precedes closing the execution queue *)
Definition safe_order (l : list tstep) : bool :=
  precedes TDrain TWgWait l && precedes TDrain TStreamsClose l && precedes TWgWait TSchedClose l &&
  match first_at TDrain l with Some _ => true | None => false end.

Record cfg := { pipelining : bool; directIO : bool }.

Record sst := {
  s_arrived : list req;      (* every frame the reader got, in order *)
  s_decq : list req;         (* the per-connection decode queue *)
  s_execq : list req;        (* dispatched, handler not started (the exec queue, or the unordered pool) *)
  s_running : list req;      (* inside handleRequest *)
  s_log : list ev;
  s_wg : nat;                (* the WaitGroup counter *)
  s_rd_alive : bool;
  s_tail : list tstep;       (* teardown steps still to run (after the reader has exited) *)
  s_waiting : bool;          (* wg.Wait has begun *)
  s_codec_closed : bool;
  s_fault : bool             (* wg.Add after Wait began, or the stream table iterated while the decode queue can write it *)
}.

Definition init : sst := {|
  s_arrived := []; s_decq := []; s_execq := []; s_running := []; s_log := []; s_wg := 0; s_rd_alive := true;
  s_tail := []; s_waiting := false; s_codec_closed := false; s_fault := false |}.

Inductive action :=
| SArrive (r : req)        (* ReadMessage returns a frame *)
| SDecode                  (* ServeRequest on the head of the decode queue *)
| SStart (i : nat)         (* handleRequest begins for the i-th dispatched request *)
| SEnd (id : nat)          (* its handler returns and the response is sent *)
| SReadFail                (* ReadMessage fails: the reader leaves its loop *)
| STail.                   (* the next teardown step *)

Definition with_log (e : list ev) (s : sst) : sst :=
  {| s_arrived := s_arrived s; s_decq := s_decq s; s_execq := s_execq s; s_running := s_running s;
     s_log := s_log s ++ e; s_wg := s_wg s; s_rd_alive := s_rd_alive s; s_tail := s_tail s;
     s_waiting := s_waiting s; s_codec_closed := s_codec_closed s; s_fault := s_fault s |}.

(* ServeRequest after the header has been read *)
Definition dispatch (r : req) (s : sst) : sst :=
  match r_kind r with
  | KBadHeader => s
  | KPing => if s_codec_closed s then s else with_log [EResp (r_id r) RAck] s
  | _ =>
      {| s_arrived := s_arrived s; s_decq := s_decq s; s_execq := s_execq s ++ [r]; s_running := s_running s;
         s_log := s_log s; s_wg := S (s_wg s); s_rd_alive := s_rd_alive s; s_tail := s_tail s;
         s_waiting := s_waiting s; s_codec_closed := s_codec_closed s;
         s_fault := s_fault s || s_waiting s |}
  end.

Definition remove_nth {A} (i : nat) (l : list A) : list A := firstn i l ++ skipn (S i) l.

Fixpoint remove_id (id : nat) (l : list req) : option (req * list req) :=
  match l with
  | [] => None
  | r :: rest => if Nat.eqb (r_id r) id then Some (r, rest)
                 else match remove_id id rest with Some (x, l') => Some (x, r :: l') | None => None end
  end.

Definition resp_of (k : rkind) : rresp :=
  match k with KCall false => RReply | _ => RError end.

Definition step (tail0 : list tstep) (cf : cfg) (s : sst) (a : action) : option sst :=
  match a with
  | SArrive r =>
      if negb (s_rd_alive s) then None else
      let s1 := {| s_arrived := s_arrived s ++ [r]; s_decq := s_decq s; s_execq := s_execq s; s_running := s_running s;
                   s_log := s_log s; s_wg := s_wg s; s_rd_alive := true; s_tail := s_tail s;
                   s_waiting := s_waiting s; s_codec_closed := s_codec_closed s; s_fault := s_fault s |} in
      if directIO cf then Some (dispatch r s1)
      else Some {| s_arrived := s_arrived s1; s_decq := s_decq s1 ++ [r]; s_execq := s_execq s1; s_running := s_running s1;
                   s_log := s_log s1; s_wg := s_wg s1; s_rd_alive := true; s_tail := s_tail s1;
                   s_waiting := s_waiting s1; s_codec_closed := s_codec_closed s1; s_fault := s_fault s1 |}
  | SDecode =>
      match s_decq s with
      | [] => None
      | r :: rest =>
          Some (dispatch r {| s_arrived := s_arrived s; s_decq := rest; s_execq := s_execq s; s_running := s_running s;
                              s_log := s_log s; s_wg := s_wg s; s_rd_alive := s_rd_alive s; s_tail := s_tail s;
                              s_waiting := s_waiting s; s_codec_closed := s_codec_closed s; s_fault := s_fault s |})
      end
  | SStart i =>
      (* pipelining: one exec worker, FIFO, one request at a time *)
      if pipelining cf && (negb (Nat.eqb i 0) || negb (match s_running s with [] => true | _ => false end)) then None else
      match nth_error (s_execq s) i with
      | None => None
      | Some r =>
          Some {| s_arrived := s_arrived s; s_decq := s_decq s; s_execq := remove_nth i (s_execq s);
                  s_running := s_running s ++ [r];
                  s_log := s_log s ++ (match r_kind r with KCall _ => [EStart (r_id r)] | _ => [] end);
                  s_wg := s_wg s; s_rd_alive := s_rd_alive s; s_tail := s_tail s;
                  s_waiting := s_waiting s; s_codec_closed := s_codec_closed s; s_fault := s_fault s |}
      end
  | SEnd id =>
      match remove_id id (s_running s) with
      | None => None
      | Some (r, rest) =>
          Some {| s_arrived := s_arrived s; s_decq := s_decq s; s_execq := s_execq s; s_running := rest;
                  s_log := s_log s ++ (match r_kind r with KCall _ => [EEnd id] | _ => [] end)
                                   ++ (if s_codec_closed s then [] else [EResp id (resp_of (r_kind r))]);
                  s_wg := s_wg s - 1; s_rd_alive := s_rd_alive s; s_tail := s_tail s;
                  s_waiting := s_waiting s; s_codec_closed := s_codec_closed s; s_fault := s_fault s |}
      end
  | SReadFail =>
      if negb (s_rd_alive s) then None else
      Some {| s_arrived := s_arrived s; s_decq := s_decq s; s_execq := s_execq s; s_running := s_running s;
              s_log := s_log s; s_wg := s_wg s; s_rd_alive := false; s_tail := tail0;
              s_waiting := s_waiting s; s_codec_closed := s_codec_closed s; s_fault := s_fault s |}
  | STail =>
      if s_rd_alive s then None else
      match s_tail s with
      | [] => None
      | t :: rest =>
          let pop f w c :=
            Some {| s_arrived := s_arrived s; s_decq := s_decq s; s_execq := s_execq s; s_running := s_running s;
                    s_log := s_log s; s_wg := s_wg s; s_rd_alive := false; s_tail := rest;
                    s_waiting := w; s_codec_closed := c; s_fault := f |} in
          match t with
          | TDrain => if match s_decq s with [] => true | _ => false end then pop (s_fault s) (s_waiting s) (s_codec_closed s) else None
          | TWgWait =>
              if Nat.eqb (s_wg s) 0 then pop (s_fault s) true (s_codec_closed s)
              else if s_waiting s then None
              else Some {| s_arrived := s_arrived s; s_decq := s_decq s; s_execq := s_execq s; s_running := s_running s;
                           s_log := s_log s; s_wg := s_wg s; s_rd_alive := false; s_tail := s_tail s;
                           s_waiting := true; s_codec_closed := s_codec_closed s; s_fault := s_fault s |}
          | TCodecClose => pop (s_fault s) (s_waiting s) true
          | TStreamsClose => pop (s_fault s || negb (match s_decq s with [] => true | _ => false end)) (s_waiting s) (s_codec_closed s)
          | _ => pop (s_fault s) (s_waiting s) (s_codec_closed s)
          end
      end
  end.

Fixpoint run (tail0 : list tstep) (cf : cfg) (tr : list action) (s : sst) : option sst :=
  match tr with
  | [] => Some s
  | a :: tr' => match step tail0 cf s a with Some s' => run tail0 cf tr' s' | None => None end
  end.

(* ---- projections of the log ---- *)
Definition starts (l : list ev) : list nat := flat_map (fun e => match e with EStart i => [i] | _ => [] end) l.
Definition ends (l : list ev) : list nat := flat_map (fun e => match e with EEnd i => [i] | _ => [] end) l.
Definition resps (l : list ev) : list nat := flat_map (fun e => match e with EResp i _ => [i] | _ => [] end) l.
Definition handler_resps (l : list ev) : list nat :=
  flat_map (fun e => match e with EResp i RAck => [] | EResp i _ => [i] | _ => [] end) l.
Definition calls_of (l : list req) : list nat :=
  flat_map (fun r => match r_kind r with KCall _ => [r_id r] | _ => [] end) l.
Definition dispatched_of (l : list req) : list nat :=
  flat_map (fun r => match r_kind r with KBadHeader | KPing => [] | _ => [r_id r] end) l.
Definition answered_of (l : list req) : list nat :=
  flat_map (fun r => match r_kind r with KBadHeader => [] | _ => [r_id r] end) l.

(* the tails read from the source on this run *)
Definition servecodec_tail : list tstep :=
  match tail_steps Generated.servecodec_tail with Some l => l | None => [] end.
Definition poll_eof_tail : list tstep :=
  match tail_steps Generated.poll_eof_tail with Some l => l | None => [] end.
