(* Server/Match.v — the server's side of the peer rule of Conn/Compose.v.

   Server/Inv.v counts: every response bears the number of a request that
   arrived, at most one per request.  What Conn/Compose.v asks of an honest
   peer is more: the response written under a number is the one DETERMINED BY
   THE REQUEST THAT CAME UNDER THAT NUMBER — an acknowledgement only for a
   ping, a success reply only for a request naming a registered handler whose
   run returned no error, an error response for the others — never a
   response computed for a different request.  That is [response_matches_request]:
   in every reachable state, whatever the mode, the interleaving and the
   disconnect point, each event in the log is accounted for by a request that
   arrived carrying the same number and the kind that dictates the event; and
   when the client numbers its requests distinctly (Conn: sequence_numbers_unique)
   that request is unique, so 'the request a response answers' is unambiguous.

   The request record moves through the machine whole (arrived -> decode queue
   -> dispatched -> running): [queued_arrived] says that what is queued or
   running IS a request that arrived, not a copy that could differ. *)
From Coq Require Import List Arith Bool Lia String Permutation.
From RPC Require Import Res.
From RPC.Server Require Import Model InvLemmas Inv.
Import ListNotations.
Open Scope nat_scope.

(* the response the code owes a request of this kind (None: dropped without an answer) *)
Definition expected_resp (k : rkind) : option rresp :=
  match k with
  | KBadHeader => None
  | KPing => Some RAck
  | KCall false => Some RReply
  | KCall true | KUnknown | KBadArgs => Some RError
  end.

Definition is_call (k : rkind) : Prop := match k with KCall _ => True | _ => False end.

(* an event is accounted for by a request that arrived *)
Definition accounted (arr : list req) (e : ev) : Prop :=
  match e with
  | EResp id k => exists r, In r arr /\ r_id r = id /\ expected_resp (r_kind r) = Some k
  | EStart id | EEnd id => exists r, In r arr /\ r_id r = id /\ is_call (r_kind r)
  end.

Record MInv (s : sst) : Prop := {
  m_decq : incl (s_decq s) (s_arrived s);
  m_execq : incl (s_execq s) (s_arrived s);
  m_run : incl (s_running s) (s_arrived s);
  m_log : Forall (accounted (s_arrived s)) (s_log s)
}.

Lemma accounted_mono arr r e : accounted arr e -> accounted (arr ++ [r]) e.
Proof.
  destruct e as [id|id|id k]; simpl; intros (x & Hin & H); exists x; (split; [apply in_or_app; left; exact Hin|exact H]).
Qed.

Lemma MInv_init : MInv init.
Proof. constructor; simpl; try (intros x []); constructor. Qed.

Lemma MInv_enq s r : MInv s -> MInv (enq r s).
Proof.
  intros [M1 M2 M3 M4]. constructor; simpl.
  - intros x Hx. apply in_app_or in Hx. apply in_or_app. destruct Hx as [Hx|Hx]; [left; apply M1; exact Hx|right; exact Hx].
  - intros x Hx. apply in_or_app. left. apply M2. exact Hx.
  - intros x Hx. apply in_or_app. left. apply M3. exact Hx.
  - eapply Forall_impl; [|exact M4]. intros e He. apply accounted_mono. exact He.
Qed.

Lemma Forall_snoc {A} (P : A -> Prop) l x : Forall P l -> P x -> Forall P (l ++ [x]).
Proof. intros Hl Hx. apply Forall_app. split; [exact Hl|constructor; [exact Hx|constructor]]. Qed.

Lemma incl_mid_drop {A} (l1 l2 m : list A) r : incl (l1 ++ r :: l2) m -> incl (l1 ++ l2) m.
Proof.
  intros Hi x Hx. apply Hi. apply in_app_or in Hx. apply in_or_app.
  destruct Hx as [Hx|Hx]; [left; exact Hx|right; right; exact Hx].
Qed.

Lemma incl_mid_in {A} (l1 l2 m : list A) r : incl (l1 ++ r :: l2) m -> In r m.
Proof. intros Hi. apply Hi. apply in_or_app. right. left. reflexivity. Qed.

Lemma incl_snoc {A} (l m : list A) r : incl l m -> In r m -> incl (l ++ [r]) m.
Proof.
  intros Hi Hr x Hx. apply in_app_or in Hx. destruct Hx as [Hx|[Hx|[]]]; [apply Hi; exact Hx|subst x; exact Hr].
Qed.

Lemma MInv_step tail0 cf s a s' : CInv s -> MInv s -> not_arrive a -> step tail0 cf s a = Some s' -> MInv s'.
Proof.
  intros HC HM NA H. step_split H NA; destruct HM as [M1 M2 M3 M4]; simpl in *;
    [ | | | | constructor; simpl; auto .. ].
  - (* SDecode *)
    assert (Hr : In r arr) by (apply M1; left; reflexivity).
    assert (M1' : incl rest arr) by (intros x Hx; apply M1; right; exact Hx).
    unfold dispatch; simpl. destruct (r_kind r) eqn:K; [|destruct closed|..]; constructor; simpl; auto;
      try (apply incl_snoc; assumption).
    apply Forall_snoc; [exact M4|]. simpl. exists r. rewrite K. simpl. auto.
  - (* SStart *)
    pose proof (incl_mid_in _ _ _ _ M2) as Hr.
    constructor; simpl; auto.
    + eapply incl_mid_drop; exact M2.
    + apply incl_snoc; assumption.
    + destruct (r_kind r) eqn:K; rewrite ?app_nil_r; auto.
      apply Forall_snoc; [exact M4|]. simpl. exists r. rewrite K. simpl. auto.
  - (* SEnd *)
    pose proof (incl_mid_in _ _ _ _ M3) as Hr.
    destruct HC as [_ _ _ _ _ C6 _]. simpl in C6.
    apply Forall_app in C6. destruct C6 as [_ F2]. inversion F2 as [|? ? Hd _]; subst.
    unfold dispatchable in Hd.
    constructor; simpl; auto.
    + eapply incl_mid_drop; exact M3.
    + apply Forall_app. split; [exact M4|]. apply Forall_app. split.
      * destruct (r_kind r) eqn:K; constructor; [|constructor]. simpl. exists r. rewrite K. simpl. auto.
      * destruct closed; constructor; [|constructor]. simpl. exists r.
        destruct (r_kind r) as [| | | |[|]]; try contradiction; simpl; auto.
  - (* SReadFail *) constructor; simpl; auto.
Qed.

Theorem reach_MInv tail0 cf tr s : run tail0 cf tr init = Some s -> MInv s.
Proof.
  intros H.
  assert (HH : CInv s /\ MInv s); [|exact (proj2 HH)].
  revert H. apply (reach_ind tail0 cf (fun s => CInv s /\ MInv s)).
  - split; [apply CInv_init|apply MInv_init].
  - intros s0 r [C M] _. split; [apply CInv_enq; exact C|apply MInv_enq; exact M].
  - intros s0 a s1 [C M] NA St. split; [eapply CInv_step; eauto|eapply MInv_step; eauto].
Qed.

(* ---- the theorems ---- *)

(* what is queued or running is a request that arrived *)
Theorem queued_arrived tail0 cf s r : reachable tail0 cf s ->
  In r (s_decq s) \/ In r (s_execq s) \/ In r (s_running s) -> In r (s_arrived s).
Proof.
  intros [tr H] Hin. apply reach_MInv in H. destruct H as [M1 M2 M3 _].
  destruct Hin as [Hin|[Hin|Hin]]; [apply M1|apply M2|apply M3]; exact Hin.
Qed.

(* every response is the one its own request dictates *)
Theorem response_matches_request tail0 cf s id k : reachable tail0 cf s ->
  In (EResp id k) (s_log s) ->
  exists r, In r (s_arrived s) /\ r_id r = id /\ expected_resp (r_kind r) = Some k.
Proof.
  intros [tr H] Hin. apply reach_MInv in H. destruct H as [_ _ _ M4].
  rewrite Forall_forall in M4. exact (M4 _ Hin).
Qed.

(* a handler is entered (and left) only for a request that names a registered handler *)
Theorem handler_runs_for_call tail0 cf s id : reachable tail0 cf s ->
  In (EStart id) (s_log s) \/ In (EEnd id) (s_log s) ->
  exists r, In r (s_arrived s) /\ r_id r = id /\ is_call (r_kind r).
Proof.
  intros [tr H] Hin. apply reach_MInv in H. destruct H as [_ _ _ M4].
  rewrite Forall_forall in M4. destruct Hin as [Hin|Hin]; exact (M4 _ Hin).
Qed.

Lemma NoDup_map_inj {A B} (f : A -> B) : forall (l : list A) a b,
  NoDup (map f l) -> In a l -> In b l -> f a = f b -> a = b.
Proof.
  induction l as [|x l IH]; intros a b ND Ha Hb E; [destruct Ha|].
  simpl in ND. inversion ND as [|? ? Hnin ND']; subst.
  destruct Ha as [Ha|Ha], Hb as [Hb|Hb].
  - subst. reflexivity.
  - subst a. exfalso. apply Hnin. rewrite E. apply in_map. exact Hb.
  - subst b. exfalso. apply Hnin. rewrite <- E. apply in_map. exact Ha.
  - apply IH; assumption.
Qed.

(* with distinct numbers the request is unique: a success reply under number id means THE
   request numbered id named a registered handler and that handler returned no error; an
   acknowledgement means it was a ping; in particular two different requests can never have
   their responses swapped *)
Theorem response_determined tail0 cf s id k r : reachable tail0 cf s -> distinct_ids s ->
  In (EResp id k) (s_log s) -> In r (s_arrived s) -> r_id r = id ->
  expected_resp (r_kind r) = Some k.
Proof.
  intros HR D Hin Hr Hid.
  destruct (response_matches_request _ _ _ _ _ HR Hin) as (r0 & Hr0 & Hid0 & E).
  assert (Heq : r = r0).
  { apply (NoDup_map_inj r_id (s_arrived s)); [exact D|exact Hr|exact Hr0|congruence]. }
  subst r0. exact E.
Qed.

Corollary success_reply_only_for_successful_call tail0 cf s id r : reachable tail0 cf s -> distinct_ids s ->
  In (EResp id RReply) (s_log s) -> In r (s_arrived s) -> r_id r = id -> r_kind r = KCall false.
Proof.
  intros HR D Hin Hr Hid.
  pose proof (response_determined _ _ _ _ _ _ HR D Hin Hr Hid) as E.
  destruct (r_kind r) as [| | | |[|]]; simpl in E; try discriminate. reflexivity.
Qed.

(* non-vacuity: a ping, a failing call and a successful call, answered out of arrival order *)
Definition ex_reqs : list req :=
  [ {| r_id := 1; r_kind := KPing |}; {| r_id := 2; r_kind := KCall true |}; {| r_id := 3; r_kind := KCall false |} ].
Definition ex_cfg : cfg := {| pipelining := false; directIO := false |}.
Definition ex_trace : list action :=
  map SArrive ex_reqs ++ [SDecode; SDecode; SDecode; SStart 1; SStart 0; SEnd 3; SEnd 2].
Example ex_match :
  exists s, run servecodec_tail ex_cfg ex_trace init = Some s /\
    s_log s = [EResp 1 RAck; EStart 3; EStart 2; EEnd 3; EResp 3 RReply; EEnd 2; EResp 2 RError] /\
    distinct_ids s.
Proof.
  eexists. split; [vm_compute; reflexivity|]. split; [reflexivity|].
  unfold distinct_ids; simpl.
  repeat constructor; simpl; intuition discriminate.
Qed.

Print Assumptions response_matches_request.
Print Assumptions response_determined.
Print Assumptions success_reply_only_for_successful_call.
