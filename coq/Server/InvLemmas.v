(* Server/InvLemmas.v — the invariants of Server/Model.v behind the theorems of Server/Inv.v.

   Structure:
   - [reach_ind]: an induction principle over reachable states in which [SArrive] is split into
     "enqueue" ([enq]) possibly followed by an [SDecode] (directIO), so that every invariant is
     proved for: init, enq, SDecode, SStart, SEnd, SReadFail, STail.
   - [CInv]: counting invariants (multiset accounting through [count_occ]), WaitGroup exactness.
   - [PInv]: order invariants under pipelining.
   - [TInv]: progress of the teardown tail (needs [safe_order tail0]). *)
From Coq Require Import List Arith Bool Lia String Permutation NArith.
From RPC Require Import Res Upgrade.
From RPC.Server Require Import Model.
Import ListNotations.
Open Scope nat_scope.

Notation cnt := (count_occ Nat.eq_dec).

(* ---- list helpers ---- *)
Lemma remove_nth_split {A} i : forall (l : list A) r, nth_error l i = Some r ->
  exists l1 l2, l = l1 ++ r :: l2 /\ remove_nth i l = l1 ++ l2 /\ length l1 = i.
Proof.
  induction i; intros [|a l] r H; simpl in H; try discriminate.
  - inversion H; subst. exists [], l. repeat split; reflexivity.
  - destruct (IHi l r H) as (l1 & l2 & E1 & E2 & E3). exists (a :: l1), l2.
    split; [rewrite E1; reflexivity|]. split; [|simpl; rewrite E3; reflexivity].
    unfold remove_nth in *.
    change (firstn (S i) (a :: l)) with (a :: firstn i l).
    change (skipn (S (S i)) (a :: l)) with (skipn (S i) l).
    change ((a :: firstn i l) ++ skipn (S i) l) with (a :: (firstn i l ++ skipn (S i) l)).
    rewrite E2. reflexivity.
Qed.

Lemma remove_id_split id : forall l r rest, remove_id id l = Some (r, rest) ->
  exists l1 l2, l = l1 ++ r :: l2 /\ rest = l1 ++ l2 /\ r_id r = id.
Proof.
  induction l as [|a l IH]; intros r rest H; simpl in H; [discriminate|].
  destruct (Nat.eqb (r_id a) id) eqn:E.
  - inversion H; subst. apply Nat.eqb_eq in E. exists [], rest. repeat split; auto.
  - destruct (remove_id id l) as [[x l']|] eqn:R; [|discriminate]. inversion H; subst.
    destruct (IH _ _ eq_refl) as (l1 & l2 & E1 & E2 & Hid). exists (a :: l1), l2.
    subst. repeat split; auto.
Qed.

Lemma remove_id_some id : forall l r, In r l -> r_id r = id -> remove_id id l <> None.
Proof.
  induction l as [|a l IH]; intros r Hin Hid; [destruct Hin|]. simpl.
  destruct (Nat.eqb (r_id a) id) eqn:E; [discriminate|].
  destruct Hin as [->|Hin]; [apply Nat.eqb_neq in E; contradiction|].
  specialize (IH r Hin Hid). destruct (remove_id id l) as [[x l']|]; [discriminate|contradiction].
Qed.

(* ---- the machine: SArrive = enqueue, then (directIO) decode at once ---- *)
Definition enq (r : req) (s : sst) : sst :=
  {| s_arrived := s_arrived s ++ [r]; s_decq := s_decq s ++ [r]; s_execq := s_execq s; s_running := s_running s;
     s_log := s_log s; s_wg := s_wg s; s_rd_alive := true; s_tail := s_tail s;
     s_waiting := s_waiting s; s_codec_closed := s_codec_closed s; s_fault := s_fault s |}.

Lemma dispatch_decq r s : s_decq (dispatch r s) = s_decq s.
Proof. unfold dispatch. destruct (r_kind r); try reflexivity. destruct (s_codec_closed s); reflexivity. Qed.

Definition not_arrive (a : action) : Prop := match a with SArrive _ => False | _ => True end.

Lemma step_decq_nil tail0 cf s a s' : not_arrive a -> step tail0 cf s a = Some s' -> s_decq s = [] -> s_decq s' = [].
Proof.
  intros NA H D. destruct a; simpl in NA; try contradiction; simpl in H.
  - rewrite D in H. discriminate.
  - destruct (pipelining cf && _); [discriminate|].
    destruct (nth_error (s_execq s) i); [|discriminate]. inversion H; subst; simpl; auto.
  - destruct (remove_id id (s_running s)) as [[r rest]|]; [|discriminate]. inversion H; subst; simpl; auto.
  - destruct (negb (s_rd_alive s)); [discriminate|]. inversion H; subst; simpl; auto.
  - destruct (s_rd_alive s); [discriminate|]. destruct (s_tail s) as [|t rest]; [discriminate|].
    rewrite D in H.
    destruct t; simpl in H;
      try (inversion H; subst; simpl; auto; fail).
    destruct (Nat.eqb (s_wg s) 0); [inversion H; subst; simpl; auto|].
    destruct (s_waiting s); [discriminate|]. inversion H; subst; simpl; auto.
Qed.

Lemma run_inv (P : sst -> Prop) tail0 cf :
  (forall s a s', P s -> step tail0 cf s a = Some s' -> P s') ->
  forall tr s s', P s -> run tail0 cf tr s = Some s' -> P s'.
Proof.
  intros Hs. induction tr as [|a tr IH]; simpl; intros s s' HP H.
  - inversion H; subst; auto.
  - destruct (step tail0 cf s a) eqn:E; [|discriminate]. eapply IH; [|exact H]. eapply Hs; eauto.
Qed.

Section Reach.
  Variables (tail0 : list tstep) (cf : cfg) (P : sst -> Prop).
  Hypothesis Pinit : P init.
  Hypothesis Penq : forall s r, P s -> s_rd_alive s = true -> P (enq r s).
  Hypothesis Pstep : forall s a s', P s -> not_arrive a -> step tail0 cf s a = Some s' -> P s'.

  Let Q (s : sst) : Prop := P s /\ (directIO cf = true -> s_decq s = []).

  Lemma Q_step s a s' : Q s -> step tail0 cf s a = Some s' -> Q s'.
  Proof.
    intros [HP HD] H.
    assert (NAcase : not_arrive a -> Q s').
    { intros NA. split; [eapply Pstep; eauto|]. intros D. eapply step_decq_nil; eauto. }
    destruct a; try (apply NAcase; exact I). clear NAcase.
    destruct (s_rd_alive s) eqn:AL; [|simpl in H; rewrite AL in H; discriminate].
    destruct (directIO cf) eqn:DIO.
    - assert (E : step tail0 cf s (SArrive r) = step tail0 cf (enq r s) SDecode).
      { specialize (HD eq_refl). destruct s; simpl in *. rewrite DIO. subst. reflexivity. }
      split.
      + rewrite E in H. exact (Pstep (enq r s) SDecode s' (Penq s r HP AL) I H).
      + intros _. simpl in H. rewrite AL, DIO in H. simpl in H. inversion H.
        rewrite dispatch_decq. simpl. auto.
    - simpl in H. rewrite AL, DIO in H. simpl in H. inversion H; subst. split.
      + apply (Penq s r HP AL).
      + intros; discriminate.
  Qed.

  Theorem reach_ind tr s : run tail0 cf tr init = Some s -> P s.
  Proof.
    intros H. apply (run_inv Q tail0 cf Q_step tr init s); [|exact H].
    split; [exact Pinit|reflexivity].
  Qed.
End Reach.

(* ---- case analysis of one non-arrive step, on an exploded state ---- *)
Ltac step_split H NA :=
  match type of H with
  | step _ _ ?s ?a = Some ?s' =>
    destruct s as [arr decq execq running log wg alive tail waiting closed fault];
    destruct a as [r0| |i|id| |]; simpl in NA; try contradiction; clear NA; simpl in H;
    [ destruct decq as [|r rest]; [discriminate|]; inversion H; subst s'; clear H
    | destruct (pipelining _ && _) eqn:PIPE; [discriminate|];
      destruct (nth_error execq i) as [r|] eqn:NTH; [|discriminate];
      inversion H; subst s'; clear H;
      destruct (remove_nth_split _ _ _ NTH) as (l1 & l2 & E1 & E2 & Hlen); rewrite E2; subst execq; clear E2
    | destruct (remove_id id running) as [[r rest]|] eqn:RID; [|discriminate];
      inversion H; subst s'; clear H;
      destruct (remove_id_split _ _ _ _ RID) as (l1 & l2 & E1 & E2 & Hid); subst running rest
    | destruct alive; [|discriminate]; inversion H; subst s'; clear H
    | destruct alive; [discriminate|]; destruct tail as [|t rest]; [discriminate|];
      destruct t; simpl in H;
      [ destruct decq; [|discriminate]
      | destruct (Nat.eqb wg 0) eqn:WG0; [|destruct waiting; [discriminate|]]
      | | | | | ];
      inversion H; subst s'; clear H ]
  end.

Ltac fm_norm :=
  unfold calls_of, starts, ends, resps, handler_resps, dispatched_of, answered_of in *;
  rewrite ?flat_map_app in *; simpl in *;
  repeat match goal with K : r_kind _ = _ |- _ => rewrite K in * end; simpl in *;
  rewrite ?flat_map_app in *; simpl in *.

Ltac cnt_lia :=
  fm_norm; rewrite ?count_occ_app in *; simpl in *;
  repeat match goal with |- context [Nat.eq_dec ?a ?b] => destruct (Nat.eq_dec a b) 
                       | _ : context [Nat.eq_dec ?a ?b] |- _ => destruct (Nat.eq_dec a b) end;
  try lia.

(* ---- counting invariants ---- *)
Definition dispatchable (r : req) : Prop :=
  match r_kind r with KBadHeader | KPing => False | _ => True end.

Record CInv (s : sst) : Prop := {
  c_calls : forall x, cnt (calls_of (s_arrived s)) x =
              cnt (calls_of (s_decq s)) x + cnt (calls_of (s_execq s)) x + cnt (starts (s_log s)) x;
  c_run : forall x, cnt (starts (s_log s)) x = cnt (ends (s_log s)) x + cnt (calls_of (s_running s)) x;
  c_resp_le : forall x, cnt (answered_of (s_decq s)) x + cnt (dispatched_of (s_execq s)) x +
                        cnt (dispatched_of (s_running s)) x + cnt (resps (s_log s)) x
                        <= cnt (answered_of (s_arrived s)) x;
  c_resp_eq : s_codec_closed s = false -> forall x,
              cnt (answered_of (s_arrived s)) x =
              cnt (answered_of (s_decq s)) x + cnt (dispatched_of (s_execq s)) x +
              cnt (dispatched_of (s_running s)) x + cnt (resps (s_log s)) x;
  c_de : Forall dispatchable (s_execq s);
  c_dr : Forall dispatchable (s_running s);
  c_wg : s_wg s = length (s_execq s) + length (s_running s)
}.

Ltac cinv_goals C1 C2 C3 C4 :=
  let x := fresh "x" in let Hc := fresh "Hc" in
  constructor; simpl;
  [ intro x; specialize (C1 x); cnt_lia
  | intro x; specialize (C2 x); cnt_lia
  | intro x; specialize (C3 x); cnt_lia
  | intro Hc; try discriminate; intro x; specialize (C4 Hc x); cnt_lia
  | | | ].

Lemma CInv_init : CInv init.
Proof. constructor; simpl; auto; intros; lia. Qed.

Lemma CInv_enq s r : CInv s -> CInv (enq r s).
Proof.
  intros [C1 C2 C3 C4 C5 C6 C7]. destruct s; simpl in *.
  cinv_goals C1 C2 C3 C4; auto.
Qed.

Lemma CInv_step tail0 cf s a s' : CInv s -> not_arrive a -> step tail0 cf s a = Some s' -> CInv s'.
Proof.
  intros HI NA H. step_split H NA; destruct HI as [C1 C2 C3 C4 C5 C6 C7]; simpl in *;
    [ | | | | cinv_goals C1 C2 C3 C4; auto .. ]. (* STail: one goal per kind of teardown step *)
  - (* SDecode *)
    unfold dispatch; simpl. destruct (r_kind r) eqn:K; [|destruct closed|..];
      cinv_goals C1 C2 C3 C4; auto;
      try (apply Forall_app; split; auto; constructor; auto; unfold dispatchable; rewrite K; exact I);
      rewrite ?app_length; simpl; lia.
  - (* SStart *)
    apply Forall_app in C5. destruct C5 as [F1 F2]. inversion F2; subst.
    destruct (r_kind r) eqn:K; cinv_goals C1 C2 C3 C4;
      try (apply Forall_app; split; auto);
      rewrite ?app_length in *; simpl in *; lia.
  - (* SEnd *)
    apply Forall_app in C6. destruct C6 as [F1 F2]. inversion F2 as [|? ? Hd F3]; subst.
    unfold dispatchable in Hd.
    destruct (r_kind r) as [| | | |[|]] eqn:K; try contradiction; destruct closed;
      cinv_goals C1 C2 C3 C4; auto;
      try (apply Forall_app; split; auto);
      rewrite ?app_length in *; simpl in *; lia.
  - (* SReadFail *) cinv_goals C1 C2 C3 C4; auto.
Qed.

(* ---- order invariants under pipelining ---- *)
Record PInv (s : sst) : Prop := {
  p_len : length (s_running s) <= 1;
  p_se : starts (s_log s) = ends (s_log s) ++ calls_of (s_running s);
  p_order : calls_of (s_arrived s) = starts (s_log s) ++ calls_of (s_execq s) ++ calls_of (s_decq s);
  p_resp : s_codec_closed s = false ->
           dispatched_of (s_arrived s) =
           handler_resps (s_log s) ++ dispatched_of (s_running s) ++ dispatched_of (s_execq s) ++ dispatched_of (s_decq s)
}.

Ltac app_norm := rewrite ?app_nil_r; repeat rewrite <- app_assoc; simpl; try reflexivity.

Ltac pinv_goals P1 P2 P3 P4 :=
  let Hc := fresh "Hc" in
  constructor; simpl;
  [ try (simpl in P1; lia)
  | fm_norm; rewrite ?P2; app_norm
  | fm_norm; rewrite ?P3; app_norm
  | intro Hc; try discriminate; specialize (P4 Hc); fm_norm; rewrite ?P4; app_norm ].

Lemma PInv_init : PInv init.
Proof. constructor; simpl; auto. Qed.

Lemma PInv_enq s r : PInv s -> PInv (enq r s).
Proof.
  intros [P1 P2 P3 P4]. destruct s; simpl in *. pinv_goals P1 P2 P3 P4.
Qed.

Lemma PInv_step tail0 cf s a s' : pipelining cf = true ->
  CInv s -> PInv s -> not_arrive a -> step tail0 cf s a = Some s' -> PInv s'.
Proof.
  intros PL HC HI NA H. step_split H NA; destruct HI as [P1 P2 P3 P4]; simpl in *;
    [ | | | | pinv_goals P1 P2 P3 P4 .. ].
  - (* SDecode *)
    unfold dispatch; simpl. destruct (r_kind r) eqn:K; [|destruct closed|..]; pinv_goals P1 P2 P3 P4.
  - (* SStart *)
    rewrite PL in PIPE. simpl in PIPE. apply orb_false_elim in PIPE. destruct PIPE as [Pi Pr].
    apply negb_false_iff in Pi, Pr. apply Nat.eqb_eq in Pi. subst i.
    destruct running; [|discriminate]. destruct l1; [|discriminate]. simpl in *.
    destruct (r_kind r) eqn:K; pinv_goals P1 P2 P3 P4.
  - (* SEnd *)
    destruct HC as [_ _ _ _ _ C6 _]. simpl in C6.
    apply Forall_app in C6. destruct C6 as [F1 F2]. inversion F2 as [|? ? Hd F3]; subst.
    unfold dispatchable in Hd. rewrite app_length in P1. simpl in P1.
    destruct l1; [|simpl in P1; lia]. destruct l2; [|simpl in P1; lia]. simpl in *.
    destruct (r_kind r) as [| | | |[|]] eqn:K; try contradiction; destruct closed; pinv_goals P1 P2 P3 P4.
  - (* SReadFail *) pinv_goals P1 P2 P3 P4.
Qed.

(* ---- the teardown tail ---- *)
Lemma tstep_eqb_eq a b : tstep_eqb a b = true <-> a = b.
Proof. destruct a, b; simpl; split; intro H; try reflexivity; discriminate. Qed.

Lemma precedes_in a b : a <> b -> forall pre rest, precedes a b (pre ++ b :: rest) = true -> In a pre.
Proof.
  intros NE. induction pre as [|x pre IH]; intros rest H.
  - exfalso. unfold precedes in H. simpl in H.
    assert (E1 : tstep_eqb b b = true) by (apply tstep_eqb_eq; reflexivity).
    assert (E2 : tstep_eqb b a = false).
    { destruct (tstep_eqb b a) eqn:E; [|reflexivity]. apply tstep_eqb_eq in E. congruence. }
    rewrite E1, E2 in H. destruct (first_at a rest); simpl in H; discriminate.
  - destruct (tstep_eqb x a) eqn:E; [apply tstep_eqb_eq in E; left; exact E|].
    right. apply (IH rest). unfold precedes in *. simpl in H. rewrite E in H.
    destruct (tstep_eqb x b) eqn:E'.
    + destruct (first_at a (pre ++ b :: rest)); simpl in H; discriminate.
    + destruct (first_at a (pre ++ b :: rest)), (first_at b (pre ++ b :: rest)); simpl in *; auto.
Qed.

Record TInv (tail0 : list tstep) (s : sst) : Prop := {
  t_alive : s_rd_alive s = true -> s_waiting s = false;
  t_tail : s_rd_alive s = false ->
           exists pre, tail0 = pre ++ s_tail s /\ (In TDrain pre -> s_decq s = []) /\
                       (s_waiting s = true -> In TDrain pre);
  t_fault : s_fault s = false
}.

Lemma TInv_init tail0 : TInv tail0 init.
Proof. constructor; simpl; auto; discriminate. Qed.

Lemma TInv_enq tail0 s r : TInv tail0 s -> s_rd_alive s = true -> TInv tail0 (enq r s).
Proof.
  intros [T1 T2 T3] AL. destruct s; simpl in *. constructor; simpl; auto; discriminate.
Qed.

Lemma TInv_step tail0 cf s a s' : safe_order tail0 = true ->
  TInv tail0 s -> not_arrive a -> step tail0 cf s a = Some s' -> TInv tail0 s'.
Proof.
  intros SAFE HI NA H.
  unfold safe_order in SAFE. apply andb_prop in SAFE. destruct SAFE as [SAFE _].
  apply andb_prop in SAFE. destruct SAFE as [SAFE _].
  apply andb_prop in SAFE. destruct SAFE as [SW SS].
  assert (PW : forall pre rest, tail0 = pre ++ TWgWait :: rest -> In TDrain pre).
  { intros pre rest E. apply (precedes_in TDrain TWgWait) with (rest := rest); [discriminate|]. rewrite <- E. exact SW. }
  assert (PS : forall pre rest, tail0 = pre ++ TStreamsClose :: rest -> In TDrain pre).
  { intros pre rest E. apply (precedes_in TDrain TStreamsClose) with (rest := rest); [discriminate|]. rewrite <- E. exact SS. }
  assert (SNOC : forall (pre : list tstep) t rest, pre ++ t :: rest = (pre ++ [t]) ++ rest).
  { intros. rewrite <- app_assoc. reflexivity. }
  step_split H NA; destruct HI as [T1 T2 T3]; simpl in *.
  - (* SDecode *)
    assert (W : waiting = false).
    { destruct alive; [auto|]. destruct (T2 eq_refl) as (pre & E & D & Wt).
      destruct waiting; [|reflexivity]. specialize (D (Wt eq_refl)). discriminate. }
    subst waiting.
    assert (T2' : alive = false -> exists pre, tail0 = pre ++ tail /\ (In TDrain pre -> rest = []) /\ (false = true -> In TDrain pre)).
    { intros AL. destruct (T2 AL) as (pre & E & D & Wt). exists pre. repeat split; auto.
      intros Hin. specialize (D Hin). discriminate. }
    unfold dispatch; simpl. destruct (r_kind r); [|destruct closed|..]; constructor; simpl; auto;
      rewrite T3; reflexivity.
  - constructor; simpl; auto.
  - constructor; simpl; auto.
  - (* SReadFail *) constructor; simpl; auto; try discriminate.
    intros _. exists []. repeat split; auto; try contradiction. rewrite (T1 eq_refl). discriminate.
  - (* TDrain *) destruct (T2 eq_refl) as (pre & E & D & Wt). constructor; simpl; auto; try discriminate.
    intros _. exists (pre ++ [TDrain]). rewrite <- SNOC. repeat split; auto.
    intros _. apply in_or_app. right. left. reflexivity.
  - (* TWgWait, counter zero *) destruct (T2 eq_refl) as (pre & E & D & Wt). constructor; simpl; auto; try discriminate.
    intros _. exists (pre ++ [TWgWait]). rewrite <- SNOC. repeat split; auto.
    + intros _. apply D. eapply PW; eauto.
    + intros _. apply in_or_app. left. eapply PW; eauto.
  - (* TWgWait, blocks *) destruct (T2 eq_refl) as (pre & E & D & Wt). constructor; simpl; auto; try discriminate.
    intros _. exists pre. repeat split; auto. intros _. eapply PW; eauto.
  - (* TCodecClose *) destruct (T2 eq_refl) as (pre & E & D & Wt). constructor; simpl; auto; try discriminate.
    intros _. exists (pre ++ [TCodecClose]). rewrite <- SNOC. repeat split; auto.
    + intros Hin. apply D. apply in_app_or in Hin. destruct Hin as [|[Hin|[]]]; [auto|discriminate].
    + intros Hw. apply in_or_app. left. auto.
  - (* TSchedClose *) destruct (T2 eq_refl) as (pre & E & D & Wt). constructor; simpl; auto; try discriminate.
    intros _. exists (pre ++ [TSchedClose]). rewrite <- SNOC. repeat split; auto.
    + intros Hin. apply D. apply in_app_or in Hin. destruct Hin as [|[Hin|[]]]; [auto|discriminate].
    + intros Hw. apply in_or_app. left. auto.
  - (* TStreamsClose *) destruct (T2 eq_refl) as (pre & E & D & Wt).
    assert (DQ : decq = []) by (apply D; eapply PS; eauto). subst decq.
    constructor; simpl; auto; try discriminate.
    + intros _. exists (pre ++ [TStreamsClose]). rewrite <- SNOC. repeat split; auto.
      intros Hw. apply in_or_app. left. auto.
    + rewrite T3. reflexivity.
  - (* TQueueClose *) destruct (T2 eq_refl) as (pre & E & D & Wt). constructor; simpl; auto; try discriminate.
    intros _. exists (pre ++ [TQueueClose]). rewrite <- SNOC. repeat split; auto.
    + intros Hin. apply D. apply in_app_or in Hin. destruct Hin as [|[Hin|[]]]; [auto|discriminate].
    + intros Hw. apply in_or_app. left. auto.
  - (* TOther *) destruct (T2 eq_refl) as (pre & E & D & Wt). constructor; simpl; auto; try discriminate.
    intros _. exists (pre ++ [TOther]). rewrite <- SNOC. repeat split; auto.
    + intros Hin. apply D. apply in_app_or in Hin. destruct Hin as [|[Hin|[]]]; [auto|discriminate].
    + intros Hw. apply in_or_app. left. auto.
Qed.

(* ---- every reachable state satisfies the invariants ---- *)
Theorem reach_CInv tail0 cf tr s : run tail0 cf tr init = Some s -> CInv s.
Proof.
  apply (reach_ind tail0 cf CInv).
  - apply CInv_init.
  - intros; apply CInv_enq; auto.
  - intros; eapply CInv_step; eauto.
Qed.

Theorem reach_PInv tail0 cf tr s : pipelining cf = true -> run tail0 cf tr init = Some s -> PInv s.
Proof.
  intros PL H. apply (reach_ind tail0 cf (fun s => CInv s /\ PInv s)) in H; [tauto| | |].
  - split; [apply CInv_init|apply PInv_init].
  - intros s0 r [HC HP] _. split; [apply CInv_enq|apply PInv_enq]; auto.
  - intros s0 a s1 [HC HP] NA Hs. split; [eapply CInv_step|eapply PInv_step]; eauto.
Qed.

Theorem reach_TInv tail0 cf tr s : safe_order tail0 = true -> run tail0 cf tr init = Some s -> TInv tail0 s.
Proof.
  intros SAFE. apply (reach_ind tail0 cf (TInv tail0)).
  - apply TInv_init.
  - intros; apply TInv_enq; auto.
  - intros; eapply TInv_step; eauto.
Qed.

(* ---- counting lemmas used to read the invariants back as statements about lists ---- *)
Lemma cnt_calls_le_ids l x : cnt (calls_of l) x <= cnt (map r_id l) x.
Proof.
  induction l as [|a l IH]; [simpl; lia|].
  change (calls_of (a :: l)) with ((match r_kind a with KCall _ => [r_id a] | _ => [] end) ++ calls_of l).
  rewrite count_occ_app. simpl map. simpl count_occ at 3.
  destruct (r_kind a); simpl; destruct (Nat.eq_dec (r_id a) x); lia.
Qed.

Lemma cnt_answered_le_ids l x : cnt (answered_of l) x <= cnt (map r_id l) x.
Proof.
  induction l as [|a l IH]; [simpl; lia|].
  change (answered_of (a :: l)) with ((match r_kind a with KBadHeader => [] | _ => [r_id a] end) ++ answered_of l).
  rewrite count_occ_app. simpl map. simpl count_occ at 3.
  destruct (r_kind a); simpl; destruct (Nat.eq_dec (r_id a) x); lia.
Qed.

Lemma cnt_calls_ping l r : In r l -> r_kind r = KPing ->
  cnt (calls_of l) (r_id r) + 1 <= cnt (map r_id l) (r_id r).
Proof.
  intros Hin K. induction l as [|a l IH]; [destruct Hin|].
  change (calls_of (a :: l)) with ((match r_kind a with KCall _ => [r_id a] | _ => [] end) ++ calls_of l).
  rewrite count_occ_app. simpl map. simpl count_occ at 3.
  destruct Hin as [->|Hin].
  - rewrite K. simpl. pose proof (cnt_calls_le_ids l (r_id r)).
    destruct (Nat.eq_dec (r_id r) (r_id r)); [lia|congruence].
  - specialize (IH Hin). destruct (r_kind a); simpl; destruct (Nat.eq_dec (r_id a) (r_id r)); lia.
Qed.

Lemma NoDup_cnt (l : list nat) : NoDup l <-> forall x, cnt l x <= 1.
Proof. apply NoDup_count_occ. Qed.

Lemma perm_cnt (l1 l2 : list nat) : Permutation l1 l2 <-> forall x, cnt l1 x = cnt l2 x.
Proof. apply Permutation_count_occ. Qed.

Lemma in_cnt (l : list nat) x : In x l <-> cnt l x > 0.
Proof. apply count_occ_In. Qed.
