(* Server/Live.v — liveness of the per-connection server machine as
   theorems about runs, not only as one-step enabledness.

   Server/Inv.v proves that nothing can get stuck (decode_enabled,
   start_enabled, end_enabled, teardown_progress: each queue's drain action
   is enabled while the queue is non-empty).  Here those facts are put
   together by induction on the amount of outstanding work:

   - [drains]: from EVERY reachable state there is a finite run of the
     machine's own steps (decode, start a handler, handler returns — no
     arrival, no read failure, no teardown step is needed) after which
     nothing is queued or running; the requests that arrived are unchanged.
     The only thing assumed of user code is that a handler that was entered
     returns (the step [SEnd] is the handler returning).
   - [eventually_answered]: on a connection whose codec is still open that
     run ends in a state where every call was executed exactly once and
     every request that is not dropped was answered exactly once.
   - [teardown_terminates]: once the reader has left its loop there is a
     finite run of own steps after which the teardown tail has been executed
     to its end (ServeCodec returns), nothing is queued or running, the
     WaitGroup counter is zero — and, for a safe order of the tail (the one
     read from the source on every run), no fault occurred on the way. *)
From Coq Require Import List Arith Bool Lia String Permutation.
From RPC Require Import Res.
From RPC.Server Require Import Model InvLemmas Inv.
Import ListNotations.
Open Scope nat_scope.

(* the machine's own work: decode a queued frame, enter a handler, a handler returns *)
Definition work (a : action) : Prop :=
  match a with SDecode | SStart _ | SEnd _ => True | _ => False end.

(* own steps including the teardown tail *)
Definition internal (a : action) : Prop :=
  match a with SArrive _ | SReadFail => False | _ => True end.

Definition idle (s : sst) : Prop := s_decq s = [] /\ s_execq s = [] /\ s_running s = [].

Lemma run_app tail0 cf tr1 tr2 s s1 :
  run tail0 cf tr1 s = Some s1 -> run tail0 cf (tr1 ++ tr2) s = run tail0 cf tr2 s1.
Proof.
  revert s. induction tr1 as [|a tr1 IH]; intros s H; simpl in *.
  - inversion H; subst; reflexivity.
  - destruct (step tail0 cf s a) as [s0|]; [|discriminate]. apply IH; exact H.
Qed.

Lemma reachable_run tail0 cf tr s s' : reachable tail0 cf s -> run tail0 cf tr s = Some s' -> reachable tail0 cf s'.
Proof.
  intros [tr0 H0] H. exists (tr0 ++ tr). rewrite (run_app _ _ _ _ _ _ H0). exact H.
Qed.

(* what no work step touches *)
Definition keep (s s' : sst) : Prop :=
  s_arrived s' = s_arrived s /\ s_rd_alive s' = s_rd_alive s /\ s_tail s' = s_tail s /\
  s_codec_closed s' = s_codec_closed s.

Lemma keep_refl s : keep s s.
Proof. unfold keep; repeat split; reflexivity. Qed.

Lemma keep_trans s1 s2 s3 : keep s1 s2 -> keep s2 s3 -> keep s1 s3.
Proof.
  unfold keep. intros (A1 & A2 & A3 & A4) (B1 & B2 & B3 & B4).
  repeat split; congruence.
Qed.

(* ---- single steps, on an arbitrary state ---- *)
Lemma step_end_head tail0 cf s r rest : s_running s = r :: rest ->
  exists s1, step tail0 cf s (SEnd (r_id r)) = Some s1 /\ s_running s1 = rest /\
    s_decq s1 = s_decq s /\ s_execq s1 = s_execq s /\ keep s s1.
Proof.
  intros R. unfold step. rewrite R. simpl. rewrite Nat.eqb_refl.
  eexists; split; [reflexivity|]. unfold keep; simpl. repeat split; reflexivity.
Qed.

Lemma step_start_head tail0 cf s r l : s_running s = [] -> s_execq s = r :: l ->
  exists s1, step tail0 cf s (SStart 0) = Some s1 /\ s_running s1 = [r] /\ s_execq s1 = l /\
    s_decq s1 = s_decq s /\ keep s s1.
Proof.
  intros R E. unfold step. rewrite R, E. simpl. rewrite andb_false_r.
  eexists; split; [reflexivity|]. unfold keep; simpl. repeat split; reflexivity.
Qed.

Lemma dispatch_keep r s : keep s (dispatch r s).
Proof.
  unfold keep, dispatch. destruct (r_kind r); simpl; try (repeat split; reflexivity).
  destruct (s_codec_closed s) eqn:C; simpl; repeat split; auto.
Qed.

Lemma step_decode_head tail0 cf s r rest : s_decq s = r :: rest ->
  exists s1, step tail0 cf s SDecode = Some s1 /\ s_decq s1 = rest /\ keep s s1.
Proof.
  intros D. unfold step. rewrite D.
  eexists; split; [reflexivity|]. rewrite dispatch_decq. split; [reflexivity|].
  eapply keep_trans; [|apply dispatch_keep]. unfold keep; simpl. repeat split; reflexivity.
Qed.

Lemma step_tail_head tail0 cf s t rest : s_rd_alive s = false -> s_tail s = t :: rest ->
  s_decq s = [] -> s_wg s = 0 ->
  exists s1, step tail0 cf s STail = Some s1 /\ s_tail s1 = rest /\ s_rd_alive s1 = false /\
    s_decq s1 = [] /\ s_execq s1 = s_execq s /\ s_running s1 = s_running s /\ s_wg s1 = 0 /\
    s_arrived s1 = s_arrived s.
Proof.
  intros A T D W. unfold step. rewrite A, T, D, W.
  destruct t; simpl; eexists; (split; [reflexivity|]); simpl; repeat split; auto.
Qed.

(* ---- stage 1: every running handler returns ---- *)
Lemma end_all tail0 cf : forall n s, length (s_running s) = n ->
  exists tr s', Forall work tr /\ run tail0 cf tr s = Some s' /\ s_running s' = [] /\
    s_decq s' = s_decq s /\ s_execq s' = s_execq s /\ keep s s'.
Proof.
  induction n as [|n IH]; intros s L.
  - apply length_zero_iff_nil in L. exists [], s.
    split; [constructor|]. split; [reflexivity|]. split; [exact L|].
    split; [reflexivity|]. split; [reflexivity|apply keep_refl].
  - destruct (s_running s) as [|r rest] eqn:R; [discriminate|]. simpl in L. injection L as L.
    destruct (step_end_head tail0 cf s r rest R) as (s1 & S1 & R1 & D1 & E1 & K1).
    rewrite <- R1 in L.
    destruct (IH s1 L) as (tr & s' & W & Hrun & R' & D' & E' & K').
    exists (SEnd (r_id r) :: tr), s'.
    split; [constructor; [exact I|exact W]|].
    split; [cbn [run]; rewrite S1; exact Hrun|].
    split; [exact R'|]. split; [congruence|]. split; [congruence|].
    eapply keep_trans; eauto.
Qed.

(* ---- stage 2: dispatched requests are started and ended one at a time ---- *)
Lemma exec_all tail0 cf : forall n s, length (s_execq s) = n -> s_running s = [] ->
  exists tr s', Forall work tr /\ run tail0 cf tr s = Some s' /\ s_running s' = [] /\
    s_execq s' = [] /\ s_decq s' = s_decq s /\ keep s s'.
Proof.
  induction n as [|n IH]; intros s L R.
  - apply length_zero_iff_nil in L. exists [], s.
    split; [constructor|]. split; [reflexivity|]. split; [exact R|].
    split; [exact L|]. split; [reflexivity|apply keep_refl].
  - destruct (s_execq s) as [|r l] eqn:E; [discriminate|]. simpl in L. injection L as L.
    destruct (step_start_head tail0 cf s r l R E) as (s1 & S1 & R1 & E1 & D1 & K1).
    destruct (step_end_head tail0 cf s1 r [] R1) as (s2 & S2 & R2 & D2 & E2 & K2).
    assert (L2 : length (s_execq s2) = n) by congruence.
    destruct (IH s2 L2 R2) as (tr & s' & W & Hrun & R' & E' & D' & K').
    exists (SStart 0 :: SEnd (r_id r) :: tr), s'.
    split; [constructor; [exact I|constructor; [exact I|exact W]]|].
    split; [cbn [run]; rewrite S1, S2; exact Hrun|].
    split; [exact R'|]. split; [exact E'|]. split; [congruence|].
    eapply keep_trans; [|exact K']. eapply keep_trans; eauto.
Qed.

(* ---- stage 3: the decode queue is emptied ---- *)
Lemma decode_all tail0 cf : forall n s, length (s_decq s) = n ->
  exists tr s', Forall work tr /\ run tail0 cf tr s = Some s' /\ s_decq s' = [] /\ keep s s'.
Proof.
  induction n as [|n IH]; intros s L.
  - apply length_zero_iff_nil in L. exists [], s.
    split; [constructor|]. split; [reflexivity|]. split; [exact L|apply keep_refl].
  - destruct (s_decq s) as [|r rest] eqn:D; [discriminate|]. simpl in L. injection L as L.
    destruct (step_decode_head tail0 cf s r rest D) as (s1 & S1 & D1 & K1).
    rewrite <- D1 in L.
    destruct (IH s1 L) as (tr & s' & W & Hrun & D' & K').
    exists (SDecode :: tr), s'.
    split; [constructor; [exact I|exact W]|].
    split; [cbn [run]; rewrite S1; exact Hrun|].
    split; [exact D'|]. eapply keep_trans; eauto.
Qed.

(* the three stages composed; no invariant of reachable states is needed *)
Lemma drains_any tail0 cf s :
  exists tr s', Forall work tr /\ run tail0 cf tr s = Some s' /\ idle s' /\ keep s s'.
Proof.
  destruct (decode_all tail0 cf _ s eq_refl) as (tr1 & s1 & W1 & H1 & D1 & K1).
  destruct (end_all tail0 cf _ s1 eq_refl) as (tr2 & s2 & W2 & H2 & R2 & D2 & E2 & K2).
  destruct (exec_all tail0 cf _ s2 eq_refl R2) as (tr3 & s3 & W3 & H3 & R3 & E3 & D3 & K3).
  exists (tr1 ++ tr2 ++ tr3), s3.
  split; [apply Forall_app; split; [exact W1|apply Forall_app; split; [exact W2|exact W3]]|].
  split; [rewrite (run_app _ _ _ _ _ _ H1), (run_app _ _ _ _ _ _ H2); exact H3|].
  split; [unfold idle; repeat split; congruence|].
  eapply keep_trans; [|exact K3]. eapply keep_trans; eauto.
Qed.

(* ---- the teardown tail of an idle connection runs to its end ---- *)
Lemma tail_all tail0 cf : forall n s, length (s_tail s) = n -> s_rd_alive s = false ->
  s_decq s = [] -> s_execq s = [] -> s_running s = [] -> s_wg s = 0 ->
  exists tr s', Forall internal tr /\ run tail0 cf tr s = Some s' /\ idle s' /\ s_tail s' = [] /\
    s_wg s' = 0 /\ s_arrived s' = s_arrived s.
Proof.
  induction n as [|n IH]; intros s L A D E R W.
  - apply length_zero_iff_nil in L. exists [], s.
    split; [constructor|]. split; [reflexivity|]. split; [unfold idle; auto|]. auto.
  - destruct (s_tail s) as [|t rest] eqn:T; [discriminate|]. simpl in L. injection L as L.
    destruct (step_tail_head tail0 cf s t rest A T D W) as (s1 & S1 & T1 & A1 & D1 & E1 & R1 & W1 & Ar1).
    rewrite <- T1 in L. rewrite E in E1. rewrite R in R1.
    destruct (IH s1 L A1 D1 E1 R1 W1) as (tr & s' & F & Hrun & I' & T' & W' & Ar').
    exists (STail :: tr), s'.
    split; [constructor; [exact I|exact F]|].
    split; [cbn [run]; rewrite S1; exact Hrun|].
    split; [exact I'|]. split; [exact T'|]. split; [exact W'|]. congruence.
Qed.

Lemma work_internal a : work a -> internal a.
Proof. destruct a; simpl; auto. Qed.

(* from every reachable state the outstanding work can be carried out to the end *)
Theorem drains tail0 cf s : reachable tail0 cf s ->
  exists tr s', Forall work tr /\ run tail0 cf tr s = Some s' /\ idle s' /\
    s_arrived s' = s_arrived s /\ s_rd_alive s' = s_rd_alive s /\ s_tail s' = s_tail s /\
    s_codec_closed s' = s_codec_closed s.
Proof.
  intros _. destruct (drains_any tail0 cf s) as (tr & s' & W & H & I' & K).
  exists tr, s'. unfold keep in K. tauto.
Qed.

(* ... and then every call has been executed exactly once and every request answered exactly once *)
Theorem eventually_answered tail0 cf s : reachable tail0 cf s -> s_codec_closed s = false ->
  exists tr s', Forall work tr /\ run tail0 cf tr s = Some s' /\
    Permutation (starts (s_log s')) (calls_of (s_arrived s)) /\
    Permutation (ends (s_log s')) (calls_of (s_arrived s)) /\
    Permutation (resps (s_log s')) (answered_of (s_arrived s)).
Proof.
  intros Hr C.
  destruct (drains tail0 cf s Hr) as (tr & s' & W & H & (I1 & I2 & I3) & Ar & _ & _ & Cc).
  exists tr, s'. split; [exact W|]. split; [exact H|].
  rewrite <- Ar. apply (quiescent_exact tail0 cf s').
  - eapply reachable_run; eauto.
  - unfold quiescent_open. repeat split; auto. congruence.
Qed.

(* after the reader has left its loop the teardown runs to its end *)
Theorem teardown_terminates tail0 cf s : reachable tail0 cf s -> s_rd_alive s = false ->
  exists tr s', Forall internal tr /\ run tail0 cf tr s = Some s' /\
    idle s' /\ s_tail s' = [] /\ s_wg s' = 0 /\ s_arrived s' = s_arrived s /\
    (safe_order tail0 = true -> s_fault s' = false).
Proof.
  intros Hr AL.
  destruct (drains tail0 cf s Hr) as (tr1 & s1 & W1 & H1 & (I1 & I2 & I3) & Ar1 & Al1 & _ & _).
  assert (Hr1 : reachable tail0 cf s1) by (eapply reachable_run; eauto).
  assert (Wg1 : s_wg s1 = 0) by (rewrite (wg_counts _ _ _ Hr1), I2, I3; reflexivity).
  rewrite AL in Al1.
  destruct (tail_all tail0 cf _ s1 eq_refl Al1 I1 I2 I3 Wg1) as (tr2 & s2 & F2 & H2 & Id2 & T2 & Wg2 & Ar2).
  exists (tr1 ++ tr2), s2.
  assert (Hrun : run tail0 cf (tr1 ++ tr2) s = Some s2) by (rewrite (run_app _ _ _ _ _ _ H1); exact H2).
  split.
  { apply Forall_app; split; [|exact F2]. eapply Forall_impl; [|exact W1]. apply work_internal. }
  split; [exact Hrun|]. split; [exact Id2|]. split; [exact T2|]. split; [exact Wg2|].
  split; [congruence|].
  intros SAFE. apply (teardown_safe tail0 cf s2 SAFE). eapply reachable_run; eauto.
Qed.

(* non-vacuity: a connection lost with one request still in the decode queue, one dispatched and
   one running is torn down completely, with the tail read from the source *)
Definition ex_live_cfg : cfg := {| pipelining := true; directIO := false |}.
Definition ex_live_prefix : list action :=
  [SArrive {| r_id := 1; r_kind := KCall false |}; SArrive {| r_id := 2; r_kind := KCall true |};
   SArrive {| r_id := 3; r_kind := KUnknown |}; SDecode; SDecode; SStart 0; SReadFail].
Example ex_live :
  exists s, run servecodec_tail ex_live_cfg ex_live_prefix init = Some s /\
    s_decq s <> [] /\ s_execq s <> [] /\ s_running s <> [] /\ s_rd_alive s = false /\ s_tail s <> [].
Proof.
  eexists; split; [vm_compute; reflexivity|].
  vm_compute. repeat split; try discriminate; reflexivity.
Qed.

Print Assumptions drains.
Print Assumptions eventually_answered.
Print Assumptions teardown_terminates.
