(* Server/Inv.v — invariants of the per-connection server machine and the
   lemmas the property files cite (Props/C04.v, C05.v, C08.v). *)
From Coq Require Import List Arith Bool Lia String Permutation NArith.
From RPC Require Import Res Bytes Upgrade UpgradeLemmas.
From RPC.Server Require Import Model InvLemmas.
Import ListNotations.
Open Scope nat_scope.

Definition reachable (tail0 : list tstep) (cf : cfg) (s : sst) : Prop :=
  exists tr, run tail0 cf tr init = Some s.

(* the peer numbers its requests distinctly (the client's sequence counter; see C01) *)
Definition distinct_ids (s : sst) : Prop := NoDup (map r_id (s_arrived s)).

(* every queue has drained and the connection is still open *)
Definition quiescent_open (s : sst) : Prop :=
  s_decq s = [] /\ s_execq s = [] /\ s_running s = [] /\ s_codec_closed s = false.

(* ---- C04 ---- *)
(* every arrived request is in exactly one place: waiting to be decoded, dispatched, running, or finished *)
Theorem accounting tail0 cf s : reachable tail0 cf s ->
  Permutation (calls_of (s_arrived s))
              (calls_of (s_decq s) ++ calls_of (s_execq s) ++ (starts (s_log s))) /\
  Permutation (starts (s_log s)) (ends (s_log s) ++ calls_of (s_running s)).
Proof.
  intros [tr H]. apply reach_CInv in H. destruct H as [C1 C2 _ _ _ _ _]. split; apply perm_cnt; intro x.
  - rewrite (C1 x), !count_occ_app. lia.
  - rewrite (C2 x), !count_occ_app. lia.
Qed.

(* no handler runs for a request nobody sent *)
Theorem no_phantom tail0 cf s id : reachable tail0 cf s ->
  In id (starts (s_log s)) -> In id (calls_of (s_arrived s)).
Proof.
  intros [tr H] Hin. apply reach_CInv in H. destruct H as [C1 _ _ _ _ _ _].
  apply in_cnt. apply in_cnt in Hin. rewrite (C1 id). lia.
Qed.

Theorem exec_at_most_once tail0 cf s : reachable tail0 cf s -> distinct_ids s -> NoDup (starts (s_log s)).
Proof.
  intros [tr H] D. apply reach_CInv in H. destruct H as [C1 _ _ _ _ _ _].
  apply NoDup_cnt. intro x. unfold distinct_ids in D. rewrite NoDup_cnt in D.
  specialize (D x). pose proof (cnt_calls_le_ids (s_arrived s) x). specialize (C1 x). lia.
Qed.

Theorem response_at_most_once tail0 cf s : reachable tail0 cf s -> distinct_ids s -> NoDup (resps (s_log s)).
Proof.
  intros [tr H] D. apply reach_CInv in H. destruct H as [_ _ C3 _ _ _ _].
  apply NoDup_cnt. intro x. unfold distinct_ids in D. rewrite NoDup_cnt in D.
  specialize (D x). pose proof (cnt_answered_le_ids (s_arrived s) x). specialize (C3 x). lia.
Qed.

(* a response is written only for a request that arrived and is not a dropped one *)
Theorem response_for_arrived tail0 cf s id : reachable tail0 cf s ->
  In id (resps (s_log s)) -> In id (answered_of (s_arrived s)).
Proof.
  intros [tr H] Hin. apply reach_CInv in H. destruct H as [_ _ C3 _ _ _ _].
  apply in_cnt. apply in_cnt in Hin. specialize (C3 id). lia.
Qed.

(* Ping never invokes a handler *)
Theorem ping_no_handler tail0 cf s r : reachable tail0 cf s -> distinct_ids s ->
  In r (s_arrived s) -> r_kind r = KPing -> ~ In (r_id r) (starts (s_log s)).
Proof.
  intros [tr H] D Hin K Hs. apply reach_CInv in H. destruct H as [C1 _ _ _ _ _ _].
  unfold distinct_ids in D. rewrite NoDup_cnt in D. specialize (D (r_id r)).
  pose proof (cnt_calls_ping _ _ Hin K). apply in_cnt in Hs. specialize (C1 (r_id r)). lia.
Qed.

(* on a live connection whose queues have drained, every call was executed exactly once and
   every request that is not dropped was answered exactly once *)
Theorem quiescent_exact tail0 cf s : reachable tail0 cf s -> quiescent_open s ->
  Permutation (starts (s_log s)) (calls_of (s_arrived s)) /\
  Permutation (ends (s_log s)) (calls_of (s_arrived s)) /\
  Permutation (resps (s_log s)) (answered_of (s_arrived s)).
Proof.
  intros [tr H] (Q1 & Q2 & Q3 & Q4). apply reach_CInv in H. destruct H as [C1 C2 _ C4 _ _ _].
  specialize (C4 Q4). rewrite Q1, Q2 in C1. rewrite Q3 in C2. rewrite Q1, Q2, Q3 in C4. simpl in *.
  repeat split; apply perm_cnt; intro x; specialize (C1 x); specialize (C2 x); specialize (C4 x); lia.
Qed.

(* nothing can get stuck: whatever is queued can be processed *)
Theorem decode_enabled tail0 cf s : s_decq s <> [] -> step tail0 cf s SDecode <> None.
Proof. intros H. simpl. destruct (s_decq s); [contradiction|discriminate]. Qed.
Theorem start_enabled tail0 cf s : s_execq s <> [] -> (pipelining cf = true -> s_running s = []) ->
  step tail0 cf s (SStart 0) <> None.
Proof.
  intros H HP. simpl. destruct (pipelining cf); simpl.
  - rewrite (HP eq_refl). simpl. destruct (s_execq s); [contradiction|simpl; discriminate].
  - destruct (s_execq s); [contradiction|simpl; discriminate].
Qed.
Theorem end_enabled tail0 cf s r : In r (s_running s) -> step tail0 cf s (SEnd (r_id r)) <> None.
Proof.
  intros H. simpl. pose proof (remove_id_some (r_id r) _ _ H eq_refl) as N.
  destruct (remove_id (r_id r) (s_running s)) as [[x l]|]; [discriminate|contradiction].
Qed.

(* ---- C05 (server side) ---- *)
(* with pipelining the handlers start in arrival order ... *)
Theorem pipelining_exec_order tail0 cf s : reachable tail0 cf s -> pipelining cf = true ->
  exists rest, calls_of (s_arrived s) = starts (s_log s) ++ rest.
Proof.
  intros [tr H] PL. apply (reach_PInv _ _ _ _ PL) in H. destruct H as [_ _ P3 _].
  eexists. exact P3.
Qed.

(* ... one at a time (in every reachable state at most one started handler has not ended; applied to
   every prefix of an execution this says that no two handler executions overlap) ... *)
Theorem pipelining_no_overlap tail0 cf s : reachable tail0 cf s -> pipelining cf = true ->
  length (s_running s) <= 1 /\ length (starts (s_log s)) <= length (ends (s_log s)) + 1 /\
  (exists last, starts (s_log s) = ends (s_log s) ++ last /\ length last <= 1).
Proof.
  intros [tr H] PL. apply (reach_PInv _ _ _ _ PL) in H. destruct H as [P1 P2 _ _].
  assert (L : length (calls_of (s_running s)) <= 1).
  { destruct (s_running s) as [|a [|b l]]; simpl in *; try lia.
    unfold calls_of; simpl. destruct (r_kind a); simpl; lia. }
  split; [exact P1|]. split.
  - rewrite P2, app_length. lia.
  - exists (calls_of (s_running s)). split; [exact P2|exact L].
Qed.

(* ... and their responses are written in arrival order *)
Theorem pipelining_response_order tail0 cf s : reachable tail0 cf s -> pipelining cf = true ->
  s_codec_closed s = false ->
  exists rest, dispatched_of (s_arrived s) = handler_resps (s_log s) ++ rest.
Proof.
  intros [tr H] PL CC. apply (reach_PInv _ _ _ _ PL) in H. destruct H as [_ _ _ P4].
  eexists. exact (P4 CC).
Qed.

(* ---- C08: teardown order read from the source ---- *)
(* an order that drains the decode queue first can never add to the WaitGroup after Wait began, nor
   iterate the stream table while the decode queue can still write it *)
Theorem teardown_safe tail0 cf s : safe_order tail0 = true -> reachable tail0 cf s -> s_fault s = false.
Proof.
  intros SAFE [tr H]. apply (reach_TInv _ _ _ _ SAFE) in H. apply (t_fault _ _ H).
Qed.

(* the two tails of the current source are safe orders (these break when the source is reordered) *)
Theorem servecodec_tail_safe : tail_steps Generated.servecodec_tail <> None /\ safe_order servecodec_tail = true.
Proof. split; [vm_compute; discriminate|vm_compute; reflexivity]. Qed.
Theorem poll_eof_tail_safe : tail_steps Generated.poll_eof_tail <> None /\ safe_order poll_eof_tail = true.
Proof. split; [vm_compute; discriminate|vm_compute; reflexivity]. Qed.

(* the pinned tree's order (wg.Wait first, pipeline.Close last) does fault: a request still queued for
   decoding when the peer disconnects (F5) *)
Definition legacy_tail : list tstep :=
  [TWgWait; TOther; TOther; TOther; TCodecClose; TSchedClose; TStreamsClose; TOther; TOther; TQueueClose; TQueueClose].
Example legacy_tail_faults :
  safe_order legacy_tail = false /\
  exists s, run legacy_tail {| pipelining := false; directIO := false |}
              [SArrive {| r_id := 1; r_kind := KCall false |}; SReadFail; STail; SDecode] init = Some s /\ s_fault s = true.
Proof.
  split; [vm_compute; reflexivity|].
  eexists; split; [vm_compute; reflexivity|vm_compute; reflexivity].
Qed.

(* the teardown of a safe order runs to completion once the queues have drained *)
Theorem teardown_progress tail0 cf s : reachable tail0 cf s -> s_rd_alive s = false -> s_tail s <> [] ->
  s_decq s = [] -> s_wg s = 0 -> step tail0 cf s STail <> None.
Proof.
  intros _ AL T D W. simpl. rewrite AL, D, W. destruct (s_tail s) as [|t rest]; [contradiction|].
  destruct t; simpl; discriminate.
Qed.
(* the WaitGroup counter is exactly the number of dispatched requests that have not finished *)
Theorem wg_counts tail0 cf s : reachable tail0 cf s -> s_wg s = length (s_execq s) + length (s_running s).
Proof. intros [tr H]. apply reach_CInv in H. apply (c_wg _ H). Qed.

(* ---- C08: dispatch is total for every flag byte ---- *)
Theorem decide_total b known argsok : (b < 256)%N ->
  exists u, upgrade_dec [b] = Ok u /\ decide false u known argsok <> Panic.
Proof.
  intros _. eexists. split; [reflexivity|]. unfold decide.
  repeat match goal with |- context [if ?c then _ else _] => destruct c end; discriminate.
Qed.

(* heartbeat is answered before any method lookup *)
Theorem decide_heartbeat u known argsok legacy : Heartbeat u = Generated.c_heartbeat -> decide legacy u known argsok = Ok DAck.
Proof. intros H. unfold decide. rewrite H, N.eqb_refl. reflexivity. Qed.

(* the pinned tree dereferences a missing method lookup for upgrade byte 0x80 (F4) *)
Example decide_legacy_panics :
  exists u, upgrade_dec [128%N] = Ok u /\ decide true u true true = Panic.
Proof. eexists; split; [vm_compute; reflexivity|vm_compute; reflexivity]. Qed.

Print Assumptions accounting.
Print Assumptions no_phantom.
Print Assumptions exec_at_most_once.
Print Assumptions response_at_most_once.
Print Assumptions response_for_arrived.
Print Assumptions ping_no_handler.
Print Assumptions quiescent_exact.
Print Assumptions decode_enabled.
Print Assumptions start_enabled.
Print Assumptions end_enabled.
Print Assumptions pipelining_exec_order.
Print Assumptions pipelining_no_overlap.
Print Assumptions pipelining_response_order.
Print Assumptions teardown_safe.
Print Assumptions servecodec_tail_safe.
Print Assumptions poll_eof_tail_safe.
Print Assumptions legacy_tail_faults.
Print Assumptions teardown_progress.
Print Assumptions wg_counts.
Print Assumptions decide_total.
Print Assumptions decide_heartbeat.
Print Assumptions decide_legacy_panics.
