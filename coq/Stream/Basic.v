(* Stream/Basic.v — simple invariants of every reachable state: the server table has no duplicate keys,
   closed ends have no blocked reader, after the loss every client end is closed. *)
From Coq Require Import List Arith Bool Lia.
From RPC.Stream Require Import Model Util.
Import ListNotations.
Open Scope nat_scope.

Ltac destr H := repeat match type of H with
  | context [match ?e with _ => _ end] => destruct e eqn:?; try discriminate
  end; inversion H; subst; clear H.

Lemma step_lost_mono v x a x' : step v x a = Some x' -> lost x = true -> lost x' = true.
Proof. intros H L. destruct a; simpl in H; destr H; simpl; auto. Qed.

Lemma step_lost_false v x a x' : step v x a = Some x' -> lost x' = false -> lost x = false.
Proof. intros H L. destruct (lost x) eqn:E; auto. erewrite step_lost_mono in L; eauto. Qed.

Record BInv (x : st) : Prop := {
  b_nodup : NoDup (map fst (sstreams x));
  b_cl : forall s c, lookup s (cstreams x) = Some c -> c_closed c = true -> c_blocked c = 0;
  b_sl : forall s c, lookup s (sstreams x) = Some c -> s_closed c = true -> s_blocked c = 0;
  b_gone : forall s c, In (s, c) (sgone x) -> s_closed c = true /\ s_blocked c = 0;
  b_lost : lost x = true -> forall s c, lookup s (cstreams x) = Some c -> c_closed c = true;
  b_torn : torn x = true -> lost x = true /\ sdecq x = [];
  b_torn_cl : torn x = true -> forall s c, lookup s (sstreams x) = Some c -> s_closed c = true }.

Lemma BInv_init : BInv init.
Proof. constructor; simpl; try discriminate; try tauto. constructor. Qed.

(* a table whose entry for s is replaced by one satisfying P still satisfies P everywhere *)
Lemma all_update {A} (P : A -> Prop) s v (l : list (sid * A)) :
  (forall s c, lookup s l = Some c -> P c) -> P v ->
  forall s0 c, lookup s0 (update s v l) = Some c -> P c.
Proof.
  intros H Pv s0 c. rewrite lookup_update. destruct (Nat.eqb s0 s).
  - intros E. inversion E; subst; auto.
  - apply H.
Qed.

Ltac upd LS TC := match goal with
  | |- _ -> forall s c, lookup s (update _ _ (sstreams _)) = Some c -> s_closed c = true =>
      let T := fresh "T" in
      intros T; apply (all_update (fun c => s_closed c = true)); [apply TC; auto|cbv beta; simpl]
  | |- forall s c, lookup s (update _ _ (cstreams _)) = Some c -> c_closed c = true -> c_blocked c = 0 =>
      apply (all_update (fun c => c_closed c = true -> c_blocked c = 0)); [assumption|cbv beta; simpl]
  | |- forall s c, lookup s (update _ _ (sstreams _)) = Some c -> s_closed c = true -> s_blocked c = 0 =>
      apply (all_update (fun c => s_closed c = true -> s_blocked c = 0)); [assumption|cbv beta; simpl]
  | |- _ -> forall s c, lookup s (update _ _ (cstreams _)) = Some c -> c_closed c = true =>
      let L := fresh "L" in
      intros L; apply (all_update (fun c => c_closed c = true)); [apply LS; auto|cbv beta; simpl]
  | |- NoDup (map fst (update _ _ _)) => apply NoDup_update; assumption
  end.

Lemma s_trigger_closed m c : s_closed (s_trigger m c) = s_closed c.
Proof. unfold s_trigger. destruct (s_blocked c); [|destruct (s_events c)]; reflexivity. Qed.
Lemma s_do_read_closed c : s_closed c = true -> s_closed (s_do_read c) = true.
Proof. unfold s_do_read. intros ->. reflexivity. Qed.

Ltac tn_contra TN := let T := fresh "T" in intros T; destruct (TN T); first [congruence | split; congruence].

Lemma BInv_step v x a x' : BInv x -> step v x a = Some x' -> BInv x'.
Proof.
  intros [ND CL SL GN LS TN TC] H.
  destruct a; simpl in H.
  - (* COpen *) destr H. constructor; simpl; auto; try (intros; congruence); try (intros ?; apply LS; congruence); try tn_contra TN; try upd LS TC; auto; congruence.
  - (* CWrite *) destr H; constructor; simpl; auto; try (intros; congruence); try (intros ?; apply LS; congruence); try tn_contra TN; try upd LS TC; eauto.
    all: try congruence.
    all: match goal with E : lookup _ (cstreams _) = Some ?c, K : c_closed ?c = false |- _ =>
           erewrite LS in K; eauto; discriminate end.
  - (* CWriteBad *) destr H; constructor; simpl; auto; try (intros; congruence); try (intros ?; apply LS; congruence); try tn_contra TN; try upd LS TC; eauto.
    all: try congruence.
    all: match goal with E : lookup _ (cstreams _) = Some ?c, K : c_closed ?c = false |- _ =>
           erewrite LS in K; eauto; discriminate end.
  - (* CRead *) destr H; constructor; simpl; auto; try (intros; congruence); try (intros ?; apply LS; congruence); try tn_contra TN; try upd LS TC; unfold c_do_read.
    all: try (destruct (c_closed c) eqn:K; simpl; eauto; destruct (c_events c); simpl; discriminate).
    all: rewrite (LS L _ _ Heqo); reflexivity.
  - (* CClose *) destr H; constructor; simpl; auto; try (intros; congruence); try (intros ?; apply LS; congruence); try tn_contra TN; try upd LS TC; auto; congruence.
  - (* CUnary *) destr H; constructor; simpl; auto; try (intros; congruence); try (intros ?; apply LS; congruence); try tn_contra TN.
  - (* NetC2S *) destr H; constructor; simpl; auto; try (intros; congruence); try (intros ?; apply LS; congruence); try tn_contra TN.
  - (* NetS2C *) destr H; constructor; simpl; auto; try (intros; congruence); try (intros ?; apply LS; congruence); try tn_contra TN.
  - (* ConnLoss *) destr H; constructor; simpl; auto; try tn_contra TN.
    + intros s c. rewrite lookup_map. destruct (lookup s (cstreams x)); simpl; try discriminate.
      intros E; inversion E; subst; auto.
    + intros _ s c. rewrite lookup_map. destruct (lookup s (cstreams x)); simpl; try discriminate.
      intros E; inversion E; subst; auto.
  - (* STeardown *) destr H; constructor; simpl; auto.
    + rewrite map_fst_map. auto.
    + intros s c. rewrite lookup_map. destruct (lookup s (sstreams x)); simpl; try discriminate.
      intros E; inversion E; subst; auto.
    + intros _ s c. rewrite lookup_map. destruct (lookup s (sstreams x)); simpl; try discriminate.
      intros E; inversion E; subst; auto.
  - (* SDecode *)
    destruct (sdecq x) as [|f r] eqn:D; try discriminate.
    destruct f.
    + destr H; constructor; simpl; auto; try (intros; congruence); try (intros ?; apply LS; congruence); try tn_contra TN; try upd LS TC; auto.
    + destr H; constructor; simpl; auto; try (intros; congruence); try (intros ?; apply LS; congruence); try tn_contra TN.
    + destr H; constructor; simpl; auto; try (intros; congruence); try (intros ?; apply LS; congruence); try tn_contra TN.
      all: try (apply NoDup_remove; assumption).
      all: try (intros k c; rewrite in_app_iff; simpl; intros [F|[F|[]]]; eauto; inversion F; subst; auto).
      all: intros k c; destruct (Nat.eq_dec k st);
        [subst; rewrite NoDup_remove_lookup; auto; discriminate|rewrite lookup_remove_ne; auto; apply SL].
    + destr H; constructor; simpl; auto; try (intros; congruence); try (intros ?; apply LS; congruence); try tn_contra TN.
  - (* SAck *) destr H; constructor; simpl; auto; try (intros; congruence); try (intros ?; apply LS; congruence); try tn_contra TN; try upd LS TC; eauto.
  - (* SStart *) destr H; constructor; simpl; auto; try (intros; congruence); try (intros ?; apply LS; congruence); try tn_contra TN; try upd LS TC; eauto.
  - (* SDeliver *) destr H; constructor; simpl; auto; try (intros; congruence); try (intros ?; apply LS; congruence); try tn_contra TN; try upd LS TC.
    + unfold s_trigger. destruct (s_blocked s0) eqn:B; simpl; [eauto|].
      destruct (s_events s0); simpl; intros K; rewrite (SL _ _ Heqo K) in B; discriminate.
    + rewrite s_trigger_closed. eauto.
  - (* SWrite *) destr H; constructor; simpl; auto; try (intros; congruence); try (intros ?; apply LS; congruence); try tn_contra TN; try upd LS TC; eauto; discriminate.
  - (* SWriteBad *) destr H; constructor; simpl; auto; try (intros; congruence); try (intros ?; apply LS; congruence); try tn_contra TN; try upd LS TC; eauto; discriminate.
  - (* SRead *) destr H; constructor; simpl; auto; try (intros; congruence); try (intros ?; apply LS; congruence); try tn_contra TN; try upd LS TC.
    + unfold s_do_read. destruct (s_closed s0) eqn:K; simpl; eauto.
      destruct (s_events s0); simpl; discriminate.
    + apply s_do_read_closed. eauto.
  - (* CDecode *)
    destruct (cdecq x) as [|f r] eqn:D; try discriminate.
    destruct f; destr H; constructor; simpl; auto; try (intros; congruence); try (intros ?; apply LS; congruence); try tn_contra TN; try upd LS TC; eauto.
  - (* CDeliver *) destr H; constructor; simpl; auto; try (intros; congruence); try (intros ?; apply LS; congruence); try tn_contra TN; try upd LS TC; unfold c_trigger.
    + destruct (c_blocked c) eqn:B; simpl; [eauto|].
      destruct (c_events c); simpl; intros K; rewrite (CL _ _ Heqo K) in B; discriminate.
    + destruct (c_blocked c); simpl; [eauto|]. destruct (c_events c); simpl; eauto.
Qed.

Lemma BInv_run v tr : forall x x', BInv x -> run v tr x = Some x' -> BInv x'.
Proof.
  induction tr as [|a tr IH]; simpl; intros x x' B H.
  - inversion H; subst; auto.
  - destruct (step v x a) eqn:E; try discriminate. eapply IH; [|eauto]. eapply BInv_step; eauto.
Qed.

Lemma BInv_reach v tr x : run v tr init = Some x -> BInv x.
Proof. apply BInv_run. apply BInv_init. Qed.

(* ---- no reader waits while a message is queued (every variant) ----
   c_do_read blocks only on an empty queue, c_trigger hands the arriving message to a blocked reader exactly when
   the queue is empty (and appends it otherwise, which by the invariant happens only when nobody is blocked),
   c_stop unblocks everybody; the s_ counterparts alike. *)
Definition c_noqw (c : cstream) : Prop := c_blocked c > 0 -> c_events c = [].
Definition s_noqw (c : sstream) : Prop := s_blocked c > 0 -> s_events c = [].

Record QInv (x : st) : Prop := {
  q_c : forall s c, lookup s (cstreams x) = Some c -> c_noqw c;
  q_s : forall s c, lookup s (sstreams x) = Some c -> s_noqw c }.

Lemma QInv_init : QInv init.
Proof. constructor; simpl; discriminate. Qed.

Lemma c_do_read_noqw c : c_noqw c -> c_noqw (c_do_read c).
Proof.
  unfold c_noqw, c_do_read. intros H. destruct (c_closed c); simpl; auto.
  destruct (c_events c); simpl; auto. intros B. specialize (H B). discriminate.
Qed.
Lemma c_trigger_noqw m c : c_noqw c -> c_noqw (c_trigger m c).
Proof.
  unfold c_noqw, c_trigger. intros H. destruct (c_blocked c) eqn:B; simpl; [lia|].
  destruct (c_events c); simpl; auto. intros _. assert (K : S n > 0) by lia. specialize (H K). discriminate.
Qed.
Lemma c_stop_noqw c : c_noqw (c_stop c).
Proof. unfold c_noqw. simpl. lia. Qed.
Lemma s_do_read_noqw c : s_noqw c -> s_noqw (s_do_read c).
Proof.
  unfold s_noqw, s_do_read. intros H. destruct (s_closed c); simpl; auto.
  destruct (s_events c); simpl; auto. intros B. specialize (H B). discriminate.
Qed.
Lemma s_trigger_noqw m c : s_noqw c -> s_noqw (s_trigger m c).
Proof.
  unfold s_noqw, s_trigger. intros H. destruct (s_blocked c) eqn:B; simpl; [lia|].
  destruct (s_events c); simpl; auto. intros _. assert (K : S n > 0) by lia. specialize (H K). discriminate.
Qed.
Lemma s_stop_noqw c : s_noqw (s_stop c).
Proof. unfold s_noqw. simpl. lia. Qed.

Ltac qupd := match goal with
  | |- forall s c, lookup s (update _ _ (cstreams _)) = Some c -> c_noqw c =>
      apply (all_update c_noqw); [assumption|]
  | |- forall s c, lookup s (update _ _ (sstreams _)) = Some c -> s_noqw c =>
      apply (all_update s_noqw); [assumption|]
  end.

Ltac qfin QC QS := first
  [ apply c_do_read_noqw; eauto
  | apply c_trigger_noqw; eauto
  | apply s_do_read_noqw; eauto
  | apply s_trigger_noqw; eauto
  | apply c_stop_noqw
  | apply s_stop_noqw
  | match goal with E : lookup _ (cstreams _) = Some ?c |- c_noqw _ => exact (QC _ _ E) end
  | match goal with E : lookup _ (sstreams _) = Some ?c |- s_noqw _ => exact (QS _ _ E) end
  | (unfold c_noqw; simpl; lia)
  | (unfold s_noqw; simpl; lia) ].

Lemma QInv_step v x a x' : BInv x -> QInv x -> step v x a = Some x' -> QInv x'.
Proof.
  intros B [QC QS] H. pose proof (b_nodup _ B) as ND.
  destruct a; simpl in H.
  18: destruct (cdecq x) as [|f r] eqn:D; try discriminate; destruct f.
  11: destruct (sdecq x) as [|f r] eqn:D; try discriminate; destruct f.
  all: destr H; constructor; simpl; auto; try qupd; try qfin QC QS.
  - (* ConnLoss *) intros s c. rewrite lookup_map. destruct (lookup s (cstreams x)); simpl; try discriminate.
    intros E; inversion E; subst. apply c_stop_noqw.
  - (* STeardown *) intros s c. rewrite lookup_map. destruct (lookup s (sstreams x)); simpl; try discriminate.
    intros E; inversion E; subst. apply s_stop_noqw.
  - (* SDecode, QClose: the entry leaves the table *) intros k c; destruct (Nat.eq_dec k st);
      [subst; rewrite NoDup_remove_lookup; auto; discriminate|rewrite lookup_remove_ne; auto; apply QS].
  - (* SDecode, QClose, after the loss *) intros k c; destruct (Nat.eq_dec k st);
      [subst; rewrite NoDup_remove_lookup; auto; discriminate|rewrite lookup_remove_ne; auto; apply QS].
Qed.

Lemma BQInv_run v tr : forall x x', BInv x -> QInv x -> run v tr x = Some x' -> QInv x'.
Proof.
  induction tr as [|a tr IH]; simpl; intros x x' B Q H.
  - inversion H; subst; auto.
  - destruct (step v x a) eqn:E; try discriminate.
    eapply IH; [eapply BInv_step; eauto|eapply QInv_step; eauto|eauto].
Qed.

Lemma QInv_reach v tr x : run v tr init = Some x -> QInv x.
Proof. apply BQInv_run; [apply BInv_init|apply QInv_init]. Qed.
