(* Stream/Reach.v — the invariants hold in every reachable state of the current variant. *)
From Coq Require Import List Arith Bool Lia.
From RPC.Stream Require Import Model Util Basic SInv LStepA LStepB AStep.
Import ListNotations.
Open Scope nat_scope.

Lemma Inv_init : Inv init.
Proof.
  split.
  - constructor; simpl; try discriminate; auto.
  - intros _. constructor; simpl; try discriminate. intros s _. constructor; reflexivity.
Qed.

Lemma Inv_step x a x' : Inv x -> step current x a = Some x' -> Inv x'.
Proof.
  intros [A L] H. split.
  - eapply AInv_step; eauto.
  - intros Hl'. pose proof (step_lost_false _ _ _ _ H Hl') as Hl.
    destruct (reader_action a) eqn:RA.
    + destruct a; try discriminate.
      * eapply LInv_step_CDecode; eauto.
      * eapply LInv_step_CDeliver; eauto.
    + eapply LInv_step_A; eauto.
Qed.

Lemma Inv_run tr : forall x x', Inv x -> run current tr x = Some x' -> Inv x'.
Proof.
  induction tr as [|a tr IH]; simpl; intros x x' B H.
  - inversion H; subst; auto.
  - destruct (step current x a) eqn:E; try discriminate. eapply IH; [|eauto]. eapply Inv_step; eauto.
Qed.

Lemma Inv_reach tr x : run current tr init = Some x -> Inv x.
Proof. apply Inv_run. apply Inv_init. Qed.
