(* Stream/Model.v — streams over one connection (conn.go: NewStream, send's
   streaming branch, read's openStream / streaming / closeStream branches,
   readStream; server.go: ServeRequest's stream branches, callService,
   the stream write closure; stream.go).

   Both directions are pipelines of FIFO stages: the wire, the reader's
   decode queue, the single-worker stream queue, the stream's event queue.
   A frame of the server->client direction carries only the stream's number:
   the client tells the open acknowledgement from a pushed message by the
   phase of the call registered under that number. *)
From Coq Require Import List Arith Bool Lia.
Import ListNotations.
Open Scope nat_scope.

Definition sid := nat.

(* frames on the wire *)
Inductive c2s_frame :=
| QOpen (st : sid) | QMsg (st : sid) (m : nat) | QClose (st : sid) | QUnary (id : nat).
Inductive s2c_frame :=
| PAck (st : sid)              (* acknowledgement of an open request *)
| PMsg (st : sid) (m : nat)    (* a message pushed by the handler *)
| PCloseAck (st : sid)
| PUnary (id : nat)
| PErr (st : sid).             (* the error frame sent under the stream's number when the handler's WriteMessage
                                  was given a value the body codec cannot encode (serverCodec.WriteResponse): it carries
                                  no message; a client stream in its streaming phase attaches the error to its call for
                                  good and delivers nothing for the frame *)

Inductive phase := Opening | Streaming | Closing | Gone.

Inductive rdres := Got (m : nat) | Shutdown.

Record cstream := {
  c_phase : phase;
  c_events : list nat;         (* the stream's event queue *)
  c_closed : bool;             (* stream.closed *)
  c_blocked : nat;             (* readers blocked in ReadMessage *)
  c_read : list rdres;         (* what ReadMessage returned, in order *)
  c_written : list nat;        (* what WriteMessage accepted, in order *)
  c_wres : list bool;          (* results of WriteMessage: true = nil, false = ErrStreamShutdown *)
  c_lost : list nat;           (* pushed messages consumed as acknowledgements, or dropped because the routing entry
                                  was gone (the defects of the pinned tree) *)
  c_err : bool;                (* the sticky error of an error frame has been attached: every later ReadMessage
                                  returns its message together with that error *)
  c_unrouted : bool            (* pinned tree only: a WriteMessage that failed to encode deleted the pending-table
                                  entry under the stream's number; every later frame for the stream is dropped *)
}.

Record sstream := {
  s_events : list nat;
  s_closed : bool;
  s_blocked : nat;
  s_read : list rdres;
  s_written : list nat;
  s_wres : list bool;
  s_acked : bool;              (* the acknowledgement has been written *)
  s_started : bool             (* the handler is running *)
}.

Record st := {
  cstreams : list (sid * cstream);
  sstreams : list (sid * sstream);    (* the server's stream table *)
  sgone : list (sid * sstream);       (* server streams removed from the table (closed by the client) *)
  w_c2s : list c2s_frame;             (* on the wire, client to server *)
  w_s2c : list s2c_frame;
  sdecq : list c2s_frame;             (* server decode queue *)
  sstrq : list (sid * nat);           (* server readStream queue *)
  cdecq : list s2c_frame;
  cstrq : list (sid * nat);
  unary_done : list nat;              (* unary calls completed on the client *)
  lost : bool;                        (* the connection has ended *)
  torn : bool                         (* the server connection's teardown has run *)
}.

(* code variant: does the server write the acknowledgement before it starts the handler?
   does a client WriteMessage that fails to encode leave the stream's routing entry alone? *)
Record variant := { v_ack_first : bool; v_badwrite_keeps : bool }.
Definition current : variant := {| v_ack_first := true; v_badwrite_keeps := true |}.
Definition legacy : variant := {| v_ack_first := false; v_badwrite_keeps := true |}.
(* the pinned tree's Conn.send: the error path of a failed encode deletes the pending-table entry *)
Definition legacy_badwrite : variant := {| v_ack_first := true; v_badwrite_keeps := false |}.

Definition init : st := {|
  cstreams := []; sstreams := []; sgone := []; w_c2s := []; w_s2c := []; sdecq := []; sstrq := [];
  cdecq := []; cstrq := []; unary_done := []; lost := false; torn := false |}.

Fixpoint lookup {A} (k : sid) (l : list (sid * A)) : option A :=
  match l with
  | [] => None
  | (k', v) :: r => if Nat.eqb k k' then Some v else lookup k r
  end.

Fixpoint update {A} (k : sid) (v : A) (l : list (sid * A)) : list (sid * A) :=
  match l with
  | [] => [(k, v)]
  | (k', v') :: r => if Nat.eqb k k' then (k, v) :: r else (k', v') :: update k v r
  end.

Fixpoint remove {A} (k : sid) (l : list (sid * A)) : list (sid * A) :=
  match l with
  | [] => []
  | (k', v') :: r => if Nat.eqb k k' then r else (k', v') :: remove k r
  end.

Inductive action :=
(* client API *)
| COpen (s : sid)                 (* NewStream: the open request is written *)
| CWrite (s : sid) (m : nat)      (* Stream.WriteMessage *)
| CWriteBad (s : sid)             (* Stream.WriteMessage of a value the codec cannot encode: Conn.send's WriteRequest
                                     fails, nothing is sent, WriteMessage returns nil *)
| CRead (s : sid)                 (* Stream.ReadMessage *)
| CClose (s : sid)                (* Stream.Close *)
| CUnary (id : nat)               (* an ordinary call on the same connection *)
(* the network *)
| NetC2S                          (* one frame reaches the server's reader *)
| NetS2C
| ConnLoss                        (* the connection ends: both readers fail *)
| STeardown                       (* the server connection's tail, after the decode queue has drained:
                                     for every stream in the table: Close *)
(* server *)
| SDecode                         (* ServeRequest on the head of the decode queue *)
| SAck (s : sid)                  (* the open acknowledgement is written (pinned tree: after the handler start) *)
| SStart (s : sid)                (* the handler goroutine starts (pinned tree: before the acknowledgement) *)
| SDeliver                        (* readStream worker: head of the stream queue becomes an event *)
| SWrite (s : sid) (m : nat)      (* the handler's Stream.WriteMessage *)
| SWriteBad (s : sid)             (* the handler's WriteMessage of a value the codec cannot encode: WriteMessage
                                     returns nil and an error frame is sent under the stream's number *)
| SRead (s : sid)                 (* the handler's Stream.ReadMessage *)
(* client reader *)
| CDecode
| CDeliver.

Definition cstream0 : cstream := {|
  c_phase := Opening; c_events := []; c_closed := false; c_blocked := 0; c_read := []; c_written := [];
  c_wres := []; c_lost := []; c_err := false; c_unrouted := false |}.
Definition sstream0 : sstream := {|
  s_events := []; s_closed := false; s_blocked := 0; s_read := []; s_written := []; s_wres := [];
  s_acked := false; s_started := false |}.

(* ---- setters ---- *)
Definition set_c (s : sid) (c : cstream) (x : st) : st :=
  {| cstreams := update s c (cstreams x); sstreams := sstreams x; sgone := sgone x; w_c2s := w_c2s x; w_s2c := w_s2c x;
     sdecq := sdecq x; sstrq := sstrq x; cdecq := cdecq x; cstrq := cstrq x; unary_done := unary_done x; lost := lost x; torn := torn x |}.
Definition set_s (s : sid) (c : sstream) (x : st) : st :=
  {| cstreams := cstreams x; sstreams := update s c (sstreams x); sgone := sgone x; w_c2s := w_c2s x; w_s2c := w_s2c x;
     sdecq := sdecq x; sstrq := sstrq x; cdecq := cdecq x; cstrq := cstrq x; unary_done := unary_done x; lost := lost x; torn := torn x |}.
Definition set_wires (a : list c2s_frame) (b : list s2c_frame) (x : st) : st :=
  {| cstreams := cstreams x; sstreams := sstreams x; sgone := sgone x; w_c2s := a; w_s2c := b;
     sdecq := sdecq x; sstrq := sstrq x; cdecq := cdecq x; cstrq := cstrq x; unary_done := unary_done x; lost := lost x; torn := torn x |}.
Definition set_sq (d : list c2s_frame) (q : list (sid * nat)) (x : st) : st :=
  {| cstreams := cstreams x; sstreams := sstreams x; sgone := sgone x; w_c2s := w_c2s x; w_s2c := w_s2c x;
     sdecq := d; sstrq := q; cdecq := cdecq x; cstrq := cstrq x; unary_done := unary_done x; lost := lost x; torn := torn x |}.
Definition set_cq (d : list s2c_frame) (q : list (sid * nat)) (x : st) : st :=
  {| cstreams := cstreams x; sstreams := sstreams x; sgone := sgone x; w_c2s := w_c2s x; w_s2c := w_s2c x;
     sdecq := sdecq x; sstrq := sstrq x; cdecq := d; cstrq := q; unary_done := unary_done x; lost := lost x; torn := torn x |}.

(* ---- stream ends ---- *)
(* ReadMessage on an end with events [ev], closed flag [cl] *)
Definition c_do_read (c : cstream) : cstream :=
  if c_closed c then
    {| c_phase := c_phase c; c_events := c_events c; c_closed := true; c_blocked := c_blocked c;
       c_read := c_read c ++ [Shutdown]; c_written := c_written c; c_wres := c_wres c; c_lost := c_lost c; c_err := c_err c; c_unrouted := c_unrouted c |}
  else match c_events c with
       | m :: r => {| c_phase := c_phase c; c_events := r; c_closed := false; c_blocked := c_blocked c;
                      c_read := c_read c ++ [Got m]; c_written := c_written c; c_wres := c_wres c; c_lost := c_lost c; c_err := c_err c; c_unrouted := c_unrouted c |}
       | [] => {| c_phase := c_phase c; c_events := []; c_closed := false; c_blocked := S (c_blocked c);
                  c_read := c_read c; c_written := c_written c; c_wres := c_wres c; c_lost := c_lost c; c_err := c_err c; c_unrouted := c_unrouted c |}
       end.

(* trigger: append an event; a blocked reader takes it at once *)
Definition c_trigger (m : nat) (c : cstream) : cstream :=
  match c_blocked c, c_events c with
  | S b, [] => {| c_phase := c_phase c; c_events := []; c_closed := c_closed c; c_blocked := b;
                  c_read := c_read c ++ [Got m]; c_written := c_written c; c_wres := c_wres c; c_lost := c_lost c; c_err := c_err c; c_unrouted := c_unrouted c |}
  | _, _ => {| c_phase := c_phase c; c_events := c_events c ++ [m]; c_closed := c_closed c; c_blocked := c_blocked c;
               c_read := c_read c; c_written := c_written c; c_wres := c_wres c; c_lost := c_lost c; c_err := c_err c; c_unrouted := c_unrouted c |}
  end.

(* stop(): set closed, wake every blocked reader (each returns ErrStreamShutdown) *)
Definition c_stop (c : cstream) : cstream :=
  {| c_phase := c_phase c; c_events := c_events c; c_closed := true; c_blocked := 0;
     c_read := c_read c ++ repeat Shutdown (c_blocked c); c_written := c_written c; c_wres := c_wres c; c_lost := c_lost c; c_err := c_err c; c_unrouted := c_unrouted c |}.

Definition c_set_phase (p : phase) (c : cstream) : cstream :=
  {| c_phase := p; c_events := c_events c; c_closed := c_closed c; c_blocked := c_blocked c;
     c_read := c_read c; c_written := c_written c; c_wres := c_wres c; c_lost := c_lost c; c_err := c_err c; c_unrouted := c_unrouted c |}.

(* the sticky error of an error frame is attached *)
Definition c_set_err (c : cstream) : cstream :=
  {| c_phase := c_phase c; c_events := c_events c; c_closed := c_closed c; c_blocked := c_blocked c;
     c_read := c_read c; c_written := c_written c; c_wres := c_wres c; c_lost := c_lost c; c_err := true;
     c_unrouted := c_unrouted c |}.

(* a pushed message is dropped; the loss is recorded *)
Definition c_add_lost (m : nat) (c : cstream) : cstream :=
  {| c_phase := c_phase c; c_events := c_events c; c_closed := c_closed c; c_blocked := c_blocked c;
     c_read := c_read c; c_written := c_written c; c_wres := c_wres c; c_lost := c_lost c ++ [m]; c_err := c_err c;
     c_unrouted := c_unrouted c |}.

Definition s_do_read (c : sstream) : sstream :=
  if s_closed c then
    {| s_events := s_events c; s_closed := true; s_blocked := s_blocked c; s_read := s_read c ++ [Shutdown];
       s_written := s_written c; s_wres := s_wres c; s_acked := s_acked c; s_started := s_started c |}
  else match s_events c with
       | m :: r => {| s_events := r; s_closed := false; s_blocked := s_blocked c; s_read := s_read c ++ [Got m];
                      s_written := s_written c; s_wres := s_wres c; s_acked := s_acked c; s_started := s_started c |}
       | [] => {| s_events := []; s_closed := false; s_blocked := S (s_blocked c); s_read := s_read c;
                  s_written := s_written c; s_wres := s_wres c; s_acked := s_acked c; s_started := s_started c |}
       end.

Definition s_trigger (m : nat) (c : sstream) : sstream :=
  match s_blocked c, s_events c with
  | S b, [] => {| s_events := []; s_closed := s_closed c; s_blocked := b; s_read := s_read c ++ [Got m];
                  s_written := s_written c; s_wres := s_wres c; s_acked := s_acked c; s_started := s_started c |}
  | _, _ => {| s_events := s_events c ++ [m]; s_closed := s_closed c; s_blocked := s_blocked c; s_read := s_read c;
               s_written := s_written c; s_wres := s_wres c; s_acked := s_acked c; s_started := s_started c |}
  end.

Definition s_stop (c : sstream) : sstream :=
  {| s_events := s_events c; s_closed := true; s_blocked := 0; s_read := s_read c ++ repeat Shutdown (s_blocked c);
     s_written := s_written c; s_wres := s_wres c; s_acked := s_acked c; s_started := s_started c |}.

Definition s_flags (acked started : bool) (c : sstream) : sstream :=
  {| s_events := s_events c; s_closed := s_closed c; s_blocked := s_blocked c; s_read := s_read c;
     s_written := s_written c; s_wres := s_wres c; s_acked := acked; s_started := started |}.

Definition step (v : variant) (x : st) (a : action) : option st :=
  match a with
  | COpen s =>
      if lost x then None else
      match lookup s (cstreams x) with
      | Some _ => None
      | None => Some (set_wires (w_c2s x ++ [QOpen s]) (w_s2c x) (set_c s cstream0 x))
      end
  | CWrite s m =>
      match lookup s (cstreams x) with
      | Some c =>
          match c_phase c with
          | Opening => None            (* NewStream has not returned yet *)
          | _ =>
              if c_closed c then
                Some (set_c s {| c_phase := c_phase c; c_events := c_events c; c_closed := true; c_blocked := c_blocked c;
                                 c_read := c_read c; c_written := c_written c; c_wres := c_wres c ++ [false]; c_lost := c_lost c; c_err := c_err c; c_unrouted := c_unrouted c |} x)
              else
                Some (set_wires (if lost x then w_c2s x else w_c2s x ++ [QMsg s m]) (w_s2c x)
                        (set_c s {| c_phase := c_phase c; c_events := c_events c; c_closed := false; c_blocked := c_blocked c;
                                    c_read := c_read c; c_written := c_written c ++ [m]; c_wres := c_wres c ++ [true];
                                    c_lost := c_lost c; c_err := c_err c; c_unrouted := c_unrouted c |} x))
          end
      | None => None
      end
  | CWriteBad s =>
      (* Conn.send: WriteRequest fails to encode: nothing is sent, WriteMessage returns nil.  The pinned tree's error
         path also deleted the pending-table entry under the stream's number *)
      match lookup s (cstreams x) with
      | Some c =>
          match c_phase c with
          | Opening => None
          | _ =>
              if c_closed c then
                Some (set_c s {| c_phase := c_phase c; c_events := c_events c; c_closed := true; c_blocked := c_blocked c;
                                 c_read := c_read c; c_written := c_written c; c_wres := c_wres c ++ [false];
                                 c_lost := c_lost c; c_err := c_err c; c_unrouted := c_unrouted c |} x)
              else
                Some (set_c s {| c_phase := c_phase c; c_events := c_events c; c_closed := false; c_blocked := c_blocked c;
                                 c_read := c_read c; c_written := c_written c; c_wres := c_wres c ++ [true];
                                 c_lost := c_lost c; c_err := c_err c;
                                 c_unrouted := if v_badwrite_keeps v then c_unrouted c else true |} x)
          end
      | None => None
      end
  | CRead s =>
      match lookup s (cstreams x) with
      | Some c => match c_phase c with Opening => None | _ => Some (set_c s (c_do_read c) x) end
      | None => None
      end
  | CClose s =>
      match lookup s (cstreams x) with
      | Some c =>
          match c_phase c with
          | Streaming =>
              Some (set_wires (if lost x then w_c2s x else w_c2s x ++ [QClose s]) (w_s2c x)
                      (set_c s (c_set_phase Closing (c_stop c)) x))
          | _ => None
          end
      | None => None
      end
  | CUnary id => if lost x then None else Some (set_wires (w_c2s x ++ [QUnary id]) (w_s2c x) x)
  | NetC2S =>
      match w_c2s x with
      | f :: r => if lost x then None else Some (set_sq (sdecq x ++ [f]) (sstrq x) (set_wires r (w_s2c x) x))
      | [] => None
      end
  | NetS2C =>
      match w_s2c x with
      | f :: r => if lost x then None else Some (set_cq (cdecq x ++ [f]) (cstrq x) (set_wires (w_c2s x) r x))
      | [] => None
      end
  | ConnLoss =>
      if lost x then None else
      (* both readers fail: every registered stream of the client is stopped; what is on the wire is gone.
         The server ends are stopped by the teardown, once the decode queue has drained *)
      Some {| cstreams := map (fun p => (fst p, c_stop (snd p))) (cstreams x);
              sstreams := sstreams x;
              sgone := sgone x; w_c2s := []; w_s2c := []; sdecq := sdecq x; sstrq := sstrq x;
              cdecq := cdecq x; cstrq := cstrq x; unary_done := unary_done x; lost := true; torn := torn x |}
  | STeardown =>
      if lost x then
        match sdecq x with
        | [] =>
            if torn x then None else
            Some {| cstreams := cstreams x;
                    sstreams := map (fun p => (fst p, s_stop (snd p))) (sstreams x);
                    sgone := sgone x; w_c2s := w_c2s x; w_s2c := w_s2c x; sdecq := []; sstrq := sstrq x;
                    cdecq := cdecq x; cstrq := cstrq x; unary_done := unary_done x; lost := true; torn := true |}
        | _ :: _ => None
        end
      else None
  | SDecode =>
      match sdecq x with
      | [] => None
      | f :: r =>
          let x0 := set_sq r (sstrq x) x in
          match f with
          | QOpen s =>
              match lookup s (sstreams x) with
              | Some _ => Some x0
              | None =>
                  if v_ack_first v then
                    (* acknowledgement written, then the handler goroutine is started *)
                    Some (set_wires (w_c2s x0) (if lost x then w_s2c x0 else w_s2c x0 ++ [PAck s])
                            (set_s s (s_flags true true sstream0) x0))
                  else Some (set_s s sstream0 x0)
              end
          | QMsg s m =>
              match lookup s (sstreams x) with
              | Some _ => Some (set_sq r (sstrq x ++ [(s, m)]) x)
              | None => Some x0
              end
          | QClose s =>
              let x1 := match lookup s (sstreams x) with
                        | Some c => {| cstreams := cstreams x0; sstreams := remove s (sstreams x0);
                                       sgone := sgone x0 ++ [(s, s_stop c)]; w_c2s := w_c2s x0; w_s2c := w_s2c x0;
                                       sdecq := sdecq x0; sstrq := sstrq x0; cdecq := cdecq x0; cstrq := cstrq x0;
                                       unary_done := unary_done x0; lost := lost x0; torn := torn x0 |}
                        | None => x0
                        end in
              Some (set_wires (w_c2s x1) (if lost x then w_s2c x1 else w_s2c x1 ++ [PCloseAck s]) x1)
          | QUnary id => Some (set_wires (w_c2s x0) (if lost x then w_s2c x0 else w_s2c x0 ++ [PUnary id]) x0)
          end
      end
  | SAck s =>
      if v_ack_first v then None else
      match lookup s (sstreams x) with
      | Some c => if s_acked c then None else
                  Some (set_wires (w_c2s x) (if lost x then w_s2c x else w_s2c x ++ [PAck s]) (set_s s (s_flags true (s_started c) c) x))
      | None => None
      end
  | SStart s =>
      if v_ack_first v then None else
      match lookup s (sstreams x) with
      | Some c => if s_started c then None else Some (set_s s (s_flags (s_acked c) true c) x)
      | None => None
      end
  | SDeliver =>
      match sstrq x with
      | (s, m) :: r =>
          match lookup s (sstreams x) with
          | Some c => Some (set_sq (sdecq x) r (set_s s (s_trigger m c) x))
          | None => Some (set_sq (sdecq x) r x)
          end
      | [] => None
      end
  | SWrite s m =>
      match lookup s (sstreams x) with
      | Some c =>
          if negb (s_started c) then None else
          if s_closed c then
            Some (set_s s {| s_events := s_events c; s_closed := true; s_blocked := s_blocked c; s_read := s_read c;
                             s_written := s_written c; s_wres := s_wres c ++ [false]; s_acked := s_acked c; s_started := true |} x)
          else
            Some (set_wires (w_c2s x) (if lost x then w_s2c x else w_s2c x ++ [PMsg s m])
                    (set_s s {| s_events := s_events c; s_closed := false; s_blocked := s_blocked c; s_read := s_read c;
                                s_written := s_written c ++ [m]; s_wres := s_wres c ++ [true]; s_acked := s_acked c;
                                s_started := true |} x))
      | None => None
      end
  | SWriteBad s =>
      (* serverCodec.WriteResponse: the body codec cannot encode the value: WriteMessage returns nil and an error
         frame without a message is sent under the stream's number *)
      match lookup s (sstreams x) with
      | Some c =>
          if negb (s_started c) then None else
          if s_closed c then
            Some (set_s s {| s_events := s_events c; s_closed := true; s_blocked := s_blocked c; s_read := s_read c;
                             s_written := s_written c; s_wres := s_wres c ++ [false]; s_acked := s_acked c; s_started := true |} x)
          else
            Some (set_wires (w_c2s x) (if lost x then w_s2c x else w_s2c x ++ [PErr s])
                    (set_s s {| s_events := s_events c; s_closed := false; s_blocked := s_blocked c; s_read := s_read c;
                                s_written := s_written c; s_wres := s_wres c ++ [true]; s_acked := s_acked c;
                                s_started := true |} x))
      | None => None
      end
  | SRead s =>
      match lookup s (sstreams x) with
      | Some c => if negb (s_started c) then None else Some (set_s s (s_do_read c) x)
      | None => None
      end
  | CDecode =>
      match cdecq x with
      | [] => None
      | f :: r =>
          let x0 := set_cq r (cstrq x) x in
          match f with
          | PAck s =>
              match lookup s (cstreams x) with
              | Some c => match c_phase c with
                          | Opening => Some (set_c s (c_set_phase Streaming c) x0)
                          | Streaming =>
                              (* a frame with the stream's number while streaming is a message: an empty one;
                                 without the routing entry it is dropped *)
                              if c_unrouted c then Some x0 else
                              Some (set_cq r (cstrq x ++ [(s, 0)]) x)
                          | _ => Some x0
                          end
              | None => Some x0
              end
          | PMsg s m =>
              match lookup s (cstreams x) with
              | Some c => match c_phase c with
                          | Opening =>
                              (* taken for the acknowledgement: the message is lost *)
                              Some (set_c s {| c_phase := Streaming; c_events := c_events c; c_closed := c_closed c;
                                               c_blocked := c_blocked c; c_read := c_read c; c_written := c_written c;
                                               c_wres := c_wres c; c_lost := c_lost c ++ [m]; c_err := c_err c;
                                               c_unrouted := c_unrouted c |} x0)
                          | Streaming =>
                              (* without the routing entry the message is dropped *)
                              if c_unrouted c then Some (set_c s (c_add_lost m c) x0) else
                              Some (set_cq r (cstrq x ++ [(s, m)]) x)
                          | _ => Some x0
                          end
              | None => Some x0
              end
          | PCloseAck s =>
              match lookup s (cstreams x) with
              | Some c => Some (set_c s (c_set_phase Gone c) x0)
              | None => Some x0
              end
          | PUnary id =>
              Some {| cstreams := cstreams x0; sstreams := sstreams x0; sgone := sgone x0; w_c2s := w_c2s x0; w_s2c := w_s2c x0;
                      sdecq := sdecq x0; sstrq := sstrq x0; cdecq := cdecq x0; cstrq := cstrq x0;
                      unary_done := unary_done x0 ++ [id]; lost := lost x0; torn := torn x0 |}
          | PErr s =>
              (* the frame is consumed; a routed stream in its streaming phase keeps the error for good *)
              match lookup s (cstreams x) with
              | Some c => match c_phase c with
                          | Streaming => if c_unrouted c then Some x0 else Some (set_c s (c_set_err c) x0)
                          | _ => Some x0
                          end
              | None => Some x0
              end
          end
      end
  | CDeliver =>
      match cstrq x with
      | (s, m) :: r =>
          match lookup s (cstreams x) with
          | Some c => Some (set_cq (cdecq x) r (set_c s (c_trigger m c) x))
          | None => Some (set_cq (cdecq x) r x)
          end
      | [] => None
      end
  end.

Fixpoint run (v : variant) (tr : list action) (x : st) : option st :=
  match tr with
  | [] => Some x
  | a :: tr' => match step v x a with Some x' => run v tr' x' | None => None end
  end.

(* ---- projections ---- *)
Definition msgs_q (s : sid) (l : list (sid * nat)) : list nat :=
  flat_map (fun p => if Nat.eqb (fst p) s then [snd p] else []) l.
Definition msgs_c2s (s : sid) (l : list c2s_frame) : list nat :=
  flat_map (fun f => match f with QMsg s' m => if Nat.eqb s' s then [m] else [] | _ => [] end) l.
Definition msgs_s2c (s : sid) (l : list s2c_frame) : list nat :=
  flat_map (fun f => match f with PMsg s' m => if Nat.eqb s' s then [m] else [] | _ => [] end) l.
Definition gots (l : list rdres) : list nat :=
  flat_map (fun r => match r with Got m => [m] | Shutdown => [] end) l.
