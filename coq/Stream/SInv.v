(* Stream/SInv.v — the conservation invariant of the current variant. *)
From Coq Require Import List Arith Bool Lia.
From RPC.Stream Require Import Model Util Basic.
Import ListNotations.
Open Scope nat_scope.

Definition open_ph (p : phase) : Prop := p = Opening \/ p = Streaming.

Definition srv_side (s : sid) (x : st) : list nat :=
  match lookup s (sstreams x) with Some ss => gots (s_read ss) ++ s_events ss | None => [] end.
Definition srv_sent (s : sid) (x : st) : list nat :=
  match lookup s (sstreams x) with Some ss => s_written ss | None => [] end.

(* the two pipelines, in processing order *)
Definition c2s (x : st) := sdecq x ++ w_c2s x.
Definition s2c (x : st) := cdecq x ++ w_s2c x.

(* what the invariant reads of the state for stream s, beside the client end *)
Definition has_srv (s : sid) (x : st) : bool := if lookup s (sstreams x) then true else false.

Definition view (s : sid) (x : st) :=
  (srv_side s x, srv_sent s x, has_srv s x,
   msgs_c2s s (c2s x), cnt (is_qclose s) (c2s x), msgs_q s (sstrq x),
   msgs_q s (cstrq x), cnt (is_pack s) (s2c x), msgs_s2c s (s2c x)).

Record Fresh (s : sid) (x : st) : Prop := {
  fr_srv : has_srv s x = false;
  fr_qopen : cnt (is_qopen s) (c2s x) = 0;
  fr_qmsg : msgs_c2s s (c2s x) = [];
  fr_qclose : cnt (is_qclose s) (c2s x) = 0;
  fr_sq : msgs_q s (sstrq x) = [];
  fr_cq : msgs_q s (cstrq x) = [];
  fr_pack : cnt (is_pack s) (s2c x) = 0;
  fr_pmsg : msgs_s2c s (s2c x) = [] }.

Definition c2s_eq s (c : cstream) x :=
  srv_side s x ++ msgs_q s (sstrq x) ++ msgs_c2s s (c2s x) = c_written c.
Definition s2c_eq s (c : cstream) x :=
  gots (c_read c) ++ c_events c ++ msgs_q s (cstrq x) ++ msgs_s2c s (s2c x) = srv_sent s x.

Record Live (s : sid) (c : cstream) (x : st) : Prop := {
  lv_qclose : open_ph (c_phase c) -> cnt (is_qclose s) (c2s x) = 0;
  lv_c2s : open_ph (c_phase c) -> c2s_eq s c x;
  lv_s2c : open_ph (c_phase c) -> c_closed c = false -> s2c_eq s c x;
  lv_op_w : c_phase c = Opening -> c_written c = [];
  lv_op_none : c_phase c = Opening -> has_srv s x = false -> cnt (is_pack s) (s2c x) = 0;
  lv_op_some : c_phase c = Opening -> has_srv s x = true -> cnt (is_pack s) (s2c x) = 1;
  lv_st_srv : c_phase c = Streaming -> has_srv s x = true;
  lv_st_pack : c_phase c = Streaming -> cnt (is_pack s) (s2c x) = 0 }.

Record LInv (x : st) : Prop := {
  l_fresh : forall s, lookup s (cstreams x) = None -> Fresh s x;
  l_live : forall s c, lookup s (cstreams x) = Some c -> Live s c x }.

Record AInv (x : st) : Prop := {
  a_ackfirst : forall s c, lookup s (cstreams x) = Some c -> c_phase c = Opening -> ack_first s (s2c x);
  a_lost : forall s c, lookup s (cstreams x) = Some c -> c_lost c = [];
  a_open1 : forall s, cnt (is_qopen s) (c2s x) <= 1;
  a_open0 : forall s, has_srv s x = true -> cnt (is_qopen s) (c2s x) = 0;
  (* a failed write never deletes the routing entry *)
  a_routed : forall s c, lookup s (cstreams x) = Some c -> c_unrouted c = false }.

Definition Inv (x : st) : Prop := AInv x /\ (lost x = false -> LInv x).

(* ---- the invariant only reads the view ---- *)
Lemma Fresh_view s x x' : view s x' = view s x -> cnt (is_qopen s) (c2s x') = cnt (is_qopen s) (c2s x) ->
  Fresh s x -> Fresh s x'.
Proof.
  unfold view. intros V Q [F1 F2 F3 F4 F5 F6 F7 F8]. injection V as V1 V2 V3 V4 V5 V6 V7 V8 V9.
  constructor; rewrite ?V1, ?V2, ?V3, ?V4, ?V5, ?V6, ?V7, ?V8, ?V9, ?Q; assumption.
Qed.

Lemma Live_view s c x x' : view s x' = view s x -> Live s c x -> Live s c x'.
Proof.
  unfold view. intros V [L1 L2 L3 L4 L5 L6 L7 L8]. injection V as V1 V2 V3 V4 V5 V6 V7 V8 V9.
  constructor; unfold c2s_eq, s2c_eq in *; rewrite ?V1, ?V2, ?V3, ?V4, ?V5, ?V6, ?V7, ?V8, ?V9; assumption.
Qed.

(* the client end enters the invariant through a few fields only *)
Lemma Live_client s c c' x : c_phase c' = c_phase c -> c_closed c' = c_closed c -> c_written c' = c_written c ->
  gots (c_read c') ++ c_events c' = gots (c_read c) ++ c_events c ->
  Live s c x -> Live s c' x.
Proof.
  intros P K W R [L1 L2 L3 L4 L5 L6 L7 L8].
  constructor; unfold c2s_eq, s2c_eq in *; rewrite ?P, ?K, ?W; auto.
  intros O Cl. rewrite app_assoc, R, <- app_assoc. auto.
Qed.

Lemma Live_dead s c x : ~ open_ph (c_phase c) -> Live s c x.
Proof. unfold open_ph. intros N. constructor; intros; exfalso; apply N; auto. Qed.

(* stop at the [Some _ = Some _] level *)
Ltac destr1 H := repeat match type of H with
  | Some _ = Some _ => fail 1
  | context [match ?e with _ => _ end] => destruct e eqn:?; try discriminate
  end; inversion H; subst; clear H.

Ltac norm := rewrite ?cnt_app, ?msgs_q_app, ?msgs_c2s_app, ?msgs_s2c_app, ?gots_app; simpl;
  rewrite ?Nat.eqb_refl; simpl; rewrite ?app_nil_r, ?Nat.add_0_r.

Ltac rw_lookups := repeat match goal with
  | SV : lookup ?s ?l = ?v |- context [lookup ?s ?l] => rewrite SV
  | SV : lookup ?s ?l = ?v, H : context [lookup ?s ?l] |- _ =>
      tryif constr_eq H SV then fail else rewrite SV in H
  end.
Ltac norm_all := unfold view, c2s_eq, s2c_eq in *; unfold srv_side, srv_sent, has_srv, c2s, s2c in *; simpl in *;
  rewrite ?lookup_update_eq in *; rw_lookups; simpl in *;
  rewrite ?cnt_app, ?msgs_q_app, ?msgs_c2s_app, ?msgs_s2c_app, ?gots_app in *; simpl in *;
  rewrite ?Nat.eqb_refl in *; simpl in *; rewrite <- ?app_assoc in *; rewrite ?app_nil_r, ?Nat.add_0_r in *.

Ltac unf := unfold view, c2s_eq, s2c_eq in *; unfold srv_side, srv_sent, has_srv, c2s, s2c in *.
Ltac rw_ev := repeat match goal with
  | EV : s_events ?v = _ |- context [s_events ?v] => rewrite EV
  | EV : c_events ?v = _ |- context [c_events ?v] => rewrite EV end.
Ltac leq := match goal with
  | L : ?a = ?r |- _ = ?r ++ _ => rewrite <- L; rw_ev; repeat (simpl; rewrite <- ?app_assoc); reflexivity
  | L : ?a = ?r |- _ = ?r => rewrite <- L; rw_ev; repeat (simpl; rewrite <- ?app_assoc); reflexivity
  end.
Ltac phx := match goal with H : open_ph _ |- _ => solve [destruct H; congruence] end.
Ltac lcontra := match goal with
  | L : _ = ?w, L' : ?w = [] |- _ =>
      exfalso; rewrite L' in L; apply (f_equal (@length _)) in L; rewrite ?app_length in L; simpl in L; lia
  | L : _ = [] |- _ => exfalso; apply (f_equal (@length _)) in L; rewrite ?app_length in L; simpl in L; lia
  end.
Ltac spec_hyps := repeat match goal with
  | L : ?P -> _, H : ?P |- _ => specialize (L H)
  | L : ?a = ?a -> _ |- _ => specialize (L eq_refl)
  end.
Ltac fin := auto; try lia; try congruence; try phx; spec_hyps; try lia; try leq; try lcontra.

(* views of streams other than the one the step concerns *)
Ltac view_ne s s0 :=
  let N := fresh "N" in let N' := fresh "N'" in
  assert (N : Nat.eqb s s0 = false) by (apply Nat.eqb_neq; congruence);
  assert (N' : Nat.eqb s0 s = false) by (apply Nat.eqb_neq; congruence);
  unf; simpl; rewrite ?lookup_update_ne, ?lookup_remove_ne by congruence;
  repeat (rewrite ?cnt_app, ?msgs_q_app, ?msgs_c2s_app, ?msgs_s2c_app; simpl; rewrite ?N, ?N'; simpl);
  rewrite ?app_nil_r, ?Nat.add_0_r; try reflexivity.

(* a step that replaces the client end of s: what is left is the Live goal for s itself *)
Ltac client_step LF LL s :=
  let s0 := fresh "s0" in let E := fresh "E" in let c' := fresh "c'" in let c0 := fresh "c0" in
  constructor; simpl; intros s0; rewrite lookup_update; destruct (Nat.eqb_spec s0 s);
  [ discriminate
  | intros E; eapply Fresh_view; [| |apply LF; auto]; view_ne s s0
  | subst s0; intros c' E; inversion E; subst c'; clear E
  | intros c0 E; eapply Live_view; [|apply LL; eauto]; view_ne s s0 ].

(* a step that leaves the client table alone and concerns stream s: Fresh s and Live s are left *)
Ltac other_step LF LL s :=
  let s0 := fresh "s0" in let E := fresh "E" in let c0 := fresh "c0" in
  constructor; simpl; [intros s0 E | intros s0 c0 E]; (destruct (Nat.eq_dec s0 s);
  [ subst s0 | first [eapply Fresh_view; [| |apply LF; auto] | eapply Live_view; [|apply LL; eauto]]; view_ne s s0 ]).

(* a step that concerns no stream *)
Ltac view_same :=
  unf; simpl; repeat (rewrite ?cnt_app, ?msgs_q_app, ?msgs_c2s_app, ?msgs_s2c_app; simpl);
  rewrite ?app_nil_r, ?Nat.add_0_r; try reflexivity.
Ltac no_step LF LL :=
  let s0 := fresh "s0" in let E := fresh "E" in let c0 := fresh "c0" in
  constructor; simpl; [intros s0 E | intros s0 c0 E];
  first [eapply Fresh_view; [| |apply LF; auto] | eapply Live_view; [|apply LL; eauto]]; view_same.

Ltac ph := solve [unfold open_ph in *; simpl in *; first [congruence | left; congruence | right; congruence]].
Ltac spec1 L := match type of L with ?P -> _ =>
  first [ let HP := fresh in assert (HP : P) by ph; specialize (L HP); clear HP | clear L ] end.
Ltac spec2 L := match type of L with ?P -> _ =>
  try (let HP := fresh in assert (HP : P) by ph; specialize (L HP); clear HP) end.
(* the facts about the old client end of s, with their phase premises discharged or dropped *)
Ltac live_of LL E :=
  let L1 := fresh "L1" in let L2 := fresh "L2" in let L3 := fresh "L3" in let L4 := fresh "L4" in
  let L5 := fresh "L5" in let L6 := fresh "L6" in let L7 := fresh "L7" in let L8 := fresh "L8" in
  destruct (LL _ _ E) as [L1 L2 L3 L4 L5 L6 L7 L8];
  spec1 L1; spec1 L2; spec1 L3; spec1 L4; spec1 L5; spec1 L6; spec1 L7; spec1 L8;
  try spec2 L3.

Ltac fresh_of LF E :=
  let F1 := fresh "F1" in let F2 := fresh "F2" in let F3 := fresh "F3" in let F4 := fresh "F4" in
  let F5 := fresh "F5" in let F6 := fresh "F6" in let F7 := fresh "F7" in let F8 := fresh "F8" in
  destruct (LF _ E) as [F1 F2 F3 F4 F5 F6 F7 F8].
Ltac fresh_contra LF E := exfalso; fresh_of LF E; norm_all; fin; try discriminate.
Ltac live_gen LL E :=
  match type of E with lookup _ _ = Some ?c => destruct (c_phase c) eqn:? end;
  live_of LL E; constructor; simpl; intros; norm_all; fin.

