(* Stream/LStepB.v — preservation of the conservation invariant: the client reader's actions. *)
From Coq Require Import List Arith Bool Lia.
From RPC.Stream Require Import Model Util Basic SInv.
Import ListNotations.
Open Scope nat_scope.

Lemma LInv_step_CDecode x x' :
  AInv x -> LInv x -> lost x = false -> step current x CDecode = Some x' -> lost x' = false -> LInv x'.
Proof.
  intros A [LF LL] Hl H Hl'. simpl in H.
  destruct x as [cs ss sg wc ws sd sq cd cq ud lo tn]; simpl in *; subst lo.
  destruct cd as [|f r]; try discriminate. destruct f as [s|s m|s|id|s].
  - (* PAck *) destruct (lookup s cs) as [c|] eqn:CV;
      [pose proof (a_routed _ A _ _ CV) as UR; destruct (c_phase c) eqn:P; rewrite ?UR in H|]; inversion H; subst; clear H.
    + client_step LF LL s. destruct (lookup s ss) eqn:SV; live_of LL CV; constructor; simpl; intros; norm_all; fin.
    + other_step LF LL s; [congruence|]. assert (c0 = c) by congruence; subst c0.
      live_of LL CV; constructor; simpl; intros; norm_all; fin.
    + other_step LF LL s; [congruence|]. assert (c0 = c) by congruence; subst c0.
      live_of LL CV; constructor; simpl; intros; norm_all; fin.
    + other_step LF LL s; [congruence|]. assert (c0 = c) by congruence; subst c0.
      live_of LL CV; constructor; simpl; intros; norm_all; fin.
    + other_step LF LL s; [|congruence]. fresh_contra LF E.
  - (* PMsg *) destruct (lookup s cs) as [c|] eqn:CV;
      [pose proof (a_routed _ A _ _ CV) as UR; destruct (c_phase c) eqn:P; rewrite ?UR in H|]; inversion H; subst; clear H.
    + exfalso. pose proof (a_ackfirst _ A _ _ CV P) as AF. unfold s2c in AF. simpl in AF.
      rewrite Nat.eqb_refl in AF. exact AF.
    + other_step LF LL s; [congruence|]. assert (c0 = c) by congruence; subst c0.
      live_of LL CV; constructor; simpl; intros; norm_all; fin.
    + other_step LF LL s; [congruence|]. assert (c0 = c) by congruence; subst c0.
      live_of LL CV; constructor; simpl; intros; norm_all; fin.
    + other_step LF LL s; [congruence|]. assert (c0 = c) by congruence; subst c0.
      live_of LL CV; constructor; simpl; intros; norm_all; fin.
    + other_step LF LL s; [|congruence]. fresh_contra LF E.
  - (* PCloseAck *) destruct (lookup s cs) as [c|] eqn:CV; inversion H; subst; clear H.
    + client_step LF LL s. apply Live_dead. simpl. intros [?|?]; discriminate.
    + no_step LF LL.
  - (* PUnary *) inversion H; subst; clear H. no_step LF LL.
  - (* PErr *) destruct (lookup s cs) as [c|] eqn:CV;
      [pose proof (a_routed _ A _ _ CV) as UR; destruct (c_phase c) eqn:P; rewrite ?UR in H|]; inversion H; subst; clear H;
      try solve [no_step LF LL].
    client_step LF LL s. live_of LL CV; constructor; simpl; intros; norm_all; fin.
Qed.

Lemma LInv_step_CDeliver x x' :
  AInv x -> LInv x -> lost x = false -> step current x CDeliver = Some x' -> lost x' = false -> LInv x'.
Proof.
  intros A [LF LL] Hl H Hl'. simpl in H.
  destruct x as [cs ss sg wc ws sd sq cd cq ud lo tn]; simpl in *; subst lo.
  destruct cq as [|[s m] r]; try discriminate.
  destruct (lookup s cs) as [c|] eqn:CV; inversion H; subst; clear H.
  - client_step LF LL s. unfold c_trigger.
    destruct (c_blocked c); [|destruct (c_events c) eqn:EV];
      destruct (c_phase c) eqn:P; live_of LL CV; constructor; simpl; intros; norm_all; fin.
  - other_step LF LL s; [|congruence]. fresh_contra LF E.
Qed.
