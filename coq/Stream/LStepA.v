(* Stream/LStepA.v — preservation of the conservation invariant: every action but the client reader's. *)
From Coq Require Import List Arith Bool Lia.
From RPC.Stream Require Import Model Util Basic SInv.
Import ListNotations.
Open Scope nat_scope.

Definition reader_action (a : action) : bool := match a with CDecode | CDeliver => true | _ => false end.

Lemma LInv_step_A x a x' : reader_action a = false ->
  AInv x -> LInv x -> lost x = false -> step current x a = Some x' -> lost x' = false -> LInv x'.
Proof.
  intros RA A [LF LL] Hl H Hl'.
  destruct a; simpl in H; rewrite ?Hl in H.
  - (* COpen *) destr1 H. constructor; simpl; intros s0; rewrite lookup_update; destruct (Nat.eqb_spec s0 s).
    + discriminate.
    + intros E. eapply Fresh_view; [| |apply LF; auto]; view_ne s s0.
    + subst. intros c E. inversion E; subst; clear E.
      destruct (LF _ Heqo) as [F1 F2 F3 F4 F5 F6 F7 F8]. clear LF LL.
      unfold has_srv in F1. destruct (lookup s (sstreams x)) eqn:SV; try discriminate.
      constructor; intros; norm_all; rewrite ?SV, ?F3, ?F5, ?F6, ?F8 in *; fin.
    + intros c E. eapply Live_view; [|apply LL; eauto]; view_ne s s0.
  - (* CWrite *) destr1 H; client_step LF LL s.
    all: live_of LL Heqo; clear LF LL; constructor; simpl; intros; norm_all; fin.
  - (* CWriteBad *) destr1 H; client_step LF LL s.
    all: live_of LL Heqo; clear LF LL; constructor; simpl; intros; norm_all; fin.
  - (* CRead *) destr1 H; client_step LF LL s.
    all: unfold c_do_read; destruct (c_closed c) eqn:K; [|destruct (c_events c) eqn:EV];
      live_of LL Heqo; clear LF LL; constructor; simpl; intros; norm_all; fin.
  - (* CClose *) destr1 H; client_step LF LL s. apply Live_dead. simpl. intros [?|?]; discriminate.
  - (* CUnary *) destr1 H. no_step LF LL.
  - (* NetC2S *) destr1 H.
    match goal with |- LInv ?y => assert (C : c2s y = c2s x)
      by (unfold c2s; simpl; rewrite Heql, <- app_assoc; reflexivity) end.
    constructor; simpl; [intros s0 E | intros s0 c0 E];
      [eapply Fresh_view; [| |apply LF; auto] | eapply Live_view; [|apply LL; eauto]];
      unfold view, srv_side, srv_sent, has_srv; rewrite ?C; reflexivity.
  - (* NetS2C *) destr1 H.
    match goal with |- LInv ?y => assert (C : s2c y = s2c x)
      by (unfold s2c; simpl; rewrite Heql, <- app_assoc; reflexivity) end.
    constructor; simpl; [intros s0 E | intros s0 c0 E];
      [eapply Fresh_view; [| |apply LF; auto] | eapply Live_view; [|apply LL; eauto]];
      unfold view, srv_side, srv_sent, has_srv; rewrite ?C; reflexivity.
  - (* ConnLoss *) destr1 H. discriminate.
  - (* STeardown *) simpl in H. discriminate.
  - (* SDecode *)
    destruct x as [cs ss sg wc ws sd sq cd cq ud lo tn]; simpl in *; subst lo.
    destruct sd as [|f r]; try discriminate. destruct f as [s|s m|s|id].
    + (* QOpen *) destruct (lookup s ss) eqn:SV; simpl in H; inversion H; subst; clear H.
      * other_step LF LL s.
        -- fresh_contra LF E.
        -- live_gen LL E.
      * other_step LF LL s.
        -- fresh_contra LF E.
        -- live_gen LL E.
    + (* QMsg *) destruct (lookup s ss) eqn:SV; simpl in H; inversion H; subst; clear H.
      * other_step LF LL s.
        -- fresh_contra LF E.
        -- live_gen LL E.
      * other_step LF LL s.
        -- fresh_contra LF E.
        -- live_gen LL E.
    + (* QClose *) destruct (lookup s ss) eqn:SV; simpl in H; inversion H; subst; clear H.
      * other_step LF LL s.
        -- fresh_contra LF E.
        -- live_gen LL E.
      * other_step LF LL s.
        -- fresh_contra LF E.
        -- live_gen LL E.
    + (* QUnary *) simpl in H; inversion H; subst; clear H. no_step LF LL.
  - (* SAck *) discriminate.
  - (* SStart *) discriminate.
  - (* SDeliver *)
    destruct x as [cs ss sg wc ws sd sq cd cq ud lo tn]; simpl in *; subst lo.
    destruct sq as [|[s m] r]; try discriminate.
    destruct (lookup s ss) as [sv|] eqn:SV; simpl in H; inversion H; subst; clear H.
    + other_step LF LL s.
      * fresh_contra LF E.
      * unfold s_trigger. destruct (s_blocked sv); [|destruct (s_events sv) eqn:EV]; live_gen LL E.
    + other_step LF LL s.
      * fresh_contra LF E.
      * live_gen LL E.
  - (* SWrite *)
    destruct (lookup s (sstreams x)) as [sv|] eqn:SV; try discriminate.
    destruct (negb (s_started sv)); try discriminate.
    destruct (s_closed sv) eqn:K; inversion H; subst; clear H.
    + other_step LF LL s.
      * fresh_contra LF E.
      * live_gen LL E.
    + other_step LF LL s.
      * fresh_contra LF E.
      * live_gen LL E.
  - (* SWriteBad *)
    destruct (lookup s (sstreams x)) as [sv|] eqn:SV; try discriminate.
    destruct (negb (s_started sv)); try discriminate.
    destruct (s_closed sv) eqn:K; inversion H; subst; clear H.
    + other_step LF LL s.
      * fresh_contra LF E.
      * live_gen LL E.
    + other_step LF LL s.
      * fresh_contra LF E.
      * live_gen LL E.
  - (* SRead *)
    destruct (lookup s (sstreams x)) as [sv|] eqn:SV; try discriminate.
    destruct (negb (s_started sv)); try discriminate. inversion H; subst; clear H.
    other_step LF LL s.
    + fresh_contra LF E.
    + unfold s_do_read. destruct (s_closed sv); [|destruct (s_events sv) eqn:EV]; live_gen LL E.
  - discriminate.
  - discriminate.
Qed.
