From Coq Require Import List Arith Bool Lia.
From RPC.Stream Require Import Model Util.
Import ListNotations.
Open Scope nat_scope.

Theorem closed_read_shutdown x x' s c : lookup s (cstreams x) = Some c -> c_closed c = true -> c_phase c <> Opening ->
  step current x (CRead s) = Some x' ->
  exists c', lookup s (cstreams x') = Some c' /\ c_read c' = c_read c ++ [Shutdown] /\ c_blocked c' = c_blocked c.
Proof.
  intros L C P H. simpl in H. rewrite L in H.
  destruct (c_phase c) eqn:E; try congruence; inversion H; subst; clear H;
    (exists (c_do_read c); simpl; rewrite lookup_update_eq; unfold c_do_read; rewrite C; simpl; auto).
Qed.

Theorem closed_write_shutdown x x' s c m : lookup s (cstreams x) = Some c -> c_closed c = true -> c_phase c <> Opening ->
  step current x (CWrite s m) = Some x' ->
  exists c', lookup s (cstreams x') = Some c' /\ c_wres c' = c_wres c ++ [false] /\ c_written c' = c_written c /\
             w_c2s x' = w_c2s x.
Proof.
  intros L C P H. simpl in H. rewrite L, C in H.
  destruct (c_phase c) eqn:E; try congruence; inversion H; subst; clear H;
    (eexists; simpl; rewrite lookup_update_eq; split; [reflexivity|simpl; auto]).
Qed.

Theorem server_closed_read_shutdown x x' s c : lookup s (sstreams x) = Some c -> s_closed c = true -> s_started c = true ->
  step current x (SRead s) = Some x' ->
  exists c', lookup s (sstreams x') = Some c' /\ s_read c' = s_read c ++ [Shutdown] /\ s_blocked c' = s_blocked c.
Proof.
  intros L C P H. simpl in H. rewrite L, P in H. simpl in H. inversion H; subst; clear H.
  exists (s_do_read c). simpl. rewrite lookup_update_eq. unfold s_do_read. rewrite C. simpl. auto.
Qed.

Theorem client_close_stops_client x x' s c : lookup s (cstreams x) = Some c -> c_phase c = Streaming ->
  step current x (CClose s) = Some x' ->
  exists c', lookup s (cstreams x') = Some c' /\ c_closed c' = true /\ c_blocked c' = 0 /\
             (lost x = false -> w_c2s x' = w_c2s x ++ [QClose s]).
Proof.
  intros L P H. simpl in H. rewrite L, P in H. inversion H; subst; clear H.
  eexists. simpl. rewrite lookup_update_eq. split; [reflexivity|]. simpl. repeat split; auto.
  intros ->. reflexivity.
Qed.

Theorem close_leaves_siblings x x' s s' : s' <> s -> step current x (CClose s) = Some x' ->
  lookup s' (cstreams x') = lookup s' (cstreams x) /\ sstreams x' = sstreams x /\ unary_done x' = unary_done x.
Proof.
  intros N H. simpl in H. destruct (lookup s (cstreams x)) as [c|]; try discriminate.
  destruct (c_phase c); try discriminate. inversion H; subst; clear H. simpl.
  rewrite lookup_update_ne; auto.
Qed.

Theorem close_request_leaves_siblings x x' s s' r : s' <> s -> sdecq x = QClose s :: r ->
  step current x SDecode = Some x' ->
  lookup s' (sstreams x') = lookup s' (sstreams x) /\ cstreams x' = cstreams x.
Proof.
  intros N D H. simpl in H. rewrite D in H. inversion H; subst; clear H.
  destruct (lookup s (sstreams x)); simpl; auto. rewrite lookup_remove_ne; auto.
Qed.

Theorem connloss_step x x' : step current x ConnLoss = Some x' ->
  (forall s c, lookup s (cstreams x') = Some c -> c_closed c = true /\ c_blocked c = 0) /\
  (forall s c, lookup s (sstreams x') = Some c -> s_closed c = true /\ s_blocked c = 0).
Proof.
  intros H. simpl in H. destruct (lost x); try discriminate. inversion H; subst; clear H. simpl.
  split; intros s c; rewrite lookup_map; destruct (lookup s _); simpl; try discriminate;
    intros E; inversion E; subst; auto.
Qed.

Example legacy_loses_first_message :
  exists x c, run legacy [COpen 1; NetC2S; SDecode; SStart 1; SWrite 1 7; SAck 1; NetS2C; NetS2C; CDecode; CDecode; CDeliver; CRead 1] init = Some x
    /\ lookup 1 (cstreams x) = Some c /\ c_lost c = [7] /\ c_read c = [Got 0].
Proof. eexists; eexists; split; [vm_compute; reflexivity|repeat split]. Qed.
Example current_delivers_first_message :
  exists x c, run current [COpen 1; NetC2S; SDecode; SWrite 1 7; NetS2C; NetS2C; CDecode; CDecode; CDeliver; CRead 1] init = Some x
    /\ lookup 1 (cstreams x) = Some c /\ c_lost c = [] /\ c_read c = [Got 7].
Proof. eexists; eexists; split; [vm_compute; reflexivity|repeat split]. Qed.

Theorem stream_frames_step x x' : step current x CDecode = Some x' ->
  (forall id r, cdecq x = PUnary id :: r -> unary_done x' = unary_done x ++ [id]) /\
  (forall r, (forall id, cdecq x <> PUnary id :: r) -> unary_done x' = unary_done x).
Proof.
  intros H. simpl in H. split.
  - intros id r E. rewrite E in H. inversion H; subst. reflexivity.
  - intros r N. destruct (cdecq x) as [|f q] eqn:E; try discriminate.
    destruct f.
    + destruct (lookup st (cstreams x)) as [c|]; [destruct (c_phase c)|]; inversion H; subst; reflexivity.
    + destruct (lookup st (cstreams x)) as [c|]; [destruct (c_phase c)|]; inversion H; subst; reflexivity.
    + destruct (lookup st (cstreams x)) as [c|]; inversion H; subst; reflexivity.
    + (* PUnary *) admit.
Abort.

(* counterexamples *)
Definition bad1 : st := {| cstreams := []; sstreams := [(1, sstream0); (1, sstream0)]; sgone := []; w_c2s := []; w_s2c := [];
  sdecq := [QClose 1]; sstrq := []; cdecq := []; cstrq := []; unary_done := []; lost := false |}.
Eval vm_compute in (option_map (fun x => lookup 1 (sstreams x)) (step current bad1 SDecode)).
Eval vm_compute in (option_map (fun x => (lost x, option_map s_closed (lookup 1 (sstreams x)))) (run current [COpen 1; NetC2S; ConnLoss; SDecode] init)).
Eval vm_compute in (option_map (fun x => (lost x, option_map (fun c => (s_closed c, s_blocked c)) (lookup 1 (sstreams x)))) (run current [COpen 1; NetC2S; ConnLoss; SDecode; SRead 1] init)).
