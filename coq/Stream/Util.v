(* Stream/Util.v — association-list and projection lemmas for the stream model. *)
From Coq Require Import List Arith Bool Lia.
From RPC.Stream Require Import Model.
Import ListNotations.
Open Scope nat_scope.

(* ---- lookup / update / remove ---- *)
Lemma lookup_update_eq {A} s (v : A) l : lookup s (update s v l) = Some v.
Proof.
  induction l as [|[k w] l IH]; simpl.
  - rewrite Nat.eqb_refl. reflexivity.
  - destruct (Nat.eqb s k) eqn:E; simpl; rewrite ?Nat.eqb_refl, ?E; auto.
Qed.

Lemma lookup_update_ne {A} s s' (v : A) l : s' <> s -> lookup s' (update s v l) = lookup s' l.
Proof.
  intros N. induction l as [|[k w] l IH]; simpl.
  - apply Nat.eqb_neq in N. rewrite N. reflexivity.
  - destruct (Nat.eqb s k) eqn:E; simpl.
    + apply Nat.eqb_eq in E. subst k. apply Nat.eqb_neq in N. rewrite N. reflexivity.
    + destruct (Nat.eqb s' k); auto.
Qed.

Lemma lookup_update {A} s s' (v : A) l :
  lookup s' (update s v l) = if Nat.eqb s' s then Some v else lookup s' l.
Proof.
  destruct (Nat.eqb s' s) eqn:E.
  - apply Nat.eqb_eq in E. subst. apply lookup_update_eq.
  - apply Nat.eqb_neq in E. apply lookup_update_ne; auto.
Qed.

Lemma lookup_remove_ne {A} s s' (l : list (sid * A)) : s' <> s -> lookup s' (remove s l) = lookup s' l.
Proof.
  intros N. induction l as [|[k w] l IH]; simpl; auto.
  destruct (Nat.eqb s k) eqn:E; simpl.
  - apply Nat.eqb_eq in E. subst k. apply Nat.eqb_neq in N. rewrite N. reflexivity.
  - destruct (Nat.eqb s' k); auto.
Qed.

Lemma lookup_map {A B} (f : A -> B) s (l : list (sid * A)) :
  lookup s (map (fun p => (fst p, f (snd p))) l) = option_map f (lookup s l).
Proof.
  induction l as [|[k w] l IH]; simpl; auto.
  destruct (Nat.eqb s k); simpl; auto.
Qed.

Lemma lookup_In {A} s (c : A) l : lookup s l = Some c -> In (s, c) l.
Proof.
  induction l as [|[k w] l IH]; simpl; try discriminate.
  destruct (Nat.eqb s k) eqn:E.
  - apply Nat.eqb_eq in E. subst. intros H. inversion H. auto.
  - auto.
Qed.

(* keys occur at most once *)
Lemma map_fst_map {A B} (f : A -> B) (l : list (sid * A)) :
  map fst (map (fun p => (fst p, f (snd p))) l) = map fst l.
Proof. induction l as [|[k w] l IH]; simpl; congruence. Qed.

Lemma lookup_None_notin {A} s (l : list (sid * A)) : lookup s l = None -> ~ In s (map fst l).
Proof.
  induction l as [|[k w] l IH]; simpl; auto.
  destruct (Nat.eqb s k) eqn:E; try discriminate.
  apply Nat.eqb_neq in E. intros H [F|F]; auto. eapply IH; eauto.
Qed.

Lemma notin_lookup_None {A} s (l : list (sid * A)) : ~ In s (map fst l) -> lookup s l = None.
Proof.
  induction l as [|[k w] l IH]; simpl; auto.
  intros H. destruct (Nat.eqb s k) eqn:E.
  - apply Nat.eqb_eq in E. subst. tauto.
  - apply IH. tauto.
Qed.

Lemma NoDup_remove_lookup {A} s (l : list (sid * A)) : NoDup (map fst l) -> lookup s (remove s l) = None.
Proof.
  induction l as [|[k w] l IH]; simpl; auto.
  intros H. inversion H; subst. destruct (Nat.eqb s k) eqn:E; simpl.
  - apply Nat.eqb_eq in E. subst. apply notin_lookup_None. auto.
  - rewrite E. auto.
Qed.

Lemma map_fst_update {A} s (v : A) l :
  map fst (update s v l) = if lookup s l then map fst l else map fst l ++ [s].
Proof.
  induction l as [|[k w] l IH]; simpl; auto.
  destruct (Nat.eqb s k) eqn:E; simpl.
  - apply Nat.eqb_eq in E. subst. reflexivity.
  - rewrite IH. destruct (lookup s l); reflexivity.
Qed.

Lemma NoDup_snoc {A} (a : A) l : NoDup l -> ~ In a l -> NoDup (l ++ [a]).
Proof.
  induction l as [|b l IH]; simpl; intros H N.
  - constructor; auto.
  - inversion H; subst. constructor.
    + rewrite in_app_iff. simpl. intros [F|[F|[]]]; auto.
    + apply IH; auto.
Qed.

Lemma NoDup_update {A} s (v : A) l : NoDup (map fst l) -> NoDup (map fst (update s v l)).
Proof.
  intros H. rewrite map_fst_update. destruct (lookup s l) eqn:E; auto.
  apply NoDup_snoc; auto. apply lookup_None_notin; auto.
Qed.

Lemma map_fst_remove_incl {A} s (l : list (sid * A)) k : In k (map fst (remove s l)) -> In k (map fst l).
Proof.
  induction l as [|[k' w] l IH]; simpl; auto.
  destruct (Nat.eqb s k'); simpl; tauto.
Qed.

Lemma NoDup_remove {A} s (l : list (sid * A)) : NoDup (map fst l) -> NoDup (map fst (remove s l)).
Proof.
  induction l as [|[k w] l IH]; simpl; auto.
  intros H. inversion H; subst. destruct (Nat.eqb s k); simpl; auto.
  constructor; auto. intros F. apply map_fst_remove_incl in F. auto.
Qed.

(* ---- projections distribute over append ---- *)
Lemma msgs_q_app s a b : msgs_q s (a ++ b) = msgs_q s a ++ msgs_q s b.
Proof. apply flat_map_app. Qed.
Lemma msgs_c2s_app s a b : msgs_c2s s (a ++ b) = msgs_c2s s a ++ msgs_c2s s b.
Proof. apply flat_map_app. Qed.
Lemma msgs_s2c_app s a b : msgs_s2c s (a ++ b) = msgs_s2c s a ++ msgs_s2c s b.
Proof. apply flat_map_app. Qed.
Lemma gots_app a b : gots (a ++ b) = gots a ++ gots b.
Proof. apply flat_map_app. Qed.
Lemma gots_repeat_shutdown n : gots (repeat Shutdown n) = [].
Proof. induction n; simpl; auto. Qed.

(* ---- counting frames ---- *)
Fixpoint cnt {A} (p : A -> bool) (l : list A) : nat :=
  match l with [] => 0 | a :: r => (if p a then 1 else 0) + cnt p r end.
Lemma cnt_app {A} (p : A -> bool) a b : cnt p (a ++ b) = cnt p a + cnt p b.
Proof. induction a; simpl; auto. rewrite IHa. lia. Qed.

Definition is_qopen (s : sid) (f : c2s_frame) : bool := match f with QOpen s' => Nat.eqb s' s | _ => false end.
Definition is_qclose (s : sid) (f : c2s_frame) : bool := match f with QClose s' => Nat.eqb s' s | _ => false end.
Definition is_pack (s : sid) (f : s2c_frame) : bool := match f with PAck s' => Nat.eqb s' s | _ => false end.

(* no pushed message of stream s precedes the first acknowledgement of s *)
Fixpoint ack_first (s : sid) (l : list s2c_frame) : Prop :=
  match l with
  | [] => True
  | PAck s' :: r => if Nat.eqb s' s then True else ack_first s r
  | PMsg s' _ :: r => if Nat.eqb s' s then False else ack_first s r
  | _ :: r => ack_first s r
  end.

Lemma ack_first_prefix s a b : ack_first s (a ++ b) -> ack_first s a.
Proof.
  induction a as [|f a IH]; simpl; auto.
  destruct f; auto; destruct (Nat.eqb st s); auto.
Qed.

Lemma ack_first_snoc_other s l f : ack_first s l -> (forall m, f <> PMsg s m) -> ack_first s (l ++ [f]).
Proof.
  intros H N. induction l as [|g l IH]; simpl in *.
  - destruct f; auto; destruct (Nat.eqb st s) eqn:E; auto.
    apply Nat.eqb_eq in E. subst. eapply N; eauto.
  - destruct g; auto; destruct (Nat.eqb st s); auto.
Qed.

Lemma ack_first_snoc_acked s l f : ack_first s l -> cnt (is_pack s) l > 0 -> ack_first s (l ++ [f]).
Proof.
  induction l as [|g l IH]; simpl.
  - lia.
  - destruct g; simpl; auto; destruct (Nat.eqb st s); simpl; auto; tauto.
Qed.

Lemma ack_first_nomsg s l : msgs_s2c s l = [] -> ack_first s l.
Proof.
  induction l as [|g l IH]; simpl; auto.
  destruct g; simpl; auto; destruct (Nat.eqb st s); simpl; auto; discriminate.
Qed.
