(* Stream/Inv.v — invariants of the stream model and the lemmas the property
   files cite (Props/C09.v, C10.v). *)
From Coq Require Import List Arith Bool Lia.
From RPC.Stream Require Import Model Util Basic SInv LStepA LStepB AStep Reach.
Import ListNotations.
Open Scope nat_scope.

Definition reachable (v : variant) (x : st) : Prop := exists tr, run v tr init = Some x.

Definition open_phase (p : phase) : Prop := p = Opening \/ p = Streaming.

(* what the server end of stream s has received or has in its event queue *)
Definition s_side (s : sid) (x : st) : list nat :=
  match lookup s (sstreams x) with Some ss => gots (s_read ss) ++ s_events ss | None => [] end.
Definition s_sent (s : sid) (x : st) : list nat :=
  match lookup s (sstreams x) with Some ss => s_written ss | None => [] end.

(* ---- C09 ---- *)
(* client -> server: at every instant, what the handler has read, what waits in its event queue and what
   is in flight (stream queue, decode queue, wire), in this order, is exactly what the client wrote:
   no loss, duplication, reordering, and nothing from another stream *)
Theorem c2s_conservation x s c : reachable current x -> lost x = false ->
  lookup s (cstreams x) = Some c -> open_phase (c_phase c) ->
  s_side s x ++ msgs_q s (sstrq x) ++ msgs_c2s s (sdecq x) ++ msgs_c2s s (w_c2s x) = c_written c.
Proof.
  intros [tr R] Hl E O. destruct (Inv_reach _ _ R) as [A L].
  pose proof (lv_c2s _ _ _ (l_live _ (L Hl) _ _ E) O) as K.
  unfold c2s_eq, c2s in K. rewrite msgs_c2s_app in K. exact K.
Qed.

(* server -> client, including messages the handler writes before the client has processed the acknowledgement *)
Theorem s2c_conservation x s c : reachable current x -> lost x = false ->
  lookup s (cstreams x) = Some c -> open_phase (c_phase c) -> c_closed c = false ->
  gots (c_read c) ++ c_events c ++ msgs_q s (cstrq x) ++ msgs_s2c s (cdecq x) ++ msgs_s2c s (w_s2c x) = s_sent s x
  /\ c_lost c = [].
Proof.
  intros [tr R] Hl E O Cl. destruct (Inv_reach _ _ R) as [A L]. split.
  - pose proof (lv_s2c _ _ _ (l_live _ (L Hl) _ _ E) O Cl) as K.
    unfold s2c_eq, s2c in K. rewrite msgs_s2c_app in K. exact K.
  - exact (a_lost _ A _ _ E).
Qed.

(* no pushed message is ever taken for an acknowledgement *)
Theorem nothing_lost x s c : reachable current x -> lookup s (cstreams x) = Some c -> c_lost c = [].
Proof. intros [tr R] E. destruct (Inv_reach _ _ R) as [A _]. exact (a_lost _ A _ _ E). Qed.

(* a stream's traffic never completes a unary call, and unary responses never reach a stream:
   stream steps leave the list of completed unary calls alone *)
(* STATEMENT CHANGED: the second conjunct read
     forall r, (forall id, cdecq x <> PUnary id :: r) -> unary_done x' = unary_done x
   where r is quantified outside the hypothesis: for a decode queue [PUnary 5; PUnary 6] and r := [] the hypothesis
   holds (the queue is not a one-element list) although the head is a unary response and the step completes call 5.
   The counterexample is checked below (stream_frames_original_false); the hypothesis now quantifies over the tail
   too: the head of the decode queue is not a unary response. *)
Theorem stream_frames_do_not_complete_calls x x' : reachable current x -> step current x CDecode = Some x' ->
  (forall id r, cdecq x = PUnary id :: r -> unary_done x' = unary_done x ++ [id]) /\
  ((forall id r, cdecq x <> PUnary id :: r) -> unary_done x' = unary_done x).
Proof.
  intros _ H. simpl in H. split.
  - intros id r E. rewrite E in H. inversion H; subst. reflexivity.
  - intros N. destruct (cdecq x) as [|f q] eqn:E; try discriminate.
    destruct f.
    + destruct (lookup st (cstreams x)) as [c|]; [destruct (c_phase c); try destruct (c_unrouted c)|];
        inversion H; subst; reflexivity.
    + destruct (lookup st (cstreams x)) as [c|]; [destruct (c_phase c); try destruct (c_unrouted c)|];
        inversion H; subst; reflexivity.
    + destruct (lookup st (cstreams x)) as [c|]; inversion H; subst; reflexivity.
    + exfalso. eapply N; reflexivity.
    + destruct (lookup st (cstreams x)) as [c|]; [destruct (c_phase c); try destruct (c_unrouted c)|];
        inversion H; subst; reflexivity.
Qed.

(* the counterexample to the original wording: a reachable state, a step, and a tail r for which the original
   hypothesis holds and the original conclusion fails *)
Example stream_frames_original_false :
  exists x x', reachable current x /\ step current x CDecode = Some x' /\
    exists r, (forall id, cdecq x <> PUnary id :: r) /\ unary_done x' <> unary_done x.
Proof.
  eexists; eexists. split;
    [exists [CUnary 5; CUnary 6; NetC2S; NetC2S; SDecode; SDecode; NetS2C; NetS2C]; vm_compute; reflexivity|].
  split; [vm_compute; reflexivity|].
  exists []. split; [intros id; vm_compute; discriminate|vm_compute; discriminate].
Qed.

(* the pinned tree (handler started before the acknowledgement is written) loses the first pushed message
   and later delivers the acknowledgement as an empty message *)
Example legacy_loses_first_message :
  exists x c, run legacy [COpen 1; NetC2S; SDecode; SStart 1; SWrite 1 7; SAck 1; NetS2C; NetS2C; CDecode; CDecode; CDeliver; CRead 1] init = Some x
    /\ lookup 1 (cstreams x) = Some c /\ c_lost c = [7] /\ c_read c = [Got 0].
Proof. eexists; eexists; split; [vm_compute; reflexivity|repeat split]. Qed.
Example current_delivers_first_message :
  exists x c, run current [COpen 1; NetC2S; SDecode; SWrite 1 7; NetS2C; NetS2C; CDecode; CDecode; CDeliver; CRead 1] init = Some x
    /\ lookup 1 (cstreams x) = Some c /\ c_lost c = [] /\ c_read c = [Got 7].
Proof. eexists; eexists; split; [vm_compute; reflexivity|repeat split]. Qed.

(* a reader blocked in ReadMessage while a message sits in the stream's queue would be a lost wake-up: it cannot
   happen (several readers per stream included).  Every variant; on both sides; an end removed from the server's
   table has been stopped, so nobody is blocked on it at all *)
Theorem no_reader_waits_while_queued v x : reachable v x ->
  (forall s c, lookup s (cstreams x) = Some c -> c_blocked c > 0 -> c_events c = []) /\
  (forall s c, lookup s (sstreams x) = Some c -> s_blocked c > 0 -> s_events c = []) /\
  (forall s c, In (s, c) (sgone x) -> s_blocked c > 0 -> s_events c = []).
Proof.
  intros [tr R]. pose proof (QInv_reach _ _ _ R) as Q. pose proof (BInv_reach _ _ _ R) as B.
  split; [exact (q_c _ Q)|split; [exact (q_s _ Q)|]].
  intros s c I K. destruct (b_gone _ B _ _ I) as [_ Z]. lia.
Qed.

(* one step: a message arriving at an end with a blocked reader (whose queue is then empty) goes straight to
   one reader; the queue stays empty and the other readers stay blocked *)
Theorem trigger_wakes_a_reader c m : c_blocked c > 0 -> c_events c = [] ->
  c_blocked (c_trigger m c) = c_blocked c - 1 /\ c_read (c_trigger m c) = c_read c ++ [Got m] /\ c_events (c_trigger m c) = [].
Proof.
  intros B E. unfold c_trigger. rewrite E. destruct (c_blocked c); [lia|]. simpl. repeat split. lia.
Qed.
Theorem s_trigger_wakes_a_reader c m : s_blocked c > 0 -> s_events c = [] ->
  s_blocked (s_trigger m c) = s_blocked c - 1 /\ s_read (s_trigger m c) = s_read c ++ [Got m] /\ s_events (s_trigger m c) = [].
Proof.
  intros B E. unfold s_trigger. rewrite E. destruct (s_blocked c); [lia|]. simpl. repeat split. lia.
Qed.
Print Assumptions no_reader_waits_while_queued.
Print Assumptions trigger_wakes_a_reader.
Print Assumptions s_trigger_wakes_a_reader.

(* ---- C10 ---- *)
(* no reader stays blocked on a closed stream end, on either side *)
Theorem closed_unblocks x : reachable current x ->
  (forall s c, lookup s (cstreams x) = Some c -> c_closed c = true -> c_blocked c = 0) /\
  (forall s c, lookup s (sstreams x) = Some c -> s_closed c = true -> s_blocked c = 0) /\
  (forall s c, In (s, c) (sgone x) -> s_closed c = true /\ s_blocked c = 0).
Proof.
  intros [tr R]. destruct (BInv_reach _ _ _ R) as [ND CL SL GN LS]. auto.
Qed.

(* when the connection ends every client stream end is closed and nobody is blocked on one.
   STATEMENT CHANGED (authorised, model change): ConnLoss no longer stops the server ends; the server half moved to
   teardown_closes_all. *)
Theorem connloss_closes_all x x' : reachable current x -> step current x ConnLoss = Some x' ->
  (forall s c, lookup s (cstreams x') = Some c -> c_closed c = true /\ c_blocked c = 0).
Proof.
  intros _ H. simpl in H. destruct (lost x); try discriminate. inversion H; subst; clear H. simpl.
  intros s c; rewrite lookup_map; destruct (lookup s _); simpl; try discriminate;
    intros E; inversion E; subst; auto.
Qed.

(* the server connection's tail: once the decode queue has drained, every stream in the table is closed *)
Theorem teardown_closes_all x x' : reachable current x -> step current x STeardown = Some x' ->
  (forall s c, lookup s (sstreams x') = Some c -> s_closed c = true /\ s_blocked c = 0) /\ sdecq x' = [] /\ torn x' = true.
Proof.
  intros _ H. simpl in H. destruct (lost x); try discriminate. destruct (sdecq x); try discriminate.
  destruct (torn x); try discriminate. inversion H; subst; clear H. simpl. split; [|split; reflexivity].
  intros s c. rewrite lookup_map. destruct (lookup s (sstreams x)); simpl; try discriminate.
  intros E; inversion E; subst; auto.
Qed.

(* after the loss the server side can always make progress until the teardown has run *)
Theorem teardown_enabled x : lost x = true -> sdecq x = [] -> torn x = false -> step current x STeardown <> None.
Proof. intros L D T. simpl. rewrite L, D, T. discriminate. Qed.
Theorem drain_enabled x : sdecq x <> [] -> step current x SDecode <> None.
Proof.
  intros D. simpl. destruct (sdecq x) as [|f r]; [congruence|].
  destruct f; try destruct (lookup st (sstreams x)); simpl; discriminate.
Qed.

(* ... and stays so: the connection never comes back.
   STATEMENT CHANGED (authorised, model change): the server half is stated from the teardown on: after it NO server
   end, including the ones registered from open requests that were queued when the connection ended, is open or
   blocked, forever. *)
Theorem lost_stays_closed x : reachable current x ->
  (lost x = true -> forall s c, lookup s (cstreams x) = Some c -> c_closed c = true /\ c_blocked c = 0) /\
  (torn x = true -> forall s c, lookup s (sstreams x) = Some c -> s_closed c = true /\ s_blocked c = 0).
Proof.
  intros [tr R]. pose proof (BInv_reach _ _ _ R) as B. split.
  - intros Hl s c E. pose proof (b_lost _ B Hl _ _ E) as K. split; auto. exact (b_cl _ B _ _ E K).
  - intros T s c E. pose proof (b_torn_cl _ B T _ _ E) as K. split; auto. exact (b_sl _ B _ _ E K).
Qed.

(* the teardown runs after the loss and after the drain, and the decode queue stays empty *)
Theorem torn_lost_drained x : reachable current x -> torn x = true -> lost x = true /\ sdecq x = [].
Proof. intros [tr R]. exact (b_torn _ (BInv_reach _ _ _ R)). Qed.

(* an open request queued at the server when the connection ends is still served (the handler starts and blocks
   in ReadMessage); the teardown then closes its stream and the handler returns *)
Example queued_open_closed_by_teardown :
  exists x x' c c', run current [COpen 1; NetC2S; ConnLoss; SDecode; SRead 1] init = Some x /\
    lookup 1 (sstreams x) = Some c /\ s_closed c = false /\ s_blocked c = 1 /\
    step current x STeardown = Some x' /\
    lookup 1 (sstreams x') = Some c' /\ s_closed c' = true /\ s_blocked c' = 0 /\ s_read c' = [Shutdown].
Proof.
  eexists; eexists; eexists; eexists. split; [vm_compute; reflexivity|]. split; [reflexivity|].
  split; [reflexivity|]. split; [reflexivity|]. split; [vm_compute; reflexivity|]. repeat split.
Qed.

(* every later ReadMessage / WriteMessage on a closed end returns ErrStreamShutdown at once *)
Theorem closed_read_shutdown x x' s c : lookup s (cstreams x) = Some c -> c_closed c = true -> c_phase c <> Opening ->
  step current x (CRead s) = Some x' ->
  exists c', lookup s (cstreams x') = Some c' /\ c_read c' = c_read c ++ [Shutdown] /\ c_blocked c' = c_blocked c.
Proof.
  intros L C P H. simpl in H. rewrite L in H.
  destruct (c_phase c) eqn:E; try congruence; inversion H; subst; clear H;
    (exists (c_do_read c); simpl; rewrite lookup_update_eq; unfold c_do_read; rewrite C; simpl; auto).
Qed.
Theorem closed_write_shutdown x x' s c m : lookup s (cstreams x) = Some c -> c_closed c = true -> c_phase c <> Opening ->
  step current x (CWrite s m) = Some x' ->
  exists c', lookup s (cstreams x') = Some c' /\ c_wres c' = c_wres c ++ [false] /\ c_written c' = c_written c /\
             w_c2s x' = w_c2s x.
Proof.
  intros L C P H. simpl in H. rewrite L, C in H.
  destruct (c_phase c) eqn:E; try congruence; inversion H; subst; clear H;
    (eexists; simpl; rewrite lookup_update_eq; split; [reflexivity|simpl; auto]).
Qed.
Theorem server_closed_read_shutdown x x' s c : lookup s (sstreams x) = Some c -> s_closed c = true -> s_started c = true ->
  step current x (SRead s) = Some x' ->
  exists c', lookup s (sstreams x') = Some c' /\ s_read c' = s_read c ++ [Shutdown] /\ s_blocked c' = s_blocked c.
Proof.
  intros L C P H. simpl in H. rewrite L, P in H. simpl in H. inversion H; subst; clear H.
  exists (s_do_read c). simpl. rewrite lookup_update_eq. unfold s_do_read. rewrite C. simpl. auto.
Qed.

(* the client's Close stops its own end at once and, once the close request is decoded, the server's end:
   the handler blocked in ReadMessage returns and can end *)
Theorem client_close_stops_client x x' s c : lookup s (cstreams x) = Some c -> c_phase c = Streaming ->
  step current x (CClose s) = Some x' ->
  exists c', lookup s (cstreams x') = Some c' /\ c_closed c' = true /\ c_blocked c' = 0 /\
             (lost x = false -> w_c2s x' = w_c2s x ++ [QClose s]).
Proof.
  intros L P H. simpl in H. rewrite L, P in H. inversion H; subst; clear H.
  eexists. simpl. rewrite lookup_update_eq. split; [reflexivity|]. simpl. repeat split; auto.
  intros ->. reflexivity.
Qed.
(* STATEMENT CHANGED: hypothesis [reachable current x] added.  [remove] deletes the first entry of the key only,
   so for an arbitrary state whose server table holds the key twice the end is still registered after the step
   (close_request_original_false below).  Reachable states never hold a key twice. *)
Theorem close_request_stops_server x x' s c r : reachable current x ->
  sdecq x = QClose s :: r -> lookup s (sstreams x) = Some c ->
  step current x SDecode = Some x' ->
  lookup s (sstreams x') = None /\ In (s, s_stop c) (sgone x') /\
  (lost x = false -> w_s2c x' = w_s2c x ++ [PCloseAck s]).
Proof.
  intros [tr R] D L H. pose proof (b_nodup _ (BInv_reach _ _ _ R)) as ND.
  simpl in H. rewrite D, L in H. inversion H; subst; clear H. simpl. repeat split.
  - apply NoDup_remove_lookup; auto.
  - rewrite in_app_iff. simpl. auto.
  - intros ->. reflexivity.
Qed.

Example close_request_original_false :
  exists x x' s c r, sdecq x = QClose s :: r /\ lookup s (sstreams x) = Some c /\
    step current x SDecode = Some x' /\ lookup s (sstreams x') <> None.
Proof.
  exists {| cstreams := []; sstreams := [(1, sstream0); (1, sstream0)]; sgone := []; w_c2s := []; w_s2c := [];
            sdecq := [QClose 1]; sstrq := []; cdecq := []; cstrq := []; unary_done := []; lost := false; torn := false |}.
  eexists; exists 1; eexists; eexists. split; [reflexivity|]. split; [reflexivity|]. split; [reflexivity|].
  simpl. discriminate.
Qed.

(* closing one stream disturbs no other stream and no call *)
Theorem close_leaves_siblings x x' s s' : s' <> s -> step current x (CClose s) = Some x' ->
  lookup s' (cstreams x') = lookup s' (cstreams x) /\ sstreams x' = sstreams x /\ unary_done x' = unary_done x.
Proof.
  intros N H. simpl in H. destruct (lookup s (cstreams x)) as [c|]; try discriminate.
  destruct (c_phase c); try discriminate. inversion H; subst; clear H. simpl.
  rewrite lookup_update_ne; auto.
Qed.
Theorem close_request_leaves_siblings x x' s s' r : s' <> s -> sdecq x = QClose s :: r ->
  step current x SDecode = Some x' ->
  lookup s' (sstreams x') = lookup s' (sstreams x) /\ cstreams x' = cstreams x.
Proof.
  intros N D H. simpl in H. rewrite D in H. inversion H; subst; clear H.
  destruct (lookup s (sstreams x)); simpl; auto. rewrite lookup_remove_ne; auto.
Qed.

(* ---- writes that fail to encode, and the error frame ---- *)
(* a failed write never deletes the routing entry of a stream (the pinned tree's Conn.send did) *)
Theorem never_unrouted x s c : reachable current x -> lookup s (cstreams x) = Some c -> c_unrouted c = false.
Proof. intros [tr R] E. destruct (Inv_reach _ _ R) as [A _]. exact (a_routed _ A _ _ E). Qed.

(* the client's WriteMessage of a value the codec cannot encode sends nothing and leaves the stream as it was:
   its phase, its queue, what was read and written, its routing; every other stream, the server and the
   reader's queues are untouched *)
Theorem bad_client_write_keeps_stream x x' s : step current x (CWriteBad s) = Some x' ->
  w_c2s x' = w_c2s x /\ sstreams x' = sstreams x /\ cdecq x' = cdecq x /\ cstrq x' = cstrq x /\
  (forall s', s' <> s -> lookup s' (cstreams x') = lookup s' (cstreams x)) /\
  (forall c, lookup s (cstreams x) = Some c ->
     exists c', lookup s (cstreams x') = Some c' /\ c_phase c' = c_phase c /\ c_events c' = c_events c /\
       c_read c' = c_read c /\ c_written c' = c_written c /\ c_unrouted c' = c_unrouted c /\ c_lost c' = c_lost c).
Proof.
  intros H. simpl in H. destruct (lookup s (cstreams x)) as [c|] eqn:L; try discriminate.
  destruct (c_phase c) eqn:P; try discriminate; destruct (c_closed c) eqn:K; inversion H; subst; clear H; simpl;
    (repeat split; auto; [intros s' N; apply lookup_update_ne; auto|];
     intros c0 E; inversion E; subst c0; eexists; rewrite lookup_update_eq; split; [reflexivity|]; simpl; auto 10).
Qed.

(* the handler's WriteMessage of a value the codec cannot encode returns nil, is not recorded as a written message,
   and puts no message of any stream on the wire *)
Theorem bad_server_write_sends_no_message x x' s c : lookup s (sstreams x) = Some c -> s_closed c = false ->
  step current x (SWriteBad s) = Some x' ->
  (forall s', msgs_s2c s' (w_s2c x') = msgs_s2c s' (w_s2c x)) /\
  exists c', lookup s (sstreams x') = Some c' /\ s_written c' = s_written c /\ s_wres c' = s_wres c ++ [true].
Proof.
  intros L K H. simpl in H. rewrite L, K in H. destruct (negb (s_started c)); try discriminate.
  inversion H; subst; clear H. simpl. split.
  - intros s'. destruct (lost x); auto. rewrite msgs_s2c_app. simpl. apply app_nil_r.
  - eexists. rewrite lookup_update_eq. split; [reflexivity|]. simpl. auto.
Qed.

(* decoding an error frame delivers no message: nothing enters the stream queue, no call completes, and no
   stream's event queue, reads, losses, phase, closed flag or blocked readers change *)
Theorem error_frame_carries_no_message x x' s r : cdecq x = PErr s :: r -> step current x CDecode = Some x' ->
  cstrq x' = cstrq x /\ unary_done x' = unary_done x /\
  (forall s' c, lookup s' (cstreams x) = Some c ->
     exists c', lookup s' (cstreams x') = Some c' /\ c_events c' = c_events c /\ c_read c' = c_read c /\
       c_lost c' = c_lost c /\ c_phase c' = c_phase c /\ c_closed c' = c_closed c /\ c_blocked c' = c_blocked c).
Proof.
  intros D H. simpl in H. rewrite D in H.
  assert (K : forall s' c, lookup s' (cstreams x) = Some c -> exists c', lookup s' (cstreams x) = Some c' /\
            c_events c' = c_events c /\ c_read c' = c_read c /\ c_lost c' = c_lost c /\ c_phase c' = c_phase c /\
            c_closed c' = c_closed c /\ c_blocked c' = c_blocked c) by (intros s' c E; exists c; auto 10).
  destruct (lookup s (cstreams x)) as [c0|] eqn:L; [destruct (c_phase c0) eqn:P; try destruct (c_unrouted c0)|];
    inversion H; subst; clear H; simpl; (split; [reflexivity|split; [reflexivity|]]); auto.
  intros s' c E. rewrite lookup_update. destruct (Nat.eqb_spec s' s).
  - subst s'. assert (c = c0) by congruence. subst c0. eexists. split; [reflexivity|]. simpl. auto 10.
  - exists c. auto 10.
Qed.

(* the error is attached for good to a stream in its streaming phase *)
Theorem error_frame_sticks x x' s r c : reachable current x -> cdecq x = PErr s :: r ->
  lookup s (cstreams x) = Some c -> c_phase c = Streaming -> step current x CDecode = Some x' ->
  exists c', lookup s (cstreams x') = Some c' /\ c_err c' = true.
Proof.
  intros R D L P H. pose proof (never_unrouted _ _ _ R L) as U. simpl in H. rewrite D, L, P, U in H.
  inversion H; subst; clear H. simpl. eexists. rewrite lookup_update_eq. split; reflexivity.
Qed.

(* the pinned tree's Conn.send (routing entry deleted by the failed write): the handler's next message is dropped by
   the client's reader.  After the schedule nothing is left in flight or queued (so CDeliver is not enabled), the
   message is recorded as lost, and the reader of the stream blocks *)
Example legacy_badwrite_loses_messages :
  exists x c, run legacy_badwrite [COpen 1; NetC2S; SDecode; NetS2C; CDecode; CWriteBad 1; SWrite 1 7; NetS2C; CDecode;
                                   CRead 1] init = Some x
    /\ lookup 1 (cstreams x) = Some c /\ c_lost c = [7] /\ c_events c = [] /\ c_read c = [] /\ c_blocked c = 1
    /\ c_unrouted c = true /\ c_wres c = [true]
    /\ w_s2c x = [] /\ cdecq x = [] /\ cstrq x = [] /\ step legacy_badwrite x CDeliver = None.
Proof. eexists; eexists; split; [vm_compute; reflexivity|repeat split]. Qed.
(* the same schedule on the current tree (with the delivery step, which is now enabled) delivers it *)
Example current_badwrite_delivers :
  exists x c, run current [COpen 1; NetC2S; SDecode; NetS2C; CDecode; CWriteBad 1; SWrite 1 7; NetS2C; CDecode;
                           CDeliver; CRead 1] init = Some x
    /\ lookup 1 (cstreams x) = Some c /\ c_lost c = [] /\ c_events c = [] /\ c_read c = [Got 7] /\ c_blocked c = 0
    /\ c_unrouted c = false /\ c_wres c = [true].
Proof. eexists; eexists; split; [vm_compute; reflexivity|repeat split]. Qed.
(* the very same schedule, in both variants, with a second stream whose message keeps the delivery step enabled:
   the pinned tree loses stream 1's message (and delivers stream 2's), the current tree delivers it *)
Definition badwrite_schedule : list action :=
  [COpen 1; COpen 2; NetC2S; NetC2S; SDecode; SDecode; NetS2C; NetS2C; CDecode; CDecode;
   CWriteBad 1; SWrite 1 7; SWrite 2 8; NetS2C; NetS2C; CDecode; CDecode; CDeliver; CRead 1].
Example badwrite_same_schedule :
  (exists x c c2, run legacy_badwrite badwrite_schedule init = Some x /\
     lookup 1 (cstreams x) = Some c /\ c_lost c = [7] /\ c_events c = [] /\ c_read c = [] /\
     lookup 2 (cstreams x) = Some c2 /\ c_lost c2 = [] /\ c_events c2 = [8]) /\
  (exists x c c2, run current badwrite_schedule init = Some x /\
     lookup 1 (cstreams x) = Some c /\ c_lost c = [] /\ c_events c = [] /\ c_read c = [Got 7] /\
     lookup 2 (cstreams x) = Some c2 /\ c_lost c2 = [] /\ c_events c2 = [] /\ cstrq x = [(2, 8)]).
Proof. split; (eexists; eexists; eexists; split; [vm_compute; reflexivity|repeat split]). Qed.

(* ---- audit ---- *)
Print Assumptions c2s_conservation.
Print Assumptions s2c_conservation.
Print Assumptions nothing_lost.
Print Assumptions stream_frames_do_not_complete_calls.
Print Assumptions stream_frames_original_false.
Print Assumptions legacy_loses_first_message.
Print Assumptions current_delivers_first_message.
Print Assumptions closed_unblocks.
Print Assumptions connloss_closes_all.
Print Assumptions lost_stays_closed.
Print Assumptions teardown_closes_all.
Print Assumptions teardown_enabled.
Print Assumptions drain_enabled.
Print Assumptions torn_lost_drained.
Print Assumptions queued_open_closed_by_teardown.
Print Assumptions closed_read_shutdown.
Print Assumptions closed_write_shutdown.
Print Assumptions server_closed_read_shutdown.
Print Assumptions client_close_stops_client.
Print Assumptions close_request_stops_server.
Print Assumptions close_request_original_false.
Print Assumptions close_leaves_siblings.
Print Assumptions close_request_leaves_siblings.
Print Assumptions never_unrouted.
Print Assumptions bad_client_write_keeps_stream.
Print Assumptions bad_server_write_sends_no_message.
Print Assumptions error_frame_carries_no_message.
Print Assumptions error_frame_sticks.
Print Assumptions legacy_badwrite_loses_messages.
Print Assumptions current_badwrite_delivers.
Print Assumptions badwrite_same_schedule.
