(* Stream/AStep.v — preservation of the loss-independent part of the invariant. *)
From Coq Require Import List Arith Bool Lia.
From RPC.Stream Require Import Model Util Basic SInv.
Import ListNotations.
Open Scope nat_scope.

Lemma has_srv_update s s0 v x : lookup s (sstreams x) <> None ->
  (if lookup s0 (update s v (sstreams x)) then true else false) = true -> has_srv s0 x = true.
Proof.
  unfold has_srv. rewrite lookup_update. destruct (Nat.eqb_spec s0 s); auto.
  subst. destruct (lookup s (sstreams x)); auto.
Qed.

Lemma lookup_remove_some {A} s s0 (l : list (sid * A)) : lookup s0 (remove s l) <> None -> lookup s0 l <> None.
Proof.
  induction l as [|[k w] l IH]; simpl; auto.
  destruct (Nat.eqb s k) eqn:E; simpl.
  - destruct (Nat.eqb s0 k); auto. discriminate.
  - destruct (Nat.eqb s0 k); auto.
Qed.

Lemma do_read_phase c : c_phase (c_do_read c) = c_phase c.
Proof. unfold c_do_read. destruct (c_closed c); [|destruct (c_events c)]; reflexivity. Qed.
Lemma do_read_lost c : c_lost (c_do_read c) = c_lost c.
Proof. unfold c_do_read. destruct (c_closed c); [|destruct (c_events c)]; reflexivity. Qed.
Lemma trigger_phase m c : c_phase (c_trigger m c) = c_phase c.
Proof. unfold c_trigger. destruct (c_blocked c); [|destruct (c_events c)]; reflexivity. Qed.
Lemma trigger_lost m c : c_lost (c_trigger m c) = c_lost c.
Proof. unfold c_trigger. destruct (c_blocked c); [|destruct (c_events c)]; reflexivity. Qed.
Lemma do_read_unrouted c : c_unrouted (c_do_read c) = c_unrouted c.
Proof. unfold c_do_read. destruct (c_closed c); [|destruct (c_events c)]; reflexivity. Qed.
Lemma trigger_unrouted m c : c_unrouted (c_trigger m c) = c_unrouted c.
Proof. unfold c_trigger. destruct (c_blocked c); [|destruct (c_events c)]; reflexivity. Qed.

(* goals about the client table after the end of s was replaced *)
Ltac cl_tac s :=
  let s0 := fresh "s0" in let c0 := fresh "c0" in let E := fresh "E" in
  intros s0 c0; rewrite lookup_update; destruct (Nat.eqb_spec s0 s);
  [ subst s0; intros E; inversion E; subst c0; clear E; simpl | intros E; eauto ].

Ltac eqb_cases := repeat match goal with
  | |- context [Nat.eqb ?a ?b] => destruct (Nat.eqb_spec a b); try subst; simpl in *
  | H : context [Nat.eqb ?a ?b] |- _ => destruct (Nat.eqb_spec a b); try subst; simpl in *
  end.

(* the head of the server-to-client pipeline is consumed *)
Ltac af_head AF s :=
  let s0 := fresh "s0" in let c0 := fresh "c0" in let E := fresh "E" in let P := fresh "P" in
  intros s0 c0 E P; specialize (AF _ _ E P); unfold s2c in *; simpl in *;
  try (destruct (Nat.eqb_spec s s0); [subst s0; try congruence | ]); try exact AF.

Ltac af_other AF := match goal with E : lookup ?s0 _ = Some ?c0 |- c_phase ?c0 = Opening -> _ =>
  let P0 := fresh in intros P0; specialize (AF _ _ E P0); unfold s2c in *; simpl in *; eqb_cases;
  try congruence; exact AF end.

Ltac qo_tac O1 O0 :=
  let s0 := fresh "s0" in
  intros s0; specialize (O1 s0); specialize (O0 s0); unfold c2s, has_srv in *; simpl in *;
  rewrite ?cnt_app in *; simpl in *; try lia; auto; try (let HS := fresh in intros HS; specialize (O0 HS); lia).

Lemma AInv_step x a x' : AInv x -> (lost x = false -> LInv x) -> step current x a = Some x' -> AInv x'.
Proof.
  intros [AF AL O1 O0 UR] L H. destruct a; simpl in H.
  - (* COpen *)
    destruct (lost x) eqn:Hl; try discriminate. destruct (lookup s (cstreams x)) eqn:CV; try discriminate.
    inversion H; subst; clear H. destruct (L eq_refl) as [LF LL]. destruct (LF _ CV) as [F1 F2 F3 F4 F5 F6 F7 F8].
    constructor; simpl.
    + cl_tac s. intros _. apply ack_first_nomsg. exact F8.
    + cl_tac s. reflexivity.
    + intros s0. specialize (O1 s0). unfold c2s in *. simpl. rewrite app_assoc, cnt_app. simpl.
      destruct (Nat.eqb_spec s s0); [subst; lia|lia].
    + intros s0 HS. specialize (O0 s0 HS). unfold c2s in *. simpl. rewrite app_assoc, cnt_app. simpl.
      destruct (Nat.eqb_spec s s0); [subst; unfold has_srv in *; simpl in *; congruence|lia].
    + cl_tac s. reflexivity.
  - (* CWrite *) destr H; constructor; simpl; try (cl_tac s; try (intros; discriminate); eauto); try qo_tac O1 O0.
  - (* CWriteBad *) destr H; constructor; simpl; try (cl_tac s; try (intros; discriminate); eauto); try qo_tac O1 O0.
  - (* CRead *) destr H; constructor; simpl; try (cl_tac s; rewrite ?do_read_phase, ?do_read_lost, ?do_read_unrouted; eauto);
      try qo_tac O1 O0.
  - (* CClose *) destr H; constructor; simpl; try (cl_tac s; try (intros; discriminate); eauto); try qo_tac O1 O0.
  - (* CUnary *) destr H; constructor; simpl; eauto; try qo_tac O1 O0.
  - (* NetC2S *) destr H; constructor; simpl; eauto.
    + intros s0; specialize (O1 s0). unfold c2s in *; simpl. rewrite Heql in O1. rewrite <- app_assoc. exact O1.
    + intros s0 HS; specialize (O0 s0 HS). unfold c2s in *; simpl. rewrite Heql in O0. rewrite <- app_assoc. exact O0.
  - (* NetS2C *) destr H; constructor; simpl; eauto.
    intros s0 c0 E P. specialize (AF _ _ E P). unfold s2c in *; simpl. rewrite Heql in AF. rewrite <- app_assoc. exact AF.
  - (* ConnLoss *) destr H; constructor; simpl.
    + intros s0 c0. rewrite lookup_map. destruct (lookup s0 (cstreams x)) eqn:E; simpl; try discriminate.
      intros E' P. inversion E'; subst. simpl in P. specialize (AF _ _ E P). unfold s2c in *. simpl.
      rewrite app_nil_r. eapply ack_first_prefix; eauto.
    + intros s0 c0. rewrite lookup_map. destruct (lookup s0 (cstreams x)) eqn:E; simpl; try discriminate.
      intros E'. inversion E'; subst. simpl. eauto.
    + intros s0. specialize (O1 s0). unfold c2s in *. simpl. rewrite cnt_app in *. simpl. lia.
    + intros s0 HS. specialize (O0 s0 HS). unfold c2s in *. simpl. rewrite cnt_app in *. simpl. lia.
    + intros s0 c0. rewrite lookup_map. destruct (lookup s0 (cstreams x)) eqn:E; simpl; try discriminate.
      intros E'. inversion E'; subst. simpl. eauto.
  - (* STeardown *)
    destruct (lost x); try discriminate. destruct (sdecq x) eqn:D; try discriminate.
    destruct (torn x); try discriminate. inversion H; subst; clear H.
    constructor; simpl; auto.
    + intros s0. specialize (O1 s0). unfold c2s in *. rewrite D in O1. exact O1.
    + intros s0. unfold has_srv. simpl. rewrite lookup_map. intros HS.
      assert (HS' : has_srv s0 x = true) by (unfold has_srv; destruct (lookup s0 (sstreams x)); auto).
      specialize (O0 s0 HS'). unfold c2s in *. rewrite D in O0. exact O0.
  - (* SDecode *)
    destruct x as [cs ss sg wc ws sd sq cd cq ud lo tn]; simpl in *.
    destruct sd as [|f r]; try discriminate. destruct f as [s|s m|s|id].
    + (* QOpen *) destruct (lookup s ss) as [sv|] eqn:SV; simpl in H; inversion H; subst; clear H.
      * constructor; simpl; eauto; qo_tac O1 O0; eqb_cases; try lia.
      * assert (AF' : forall s0 c0, lookup s0 cs = Some c0 -> c_phase c0 = Opening ->
                  ack_first s0 (cd ++ (if lo then ws else ws ++ [PAck s]))).
        { intros s0 c0 E P. specialize (AF _ _ E P). unfold s2c in AF; simpl in AF. destruct lo; auto.
          rewrite app_assoc. apply ack_first_snoc_other; auto. intros; discriminate. }
        constructor; simpl; eauto.
        -- qo_tac O1 O0; eqb_cases; lia.
        -- intros s0. unfold has_srv. simpl. rewrite lookup_update. destruct (Nat.eqb_spec s0 s).
           ++ subst. intros _. specialize (O1 s). unfold c2s in *. simpl in *. rewrite Nat.eqb_refl in O1. lia.
           ++ intros HS. specialize (O0 s0 HS). unfold c2s in *. simpl in *. eqb_cases; lia.
    + (* QMsg *) destruct (lookup s ss) as [sv|] eqn:SV; simpl in H; inversion H; subst; clear H;
        constructor; simpl; eauto; qo_tac O1 O0.
    + (* QClose *)
      assert (AF' : forall s0 c0, lookup s0 cs = Some c0 -> c_phase c0 = Opening ->
                  ack_first s0 (cd ++ (if lo then ws else ws ++ [PCloseAck s]))).
      { intros s0 c0 E P. specialize (AF _ _ E P). unfold s2c in AF; simpl in AF. destruct lo; auto.
        rewrite app_assoc. apply ack_first_snoc_other; auto. intros; discriminate. }
      destruct (lookup s ss) as [sv|] eqn:SV; simpl in H; inversion H; subst; clear H;
        constructor; simpl; eauto; try qo_tac O1 O0.
      intros HS. apply O0.
      destruct (lookup s0 ss) eqn:E; auto. exfalso. eapply (lookup_remove_some s s0 ss); eauto.
      destruct (lookup s0 (remove s ss)); congruence.
    + (* QUnary *)
      assert (AF' : forall s0 c0, lookup s0 cs = Some c0 -> c_phase c0 = Opening ->
                  ack_first s0 (cd ++ (if lo then ws else ws ++ [PUnary id]))).
      { intros s0 c0 E P. specialize (AF _ _ E P). unfold s2c in AF; simpl in AF. destruct lo; auto.
        rewrite app_assoc. apply ack_first_snoc_other; auto. intros; discriminate. }
      inversion H; subst; clear H. constructor; simpl; eauto; qo_tac O1 O0.
  - (* SAck *) discriminate.
  - (* SStart *) discriminate.
  - (* SDeliver *)
    destruct (sstrq x) as [|[s m] r] eqn:Q; try discriminate.
    destruct (lookup s (sstreams x)) as [sv|] eqn:SV; inversion H; subst; clear H;
      constructor; simpl; eauto.
    intros s0 HS. apply O0. apply (has_srv_update s s0 (s_trigger m sv)); [congruence|exact HS].
  - (* SWrite *)
    destruct (lookup s (sstreams x)) as [sv|] eqn:SV; try discriminate.
    destruct (negb (s_started sv)); try discriminate.
    assert (HU : forall s0 v, (if lookup s0 (update s v (sstreams x)) then true else false) = true ->
               cnt (is_qopen s0) (c2s x) = 0).
    { intros s0 v HS. apply O0. apply (has_srv_update s s0 v); [congruence|exact HS]. }
    destruct (s_closed sv) eqn:K; inversion H; subst; clear H; constructor; simpl; eauto;
      try (intros s0 HS; exact (HU _ _ HS)).
    intros s0 c0 E P. specialize (AF _ _ E P). unfold s2c in *. simpl. destruct (lost x) eqn:Hl; auto.
    rewrite app_assoc. destruct (Nat.eq_dec s0 s).
    + subst s0. apply ack_first_snoc_acked; auto.
      destruct (L eq_refl) as [LF LL]. pose proof (lv_op_some _ _ _ (LL _ _ E) P) as K1.
      unfold has_srv, s2c in K1. rewrite SV in K1. rewrite K1; auto.
    + apply ack_first_snoc_other; auto. intros m' F. inversion F. congruence.
  - (* SWriteBad *)
    destruct (lookup s (sstreams x)) as [sv|] eqn:SV; try discriminate.
    destruct (negb (s_started sv)); try discriminate.
    assert (HU : forall s0 v, (if lookup s0 (update s v (sstreams x)) then true else false) = true ->
               cnt (is_qopen s0) (c2s x) = 0).
    { intros s0 v HS. apply O0. apply (has_srv_update s s0 v); [congruence|exact HS]. }
    destruct (s_closed sv) eqn:K; inversion H; subst; clear H; constructor; simpl; eauto;
      try (intros s0 HS; exact (HU _ _ HS)).
    intros s0 c0 E P. specialize (AF _ _ E P). unfold s2c in *. simpl. destruct (lost x) eqn:Hl; auto.
    rewrite app_assoc. apply ack_first_snoc_other; auto. intros; discriminate.
  - (* SRead *)
    destruct (lookup s (sstreams x)) as [sv|] eqn:SV; try discriminate.
    destruct (negb (s_started sv)); try discriminate. inversion H; subst; clear H.
    constructor; simpl; eauto.
    intros s0 HS. apply O0. apply (has_srv_update s s0 (s_do_read sv)); [congruence|exact HS].
  - (* CDecode *)
    destruct x as [cs ss sg wc ws sd sq cd cq ud lo tn]; simpl in *.
    destruct cd as [|f r]; try discriminate. destruct f as [s|s m|s|id|s].
    + (* PAck *)
      destruct (lookup s cs) as [c|] eqn:CV;
        [pose proof (UR _ _ CV) as URc; destruct (c_phase c) eqn:P; rewrite ?URc in H|]; inversion H; subst; clear H;
        constructor; simpl; eauto; try (cl_tac s; try (intros; discriminate); eauto; try af_other AF); try af_head AF s.
    + (* PMsg *)
      destruct (lookup s cs) as [c|] eqn:CV;
        [pose proof (UR _ _ CV) as URc; destruct (c_phase c) eqn:P; rewrite ?URc in H|]; inversion H; subst; clear H.
      * exfalso. specialize (AF _ _ CV P). unfold s2c in AF. simpl in AF. rewrite Nat.eqb_refl in AF. exact AF.
      * constructor; simpl; eauto; af_head AF s.
      * constructor; simpl; eauto; af_head AF s.
      * constructor; simpl; eauto; af_head AF s.
      * constructor; simpl; eauto; af_head AF s.
    + (* PCloseAck *)
      destruct (lookup s cs) as [c|] eqn:CV; inversion H; subst; clear H;
        constructor; simpl; eauto; try (cl_tac s; try (intros; discriminate); eauto; try af_other AF).
    + (* PUnary *) inversion H; subst; clear H. constructor; simpl; eauto.
    + (* PErr *)
      destruct (lookup s cs) as [c|] eqn:CV;
        [pose proof (UR _ _ CV) as URc; destruct (c_phase c) eqn:P; rewrite ?URc in H|]; inversion H; subst; clear H;
        constructor; simpl; eauto; try (cl_tac s; try (intros; discriminate); eauto; try af_other AF); try af_head AF s.
  - (* CDeliver *)
    destruct (cstrq x) as [|[s m] r] eqn:Q; try discriminate.
    destruct (lookup s (cstreams x)) as [c|] eqn:CV; inversion H; subst; clear H;
      constructor; simpl; eauto.
    + cl_tac s. rewrite trigger_phase. eauto.
    + cl_tac s. rewrite trigger_lost. eauto.
    + cl_tac s. rewrite trigger_unrouted. eauto.
Qed.
