(* Bytes.v — byte strings as [list N], well-formedness, Go indexing and
   slicing with their panics, hex literals for the case files. *)
From RPC Require Export Res.
From Coq Require Import ZifyBool ZifyN ZifyNat.
Ltac Zify.zify_post_hook ::= Z.div_mod_to_equations.
Open Scope N_scope.

Definition bytes := list N.

Definition wfb (b : N) : bool := b <? 256.
Definition wfbs (l : bytes) : bool := forallb wfb l.

Lemma wfbs_Forall l : wfbs l = true <-> Forall (fun b => b < 256) l.
Proof.
  unfold wfbs. rewrite forallb_forall, Forall_forall. unfold wfb.
  split; intros H x Hx; specialize (H x Hx); lia.
Qed.

Lemma wfbs_app a b : wfbs (a ++ b) = wfbs a && wfbs b.
Proof. unfold wfbs. apply forallb_app. Qed.

Lemma wfbs_cons x l : wfbs (x :: l) = wfb x && wfbs l.
Proof. reflexivity. Qed.

Definition len (l : bytes) : N := N.of_nat (length l).

Lemma len_app a b : len (a ++ b) = len a + len b.
Proof. unfold len. rewrite app_length. lia. Qed.
Lemma len_cons x l : len (x :: l) = 1 + len l.
Proof. unfold len. simpl length. lia. Qed.
Lemma len_nil : len [] = 0.
Proof. reflexivity. Qed.

(* Go: b[i] *)
Definition idx (b : bytes) (i : nat) : res N :=
  match nth_error b i with Some x => Ok x | None => Panic end.

(* Go: b[i:]  (panics when i > len b) *)
Definition slice_from (b : bytes) (i : nat) : res bytes :=
  if Nat.leb i (length b) then Ok (skipn i b) else Panic.

(* Go: b[:n] restricted to len (the model is stricter than Go, which only
   panics beyond cap) *)
Definition take (n : N) (b : bytes) : res (bytes * bytes) :=
  if n <=? len b then Ok (firstn (N.to_nat n) b, skipn (N.to_nat n) b) else Panic.

Lemma take_app a b : take (len a) (a ++ b) = Ok (a, b).
Proof.
  unfold take. rewrite len_app.
  replace (len a <=? len a + len b) with true by lia.
  unfold len. rewrite Nat2N.id.
  rewrite firstn_app, Nat.sub_diag, firstn_all, firstn_O, app_nil_r.
  rewrite skipn_app, Nat.sub_diag, skipn_all. reflexivity.
Qed.

Lemma take_ok n b x r : take n b = Ok (x, r) -> b = x ++ r /\ len x = n.
Proof.
  unfold take. destruct (n <=? len b) eqn:E; [|discriminate].
  intros H; inversion H; subst; clear H. split.
  - symmetry. apply firstn_skipn.
  - unfold len in *. rewrite firstn_length. lia.
Qed.

Lemma take_not_panic n b : n <= len b -> take n b <> Panic.
Proof. unfold take. intros H. replace (n <=? len b) with true by lia. discriminate. Qed.

(* equality on byte strings *)
Fixpoint beqb (a b : bytes) : bool :=
  match a, b with
  | [], [] => true
  | x :: a', y :: b' => (x =? y) && beqb a' b'
  | _, _ => false
  end.

Lemma beqb_eq a b : beqb a b = true <-> a = b.
Proof.
  revert b; induction a as [|x a IH]; destruct b as [|y b]; simpl; split; intros H;
    try reflexivity; try discriminate.
  - apply andb_true_iff in H as [H1 H2]. apply N.eqb_eq in H1. apply IH in H2. congruence.
  - inversion H; subst. rewrite N.eqb_refl. simpl. apply IH. reflexivity.
Qed.

Definition rep (n : nat) (x : N) : bytes := repeat x n.

(* ---- writing into a reused buffer ----
   Go: buf[off+i] = x / copy(buf[off:], bs).  [splice] writes [bs] at [off]
   and panics when it does not fit in len buf (Go's copy would truncate
   silently; the model is stricter). *)
Definition splice (buf : bytes) (off : nat) (bs : bytes) : res bytes :=
  if Nat.leb (off + length bs) (length buf)
  then Ok (firstn off buf ++ bs ++ skipn (off + length bs) buf)
  else Panic.

Fixpoint write_all (buf : bytes) (off : nat) (cs : list bytes) : res (bytes * nat) :=
  match cs with
  | [] => Ok (buf, off)
  | c :: cs' => let* b := splice buf off c in write_all b (off + length c) cs'
  end.

Lemma splice_length buf off bs b : splice buf off bs = Ok b -> length b = length buf.
Proof.
  unfold splice. destruct (Nat.leb_spec (off + length bs) (length buf)); [|discriminate].
  intros E; inversion E; subst. rewrite !app_length, firstn_length, skipn_length. lia.
Qed.

Lemma splice_app pre old post bs :
  length old = length bs ->
  splice (pre ++ old ++ post) (length pre) bs = Ok (pre ++ bs ++ post).
Proof.
  intros H. unfold splice. rewrite !app_length.
  destruct (Nat.leb_spec (length pre + length bs) (length pre + (length old + length post))) as [L|L]; [|lia].
  f_equal. rewrite firstn_app, Nat.sub_diag, firstn_all, firstn_O, app_nil_r.
  f_equal. f_equal.
  rewrite skipn_app, skipn_all2 by lia. cbn [app].
  replace (length pre + length bs - length pre)%nat with (length old) by lia.
  rewrite skipn_app, skipn_all, Nat.sub_diag. reflexivity.
Qed.

Lemma write_all_app cs : forall pre old post,
  length old = length (concat cs) ->
  write_all (pre ++ old ++ post) (length pre) cs =
    Ok (pre ++ concat cs ++ post, (length pre + length (concat cs))%nat).
Proof.
  induction cs as [|c cs IH]; intros pre old post H; cbn [write_all concat] in *.
  - destruct old; [|discriminate]. cbn [app length]. rewrite Nat.add_0_r. reflexivity.
  - rewrite app_length in H.
    rewrite <- (firstn_skipn (length c) old), <- app_assoc.
    rewrite splice_app by (rewrite firstn_length; lia).
    cbn [bind].
    replace (length pre + length c)%nat with (length (pre ++ c)) by (rewrite app_length; reflexivity).
    rewrite (app_assoc pre c). rewrite IH by (rewrite skipn_length; lia).
    rewrite <- !app_assoc. f_equal. f_equal. rewrite !app_length. lia.
Qed.

Lemma write_all_ok cs buf :
  (length (concat cs) <= length buf)%nat ->
  write_all buf 0 cs = Ok (concat cs ++ skipn (length (concat cs)) buf, length (concat cs)).
Proof.
  intros H.
  rewrite <- (firstn_skipn (length (concat cs)) buf) at 1.
  apply (write_all_app cs [] (firstn (length (concat cs)) buf)).
  rewrite firstn_length. lia.
Qed.
