(* Hex.v — hex string literals for case files *)
From RPC Require Export Bytes.
From Coq Require Export Ascii String.
Open Scope N_scope.

(* ---- hex literals: "0a1bff" -> [10;27;255]; used only by case files ---- *)
Definition hexval (c : ascii) : N :=
  let n := N_of_ascii c in
  if (48 <=? n) && (n <=? 57) then n - 48
  else if (97 <=? n) && (n <=? 102) then n - 87
  else if (65 <=? n) && (n <=? 70) then n - 55
  else 0.

Fixpoint unhex (s : string) : bytes :=
  match s with
  | String a (String b r) => (16 * hexval a + hexval b) :: unhex r
  | _ => []
  end.


(* compact byte-string specifications for case files: hex literals, runs,
   and 7-bytes-per-word packed primitive integers (cheap to parse and type
   check; used only by the correspondence case files, never by theorems) *)
From Coq Require Export Uint63.
Definition word_bytes (w : int) : bytes :=
  let b (i : int) := Z.to_N (Uint63.to_Z (Uint63.land (Uint63.lsr w i) 255%uint63)) in
  [b 0%uint63; b 8%uint63; b 16%uint63; b 24%uint63; b 32%uint63; b 40%uint63; b 48%uint63].
Inductive seg := Hx (s : string) | Rp (n x : N) | Pk (n : N) (ws : list int).
Definition bspec := list seg.
Definition bs (l : bspec) : bytes :=
  flat_map (fun s => match s with
                     | Hx h => unhex h
                     | Rp n x => repeat x (N.to_nat n)
                     | Pk n ws => firstn (N.to_nat n) (flat_map word_bytes ws)
                     end) l.
