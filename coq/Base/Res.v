(* Res.v — result type with Go's run-time faults made explicit.
   [Panic] is returned exactly where the Go code would raise a run-time
   panic (index out of range, slice bounds, nil dereference).  "Cannot
   crash" is then a real statement ([f x <> Panic]) and not a consequence
   of Gallina's totality. *)
From Coq Require Export List NArith ZArith Bool Lia.
From Coq Require Import ZifyBool ZifyN ZifyNat.
Export ListNotations.
Ltac Zify.zify_post_hook ::= Z.div_mod_to_equations.

(* small error enumeration; texts are not compared, classes are *)
Inductive err : Type :=
| EShort        (* data is too short *)
| EWireType     (* proto: wrong wireType *)
| EBufShort     (* MarshalTo: buf is too short *)
| EFuel         (* model artefact: recursion fuel exhausted; excluded by theorems *)
| EOther.

Inductive res (A : Type) : Type :=
| Ok (a : A)
| Err (e : err)
| Panic.
Arguments Ok {A} a.
Arguments Err {A} e.
Arguments Panic {A}.

Definition bind {A B} (r : res A) (f : A -> res B) : res B :=
  match r with
  | Ok a => f a
  | Err e => Err e
  | Panic => Panic
  end.

Notation "'let*' x ':=' r 'in' k" := (bind r (fun x => k))
  (at level 200, x pattern, r at level 100, k at level 200, right associativity).

Definition is_ok {A} (r : res A) : bool :=
  match r with Ok _ => true | _ => false end.
Definition is_panic {A} (r : res A) : bool :=
  match r with Panic => true | _ => false end.

(* outcome class used by the correspondence checks *)
Inductive oclass := COk | CErr | CPanic.
Definition class_of {A} (r : res A) : oclass :=
  match r with Ok _ => COk | Err _ => CErr | Panic => CPanic end.
Definition oclass_eqb (a b : oclass) : bool :=
  match a, b with
  | COk, COk | CErr, CErr | CPanic, CPanic => true
  | _, _ => false
  end.

Lemma bind_ok_inv {A B} (r : res A) (f : A -> res B) b :
  bind r f = Ok b -> exists a, r = Ok a /\ f a = Ok b.
Proof. destruct r; simpl; intros H; try discriminate. eauto. Qed.

Lemma bind_not_panic {A B} (r : res A) (f : A -> res B) :
  r <> Panic -> (forall a, r = Ok a -> f a <> Panic) -> bind r f <> Panic.
Proof. destruct r; simpl; intros H1 H2; try congruence. apply H2; reflexivity. Qed.
