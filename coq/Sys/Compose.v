(* Sys/Compose.v — C01 over the composed system: the client connection
   machine (Conn/Model.v), the server connection machine (Server/Model.v) and
   the two directions of the wire between them, as ONE transition system.

   Conn/Compose.v proves own-reply for the client machine talking to a peer
   that follows a rule ([peer_may_send]).  Here the peer is no longer a rule:
   it is the server machine itself, fed by the request frames the client
   machine emits and answering through its own log of written responses.
   The theorem [system_own_reply] has no hypothesis about the peer at all.

   The wire is modelled permissively (which makes the theorem stronger):
   a request frame is in flight from the moment its number is assigned (the
   first critical section of conn.send) and may be delivered to the server at
   any later time, in any order relative to other frames, or never; a response
   the server has written may be delivered to the client at any later time, in
   any order, never, or several times.  (That the real wire delivers each
   message exactly once, in order and unaltered is Wire/EndToEnd.v.)

   What the server machine does not carry is payload bytes.  The composition
   therefore keeps a ghost table [y_owner]: request number -> the client call
   whose request arrived under that number; the reply body of the response
   the server writes under a number is [expected] of the owner of that number
   — "the handler's output on the arguments that arrived with the request";
   Server/Match.v ([queued_arrived], [response_matches_request]) is what
   justifies reading the server model that way: the request record moves
   through the server whole, and each response is the one its own request
   dictates.  An error response carries an arbitrary body and a NON-EMPTY
   error text (an empty text is indistinguishable from success on the wire:
   that is the protocol, see DESIGN.md). *)
From stdpp Require Import gmap.
From RPC Require Import Res.
From RPC.Conn Require Model InvLemmas Inv Own Compose.
From RPC.Server Require Model InvLemmas Inv Match.

Module C := RPC.Conn.Model.
Module CI := RPC.Conn.Inv.
Module CC := RPC.Conn.Compose.
Module S := RPC.Server.Model.
Module SI := RPC.Server.Inv.
Open Scope N_scope.

Section Sys.
  (* the reply the handler computes from the arguments of call c *)
  Variable expected : nat -> C.bytes.
  (* how the server classifies the request of call c (ping, unknown method, undecodable
     arguments, a handler that fails or not, or a header it cannot decode): anything *)
  Variable kind_of : nat -> S.rkind.
  (* the text and body of an error response to call c, and whether the client can decode the body *)
  Variable err_text : nat -> C.bytes.
  Variable err_body : nat -> C.bytes.
  Variable body_ok : nat -> bool.
  Hypothesis err_text_nonempty : forall c, err_text c <> [].
  (* the modes of both ends and the server's teardown order: anything *)
  Variable ccf : C.cfg.
  Variable scf : S.cfg.
  Variable tail0 : list S.tstep.

  Record sys := {
    y_cl : C.st;                 (* the client connection *)
    y_up : list (N * nat);       (* request frames in flight: (number, call) *)
    y_sv : S.sst;                (* the server connection *)
    y_owner : gmap nat nat       (* ghost: number -> the call whose request arrived under it *)
  }.
  Definition sys_init : sys := {| y_cl := C.init; y_up := []; y_sv := S.init; y_owner := ∅ |}.

  Inductive sact :=
  | YClient (a : C.action)       (* a step of the client machine other than a frame arriving *)
  | YUp (i : nat)                (* the i-th request frame in flight reaches the server *)
  | YServer (a : S.action)       (* a step of the server machine other than a frame arriving *)
  | YDown (j : nat).             (* the response logged at position j of the server's log reaches the client *)

  Definition is_arrive (a : C.action) : bool := match a with C.AArrive _ => true | _ => false end.
  Definition is_sarrive (a : S.action) : bool := match a with S.SArrive _ => true | _ => false end.

  (* the request frame a client step puts in flight: conn.send registering call c under number q *)
  Definition emitted (a : C.action) (cl' : C.st) : list (N * nat) :=
    match a with
    | C.ASend c =>
        match C.s_calls cl' !! c with
        | Some k => match C.k_wpc k with C.WWriting q => [(q, c)] | _ => [] end
        | None => []
        end
    | _ => []
    end.

  (* the response frame behind an entry of the server's log *)
  Definition frame_of (owner : gmap nat nat) (e : S.ev) : option C.frame :=
    match e with
    | S.EResp id k =>
        match owner !! id with
        | Some c =>
            Some (match k with
                  | S.RError => C.FResp (N.of_nat id) (err_text c) (err_body c) (body_ok c)
                  | _ => C.FResp (N.of_nat id) [] (expected c) (body_ok c)
                  end)
        | None => None
        end
    | _ => None
    end.

  Definition ystep (y : sys) (a : sact) : option sys :=
    match a with
    | YClient ca =>
        if is_arrive ca then None else
        match C.step C.current ccf (y_cl y) ca with
        | Some cl' => Some {| y_cl := cl'; y_up := y_up y ++ emitted ca cl'; y_sv := y_sv y; y_owner := y_owner y |}
        | None => None
        end
    | YUp i =>
        match y_up y !! i with
        | Some (q, c) =>
            match S.step tail0 scf (y_sv y) (S.SArrive {| S.r_id := N.to_nat q; S.r_kind := kind_of c |}) with
            | Some sv' => Some {| y_cl := y_cl y; y_up := C.remove_nth i (y_up y); y_sv := sv';
                                  y_owner := <[N.to_nat q := c]> (y_owner y) |}
            | None => None
            end
        | None => None
        end
    | YServer sa =>
        if is_sarrive sa then None else
        match S.step tail0 scf (y_sv y) sa with
        | Some sv' => Some {| y_cl := y_cl y; y_up := y_up y; y_sv := sv'; y_owner := y_owner y |}
        | None => None
        end
    | YDown j =>
        match S.s_log (y_sv y) !! j with
        | Some e =>
            match frame_of (y_owner y) e with
            | Some f =>
                match C.step C.current ccf (y_cl y) (C.AArrive f) with
                | Some cl' => Some {| y_cl := cl'; y_up := y_up y; y_sv := y_sv y; y_owner := y_owner y |}
                | None => None
                end
            | None => None
            end
        | None => None
        end
    end.

  Fixpoint yrun (tr : list sact) (y : sys) : option sys :=
    match tr with
    | [] => Some y
    | a :: tr' => match ystep y a with Some y' => yrun tr' y' | None => None end
    end.

  (* what the client machine did during a run of the system *)
  Definition client_action (y : sys) (a : sact) : list C.action :=
    match a with
    | YClient ca => [ca]
    | YDown j =>
        match S.s_log (y_sv y) !! j with
        | Some e => match frame_of (y_owner y) e with Some f => [C.AArrive f] | None => [] end
        | None => []
        end
    | _ => []
    end.
  Fixpoint client_trace (tr : list sact) (y : sys) : list C.action :=
    match tr with
    | [] => []
    | a :: tr' =>
        match ystep y a with
        | Some y' => client_action y a ++ client_trace tr' y'
        | None => []
        end
    end.


  (* ==================================================================== *)
  (* auxiliary material for the proofs below                              *)
  (* ==================================================================== *)

  (* ---- runs over ++ ---- *)
  Lemma crun_app tr1 tr2 s :
    C.run C.current ccf (tr1 ++ tr2) s =
    match C.run C.current ccf tr1 s with Some s' => C.run C.current ccf tr2 s' | None => None end.
  Proof.
    revert s. induction tr1 as [|a tr1 IH]; intros s; [reflexivity|].
    change ((a :: tr1) ++ tr2) with (a :: (tr1 ++ tr2)). cbn [C.run].
    destruct (C.step C.current ccf s a) as [s1|]; [apply IH|reflexivity].
  Qed.

  Lemma srun_app tr1 tr2 s :
    S.run tail0 scf (tr1 ++ tr2) s =
    match S.run tail0 scf tr1 s with Some s' => S.run tail0 scf tr2 s' | None => None end.
  Proof.
    revert s. induction tr1 as [|a tr1 IH]; intros s; [reflexivity|].
    change ((a :: tr1) ++ tr2) with (a :: (tr1 ++ tr2)). cbn [S.run].
    destruct (S.step tail0 scf s a) as [s1|]; [apply IH|reflexivity].
  Qed.

  Lemma sreach_step s a s' :
    SI.reachable tail0 scf s -> S.step tail0 scf s a = Some s' -> SI.reachable tail0 scf s'.
  Proof.
    intros [tr H] E. exists (tr ++ [a]). rewrite srun_app, H. cbn [S.run]. rewrite E. reflexivity.
  Qed.

  (* ---- one system step, seen from each machine ---- *)
  Lemma ystep_client y a y' : ystep y a = Some y' ->
    C.run C.current ccf (client_action y a) (y_cl y) = Some (y_cl y').
  Proof.
    intros E. destruct a as [ca|i|sa|j]; unfold ystep in E; cbn [client_action].
    - destruct (is_arrive ca); [discriminate|].
      destruct (C.step C.current ccf (y_cl y) ca) as [cl'|] eqn:Es; [|discriminate].
      injection E as <-. cbn [C.run y_cl]. rewrite Es. reflexivity.
    - destruct (y_up y !! i) as [[q c]|]; [|discriminate].
      destruct (S.step _ _ _ _) as [sv'|]; [|discriminate]. injection E as <-. reflexivity.
    - destruct (is_sarrive sa); [discriminate|].
      destruct (S.step _ _ _ _) as [sv'|]; [|discriminate]. injection E as <-. reflexivity.
    - destruct (S.s_log (y_sv y) !! j) as [e|]; [|discriminate].
      destruct (frame_of (y_owner y) e) as [f|]; [|discriminate].
      destruct (C.step C.current ccf (y_cl y) (C.AArrive f)) as [cl'|] eqn:Es; [|discriminate].
      injection E as <-. cbn [C.run y_cl]. rewrite Es. reflexivity.
  Qed.

  Lemma ystep_server y a y' : ystep y a = Some y' ->
    SI.reachable tail0 scf (y_sv y) -> SI.reachable tail0 scf (y_sv y').
  Proof.
    intros E R. destruct a as [ca|i|sa|j]; unfold ystep in E.
    - destruct (is_arrive ca); [discriminate|].
      destruct (C.step C.current ccf (y_cl y) ca) as [cl'|]; [|discriminate].
      injection E as <-. exact R.
    - destruct (y_up y !! i) as [[q c]|]; [|discriminate].
      destruct (S.step _ _ _ _) as [sv'|] eqn:Es; [|discriminate]. injection E as <-.
      cbn [y_sv]. eapply sreach_step; eauto.
    - destruct (is_sarrive sa); [discriminate|].
      destruct (S.step _ _ _ _) as [sv'|] eqn:Es; [|discriminate]. injection E as <-.
      cbn [y_sv]. eapply sreach_step; eauto.
    - destruct (S.s_log (y_sv y) !! j) as [e|]; [|discriminate].
      destruct (frame_of (y_owner y) e) as [f|]; [|discriminate].
      destruct (C.step C.current ccf (y_cl y) (C.AArrive f)) as [cl'|]; [|discriminate].
      injection E as <-. exact R.
  Qed.

  Lemma client_run_gen tr : forall y0 y, yrun tr y0 = Some y ->
    C.run C.current ccf (client_trace tr y0) (y_cl y0) = Some (y_cl y).
  Proof.
    induction tr as [|a tr IH]; intros y0 y H; cbn [yrun client_trace] in *.
    - injection H as <-. reflexivity.
    - destruct (ystep y0 a) as [y1|] eqn:E; [|discriminate].
      rewrite crun_app, (ystep_client _ _ _ E). apply IH. exact H.
  Qed.

  Lemma server_reach_gen tr : forall y0 y, yrun tr y0 = Some y ->
    SI.reachable tail0 scf (y_sv y0) -> SI.reachable tail0 scf (y_sv y).
  Proof.
    induction tr as [|a tr IH]; intros y0 y H R; cbn [yrun] in H.
    - injection H as <-. exact R.
    - destruct (ystep y0 a) as [y1|] eqn:E; [|discriminate].
      eapply IH; [exact H|]. eapply ystep_server; eauto.
  Qed.

  (* ---- the client machine never takes a number away from a call ---- *)
  (* "call c holds number q" *)
  Definition holds (m : gmap nat C.call) (c : nat) (q : N) : Prop :=
    exists k, m !! c = Some k /\ C.k_q k = Some q.

  Lemma holds_alter f c' m c q :
    (forall k, C.k_q (f k) = C.k_q k) -> holds m c q -> holds (alter f c' m) c q.
  Proof.
    intros Hf (k & Hk & Hq). destruct (decide (c = c')) as [Ec|Nc].
    - subst c'. exists (f k). rewrite lookup_alter, Hk. split; [reflexivity|]. rewrite Hf. exact Hq.
    - exists k. rewrite lookup_alter_ne by congruence. split; assumption.
  Qed.
  Lemma holds_alter_ne f c' m c q : c <> c' -> holds m c q -> holds (alter f c' m) c q.
  Proof.
    intros Nc (k & Hk & Hq). exists k. rewrite lookup_alter_ne by congruence. split; assumption.
  Qed.
  Lemma holds_insert_ne k' c' m c q : c <> c' -> holds m c q -> holds (<[c' := k']> m) c q.
  Proof.
    intros Nc (k & Hk & Hq). exists k. rewrite lookup_insert_ne by congruence. split; assumption.
  Qed.
  Lemma holds_fold e (l : list (N * nat)) : forall m c q, holds m c q ->
    holds (fold_left (fun m (qc : N * nat) => alter (Conn.InvLemmas.Fsw e) qc.2 m) l m) c q.
  Proof.
    induction l as [|a l IH]; intros m c q H; cbn [fold_left]; [exact H|].
    apply IH. apply holds_alter; [intros k; reflexivity|exact H].
  Qed.

  Ltac holds_tac Hh :=
    autorewrite with calls; repeat (apply holds_alter; [intros ?; reflexivity|]); exact Hh.

  Lemma step_keeps_q s a s' c q :
    Conn.InvLemmas.WInv ccf s -> C.step C.current ccf s a = Some s' ->
    holds (C.s_calls s) c q -> holds (C.s_calls s') c q.
  Proof.
    intros W H Hh. destruct a as [c0 kd|c0|c0 r|f| | |i|e| | |c0|c0].
    - (* AStart: the new call is a new index *)
      unfold C.step in H. destruct (C.s_calls s !! c0) as [k0|] eqn:E0; [discriminate|].
      assert (Nc : c <> c0). { intros ->. destruct Hh as (k & Hk & _). congruence. }
      injection H as <-. destruct (C.pipelining ccf); autorewrite with calls;
        apply holds_insert_ne; assumption.
    - (* ASend: registers only a queued call, which holds no number *)
      unfold C.step in H. destruct (C.s_calls s !! c0) as [k0|] eqn:E0; [|discriminate].
      destruct (C.k_wpc k0) as [|q0|] eqn:Ew; try discriminate.
      match type of H with (if negb ?b then _ else _) = _ => destruct b; [|discriminate] end.
      cbn [negb] in H. cbv zeta in H.
      destruct (C.s_shutdown s || C.s_closing s).
      + injection H as <-. destruct (C.pipelining ccf); holds_tac Hh.
      + assert (Nc : c <> c0).
        { intros ->. destruct Hh as (k & Hk & Hq). rewrite E0 in Hk. injection Hk as <-.
          destruct (Conn.InvLemmas.ck_queued _ (Conn.InvLemmas.w_call _ _ W _ _ E0) Ew) as [_ Hn].
          congruence. }
        injection H as <-. destruct (C.pipelining ccf); autorewrite with calls;
          apply holds_alter_ne; assumption.
    - unfold C.step in H; repeat case_match; simplify_eq; holds_tac Hh.
    - unfold C.step in H; repeat case_match; simplify_eq; holds_tac Hh.
    - unfold C.step in H; repeat case_match; simplify_eq; holds_tac Hh.
    - unfold C.step in H; repeat case_match; simplify_eq; holds_tac Hh.
    - unfold C.step in H; repeat case_match; simplify_eq; holds_tac Hh.
    - unfold C.step in H; repeat case_match; simplify_eq; holds_tac Hh.
    - (* ASweep *)
      unfold C.step in H. destruct (C.s_rd s) as [|e|]; try discriminate.
      match type of H with (if ?b then _ else _) = _ => destruct b; [discriminate|] end.
      injection H as <-. autorewrite with calls. unfold C.sweep.
      rewrite Conn.InvLemmas.fold_calls. apply holds_fold. exact Hh.
    - unfold C.step in H; repeat case_match; simplify_eq; holds_tac Hh.
    - unfold C.step in H; repeat case_match; simplify_eq; holds_tac Hh.
    - unfold C.step in H; repeat case_match; simplify_eq; holds_tac Hh.
  Qed.

  Lemma elem_of_remove_nth {A} (x : A) i l : x ∈ C.remove_nth i l -> x ∈ l.
  Proof.
    unfold C.remove_nth. intros H. apply elem_of_app in H as [H|H].
    - apply elem_of_take in H as (n & Hn & _). eapply elem_of_list_lookup_2; eauto.
    - apply elem_of_list_lookup in H as (n & Hn). rewrite lookup_drop in Hn.
      eapply elem_of_list_lookup_2; eauto.
  Qed.

  (* ---- the invariant of the composed system ---- *)
  Record J (y : sys) : Prop := {
    (* the client machine's own (wrap-independent) invariant *)
    j_W : Conn.InvLemmas.WInv ccf (y_cl y);
    (* a request frame in flight carries the number its call holds *)
    j_up : forall q c, (q, c) ∈ y_up y -> holds (C.s_calls (y_cl y)) c q;
    (* the owner of a number that reached the server holds that number *)
    j_owner : forall id c, y_owner y !! id = Some c -> holds (C.s_calls (y_cl y)) c (N.of_nat id)
  }.

  Lemma J_init : J sys_init.
  Proof.
    constructor; cbn [sys_init y_cl y_up y_owner].
    - apply Conn.InvLemmas.init_W.
    - intros q c H. apply elem_of_nil in H. contradiction.
    - intros id c H. rewrite lookup_empty in H. discriminate.
  Qed.

  Lemma J_step y a y' : J y -> ystep y a = Some y' -> J y'.
  Proof.
    intros [W Hup Hown] E. destruct a as [ca|i|sa|j]; unfold ystep in E.
    - destruct (is_arrive ca); [discriminate|].
      destruct (C.step C.current ccf (y_cl y) ca) as [cl'|] eqn:Es; [|discriminate].
      injection E as <-. destruct (Conn.InvLemmas.step_good _ _ _ _ W Es) as (W' & _ & _).
      constructor; cbn [y_cl y_up y_owner].
      + exact W'.
      + intros q c Hin. apply elem_of_app in Hin as [Hin|Hin].
        * apply (step_keeps_q _ _ _ _ _ W Es). apply Hup. exact Hin.
        * destruct ca as [c0 kd|c0|c0 r|f| | |i0|e| | |c0|c0]; cbn [emitted] in Hin;
            try (apply elem_of_nil in Hin; contradiction).
          destruct (C.s_calls cl' !! c0) as [k|] eqn:Ek; [|apply elem_of_nil in Hin; contradiction].
          destruct (C.k_wpc k) as [|q0|] eqn:Ew; try (apply elem_of_nil in Hin; contradiction).
          apply elem_of_list_singleton in Hin. injection Hin as -> ->.
          exists k. split; [exact Ek|].
          eapply Conn.InvLemmas.ck_wr; [eapply (Conn.InvLemmas.w_call _ _ W'); eauto|exact Ew].
      + intros id c Ho. apply (step_keeps_q _ _ _ _ _ W Es). apply Hown. exact Ho.
    - destruct (y_up y !! i) as [[q0 c0]|] eqn:Ei; [|discriminate].
      destruct (S.step _ _ _ _) as [sv'|]; [|discriminate]. injection E as <-.
      constructor; cbn [y_cl y_up y_owner].
      + exact W.
      + intros q c Hin. apply Hup. eapply elem_of_remove_nth; eauto.
      + intros id c Ho. apply lookup_insert_Some in Ho as [[<- <-]|[Hne Ho]].
        * rewrite N2Nat.id. apply Hup. eapply elem_of_list_lookup_2; eauto.
        * apply Hown. exact Ho.
    - destruct (is_sarrive sa); [discriminate|].
      destruct (S.step _ _ _ _) as [sv'|]; [|discriminate]. injection E as <-.
      constructor; cbn [y_cl y_up y_owner]; assumption.
    - destruct (S.s_log (y_sv y) !! j) as [e|]; [|discriminate].
      destruct (frame_of (y_owner y) e) as [f|]; [|discriminate].
      destruct (C.step C.current ccf (y_cl y) (C.AArrive f)) as [cl'|] eqn:Es; [|discriminate].
      injection E as <-. destruct (Conn.InvLemmas.step_good _ _ _ _ W Es) as (W' & _ & _).
      constructor; cbn [y_cl y_up y_owner].
      + exact W'.
      + intros q c Hin. apply (step_keeps_q _ _ _ _ _ W Es). apply Hup. exact Hin.
      + intros id c Ho. apply (step_keeps_q _ _ _ _ _ W Es). apply Hown. exact Ho.
  Qed.

  (* ---- one system step obeys the peer rule ---- *)
  Lemma ystep_peer y a y' rest : J y -> ystep y a = Some y' ->
    CC.peer_run expected ccf rest (y_cl y') ->
    CC.peer_run expected ccf (client_action y a ++ rest) (y_cl y).
  Proof.
    intros [W Hup Hown] E HP. destruct a as [ca|i|sa|j]; unfold ystep in E; cbn [client_action].
    - destruct (is_arrive ca) eqn:Ea; [discriminate|].
      destruct (C.step C.current ccf (y_cl y) ca) as [cl'|] eqn:Es; [|discriminate].
      injection E as <-. cbn [y_cl] in HP. cbn [app CC.peer_run]. split.
      + destruct ca; try exact I. discriminate Ea.
      + rewrite Es. exact HP.
    - destruct (y_up y !! i) as [[q0 c0]|]; [|discriminate].
      destruct (S.step _ _ _ _) as [sv'|]; [|discriminate]. injection E as <-. exact HP.
    - destruct (is_sarrive sa); [discriminate|].
      destruct (S.step _ _ _ _) as [sv'|]; [|discriminate]. injection E as <-. exact HP.
    - destruct (S.s_log (y_sv y) !! j) as [e|]; [|discriminate].
      destruct (frame_of (y_owner y) e) as [f|] eqn:Ef; [|discriminate].
      destruct (C.step C.current ccf (y_cl y) (C.AArrive f)) as [cl'|] eqn:Es; [|discriminate].
      injection E as <-. cbn [y_cl] in HP. cbn [app CC.peer_run]. split; [|rewrite Es; exact HP].
      destruct e as [id|id|id rk]; cbn [frame_of] in Ef; try discriminate.
      destruct (y_owner y !! id) as [c|] eqn:Eo; [|discriminate]. injection Ef as <-.
      destruct (Hown _ _ Eo) as (kc & Hkc & Hq).
      destruct rk; cbn [CC.peer_may_send]; exists c, kc;
        (split; [exact Hkc|split; [exact Hq|]]).
      + intros _. reflexivity.
      + intros _. reflexivity.
      + intros He. destruct (err_text_nonempty c He).
  Qed.

  Lemma peer_run_gen tr : forall y0, J y0 ->
    CC.peer_run expected ccf (client_trace tr y0) (y_cl y0).
  Proof.
    induction tr as [|a tr IH]; intros y0 HJ; cbn [client_trace]; [exact I|].
    destruct (ystep y0 a) as [y1|] eqn:E; [|exact I].
    eapply ystep_peer; eauto. apply IH. eapply J_step; eauto.
  Qed.


  (* ---- projections: each component of a system run is a run of its own machine ---- *)
  Theorem system_client_run tr y : yrun tr sys_init = Some y ->
    C.run C.current ccf (client_trace tr sys_init) C.init = Some (y_cl y).
  Proof.
    intros H. exact (client_run_gen tr sys_init y H).
  Qed.

  Theorem system_server_reachable tr y : yrun tr sys_init = Some y -> SI.reachable tail0 scf (y_sv y).
  Proof.
    intros H. apply (server_reach_gen tr sys_init y H). exists []. reflexivity.
  Qed.

  Lemma client_trace_length tr y : (length (client_trace tr y) <= length tr)%nat.
  Proof.
    revert y. induction tr as [|a tr IH]; intros y; cbn [client_trace length]; [lia|].
    destruct (ystep y a) as [y'|]; [|cbn [length]; lia]. rewrite app_length. specialize (IH y').
    assert (L : (length (client_action y a) <= 1)%nat); [|lia].
    destruct a as [ca|i|sa|j]; cbn [client_action length]; try lia.
    repeat case_match; cbn [length]; lia.
  Qed.

  Lemma client_trace_short tr y : N.of_nat (length tr) < 2^64 -> CI.short (client_trace tr y).
  Proof.
    intros Hb. unfold CI.short. pose proof (client_trace_length tr y) as L. lia.
  Qed.

  (* ---- the server machine behind the wire obeys the peer rule of Conn/Compose.v ---- *)
  Theorem system_obeys_peer_rule tr y : N.of_nat (length tr) < 2^64 -> yrun tr sys_init = Some y ->
    CC.peer_run expected ccf (client_trace tr sys_init) C.init.
  Proof.
    intros _ _. exact (peer_run_gen tr sys_init J_init).
  Qed.

  (* ---- C01 for the composed system: no hypothesis about the peer ---- *)
  Theorem system_own_reply tr y : N.of_nat (length tr) < 2^64 -> yrun tr sys_init = Some y ->
    forall c k b, C.s_calls (y_cl y) !! c = Some k -> C.k_reply k = Some b -> b = expected c.
  Proof.
    intros Hb Hr.
    apply (CC.end_to_end_own_reply expected ccf (client_trace tr sys_init) (y_cl y)).
    - apply client_trace_short. exact Hb.
    - apply system_client_run. exact Hr.
    - eapply system_obeys_peer_rule; eauto.
  Qed.

  (* a call completed on the success path holds exactly the reply computed from its own arguments *)
  Corollary system_ok_own_reply tr y c k : N.of_nat (length tr) < 2^64 -> yrun tr sys_init = Some y ->
    C.s_calls (y_cl y) !! c = Some k -> C.k_ok k = true -> C.k_kind k <> C.KPing ->
    C.k_reply k = Some (expected c).
  Proof.
    intros Hb Hr Hc Hok Hk.
    apply (CC.end_to_end_ok_own_reply expected ccf (client_trace tr sys_init) (y_cl y) c k);
      try assumption.
    - apply client_trace_short. exact Hb.
    - apply system_client_run. exact Hr.
    - eapply system_obeys_peer_rule; eauto.
  Qed.
End Sys.

(* ---- non-vacuity: two calls; the second request overtakes the first on the wire, the server
   (not pipelining) answers the second first, the client ends with each call holding its own reply ---- *)
Definition ex_expected (c : nat) : C.bytes := [100 + N.of_nat c].
Definition ex_kind (c : nat) : S.rkind := S.KCall false.
Definition ex_errt (c : nat) : C.bytes := [1].
Definition ex_ccf : C.cfg := {| C.directIO := false; C.pipelining := false |}.
Definition ex_scf : S.cfg := {| S.pipelining := false; S.directIO := false |}.
Definition ex_sys_trace : list sact :=
  [YClient (C.AStart 0 C.KGo); YClient (C.AStart 1 C.KGo); YClient (C.ASend 0); YClient (C.ASend 1);
   YClient (C.AWriteRet 0 None); YClient (C.AWriteRet 1 None);
   YUp 1; YUp 0; YServer S.SDecode; YServer S.SDecode; YServer (S.SStart 0); YServer (S.SStart 0);
   YServer (S.SEnd 1); YServer (S.SEnd 0);
   YDown 3; YDown 5;
   YClient C.APickup; YClient C.ADecode; YClient C.APickup; YClient C.ADecode;
   YClient (C.AFinish 0); YClient (C.AFinish 0)].
Example ex_system :
  exists y, yrun ex_expected ex_kind ex_errt ex_errt (fun _ => true) ex_ccf ex_scf S.servecodec_tail ex_sys_trace
              (sys_init) = Some y /\
    C.reply_of (y_cl y) 0 = Some (ex_expected 0) /\ C.reply_of (y_cl y) 1 = Some (ex_expected 1) /\
    C.sig_of (y_cl y) 0 = 1%nat /\ C.sig_of (y_cl y) 1 = 1%nat /\
    C.s_sigs (y_cl y) = [1; 0]%nat /\
    S.starts (S.s_log (y_sv y)) = [1; 0]%nat.
Proof.
  eexists. split; [vm_compute; reflexivity|]. vm_compute. repeat split; reflexivity.
Qed.

Print Assumptions system_obeys_peer_rule.
Print Assumptions system_own_reply.
Print Assumptions system_ok_own_reply.
