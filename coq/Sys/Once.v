(* Sys/Once.v — the last sentence of C04 over the composed system of
   Sys/Compose.v: "a call reported successful was executed exactly once and
   a failed call at most once: the library never retries or duplicates an
   execution".

   In every run of the composed system (client machine x wire x server
   machine; the wire may reorder, delay, lose and re-deliver responses):
   - no request is executed twice ([system_executed_at_most_once]), and
     every execution is the execution of a request some client call issued
     ([system_execution_has_owner]);
   - a call that the client reports successful (completed on the success
     path, not a ping) was executed by the server exactly once, its request
     named a registered handler and that handler returned no error
     ([system_success_executed_once]).
   The only hypothesis besides the 2^64 bound: the server does not take the
   request of a call that is not a ping for a ping (in the code a request is
   a ping exactly when the client set the heartbeat flag, which it does only
   for Ping calls). *)
From stdpp Require Import gmap.
From RPC Require Import Res.
From RPC.Conn Require Model InvLemmas Inv Own Compose.
From RPC.Server Require Model InvLemmas Inv Match.
From RPC.Sys Require Import Compose.
Open Scope N_scope.

Module SL := RPC.Server.InvLemmas.
Module SM := RPC.Server.Match.

(* ---- server machine: how one step changes the list of arrived requests and the log ---- *)
Lemma dispatch_arrived r s : S.s_arrived (S.dispatch r s) = S.s_arrived s.
Proof. unfold S.dispatch. destruct (S.r_kind r); try reflexivity. destruct (S.s_codec_closed s); reflexivity. Qed.

Lemma dispatch_log r s : exists l, S.s_log (S.dispatch r s) = S.s_log s ++ l.
Proof.
  unfold S.dispatch. destruct (S.r_kind r); try (exists []; cbn; rewrite app_nil_r; reflexivity).
  destruct (S.s_codec_closed s); [exists []; cbn; rewrite app_nil_r; reflexivity|].
  eexists. reflexivity.
Qed.

Lemma sarrive_arrived tail0 scf s r s' :
  S.step tail0 scf s (S.SArrive r) = Some s' -> S.s_arrived s' = S.s_arrived s ++ [r].
Proof.
  unfold S.step. destruct (negb (S.s_rd_alive s)); [discriminate|].
  destruct (S.directIO scf); intros H; injection H as <-; [rewrite dispatch_arrived|]; reflexivity.
Qed.

Lemma step_arrived_other tail0 scf s a s' : SL.not_arrive a ->
  S.step tail0 scf s a = Some s' -> S.s_arrived s' = S.s_arrived s.
Proof.
  intros NA H. SL.step_split H NA; try reflexivity. rewrite dispatch_arrived. reflexivity.
Qed.

Lemma step_log_grows_na tail0 scf s a s' : SL.not_arrive a ->
  S.step tail0 scf s a = Some s' -> exists l, S.s_log s' = S.s_log s ++ l.
Proof.
  intros NA H. SL.step_split H NA; try (exists []; cbn; rewrite app_nil_r; reflexivity);
    try (eexists; reflexivity).
  match goal with |- exists l, S.s_log (S.dispatch ?r ?s) = _ => destruct (dispatch_log r s) as [l E]; exists l; exact E end.
Qed.

Lemma step_log_grows tail0 scf s a s' :
  S.step tail0 scf s a = Some s' -> exists l, S.s_log s' = S.s_log s ++ l.
Proof.
  intros H. destruct a as [r| | | | |]; try (eapply step_log_grows_na; [|exact H]; exact I).
  unfold S.step in H. destruct (negb (S.s_rd_alive s)); [discriminate|].
  destruct (S.directIO scf); injection H as <-.
  - destruct (dispatch_log r {| S.s_arrived := S.s_arrived s ++ [r]; S.s_decq := S.s_decq s; S.s_execq := S.s_execq s;
           S.s_running := S.s_running s; S.s_log := S.s_log s; S.s_wg := S.s_wg s; S.s_rd_alive := true; S.s_tail := S.s_tail s;
           S.s_waiting := S.s_waiting s; S.s_codec_closed := S.s_codec_closed s; S.s_fault := S.s_fault s |}) as [l E].
    exists l. exact E.
  - exists []. cbn. rewrite app_nil_r. reflexivity.
Qed.

Lemma step_log_mono tail0 scf s a s' e :
  S.step tail0 scf s a = Some s' -> List.In e (S.s_log s) -> List.In e (S.s_log s').
Proof.
  intros H Hin. destruct (step_log_grows _ _ _ _ _ H) as [l ->]. apply in_or_app. left. exact Hin.
Qed.

(* ---- server machine: a success reply is written only after the handler was entered ---- *)
Definition RInv (s : S.sst) : Prop :=
  (forall r f, List.In r (S.s_running s) -> S.r_kind r = S.KCall f -> List.In (S.EStart (S.r_id r)) (S.s_log s)) /\
  (forall id, List.In (S.EResp id S.RReply) (S.s_log s) -> List.In (S.EStart id) (S.s_log s)).

Lemma RInv_step tail0 scf s a s' : RInv s -> SL.not_arrive a -> S.step tail0 scf s a = Some s' -> RInv s'.
Proof.
  intros [R1 R2] NA H. SL.step_split H NA; cbn in R1, R2; try (split; cbn; assumption).
  - (* SDecode *)
    unfold S.dispatch; cbn. destruct (S.r_kind r) eqn:K; [|destruct closed|..]; split; cbn; try assumption.
    + intros r1 f Hin K1. apply in_or_app. left. eauto.
    + intros id Hin. apply in_app_or in Hin as [Hin|[Hin|[]]]; [|discriminate]. apply in_or_app. left. auto.
  - (* SStart *)
    split; cbn.
    + intros r1 f Hin K. apply in_app_or in Hin as [Hin|[<-|[]]].
      * apply in_or_app. left. eapply R1; eauto.
      * rewrite K. apply in_or_app. right. left. reflexivity.
    + intros id Hin. apply in_or_app. left. apply R2. apply in_app_or in Hin as [Hin|Hin]; [exact Hin|].
      destruct (S.r_kind r); cbn in Hin; try tauto. destruct Hin as [?|[]]. discriminate.
  - (* SEnd *)
    assert (Hs : forall f, S.r_kind r = S.KCall f -> List.In (S.EStart (S.r_id r)) log).
    { intros f K. eapply R1; eauto. apply in_or_app. right. left. reflexivity. }
    split; cbn.
    + intros r1 f Hin K. apply in_or_app. left. eapply R1; eauto.
      apply in_or_app. apply in_app_or in Hin as [Hin|Hin]; [left|right; right]; exact Hin.
    + intros id0 Hin. apply in_or_app. apply in_app_or in Hin as [Hin|Hin]; [left; auto|].
      left. apply in_app_or in Hin as [Hin|Hin].
      * destruct (S.r_kind r); cbn in Hin; try tauto. destruct Hin as [?|[]]. discriminate.
      * destruct closed; cbn in Hin; [tauto|]. destruct Hin as [Hin|[]]. injection Hin as <- Hk.
        destruct (S.r_kind r) as [| | | |[|]] eqn:K; cbn in Hk; try discriminate. subst id. eapply Hs. reflexivity.
Qed.

Lemma reach_RInv tail0 scf s : SI.reachable tail0 scf s -> RInv s.
Proof.
  intros [tr H]. revert H. apply (SL.reach_ind tail0 scf RInv).
  - split; cbn; intros; tauto.
  - intros s0 r [R1 R2] _. split; cbn; assumption.
  - intros s0 a s1 HR NA St. eapply RInv_step; eauto.
Qed.

Lemma in_starts id l : List.In (S.EStart id) l -> List.In id (S.starts l).
Proof.
  intros H. unfold S.starts. apply in_flat_map. exists (S.EStart id). split; [exact H|left; reflexivity].
Qed.

Lemma reply_started tail0 scf s id : SI.reachable tail0 scf s ->
  List.In (S.EResp id S.RReply) (S.s_log s) -> List.In id (S.starts (S.s_log s)).
Proof. intros R H. apply in_starts. apply (reach_RInv _ _ _ R). exact H. Qed.

Section Once.
  Variable expected : nat -> C.bytes.
  Variable kind_of : nat -> S.rkind.
  Variable err_text : nat -> C.bytes.
  Variable err_body : nat -> C.bytes.
  Variable body_ok : nat -> bool.
  Hypothesis err_text_nonempty : forall c, err_text c <> [].
  Variable ccf : C.cfg.
  Variable scf : S.cfg.
  Variable tail0 : list S.tstep.

  Notation yrun' := (yrun expected kind_of err_text err_body body_ok ccf scf tail0).
  Notation ystep' := (ystep expected kind_of err_text err_body body_ok ccf scf tail0).
  Notation ctrace := (client_trace expected kind_of err_text err_body body_ok ccf scf tail0).
  Notation cact := (client_action expected err_text err_body body_ok).
  Notation frame_of' := (frame_of expected err_text err_body body_ok).

  (* ---- runs, from the right ---- *)
  Lemma yrun_snoc tr a : forall y0,
    yrun' (tr ++ [a]) y0 = match yrun' tr y0 with Some y => ystep' y a | None => None end.
  Proof.
    induction tr as [|b tr IH]; intros y0.
    - cbn [app yrun]. destruct (ystep' y0 a); reflexivity.
    - change ((b :: tr) ++ [a]) with (b :: (tr ++ [a])). cbn [yrun].
      destruct (ystep' y0 b); [apply IH|reflexivity].
  Qed.

  Lemma ctrace_snoc tr a : forall y0 y, yrun' tr y0 = Some y ->
    ctrace (tr ++ [a]) y0 = ctrace tr y0 ++ match ystep' y a with Some _ => cact y a | None => [] end.
  Proof.
    induction tr as [|b tr IH]; intros y0 y H.
    - cbn [yrun] in H. injection H as <-. cbn [app client_trace].
      destruct (ystep' y0 a); [rewrite app_nil_r|]; reflexivity.
    - change ((b :: tr) ++ [a]) with (b :: (tr ++ [a])). cbn [yrun client_trace] in *.
      destruct (ystep' y0 b) as [y1|] eqn:E; [|discriminate].
      rewrite <- app_assoc. f_equal. apply IH. exact H.
  Qed.

  Lemma J_run tr : forall y0 y, J ccf y0 -> yrun' tr y0 = Some y -> J ccf y.
  Proof.
    induction tr as [|a tr IH]; intros y0 y HJ H; cbn [yrun] in H.
    - injection H as <-. exact HJ.
    - destruct (ystep' y0 a) as [y1|] eqn:E; [|discriminate].
      eapply IH; [|exact H]. eapply J_step; eauto.
  Qed.

  (* what is known of every state of a run that cannot wrap the counter *)
  Lemma run_facts tr y : N.of_nat (length tr) < 2^64 -> yrun' tr sys_init = Some y ->
    J ccf y /\ Conn.InvLemmas.NInv (y_cl y) /\ SI.reachable tail0 scf (y_sv y).
  Proof.
    intros Hb H. split; [|split].
    - eapply J_run; [apply J_init|exact H].
    - apply (CI.reach_WN ccf). exists (ctrace tr sys_init). split.
      + apply client_trace_short; assumption.
      + apply system_client_run. exact H.
    - eapply system_server_reachable; eauto.
  Qed.

  (* ---- the numbers in flight and arrived ---- *)
  Definition nums (y : sys) : list nat :=
    ((fun p : N * nat => N.to_nat p.1) <$> y_up y) ++ (S.r_id <$> S.s_arrived (y_sv y)).

  Record K (y : sys) : Prop := {
    (* the numbers in flight and the numbers that arrived are pairwise distinct *)
    k_nd : base.NoDup (nums y);
    (* an arrived request is owned, and classified as its owner's request *)
    k_own : forall r, r ∈ S.s_arrived (y_sv y) ->
      exists c, y_owner y !! S.r_id r = Some c /\ S.r_kind r = kind_of c
  }.

  Lemma K_init : K sys_init.
  Proof.
    constructor.
    - apply NoDup_nil_2.
    - intros r H. cbn in H. apply elem_of_nil in H. contradiction.
  Qed.

  Lemma nums_held y n : J ccf y -> K y -> n ∈ nums y ->
    exists c, holds (C.s_calls (y_cl y)) c (N.of_nat n).
  Proof.
    intros HJ HK Hin. unfold nums in Hin. apply elem_of_app in Hin as [Hin|Hin].
    - apply elem_of_list_fmap in Hin as ([q c] & -> & Hin). exists c. cbn [fst].
      rewrite N2Nat.id. apply (j_up _ _ HJ). exact Hin.
    - apply elem_of_list_fmap in Hin as (r & -> & Hin).
      destruct (k_own _ HK _ Hin) as (c & Ho & _). exists c. apply (j_owner _ _ HJ). exact Ho.
  Qed.

  Lemma send_queued s c s' : C.step C.current ccf s (C.ASend c) = Some s' ->
    exists k, C.s_calls s !! c = Some k /\ C.k_wpc k = C.WQueued.
  Proof.
    unfold C.step. destruct (C.s_calls s !! c) as [k|]; [|discriminate].
    destruct (C.k_wpc k) eqn:Ew; try discriminate. intros _. exists k. split; [reflexivity|exact Ew].
  Qed.

  Lemma K_step y a y' : J ccf y -> J ccf y' -> Conn.InvLemmas.NInv (y_cl y') -> K y ->
    ystep' y a = Some y' -> K y'.
  Proof.
    intros HJ HJ' NI' HK E. pose proof E as E0. destruct a as [ca|i|sa|j]; unfold ystep in E.
    - (* a client step: the only new number is the one just assigned *)
      destruct (is_arrive ca); [discriminate|].
      destruct (C.step C.current ccf (y_cl y) ca) as [cl'|] eqn:Es; [|discriminate].
      injection E as <-. constructor; [|exact (k_own _ HK)].
      unfold nums; cbn [y_up y_sv].
      assert (Em : emitted ca cl' = [] \/ exists c0 q0, ca = C.ASend c0 /\ emitted ca cl' = [(q0, c0)]).
      { destruct ca; cbn [emitted]; auto. destruct (C.s_calls cl' !! c) as [k|]; auto.
        destruct (C.k_wpc k); eauto. }
      destruct Em as [->|(c0 & q0 & -> & Em)]; [rewrite app_nil_r; exact (k_nd _ HK)|].
      rewrite Em, fmap_app. cbn [fmap list_fmap fst]. rewrite <- app_assoc. cbn [app].
      rewrite <- Permutation_middle. apply list.NoDup_cons. split; [|exact (k_nd _ HK)].
      intros Hin. destruct (nums_held _ _ HJ HK Hin) as (c' & Hh). rewrite N2Nat.id in Hh.
      pose proof (step_keeps_q _ _ _ _ _ _ (j_W _ _ HJ) Es Hh) as Hh'.
      assert (Hh0 : holds (C.s_calls cl') c0 q0).
      { apply (j_up _ _ HJ'). cbn [y_up]. rewrite Em. apply elem_of_app. right. left. }
      assert (c' = c0) as ->.
      { destruct Hh' as (k1 & Hk1 & Hq1), Hh0 as (k2 & Hk2 & Hq2).
        cbn [y_cl] in NI'. eapply (Conn.InvLemmas.n_qinj _ NI'); eauto. }
      destruct (send_queued _ _ _ Es) as (k0 & Hk0 & Hw0). destruct Hh as (k & Hk & Hq).
      rewrite Hk0 in Hk. injection Hk as <-.
      destruct (Conn.InvLemmas.ck_queued _ (Conn.InvLemmas.w_call _ _ (j_W _ _ HJ) _ _ Hk0) Hw0) as [_ Hn].
      congruence.
    - (* a request frame reaches the server: its number moves from "in flight" to "arrived" *)
      destruct (y_up y !! i) as [[q c]|] eqn:Ei; [|discriminate].
      destruct (S.step _ _ _ _) as [sv'|] eqn:Es; [|discriminate]. injection E as <-.
      pose proof (sarrive_arrived _ _ _ _ _ Es) as Ea.
      pose proof (take_drop_middle _ _ _ Ei) as Eu.
      assert (Hnd : base.NoDup (((fun p : N * nat => N.to_nat p.1) <$> (take i (y_up y) ++ drop (S i) (y_up y))) ++
                           (S.r_id <$> S.s_arrived (y_sv y)) ++ [N.to_nat q])).
      { pose proof (k_nd _ HK) as H. unfold nums in H. rewrite <- Eu in H.
        rewrite fmap_app in H. cbn [fmap list_fmap fst] in H. rewrite <- app_assoc in H. cbn [app] in H.
        rewrite <- Permutation_middle in H. rewrite fmap_app, <- app_assoc.
        match type of H with base.NoDup (?x :: ?A ++ ?B ++ ?C) =>
          assert (P : x :: A ++ B ++ C ≡ₚ A ++ B ++ C ++ [x])
            by (rewrite Permutation_cons_append, <- !app_assoc; reflexivity) end.
        rewrite <- P. exact H. }
      constructor.
      + unfold nums; cbn [y_up y_sv]. rewrite Ea, fmap_app. exact Hnd.
      + cbn [y_sv y_owner]. rewrite Ea. intros r Hr. apply elem_of_app in Hr as [Hr|Hr].
        * destruct (decide (S.r_id r = N.to_nat q)) as [Eid|Nid].
          -- exfalso. pose proof (k_nd _ HK) as H. unfold nums in H.
             apply list.NoDup_app in H as (_ & Hd & _). apply (Hd (N.to_nat q)).
             ++ apply elem_of_list_fmap. exists (q, c). split; [reflexivity|].
                eapply elem_of_list_lookup_2; eauto.
             ++ rewrite <- Eid. apply elem_of_list_fmap. eauto.
          -- rewrite lookup_insert_ne by congruence. apply (k_own _ HK). exact Hr.
        * apply elem_of_list_singleton in Hr as ->. cbn [S.r_id S.r_kind].
          rewrite lookup_insert. eauto.
    - (* a server step other than an arrival *)
      destruct (is_sarrive sa) eqn:Ia; [discriminate|].
      destruct (S.step _ _ _ _) as [sv'|] eqn:Es; [|discriminate]. injection E as <-.
      assert (Ea : S.s_arrived sv' = S.s_arrived (y_sv y)).
      { eapply step_arrived_other; [|exact Es]. destruct sa; try exact I. discriminate Ia. }
      constructor.
      + unfold nums; cbn [y_up y_sv]. rewrite Ea. exact (k_nd _ HK).
      + cbn [y_sv y_owner]. rewrite Ea. exact (k_own _ HK).
    - (* a response reaches the client *)
      destruct (S.s_log (y_sv y) !! j) as [e|]; [|discriminate].
      destruct (frame_of' (y_owner y) e) as [f|]; [|discriminate].
      destruct (C.step C.current ccf (y_cl y) (C.AArrive f)) as [cl'|]; [|discriminate].
      injection E as <-. constructor; [exact (k_nd _ HK)|exact (k_own _ HK)].
  Qed.

  Lemma K_run tr : forall y, N.of_nat (length tr) < 2^64 -> yrun' tr sys_init = Some y -> K y.
  Proof.
    induction tr as [|a tr IH] using rev_ind; intros y Hb H.
    - cbn [yrun] in H. injection H as <-. apply K_init.
    - rewrite yrun_snoc in H. destruct (yrun' tr sys_init) as [y1|] eqn:E1; [|discriminate].
      assert (Hb1 : N.of_nat (length tr) < 2^64). { rewrite app_length in Hb. cbn [length] in Hb. lia. }
      destruct (run_facts _ _ Hb1 E1) as (HJ1 & _ & _).
      assert (E2 : yrun' (tr ++ [a]) sys_init = Some y). { rewrite yrun_snoc, E1. exact H. }
      destruct (run_facts _ _ Hb E2) as (HJ & NI & _).
      exact (K_step y1 a y HJ1 HJ NI (IH y1 Hb1 eq_refl) H).
  Qed.

  Lemma run_distinct tr y : N.of_nat (length tr) < 2^64 -> yrun' tr sys_init = Some y ->
    SI.distinct_ids (y_sv y).
  Proof.
    intros Hb H. pose proof (k_nd _ (K_run _ _ Hb H)) as Hn. unfold nums in Hn.
    apply list.NoDup_app in Hn as (_ & _ & Hn). apply NoDup_ListNoDup in Hn. exact Hn.
  Qed.

  (* no request is executed twice, whatever the wire and the peers do *)
  Theorem system_executed_at_most_once tr y : N.of_nat (length tr) < 2^64 -> yrun' tr sys_init = Some y ->
    List.NoDup (S.starts (S.s_log (y_sv y))).
  Proof.
    intros Hb H. apply (SI.exec_at_most_once tail0 scf).
    - eapply system_server_reachable; eauto.
    - eapply run_distinct; eauto.
  Qed.

  (* every execution is the execution of a request that a client call issued under that number *)
  Theorem system_execution_has_owner tr y id : N.of_nat (length tr) < 2^64 -> yrun' tr sys_init = Some y ->
    List.In id (S.starts (S.s_log (y_sv y))) ->
    exists c k, y_owner y !! id = Some c /\ C.s_calls (y_cl y) !! c = Some k /\ C.k_q k = Some (N.of_nat id) /\
                exists f, kind_of c = S.KCall f.
  Proof.
    intros Hb H Hin. destruct (run_facts _ _ Hb H) as (HJ & _ & HR).
    pose proof (K_run _ _ Hb H) as HK.
    apply (SI.no_phantom tail0 scf _ _ HR) in Hin. unfold S.calls_of in Hin.
    apply in_flat_map in Hin as (r & Hr & Hid).
    destruct (S.r_kind r) as [| | | |f] eqn:Kr; cbn in Hid; try contradiction.
    destruct Hid as [<-|[]]. apply elem_of_list_In in Hr.
    destruct (k_own _ HK _ Hr) as (c & Ho & Hk).
    destruct (j_owner _ _ HJ _ _ Ho) as (k & Hc & Hq).
    exists c, k. repeat split; try assumption. exists f. congruence.
  Qed.

  (* ==================================================================== *)
  (* the client machine alone: a call reported successful got a success    *)
  (* response under its own number                                         *)
  (* ==================================================================== *)
  Definition arrived_ok (q : N) (tr : list C.action) : Prop :=
    exists body ok, List.In (C.AArrive (C.FResp q [] body ok)) tr.
  Definition got (tr : list C.action) (m : gmap nat C.call) (c : nat) : Prop :=
    exists q, holds m c q /\ arrived_ok q tr.
  Definition okk (k : C.call) : Prop := C.k_ok k = true /\ C.k_kind k <> C.KPing.
  Definition Good (T : nat -> Prop) (m : gmap nat C.call) : Prop :=
    forall c k, m !! c = Some k -> okk k -> T c.

  Lemma Good_alter_at (T : nat -> Prop) f c' m :
    (forall k, m !! c' = Some k -> okk (f k) -> okk k) -> Good T m -> Good T (alter f c' m).
  Proof.
    intros Hf G c k Hk Ho. destruct (decide (c = c')) as [->|Nc].
    - rewrite lookup_alter in Hk. destruct (m !! c') as [k0|] eqn:E; [|discriminate].
      cbn in Hk. injection Hk as <-. eapply G; eauto.
    - rewrite lookup_alter_ne in Hk by congruence. eapply G; eauto.
  Qed.
  Lemma Good_alter (T : nat -> Prop) f c' m : (forall k, okk (f k) -> okk k) -> Good T m -> Good T (alter f c' m).
  Proof. intros Hf. apply Good_alter_at. intros k _. apply Hf. Qed.
  Lemma Good_alter_T (T : nat -> Prop) f c' m : T c' -> Good T m -> Good T (alter f c' m).
  Proof.
    intros Ht G c k Hk Ho. destruct (decide (c = c')) as [->|Nc]; [exact Ht|].
    rewrite lookup_alter_ne in Hk by congruence. eapply G; eauto.
  Qed.
  Lemma Good_insert (T : nat -> Prop) c' k' m : ~ okk k' -> Good T m -> Good T (<[c' := k']> m).
  Proof.
    intros Hn G c k Hk Ho. destruct (decide (c = c')) as [->|Nc].
    - rewrite lookup_insert in Hk. injection Hk as <-. contradiction.
    - rewrite lookup_insert_ne in Hk by congruence. eapply G; eauto.
  Qed.
  Lemma Good_fold (T : nat -> Prop) e (l : list (N * nat)) : forall m, Good T m ->
    Good T (fold_left (fun m (qc : N * nat) => alter (Conn.InvLemmas.Fsw e) qc.2 m) l m).
  Proof.
    induction l as [|a l IH]; intros m G; cbn [fold_left]; [exact G|].
    apply IH. apply Good_alter; [|exact G]. intros k [H1 H2]. split; [exact H1|exact H2].
  Qed.

  Ltac good_tac G :=
    autorewrite with calls;
    repeat (apply Good_alter; [intros ? [? ?]; split; assumption|]); exact G.

  (* where a call's success flag can come from *)
  Lemma step_ok (T : nat -> Prop) s a s' :
    Good T (C.s_calls s) -> (forall c b ok, C.FinReply c b ok ∈ C.s_finq s -> T c) ->
    C.step C.current ccf s a = Some s' -> Good T (C.s_calls s').
  Proof.
    intros G Fin H. destruct a as [c0 kd|c0|c0 r|f| | |i|e| | |c0|c0].
    - unfold C.step in H. destruct (C.s_calls s !! c0) as [k0|] eqn:E0; [discriminate|].
      injection H as <-. destruct (C.pipelining ccf); autorewrite with calls;
        (apply Good_insert; [intros [Ho _]; discriminate Ho|exact G]).
    - unfold C.step in H; repeat case_match; simplify_eq; good_tac G.
    - unfold C.step in H; repeat case_match; simplify_eq; good_tac G.
    - unfold C.step in H; repeat case_match; simplify_eq; good_tac G.
    - unfold C.step in H; repeat case_match; simplify_eq; good_tac G.
    - (* ADecode: the success flag is set at once only for a ping *)
      unfold C.step in H; repeat case_match; simplify_eq; try good_tac G.
      autorewrite with calls. apply Good_alter; [intros ? [? ?]; split; assumption|].
      apply Good_alter_at; [|exact G]. intros k0 Hk0 [_ Hkind]. exfalso. apply Hkind.
      cbn [C.k_kind C.k_set_ok]. congruence.
    - (* AFinish: the success flag is set by a completion task of a success response *)
      unfold C.step in H.
      match type of H with (if ?b then _ else _) = _ => destruct b; [discriminate|] end.
      destruct (C.s_finq s !! i) as [t|] eqn:Hi; [|discriminate].
      destruct t as [c b ok|c]; injection H as <-.
      + assert (Ht : T c). { eapply Fin. eapply elem_of_list_lookup_2; eauto. }
        autorewrite with calls. apply Good_alter_T; [exact Ht|]. apply Good_alter_T; [exact Ht|]. exact G.
      + good_tac G.
    - unfold C.step in H; repeat case_match; simplify_eq; good_tac G.
    - (* ASweep *)
      unfold C.step in H. destruct (C.s_rd s) as [|e|]; try discriminate.
      match type of H with (if ?b then _ else _) = _ => destruct b; [discriminate|] end.
      injection H as <-. autorewrite with calls. unfold C.sweep.
      rewrite Conn.InvLemmas.fold_calls. apply Good_fold. exact G.
    - unfold C.step in H; repeat case_match; simplify_eq; good_tac G.
    - unfold C.step in H; repeat case_match; simplify_eq; good_tac G.
    - unfold C.step in H; repeat case_match; simplify_eq; good_tac G.
  Qed.

  (* a frame enters the decode queue only by arriving *)
  Ltac decq_tac Hf s :=
    simpl in Hf;
    repeat match goal with E : C.s_decq s = _ |- _ => rewrite E in Hf end;
    left; first [exact Hf | right; exact Hf].

  Lemma step_decq s a s' f : C.step C.current ccf s a = Some s' ->
    f ∈ C.s_decq s' -> f ∈ C.s_decq s \/ a = C.AArrive f.
  Proof.
    intros H Hf. destruct a as [c0 kd|c0|c0 r|f0| | |i|e| | |c0|c0].
    - unfold C.step in H; repeat case_match; simplify_eq; decq_tac Hf s.
    - unfold C.step in H; repeat case_match; simplify_eq; decq_tac Hf s.
    - unfold C.step in H; repeat case_match; simplify_eq; decq_tac Hf s.
    - unfold C.step in H; repeat case_match; simplify_eq; cbn [C.s_decq C.set_decq] in Hf;
        repeat match goal with E : C.s_decq s = _ |- _ => rewrite E in Hf end;
        (apply elem_of_app in Hf as [Hf|Hf]; [left; exact Hf|]; apply elem_of_list_singleton in Hf as ->;
         right; reflexivity).
    - unfold C.step in H; repeat case_match; simplify_eq; decq_tac Hf s.
    - unfold C.step in H; repeat case_match; simplify_eq; decq_tac Hf s.
    - unfold C.step in H; repeat case_match; simplify_eq; decq_tac Hf s.
    - unfold C.step in H; repeat case_match; simplify_eq; decq_tac Hf s.
    - unfold C.step in H. destruct (C.s_rd s) as [|e|]; try discriminate.
      match type of H with (if ?b then _ else _) = _ => destruct b; [discriminate|] end.
      injection H as <-. left. cbn [C.s_decq C.set_rd] in Hf. unfold C.sweep in Hf.
      rewrite (Conn.InvLemmas.fold_pres C.s_decq) in Hf by reflexivity. exact Hf.
    - unfold C.step in H; repeat case_match; simplify_eq; decq_tac Hf s.
    - unfold C.step in H; repeat case_match; simplify_eq; decq_tac Hf s.
    - unfold C.step in H; repeat case_match; simplify_eq; decq_tac Hf s.
  Qed.

  (* a completion task of a success response is created only by decoding such a response, for the
     call registered under its number *)
  Ltac finq_tac Hf s :=
    simpl in Hf;
    repeat match goal with E : C.s_finq s = _ |- _ => rewrite E in Hf end;
    first [ left; exact Hf
          | apply elem_of_app in Hf as [Hf|Hf]; [left; exact Hf|];
            apply elem_of_list_singleton in Hf; first [discriminate Hf | idtac] ].

  Lemma step_finq s a s' c b ok : C.step C.current ccf s a = Some s' ->
    C.FinReply c b ok ∈ C.s_finq s' ->
    C.FinReply c b ok ∈ C.s_finq s \/
    (exists q rest, C.s_decq s = C.FResp q [] b ok :: rest /\ C.s_pending s !! q = Some c).
  Proof.
    intros H Hf. destruct a as [c0 kd|c0|c0 r|f0| | |i|e| | |c0|c0].
    - unfold C.step in H; repeat case_match; simplify_eq; finq_tac Hf s.
    - unfold C.step in H; repeat case_match; simplify_eq; finq_tac Hf s.
    - unfold C.step in H; repeat case_match; simplify_eq; finq_tac Hf s.
    - unfold C.step in H; repeat case_match; simplify_eq; finq_tac Hf s.
    - unfold C.step in H; repeat case_match; simplify_eq; finq_tac Hf s.
    - unfold C.step in H; repeat case_match; simplify_eq; finq_tac Hf s.
      all: injection Hf as <- <- <-; right;
        match goal with E : negb (C.beqb ?e []) = false |- _ =>
          apply negb_false_iff in E; unfold C.beqb in E; apply bool_decide_eq_true in E; subst e end;
        eexists; eexists; split; [reflexivity|eassumption].
    - unfold C.step in H.
      match type of H with (if ?b then _ else _) = _ => destruct b; [discriminate|] end.
      destruct (C.s_finq s !! i) as [t|] eqn:Hi; [|discriminate].
      destruct t as [c1 b1 ok1|c1]; injection H as <-;
        cbn [C.s_finq C.signal C.log_sig C.upd_call C.set_finq] in Hf;
        left; eapply elem_of_remove_nth; exact Hf.
    - unfold C.step in H; repeat case_match; simplify_eq; finq_tac Hf s.
    - unfold C.step in H. destruct (C.s_rd s) as [|e|]; try discriminate.
      match type of H with (if ?b then _ else _) = _ => destruct b; [discriminate|] end.
      injection H as <-. left. cbn [C.s_finq C.set_rd] in Hf. unfold C.sweep in Hf.
      rewrite (Conn.InvLemmas.fold_pres C.s_finq) in Hf by reflexivity. exact Hf.
    - unfold C.step in H; repeat case_match; simplify_eq; finq_tac Hf s.
    - unfold C.step in H; repeat case_match; simplify_eq; finq_tac Hf s.
    - unfold C.step in H; repeat case_match; simplify_eq; finq_tac Hf s.
  Qed.

  Record D (tr : list C.action) (s : C.st) : Prop := {
    (* what waits in the decode queue has arrived *)
    d_decq : forall f, f ∈ C.s_decq s -> List.In (C.AArrive f) tr;
    (* a queued completion of a success response: that response arrived under the call's number *)
    d_fin : forall c b ok, C.FinReply c b ok ∈ C.s_finq s -> got tr (C.s_calls s) c;
    (* a call reported successful got a success response under its number *)
    d_ok : Good (got tr (C.s_calls s)) (C.s_calls s)
  }.

  Lemma D_init : D [] C.init.
  Proof.
    constructor; cbn.
    - intros f H. apply elem_of_nil in H. contradiction.
    - intros c b ok H. apply elem_of_nil in H. contradiction.
    - intros c k H. rewrite lookup_empty in H. discriminate.
  Qed.

  Lemma D_step tr s a s' : Conn.InvLemmas.WInv ccf s -> D tr s ->
    C.step C.current ccf s a = Some s' -> D (tr ++ [a]) s'.
  Proof.
    intros W [D1 D2 D3] H.
    assert (Mono : forall c, got tr (C.s_calls s) c -> got (tr ++ [a]) (C.s_calls s') c).
    { intros c (q & Hh & body & ok & Hin). exists q. split.
      - eapply step_keeps_q; eauto.
      - exists body, ok. apply in_or_app. left. exact Hin. }
    assert (Fin : forall c b ok, C.FinReply c b ok ∈ C.s_finq s' -> got (tr ++ [a]) (C.s_calls s') c).
    { intros c b ok Hf. destruct (step_finq _ _ _ _ _ _ H Hf) as [Hf0|(q & rest & Hd & Hp)].
      - apply Mono. eapply D2; eauto.
      - apply Mono. exists q. split.
        + destruct (Conn.InvLemmas.w_pend _ _ W _ _ Hp) as (k & Hk & Hl). exists k. split; [exact Hk|].
          eapply Conn.InvLemmas.ck_locq; [eapply (Conn.InvLemmas.w_call _ _ W); eauto|exact Hl].
        + exists b, ok. apply D1. rewrite Hd. left. }
    constructor.
    - intros f Hf. apply in_or_app. destruct (step_decq _ _ _ _ H Hf) as [Hf0| ->].
      + left. apply D1. exact Hf0.
      + right. left. reflexivity.
    - exact Fin.
    - eapply step_ok; [| |exact H].
      + intros c k Hk Ho. apply Mono. eapply D3; eauto.
      + intros c b ok Hf. apply Mono. eapply D2; eauto.
  Qed.

  Lemma D_run tr : forall s, C.run C.current ccf tr C.init = Some s -> D tr s.
  Proof.
    induction tr as [|a tr IH] using rev_ind; intros s H.
    - cbn [C.run] in H. injection H as <-. apply D_init.
    - rewrite crun_app in H. destruct (C.run C.current ccf tr C.init) as [s1|] eqn:E1; [|discriminate].
      cbn [C.run] in H. destruct (C.step C.current ccf s1 a) as [s2|] eqn:E2; [|discriminate].
      injection H as <-.
      destruct (Conn.InvLemmas.run_W _ _ _ _ (Conn.InvLemmas.init_W ccf) E1) as [W _].
      eapply D_step; eauto.
  Qed.

  (* D1 *)
  Lemma client_ok_arrived tr s c k : C.run C.current ccf tr C.init = Some s ->
    C.s_calls s !! c = Some k -> C.k_ok k = true -> C.k_kind k <> C.KPing ->
    exists q body ok, C.k_q k = Some q /\ List.In (C.AArrive (C.FResp q [] body ok)) tr.
  Proof.
    intros H Hk Hok Hkind. destruct (d_ok _ _ (D_run _ _ H) c k Hk (conj Hok Hkind)) as (q & Hh & body & ok & Hin).
    destruct Hh as (k' & Hk' & Hq). rewrite Hk in Hk'. injection Hk' as <-. eauto.
  Qed.

  (* ==================================================================== *)
  (* the system: a success response that reached the client was written    *)
  (* by the server                                                         *)
  (* ==================================================================== *)
  Lemma frame_of_success owner e q body ok : frame_of' owner e = Some (C.FResp q [] body ok) ->
    exists id kr, e = S.EResp id kr /\ q = N.of_nat id /\ kr <> S.RError.
  Proof.
    destruct e as [id|id|id kr]; cbn [frame_of]; try discriminate.
    destruct (owner !! id) as [c|]; [|discriminate]. intros Hf. exists id, kr.
    destruct kr; injection Hf; intros; subst; try (split; [reflexivity|split; [reflexivity|discriminate]]).
    match goal with Ht : err_text c = [] |- _ => destruct (err_text_nonempty c Ht) end.
  Qed.

  Lemma ystep_log_mono y a y' e : ystep' y a = Some y' ->
    List.In e (S.s_log (y_sv y)) -> List.In e (S.s_log (y_sv y')).
  Proof.
    intros E Hin. destruct a as [ca|i|sa|j]; unfold ystep in E.
    - destruct (is_arrive ca); [discriminate|].
      destruct (C.step C.current ccf (y_cl y) ca) as [cl'|]; [|discriminate]. injection E as <-. exact Hin.
    - destruct (y_up y !! i) as [[q c]|]; [|discriminate].
      destruct (S.step _ _ _ _) as [sv'|] eqn:Es; [|discriminate]. injection E as <-.
      cbn [y_sv]. eapply step_log_mono; eauto.
    - destruct (is_sarrive sa); [discriminate|].
      destruct (S.step _ _ _ _) as [sv'|] eqn:Es; [|discriminate]. injection E as <-.
      cbn [y_sv]. eapply step_log_mono; eauto.
    - destruct (S.s_log (y_sv y) !! j) as [e0|]; [|discriminate].
      destruct (frame_of' (y_owner y) e0) as [f|]; [|discriminate].
      destruct (C.step C.current ccf (y_cl y) (C.AArrive f)) as [cl'|]; [|discriminate].
      injection E as <-. exact Hin.
  Qed.

  Lemma arrived_written tr : forall y, yrun' tr sys_init = Some y ->
    forall q body ok, List.In (C.AArrive (C.FResp q [] body ok)) (ctrace tr sys_init) ->
    exists id kr, q = N.of_nat id /\ List.In (S.EResp id kr) (S.s_log (y_sv y)) /\ kr <> S.RError.
  Proof.
    induction tr as [|a tr IH] using rev_ind; intros y H q body ok Hin.
    - cbn [client_trace] in Hin. destruct Hin.
    - rewrite yrun_snoc in H. destruct (yrun' tr sys_init) as [y1|] eqn:E1; [|discriminate].
      rewrite (ctrace_snoc _ _ _ _ E1), H in Hin. apply in_app_or in Hin as [Hin|Hin].
      + destruct (IH y1 eq_refl _ _ _ Hin) as (id & kr & Hq & Hl & Hk). exists id, kr.
        split; [exact Hq|]. split; [|exact Hk]. eapply ystep_log_mono; eauto.
      + destruct a as [ca|i|sa|j]; cbn [client_action] in Hin; try contradiction; unfold ystep in H.
        * destruct Hin as [->|[]]. cbn [is_arrive] in H. discriminate.
        * destruct (S.s_log (y_sv y1) !! j) as [e|] eqn:Ej; [|discriminate].
          destruct (frame_of' (y_owner y1) e) as [f|] eqn:Ef; [|discriminate].
          destruct (C.step C.current ccf (y_cl y1) (C.AArrive f)) as [cl'|]; [|discriminate].
          injection H as <-. destruct Hin as [Hin|[]]. injection Hin as ->.
          destruct (frame_of_success _ _ _ _ _ Ef) as (id & kr & -> & Hq & Hk). exists id, kr.
          split; [exact Hq|]. split; [|exact Hk]. cbn [y_sv].
          apply elem_of_list_In. eapply elem_of_list_lookup_2; eauto.
  Qed.

  (* a call reported successful was executed exactly once, by a handler that returned no error *)
  Theorem system_success_executed_once tr y c k : N.of_nat (length tr) < 2^64 -> yrun' tr sys_init = Some y ->
    C.s_calls (y_cl y) !! c = Some k -> C.k_ok k = true -> C.k_kind k <> C.KPing ->
    kind_of c <> S.KPing ->
    exists q, C.k_q k = Some q /\ kind_of c = S.KCall false /\
      count_occ Nat.eq_dec (S.starts (S.s_log (y_sv y))) (N.to_nat q) = 1%nat /\
      List.In (S.EResp (N.to_nat q) S.RReply) (S.s_log (y_sv y)).
  Proof.
    intros Hb H Hc Hok Hkind Hnp.
    destruct (run_facts _ _ Hb H) as (HJ & NI & HR). pose proof (K_run _ _ Hb H) as HK.
    pose proof (run_distinct _ _ Hb H) as HD.
    destruct (client_ok_arrived _ _ _ _ (system_client_run _ _ _ _ _ _ _ _ _ _ H) Hc Hok Hkind)
      as (q & body & ok & Hq & Hin).
    destruct (arrived_written _ _ H _ _ _ Hin) as (id & kr & -> & Hlog & Hkr).
    destruct (SM.response_matches_request _ _ _ _ _ HR Hlog) as (r & Hr & Hid & Hexp).
    apply elem_of_list_In in Hr. destruct (k_own _ HK _ Hr) as (c' & Ho & Hk'). rewrite Hid in Ho.
    destruct (j_owner _ _ HJ _ _ Ho) as (k' & Hc' & Hq').
    assert (c' = c) as -> by (eapply (Conn.InvLemmas.n_qinj _ NI); eauto).
    rewrite Hk' in Hexp. exists (N.of_nat id). rewrite Nat2N.id.
    destruct (kind_of c) as [| | | |[|]] eqn:Kc; cbn in Hexp; try discriminate; try congruence.
    injection Hexp as <-. split; [exact Hq|]. split; [reflexivity|]. split; [|exact Hlog].
    apply NoDup_count_occ'.
    - eapply system_executed_at_most_once; eauto.
    - eapply reply_started; eauto.
  Qed.
End Once.

(* non-vacuity: the example run of Sys/Compose.v ends with two calls reported successful *)
Example ex_once :
  exists y, yrun ex_expected ex_kind ex_errt ex_errt (fun _ => true) ex_ccf ex_scf S.servecodec_tail ex_sys_trace
              (sys_init) = Some y /\
    (exists k, C.s_calls (y_cl y) !! 0%nat = Some k /\ C.k_ok k = true /\ C.k_kind k <> C.KPing) /\
    (exists k, C.s_calls (y_cl y) !! 1%nat = Some k /\ C.k_ok k = true /\ C.k_kind k <> C.KPing) /\
    ex_kind 0%nat <> S.KPing.
Proof.
  eexists. split; [vm_compute; reflexivity|].
  split; [eexists; split; [vm_compute; reflexivity|split; [reflexivity|discriminate]]|].
  split; [eexists; split; [vm_compute; reflexivity|split; [reflexivity|discriminate]]|].
  discriminate.
Qed.

Print Assumptions system_executed_at_most_once.
Print Assumptions system_execution_has_owner.
Print Assumptions system_success_executed_once.
