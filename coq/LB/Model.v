(* LB/Model.v — the load-balancing Client (client.go): Update, detect/check,
   director/schedule (round robin, random, least time with probes), the
   waiter table, Fallback, Close, and target.Update (EWMA).

   Everything the code does under c.lock is one action.  Go map iteration
   order, rand.Intn, the clock, ping results and call durations are inputs.
   Target objects are identified by (generation, address): Update installs
   a new generation, so a check or a latency update that still holds a
   target of an older generation touches an object that is no longer in
   the map. *)
From stdpp Require Import gmap sorting.
From RPC Require Import Res.
From RPC Require Generated.
Open Scope Z_scope.

Definition addr := nat.    (* 0 stands for the empty string *)

Inductive sched := RoundRobin | Random | LeastTime.

Record target := { t_alive : bool; t_lat : Z }.

Inductive release := Woken | ClosedErr.
Inductive route_res :=
| RDirector (a : addr)       (* the non-empty address the Director returned *)
| RTarget (a : addr)         (* an address picked by schedule *)
| RErrShutdown
| RErrDial                   (* schedule found the list empty *)
| RMustWait                  (* no live target (or fallback): the caller goes on to wait() *)
| RWait (w : nat).           (* wait(): registered as waiter w *)

Record lb := {
  l_gen : nat;
  l_targets : gmap addr target;
  l_list : list addr;          (* c.list *)
  l_heap : list addr;          (* c.minHeap *)
  l_last : list addr;          (* c.last: sorted addresses of the live set *)
  l_pos : nat;
  l_probe : Z;                 (* c.lastTime *)
  l_waiters : gmap nat unit;   (* c.pending *)
  l_wseq : nat;
  l_closed : bool;
  l_fallback : Z;
  l_sched : sched;
  l_tick : Z;
  l_alpha_num : Z; l_alpha_den : Z;
  l_released : list (nat * release);   (* log: waiter releases *)
  l_routes : list route_res            (* log: results of director() *)
}.

Definition max_latency : Z := Generated.c_clientLatency.

Definition init (s : sched) (tick anum aden : Z) : lb := {|
  l_gen := 0; l_targets := ∅; l_list := []; l_heap := []; l_last := []; l_pos := 0; l_probe := 0;
  l_waiters := ∅; l_wseq := 0; l_closed := false; l_fallback := 0; l_sched := s; l_tick := tick;
  l_alpha_num := anum; l_alpha_den := aden; l_released := []; l_routes := [] |}.

(* ---- target.Update: exponential moving average, unreachable => maximum ---- *)
Definition ewma (anum aden old new : Z) : Z := (old * anum + new * (aden - anum)) / aden.

Definition target_update (anum aden : Z) (t : target) (new : Z) (errdial : bool) : target :=
  if errdial then {| t_alive := false; t_lat := max_latency |}
  else if max_latency <=? t_lat t then {| t_alive := true; t_lat := new |}
  else {| t_alive := true; t_lat := ewma anum aden (t_lat t) new |}.

(* ---- minHeap / heapDown on an array-as-list of (address, latency) ---- *)
Definition lat_of (m : gmap addr target) (a : addr) : Z :=
  match m !! a with Some t => t_lat t | None => max_latency end.

Definition swap {A} (l : list A) (i j : nat) : list A :=
  match l !! i, l !! j with
  | Some x, Some y => <[j := x]> (<[i := y]> l)
  | _, _ => l
  end.

(* heapDown(h, i, n): sift the element at i down; fuel bounds the loop by n *)
Fixpoint heap_down (fuel : nat) (lat : addr -> Z) (h : list addr) (parent n : nat) : list addr :=
  match fuel with
  | O => h
  | S f =>
      let left := (2 * parent + 1)%nat in
      if Nat.leb n left then h else
      let right := S left in
      let less :=
        match h !! right, h !! left with
        | Some r, Some l => if Nat.ltb right n && (lat r <? lat l) then right else left
        | _, _ => left
        end in
      match h !! less, h !! parent with
      | Some c, Some p =>
          if lat c <? lat p then heap_down f lat (swap h parent less) less n else h
      | _, _ => h
      end
  end.

(* minHeap(h): for i := n/2 - 1; i >= 0; i-- { heapDown(h, i, n) } *)
Fixpoint heapify_from (k : nat) (lat : addr -> Z) (h : list addr) : list addr :=
  match k with
  | O => h
  | S i => heapify_from i lat (heap_down (length h) lat h i (length h))
  end.
Definition min_heap (lat : addr -> Z) (h : list addr) : list addr := heapify_from (length h / 2) lat h.

(* ---- arranging the live set in the order the map iteration produced ---- *)
Definition alive_keys (m : gmap addr target) : list addr :=
  map fst (filter (fun p => t_alive (snd p)) (map_to_list m)).

Definition dedup_nat (l : list nat) : list nat :=
  fold_right (fun x acc => if bool_decide (x ∈ acc) then acc else x :: acc) [] l.

(* keys in the order given by the oracle; keys the oracle forgot go last *)
Definition arrange (order keys : list addr) : list addr :=
  filter (fun a => bool_decide (a ∈ keys)) (dedup_nat order) ++
  filter (fun a => negb (bool_decide (a ∈ order))) keys.

Definition sort_addrs (l : list addr) : list addr := merge_sort Nat.le l.

Inductive action :=
| Update (addrs : list addr)
| Detect
| CheckRet (a : addr) (gen : nat) (ok : bool) (order : list addr)
| Route (director : addr) (now : Z) (rnd : nat)   (* director(): closed / Director / fast path under the lock *)
| WaitReg                                         (* wait(w): second critical section of director() *)
| Rescheduled (w : nat) (now : Z) (rnd : nat)  (* a woken waiter calls schedule again *)
| Timeout (w : nat)
| Close
| FallbackOn | FallbackOff
| TargetUpdate (a : addr) (gen : nat) (dur : Z) (errdial : bool).

(* ---- setters ---- *)
Definition with_targets (m : gmap addr target) (l : lb) : lb :=
  {| l_gen := l_gen l; l_targets := m; l_list := l_list l; l_heap := l_heap l; l_last := l_last l; l_pos := l_pos l;
     l_probe := l_probe l; l_waiters := l_waiters l; l_wseq := l_wseq l; l_closed := l_closed l; l_fallback := l_fallback l;
     l_sched := l_sched l; l_tick := l_tick l; l_alpha_num := l_alpha_num l; l_alpha_den := l_alpha_den l;
     l_released := l_released l; l_routes := l_routes l |}.
Definition with_lists (li hp la : list addr) (pos : nat) (l : lb) : lb :=
  {| l_gen := l_gen l; l_targets := l_targets l; l_list := li; l_heap := hp; l_last := la; l_pos := pos;
     l_probe := l_probe l; l_waiters := l_waiters l; l_wseq := l_wseq l; l_closed := l_closed l; l_fallback := l_fallback l;
     l_sched := l_sched l; l_tick := l_tick l; l_alpha_num := l_alpha_num l; l_alpha_den := l_alpha_den l;
     l_released := l_released l; l_routes := l_routes l |}.
Definition with_gen (g : nat) (l : lb) : lb :=
  {| l_gen := g; l_targets := l_targets l; l_list := l_list l; l_heap := l_heap l; l_last := l_last l; l_pos := l_pos l;
     l_probe := l_probe l; l_waiters := l_waiters l; l_wseq := l_wseq l; l_closed := l_closed l; l_fallback := l_fallback l;
     l_sched := l_sched l; l_tick := l_tick l; l_alpha_num := l_alpha_num l; l_alpha_den := l_alpha_den l;
     l_released := l_released l; l_routes := l_routes l |}.
Definition with_sched (hp : list addr) (pos : nat) (probe : Z) (l : lb) : lb :=
  {| l_gen := l_gen l; l_targets := l_targets l; l_list := l_list l; l_heap := hp; l_last := l_last l; l_pos := pos;
     l_probe := probe; l_waiters := l_waiters l; l_wseq := l_wseq l; l_closed := l_closed l; l_fallback := l_fallback l;
     l_sched := l_sched l; l_tick := l_tick l; l_alpha_num := l_alpha_num l; l_alpha_den := l_alpha_den l;
     l_released := l_released l; l_routes := l_routes l |}.
Definition with_waiters (w : gmap nat unit) (ws : nat) (rel : list (nat * release)) (l : lb) : lb :=
  {| l_gen := l_gen l; l_targets := l_targets l; l_list := l_list l; l_heap := l_heap l; l_last := l_last l; l_pos := l_pos l;
     l_probe := l_probe l; l_waiters := w; l_wseq := ws; l_closed := l_closed l; l_fallback := l_fallback l;
     l_sched := l_sched l; l_tick := l_tick l; l_alpha_num := l_alpha_num l; l_alpha_den := l_alpha_den l;
     l_released := rel; l_routes := l_routes l |}.
Definition with_closed (l : lb) : lb :=
  {| l_gen := l_gen l; l_targets := l_targets l; l_list := l_list l; l_heap := l_heap l; l_last := l_last l; l_pos := l_pos l;
     l_probe := l_probe l; l_waiters := l_waiters l; l_wseq := l_wseq l; l_closed := true; l_fallback := l_fallback l;
     l_sched := l_sched l; l_tick := l_tick l; l_alpha_num := l_alpha_num l; l_alpha_den := l_alpha_den l;
     l_released := l_released l; l_routes := l_routes l |}.
Definition with_fallback (f : Z) (l : lb) : lb :=
  {| l_gen := l_gen l; l_targets := l_targets l; l_list := l_list l; l_heap := l_heap l; l_last := l_last l; l_pos := l_pos l;
     l_probe := l_probe l; l_waiters := l_waiters l; l_wseq := l_wseq l; l_closed := l_closed l; l_fallback := f;
     l_sched := l_sched l; l_tick := l_tick l; l_alpha_num := l_alpha_num l; l_alpha_den := l_alpha_den l;
     l_released := l_released l; l_routes := l_routes l |}.
Definition push_route (r : route_res) (l : lb) : lb :=
  {| l_gen := l_gen l; l_targets := l_targets l; l_list := l_list l; l_heap := l_heap l; l_last := l_last l; l_pos := l_pos l;
     l_probe := l_probe l; l_waiters := l_waiters l; l_wseq := l_wseq l; l_closed := l_closed l; l_fallback := l_fallback l;
     l_sched := l_sched l; l_tick := l_tick l; l_alpha_num := l_alpha_num l; l_alpha_den := l_alpha_den l;
     l_released := l_released l; l_routes := l_routes l ++ [r] |}.

(* checkPending: release every waiter when there is a live target and no fallback *)
Definition check_pending (l : lb) : lb :=
  if (l_fallback l =? 0) && negb (match l_list l with [] => true | _ => false end) then
    with_waiters ∅ (l_wseq l) (l_released l ++ map (fun p => (fst p, Woken)) (map_to_list (l_waiters l))) l
  else l.

(* schedule(): returns the address picked, or None (ErrDial) on an empty list *)
Definition schedule (now : Z) (rnd : nat) (l : lb) : option addr * lb :=
  match l_list l with
  | [] => (None, l)
  | [a] => (Some a, l)
  | _ =>
      let n := length (l_list l) in
      match l_sched l with
      | RoundRobin =>
          (l_list l !! l_pos l, with_sched (l_heap l) ((l_pos l + 1) mod n)%nat (l_probe l) l)
      | Random => (l_list l !! (rnd mod n)%nat, l)
      | LeastTime =>
          if l_probe l + l_tick l <? now then
            (l_list l !! l_pos l, with_sched (l_heap l) ((l_pos l + 1) mod n)%nat now l)
          else
            let h := min_heap (lat_of (l_targets l)) (l_heap l) in
            (h !! 0%nat, with_sched h (l_pos l) (l_probe l) l)
      end
  end.

Definition update_targets (addrs : list addr) : gmap addr target :=
  list_to_map (map (fun a => (a, {| t_alive := false; t_lat := max_latency |}))
                   (filter (fun a => negb (Nat.eqb a 0)) addrs)).

Definition step (l : lb) (a : action) : lb :=
  match a with
  | Update addrs =>
      with_gen (S (l_gen l)) (with_lists [] [] [] (l_pos l) (with_targets (update_targets addrs) l))
  | Detect => check_pending l
  | CheckRet ad gen ok order =>
      (* t.Alive(err) on the object the check holds: only a current-generation target is in the map *)
      let m1 := if Nat.eqb gen (l_gen l) then
                  match l_targets l !! ad with
                  | Some t => <[ad := {| t_alive := ok; t_lat := t_lat t |}]> (l_targets l)
                  | None => l_targets l
                  end
                else l_targets l in
      (* dead targets are reset to the maximum latency *)
      let m2 := (fun t => if t_alive t then t else {| t_alive := false; t_lat := max_latency |}) <$> m1 in
      let live := arrange order (alive_keys m2) in
      let l1 := with_targets m2 l in
      match live with
      | [] => with_lists [] [] [] (l_pos l1) l1
      | _ =>
          let sorted := sort_addrs live in
          let l2 := if bool_decide (sorted = l_last l1) then l1 else with_lists live live sorted 0 l1 in
          check_pending l2
      end
  | Route director now rnd =>
      if l_closed l then push_route RErrShutdown l else
      if (l_fallback l =? 0) && negb (Nat.eqb director 0) then push_route (RDirector director) l else
      if (l_fallback l =? 0) && negb (match l_list l with [] => true | _ => false end) then
        match schedule now rnd l with
        | (Some ad, l') => push_route (RTarget ad) l'
        | (None, l') => push_route RErrDial l'
        end
      else push_route RMustWait l
  | WaitReg =>
      (* checkClosed under the lock: released at once with ErrShutdown, never registered *)
      if l_closed l then with_waiters (l_waiters l) (S (l_wseq l)) (l_released l ++ [(l_wseq l, ClosedErr)]) l else
      let w := l_wseq l in
      push_route (RWait w) (with_waiters (<[w := tt]> (l_waiters l)) (S w) (l_released l) l)
  | Rescheduled w now rnd =>
      match schedule now rnd l with
      | (Some ad, l') => push_route (RTarget ad) l'
      | (None, l') => push_route RErrDial l'
      end
  | Timeout w => with_waiters (delete w (l_waiters l)) (l_wseq l) (l_released l) l
  | Close =>
      if l_closed l then l else
      with_closed (with_waiters ∅ (l_wseq l)
                     (l_released l ++ map (fun p => (fst p, ClosedErr)) (map_to_list (l_waiters l))) l)
  | FallbackOn => with_fallback (l_fallback l + 1) l
  | FallbackOff => with_fallback (l_fallback l - 1) l
  | TargetUpdate ad gen dur errdial =>
      if Nat.eqb gen (l_gen l) then
        match l_targets l !! ad with
        | Some t => with_targets (<[ad := target_update (l_alpha_num l) (l_alpha_den l) t dur errdial]> (l_targets l)) l
        | None => l
        end
      else l
  end.

Definition run (tr : list action) (l : lb) : lb := fold_left step tr l.
