(* LB/Inv.v — invariant of the load-balancing client machine and the lemmas
   the property files cite (Props/C16.v, C17.v, C18.v). *)
From stdpp Require Import gmap sorting.
From RPC Require Import Res.
From RPC.LB Require Import Model Heap ListLemmas.
Open Scope Z_scope.

Record LInv (l : lb) : Prop := {
  li_list_cur : forall a, a ∈ l_list l -> is_Some (l_targets l !! a);
  li_heap_perm : l_heap l ≡ₚ l_list l;
  li_list_nodup : NoDup (l_list l);
  li_pos : l_list l <> [] -> (l_pos l < length (l_list l))%nat;
  li_last : l_last l = match l_list l with [] => [] | _ => sort_addrs (l_list l) end;
  li_no_empty : l_targets l !! 0%nat = None;
  li_waiters_lt : forall w, is_Some (l_waiters l !! w) -> (w < l_wseq l)%nat;
  li_released_lt : forall w r, (w, r) ∈ l_released l -> (w < l_wseq l)%nat;
  li_released_nodup : NoDup (map fst (l_released l));
  li_released_gone : forall w r, (w, r) ∈ l_released l -> l_waiters l !! w = None;
  li_closed : l_closed l = true -> l_waiters l = ∅
}.

Definition reachable (l : lb) : Prop := exists s tick an ad tr, l = run tr (init s tick an ad).

(* ================= helper lemmas ================= *)

(* ---- setters ---- *)
Lemma with_sched_id l : with_sched (l_heap l) (l_pos l) (l_probe l) l = l.
Proof. by destruct l. Qed.

Lemma LInv_with_sched l hp pos pr : LInv l -> hp ≡ₚ l_heap l ->
  (l_list l <> [] -> (pos < length (l_list l))%nat) -> LInv (with_sched hp pos pr l).
Proof. intros [] Hp Hpos. constructor; simpl; auto. by rewrite Hp. Qed.

Lemma LInv_push_route r l : LInv l -> LInv (push_route r l).
Proof. intros []. constructor; simpl; auto. Qed.

Lemma LInv_with_fallback f l : LInv l -> LInv (with_fallback f l).
Proof. intros []. constructor; simpl; auto. Qed.

Lemma LInv_with_gen g l : LInv l -> LInv (with_gen g l).
Proof. intros []. constructor; simpl; auto. Qed.

Lemma LInv_with_targets m l : LInv l ->
  (forall x, is_Some (m !! x) <-> is_Some (l_targets l !! x)) -> LInv (with_targets m l).
Proof.
  intros [] Hm. constructor; simpl; auto.
  - intros a Ha. apply Hm. auto.
  - apply eq_None_not_Some. intros [t Ht]%Hm. unfold addr in *. congruence.
Qed.

Lemma LInv_clear_lists pos l : LInv l -> LInv (with_lists [] [] [] pos l).
Proof.
  intros []. constructor; simpl; auto.
  - intros a Ha. by apply elem_of_nil in Ha.
  - constructor.
  - done.
Qed.

Lemma LInv_set_lists li l : LInv l -> base.NoDup li ->
  (forall a, a ∈ li -> is_Some (l_targets l !! a)) -> li <> [] ->
  LInv (with_lists li li (sort_addrs li) 0 l).
Proof.
  intros [] Hnd Hin Hne. constructor; simpl; auto.
  - by apply NoDup_ListNoDup.
  - intros _. destruct li; simpl; [done|lia].
  - by destruct li.
Qed.

Lemma LInv_release_all rr l : LInv l ->
  LInv (with_waiters ∅ (l_wseq l)
          (l_released l ++ map (fun p => (fst p, rr)) (map_to_list (l_waiters l))) l).
Proof.
  intros []. constructor; simpl; auto.
  - intros w. rewrite lookup_empty. by intros [? ?].
  - intros w r [Hin|Hin]%elem_of_app; [eauto|].
    apply elem_of_list_fmap in Hin as ([w' []] & [= -> ->] & Hin).
    apply elem_of_map_to_list in Hin. simpl. apply li_waiters_lt0. eauto.
  - apply NoDup_ListNoDup. apply NoDup_ListNoDup in li_released_nodup0.
    rewrite map_app. apply list.NoDup_app. split; [done|]. split.
    + intros w Hw. apply elem_of_list_fmap in Hw as ([w' r] & -> & Hw). simpl.
      apply li_released_gone0 in Hw. intros Hin.
      apply elem_of_list_fmap in Hin as ([w'' r'] & Hw'' & Hin). simpl in Hw''. subst w''.
      apply elem_of_list_fmap in Hin as ([w'' []] & [= -> ->] & Hin).
      apply elem_of_map_to_list in Hin. simpl in *. congruence.
    + rewrite map_map. simpl. apply NoDup_fst_map_to_list.
Qed.

Lemma release_all_mem rr (l : lb) w : is_Some (l_waiters l !! w) ->
  (w, rr) ∈ l_released l ++ map (fun p => (fst p, rr)) (map_to_list (l_waiters l)).
Proof.
  intros [[] Hw]. apply elem_of_app. right. apply elem_of_list_fmap.
  exists (w, tt). split; [done|]. by apply elem_of_map_to_list.
Qed.

Lemma LInv_with_closed l : LInv l -> l_waiters l = ∅ -> LInv (with_closed l).
Proof. intros [] He. constructor; simpl; auto. Qed.

(* ---- check_pending ---- *)
Lemma cp_list l : l_list (check_pending l) = l_list l.
Proof. unfold check_pending. by case_match. Qed.
Lemma cp_targets l : l_targets (check_pending l) = l_targets l.
Proof. unfold check_pending. by case_match. Qed.
Lemma cp_routes l : l_routes (check_pending l) = l_routes l.
Proof. unfold check_pending. by case_match. Qed.

Lemma cp_inv l : LInv l -> LInv (check_pending l).
Proof. intros H. unfold check_pending. case_match; [|done]. by apply LInv_release_all. Qed.

Lemma cp_releases l : l_list l <> [] -> l_fallback l = 0 ->
  l_waiters (check_pending l) = ∅ /\
  forall w, is_Some (l_waiters l !! w) -> (w, Woken) ∈ l_released (check_pending l).
Proof.
  intros Hne Hf. unfold check_pending. rewrite Hf.
  destruct (l_list l); [done|]. simpl. split; [done|]. apply release_all_mem.
Qed.

(* ---- CheckRet ---- *)
Definition cr_reset (t : target) : target :=
  if t_alive t then t else {| t_alive := false; t_lat := max_latency |}.
Definition cr_m1 (l : lb) (ad : addr) (gen : nat) (ok : bool) : gmap addr target :=
  if Nat.eqb gen (l_gen l) then
    match l_targets l !! ad with
    | Some t => <[ad := {| t_alive := ok; t_lat := t_lat t |}]> (l_targets l)
    | None => l_targets l
    end
  else l_targets l.
Definition cr_m2 (l : lb) (ad : addr) (gen : nat) (ok : bool) : gmap addr target :=
  cr_reset <$> cr_m1 l ad gen ok.
Definition cr_pre (l : lb) (ad : addr) (gen : nat) (ok : bool) (order : list addr) : lb :=
  let m2 := cr_m2 l ad gen ok in
  let live := arrange order (alive_keys m2) in
  let l1 := with_targets m2 l in
  match live with
  | [] => with_lists [] [] [] (l_pos l) l1
  | _ => if bool_decide (sort_addrs live = l_last l) then l1
         else with_lists live live (sort_addrs live) 0 l1
  end.

Lemma step_CheckRet l ad gen ok order :
  step l (CheckRet ad gen ok order) = check_pending (cr_pre l ad gen ok order).
Proof.
  unfold step, cr_pre, cr_m2, cr_m1, cr_reset. cbv zeta.
  destruct (arrange _ _) eqn:E; [|reflexivity].
  unfold check_pending. simpl. by rewrite andb_false_r.
Qed.

Lemma cr_m2_dom l ad gen ok x :
  is_Some (cr_m2 l ad gen ok !! x) <-> is_Some (l_targets l !! x).
Proof.
  unfold cr_m2, cr_m1. rewrite lookup_fmap, fmap_is_Some.
  destruct (Nat.eqb gen (l_gen l)); [|done].
  destruct (l_targets l !! ad) as [t|] eqn:Et; [|done].
  destruct (decide (x = ad)) as [->|Ne].
  - rewrite lookup_insert, Et. split; eauto.
  - by rewrite lookup_insert_ne.
Qed.

Lemma cr_pre_fields l ad gen ok order :
  let l' := cr_pre l ad gen ok order in
  l_targets l' = cr_m2 l ad gen ok /\ l_waiters l' = l_waiters l /\ l_released l' = l_released l /\
  l_fallback l' = l_fallback l /\ l_routes l' = l_routes l.
Proof. unfold cr_pre. cbv zeta. repeat case_match; done. Qed.

Lemma last_eq_perm l live : LInv l -> live <> [] -> sort_addrs live = l_last l -> l_list l ≡ₚ live.
Proof.
  intros H Hne Heq. rewrite (li_last _ H) in Heq.
  destruct (l_list l) eqn:E.
  - by apply sort_addrs_nil_inv in Heq.
  - symmetry. by apply sort_addrs_eq_iff.
Qed.

Lemma cr_live_perm l ad gen ok order :
  arrange order (alive_keys (cr_m2 l ad gen ok)) ≡ₚ alive_keys (cr_m2 l ad gen ok).
Proof. apply arrange_perm, NoDup_alive_keys. Qed.

Lemma cr_pre_inv l ad gen ok order : LInv l -> LInv (cr_pre l ad gen ok order).
Proof.
  intros H. unfold cr_pre. cbv zeta.
  set (m2 := cr_m2 l ad gen ok). set (live := arrange order (alive_keys m2)).
  assert (H1 : LInv (with_targets m2 l)).
  { apply LInv_with_targets; [done|]. apply cr_m2_dom. }
  destruct live as [|x0 live0] eqn:E; [by apply LInv_clear_lists|].
  case_bool_decide; [done|]. rewrite <-E.
  apply (LInv_set_lists live (with_targets m2 l)); [done| | |by rewrite E].
  - apply NoDup_arrange, NoDup_alive_keys.
  - intros a Ha. apply elem_of_arrange, elem_of_alive_keys in Ha as (t & Ht & _). simpl. eauto.
Qed.

Lemma cr_pre_list l ad gen ok order : LInv l ->
  l_list (cr_pre l ad gen ok order) ≡ₚ alive_keys (cr_m2 l ad gen ok).
Proof.
  intros H. pose proof (cr_live_perm l ad gen ok order) as Hp.
  unfold cr_pre. cbv zeta.
  set (m2 := cr_m2 l ad gen ok) in *. set (live := arrange order (alive_keys m2)) in *.
  destruct live as [|x0 live0] eqn:E; [done|].
  case_bool_decide as Hs; [|done]. simpl. rewrite <-Hp.
  apply last_eq_perm; done.
Qed.

(* ---- schedule ---- *)
Lemma schedule_ge2 now rnd l : (2 <= length (l_list l))%nat ->
  schedule now rnd l =
    let n := length (l_list l) in
    match l_sched l with
    | RoundRobin =>
        (l_list l !! l_pos l, with_sched (l_heap l) ((l_pos l + 1) mod n)%nat (l_probe l) l)
    | Random => (l_list l !! (rnd mod n)%nat, l)
    | LeastTime =>
        if l_probe l + l_tick l <? now then
          (l_list l !! l_pos l, with_sched (l_heap l) ((l_pos l + 1) mod n)%nat now l)
        else
          let h := min_heap (lat_of (l_targets l)) (l_heap l) in
          (h !! 0%nat, with_sched h (l_pos l) (l_probe l) l)
    end.
Proof.
  unfold schedule. destruct (l_list l) as [|x [|y t]]; simpl length; intros; try lia; reflexivity.
Qed.

Lemma heap_nonempty l : LInv l -> l_list l <> [] -> l_heap l <> [].
Proof.
  intros H Hne Hh. apply Hne. apply Permutation_nil_r. rewrite <-Hh. symmetry. apply H.
Qed.

Lemma schedule_spec now rnd l : LInv l ->
  exists hp pos pr, (schedule now rnd l).2 = with_sched hp pos pr l /\ hp ≡ₚ l_heap l /\
    (l_list l <> [] -> (pos < length (l_list l))%nat) /\
    match (schedule now rnd l).1 with Some a => a ∈ l_list l | None => l_list l = [] end.
Proof.
  intros H.
  destruct (decide (2 <= length (l_list l))%nat) as [Hn|Hn].
  - assert (Hne : l_list l <> []) by (intros E; rewrite E in Hn; simpl in Hn; lia).
    pose proof (li_pos _ H Hne) as Hpos.
    destruct (lookup_lt_is_Some_2 _ _ Hpos) as [x Hx].
    rewrite schedule_ge2 by done. cbv zeta. destruct (l_sched l).
    + eexists _, _, _. split; [reflexivity|]. split; [done|]. split; [intros; lia|].
      simpl. rewrite Hx. by eapply elem_of_list_lookup_2.
    + exists (l_heap l), (l_pos l), (l_probe l). rewrite with_sched_id.
      split; [done|]. split; [done|]. split; [done|]. simpl.
      destruct (lookup_lt_is_Some_2 (l_list l) (rnd mod length (l_list l))%nat ltac:(lia)) as [y Hy].
      rewrite Hy. by eapply elem_of_list_lookup_2.
    + case_match.
      * eexists _, _, _. split; [reflexivity|]. split; [done|]. split; [intros; lia|].
        simpl. rewrite Hx. by eapply elem_of_list_lookup_2.
      * eexists _, _, _. split; [reflexivity|]. split; [apply min_heap_perm|]. split; [done|]. simpl.
        destruct (min_heap_root (lat_of (l_targets l)) (l_heap l) (heap_nonempty _ H Hne))
          as (Hp & r & Hr & _).
        rewrite Hr. rewrite <-(li_heap_perm _ H), <-Hp. by eapply elem_of_list_lookup_2.
  - exists (l_heap l), (l_pos l), (l_probe l). rewrite with_sched_id.
    unfold schedule. destruct (l_list l) as [|x [|y t]] eqn:E; simpl in *.
    + done.
    + split; [done|]. split; [done|]. split; [|apply elem_of_list_here].
      pose proof (li_pos _ H) as Hp. rewrite E in Hp. exact Hp.
    + lia.
Qed.

(* ---- Route / Rescheduled ---- *)
Definition route_ok (l : lb) (d : addr) (r : route_res) : Prop :=
  match r with
  | RDirector a => a = d /\ d <> 0%nat
  | RTarget a => is_Some (l_targets l !! a) /\ a ∈ l_list l
  | RWait _ => False
  | _ => True
  end.

Lemma route_step l d now rnd : LInv l ->
  let l' := step l (Route d now rnd) in
  LInv l' /\ l_targets l' = l_targets l /\
  exists r, l_routes l' = l_routes l ++ [r] /\ route_ok l d r.
Proof.
  intros H. destruct (schedule_spec now rnd l H) as (hp & pos & pr & E2 & Hp & Hpos & H1).
  cbv zeta. unfold step.
  destruct (l_closed l).
  { split; [by apply LInv_push_route|]. split; [done|]. by exists RErrShutdown. }
  destruct ((l_fallback l =? 0) && negb (Nat.eqb d 0)) eqn:Ed.
  { split; [by apply LInv_push_route|]. split; [done|]. exists (RDirector d). split; [done|]. simpl.
    apply andb_true_iff in Ed as [_ Ed]. apply negb_true_iff, Nat.eqb_neq in Ed. done. }
  destruct ((l_fallback l =? 0) && negb (match l_list l with [] => true | _ => false end)) eqn:El.
  2:{ split; [by apply LInv_push_route|]. split; [done|]. by exists RMustWait. }
  destruct (schedule now rnd l) as [[ad|] l2]; simpl in E2, H1; subst l2.
  - split; [apply LInv_push_route, LInv_with_sched; done|]. split; [done|].
    exists (RTarget ad). split; [done|]. simpl. split; [|done]. by apply (li_list_cur _ H).
  - split; [apply LInv_push_route, LInv_with_sched; done|]. split; [done|]. by exists RErrDial.
Qed.

Definition resched_ok (l : lb) (r : route_res) : Prop :=
  match r with
  | RTarget a => is_Some (l_targets l !! a) /\ a ∈ l_list l
  | RErrDial => l_list l = []
  | _ => False
  end.

Lemma resched_step l w now rnd : LInv l ->
  let l' := step l (Rescheduled w now rnd) in
  LInv l' /\ l_targets l' = l_targets l /\
  exists r, l_routes l' = l_routes l ++ [r] /\ resched_ok l r.
Proof.
  intros H. destruct (schedule_spec now rnd l H) as (hp & pos & pr & E2 & Hp & Hpos & H1).
  cbv zeta. unfold step.
  destruct (schedule now rnd l) as [[ad|] l2]; simpl in E2, H1; subst l2.
  - split; [apply LInv_push_route, LInv_with_sched; done|]. split; [done|].
    exists (RTarget ad). split; [done|]. simpl. split; [|done]. by apply (li_list_cur _ H).
  - split; [apply LInv_push_route, LInv_with_sched; done|]. split; [done|]. by exists RErrDial.
Qed.

Lemma route0_schedule l now rnd : l_closed l = false -> l_fallback l = 0 -> l_list l <> [] ->
  step l (Route 0%nat now rnd) =
    match schedule now rnd l with
    | (Some ad, l') => push_route (RTarget ad) l'
    | (None, l') => push_route RErrDial l'
    end.
Proof.
  intros Hc Hf Hne. unfold step. rewrite Hc, Hf.
  destruct (l_list l) eqn:E; [done|]. reflexivity.
Qed.

(* ---- the remaining actions ---- *)
Lemma waitreg_inv l : LInv l -> LInv (step l WaitReg).
Proof.
  intros H. unfold step. destruct (l_closed l) eqn:Ec.
  - destruct H as [Hcur Hhp Hnd Hpos Hlast Hne Hwlt Hrlt Hrnd Hgone Hcl].
    constructor; simpl; auto.
    + intros w Hw. apply Hwlt in Hw. lia.
    + intros w r [Hin|Hin]%elem_of_app.
      * apply Hrlt in Hin. lia.
      * apply elem_of_list_singleton in Hin. inversion Hin; subst. lia.
    + apply NoDup_ListNoDup. apply NoDup_ListNoDup in Hrnd.
      rewrite map_app. apply list.NoDup_app. split; [done|]. split; [|apply NoDup_singleton].
      intros w Hw. apply elem_of_list_fmap in Hw as ([w' r] & -> & Hw). simpl.
      apply Hrlt in Hw. intros ->%elem_of_list_singleton. lia.
    + intros w r [Hin|Hin]%elem_of_app; [eauto|].
      apply elem_of_list_singleton in Hin. inversion Hin; subst.
      apply eq_None_not_Some. intros Hs%Hwlt. lia.
  - apply LInv_push_route.
    destruct H as [Hcur Hhp Hnd Hpos Hlast Hne Hwlt Hrlt Hrnd Hgone Hcl].
    constructor; simpl; auto.
    + intros w [->|[_ Hw]]%lookup_insert_is_Some; [lia|]. apply Hwlt in Hw. lia.
    + intros w r Hin. apply Hrlt in Hin. lia.
    + intros w r Hin. rewrite lookup_insert_ne; [eauto|]. apply Hrlt in Hin. lia.
    + rewrite Ec. done.
Qed.

Lemma timeout_inv l w : LInv l -> LInv (step l (Timeout w)).
Proof.
  intros [Hcur Hhp Hnd Hpos Hlast Hne Hwlt Hrlt Hrnd Hgone Hcl].
  constructor; simpl; auto.
  - intros w' [_ Hw]%lookup_delete_is_Some. auto.
  - intros w' r Hin. destruct (decide (w' = w)) as [->|Ne].
    + apply lookup_delete.
    + rewrite lookup_delete_ne by done. eauto.
  - intros Hc. rewrite (Hcl Hc). apply delete_empty.
Qed.

Lemma close_inv l : LInv l -> LInv (step l Close).
Proof.
  intros H. unfold step. destruct (l_closed l); [done|].
  apply LInv_with_closed; [|done]. by apply LInv_release_all.
Qed.

Lemma update_inv l addrs : LInv l -> LInv (step l (Update addrs)).
Proof.
  intros [Hcur Hhp Hnd Hpos Hlast Hne Hwlt Hrlt Hrnd Hgone Hcl].
  constructor; simpl; auto.
  - intros a Ha. by apply elem_of_nil in Ha.
  - constructor.
  - done.
  - apply eq_None_not_Some. intros [_ Hs]%update_targets_is_Some. done.
Qed.

Lemma target_update_dom (l : lb) ad t t' x : l_targets l !! ad = Some t ->
  is_Some (<[ad := t']> (l_targets l) !! x) <-> is_Some (l_targets l !! x).
Proof.
  intros Et. destruct (decide (x = ad)) as [->|Ne].
  - rewrite lookup_insert, Et. split; eauto.
  - by rewrite lookup_insert_ne.
Qed.

Lemma targetupdate_inv l ad gen dur e : LInv l -> LInv (step l (TargetUpdate ad gen dur e)).
Proof.
  intros H. unfold step. destruct (Nat.eqb gen (l_gen l)); [|done].
  destruct (l_targets l !! ad) as [t|] eqn:Et; [|done].
  apply LInv_with_targets; [done|]. intros x. by eapply target_update_dom.
Qed.

Lemma step_inv l a : LInv l -> LInv (step l a).
Proof.
  intros H. destruct a.
  - by apply update_inv.
  - by apply cp_inv.
  - rewrite step_CheckRet. by apply cp_inv, cr_pre_inv.
  - by apply route_step.
  - by apply waitreg_inv.
  - by apply resched_step.
  - by apply timeout_inv.
  - by apply close_inv.
  - by apply LInv_with_fallback.
  - by apply LInv_with_fallback.
  - by apply targetupdate_inv.
Qed.

Lemma init_inv s tick an ad : LInv (init s tick an ad).
Proof.
  constructor; simpl; try done;
    try (intros ? Ha; by apply elem_of_nil in Ha);
    try (intros ? ? Ha; by apply elem_of_nil in Ha);
    try (by constructor).
  intros w. rewrite lookup_empty. by intros [? ?].
Qed.

Lemma run_inv tr : forall l, LInv l -> LInv (run tr l).
Proof. induction tr as [|a tr IH]; intros l H; simpl; [done|]. by apply IH, step_inv. Qed.

Lemma run_snoc tr a l : run (tr ++ [a]) l = step (run tr l) a.
Proof. unfold run. by rewrite fold_left_app. Qed.

Lemma reachable_step l a : reachable l -> reachable (step l a).
Proof.
  intros (s & tick & an & ad & tr & ->). exists s, tick, an, ad, (tr ++ [a]). by rewrite run_snoc.
Qed.

Lemma reachable_run tr l : reachable l -> reachable (run tr l).
Proof. revert l. induction tr as [|a tr IH]; intros l H; simpl; [done|]. by apply IH, reachable_step. Qed.

(* ================= the cited theorems ================= *)

Theorem reachable_inv l : reachable l -> LInv l.
Proof. intros (s & tick & an & ad & tr & ->). apply run_inv, init_inv. Qed.

(* ---- heap (client.go minHeap / heapDown) ---- *)
Theorem heap_root_min (lat : addr -> Z) (h : list addr) : h <> [] ->
  min_heap lat h ≡ₚ h /\
  exists r, min_heap lat h !! 0%nat = Some r /\ forall a, a ∈ h -> lat r <= lat a.
Proof. apply min_heap_root. Qed.

(* ---- C16 ---- *)
Theorem update_dedup addrs a :
  is_Some (update_targets addrs !! a) <-> a ∈ addrs /\ a <> 0%nat.
Proof. apply update_targets_is_Some. Qed.

(* every routing decision is the Director's non-empty answer or a current target *)
Theorem route_current l d now rnd : reachable l ->
  let l' := step l (Route d now rnd) in
  exists r, l_routes l' = l_routes l ++ [r] /\
    match r with
    | RDirector a => a = d /\ d <> 0%nat
    | RTarget a => is_Some (l_targets l !! a) /\ a ∈ l_list l
    | RWait _ => False
    | _ => True
    end.
Proof.
  intros Hr%reachable_inv l'.
  destruct (route_step l d now rnd Hr) as (_ & _ & r & Hrt & Hok). by exists r.
Qed.

Theorem rescheduled_current l w now rnd : reachable l ->
  let l' := step l (Rescheduled w now rnd) in
  exists r, l_routes l' = l_routes l ++ [r] /\
    match r with
    | RTarget a => is_Some (l_targets l !! a) /\ a ∈ l_list l
    | RErrDial => l_list l = []
    | _ => False
    end.
Proof.
  intros Hr%reachable_inv l'.
  destruct (resched_step l w now rnd Hr) as (_ & _ & r & Hrt & Hok). by exists r.
Qed.

Definition is_update (a : action) : bool := match a with Update _ => true | _ => false end.

Local Ltac no_routes :=
  exists []; split; [by rewrite app_nil_r | intros ? Hx; by apply elem_of_nil in Hx].

Lemma step_routes l a : LInv l ->
  exists rs, l_routes (step l a) = l_routes l ++ rs /\
             forall x, RTarget x ∈ rs -> is_Some (l_targets l !! x).
Proof.
  intros H. destruct a.
  - no_routes.
  - simpl. rewrite cp_routes. no_routes.
  - rewrite step_CheckRet, cp_routes.
    destruct (cr_pre_fields l a gen ok order) as (_ & _ & _ & _ & ->). no_routes.
  - destruct (route_step l director now rnd H) as (_ & _ & r & Hrt & Hok).
    exists [r]. split; [done|]. intros x Hx%elem_of_list_singleton. subst r. apply Hok.
  - unfold step. destruct (l_closed l); [no_routes|].
    eexists [_]. split; [reflexivity|]. intros x Hx%elem_of_list_singleton. discriminate.
  - destruct (resched_step l w now rnd H) as (_ & _ & r & Hrt & Hok).
    exists [r]. split; [done|]. intros x Hx%elem_of_list_singleton. subst r. apply Hok.
  - no_routes.
  - unfold step. destruct (l_closed l); no_routes.
  - no_routes.
  - no_routes.
  - unfold step. repeat case_match; no_routes.
Qed.

Lemma step_targets_dom l a : LInv l -> is_update a = false ->
  forall x, is_Some (l_targets (step l a) !! x) -> is_Some (l_targets l !! x).
Proof.
  intros H Hu x. destruct a; try discriminate.
  - simpl. by rewrite cp_targets.
  - rewrite step_CheckRet, cp_targets.
    destruct (cr_pre_fields l a gen ok order) as (-> & _). by rewrite cr_m2_dom.
  - destruct (route_step l director now rnd H) as (_ & -> & _). done.
  - unfold step. by destruct (l_closed l).
  - destruct (resched_step l w now rnd H) as (_ & -> & _). done.
  - done.
  - unfold step. by destruct (l_closed l).
  - done.
  - done.
  - unfold step. destruct (Nat.eqb gen (l_gen l)); [|done].
    destruct (l_targets l !! a) as [t|] eqn:Et; [|done]. simpl.
    by rewrite target_update_dom.
Qed.

(* after Update returns, no newly started call is routed to a removed target *)
Theorem after_update l0 addrs tr : reachable l0 -> forallb (fun a => negb (is_update a)) tr = true ->
  let l1 := step l0 (Update addrs) in
  let l2 := run tr l1 in
  forall i a, (length (l_routes l1) <= i)%nat -> l_routes l2 !! i = Some (RTarget a) -> a ∈ addrs /\ a <> 0%nat.
Proof.
  intros Hr%reachable_inv Htr l1 l2.
  set (AU := fun l : lb => LInv l /\
     (forall x, is_Some (l_targets l !! x) -> is_Some (update_targets addrs !! x)) /\
     exists extra, l_routes l = l_routes l1 ++ extra /\
                   forall x, RTarget x ∈ extra -> is_Some (update_targets addrs !! x)).
  assert (Hrun : forall tr l, forallb (fun a => negb (is_update a)) tr = true -> AU l -> AU (run tr l)).
  { clear. intros tr. induction tr as [|a tr IH]; intros l Htr Hl; simpl; [done|].
    simpl in Htr. apply andb_true_iff in Htr as [Ha Htr]. apply negb_true_iff in Ha.
    apply IH; [done|]. destruct Hl as (HI & Hdom & extra & Hex & Hextra).
    split; [by apply step_inv|]. split.
    - intros x Hx. by apply Hdom, (step_targets_dom l a).
    - destruct (step_routes l a HI) as (rs & Hrs & Hrsd).
      exists (extra ++ rs). split; [by rewrite Hrs, Hex, app_assoc|].
      intros x [Hx|Hx]%elem_of_app; [by apply Hextra|]. by apply Hdom, Hrsd. }
  assert (H1 : AU l1).
  { split; [by apply step_inv|]. split; [done|]. exists []. split; [by rewrite app_nil_r|].
    intros x Hx. by apply elem_of_nil in Hx. }
  destruct (Hrun tr l1 Htr H1) as (_ & _ & extra & Hex & Hextra).
  intros i a Hi Hlk. fold l2 in Hex. rewrite Hex in Hlk.
  rewrite lookup_app_r in Hlk by done.
  apply update_dedup, Hextra. by eapply elem_of_list_lookup_2.
Qed.

(* ---- C17 ---- *)
Lemma ge2_nonempty (l : lb) : (2 <= length (l_list l))%nat -> l_list l <> [].
Proof. intros Hn E. rewrite E in Hn. simpl in Hn. lia. Qed.

Lemma rr_step l now rnd : LInv l -> l_sched l = RoundRobin -> l_closed l = false ->
  l_fallback l = 0 -> (2 <= length (l_list l))%nat ->
  exists x, l_list l !! l_pos l = Some x /\
    step l (Route 0%nat now rnd) =
      push_route (RTarget x)
        (with_sched (l_heap l) ((l_pos l + 1) mod length (l_list l))%nat (l_probe l) l).
Proof.
  intros H Hs Hc Hf Hn. pose proof (ge2_nonempty l Hn) as Hne.
  destruct (lookup_lt_is_Some_2 _ _ (li_pos _ H Hne)) as [x Hx].
  exists x. split; [done|].
  rewrite route0_schedule, schedule_ge2 by done. cbv zeta. by rewrite Hs, Hx.
Qed.

Definition is_route0 (a : action) : Prop := exists now rnd, a = Route 0%nat now rnd.

Lemma rr_steps l tr : LInv l -> l_sched l = RoundRobin -> l_closed l = false -> l_fallback l = 0 ->
  (2 <= length (l_list l))%nat -> Forall is_route0 tr -> (length tr <= length (l_list l))%nat ->
  let l' := run tr l in
  l_routes l' = l_routes l ++ map RTarget (take (length tr) (rotate (l_pos l) (l_list l))) /\
  l_list l' = l_list l /\ l_sched l' = RoundRobin /\ l_closed l' = false /\ l_fallback l' = 0 /\
  l_pos l' = ((l_pos l + length tr) mod length (l_list l))%nat /\ LInv l'.
Proof.
  intros H Hs Hc Hf Hn. pose proof (ge2_nonempty l Hn) as Hne.
  induction tr as [|a tr IH] using rev_ind; intros Hall Hlen.
  - simpl. rewrite app_nil_r. split_and!; try done.
    rewrite Nat.add_0_r, Nat.mod_small; [done|]. by apply li_pos.
  - apply Forall_app in Hall as [Hall Ha]. apply Forall_singleton in Ha as (now & rnd & ->).
    rewrite app_length in *. simpl in Hlen.
    destruct IH as (Hr & Hl & Hs' & Hc' & Hf' & Hp' & HI); [done|lia|].
    cbv zeta. rewrite run_snoc. set (lk := run tr l) in *.
    destruct (rr_step lk now rnd) as (x & Hx & ->); try done; [by rewrite Hl|].
    simpl. rewrite Hl, Hp' in Hx.
    assert (Hrot : rotate (l_pos l) (l_list l) !! length tr = Some x).
    { rewrite rotate_lookup_mod by lia. done. }
    rewrite Nat.add_1_r, (take_S_r _ _ _ Hrot), map_app, Hr, <-app_assoc. simpl.
    split_and!; try done.
    + rewrite Hl, Hp'. rewrite Nat.add_mod_idemp_l by lia. f_equal. lia.
    + apply LInv_push_route, LInv_with_sched; [done|done|]. intros _. rewrite Hl. lia.
Qed.

(* with a stable set of n >= 2 live targets, any n consecutive round-robin picks are n distinct targets *)
Theorem rr_window l (nows : list Z) (rnds : list nat) : reachable l -> l_sched l = RoundRobin ->
  l_closed l = false -> l_fallback l = 0 -> (2 <= length (l_list l))%nat ->
  length nows = length (l_list l) -> length rnds = length (l_list l) ->
  let l' := run (zip_with (fun now rnd => Route 0%nat now rnd) nows rnds) l in
  exists picks, l_routes l' = l_routes l ++ map RTarget picks /\ picks ≡ₚ l_list l /\ l_list l' = l_list l.
Proof.
  intros Hr%reachable_inv Hs Hc Hf Hn Hnows Hrnds l'.
  set (tr := zip_with (fun now rnd => Route 0%nat now rnd) nows rnds) in *.
  assert (Hlen : length tr = length (l_list l)).
  { subst tr. rewrite zip_with_length. lia. }
  assert (Hall : Forall is_route0 tr).
  { subst tr. clear. revert rnds. induction nows as [|n nows IH]; intros [|r rnds]; simpl; constructor.
    - by exists n, r.
    - apply IH. }
  destruct (rr_steps l tr Hr Hs Hc Hf Hn Hall ltac:(lia)) as (Hrt & Hl & _).
  exists (rotate (l_pos l) (l_list l)). split; [|split; [apply rotate_perm|done]].
  fold l' in Hrt. rewrite Hrt, Hlen. rewrite take_ge; [done|]. by rewrite rotate_length.
Qed.

Theorem random_live l now rnd : reachable l -> l_sched l = Random ->
  l_closed l = false -> l_fallback l = 0 -> l_list l <> [] ->
  exists a, l_routes (step l (Route 0%nat now rnd)) = l_routes l ++ [RTarget a] /\ a ∈ l_list l.
Proof.
  intros Hr%reachable_inv _ Hc Hf Hne.
  destruct (schedule_spec now rnd l Hr) as (hp & pos & pr & E2 & Hp & Hpos & H1).
  rewrite route0_schedule by done.
  destruct (schedule now rnd l) as [[ad|] l2]; simpl in E2, H1; subst l2; [|done].
  by exists ad.
Qed.

Lemma lt_min_step l now rnd : l_sched l = LeastTime -> l_closed l = false -> l_fallback l = 0 ->
  (2 <= length (l_list l))%nat -> ~ (l_probe l + l_tick l < now) ->
  step l (Route 0%nat now rnd) =
    let h := min_heap (lat_of (l_targets l)) (l_heap l) in
    match h !! 0%nat with
    | Some ad => push_route (RTarget ad) (with_sched h (l_pos l) (l_probe l) l)
    | None => push_route RErrDial (with_sched h (l_pos l) (l_probe l) l)
    end.
Proof.
  intros Hs Hc Hf Hn Hnp. pose proof (ge2_nonempty l Hn) as Hne.
  rewrite route0_schedule, schedule_ge2 by done. cbv zeta. rewrite Hs.
  destruct (Z.ltb_spec (l_probe l + l_tick l) now); [lia|]. done.
Qed.

(* a non-probe least-time pick has minimal latency estimate among the live targets *)
Theorem leasttime_min l now rnd : reachable l -> l_sched l = LeastTime ->
  l_closed l = false -> l_fallback l = 0 -> (2 <= length (l_list l))%nat ->
  ~ (l_probe l + l_tick l < now) ->
  exists a, l_routes (step l (Route 0%nat now rnd)) = l_routes l ++ [RTarget a] /\ a ∈ l_list l /\
    forall b, b ∈ l_list l -> lat_of (l_targets l) a <= lat_of (l_targets l) b.
Proof.
  intros Hr%reachable_inv Hs Hc Hf Hn Hnp. pose proof (ge2_nonempty l Hn) as Hne.
  destruct (min_heap_root (lat_of (l_targets l)) (l_heap l) (heap_nonempty _ Hr Hne))
    as (Hp & r & Hr0 & Hmin).
  rewrite lt_min_step by done. cbv zeta. rewrite Hr0. exists r. split; [done|]. split.
  - rewrite <-(li_heap_perm _ Hr), <-Hp. by eapply elem_of_list_lookup_2.
  - intros b Hb. apply Hmin. by rewrite (li_heap_perm _ Hr).
Qed.

(* probes: at most one per Tick, in rotation *)
Theorem leasttime_probe l now rnd : reachable l -> l_sched l = LeastTime ->
  l_closed l = false -> l_fallback l = 0 -> (2 <= length (l_list l))%nat ->
  l_probe l + l_tick l < now ->
  let l' := step l (Route 0%nat now rnd) in
  l_probe l' = now /\ l_list l !! l_pos l = Some (default 0%nat (l_list l !! l_pos l)) /\
  l_routes l' = l_routes l ++ [RTarget (default 0%nat (l_list l !! l_pos l))] /\
  l_pos l' = ((l_pos l + 1) mod length (l_list l))%nat /\
  (forall now' rnd', now' <= now + l_tick l -> l_probe (step l' (Route 0%nat now' rnd')) = now).
Proof.
  intros Hr%reachable_inv Hs Hc Hf Hn Hpr l'. pose proof (ge2_nonempty l Hn) as Hne.
  destruct (lookup_lt_is_Some_2 _ _ (li_pos _ Hr Hne)) as [x Hx].
  assert (El' : l' = push_route (RTarget x)
             (with_sched (l_heap l) ((l_pos l + 1) mod length (l_list l))%nat now l)).
  { subst l'. rewrite route0_schedule, schedule_ge2 by done. cbv zeta. rewrite Hs, Hx.
    destruct (Z.ltb_spec (l_probe l + l_tick l) now); [done|lia]. }
  unfold addr in *. rewrite Hx. simpl default.
  assert (Hlast : forall now' rnd', now' <= now + l_tick l ->
                    l_probe (step l' (Route 0%nat now' rnd')) = now).
  { intros now' rnd' Hnow'. rewrite El'.
    rewrite lt_min_step; simpl; try done; [|lia].
    by destruct (min_heap _ _ !! 0%nat). }
  split_and!; [by rewrite El'|done|by rewrite El'|by rewrite El'|exact Hlast].
Qed.

(* the documented exponential moving average; unreachable targets are reset to the maximum *)
Theorem ewma_between an ad old new : 0 < ad -> 0 <= an <= ad -> 0 <= old -> 0 <= new ->
  Z.min old new <= ewma an ad old new <= Z.max old new.
Proof.
  intros Had Han _ _. unfold ewma. split.
  - apply Z.div_le_lower_bound; [done|]. nia.
  - apply Z.div_le_upper_bound; [done|]. nia.
Qed.

Theorem target_update_spec an ad t new errdial :
  let t' := target_update an ad t new errdial in
  (errdial = true -> t' = {| t_alive := false; t_lat := max_latency |}) /\
  (errdial = false -> max_latency <= t_lat t -> t' = {| t_alive := true; t_lat := new |}) /\
  (errdial = false -> t_lat t < max_latency -> t' = {| t_alive := true; t_lat := (t_lat t * an + new * (ad - an)) / ad |}).
Proof.
  cbv zeta. unfold target_update, ewma. split; [by intros ->|]. split; intros ->.
  - intros Hle. destruct (Z.leb_spec max_latency (t_lat t)); [done|lia].
  - intros Hlt. destruct (Z.leb_spec max_latency (t_lat t)); [lia|done].
Qed.

(* ---- C18 ---- *)
Lemma checkret_list_inv l a gen ok order : LInv l ->
  let l' := step l (CheckRet a gen ok order) in
  l_targets l' = cr_m2 l a gen ok /\ l_list l' ≡ₚ alive_keys (cr_m2 l a gen ok).
Proof.
  intros H. cbv zeta. rewrite step_CheckRet, cp_targets, cp_list.
  destruct (cr_pre_fields l a gen ok order) as (-> & _). split; [done|]. by apply cr_pre_list.
Qed.

(* the live list after a check is exactly the live targets *)
Theorem checkret_list l a gen ok order : reachable l ->
  let l' := step l (CheckRet a gen ok order) in
  l_list l' ≡ₚ alive_keys (l_targets l').
Proof.
  intros Hr%reachable_inv l'.
  destruct (checkret_list_inv l a gen ok order Hr) as [Ht Hl]. fold l' in Ht, Hl. by rewrite Ht.
Qed.

(* failover: a target whose call failed with ErrDial is dead and leaves the live list at the next check;
   a target whose ping no longer fails with ErrDial is live again after its check *)
Theorem failover_out l a dur b gen ok order : reachable l -> is_Some (l_targets l !! a) -> b <> a ->
  let l1 := step l (TargetUpdate a (l_gen l) dur true) in
  let l2 := step l1 (CheckRet b gen ok order) in
  a ∉ l_list l2.
Proof.
  intros Hr%reachable_inv [t Ht] Hne l1 l2.
  assert (H1 : LInv l1) by by apply step_inv.
  destruct (checkret_list_inv l1 b gen ok order H1) as [_ Hl]. fold l2 in Hl.
  rewrite Hl, elem_of_alive_keys. intros (t' & Ht' & Hal).
  assert (Hl1 : l_targets l1 !! a = Some {| t_alive := false; t_lat := max_latency |}).
  { subst l1. unfold step. rewrite Nat.eqb_refl, Ht. simpl. by rewrite lookup_insert. }
  unfold cr_m2, cr_m1 in Ht'. rewrite lookup_fmap in Ht'.
  assert (Hm1 : (if Nat.eqb gen (l_gen l1) then
                   match l_targets l1 !! b with
                   | Some t0 => <[b := {| t_alive := ok; t_lat := t_lat t0 |}]> (l_targets l1)
                   | None => l_targets l1
                   end else l_targets l1) !! a = Some {| t_alive := false; t_lat := max_latency |}).
  { repeat case_match; try done. by rewrite lookup_insert_ne. }
  rewrite Hm1 in Ht'. simpl in Ht'. inversion Ht'; subst. done.
Qed.

Theorem failover_in l a order : reachable l -> is_Some (l_targets l !! a) ->
  a ∈ l_list (step l (CheckRet a (l_gen l) true order)).
Proof.
  intros Hr%reachable_inv [t Ht].
  destruct (checkret_list_inv l a (l_gen l) true order Hr) as [_ Hl]. cbv zeta in Hl.
  rewrite Hl, elem_of_alive_keys.
  exists {| t_alive := true; t_lat := t_lat t |}. split; [|done].
  unfold cr_m2, cr_m1. rewrite lookup_fmap, Nat.eqb_refl, Ht, lookup_insert. done.
Qed.

(* waking: when a live target exists and no fallback is pending, a detect round (and every check)
   releases every waiter, including one that registered after an earlier broadcast *)
Theorem detect_releases_all l : reachable l -> l_list l <> [] -> l_fallback l = 0 ->
  let l' := step l Detect in
  l_waiters l' = ∅ /\ forall w, is_Some (l_waiters l !! w) -> (w, Woken) ∈ l_released l'.
Proof. intros _ Hne Hf. by apply cp_releases. Qed.

Theorem checkret_releases_all l a gen ok order : reachable l -> l_fallback l = 0 ->
  let l' := step l (CheckRet a gen ok order) in
  l_list l' <> [] -> l_waiters l' = ∅ /\ forall w, is_Some (l_waiters l !! w) -> (w, Woken) ∈ l_released l'.
Proof.
  intros _ Hf. cbv zeta. rewrite step_CheckRet, cp_list. intros Hne.
  destruct (cr_pre_fields l a gen ok order) as (_ & Hw & _ & Hfb & _).
  destruct (cp_releases (cr_pre l a gen ok order) Hne) as [He Hall]; [by rewrite Hfb|].
  split; [done|]. intros w Hw'. apply Hall. by rewrite Hw.
Qed.

(* a waiter is never stranded: its own timer can always remove it *)
Theorem timeout_removes l w : l_waiters (step l (Timeout w)) !! w = None.
Proof. simpl. apply lookup_delete. Qed.

(* Close releases everybody with ErrShutdown; afterwards nobody can wait *)
Theorem close_releases_all l : reachable l -> l_closed l = false ->
  let l' := step l Close in
  l_closed l' = true /\ l_waiters l' = ∅ /\ (forall w, is_Some (l_waiters l !! w) -> (w, ClosedErr) ∈ l_released l') /\
  step l' Close = l'.
Proof.
  intros _ Hc. cbv zeta.
  assert (E : step l Close = with_closed (with_waiters ∅ (l_wseq l)
                (l_released l ++ map (fun p => (fst p, ClosedErr)) (map_to_list (l_waiters l))) l))
    by (unfold step; by rewrite Hc).
  rewrite E. split_and!; try done. apply release_all_mem.
Qed.

Theorem closed_rejects l d now rnd : reachable l -> l_closed l = true ->
  l_routes (step l (Route d now rnd)) = l_routes l ++ [RErrShutdown] /\
  (let l' := step l WaitReg in l_waiters l' = ∅ /\ (l_wseq l, ClosedErr) ∈ l_released l').
Proof.
  intros Hr%reachable_inv Hc. unfold step. rewrite Hc. simpl. split; [done|].
  split; [by apply (li_closed _ Hr)|]. apply elem_of_app. right. apply elem_of_list_here.
Qed.

(* a waiter is released at most once and is then gone from the table *)
Theorem released_once l : reachable l ->
  NoDup (map fst (l_released l)) /\ forall w r, (w, r) ∈ l_released l -> l_waiters l !! w = None.
Proof. intros Hr%reachable_inv. split; [apply Hr|]. apply Hr. Qed.

(* non-vacuity *)
Example lb_example :
  let l := run [Update [3; 0; 5; 3]%nat; CheckRet 3%nat 1%nat true [5; 3]%nat; CheckRet 5%nat 1%nat true [5; 3]%nat;
                Route 0%nat 1 7%nat; Route 0%nat 2 7%nat; Route 0%nat 3 7%nat; Update [5]%nat; Route 0%nat 4 0%nat; WaitReg;
                CheckRet 5%nat 2%nat true []; Rescheduled 0%nat 5 0%nat]
               (init RoundRobin 100 4 5) in
  l_routes l = [RTarget 5%nat; RTarget 3%nat; RTarget 5%nat; RMustWait; RWait 0%nat; RTarget 5%nat] /\
  l_released l = [(0%nat, Woken)].
Proof. split; vm_compute; reflexivity. Qed.

Print Assumptions reachable_inv.
Print Assumptions heap_root_min.
Print Assumptions update_dedup.
Print Assumptions route_current.
Print Assumptions rescheduled_current.
Print Assumptions after_update.
Print Assumptions rr_window.
Print Assumptions random_live.
Print Assumptions leasttime_min.
Print Assumptions leasttime_probe.
Print Assumptions ewma_between.
Print Assumptions target_update_spec.
Print Assumptions checkret_list.
Print Assumptions failover_out.
Print Assumptions failover_in.
Print Assumptions detect_releases_all.
Print Assumptions checkret_releases_all.
Print Assumptions timeout_removes.
Print Assumptions close_releases_all.
Print Assumptions closed_rejects.
Print Assumptions released_once.
Print Assumptions lb_example.
