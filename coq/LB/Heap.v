(* LB/Heap.v — minHeap / heapDown (client.go): the rebuilt heap is a
   permutation of its input and its root has minimal latency. *)
From stdpp Require Import gmap sorting.
From RPC Require Import Res.
From RPC.LB Require Import Model.

(* ---- swap ---- *)
Lemma insert_head_perm {A} (l : list A) j y a :
  l !! j = Some y -> y :: <[j := a]> l ≡ₚ a :: l.
Proof.
  revert j. induction l as [|b l IH]; intros [|j] Hj; simpl in *; try done.
  - inversion Hj; subst. apply perm_swap.
  - rewrite (perm_swap b y). rewrite (IH _ Hj). apply perm_swap.
Qed.

Lemma swap_perm {A} (l : list A) i j : swap l i j ≡ₚ l.
Proof.
  unfold swap. destruct (l !! i) as [x|] eqn:Hi; [|done].
  destruct (l !! j) as [y|] eqn:Hj; [|done].
  revert i j Hi Hj. induction l as [|b l IH]; intros [|i] [|j] Hi Hj; simpl in *; try done.
  - inversion Hi; inversion Hj; subst. done.
  - inversion Hi; subst. by apply insert_head_perm.
  - inversion Hj; subst. by apply insert_head_perm.
  - f_equiv. by apply IH.
Qed.

Lemma swap_length {A} (l : list A) i j : length (swap l i j) = length l.
Proof. unfold swap. repeat case_match; rewrite ?insert_length; done. Qed.

Section heap.
Context (lat : addr -> Z).

Definition val (h : list addr) (i : nat) : Z :=
  match h !! i with Some x => lat x | None => 0%Z end.

Lemma val_Some h i x : h !! i = Some x -> val h i = lat x.
Proof. unfold val. by intros ->. Qed.

Lemma val_swap h i j k : (i < length h)%nat -> (j < length h)%nat ->
  val (swap h i j) k =
    if decide (k = j) then val h i else if decide (k = i) then val h j else val h k.
Proof.
  intros Hi Hj.
  destruct (lookup_lt_is_Some_2 h i Hi) as [x Hx].
  destruct (lookup_lt_is_Some_2 h j Hj) as [y Hy].
  unfold swap. rewrite Hx, Hy. unfold val.
  destruct (decide (k = j)) as [->|Nj].
  - rewrite list_lookup_insert by (rewrite insert_length; lia). by rewrite Hx.
  - rewrite list_lookup_insert_ne by done.
    destruct (decide (k = i)) as [->|Ni].
    + rewrite list_lookup_insert by lia. by rewrite Hy.
    + by rewrite list_lookup_insert_ne by done.
Qed.

(* ---- one iteration of heapDown ---- *)
Definition less_child (h : list addr) (p n : nat) : nat :=
  match h !! S (2 * p + 1), h !! (2 * p + 1)%nat with
  | Some r, Some l => if Nat.ltb (S (2 * p + 1)) n && (lat r <? lat l)%Z then S (2 * p + 1) else (2 * p + 1)%nat
  | _, _ => (2 * p + 1)%nat
  end.

Lemma heap_down_S f h p n :
  heap_down (S f) lat h p n =
    if Nat.leb n (2 * p + 1) then h else
    match h !! less_child h p n, h !! p with
    | Some c, Some pv =>
        if (lat c <? lat pv)%Z then heap_down f lat (swap h p (less_child h p n)) (less_child h p n) n else h
    | _, _ => h
    end.
Proof. reflexivity. Qed.

Lemma heap_down_perm fuel h p n : heap_down fuel lat h p n ≡ₚ h.
Proof.
  revert h p. induction fuel as [|f IH]; intros h p; [done|].
  rewrite heap_down_S. repeat case_match; try done.
  rewrite IH. apply swap_perm.
Qed.

Lemma heap_down_length fuel h p n : length (heap_down fuel lat h p n) = length h.
Proof. apply Permutation_length, heap_down_perm. Qed.

Lemma heapify_from_perm k h : heapify_from k lat h ≡ₚ h.
Proof.
  revert h. induction k as [|k IH]; intros h; simpl; [done|].
  rewrite IH. apply heap_down_perm.
Qed.

Lemma min_heap_perm h : min_heap lat h ≡ₚ h.
Proof. apply heapify_from_perm. Qed.

Lemma min_heap_length h : length (min_heap lat h) = length h.
Proof. apply Permutation_length, min_heap_perm. Qed.

(* ---- heap order ---- *)
Definition heap_at (h : list addr) (n i : nat) : Prop :=
  forall c, (c = 2 * i + 1 \/ c = 2 * i + 2)%nat -> (c < n)%nat -> (val h i <= val h c)%Z.

Lemma less_child_spec h p n : length h = n -> (2 * p + 1 < n)%nat ->
  let c := less_child h p n in
  (c = 2 * p + 1 \/ c = 2 * p + 2)%nat /\ (c < n)%nat /\
  forall c', (c' = 2 * p + 1 \/ c' = 2 * p + 2)%nat -> (c' < n)%nat -> (val h c <= val h c')%Z.
Proof.
  intros Hn Hl. cbv zeta. unfold less_child.
  destruct (lookup_lt_is_Some_2 h (2 * p + 1)%nat ltac:(lia)) as [lv Hlv].
  rewrite Hlv.
  destruct (h !! S (2 * p + 1)) as [rv|] eqn:Hrv.
  - pose proof (lookup_lt_Some _ _ _ Hrv) as Hr.
    destruct (Nat.ltb_spec (S (2 * p + 1)) n) as [_|]; [|lia]. cbn [andb].
    destruct (Z.ltb_spec (lat rv) (lat lv)) as [Hlt|Hge].
    + split; [lia|]. split; [lia|]. intros c' [->| ->] _.
      * rewrite (val_Some _ _ _ Hrv), (val_Some _ _ _ Hlv). lia.
      * replace (2 * p + 2)%nat with (S (2 * p + 1)) by lia. lia.
    + split; [lia|]. split; [lia|]. intros c' [->| ->] _; [lia|].
      replace (2 * p + 2)%nat with (S (2 * p + 1)) by lia.
      rewrite (val_Some _ _ _ Hrv), (val_Some _ _ _ Hlv). lia.
  - apply lookup_ge_None_1 in Hrv.
    split; [lia|]. split; [lia|]. intros c' [->| ->] ?; lia.
Qed.

Lemma heap_down_spec fuel : forall h p k n,
  length h = n -> (n <= fuel + p)%nat -> (k <= p)%nat ->
  (forall i, (k <= i)%nat -> i <> p -> heap_at h n i) ->
  (forall q c, (k <= q)%nat -> (p = 2 * q + 1 \/ p = 2 * q + 2)%nat ->
               (c = 2 * p + 1 \/ c = 2 * p + 2)%nat -> (c < n)%nat -> (val h q <= val h c)%Z) ->
  forall i, (k <= i)%nat -> heap_at (heap_down fuel lat h p n) n i.
Proof.
  induction fuel as [|f IH]; intros h p k n Hn Hfuel Hk HA HB i Hi.
  - simpl. destruct (decide (i = p)) as [->|Ne]; [|by apply HA].
    intros c Hc Hcn. lia.
  - rewrite heap_down_S.
    destruct (Nat.leb_spec n (2 * p + 1)) as [Hleaf|Hleft].
    { destruct (decide (i = p)) as [->|Ne]; [|by apply HA]. intros c Hc Hcn. lia. }
    destruct (less_child_spec h p n Hn Hleft) as (Hc & Hcn & Hmin).
    set (c := less_child h p n) in *.
    destruct (lookup_lt_is_Some_2 h c ltac:(lia)) as [cv Hcv].
    destruct (lookup_lt_is_Some_2 h p ltac:(lia)) as [pv Hpv].
    rewrite Hcv, Hpv.
    destruct (Z.ltb_spec (lat cv) (lat pv)) as [Hlt|Hge].
    + assert (Hvlt : (val h c < val h p)%Z)
        by (rewrite (val_Some _ _ _ Hcv), (val_Some _ _ _ Hpv); done).
      assert (Hsw : forall x, val (swap h p c) x =
                if decide (x = c) then val h p else if decide (x = p) then val h c else val h x)
        by (intros x; apply val_swap; lia).
      apply (IH (swap h p c) c k n); try done.
      * by rewrite swap_length.
      * lia.
      * lia.
      * (* A' *)
        intros j Hj Hjc d Hd Hdn. rewrite !Hsw.
        destruct (decide (j = c)) as [|_]; [done|].
        destruct (decide (j = p)) as [->|Njp].
        -- destruct (decide (d = c)) as [|Ndc]; [lia|].
           destruct (decide (d = p)) as [|_]; [lia|].
           apply Hmin; done.
        -- destruct (decide (d = c)) as [->|Ndc]; [lia|].
           destruct (decide (d = p)) as [->|Ndp].
           ++ apply (HB j c); try done; lia.
           ++ apply (HA j Hj Njp d Hd Hdn).
      * (* B' *)
        intros q d Hq Hcq Hd Hdn. rewrite !Hsw.
        assert (q = p) as -> by lia.
        destruct (decide (p = c)) as [|_]; [lia|].
        destruct (decide (p = p)) as [_|]; [|done].
        destruct (decide (d = c)) as [|_]; [lia|].
        destruct (decide (d = p)) as [|_]; [lia|].
        apply (HA c); try done; lia.
    + destruct (decide (i = p)) as [->|Ne]; [|by apply HA].
      intros d Hd Hdn.
      assert ((val h c <= val h d)%Z) by (apply Hmin; done).
      rewrite (val_Some _ _ _ Hcv), (val_Some _ _ _ Hpv) in *. lia.
Qed.

Lemma heapify_from_spec k : forall h n, length h = n ->
  (forall i, (k <= i)%nat -> heap_at h n i) ->
  forall i, heap_at (heapify_from k lat h) n i.
Proof.
  induction k as [|k IH]; intros h n Hn Hh i; simpl.
  - apply Hh; lia.
  - rewrite Hn. apply IH.
    + by rewrite heap_down_length.
    + apply heap_down_spec; try done; try lia.
      intros j Hj Hne. apply Hh; lia.
Qed.

Lemma heap_root_le h n : (forall i, heap_at h n i) ->
  forall i, (i < n)%nat -> (val h 0 <= val h i)%Z.
Proof.
  intros Hh i. induction i as [i IH] using lt_wf_ind. intros Hi.
  destruct i as [|i]; [lia|].
  set (q := (i / 2)%nat).
  assert (S i = 2 * q + 1 \/ S i = 2 * q + 2)%nat as Hc by (subst q; lia).
  assert ((val h 0 <= val h q)%Z) by (apply IH; subst q; lia).
  assert ((val h q <= val h (S i))%Z) by (apply (Hh q); done).
  lia.
Qed.

Lemma min_heap_heap h i : heap_at (min_heap lat h) (length h) i.
Proof.
  unfold min_heap. apply heapify_from_spec; [done|].
  intros j Hj c Hc Hcn. lia.
Qed.

Theorem min_heap_root h : h <> [] ->
  min_heap lat h ≡ₚ h /\
  exists r, min_heap lat h !! 0%nat = Some r /\ forall a, a ∈ h -> (lat r <= lat a)%Z.
Proof.
  intros Hne. split; [apply min_heap_perm|].
  assert (0 < length h)%nat as Hlen by (destruct h; simpl; [done|lia]).
  destruct (lookup_lt_is_Some_2 (min_heap lat h) 0%nat) as [r Hr].
  { rewrite min_heap_length. done. }
  exists r. split; [done|]. intros a Ha.
  rewrite <-(min_heap_perm h) in Ha.
  apply elem_of_list_lookup in Ha as [i Hi].
  pose proof (lookup_lt_Some _ _ _ Hi) as Hil. rewrite min_heap_length in Hil.
  pose proof (heap_root_le _ _ (min_heap_heap h) i Hil) as Hle.
  by rewrite (val_Some _ _ _ Hr), (val_Some _ _ _ Hi) in Hle.
Qed.
End heap.
