(* LB/ListLemmas.v — facts about the pure helpers of LB/Model.v:
   dedup_nat, arrange, alive_keys, sort_addrs, update_targets, rotate. *)
From stdpp Require Import gmap sorting.
From RPC Require Import Res.
From RPC.LB Require Import Model.

(* Model.v uses Coq's [map] and [filter] (Res re-exports Coq.Lists.List). *)
Lemma map_fmap {A B} (f : A -> B) (l : list A) : map f l = f <$> l.
Proof. induction l as [|a l IH]; [done|]. csimpl. by rewrite IH. Qed.

Lemma elem_of_filter {A} (f : A -> bool) (l : list A) x :
  x ∈ filter f l <-> f x = true /\ x ∈ l.
Proof. rewrite !elem_of_list_In, filter_In. tauto. Qed.

Lemma NoDup_filter' {A} (f : A -> bool) (l : list A) : base.NoDup l -> base.NoDup (filter f l).
Proof.
  induction 1 as [|x l Hx Hl IH]; simpl; [constructor|].
  destruct (f x); [|done]. apply NoDup_cons_2; [|done].
  rewrite elem_of_filter. tauto.
Qed.

Lemma NoDup_fmap_filter {A B} (g : A -> B) (f : A -> bool) (l : list A) :
  base.NoDup (g <$> l) -> base.NoDup (g <$> filter f l).
Proof.
  induction l as [|x l IH]; simpl; [done|].
  csimpl. rewrite list.NoDup_cons. intros [Hx Hl]. destruct (f x); csimpl; [|by apply IH].
  apply NoDup_cons_2; [|by apply IH].
  intros Hin. apply Hx. apply elem_of_list_fmap in Hin as (y & -> & Hy).
  apply elem_of_filter in Hy as [_ Hy]. apply elem_of_list_fmap. eauto.
Qed.

(* ---- dedup_nat ---- *)
Lemma elem_of_dedup_nat x l : x ∈ dedup_nat l <-> x ∈ l.
Proof.
  induction l as [|a l IH]; simpl; [done|].
  fold (dedup_nat l). case_bool_decide as Ha.
  - rewrite IH, elem_of_cons. split; [tauto|]. intros [->|]; [|done]. by apply IH.
  - rewrite !elem_of_cons, IH. done.
Qed.

Lemma NoDup_dedup_nat l : base.NoDup (dedup_nat l).
Proof.
  induction l as [|a l IH]; simpl; [constructor|].
  fold (dedup_nat l). case_bool_decide as Ha; [done|]. by apply NoDup_cons_2.
Qed.

(* ---- arrange ---- *)
Lemma elem_of_arrange order keys x : x ∈ arrange order keys <-> x ∈ keys.
Proof.
  unfold arrange. rewrite elem_of_app, !elem_of_filter, elem_of_dedup_nat.
  rewrite negb_true_iff, bool_decide_eq_true, bool_decide_eq_false.
  destruct (decide (x ∈ order)); tauto.
Qed.

Lemma NoDup_arrange order keys : base.NoDup keys -> base.NoDup (arrange order keys).
Proof.
  intros Hk. unfold arrange. apply list.NoDup_app. split; [|split].
  - apply NoDup_filter', NoDup_dedup_nat.
  - intros x. rewrite !elem_of_filter, elem_of_dedup_nat.
    rewrite negb_true_iff, bool_decide_eq_false. tauto.
  - by apply NoDup_filter'.
Qed.

Lemma arrange_perm order keys : base.NoDup keys -> arrange order keys ≡ₚ keys.
Proof.
  intros Hk. apply list.NoDup_Permutation; [by apply NoDup_arrange|done|].
  apply elem_of_arrange.
Qed.

(* ---- alive_keys ---- *)
Lemma elem_of_alive_keys (m : gmap addr target) a :
  a ∈ alive_keys m <-> exists t, m !! a = Some t /\ t_alive t = true.
Proof.
  unfold alive_keys. rewrite map_fmap, elem_of_list_fmap. split.
  - intros ([a' t] & -> & Hin). apply elem_of_filter in Hin as [Hal Hin].
    apply elem_of_map_to_list in Hin. simpl in *. eauto.
  - intros (t & Hm & Hal). exists (a, t). split; [done|].
    apply elem_of_filter. split; [done|]. by apply elem_of_map_to_list.
Qed.

Lemma NoDup_alive_keys (m : gmap addr target) : base.NoDup (alive_keys m).
Proof.
  unfold alive_keys. rewrite map_fmap. apply NoDup_fmap_filter, NoDup_fst_map_to_list.
Qed.

(* ---- sort_addrs ---- *)
Lemma sort_addrs_perm l : sort_addrs l ≡ₚ l.
Proof. apply merge_sort_Permutation. Qed.

Lemma sort_addrs_eq_iff l1 l2 : sort_addrs l1 = sort_addrs l2 <-> l1 ≡ₚ l2.
Proof.
  split.
  - intros Heq. rewrite <-(sort_addrs_perm l1), Heq. apply sort_addrs_perm.
  - intros Hp. apply (StronglySorted_unique Nat.le).
    + apply (StronglySorted_merge_sort Nat.le).
    + apply (StronglySorted_merge_sort Nat.le).
    + unfold sort_addrs in *. by rewrite !merge_sort_Permutation.
Qed.

Lemma sort_addrs_nil_inv l : sort_addrs l = [] -> l = [].
Proof.
  intros Heq. apply Permutation_nil_r. rewrite <-Heq. symmetry. apply sort_addrs_perm.
Qed.

(* ---- update_targets ---- *)
Lemma update_targets_is_Some addrs a :
  is_Some (update_targets addrs !! a) <-> a ∈ addrs /\ a <> 0%nat.
Proof.
  unfold update_targets.
  rewrite <-not_eq_None_Some, <-not_elem_of_list_to_map.
  match goal with |- context [map ?f ?l] => change (map f l) with (f <$> l) end.
  rewrite <-list_fmap_compose.
  split.
  - intros Hin. apply dec_stable in Hin.
    apply elem_of_list_fmap in Hin as (y & -> & Hy). simpl.
    apply elem_of_filter in Hy as [Hy ?]. split; [done|].
    apply negb_true_iff, Nat.eqb_neq in Hy. done.
  - intros [Hin Hne] Hnot. apply Hnot. apply elem_of_list_fmap. exists a. split; [done|].
    apply elem_of_filter. split; [|done]. by apply negb_true_iff, Nat.eqb_neq.
Qed.

(* ---- rotate ---- *)
Lemma rotate_perm {A} n (l : list A) : rotate n l ≡ₚ l.
Proof.
  unfold rotate. rewrite Permutation_app_comm. by rewrite take_drop.
Qed.

Lemma rotate_lookup_mod {A} (l : list A) p k :
  (k < length l)%nat -> rotate p l !! k = l !! ((p + k) mod length l)%nat.
Proof.
  intros Hk. rewrite lookup_rotate_r by done. f_equal.
  unfold rotate_nat_add. lia.
Qed.
