(* RunOpt.v — the components DialWithOptions and ListenWithOptions chose for an Options value, as
   observed through marker constructors, against the model's two transcriptions. *)
From Coq Require Import List Arith Bool ZArith.
From RPC.Opt Require Import Resolve.
Import ListNotations.

Definition reg : registry :=
  {| r_socket := fun n => Nat.eqb n 1; r_codec := fun n => Nat.eqb n 2; r_header := fun n => Nat.eqb n 3 |}.

Definition comp_eqb (a b : comp) : bool :=
  match a, b with
  | Named x, Named y | Func x, Func y => Nat.eqb x y
  | _, _ => false
  end.
Definition ocomp_eqb (a b : option comp) : bool :=
  match a, b with
  | Some x, Some y => comp_eqb x y
  | None, None => true
  | _, _ => false
  end.

(* what the real codec constructors were given is what the resolution produced, before the
   body-codec defaulting (the harness observes constructor calls) *)
Definition outcome_eqb (a b : outcome) : bool :=
  match a, b with
  | Rejected, Rejected => true
  | Resolved s1 b1 h1 _, Resolved s2 b2 h2 _ => ocomp_eqb s1 s2 && ocomp_eqb b1 b2 && ocomp_eqb h1 h2
  | _, _ => false
  end.

Inductive ocase := ORes (o : options) (dial listen : outcome).

Definition check (c : ocase) : bool :=
  match c with
  | ORes o d l => outcome_eqb (resolve_dial reg o) d && outcome_eqb (resolve_listen reg o) l
  end.

Fixpoint mismatches_from (i : nat) (l : list ocase) : list nat :=
  match l with
  | [] => []
  | c :: r => if check c then mismatches_from (S i) r else i :: mismatches_from (S i) r
  end.
Definition mismatches (l : list ocase) : list nat := mismatches_from 0 l.
