(* RunStream.v — function-level tie for the stream routing logic: the frames
   each reader actually received (in wire order) are replayed through the
   model's decode/deliver steps; the per-stream event sequences the model
   produces must be what the real Stream.ReadMessage calls returned. *)
From Coq Require Import List Arith Bool.
From RPC.Stream Require Import Model.
Import ListNotations.
Open Scope nat_scope.

Definition try (v : variant) (a : action) (x : st) : st :=
  match step v x a with Some x' => x' | None => x end.

(* decode every queued frame, delivering after each *)
Fixpoint drain_client (n : nat) (x : st) : st :=
  match n with
  | O => x
  | S k => drain_client k (try current CDeliver (try current CDecode x))
  end.
Fixpoint drain_server (n : nat) (x : st) : st :=
  match n with
  | O => x
  | S k => drain_server k (try current SDeliver (try current SDecode x))
  end.

Definition open_all (ss : list sid) : st := fold_left (fun x s => try current (COpen s) x) ss init.

Definition client_events (x : st) (s : sid) : list nat :=
  match lookup s (cstreams x) with Some c => c_events c | None => [] end.
Definition client_lost (x : st) (s : sid) : list nat :=
  match lookup s (cstreams x) with Some c => c_lost c | None => [] end.
(* the sticky error of an error frame ([PErr s] in an S2C frame list) has been attached to the stream *)
Definition client_err (x : st) (s : sid) : bool :=
  match lookup s (cstreams x) with Some c => c_err c | None => false end.
Definition server_events (x : st) (s : sid) : list nat :=
  match lookup s (sstreams x) with
  | Some c => s_events c
  | None => match lookup s (sgone x) with Some c => s_events c | None => [] end
  end.

Fixpoint prefix_eqb (a b : list nat) : bool :=   (* a is a prefix of b *)
  match a, b with
  | [], _ => true
  | x :: a', y :: b' => Nat.eqb x y && prefix_eqb a' b'
  | _, _ => false
  end.
Fixpoint list_eqb (a b : list nat) : bool :=
  match a, b with
  | [], [] => true
  | x :: a', y :: b' => Nat.eqb x y && list_eqb a' b'
  | _, _ => false
  end.

Inductive scase :=
(* frames the client's reader received; per stream: what ReadMessage returned, and whether the reader
   consumed everything (then equality is required, otherwise a prefix).  An error frame is written [PErr s]: the
   drain decodes it like any other frame; it yields no message *)
| S2C (streams : list sid) (frames : list s2c_frame) (reads : list (sid * (list nat * bool)))
| C2S (frames : list c2s_frame) (reads : list (sid * (list nat * bool))).

Definition check (c : scase) : bool :=
  match c with
  | S2C ss frames reads =>
      let x0 := open_all ss in
      let x1 := drain_client (S (length frames))
                  {| cstreams := cstreams x0; sstreams := sstreams x0; sgone := sgone x0; w_c2s := w_c2s x0; w_s2c := w_s2c x0;
                     sdecq := sdecq x0; sstrq := sstrq x0; cdecq := frames; cstrq := []; unary_done := []; lost := false; torn := false |} in
      forallb (fun r : sid * (list nat * bool) =>
                 let s := fst r in let got := fst (snd r) in let all := snd (snd r) in
                 (if all then list_eqb got (client_events x1 s) else prefix_eqb got (client_events x1 s)) &&
                 match client_lost x1 s with [] => true | _ => false end) reads
  | C2S frames reads =>
      let x1 := drain_server (S (length frames))
                  {| cstreams := []; sstreams := []; sgone := []; w_c2s := []; w_s2c := []; sdecq := frames; sstrq := [];
                     cdecq := []; cstrq := []; unary_done := []; lost := false; torn := false |} in
      forallb (fun r : sid * (list nat * bool) =>
                 let s := fst r in let got := fst (snd r) in let all := snd (snd r) in
                 if all then list_eqb got (server_events x1 s) else prefix_eqb got (server_events x1 s)) reads
  end.

Fixpoint mismatches_from (i : nat) (l : list scase) : list nat :=
  match l with
  | [] => []
  | c :: r => if check c then mismatches_from (S i) r else i :: mismatches_from (S i) r
  end.
Definition mismatches (l : list scase) : list nat := mismatches_from 0 l.

(* an error frame between two messages: both messages are delivered, in order, and nothing is delivered for the frame *)
Example check_error_frame :
  check (S2C [1; 2] [PAck 1; PAck 2; PMsg 1 5; PErr 1; PMsg 2 9; PMsg 1 6; PErr 3] [(1, ([5; 6], true)); (2, ([9], true))]) = true.
Proof. vm_compute. reflexivity. Qed.
