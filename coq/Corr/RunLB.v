(* RunLB.v — snapshot-step correspondence for the load-balancing Client, and
   function-level differential for target.Update (EWMA) and minHeap. *)
From RPC Require Import Hex.
From stdpp Require Import gmap sorting.
From RPC Require Import Res.
From RPC.LB Require Import Model.
Open Scope Z_scope.

Record lsnap := {
  ls_targets : list (nat * (bool * Z));   (* address -> alive, latency *)
  ls_list : list nat; ls_heap : list nat; ls_last : list nat;
  ls_pos : nat; ls_probe_age : Z;
  ls_waiters : nat; ls_closed : bool; ls_fallback : Z
}.

Inductive lop :=
| LUpdate (addrs : list nat)
| LCheckRet (a : nat) (current : bool) (ok : bool) (order : list nat)   (* current = the check holds a target of the current generation *)
| LRoute (director : nat) (probe : bool) (rnd : nat)   (* probe: the clock is past lastTime + Tick *)
| LWaitReg
| LRescheduled (rnd : nat)
| LRescheduledProbe (rnd : nat)   (* a woken waiter reschedules with the clock past lastTime + Tick *)
| LTimeout
| LDetect
| LClose
| LFallbackOn | LFallbackOff
| LCallDone (a : nat) (errdial : bool).   (* the routed call returned: target.Update on a current target *)

(* what the instrumented RoundTripper / the caller saw for the routing operations, in order *)
Inductive lres := SawAddr (a : nat) | SawShutdown | SawErrDial | SawNothing.

Definition of_snap (sc : sched) (s : lsnap) : lb := {|
  l_gen := 1;
  l_targets := list_to_map (map (fun p => (fst p, {| t_alive := fst (snd p); t_lat := snd (snd p) |})) (ls_targets s));
  l_list := ls_list s; l_heap := ls_heap s; l_last := ls_last s; l_pos := ls_pos s;
  l_probe := - ls_probe_age s;
  l_waiters := list_to_map (map (fun i => (i, tt)) (seq 0 (ls_waiters s)));
  l_wseq := ls_waiters s;
  l_closed := ls_closed s; l_fallback := ls_fallback s; l_sched := sc;
  l_tick := 1000; l_alpha_num := Generated.c_clientAlpha_num; l_alpha_den := Generated.c_clientAlpha_den;
  l_released := []; l_routes := [] |}.

Definition first_waiter (l : lb) : nat :=
  match map_to_list (l_waiters l) with (w, _) :: _ => w | [] => 0%nat end.

Definition apply (op : lop) (l : lb) : lb :=
  match op with
  | LUpdate addrs => step l (Update addrs)
  | LCheckRet a cur ok order => step l (CheckRet a (if cur then l_gen l else 0%nat) ok order)
  | LRoute d probe rnd => step l (Route d (if probe then 0 else l_probe l) rnd)
  | LWaitReg => step l WaitReg
  | LRescheduled rnd => step l (Rescheduled 0%nat (l_probe l) rnd)
  | LRescheduledProbe rnd => step l (Rescheduled 0%nat 0 rnd)
  | LTimeout => step l (Timeout (first_waiter l))
  | LDetect => step l Detect
  | LClose => step l Close
  | LFallbackOn => step l FallbackOn
  | LFallbackOff => step l FallbackOff
  | LCallDone a errdial => step l (TargetUpdate a (l_gen l) 0 errdial)
  end.

Definition res_of (r : route_res) : lres :=
  match r with
  | RDirector a | RTarget a => SawAddr a
  | RErrShutdown => SawShutdown
  | RErrDial => SawErrDial
  | RMustWait | RWait _ => SawNothing
  end.

Definition lres_eqb (a b : lres) : bool :=
  match a, b with
  | SawAddr x, SawAddr y => Nat.eqb x y
  | SawShutdown, SawShutdown | SawErrDial, SawErrDial | SawNothing, SawNothing => true
  | _, _ => false
  end.

Definition key_le (x y : nat * (bool * Z)) : Prop := (fst x <= fst y)%nat.
Global Instance key_le_dec x y : Decision (key_le x y).
Proof. unfold key_le. apply _. Defined.

(* latencies of the targets in [skip] are not compared (they depend on measured durations) *)
Definition targets_match (l : lb) (s : lsnap) (skip : list nat) : bool :=
  Nat.eqb (size (l_targets l)) (length (ls_targets s)) &&
  forallb (fun p => match l_targets l !! fst p with
                    | Some t => Bool.eqb (t_alive t) (fst (snd p)) &&
                                (bool_decide (fst p ∈ skip) || (t_lat t =? snd (snd p)))
                    | None => false
                    end) (ls_targets s).

Definition snap_matches (l : lb) (s : lsnap) (skip : list nat) : bool :=
  targets_match l s skip &&
  bool_decide (l_list l = ls_list s) &&
  bool_decide (merge_sort Nat.le (l_heap l) = merge_sort Nat.le (ls_heap s)) &&
  bool_decide (l_last l = ls_last s) &&
  (* the cursor only matters while there is a list to index *)
  (match l_list l with [] => true | _ => Nat.eqb (l_pos l) (ls_pos s) end) &&
  Nat.eqb (size (l_waiters l)) (ls_waiters s) &&
  Bool.eqb (l_closed l) (ls_closed s) &&
  (l_fallback l =? ls_fallback s).

Record lcase := {
  lc_sched : sched; lc_before : lsnap; lc_ops : list lop; lc_after : lsnap;
  lc_saw : list lres;          (* routing results seen, in order ([] = do not compare) *)
  lc_saw_unordered : bool;     (* compare as multisets (woken waiters reschedule in any order) *)
  lc_skip_lat : list nat
}.

Definition lres_key (r : lres) : nat :=
  match r with SawAddr a => (4 + a)%nat | SawShutdown => 1%nat | SawErrDial => 2%nat | SawNothing => 3%nat end.

Definition check_case (c : lcase) : bool :=
  let l' := fold_left (fun l op => apply op l) (lc_ops c) (of_snap (lc_sched c) (lc_before c)) in
  snap_matches l' (lc_after c) (lc_skip_lat c) &&
  (let got := filter (fun r => negb (lres_eqb r SawNothing)) (map res_of (l_routes l')) in
   match lc_saw c with
   | [] => true
   | saw => if lc_saw_unordered c
            then bool_decide (merge_sort Nat.le (map lres_key got) = merge_sort Nat.le (map lres_key saw))
            else bool_decide (map lres_key got = map lres_key saw)
   end).

(* ---- function-level cases ---- *)
Inductive fcase :=
(* target.Update(alpha = num/den, new, err) on latency old: resulting latency (float64 in Go: tolerance 2) and liveness *)
| FEwma (old new : Z) (errdial : bool) (lat' : Z) (alive' : bool)
(* minHeap on these latencies: the permutation of indices it produced *)
| FHeap (lats : list Z) (perm : list nat).

Definition check_f (c : fcase) : bool :=
  match c with
  | FEwma old new errdial lat' alive' =>
      let t' := target_update Generated.c_clientAlpha_num Generated.c_clientAlpha_den {| t_alive := true; t_lat := old |} new errdial in
      Bool.eqb (t_alive t') alive' && (Z.abs (t_lat t' - lat') <=? 2 + Z.abs old / 2^50 + Z.abs new / 2^50)
  | FHeap lats perm =>
      let lat := fun a => nth a lats 0 in
      bool_decide (min_heap lat (seq 0 (length lats)) = perm)
  end.

Inductive anycase := LStep (c : lcase) | LFun (c : fcase).

Fixpoint mismatches_from (i : nat) (l : list anycase) : list nat :=
  match l with
  | [] => []
  | c :: r =>
      let ok := match c with LStep c => check_case c | LFun c => check_f c end in
      if ok then mismatches_from (S i) r else i :: mismatches_from (S i) r
  end.
Definition mismatches (l : list anycase) : list nat := mismatches_from 0 l.
