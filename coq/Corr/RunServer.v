(* RunServer.v — runs the per-connection server machine on the action lists
   the harness performed on the real Server.ServeCodec and compares the
   observables after every action. *)
From Coq Require Import List Arith Bool String.
From RPC Require Import Res.
From RPC.Server Require Import Model.
Import ListNotations.
Open Scope nat_scope.

Inductive hact :=
| HArrive (r : req)
| HDecode
| HEnd (id : nat)          (* release the handler of this request *)
| HReadFail.

Record obs := {
  o_starts : list nat;             (* handler entries, in order *)
  o_ends : list nat;               (* handler returns, in order *)
  o_resps : list (nat * rresp);    (* response frames written, in order *)
  o_dgate : bool;                  (* a frame is held at the header-decode gate *)
  o_reader_exited : bool           (* ServeCodec has returned *)
}.

Definition try_step (t : list tstep) (cf : cfg) (a : action) (s : sst) : sst * bool :=
  match step t cf s a with Some s' => (s', true) | None => (s, false) end.

Definition gated (r : req) : bool := match r_kind r with KCall _ => true | _ => false end.

(* eager internal steps: handlers start as soon as they are dispatched (one at a time with
   pipelining); requests answered without a handler run to completion; the teardown tail runs as
   far as it can *)
Definition settle_once (t : list tstep) (cf : cfg) (s : sst) : sst * bool :=
  let '(s1, b1) := try_step t cf (SStart 0) s in
  let '(s2, b2) :=
    match filter (fun r => negb (gated r)) (s_running s1) with
    | r :: _ => try_step t cf (SEnd (r_id r)) s1
    | [] => (s1, false)
    end in
  let '(s3, b3) := try_step t cf STail s2 in
  (s3, b1 || b2 || b3).

Fixpoint settle (fuel : nat) (t : list tstep) (cf : cfg) (s : sst) : sst :=
  match fuel with
  | O => s
  | S f => let '(s', b) := settle_once t cf s in if b then settle f t cf s' else s'
  end.

Definition to_action (h : hact) : action :=
  match h with
  | HArrive r => SArrive r
  | HDecode => SDecode
  | HEnd id => SEnd id
  | HReadFail => SReadFail
  end.

Definition hstep (t : list tstep) (cf : cfg) (s : sst) (h : hact) : option sst :=
  match step t cf s (to_action h) with
  | Some s' => Some (settle 200 t cf s')
  | None => None
  end.

Definition rresp_eqb (a b : rresp) : bool :=
  match a, b with RAck, RAck | RReply, RReply | RError, RError => true | _, _ => false end.

Fixpoint list_eqb {A} (eqb : A -> A -> bool) (a b : list A) : bool :=
  match a, b with
  | [], [] => true
  | x :: a', y :: b' => eqb x y && list_eqb eqb a' b'
  | _, _ => false
  end.

Definition resp_pairs (l : list ev) : list (nat * rresp) :=
  flat_map (fun e => match e with EResp i k => [(i, k)] | _ => [] end) l.

Definition obs_matches (cf : cfg) (s : sst) (o : obs) : bool :=
  list_eqb Nat.eqb (starts (s_log s)) (o_starts o) &&
  list_eqb Nat.eqb (ends (s_log s)) (o_ends o) &&
  list_eqb (fun a b => Nat.eqb (fst a) (fst b) && rresp_eqb (snd a) (snd b)) (resp_pairs (s_log s)) (o_resps o) &&
  Bool.eqb (negb (match s_decq s with [] => true | _ => false end)) (o_dgate o) &&
  Bool.eqb (negb (s_rd_alive s) && (match s_tail s with [] => true | _ => false end)) (o_reader_exited o) &&
  negb (s_fault s).

Record scase := { sc_cfg : cfg; sc_steps : list (hact * obs) }.

Fixpoint replay (t : list tstep) (cf : cfg) (i : nat) (s : sst) (l : list (hact * obs)) : option nat :=
  match l with
  | [] => None
  | (h, o) :: r =>
      match hstep t cf s h with
      | None => Some (1000 + i)
      | Some s' => if obs_matches cf s' o then replay t cf (S i) s' r else Some i
      end
  end.

Definition check_case (c : scase) : option nat := replay servecodec_tail (sc_cfg c) 0 init (sc_steps c).

Fixpoint mismatches_from (i : nat) (l : list scase) : list nat :=
  match l with
  | [] => []
  | c :: r => match check_case c with None => mismatches_from (S i) r | Some _ => i :: mismatches_from (S i) r end
  end.
Definition mismatches (l : list scase) : list nat := mismatches_from 0 l.
Definition divergences (l : list scase) : list (option nat) := map check_case l.
