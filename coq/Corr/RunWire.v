(* RunWire.v — executable comparison of the wire model with observations of
   the Go implementation (function-level differential, C07/C08). *)
From RPC Require Export Hex Varint PB Code Upgrade Frame.
Open Scope N_scope.

Inductive encoder := EPb | ECode.

Inductive wcase :=
(* header value, scratch capacity, fill byte, bytes the implementation produced *)
| EncReq (e : encoder) (seq : N) (u m a : bspec) (cap fill : N) (out : bspec)
| EncResp (e : encoder) (seq : N) (er rp : bspec) (cap fill : N) (out : bspec)
(* input bytes, outcome class of the implementation, fields it decoded *)
| DecReq (e : encoder) (input : bspec) (c : oclass) (seq : N) (u m a : bspec)
| DecResp (e : encoder) (input : bspec) (c : oclass) (seq : N) (er rp : bspec)
| UpgEnc (a b c d : N) (out : N)
| UpgDec (input : bspec) (c : oclass) (a b c' d : N)
| UpgZero (a b c d : N) (z : bool)
(* framing: chunks fed to ReadMessage, frames it returned *)
| FrameDec (chunks : list bspec) (frames : list bspec)
| FrameEnc (payload : bspec) (out : bspec).

Definition res_bytes_eqb (r : res bytes) (expect : bytes) : bool :=
  match r with Ok b => beqb b expect | _ => false end.

Definition check (w : wcase) : bool :=
  match w with
  | EncReq e seq u m a cap fill out =>
      let r := {| q_seq := seq; q_upgrade := bs u; q_method := bs m; q_args := bs a |} in
      let buf := repeat fill (N.to_nat cap) in
      match e with
      | EPb => (* GOGOPBCodec.Marshal / checkBuffer+MarshalTo: use buf if cap>=Size else a fresh one *)
          let buf' := if pb_req_size r <=? len buf then buf else repeat 0 (N.to_nat (pb_req_size r)) in
          res_bytes_eqb (pb_req_marshal_to buf' r) (bs out)
      | ECode => res_bytes_eqb (code_req_marshal buf r) (bs out)
      end
  | EncResp e seq er rp cap fill out =>
      let r := {| p_seq := seq; p_error := bs er; p_reply := bs rp |} in
      let buf := repeat fill (N.to_nat cap) in
      match e with
      | EPb =>
          let buf' := if pb_resp_size r <=? len buf then buf else repeat 0 (N.to_nat (pb_resp_size r)) in
          res_bytes_eqb (pb_resp_marshal_to buf' r) (bs out)
      | ECode => res_bytes_eqb (code_resp_marshal buf r) (bs out)
      end
  | DecReq e input c seq u m a =>
      let r := match e with EPb => pb_req_dec true (bs input) | ECode => code_req_dec true (bs input) end in
      oclass_eqb (class_of r) c &&
      match r with
      | Ok x => (q_seq x =? seq) && beqb (q_upgrade x) (bs u) && beqb (q_method x) (bs m) && beqb (q_args x) (bs a)
      | _ => true
      end
  | DecResp e input c seq er rp =>
      let r := match e with EPb => pb_resp_dec true (bs input) | ECode => code_resp_dec true (bs input) end in
      oclass_eqb (class_of r) c &&
      match r with
      | Ok x => (p_seq x =? seq) && beqb (p_error x) (bs er) && beqb (p_reply x) (bs rp)
      | _ => true
      end
  | UpgEnc a b c d out =>
      beqb (upgrade_enc {| NoRequest := a; NoResponse := b; Heartbeat := c; Stream := d |}) [out]
  | UpgDec input c a b c' d =>
      let r := upgrade_dec (bs input) in
      oclass_eqb (class_of r) c &&
      match r with
      | Ok x => upgrade_eqb x {| NoRequest := a; NoResponse := b; Heartbeat := c'; Stream := d |}
      | _ => true
      end
  | UpgZero a b c d z =>
      Bool.eqb (is_zero {| NoRequest := a; NoResponse := b; Heartbeat := c; Stream := d |}) z
  | FrameDec chunks frames =>
      match feed_all (map bs chunks) with
      | Ok (fs, _) => (Nat.eqb (length fs) (length frames)) && forallb (fun p => beqb (fst p) (bs (snd p))) (combine fs frames)
      | _ => false
      end
  | FrameEnc payload out => beqb (frame_enc (bs payload)) (bs out)
  end.

Fixpoint mismatches_from (i : nat) (l : list wcase) : list nat :=
  match l with
  | [] => []
  | w :: r => if check w then mismatches_from (S i) r else i :: mismatches_from (S i) r
  end.
Definition mismatches (l : list wcase) : list nat := mismatches_from 0 l.
