(* RunPool.v — snapshot-step correspondence for the Transport pool: for
   every public operation the harness performed, the abstract state read
   from the real Transport before the operation, run through the model's
   step(s), must equal the abstract state read after it (one-step
   refinement from every state the run visits). *)
From RPC Require Import Hex.
From stdpp Require Import gmap sorting.
From RPC Require Import Res.
From RPC.Pool Require Import Model.
Open Scope Z_scope.

(* one pooled connection as the hook snapshot shows it *)
Record sconn := { sc_id : nat; sc_addr : nat; sc_alive : bool; sc_closed : bool; sc_age : Z; sc_busy : nat }.

Record psnap := {
  ps_maxconns : nat; ps_maxidle : nat; ps_keepalive : Z; ps_idleto : Z;
  ps_active : list (nat * (list nat * nat));   (* address -> ids, cursor *)
  ps_idle : list (nat * (list nat * nat));     (* address -> ids (front first), capacity *)
  ps_conns : list sconn;                       (* every connection the harness has seen dialed *)
  ps_next : nat;
  ps_closed : bool
}.

(* what the harness did, and what it saw come back *)
Inductive pop :=
| OpCallBegin (a : nat) (dial_ok : bool) (got : option nat)  (* getConn + the call registers (handler held) *)
| OpCallEnd (c : nat) (shutdown : bool)                       (* the held call returns *)
| OpStreamOpen (a : nat) (dial_ok : bool) (got : option nat) (* Transport.NewStream succeeded: getConn, the stream registers, lastTime is refreshed *)
| OpStreamEnd (c : nat)                                       (* Stream.Close acknowledged on a live connection *)
| OpGet (a : nat) (dial_ok : bool) (got : option nat)         (* getConn alone (hook): the caller holds the connection, its call comes later *)
| OpBeginOn (c : nat)                                         (* the call of a caller that got c earlier registers now *)
| OpCall (a : nat) (dial_ok : bool) (got : option nat) (errdial : bool) (shutdown : bool)  (* a whole synchronous Call / Ping; got = the connection that served it when the harness could tell *)
| OpTick
| OpCloseIdle
| OpClose.

Definition of_snap (s : psnap) : pool := {|
  p_maxconns := ps_maxconns s; p_maxidle := ps_maxidle s; p_keepalive := ps_keepalive s; p_idleto := ps_idleto s;
  p_now := 0;
  p_conns := list_to_map (map (fun c => (sc_id c, {| pc_addr := sc_addr c; pc_alive := sc_alive c; pc_closed := sc_closed c;
                                                       pc_last := - sc_age c; pc_busy := sc_busy c |})) (ps_conns s));
  p_next := ps_next s;
  p_active := list_to_map (ps_active s);
  p_idle := list_to_map (ps_idle s);
  p_closed := ps_closed s;
  p_out := [] |}.

Definition last_out (p : pool) : option (option nat) := list.last (p_out p).

Definition apply (op : pop) (p : pool) : pool :=
  match op with
  | OpCallBegin a ok _ =>
      let p1 := step p (GetConn a ok 0) in
      match last_out p1 with Some (Some c) => step p1 (CallBegin c) | _ => p1 end
  | OpCallEnd c sh => step p (CallEnd c sh)
  | OpStreamOpen a ok _ =>
      (* net effect: busy+1 and last := now; expressed with existing actions on purpose *)
      let p1 := step p (GetConn a ok 0) in
      match last_out p1 with
      | Some (Some c) => step (step (step p1 (CallBegin c)) (CallBegin c)) (CallEnd c false)
      | _ => p1
      end
  | OpStreamEnd c => step p (StreamEnd c)
  | OpGet a ok _ => step p (GetConn a ok 0)
  | OpBeginOn c => step p (CallBegin c)
  | OpCall a ok _ _ sh =>
      let p1 := step p (GetConn a ok 0) in
      match last_out p1 with Some (Some c) => step (step p1 (CallBegin c)) (CallEnd c sh) | _ => p1 end
  | OpTick => step p (Tick 0)
  | OpCloseIdle => step p CloseIdle
  | OpClose => step p Close
  end.

(* does the model's getConn result agree with what the harness saw? *)
Definition got_ok (op : pop) (o : option (option nat)) : bool :=
  match op with
  | OpCallBegin _ _ g => bool_decide (o = Some g)
  | OpStreamOpen _ _ g => bool_decide (o = Some g)
  | OpGet _ _ g => bool_decide (o = Some g)
  | OpCall _ _ g errdial _ =>
      match o with
      | Some None => errdial
      | Some (Some c) => negb errdial && match g with Some c' => Nat.eqb c c' | None => true end
      | None => false
      end
  | _ => true
  end.

Definition key_le (x y : nat * (list nat * nat)) : Prop := (fst x <= fst y)%nat.
Global Instance key_le_dec x y : Decision (key_le x y).
Proof. unfold key_le. apply _. Defined.
Definition sort_assoc (l : list (nat * (list nat * nat))) := merge_sort key_le l.
Definition sorted_assoc (m : gmap nat (list nat * nat)) : list (nat * (list nat * nat)) :=
  sort_assoc (map_to_list m).

Definition filed_in (p : pool) (c : nat) : bool :=
  existsb (fun x : nat * (list nat * nat) => bool_decide (c ∈ (fst (snd x) : list nat))) (map_to_list (p_active p)) ||
  existsb (fun x : nat * (list nat * nat) => bool_decide (c ∈ (fst (snd x) : list nat))) (map_to_list (p_idle p)).

Definition conn_matches (p : pool) (c : sconn) : bool :=
  match p_conns p !! sc_id c with
  | None => false
  | Some pc =>
      Nat.eqb (pc_addr pc) (sc_addr c) && Bool.eqb (pc_closed pc) (sc_closed c) &&
      (* liveness, age and outstanding calls are visible in the snapshot only for filed connections *)
      (if filed_in p (sc_id c)
       then Bool.eqb (pc_alive pc) (sc_alive c) && (- pc_last pc =? sc_age c) && Nat.eqb (pc_busy pc) (sc_busy c)
       else true)
  end.

Definition nonempty_entries (l : list (nat * (list nat * nat))) : list (nat * (list nat * nat)) :=
  filter (fun x => negb (match fst (snd x) with [] => true | _ => false end)) l.

Definition snap_matches (p : pool) (s : psnap) : bool :=
  bool_decide (sorted_assoc (p_active p) = sort_assoc (ps_active s)) &&
  bool_decide (sort_assoc (nonempty_entries (map_to_list (p_idle p))) = sort_assoc (nonempty_entries (ps_idle s))) &&
  forallb (conn_matches p) (ps_conns s) &&
  Nat.eqb (p_next p) (ps_next s) &&
  Bool.eqb (p_closed p) (ps_closed s) &&
  Nat.eqb (p_maxconns p) (ps_maxconns s) && Nat.eqb (p_maxidle p) (ps_maxidle s).

Record pcase := { pcs_before : psnap; pcs_ops : list pop; pcs_after : psnap }.

(* apply the operations in order; every getConn result must agree with what the harness saw *)
Fixpoint apply_all (ops : list pop) (p : pool) : pool * bool :=
  match ops with
  | [] => (p, true)
  | op :: r =>
      let p1 := apply op p in
      let ok := match op with
                | OpCallBegin _ _ _ | OpStreamOpen _ _ _ | OpGet _ _ _ | OpCall _ _ _ _ _ =>
                    (* the getConn output of this op is the one appended by it *)
                    got_ok op (list.last (take (S (length (p_out p))) (p_out p1)))
                | _ => true
                end in
      let '(p2, ok2) := apply_all r p1 in (p2, ok && ok2)
  end.

Definition check_case (c : pcase) : bool :=
  let '(p', ok) := apply_all (pcs_ops c) (of_snap (pcs_before c)) in
  snap_matches p' (pcs_after c) && ok.

(* the first snapshot of a Transport must be the model's initial state for the configured limits *)
Record icase := { ic_maxconns : Z; ic_maxidle : Z; ic_keepalive : Z; ic_idleto : Z; ic_first : psnap }.
Definition check_init (c : icase) : bool :=
  let p := Model.init (ic_maxconns c) (ic_maxidle c) (ic_keepalive c) (ic_idleto c) 0 in
  Nat.eqb (p_maxconns p) (ps_maxconns (ic_first c)) && Nat.eqb (p_maxidle p) (ps_maxidle (ic_first c)) &&
  (p_keepalive p =? ps_keepalive (ic_first c)) && (p_idleto p =? ps_idleto (ic_first c)).

Inductive anycase := PStep (c : pcase) | PInit (c : icase).

Fixpoint mismatches_from (i : nat) (l : list anycase) : list nat :=
  match l with
  | [] => []
  | c :: r =>
      let ok := match c with PStep c => check_case c | PInit c => check_init c end in
      if ok then mismatches_from (S i) r else i :: mismatches_from (S i) r
  end.
Definition mismatches (l : list anycase) : list nat := mismatches_from 0 l.
