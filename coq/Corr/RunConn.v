(* RunConn.v — runs the connection machine on the action lists the harness
   performed on the real Conn and compares the projected observables after
   every action.  Harness actions are the gated ones; the ungated internal
   steps (send's critical section, the sweep once its wait is over, queued
   error completions, the return of a blocking call) run eagerly in
   [settle], exactly as the implementation runs them between two gates. *)
From RPC Require Import Hex.
From stdpp Require Import gmap sorting.
From RPC Require Import Res.
From RPC.Conn Require Import Model.
Open Scope N_scope.

(* frames as the harness describes them: by the call they answer *)
Inductive hframe :=
| HBad
| HUnknown                                         (* a sequence number nobody registered *)
| HResp (c : nat) (e : bspec) (body : bspec) (bodyok : bool).

Inductive hact :=
| HStart (c : nat) (k : kind)
| HWriteRet (c : nat) (r : option bspec)           (* Some text = write error with that text *)
| HArrive (f : hframe)
| HDecode
| HFinish (c : nat)
| HReadErr (eof : bool) (text : bspec)
| HClose
| HCtxDone (c : nat).

(* what the harness sees of a call *)
Inductive oerr := ONone | OShutdown | OText (t : bspec) | OBody.
Record ocall := { oc_id : nat; oc_done : nat; oc_err : oerr; oc_reply : option bspec }.
Record obs := {
  o_calls : list ocall;        (* every started call, ascending id *)
  o_numcalls : nat;            (* Conn.NumCalls() *)
  o_wgate : list nat;          (* calls blocked in WriteMessage, ascending *)
  o_dgate : bool;              (* a frame is held at the header-decode gate *)
  o_fgate : list nat;          (* calls held at the body-decode gate, ascending *)
  o_close : list bool          (* results of Close so far: true = nil *)
}.

Definition is_nil {A} (l : list A) : bool := match l with [] => true | _ => false end.

Definition blocking (k : kind) : bool := match k with KCall | KPing | KCtx => true | _ => false end.

(* ---- eager internal steps ---- *)
Definition try_step (v : variant) (cf : cfg) (a : action) (s : st) : st * bool :=
  match step v cf s a with Some s' => (s', true) | None => (s, false) end.

Definition queued_calls (s : st) : list nat :=
  map fst (filter (fun p => match k_wpc (snd p) with WQueued => true | _ => false end) (map_to_list (s_calls s))).

Definition sort_nat (l : list nat) : list nat := merge_sort Nat.le l.

Definition settle_once (v : variant) (cf : cfg) (s : st) : st * bool :=
  (* the sweep, as soon as its wait is over *)
  let '(s1, b1) := match s_rd s with RdDraining _ => try_step v cf ASweep s | _ => (s, false) end in
  (* send: pipelining -> the write worker takes the head; otherwise every caller goroutine *)
  let '(s2, b2) :=
    if pipelining cf then
      match s_writeq s1 with c :: _ => try_step v cf (ASend c) s1 | [] => (s1, false) end
    else fold_left (fun acc c => let '(x, b) := try_step v cf (ASend c) (fst acc) in (x, snd acc || b))
                   (sort_nat (queued_calls s1)) (s1, false) in
  (* the decode worker takes the next frame (closed check) without a gate *)
  let '(s2, b2') := try_step v cf APickup s2 in
  let b2 := b2 || b2' in
  (* a queued call.done() needs no gate *)
  let '(s3, b3) :=
    match s_finq s2 with
    | FinDone _ :: _ => if ordered_fin cf then try_step v cf (AFinish 0) s2 else (s2, false)
    | _ => (s2, false)
    end in
  (* blocking calls return as soon as they are signalled *)
  let '(s4, b4) :=
    fold_left (fun acc p =>
                 let c := fst p in
                 match s_calls (fst acc) !! c with
                 | Some k => if blocking (k_kind k) && Nat.ltb (k_recv k) (k_sig k) && negb (k_abandoned k)
                             then let '(x, b) := try_step v cf (ARecv c) (fst acc) in (x, snd acc || b)
                             else acc
                 | None => acc
                 end) (map_to_list (s_calls s3)) (s3, false) in
  (s4, b1 || b2 || b3 || b4).

Fixpoint settle (fuel : nat) (v : variant) (cf : cfg) (s : st) : st :=
  match fuel with
  | O => s
  | S f => let '(s', b) := settle_once v cf s in if b then settle f v cf s' else s'
  end.

(* ---- harness actions ---- *)
Definition q_of (s : st) (c : nat) : option N :=
  match s_calls s !! c with Some k => k_q k | None => None end.

Definition fin_index (c : nat) (l : list fin_task) : option nat :=
  (fix go (i : nat) (l : list fin_task) :=
     match l with
     | [] => None
     | FinReply c' _ _ :: r => if Nat.eqb c c' then Some i else go (S i) r
     | FinDone _ :: r => go (S i) r
     end) 0%nat l.

Definition unknown_q : N := 2^63 + 12345.

Definition to_action (s : st) (h : hact) : option action :=
  match h with
  | HStart c k => Some (AStart c k)
  | HWriteRet c None => Some (AWriteRet c None)
  | HWriteRet c (Some t) => Some (AWriteRet c (Some (EWrite (bs t))))
  | HArrive HBad => Some (AArrive FBad)
  | HArrive HUnknown => Some (AArrive (FResp unknown_q [] [] true))
  | HArrive (HResp c e body ok) =>
      match q_of s c with Some q => Some (AArrive (FResp q (bs e) (bs body) ok)) | None => None end
  | HDecode => Some ADecode
  | HFinish c => match fin_index c (s_finq s) with Some i => Some (AFinish i) | None => None end
  | HReadErr eof t => Some (AReadErr (if eof then EShutdown else ERead (bs t)))
  | HClose => Some AClose
  | HCtxDone c => Some (ACtxDone c)
  end.

Definition hstep (v : variant) (cf : cfg) (s : st) (h : hact) : option st :=
  match to_action s h with
  | None => None
  | Some a => match step v cf s a with
              | Some s' => Some (settle 64 v cf s')
              | None => None
              end
  end.

(* ---- projection to observables ---- *)
Definition oerr_matches (e : option errv) (o : oerr) : bool :=
  match e, o with
  | None, ONone => true
  | Some EShutdown, OShutdown => true
  | Some (EText t), OText t' => bool_decide (t = bs t')
  | Some (EWrite t), OText t' => bool_decide (t = bs t')
  | Some (ERead t), OText t' => bool_decide (t = bs t')
  | Some EBody, OBody => true
  | _, _ => false
  end.

(* completions the harness can count: signals for Go / RoundTrip, returns for blocking calls *)
Definition done_count (k : call) : nat :=
  if blocking (k_kind k) then (if k_abandoned k then 1%nat else k_recv k) else k_sig k.

Definition ocall_matches (s : st) (o : ocall) : bool :=
  match s_calls s !! oc_id o with
  | None => false
  | Some k =>
      Nat.eqb (done_count k) (oc_done o) &&
      (* Error and reply are compared once the call has completed (they are unstable before) *)
      (if Nat.ltb 0 (done_count k) && negb (k_abandoned k) then
         oerr_matches (k_err k) (oc_err o) &&
         (if k_ok k && negb (match k_kind k with KPing => true | _ => false end)
          then match k_reply k, oc_reply o with
               | Some b, Some b' => bool_decide (b = bs b')
               | _, _ => false
               end
          else true)
       else true)
  end.

Definition wgate_of (s : st) : list nat :=
  sort_nat (map fst (filter (fun p => match k_wpc (snd p) with WWriting _ => true | _ => false end) (map_to_list (s_calls s)))).

Definition fgate_of (cf : cfg) (s : st) : list nat :=
  let replies := flat_map (fun t => match t with FinReply c _ _ => [c] | FinDone _ => [] end) in
  if ordered_fin cf
  then match s_finq s with FinReply c _ _ :: _ => [c] | _ => [] end
  else sort_nat (replies (s_finq s)).

Definition obs_matches (cf : cfg) (s : st) (o : obs) : bool :=
  Nat.eqb (List.length (o_calls o)) (size (s_calls s)) &&
  forallb (ocall_matches s) (o_calls o) &&
  Nat.eqb (num_calls s) (o_numcalls o) &&
  bool_decide (wgate_of s = o_wgate o) &&
  Bool.eqb (s_held s) (o_dgate o) &&
  bool_decide (fgate_of cf s = o_fgate o) &&
  bool_decide (s_close_ret s = o_close o).

(* a case: configuration, and the actions with the observation after each *)
Record ccase := { cc_cfg : cfg; cc_steps : list (hact * obs) }.

(* index of the first action that is not enabled in the model (1000+i) or
   whose observation differs (i); None = the whole trace agrees *)
Fixpoint replay (v : variant) (cf : cfg) (i : nat) (s : st) (l : list (hact * obs)) : option nat :=
  match l with
  | [] => None
  | (h, o) :: r =>
      match hstep v cf s h with
      | None => Some (1000 + i)%nat
      | Some s' => if obs_matches cf s' o then replay v cf (S i) s' r else Some i
      end
  end.

Definition check_case (c : ccase) : option nat := replay current (cc_cfg c) 0 init (cc_steps c).

Fixpoint mismatches_from (i : nat) (l : list ccase) : list nat :=
  match l with
  | [] => []
  | c :: r => match check_case c with
              | None => mismatches_from (S i) r
              | Some _ => i :: mismatches_from (S i) r
              end
  end.
Definition mismatches (l : list ccase) : list nat := mismatches_from 0 l.

(* for diagnosis: where each failing case diverges *)
Definition divergences (l : list ccase) : list (option nat) := map check_case l.
