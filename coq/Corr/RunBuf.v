(* RunBuf.v — C11 tie: for each hand-over path of the code the harness reports whether the bytes it
   retained stayed unchanged under further traffic and whether the retained slice could be fished out of
   a buffer pool afterwards; the model's path must predict both (owned by the user, hence neither). *)
From Coq Require Import List Arith Bool.
From RPC.Buf Require Import Heap.
Import ListNotations.

Inductive bpath := PRequestArgs | PReply | PStreamMessage | PErrorText.

(* observation: path, payload length, unchanged after traffic, found in a pool afterwards *)
Inductive bcase :=
| BObs (p : bpath) (n : nat) (stable : bool) (in_pool : bool)
(* a caller-supplied context buffer of capacity k pre-filled with a canary, reply length n:
   was it used, is the reply there, is the tail beyond the reply untouched *)
| BCtx (k n : nat) (used : bool) (reply_ok : bool) (tail_ok : bool).

Definition payload (n : nat) : list nat := map (fun i => S (i mod 250)) (seq 0 n).

Definition model_obs (p : bpath) (n : nat) : bool * bool :=
  let h0 := [{| b_owner := Lib; b_data := payload n |}; {| b_owner := Pool; b_data := repeat 0 (n + 8) |}] in
  let '(ops, id) := match p with
                    | PRequestArgs => path_request_args h0 0 (payload n)
                    | PReply => path_reply h0 0 (payload n)
                    | PStreamMessage => path_stream_message h0 0 1 (payload n)
                    | PErrorText => path_error_text h0 0 (payload n)
                    end in
  (* after the path, the pool reuses everything it holds for other traffic *)
  let churn := [PoolGet 0 0; Write 0 0 (repeat 9 n)] in
  match run (ops ++ churn) h0 with
  | Some h' =>
      (match user_data h' id with Some d => if list_eq_dec Nat.eq_dec d (payload n) then true else false | None => false end,
       match get h' id with Some b => owner_eqb (b_owner b) Pool | None => false end)
  | None => (false, true)
  end.

Definition check (c : bcase) : bool :=
  match c with
  | BObs p n stable in_pool =>
      let '(ms, mp) := model_obs p n in Bool.eqb ms stable && Bool.eqb mp in_pool
  | BCtx k n used reply_ok tail_ok =>
      let '(ub', mu) := ctx_buffer_write (repeat 204 k) (payload n) in
      Bool.eqb mu used &&
      (if mu then reply_ok && tail_ok &&
                  (if list_eq_dec Nat.eq_dec (firstn n ub') (payload n) then true else false) &&
                  (if list_eq_dec Nat.eq_dec (skipn n ub') (repeat 204 (k - n)) then true else false)
       else tail_ok)
  end.

Fixpoint mismatches_from (i : nat) (l : list bcase) : list nat :=
  match l with
  | [] => []
  | c :: r => if check c then mismatches_from (S i) r else i :: mismatches_from (S i) r
  end.
Definition mismatches (l : list bcase) : list nat := mismatches_from 0 l.
