(* Pool/InvLemmas.v — the invariant of the Transport pool machine, the
   projection lemmas of the setters, a "local update" lemma that re-establishes
   the invariant after any change confined to one address, and the
   characterisations of the sweeps (retire, expire, close_unused, close_queue). *)
From stdpp Require Import gmap.
From RPC Require Import Res.
From RPC.Pool Require Import Model.
Open Scope Z_scope.
(* [Res] re-exports Coq's [List]; the invariant uses std++'s [NoDup] *)
Local Notation NoDup := base.NoDup (only parsing).

Definition filed (p : pool) (c : cid) : Prop :=
  exists a : addr, c ∈ active_of p a \/ c ∈ idle_of p a.

Record PInv (p : pool) : Prop := {
  (* limits are normalised *)
  pi_limits : (1 <= p_maxidle p <= p_maxconns p)%nat;
  (* a connection is filed under the address it was dialed to *)
  pi_active_addr : forall (a : addr) (c : cid), c ∈ active_of p a -> exists pc, p_conns p !! c = Some pc /\ pc_addr pc = a;
  pi_idle_addr : forall (a : addr) (c : cid), c ∈ idle_of p a -> exists pc, p_conns p !! c = Some pc /\ pc_addr pc = a;
  (* per-host bounds *)
  pi_total : forall a : addr, (length (active_of p a) + length (idle_of p a) <= p_maxconns p)%nat;
  pi_idle_cap : forall (a : addr) q cap, p_idle p !! a = Some (q, cap) -> cap = p_maxidle p /\ (length q <= cap)%nat;
  pi_active_nonempty : forall (a : addr) cs cur, p_active p !! a = Some (cs, cur) -> cs <> [];
  (* nothing is filed twice *)
  pi_nodup : forall a : addr, NoDup (active_of p a ++ idle_of p a);
  (* every connection that is still open is filed (no leak) ... *)
  pi_open_filed : forall (c : cid) pc, p_conns p !! c = Some pc -> pc_closed pc = false ->
      c ∈ active_of p (pc_addr pc) \/ c ∈ idle_of p (pc_addr pc);
  (* ... a filed connection that the pool has closed is a dead one awaiting replacement *)
  pi_filed_closed : forall (c : cid) pc, filed p c -> p_conns p !! c = Some pc -> pc_closed pc = true -> pc_alive pc = false;
  (* dead connections are closed *)
  pi_dead_closed : forall (c : cid) pc, p_conns p !! c = Some pc -> pc_alive pc = false -> pc_closed pc = true;
  pi_ids : forall c : cid, is_Some (p_conns p !! c) -> (c < p_next p)%nat
}.

(* ------------------------------------------------------------------ *)
(* projections of the setters                                          *)
(* ------------------------------------------------------------------ *)
Lemma upd_conn_conns c f p : p_conns (upd_conn c f p) = alter f c (p_conns p).
Proof.
  unfold upd_conn. destruct (p_conns p !! c) eqn:E; simpl.
  - apply map_eq. intros i. destruct (decide (i = c)) as [->|N].
    + rewrite lookup_insert, lookup_alter, E. done.
    + rewrite lookup_insert_ne, lookup_alter_ne by done. done.
  - apply map_eq. intros i. destruct (decide (i = c)) as [->|N].
    + rewrite lookup_alter, E. done.
    + rewrite lookup_alter_ne by done. done.
Qed.

Lemma upd_conn_active c f p : p_active (upd_conn c f p) = p_active p.
Proof. unfold upd_conn. destruct (p_conns p !! c); reflexivity. Qed.
Lemma upd_conn_idle c f p : p_idle (upd_conn c f p) = p_idle p.
Proof. unfold upd_conn. destruct (p_conns p !! c); reflexivity. Qed.
Lemma upd_conn_next c f p : p_next (upd_conn c f p) = p_next p.
Proof. unfold upd_conn. destruct (p_conns p !! c); reflexivity. Qed.
Lemma upd_conn_out c f p : p_out (upd_conn c f p) = p_out p.
Proof. unfold upd_conn. destruct (p_conns p !! c); reflexivity. Qed.
Lemma upd_conn_now c f p : p_now (upd_conn c f p) = p_now p.
Proof. unfold upd_conn. destruct (p_conns p !! c); reflexivity. Qed.
Lemma upd_conn_closed c f p : p_closed (upd_conn c f p) = p_closed p.
Proof. unfold upd_conn. destruct (p_conns p !! c); reflexivity. Qed.
Lemma upd_conn_maxconns c f p : p_maxconns (upd_conn c f p) = p_maxconns p.
Proof. unfold upd_conn. destruct (p_conns p !! c); reflexivity. Qed.
Lemma upd_conn_maxidle c f p : p_maxidle (upd_conn c f p) = p_maxidle p.
Proof. unfold upd_conn. destruct (p_conns p !! c); reflexivity. Qed.
Lemma upd_conn_keepalive c f p : p_keepalive (upd_conn c f p) = p_keepalive p.
Proof. unfold upd_conn. destruct (p_conns p !! c); reflexivity. Qed.
Lemma upd_conn_idleto c f p : p_idleto (upd_conn c f p) = p_idleto p.
Proof. unfold upd_conn. destruct (p_conns p !! c); reflexivity. Qed.

Global Hint Rewrite upd_conn_conns upd_conn_active upd_conn_idle upd_conn_next upd_conn_out
  upd_conn_now upd_conn_closed upd_conn_maxconns upd_conn_maxidle upd_conn_keepalive upd_conn_idleto : pool.

(* everything except the connection records, the two structures and the output *)
Definition meta (p : pool) : nat * nat * Z * Z * Z * nat * bool * list (option cid) :=
  (p_maxconns p, p_maxidle p, p_keepalive p, p_idleto p, p_now p, p_next p, p_closed p, p_out p).

Lemma meta_upd_conn c f p : meta (upd_conn c f p) = meta p.
Proof. unfold meta. autorewrite with pool. done. Qed.

Lemma pool_eq p q : meta p = meta q -> p_conns p = p_conns q -> p_active p = p_active q -> p_idle p = p_idle q -> p = q.
Proof. destruct p, q; unfold meta; simpl; intros; simplify_eq; reflexivity. Qed.

Ltac meta_inv H := unfold meta in H; injection H as ? ? ? ? ? ? ? ?.
Lemma meta_maxconns p q : meta p = meta q -> p_maxconns p = p_maxconns q. Proof. intros H; by meta_inv H. Qed.
Lemma meta_maxidle p q : meta p = meta q -> p_maxidle p = p_maxidle q. Proof. intros H; by meta_inv H. Qed.
Lemma meta_keepalive p q : meta p = meta q -> p_keepalive p = p_keepalive q. Proof. intros H; by meta_inv H. Qed.
Lemma meta_idleto p q : meta p = meta q -> p_idleto p = p_idleto q. Proof. intros H; by meta_inv H. Qed.
Lemma meta_now p q : meta p = meta q -> p_now p = p_now q. Proof. intros H; by meta_inv H. Qed.
Lemma meta_next p q : meta p = meta q -> p_next p = p_next q. Proof. intros H; by meta_inv H. Qed.
Lemma meta_closed p q : meta p = meta q -> p_closed p = p_closed q. Proof. intros H; by meta_inv H. Qed.
Lemma meta_out p q : meta p = meta q -> p_out p = p_out q. Proof. intros H; by meta_inv H. Qed.

(* ------------------------------------------------------------------ *)
(* records that differ only by [pc_close] on a given list of ids        *)
(* ------------------------------------------------------------------ *)
Lemma pc_close_idem pc : pc_close (pc_close pc) = pc_close pc.
Proof. destruct pc; reflexivity. Qed.

Definition cc (m m1 : gmap cid pconn) (D : list cid) : Prop :=
  forall c, m1 !! c = if decide (c ∈ D) then pc_close <$> m !! c else m !! c.

Lemma cc_nil m : cc m m [].
Proof. intros c. case_decide; [set_solver|done]. Qed.

Lemma cc_one m c : cc m (alter pc_close c m) [c].
Proof.
  intros c'. case_decide as E.
  - apply elem_of_list_singleton in E as ->. apply lookup_alter.
  - apply lookup_alter_ne. set_solver.
Qed.

Lemma cc_trans m m1 m2 D1 D2 : cc m m1 D1 -> cc m1 m2 D2 -> cc m m2 (D1 ++ D2).
Proof.
  intros H1 H2 c. rewrite H2, H1.
  destruct (decide (c ∈ D1)), (decide (c ∈ D2)); case_decide as E; try (exfalso; set_solver); try done.
  rewrite <- option_fmap_compose. apply option_fmap_ext. intros pc. apply pc_close_idem.
Qed.

Lemma cc_perm m m1 D D' : (forall c, c ∈ D <-> c ∈ D') -> cc m m1 D -> cc m m1 D'.
Proof. intros E H c. rewrite H. repeat case_decide; try done; exfalso; naive_solver. Qed.

Lemma cc_lookup_in m m1 D c : cc m m1 D -> c ∈ D -> m1 !! c = pc_close <$> m !! c.
Proof. intros H E. rewrite H. case_decide; done. Qed.
Lemma cc_lookup_notin m m1 D c : cc m m1 D -> c ∉ D -> m1 !! c = m !! c.
Proof. intros H E. rewrite H. case_decide; done. Qed.

Lemma cc_lookup m m1 D c pc : cc m m1 D -> m !! c = Some pc ->
  exists pc1, m1 !! c = Some pc1 /\ (pc1 = pc \/ (pc1 = pc_close pc /\ c ∈ D)).
Proof. intros H E. rewrite H, E. case_decide; simpl; eauto. Qed.
Lemma cc_lookup_none m m1 D c : cc m m1 D -> m !! c = None -> m1 !! c = None.
Proof. intros H E. rewrite H, E. case_decide; done. Qed.
Lemma cc_lookup_inv m m1 D c pc1 : cc m m1 D -> m1 !! c = Some pc1 ->
  exists pc, m !! c = Some pc /\ ((pc1 = pc /\ c ∉ D) \/ (pc1 = pc_close pc /\ c ∈ D)).
Proof.
  intros H E. rewrite H in E. case_decide.
  - destruct (m !! c); simplify_eq/=. eauto.
  - eauto.
Qed.

Lemma cc_last m m1 D c : cc m m1 D -> (pc_last <$> m1 !! c) = (pc_last <$> m !! c).
Proof. intros H. rewrite H. case_decide; [|done]. destruct (m !! c); done. Qed.

Lemma last_of_cc p p1 D c : cc (p_conns p) (p_conns p1) D -> last_of p1 c = last_of p c.
Proof. intros H. unfold last_of. rewrite H. case_decide; [|done]. destruct (p_conns p !! c); done. Qed.
Lemma busy_of_cc p p1 D c : cc (p_conns p) (p_conns p1) D -> busy_of p1 c = busy_of p c.
Proof. intros H. unfold busy_of. rewrite H. case_decide; [|done]. destruct (p_conns p !! c); done. Qed.
Lemma alive_of_cc p p1 D c : cc (p_conns p) (p_conns p1) D -> alive_of p1 c = alive_of p c.
Proof. intros H. unfold alive_of. rewrite H. case_decide; [|done]. destruct (p_conns p !! c); done. Qed.
Lemma is_open_cc_in p p1 D c : cc (p_conns p) (p_conns p1) D -> c ∈ D -> is_open p1 c = false.
Proof. intros H E. unfold is_open. rewrite H. case_decide; [|done]. destruct (p_conns p !! c); done. Qed.
Lemma is_open_cc_notin p p1 D c : cc (p_conns p) (p_conns p1) D -> c ∉ D -> is_open p1 c = is_open p c.
Proof. intros H E. unfold is_open. rewrite H. case_decide; done. Qed.
Lemma is_open_cc_mono p p1 D c : cc (p_conns p) (p_conns p1) D -> is_open p c = false -> is_open p1 c = false.
Proof. intros H. unfold is_open. rewrite H. case_decide; [|done]. destruct (p_conns p !! c) as [[]|]; simpl; done. Qed.

Lemma active_of_eq p p1 a : p_active p1 !! a = p_active p !! a -> active_of p1 a = active_of p a.
Proof. unfold active_of. intros ->. done. Qed.
Lemma idle_of_eq p p1 a : p_idle p1 !! a = p_idle p !! a -> idle_of p1 a = idle_of p a.
Proof. unfold idle_of. intros ->. done. Qed.

(* ------------------------------------------------------------------ *)
(* the local update lemma                                              *)
(* ------------------------------------------------------------------ *)
Definition fl (p : pool) (a : addr) : list cid := active_of p a ++ idle_of p a.

Lemma fl_rec p a c : PInv p -> c ∈ fl p a -> exists pc, p_conns p !! c = Some pc /\ pc_addr pc = a.
Proof.
  intros I H. apply elem_of_app in H as [H|H]; [eapply pi_active_addr|eapply pi_idle_addr]; eauto.
Qed.

Lemma fl_filed p a c : c ∈ fl p a -> filed p c.
Proof. intros H. exists a. apply elem_of_app in H. done. Qed.

Lemma PInv_local p p1 (a : addr) :
  PInv p ->
  p_maxconns p1 = p_maxconns p -> p_maxidle p1 = p_maxidle p ->
  (p_next p <= p_next p1)%nat ->
  (forall a' : addr, a' <> a -> p_active p1 !! a' = p_active p !! a' /\ p_idle p1 !! a' = p_idle p !! a') ->
  (* old records keep address and liveness; they are closed only when dropped from [a]'s lists *)
  (forall (c : cid) pc, p_conns p !! c = Some pc -> exists pc1, p_conns p1 !! c = Some pc1 /\
      pc_addr pc1 = pc_addr pc /\ pc_alive pc1 = pc_alive pc /\
      (pc_closed pc1 = pc_closed pc \/ (pc_closed pc1 = true /\ c ∈ fl p a /\ c ∉ fl p1 a))) ->
  (* new records are live, open, dialed to [a] and filed *)
  (forall (c : cid) pc1, p_conns p1 !! c = Some pc1 -> p_conns p !! c = None ->
      (c < p_next p1)%nat /\ pc_addr pc1 = a /\ pc_alive pc1 = true /\ pc_closed pc1 = false /\ c ∈ fl p1 a) ->
  (forall c : cid, c ∈ fl p1 a -> c ∈ fl p a \/ (p_conns p !! c = None /\ is_Some (p_conns p1 !! c))) ->
  NoDup (fl p1 a) ->
  (length (active_of p1 a) + length (idle_of p1 a) <= p_maxconns p)%nat ->
  (forall c : cid, c ∈ fl p a -> c ∈ fl p1 a \/ is_open p1 c = false) ->
  (forall q cap, p_idle p1 !! a = Some (q, cap) -> cap = p_maxidle p /\ (length q <= cap)%nat) ->
  (forall cs cur, p_active p1 !! a = Some (cs, cur) -> cs <> []) ->
  PInv p1.
Proof.
  intros I Hmc Hmi Hnext Hother Hold Hnew Hin Hnd Hlen Hkept Hcap Hne.
  assert (Hact : forall a', a' <> a -> active_of p1 a' = active_of p a').
  { intros a' N. apply active_of_eq, Hother, N. }
  assert (Hidl : forall a', a' <> a -> idle_of p1 a' = idle_of p a').
  { intros a' N. apply idle_of_eq, Hother, N. }
  assert (Hfl : forall a', a' <> a -> fl p1 a' = fl p a').
  { intros a' N. unfold fl. rewrite Hact, Hidl by done. done. }
  assert (Haddr : forall a' c, c ∈ fl p1 a' -> exists pc, p_conns p1 !! c = Some pc /\ pc_addr pc = a').
  { intros a' c H. destruct (decide (a' = a)) as [->|N].
    - destruct (Hin c H) as [H0|[H0 [pc1 H1]]].
      + destruct (fl_rec _ _ _ I H0) as (pc & E & A). destruct (Hold _ _ E) as (pc1 & E1 & A1 & _).
        exists pc1. split; [done|congruence].
      + destruct (Hnew _ _ H1 H0) as (_ & A & _). eauto.
    - rewrite Hfl in H by done. destruct (fl_rec _ _ _ I H) as (pc & E & A).
      destruct (Hold _ _ E) as (pc1 & E1 & A1 & _). exists pc1. split; [done|congruence]. }
  split.
  - rewrite Hmc, Hmi. apply I.
  - intros a' c H. apply Haddr. unfold fl. set_solver.
  - intros a' c H. apply Haddr. unfold fl. set_solver.
  - intros a'. rewrite Hmc. destruct (decide (a' = a)) as [->|N]; [done|].
    rewrite Hact, Hidl by done. apply I.
  - intros a' q cap H. rewrite Hmi. destruct (decide (a' = a)) as [->|N]; [eauto|].
    destruct (Hother a' N) as [_ E]. rewrite E in H. eapply pi_idle_cap; eauto.
  - intros a' cs cur H. destruct (decide (a' = a)) as [->|N]; [eauto|].
    destruct (Hother a' N) as [E _]. rewrite E in H. eapply pi_active_nonempty; eauto.
  - intros a'. destruct (decide (a' = a)) as [->|N]; [done|].
    rewrite Hact, Hidl by done. apply I.
  - intros c pc1 E1 O. apply elem_of_app. fold (fl p1 (pc_addr pc1)).
    destruct (p_conns p !! c) as [pc|] eqn:E.
    + destruct (Hold _ _ E) as (pc1' & E1' & A1 & L1 & C1). assert (pc1' = pc1) by congruence. subst pc1'.
      destruct C1 as [C1|[C1 _]]; [|congruence].
      assert (F : c ∈ fl p (pc_addr pc)).
      { apply elem_of_app. eapply pi_open_filed; eauto; congruence. }
      rewrite A1. destruct (decide (pc_addr pc = a)) as [Ea|N].
      * rewrite Ea in *. destruct (Hkept _ F) as [?|Op]; [done|].
        unfold is_open in Op. rewrite E1 in Op. rewrite O in Op. done.
      * rewrite Hfl by done. done.
    + destruct (Hnew _ _ E1 E) as (_ & A & _ & _ & F). rewrite A. done.
  - intros c pc1 [a' F] E1 C. fold (fl p1 a') in *. assert (F' : c ∈ fl p1 a') by (unfold fl; set_solver). clear F.
    destruct (p_conns p !! c) as [pc|] eqn:E.
    + destruct (Hold _ _ E) as (pc1' & E1' & A1 & L1 & C1). assert (pc1' = pc1) by congruence. subst pc1'.
      rewrite L1. destruct C1 as [C1|(_ & F0 & F1)].
      * eapply (pi_filed_closed _ I c pc); [|done|congruence].
        destruct (decide (a' = a)) as [->|N].
        -- destruct (Hin _ F') as [?|[? _]]; [|congruence]. eapply fl_filed; eauto.
        -- rewrite Hfl in F' by done. eapply fl_filed; eauto.
      * destruct (decide (a' = a)) as [->|N]; [done|].
        rewrite Hfl in F' by done.
        destruct (fl_rec _ _ _ I F') as (? & ? & ?). destruct (fl_rec _ _ _ I F0) as (? & ? & ?). congruence.
    + destruct (Hnew _ _ E1 E) as (_ & _ & _ & O & _). congruence.
  - intros c pc1 E1 L. destruct (p_conns p !! c) as [pc|] eqn:E.
    + destruct (Hold _ _ E) as (pc1' & E1' & A1 & L1 & C1). assert (pc1' = pc1) by congruence. subst pc1'.
      destruct C1 as [C1|[C1 _]]; [|done]. rewrite C1. eapply pi_dead_closed; eauto; congruence.
    + destruct (Hnew _ _ E1 E) as (_ & _ & L' & _). congruence.
  - intros c [pc1 E1]. destruct (p_conns p !! c) as [pc|] eqn:E.
    + assert (c < p_next p)%nat by (eapply pi_ids; eauto). lia.
    + destruct (Hnew _ _ E1 E) as (? & _). done.
Qed.

(* a sweep over address [a]: some filed connections are closed and dropped, the rest re-filed *)
Lemma PInv_sweep p p1 (a : addr) D :
  PInv p -> meta p1 = meta p -> cc (p_conns p) (p_conns p1) D ->
  (forall a' : addr, a' <> a -> p_active p1 !! a' = p_active p !! a' /\ p_idle p1 !! a' = p_idle p !! a') ->
  fl p1 a ++ D ≡ₚ fl p a ->
  (forall q cap, p_idle p1 !! a = Some (q, cap) -> cap = p_maxidle p /\ (length q <= cap)%nat) ->
  (forall cs cur, p_active p1 !! a = Some (cs, cur) -> cs <> []) ->
  PInv p1.
Proof.
  intros I M C Hother P Hcap Hne. meta_inv M.
  assert (ND : NoDup (fl p1 a ++ D)).
  { rewrite P. apply I. }
  apply NoDup_app in ND as (ND1 & ND2 & ND3).
  apply (PInv_local p p1 a); try done.
  - lia.
  - intros c pc E. destruct (cc_lookup _ _ _ _ _ C E) as (pc1 & E1 & [->|[-> Din]]); eexists; (split; [exact E1|]).
    + eauto.
    + repeat split; try done. right. repeat split; try done.
      * rewrite <- P. set_solver.
      * intros F. eapply ND2; eauto.
  - intros c pc1 E1 E. pose proof (cc_lookup_none _ _ _ _ C E) as E2. congruence.
  - intros c F. left. rewrite <- P. set_solver.
  - apply Permutation_length in P. rewrite app_length in P. unfold fl in P. rewrite !app_length in P.
    pose proof (pi_total _ I a). lia.
  - intros c F. rewrite <- P in F. apply elem_of_app in F as [F|F]; [by left|right].
    eapply is_open_cc_in; eauto.
Qed.

(* ------------------------------------------------------------------ *)
(* writing back a list / queue (delete when empty)                      *)
(* ------------------------------------------------------------------ *)
Definition put_active (a : addr) (kept : list cid) (cur : nat) (p : pool) : pool :=
  match kept with
  | [] => set_active (delete a (p_active p)) p
  | _ => set_active (<[a := (kept, cur)]> (p_active p)) p
  end.
Definition put_idle (a : addr) (q : list cid) (cap : nat) (p : pool) : pool :=
  match q with
  | [] => set_idle (delete a (p_idle p)) p
  | _ => set_idle (<[a := (q, cap)]> (p_idle p)) p
  end.

Lemma put_active_meta a k cur p : meta (put_active a k cur p) = meta p.
Proof. destruct k; reflexivity. Qed.
Lemma put_active_conns a k cur p : p_conns (put_active a k cur p) = p_conns p.
Proof. destruct k; reflexivity. Qed.
Lemma put_active_idle a k cur p : p_idle (put_active a k cur p) = p_idle p.
Proof. destruct k; reflexivity. Qed.
Lemma put_active_at a k cur p : active_of (put_active a k cur p) a = k.
Proof. destruct k; unfold active_of; simpl; [rewrite lookup_delete|rewrite lookup_insert]; done. Qed.
Lemma put_active_other a k cur p a' : a' <> a -> p_active (put_active a k cur p) !! a' = p_active p !! a'.
Proof. intros N. destruct k; simpl; [rewrite lookup_delete_ne|rewrite lookup_insert_ne]; done. Qed.
Lemma put_active_lookup a k cur p cs cur' :
  p_active (put_active a k cur p) !! a = Some (cs, cur') -> cs = k /\ cur' = cur /\ k <> [].
Proof. destruct k; simpl; [rewrite lookup_delete|rewrite lookup_insert]; intros; simplify_eq; done. Qed.
Lemma put_active_lookup_ne a k cur p : k <> [] -> p_active (put_active a k cur p) !! a = Some (k, cur).
Proof. destruct k; simpl; [done|rewrite lookup_insert]; done. Qed.
Lemma put_active_lookup_nil a cur p : p_active (put_active a [] cur p) !! a = None.
Proof. simpl. apply lookup_delete. Qed.

Lemma put_idle_meta a k cap p : meta (put_idle a k cap p) = meta p.
Proof. destruct k; reflexivity. Qed.
Lemma put_idle_conns a k cap p : p_conns (put_idle a k cap p) = p_conns p.
Proof. destruct k; reflexivity. Qed.
Lemma put_idle_active a k cap p : p_active (put_idle a k cap p) = p_active p.
Proof. destruct k; reflexivity. Qed.
Lemma put_idle_at a k cap p : idle_of (put_idle a k cap p) a = k.
Proof. destruct k; unfold idle_of; simpl; [rewrite lookup_delete|rewrite lookup_insert]; done. Qed.
Lemma put_idle_other a k cap p a' : a' <> a -> p_idle (put_idle a k cap p) !! a' = p_idle p !! a'.
Proof. intros N. destruct k; simpl; [rewrite lookup_delete_ne|rewrite lookup_insert_ne]; done. Qed.
Lemma put_idle_lookup a k cap p q cap' :
  p_idle (put_idle a k cap p) !! a = Some (q, cap') -> q = k /\ cap' = cap /\ k <> [].
Proof. destruct k; simpl; [rewrite lookup_delete|rewrite lookup_insert]; intros; simplify_eq; done. Qed.
Lemma put_idle_lookup_ne a k cap p : k <> [] -> p_idle (put_idle a k cap p) !! a = Some (k, cap).
Proof. destruct k; simpl; [done|rewrite lookup_insert]; done. Qed.
Lemma put_idle_lookup_nil a cap p : p_idle (put_idle a [] cap p) !! a = None.
Proof. simpl. apply lookup_delete. Qed.

(* ------------------------------------------------------------------ *)
(* retire                                                              *)
(* ------------------------------------------------------------------ *)
Definition rcond (p : pool) (now : Z) (c : cid) : bool :=
  (last_of p c + p_keepalive p <? now) && Nat.eqb (busy_of p c) 0.

Definition park (a : addr) (c : cid) (p : pool) : pool :=
  match p_idle p !! a with
  | Some (q, cap) =>
      if Nat.eqb (length q) cap then upd_conn c pc_close p
      else set_idle (<[a := (q ++ [c], cap)]> (p_idle p)) p
  | None => set_idle (<[a := ([c], p_maxidle p)]> (p_idle p)) p
  end.

Lemma retire_cons a now c rest p :
  retire a now (c :: rest) p =
  if rcond p now c then retire a now rest (park a c p)
  else let '(kept, p1) := retire a now rest p in (c :: kept, p1).
Proof. reflexivity. Qed.

Definition idle_ok (p : pool) (a : addr) : Prop :=
  forall q cap, p_idle p !! a = Some (q, cap) -> cap = p_maxidle p /\ (length q <= cap)%nat.

Lemma rcond_cc p p1 D now c : meta p1 = meta p -> cc (p_conns p) (p_conns p1) D -> rcond p1 now c = rcond p now c.
Proof. intros M C. meta_inv M. unfold rcond. rewrite (last_of_cc _ _ _ _ C), (busy_of_cc _ _ _ _ C). congruence. Qed.

Lemma park_spec a c p : (1 <= p_maxidle p)%nat -> idle_ok p a ->
  exists parked D, ((parked = [c] /\ D = []) \/ (parked = [] /\ D = [c])) /\
    meta (park a c p) = meta p /\ p_active (park a c p) = p_active p /\
    cc (p_conns p) (p_conns (park a c p)) D /\
    (forall a' : addr, a' <> a -> p_idle (park a c p) !! a' = p_idle p !! a') /\
    idle_of (park a c p) a = idle_of p a ++ parked /\ idle_ok (park a c p) a.
Proof.
  intros L OK. unfold park, idle_of. destruct (p_idle p !! a) as [[q cap]|] eqn:E.
  - destruct (OK _ _ E) as [-> Lq]. destruct (Nat.eqb_spec (length q) (p_maxidle p)) as [Eq|Nq].
    + exists [], [c]. split; [by right|]. autorewrite with pool. rewrite meta_upd_conn, E, app_nil_r.
      split_and!; try done; [apply cc_one|].
      intros q' cap'. autorewrite with pool. apply OK.
    + exists [c], []. split; [by left|]. simpl. rewrite lookup_insert. split_and!; try done.
      * intros a' N. by rewrite lookup_insert_ne.
      * intros q' cap'. simpl. rewrite lookup_insert. intros; simplify_eq. rewrite app_length. simpl. split; [done|lia].
  - exists [c], []. split; [by left|]. simpl. rewrite lookup_insert. split_and!; try done.
    + intros a' N. by rewrite lookup_insert_ne.
    + intros q' cap'. simpl. rewrite lookup_insert. intros; simplify_eq. simpl. split; [done|lia].
Qed.

Lemma retire_spec a now cs : forall p kept p1, (1 <= p_maxidle p)%nat -> idle_ok p a ->
  retire a now cs p = (kept, p1) ->
  exists parked D, cs ≡ₚ kept ++ parked ++ D /\ meta p1 = meta p /\ p_active p1 = p_active p /\
    cc (p_conns p) (p_conns p1) D /\
    (forall a', a' <> a -> p_idle p1 !! a' = p_idle p !! a') /\
    idle_of p1 a = idle_of p a ++ parked /\ idle_ok p1 a /\
    (forall c, c ∈ kept <-> c ∈ cs /\ rcond p now c = false) /\
    (forall c, c ∈ parked ++ D -> rcond p now c = true).
Proof.
  induction cs as [|c rest IH]; intros p kept p1 L OK R.
  - simpl in R. simplify_eq. exists [], []. rewrite !app_nil_r. split_and!; try done; set_solver.
  - rewrite retire_cons in R. destruct (rcond p now c) eqn:RC.
    + destruct (park_spec a c p L OK) as (pk0 & D0 & Hpd & M0 & A0 & C0 & O0 & I0 & OK0).
      assert (L0 : (1 <= p_maxidle (park a c p))%nat) by (meta_inv M0; lia).
      destruct (IH _ _ _ L0 OK0 R) as (pk & D & P & M & A & C & O & I & OK1 & K & T).
      exists (pk0 ++ pk), (D0 ++ D). split_and!.
      * rewrite P. destruct Hpd as [[-> ->]|[-> ->]]; simpl.
        -- apply Permutation_middle.
        -- rewrite !app_assoc. apply Permutation_middle.
      * congruence.
      * congruence.
      * eapply cc_trans; eauto.
      * intros a' N. rewrite O, O0 by done. done.
      * rewrite I, I0, app_assoc. done.
      * done.
      * intros c'. rewrite K, (rcond_cc _ _ _ _ _ M0 C0). split.
        -- intros [H1 H2]. set_solver.
        -- intros [H1 H2]. split; [|done]. apply elem_of_cons in H1 as [->|H1]; [congruence|done].
      * intros c' H'. assert (c' = c \/ c' ∈ pk ++ D) as [->|H''].
        { destruct Hpd as [[-> ->]|[-> ->]]; set_solver. }
        -- done.
        -- rewrite <- (rcond_cc _ _ _ _ _ M0 C0). by apply T.
    + destruct (retire a now rest p) as [kept' p1'] eqn:R'. simplify_eq.
      destruct (IH _ _ _ L OK R') as (pk & D & P & M & A & C & O & I & OK1 & K & T).
      exists pk, D. split_and!; try done.
      * simpl. by constructor.
      * intros c'. rewrite elem_of_cons, K, elem_of_cons. split.
        -- intros [->|[H1 H2]]; [split; [by left|done]|split; [by right|done]].
        -- intros [[->|H1] H2]; [by left|right; done].
Qed.

Lemma retire_none a now cs : forall p, (forall c, c ∈ cs -> rcond p now c = false) -> retire a now cs p = (cs, p).
Proof.
  induction cs as [|c rest IH]; intros p H; [done|].
  rewrite retire_cons, (H c) by set_solver. rewrite IH by set_solver. done.
Qed.

Lemma tick_active_eq now p a :
  tick_active now p a =
  match p_active p !! a with
  | Some (cs, cur) => let '(kept, p1) := retire a now cs p in put_active a kept cur p1
  | None => p
  end.
Proof. reflexivity. Qed.

Lemma tick_active_inv now p a : PInv p -> PInv (tick_active now p a).
Proof.
  intros I. rewrite tick_active_eq. destruct (p_active p !! a) as [[cs cur]|] eqn:E; [|done].
  destruct (retire a now cs p) as [kept p1] eqn:R.
  assert (OK : idle_ok p a) by (intros q cap; apply I).
  destruct (retire_spec a now cs p kept p1 ltac:(apply I) OK R) as (pk & D & P & M & A & C & O & Id & OK1 & K & _).
  apply (PInv_sweep p _ a D I).
  - rewrite put_active_meta. done.
  - rewrite put_active_conns. done.
  - intros a' N. rewrite put_active_other, put_active_idle, A, O by done. done.
  - unfold fl. rewrite put_active_at. rewrite (idle_of_eq p1 (put_active a kept cur p1)) by (by rewrite put_active_idle).
    rewrite Id. unfold active_of at 1. rewrite E. rewrite P.
    rewrite <- !app_assoc. apply Permutation_app_head. rewrite (app_assoc pk D). apply Permutation_app_comm.
  - intros q cap. rewrite put_active_idle. intros HH. apply OK1 in HH. by rewrite <- (meta_maxidle _ _ M).
  - intros cs' cur' H. apply put_active_lookup in H. naive_solver.
Qed.

(* ------------------------------------------------------------------ *)
(* sweeps that only close records                                      *)
(* ------------------------------------------------------------------ *)
Definition closes (p p1 : pool) (D : list cid) : Prop :=
  meta p1 = meta p /\ p_active p1 = p_active p /\ p_idle p1 = p_idle p /\ cc (p_conns p) (p_conns p1) D.

Lemma closes_refl p : closes p p [].
Proof. split_and!; done || apply cc_nil. Qed.
Lemma closes_one p c : closes p (upd_conn c pc_close p) [c].
Proof. unfold closes. autorewrite with pool. rewrite meta_upd_conn. split_and!; try done. apply cc_one. Qed.
Lemma closes_trans p p1 p2 D1 D2 : closes p p1 D1 -> closes p1 p2 D2 -> closes p p2 (D1 ++ D2).
Proof.
  intros (M1 & A1 & I1 & C1) (M2 & A2 & I2 & C2). split_and!; try congruence. eapply cc_trans; eauto.
Qed.
Lemma closes_cons p p2 c D : closes (upd_conn c pc_close p) p2 D -> closes p p2 (c :: D).
Proof. intros H. apply (closes_trans _ _ _ [c] D (closes_one p c) H). Qed.

Lemma closes_busy p p1 D c : closes p p1 D -> busy_of p1 c = busy_of p c.
Proof. intros (_ & _ & _ & C). eapply busy_of_cc; eauto. Qed.
Lemma closes_last p p1 D c : closes p p1 D -> last_of p1 c = last_of p c.
Proof. intros (_ & _ & _ & C). eapply last_of_cc; eauto. Qed.
Lemma closes_alive p p1 D c : closes p p1 D -> alive_of p1 c = alive_of p c.
Proof. intros (_ & _ & _ & C). eapply alive_of_cc; eauto. Qed.

(* expire *)
Definition econd (p : pool) (now : Z) (q : list cid) : bool :=
  match list.last q, q with
  | Some r, c :: _ => (last_of p r + p_idleto p <? now) && Nat.eqb (busy_of p c) 0
  | _, _ => false
  end.

Lemma expire_S n now q p :
  expire (S n) now q p =
  match q with
  | c :: rest => if econd p now q then expire n now rest (upd_conn c pc_close p) else expire n now q p
  | [] => (q, p)
  end.
Proof.
  destruct q as [|c rest]; [reflexivity|]. unfold econd. cbn [expire].
  destruct (list.last (c :: rest)) eqn:L; [reflexivity|]. apply last_None in L. done.
Qed.

Lemma expire_stuck now q p : econd p now q = false -> forall n, expire n now q p = (q, p).
Proof.
  intros H n. induction n as [|n IH]; [done|]. rewrite expire_S. destruct q; [done|]. rewrite H. done.
Qed.

Lemma econd_closes p p1 D now q : closes p p1 D -> econd p1 now q = econd p now q.
Proof.
  intros H. unfold econd. destruct (list.last q); [|done]. destruct q; [done|].
  rewrite (closes_last _ _ _ _ H), (closes_busy _ _ _ _ H). destruct H as (M & _). by rewrite (meta_idleto _ _ M).
Qed.

Lemma econd_busy p now c q : econd p now (c :: q) = true -> busy_of p c = 0%nat.
Proof.
  unfold econd. destruct (list.last (c :: q)); [|done]. intros H. apply andb_true_iff in H as [_ H].
  by apply Nat.eqb_eq in H.
Qed.

Lemma expire_spec now n : forall q p q' p1, expire n now q p = (q', p1) ->
  exists D, q = D ++ q' /\ closes p p1 D /\ (forall c, c ∈ D -> busy_of p c = 0%nat) /\
    ((length q <= n)%nat -> q' <> [] -> econd p now q' = false).
Proof.
  induction n as [|n IH]; intros q p q' p1 H.
  - simpl in H. simplify_eq. exists []. split_and!; [done|apply closes_refl|set_solver|].
    intros L N. destruct q'; simpl in L; [done|lia].
  - rewrite expire_S in H. destruct q as [|c rest].
    { simplify_eq. exists []. split_and!; first [done | apply closes_refl | set_solver]. }
    destruct (econd p now (c :: rest)) eqn:EC.
    + destruct (IH _ _ _ _ H) as (D & -> & CL & B & F). exists (c :: D). split_and!; try done.
      * by apply closes_cons.
      * intros c' H'. apply elem_of_cons in H' as [->|H'].
        -- eapply econd_busy; eauto.
        -- rewrite <- (closes_busy _ _ _ c' (closes_one p c)). by apply B.
      * intros L N. rewrite <- (econd_closes _ _ _ now q' (closes_one p c)). apply F; [|done]. simpl in L. lia.
    + rewrite expire_stuck in H by done. simplify_eq. exists []. split_and!; first [done | apply closes_refl | set_solver].
Qed.

Lemma econd_true p now q : q <> [] ->
  (forall c, c ∈ q -> busy_of p c = 0%nat /\ last_of p c + p_idleto p < now) -> econd p now q = true.
Proof.
  intros N H. unfold econd. destruct (list.last q) as [r|] eqn:L; [|by apply last_None in L].
  destruct q as [|c rest]; [done|].
  assert (r ∈ c :: rest). { apply last_Some in L as [l' ->]. set_solver. }
  destruct (H r) as [_ H1]; [done|]. destruct (H c) as [H2 _]; [set_solver|].
  rewrite H2. simpl. rewrite andb_true_r. lia.
Qed.

Lemma expire_all now q p q' p1 :
  (forall c, c ∈ q -> busy_of p c = 0%nat /\ last_of p c + p_idleto p < now) ->
  expire (length q) now q p = (q', p1) -> q' = [] /\ closes p p1 q.
Proof.
  intros H E. destruct (expire_spec _ _ _ _ _ _ E) as (D & -> & CL & B & F).
  destruct (decide (q' = [])) as [->|N].
  - rewrite app_nil_r. done.
  - rewrite econd_true in F; [by specialize (F ltac:(lia) N)|done|]. intros c Hc. apply H. set_solver.
Qed.

(* close_unused *)
Lemma close_unused_spec cs : forall p kept p1, close_unused cs p = (kept, p1) ->
  exists D, cs ≡ₚ kept ++ D /\ closes p p1 D /\ (forall c, c ∈ D -> busy_of p c = 0%nat).
Proof.
  induction cs as [|c rest IH]; intros p kept p1 H; simpl in H.
  - simplify_eq. exists []. split_and!; first [done | apply closes_refl | set_solver].
  - destruct (Nat.eqb_spec (busy_of p c) 0) as [B|B].
    + destruct (IH _ _ _ H) as (D & P & CL & BD). exists (c :: D). split_and!.
      * rewrite P. apply Permutation_middle.
      * by apply closes_cons.
      * intros c' H'. apply elem_of_cons in H' as [->|H']; [done|].
        rewrite <- (closes_busy _ _ _ c' (closes_one p c)). by apply BD.
    + destruct (close_unused rest p) as [kept' p1'] eqn:R. simplify_eq.
      destruct (IH _ _ _ R) as (D & P & CL & BD). exists D. split_and!; try done. simpl. by constructor.
Qed.

(* close_queue *)
Lemma close_queue_spec n : forall q p q' p1, close_queue n q p = (q', p1) ->
  exists D, q ≡ₚ q' ++ D /\ closes p p1 D /\ (forall c, c ∈ D -> busy_of p c = 0%nat).
Proof.
  induction n as [|n IH]; intros q p q' p1 H.
  - simpl in H. simplify_eq. exists []. rewrite app_nil_r. split_and!; first [done | apply closes_refl | set_solver].
  - destruct q as [|c rest].
    { simpl in H. simplify_eq. exists []. split_and!; first [done | apply closes_refl | set_solver]. }
    simpl in H. destruct (Nat.eqb_spec (busy_of p c) 0) as [B|B].
    + destruct (IH _ _ _ _ H) as (D & P & CL & BD). exists (c :: D). split_and!.
      * rewrite P. apply Permutation_middle.
      * by apply closes_cons.
      * intros c' H'. apply elem_of_cons in H' as [->|H']; [done|].
        rewrite <- (closes_busy _ _ _ c' (closes_one p c)). by apply BD.
    + destruct (IH _ _ _ _ H) as (D & P & CL & BD). exists D. split_and!; try done.
      rewrite <- P. apply Permutation_cons_append.
Qed.

(* ------------------------------------------------------------------ *)
(* the per-address functions preserve the invariant                     *)
(* ------------------------------------------------------------------ *)
Lemma tick_idle_eq now p a :
  tick_idle now p a =
  match p_idle p !! a with
  | Some (q, cap) => let '(q', p1) := expire (length q) now q p in put_idle a q' cap p1
  | None => p
  end.
Proof. reflexivity. Qed.

Lemma close_idle_active_eq p a :
  close_idle_active p a =
  match p_active p !! a with
  | Some (cs, cur) => let '(kept, p1) := close_unused cs p in put_active a kept cur p1
  | None => p
  end.
Proof. reflexivity. Qed.

Lemma close_idle_queue_eq p a :
  close_idle_queue p a =
  match p_idle p !! a with
  | Some (q, cap) => let '(q', p1) := close_queue (length q) q p in put_idle a q' cap p1
  | None => p
  end.
Proof. reflexivity. Qed.

(* generic: replace the idle queue of [a] by a sub-multiset, closing the rest *)
Lemma PInv_put_idle p p1 a q cap q' D :
  PInv p -> p_idle p !! a = Some (q, cap) -> closes p p1 D -> q ≡ₚ q' ++ D -> PInv (put_idle a q' cap p1).
Proof.
  intros I E (M & A & Id & C) P.
  assert (Ei : idle_of p a = q) by (unfold idle_of; by rewrite E).
  apply (PInv_sweep p _ a D I).
  - by rewrite put_idle_meta.
  - by rewrite put_idle_conns.
  - intros a' N. rewrite put_idle_other, put_idle_active, A, Id by done. done.
  - unfold fl. rewrite put_idle_at, (active_of_eq p (put_idle a q' cap p1)) by (by rewrite put_idle_active, A).
    rewrite Ei, P, app_assoc. done.
  - intros q0 cap0 H. apply put_idle_lookup in H as (-> & -> & _).
    destruct (pi_idle_cap _ I _ _ _ E) as [-> L]. split; [done|].
    apply Permutation_length in P. rewrite app_length in P. lia.
  - intros cs cur. rewrite put_idle_active, A. apply I.
Qed.

Lemma PInv_put_active p p1 a cs cur kept D :
  PInv p -> p_active p !! a = Some (cs, cur) -> closes p p1 D -> cs ≡ₚ kept ++ D -> PInv (put_active a kept cur p1).
Proof.
  intros I E (M & A & Id & C) P.
  assert (Ei : active_of p a = cs) by (unfold active_of; by rewrite E).
  apply (PInv_sweep p _ a D I).
  - by rewrite put_active_meta.
  - by rewrite put_active_conns.
  - intros a' N. rewrite put_active_other, put_active_idle, A, Id by done. done.
  - unfold fl. rewrite put_active_at, (idle_of_eq p (put_active a kept cur p1)) by (by rewrite put_active_idle, Id).
    rewrite Ei, P. rewrite <- !app_assoc. apply Permutation_app_head, Permutation_app_comm.
  - intros q0 cap0. rewrite put_active_idle, Id. apply I.
  - intros cs' cur' H. apply put_active_lookup in H. naive_solver.
Qed.

Lemma tick_idle_inv now p a : PInv p -> PInv (tick_idle now p a).
Proof.
  intros I. rewrite tick_idle_eq. destruct (p_idle p !! a) as [[q cap]|] eqn:E; [|done].
  destruct (expire (length q) now q p) as [q' p1] eqn:R.
  destruct (expire_spec _ _ _ _ _ _ R) as (D & -> & CL & _).
  eapply PInv_put_idle; eauto. apply Permutation_app_comm.
Qed.

Lemma close_idle_active_inv p a : PInv p -> PInv (close_idle_active p a).
Proof.
  intros I. rewrite close_idle_active_eq. destruct (p_active p !! a) as [[cs cur]|] eqn:E; [|done].
  destruct (close_unused cs p) as [kept p1] eqn:R.
  destruct (close_unused_spec _ _ _ _ R) as (D & P & CL & _).
  eapply PInv_put_active; eauto.
Qed.

Lemma close_idle_queue_inv p a : PInv p -> PInv (close_idle_queue p a).
Proof.
  intros I. rewrite close_idle_queue_eq. destruct (p_idle p !! a) as [[q cap]|] eqn:E; [|done].
  destruct (close_queue (length q) q p) as [q' p1] eqn:R.
  destruct (close_queue_spec _ _ _ _ _ R) as (D & P & CL & _).
  eapply PInv_put_idle; eauto.
Qed.

Lemma fold_inv {A} (f : pool -> A -> pool) (P : pool -> Prop) l :
  (forall p a, P p -> P (f p a)) -> forall p, P p -> P (fold_left f l p).
Proof. intros H. induction l as [|a l IH]; intros p Hp; simpl; [done|]. apply IH, H, Hp. Qed.

Lemma set_now_inv now p : PInv p -> PInv (set_now now p).
Proof. intros I. destruct I. split; done. Qed.

Lemma tick_inv now p : PInv p -> PInv (tick now p).
Proof.
  intros I. unfold tick. apply fold_inv; [intros; by apply tick_idle_inv|].
  apply fold_inv; [intros; by apply tick_active_inv|]. by apply set_now_inv.
Qed.

Lemma close_idle_inv p : PInv p -> PInv (close_idle p).
Proof.
  intros I. unfold close_idle. apply fold_inv; [intros; by apply close_idle_queue_inv|].
  apply fold_inv; [intros; by apply close_idle_active_inv|]. done.
Qed.

(* ------------------------------------------------------------------ *)
(* record-only updates (CallBegin, CallEnd)                             *)
(* ------------------------------------------------------------------ *)
Lemma active_of_upd_conn c f p a : active_of (upd_conn c f p) a = active_of p a.
Proof. unfold active_of. by rewrite upd_conn_active. Qed.
Lemma idle_of_upd_conn c f p a : idle_of (upd_conn c f p) a = idle_of p a.
Proof. unfold idle_of. by rewrite upd_conn_idle. Qed.
Global Hint Rewrite active_of_upd_conn idle_of_upd_conn : pool.

Definition benign (f : pconn -> pconn) : Prop :=
  forall pc, pc_addr (f pc) = pc_addr pc /\
    ((pc_alive (f pc) = pc_alive pc /\ pc_closed (f pc) = pc_closed pc) \/
     (pc_alive (f pc) = false /\ pc_closed (f pc) = true)).

Lemma lookup_upd_conn c f p (c' : cid) pc1 : p_conns (upd_conn c f p) !! c' = Some pc1 ->
  exists pc, p_conns p !! c' = Some pc /\ ((c' = c /\ pc1 = f pc) \/ (c' <> c /\ pc1 = pc)).
Proof.
  rewrite upd_conn_conns. destruct (decide (c' = c)) as [->|N].
  - rewrite lookup_alter. destruct (p_conns p !! c) as [pc|]; simpl; intros; simplify_eq. eauto.
  - rewrite lookup_alter_ne by done. eauto.
Qed.

Lemma lookup_upd_conn_fwd c f p (c' : cid) pc : p_conns p !! c' = Some pc ->
  p_conns (upd_conn c f p) !! c' = Some (if decide (c' = c) then f pc else pc).
Proof.
  intros E. rewrite upd_conn_conns. case_decide as D.
  - subst. rewrite lookup_alter, E. done.
  - rewrite lookup_alter_ne by done. done.
Qed.

Lemma PInv_upd_conn c f p : PInv p -> benign f -> PInv (upd_conn c f p).
Proof.
  intros I B. split.
  - autorewrite with pool. apply I.
  - intros a c' H. autorewrite with pool in H. destruct (pi_active_addr _ I _ _ H) as (pc & E & A).
    eexists. split; [by apply lookup_upd_conn_fwd|]. case_decide; [|done]. by rewrite (proj1 (B pc)).
  - intros a c' H. autorewrite with pool in H. destruct (pi_idle_addr _ I _ _ H) as (pc & E & A).
    eexists. split; [by apply lookup_upd_conn_fwd|]. case_decide; [|done]. by rewrite (proj1 (B pc)).
  - intros a. autorewrite with pool. apply I.
  - intros a q cap. autorewrite with pool. apply I.
  - intros a cs cur. autorewrite with pool. apply I.
  - intros a. autorewrite with pool. apply I.
  - intros c' pc1 E O. autorewrite with pool.
    apply lookup_upd_conn in E as (pc & E & [[-> ->]|[N ->]]).
    + destruct (B pc) as [A [[_ C]|[_ C]]]; [|congruence]. rewrite A. eapply pi_open_filed; eauto; congruence.
    + eapply pi_open_filed; eauto.
  - intros c' pc1 [a F] E C. autorewrite with pool in F.
    apply lookup_upd_conn in E as (pc & E & [[-> ->]|[N ->]]).
    + destruct (B pc) as [A [[L C']|[L _]]]; [|done]. rewrite L. apply (pi_filed_closed _ I c pc); [by exists a|done|congruence].
    + apply (pi_filed_closed _ I c' pc); [by exists a|done|done].
  - intros c' pc1 E L. apply lookup_upd_conn in E as (pc & E & [[-> ->]|[N ->]]).
    + destruct (B pc) as [A [[L' C']|[_ C']]]; [|done]. rewrite C'. eapply pi_dead_closed; eauto; congruence.
    + eapply pi_dead_closed; eauto.
  - intros c'. autorewrite with pool. rewrite lookup_alter_is_Some. apply I.
Qed.

Lemma benign_busy g : benign (fun pc => pc_busy_set (g pc) pc).
Proof. intros pc. simpl. split; [done|left; done]. Qed.
Lemma benign_last t : benign (pc_set_last t).
Proof. intros pc. simpl. split; [done|left; done]. Qed.
Lemma benign_kill : benign pc_kill.
Proof. intros pc. simpl. split; [done|right; done]. Qed.
Lemma benign_compose f g : benign f -> benign g -> benign (fun pc => f (g pc)).
Proof.
  intros Bf Bg pc. destruct (Bf (g pc)) as [A1 H1], (Bg pc) as [A2 H2]. split; [congruence|].
  destruct H1 as [[? ?]|[? ?]]; [|by right]. destruct H2 as [[? ?]|[? ?]]; [left|right]; split; congruence.
Qed.

(* ------------------------------------------------------------------ *)
(* Transport.Close                                                     *)
(* ------------------------------------------------------------------ *)
Lemma close_all_closes cs : forall p, closes p (close_all cs p) cs.
Proof.
  induction cs as [|c cs IH]; intros p; [apply closes_refl|]. unfold close_all. simpl. apply closes_cons. apply IH.
Qed.

Lemma fold_close_all (g : pool -> addr -> list cid) (f : pool -> addr -> pool) l :
  (forall p a, closes p (f p a) (g p a)) ->
  (forall p p1 D a, closes p p1 D -> g p1 a = g p a) ->
  forall p, exists D, closes p (fold_left f l p) D /\ forall c, c ∈ D <-> exists a, a ∈ l /\ c ∈ g p a.
Proof.
  intros Hf Hg. induction l as [|a l IH]; intros p; simpl.
  - exists []. split; [apply closes_refl|]. intros c. set_solver.
  - destruct (IH (f p a)) as (D & CL & HD). exists (g p a ++ D). split.
    + eapply closes_trans; eauto.
    + intros c. rewrite elem_of_app, HD. split.
      * intros [H|(a' & H1 & H2)]; [exists a; set_solver|]. exists a'. rewrite (Hg _ _ _ a' (Hf p a)) in H2. set_solver.
      * intros (a' & H1 & H2). apply elem_of_cons in H1 as [->|H1]; [by left|right].
        exists a'. rewrite (Hg _ _ _ a' (Hf p a)). done.
Qed.

Lemma elem_of_addrs_of (m : gmap addr (list cid * nat)) (a : addr) : a ∈ addrs_of m <-> is_Some (m !! a).
Proof.
  unfold addrs_of. change (map fst (map_to_list m)) with ((map_to_list m).*1). rewrite elem_of_list_fmap. split.
  - intros ([a' x] & -> & H). apply elem_of_map_to_list in H. simpl. eauto.
  - intros [x H]. exists (a, x). split; [done|]. by apply elem_of_map_to_list.
Qed.

Lemma NoDup_addrs_of (m : gmap addr (list cid * nat)) : NoDup (addrs_of m).
Proof. apply NoDup_fst_map_to_list. Qed.

Definition close_actives (p : pool) (a : addr) : pool :=
  match p_active p !! a with Some (cs, _) => close_all cs p | None => p end.
Definition close_idles (p : pool) (a : addr) : pool :=
  match p_idle p !! a with Some (q, _) => close_all q p | None => p end.

Lemma close_actives_closes p a : closes p (close_actives p a) (active_of p a).
Proof. unfold close_actives, active_of. destruct (p_active p !! a) as [[cs ?]|]; [apply close_all_closes|apply closes_refl]. Qed.
Lemma close_idles_closes p a : closes p (close_idles p a) (idle_of p a).
Proof. unfold close_idles, idle_of. destruct (p_idle p !! a) as [[cs ?]|]; [apply close_all_closes|apply closes_refl]. Qed.

Lemma close_transport_eq p :
  close_transport p =
  if p_closed p then p else
  let p1 := fold_left close_actives (addrs_of (p_active p)) p in
  let p2 := set_active ∅ p1 in
  let p3 := fold_left close_idles (addrs_of (p_idle p2)) p2 in
  set_closed (set_idle ∅ p3).
Proof. reflexivity. Qed.

Lemma close_transport_spec p : p_closed p = false ->
  let p' := close_transport p in
  exists D, cc (p_conns p) (p_conns p') D /\
    (forall c, c ∈ D <-> filed p c) /\
    p_active p' = ∅ /\ p_idle p' = ∅ /\ p_closed p' = true /\
    p_maxconns p' = p_maxconns p /\ p_maxidle p' = p_maxidle p /\ p_next p' = p_next p /\ p_out p' = p_out p /\
    p_now p' = p_now p /\ p_keepalive p' = p_keepalive p /\ p_idleto p' = p_idleto p.
Proof.
  intros NC. rewrite close_transport_eq, NC. cbv zeta.
  destruct (fold_close_all active_of close_actives (addrs_of (p_active p)) close_actives_closes) with (p := p)
    as (D1 & CL1 & HD1).
  { intros q q1 D a (_ & A & _). unfold active_of. by rewrite A. }
  set (p1 := fold_left close_actives (addrs_of (p_active p)) p) in *.
  destruct (fold_close_all idle_of close_idles (addrs_of (p_idle (set_active ∅ p1))) close_idles_closes)
    with (p := set_active ∅ p1) as (D2 & CL2 & HD2).
  { intros q q1 D a (_ & _ & A & _). unfold idle_of. by rewrite A. }
  set (p3 := fold_left close_idles (addrs_of (p_idle (set_active ∅ p1))) (set_active ∅ p1)) in *.
  destruct CL1 as (M1 & A1 & I1 & C1). destruct CL2 as (M2 & A2 & I2 & C2). simpl in *.
  exists (D1 ++ D2). split_and!; try done.
  - eapply cc_trans; eauto.
  - intros c. rewrite elem_of_app, HD1, HD2. unfold filed. split.
    + intros [(a & _ & H)|(a & _ & H)]; exists a; [by left|right]. unfold idle_of in *. simpl in H. by rewrite I1 in H.
    + intros (a & [H|H]); [left|right]; exists a; (split; [|try done]).
      * apply elem_of_addrs_of. unfold active_of in H. destruct (p_active p !! a); [done|set_solver].
      * apply elem_of_addrs_of. rewrite I1. unfold idle_of in H. destruct (p_idle p !! a); [done|set_solver].
      * unfold idle_of in *. simpl. by rewrite I1.
  - rewrite (meta_maxconns _ _ M2). simpl. apply (meta_maxconns _ _ M1).
  - rewrite (meta_maxidle _ _ M2). simpl. apply (meta_maxidle _ _ M1).
  - rewrite (meta_next _ _ M2). simpl. apply (meta_next _ _ M1).
  - rewrite (meta_out _ _ M2). simpl. apply (meta_out _ _ M1).
  - rewrite (meta_now _ _ M2). simpl. apply (meta_now _ _ M1).
  - rewrite (meta_keepalive _ _ M2). simpl. apply (meta_keepalive _ _ M1).
  - rewrite (meta_idleto _ _ M2). simpl. apply (meta_idleto _ _ M1).
Qed.

Lemma close_transport_inv p : PInv p -> PInv (close_transport p).
Proof.
  intros I. destruct (p_closed p) eqn:NC.
  { rewrite close_transport_eq, NC. done. }
  destruct (close_transport_spec p NC) as (D & C & HD & A & Id & _ & Hmc & Hmi & Hn & _).
  set (p' := close_transport p) in *.
  assert (Ha : forall a, active_of p' a = []) by (intros a; unfold active_of; by rewrite A, lookup_empty).
  assert (Hi : forall a, idle_of p' a = []) by (intros a; unfold idle_of; by rewrite Id, lookup_empty).
  split.
  - rewrite Hmc, Hmi. apply I.
  - intros a c. rewrite Ha. set_solver.
  - intros a c. rewrite Hi. set_solver.
  - intros a. rewrite Ha, Hi. simpl. lia.
  - intros a q cap. rewrite Id, lookup_empty. done.
  - intros a cs cur. rewrite A, lookup_empty. done.
  - intros a. rewrite Ha, Hi. constructor.
  - intros c pc1 E O. exfalso.
    destruct (cc_lookup_inv _ _ _ _ _ C E) as (pc & E0 & [[-> N]|[-> _]]); [|done].
    apply N, HD. exists (pc_addr pc). eapply pi_open_filed; eauto.
  - intros c pc1 [a F]. rewrite Ha, Hi in F. set_solver.
  - intros c pc1 E L. destruct (cc_lookup_inv _ _ _ _ _ C E) as (pc & E0 & [[-> N]|[-> _]]); [|done].
    eapply pi_dead_closed; eauto.
  - intros c [pc1 E]. destruct (cc_lookup_inv _ _ _ _ _ C E) as (pc & E0 & _). rewrite Hn. apply I. eauto.
Qed.

(* ------------------------------------------------------------------ *)
(* getConn                                                             *)
(* ------------------------------------------------------------------ *)
Definition fresh (a : addr) (now : Z) : pconn :=
  {| pc_addr := a; pc_alive := true; pc_closed := false; pc_last := now; pc_busy := 0 |}.

(* the records after touching at most one time stamp *)
Definition lastmod (m M : gmap cid pconn) : Prop :=
  M = m \/ exists t c, M = alter (pc_set_last t) c m.

Lemma lastmod_fwd m M (c : cid) pc : lastmod m M -> m !! c = Some pc ->
  exists pc1, M !! c = Some pc1 /\ pc_addr pc1 = pc_addr pc /\ pc_alive pc1 = pc_alive pc /\
    pc_closed pc1 = pc_closed pc /\ pc_busy pc1 = pc_busy pc.
Proof.
  intros [->|(t & c0 & ->)] E; [eauto 10|].
  destruct (decide (c = c0)) as [->|N].
  - rewrite lookup_alter, E. simpl. eauto 10.
  - rewrite lookup_alter_ne by done. eauto 10.
Qed.
Lemma lastmod_none m M (c : cid) : lastmod m M -> m !! c = None -> M !! c = None.
Proof.
  intros [->|(t & c0 & ->)] E; [done|].
  destruct (decide (c = c0)) as [->|N].
  - rewrite lookup_alter, E. done.
  - rewrite lookup_alter_ne by done. done.
Qed.

(* what getConn does, seen from address [a]: [Kp] stays filed, the dead [Dd] are dropped,
   the newly dialed [Nn] is filed *)
Record gc_shape (p p' : pool) (a : addr) (now : Z) (Kp Dd Nn : list cid) : Prop := {
  gs_maxconns : p_maxconns p' = p_maxconns p;
  gs_maxidle : p_maxidle p' = p_maxidle p;
  gs_keepalive : p_keepalive p' = p_keepalive p;
  gs_idleto : p_idleto p' = p_idleto p;
  gs_now : p_now p' = p_now p;
  gs_closed : p_closed p' = p_closed p;
  gs_other : forall a' : addr, a' <> a -> p_active p' !! a' = p_active p !! a' /\ p_idle p' !! a' = p_idle p !! a';
  gs_conns : exists M, lastmod (p_conns p) M /\
     ((Nn = [] /\ p_conns p' = M /\ p_next p' = p_next p) \/
      (Nn = [p_next p] /\ p_conns p' = <[p_next p := fresh a now]> M /\ p_next p' = S (p_next p)));
  gs_old : fl p a ≡ₚ Kp ++ Dd;
  gs_new : fl p' a ≡ₚ Kp ++ Nn;
  gs_dead : forall c, c ∈ Dd -> alive_of p c = false;
  gs_len : (length Nn <= length Dd)%nat \/ (length (fl p a) < p_maxconns p)%nat;
  gs_cap : forall q cap, p_idle p' !! a = Some (q, cap) -> cap = p_maxidle p /\ (length q <= cap)%nat;
  gs_ne : forall cs cur, p_active p' !! a = Some (cs, cur) -> cs <> []
}.

Lemma gc_shape_old p p' a now Kp Dd Nn (c : cid) pc : PInv p -> gc_shape p p' a now Kp Dd Nn ->
  p_conns p !! c = Some pc ->
  exists pc1, p_conns p' !! c = Some pc1 /\ pc_addr pc1 = pc_addr pc /\ pc_alive pc1 = pc_alive pc /\
    pc_closed pc1 = pc_closed pc /\ pc_busy pc1 = pc_busy pc.
Proof.
  intros I S E. destruct (gs_conns _ _ _ _ _ _ _ S) as (M & LM & [(_ & -> & _)|(_ & -> & _)]).
  - eapply lastmod_fwd; eauto.
  - rewrite lookup_insert_ne; [eapply lastmod_fwd; eauto|].
    intros <-. assert (p_next p < p_next p)%nat by (apply I; eauto). lia.
Qed.

Lemma gc_shape_inv p p' a now Kp Dd Nn : PInv p -> gc_shape p p' a now Kp Dd Nn -> PInv p'.
Proof.
  intros I S. assert (Hold := fun c pc => gc_shape_old p p' a now Kp Dd Nn c pc I S). destruct S.
  assert (Hn : p_conns p !! p_next p = None).
  { destruct (p_conns p !! p_next p) eqn:E; [|done]. assert (p_next p < p_next p)%nat by (apply I; eauto). lia. }
  assert (HKp : forall c, c ∈ Kp -> c ∈ fl p a) by (intros c; rewrite gs_old0; set_solver).
  assert (HKn : p_next p ∉ Kp).
  { intros F. apply HKp in F. destruct (fl_rec _ _ _ I F) as (? & ? & _). congruence. }
  assert (NDK : NoDup Kp).
  { pose proof (pi_nodup _ I a) as ND. fold (fl p a) in ND. rewrite gs_old0 in ND. by apply NoDup_app in ND as (? & _). }
  destruct gs_conns0 as (M & LM & HM).
  apply (PInv_local p p' a); try done.
  - destruct HM as [(_ & _ & ->)|(_ & _ & ->)]; lia.
  - intros c pc E. destruct (Hold c pc E) as (pc1 & ? & ? & ? & ? & ?). eauto 10.
  - intros c pc1 E1 E. destruct HM as [(_ & EM & _)|(-> & EM & EN)]; rewrite EM in E1.
    + rewrite (lastmod_none _ _ _ LM E) in E1. done.
    + rewrite EN. destruct (decide (c = p_next p)) as [->|N].
      * rewrite lookup_insert in E1. simplify_eq. simpl. split_and!; try done; [lia|]. rewrite gs_new0. set_solver.
      * rewrite lookup_insert_ne in E1 by done. rewrite (lastmod_none _ _ _ LM E) in E1. done.
  - intros c F. rewrite gs_new0 in F. apply elem_of_app in F as [F|F]; [left; by apply HKp|right].
    destruct HM as [(-> & _)|(-> & EM & _)]; [set_solver|].
    apply elem_of_list_singleton in F as ->. split; [done|]. rewrite EM, lookup_insert. eauto.
  - rewrite gs_new0. apply NoDup_app. split_and!; [done| |].
    + intros c F1 F2. destruct HM as [(-> & _)|(-> & _)]; [set_solver|].
      apply elem_of_list_singleton in F2 as ->. done.
    + destruct HM as [(-> & _)|(-> & _)]; [constructor|apply NoDup_singleton].
  - pose proof (pi_total _ I a) as T. rewrite <- !app_length in *. fold (fl p a) in *. fold (fl p' a).
    rewrite gs_new0. rewrite gs_old0 in *. rewrite !app_length in *.
    assert (length Nn <= 1)%nat by (destruct HM as [(-> & _)|(-> & _)]; simpl; lia). lia.
  - intros c F. rewrite gs_old0 in F. apply elem_of_app in F as [F|F].
    + left. rewrite gs_new0. set_solver.
    + right. pose proof (gs_dead0 _ F) as Dc. unfold alive_of in Dc.
      assert (Fc : c ∈ fl p a) by (rewrite gs_old0; set_solver).
      destruct (fl_rec _ _ _ I Fc) as (pc & E & _). rewrite E in Dc.
      destruct (Hold c pc E) as (pc1 & E1 & _ & _ & C1 & _).
      unfold is_open. rewrite E1, C1, (pi_dead_closed _ I _ _ E Dc). done.
Qed.

Definition gc_out (p p' : pool) (a : addr) (ok : bool) : Prop :=
  exists o, p_out p' = p_out p ++ [o] /\
    match o with
    | Some c => exists pc, p_conns p' !! c = Some pc /\ pc_addr pc = a /\ pc_alive pc = true /\ pc_closed pc = false /\
                           c ∈ active_of p' a
    | None => ok = false
    end.

Definition acquire (a : addr) (ok : bool) (now t : Z) (cs : list cid) (cur : nat) (p : pool) : pool :=
  match idle_dequeue a p with
  | Some (c, p1) =>
      let p2 := upd_conn c (pc_set_last t) p1 in
      if alive_of p2 c then push_out (Some c) (set_active (<[a := (cs ++ [c], cur)]> (p_active p2)) p2)
      else match dial a ok now p2 with
           | Some (c', p3) => push_out (Some c') (set_active (<[a := (cs ++ [c'], cur)]> (p_active p3)) p3)
           | None => push_out None p2
           end
  | None =>
      match dial a ok now p with
      | Some (c', p3) => push_out (Some c') (set_active (<[a := (cs ++ [c'], cur)]> (p_active p3)) p3)
      | None => push_out None p
      end
  end.

Definition round_robin (a : addr) (ok : bool) (now : Z) (cs : list cid) (cur : nat) (p : pool) : pool :=
  let cur' := next_cursor cur (length cs) in
  let p0 := set_active (<[a := (cs, cur')]> (p_active p)) p in
  match cs !! cur' with
  | Some c =>
      if alive_of p0 c then push_out (Some c) p0
      else match dial a ok now p0 with
           | Some (c', p3) => push_out (Some c') (set_active (<[a := (<[cur' := c']> cs, cur')]> (p_active p3)) p3)
           | None => push_out None p0
           end
  | None => push_out None p0
  end.

Lemma get_conn_eq a ok now p :
  get_conn a ok now p =
  match p_active p !! a with
  | Some (cs, cur) =>
      if Nat.ltb (length cs) (p_maxconns p) then acquire a ok now (p_now p) cs cur p
      else round_robin a ok now cs cur p
  | None => acquire a ok now now [] 0%nat p
  end.
Proof. reflexivity. Qed.

Lemma idle_dequeue_some a p c p1 : idle_dequeue a p = Some (c, p1) ->
  exists rest cap, p_idle p !! a = Some (c :: rest, cap) /\ p1 = set_idle (<[a := (rest, cap)]> (p_idle p)) p.
Proof.
  unfold idle_dequeue. destruct (p_idle p !! a) as [[[|c' rest] cap]|]; intros; simplify_eq. eauto.
Qed.
Lemma idle_dequeue_none a p : idle_dequeue a p = None -> idle_of p a = [].
Proof.
  unfold idle_dequeue, idle_of. destruct (p_idle p !! a) as [[[|c' rest] cap]|]; intros; simplify_eq; done.
Qed.

Lemma alive_of_upd_last c t p c' : alive_of (upd_conn c (pc_set_last t) p) c' = alive_of p c'.
Proof.
  unfold alive_of. rewrite upd_conn_conns. destruct (decide (c' = c)) as [->|N].
  - rewrite lookup_alter. destruct (p_conns p !! c); done.
  - rewrite lookup_alter_ne by done. done.
Qed.

Ltac gc_simpl := repeat (progress (simpl; autorewrite with pool)).
