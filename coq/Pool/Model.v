(* Pool/Model.v — Transport (transport.go): getConn, checkPersistConnErr,
   the housekeeping tick of run(), CloseIdleConnections, Close.

   Every Transport method body runs under connsMu, so one action is one
   whole method body; marking a connection dead and closing it is one
   action too (both happen under the connection's own lock, which getConn
   takes to test liveness).  Dial outcomes, the clock and the number of
   outstanding calls of a connection (Conn.NumCalls) are inputs. *)
From stdpp Require Import gmap.
From RPC Require Import Res.
From RPC Require Generated.
Open Scope Z_scope.

Definition addr := nat.
Definition cid := nat.

Record pconn := {
  pc_addr : addr;      (* the address it was dialed to *)
  pc_alive : bool;     (* persistConn.alive *)
  pc_closed : bool;    (* Close has been called on it by the pool *)
  pc_last : Z;         (* lastTime *)
  pc_busy : nat        (* Conn.NumCalls(): pending calls or open streams (environment) *)
}.

Record pool := {
  p_maxconns : nat;    (* normalised MaxConnsPerHost *)
  p_maxidle : nat;     (* normalised MaxIdleConnsPerHost *)
  p_keepalive : Z;
  p_idleto : Z;
  p_now : Z;           (* t.now: the clock of the last tick *)
  p_conns : gmap cid pconn;         (* every connection ever dialed *)
  p_next : cid;
  p_active : gmap addr (list cid * nat);   (* t.conns: list and cursor *)
  p_idle : gmap addr (list cid * nat);     (* t.idleConns: queue (front first) and capacity *)
  p_closed : bool;     (* Transport.Close has run *)
  p_out : list (option cid)   (* results of getConn: Some id, or None = ErrDial *)
}.

(* normalisation of the limits (first use of the Transport) *)
Definition norm_maxconns (m : Z) : nat :=
  if m <? 1 then Z.to_nat Generated.c_DefaultMaxConnsPerHost else Z.to_nat m.
Definition norm_maxidle (i m : Z) : nat :=
  if i <? 1 then Z.to_nat Generated.c_DefaultMaxIdleConnsPerHost
  else if Z.of_nat (norm_maxconns m) <? i then norm_maxconns m else Z.to_nat i.
Definition norm_dur (d def : Z) : Z := if d <=? 0 then def else d.

Definition init (maxconns maxidle keepalive idleto now : Z) : pool := {|
  p_maxconns := norm_maxconns maxconns;
  p_maxidle := norm_maxidle maxidle maxconns;
  p_keepalive := norm_dur keepalive Generated.c_DefaultKeepAlive;
  p_idleto := norm_dur idleto Generated.c_DefaultIdleConnTimeout;
  p_now := now; p_conns := ∅; p_next := 0%nat; p_active := ∅; p_idle := ∅; p_closed := false; p_out := [] |}.

Inductive action :=
| GetConn (a : addr) (dial_ok : bool) (now : Z)  (* getConn(addr); the dial, if any, succeeds? *)
| CallBegin (c : cid)                 (* a call / stream registers on the connection *)
| CallEnd (c : cid) (shutdown : bool) (* it ends; ErrShutdown => checkPersistConnErr *)
| StreamEnd (c : cid)                 (* a stream registered on the connection is closed by its owner: one occupant fewer;
                                         unlike CallEnd it does not refresh lastTime and never marks the connection dead *)
| Tick (now : Z)                      (* one housekeeping round at this clock *)
| CloseIdle                           (* CloseIdleConnections *)
| Close.                              (* Transport.Close *)

(* ---- setters ---- *)
Definition set_conns (f : gmap cid pconn) (p : pool) : pool :=
  {| p_maxconns := p_maxconns p; p_maxidle := p_maxidle p; p_keepalive := p_keepalive p; p_idleto := p_idleto p;
     p_now := p_now p; p_conns := f; p_next := p_next p; p_active := p_active p; p_idle := p_idle p;
     p_closed := p_closed p; p_out := p_out p |}.
Definition set_active (f : gmap addr (list cid * nat)) (p : pool) : pool :=
  {| p_maxconns := p_maxconns p; p_maxidle := p_maxidle p; p_keepalive := p_keepalive p; p_idleto := p_idleto p;
     p_now := p_now p; p_conns := p_conns p; p_next := p_next p; p_active := f; p_idle := p_idle p;
     p_closed := p_closed p; p_out := p_out p |}.
Definition set_idle (f : gmap addr (list cid * nat)) (p : pool) : pool :=
  {| p_maxconns := p_maxconns p; p_maxidle := p_maxidle p; p_keepalive := p_keepalive p; p_idleto := p_idleto p;
     p_now := p_now p; p_conns := p_conns p; p_next := p_next p; p_active := p_active p; p_idle := f;
     p_closed := p_closed p; p_out := p_out p |}.
Definition set_now (n : Z) (p : pool) : pool :=
  {| p_maxconns := p_maxconns p; p_maxidle := p_maxidle p; p_keepalive := p_keepalive p; p_idleto := p_idleto p;
     p_now := n; p_conns := p_conns p; p_next := p_next p; p_active := p_active p; p_idle := p_idle p;
     p_closed := p_closed p; p_out := p_out p |}.
Definition set_closed (p : pool) : pool :=
  {| p_maxconns := p_maxconns p; p_maxidle := p_maxidle p; p_keepalive := p_keepalive p; p_idleto := p_idleto p;
     p_now := p_now p; p_conns := p_conns p; p_next := p_next p; p_active := p_active p; p_idle := p_idle p;
     p_closed := true; p_out := p_out p |}.
Definition push_out (o : option cid) (p : pool) : pool :=
  {| p_maxconns := p_maxconns p; p_maxidle := p_maxidle p; p_keepalive := p_keepalive p; p_idleto := p_idleto p;
     p_now := p_now p; p_conns := p_conns p; p_next := p_next p; p_active := p_active p; p_idle := p_idle p;
     p_closed := p_closed p; p_out := p_out p ++ [o] |}.

Definition upd_conn (c : cid) (f : pconn -> pconn) (p : pool) : pool :=
  match p_conns p !! c with
  | Some pc => set_conns (<[c := f pc]> (p_conns p)) p
  | None => p
  end.

Definition pc_set_last (t : Z) (pc : pconn) : pconn :=
  {| pc_addr := pc_addr pc; pc_alive := pc_alive pc; pc_closed := pc_closed pc; pc_last := t; pc_busy := pc_busy pc |}.
Definition pc_close (pc : pconn) : pconn :=
  {| pc_addr := pc_addr pc; pc_alive := pc_alive pc; pc_closed := true; pc_last := pc_last pc; pc_busy := pc_busy pc |}.
Definition pc_kill (pc : pconn) : pconn :=
  {| pc_addr := pc_addr pc; pc_alive := false; pc_closed := true; pc_last := pc_last pc; pc_busy := pc_busy pc |}.
Definition pc_busy_set (n : nat) (pc : pconn) : pconn :=
  {| pc_addr := pc_addr pc; pc_alive := pc_alive pc; pc_closed := pc_closed pc; pc_last := pc_last pc; pc_busy := n |}.

Definition alive_of (p : pool) (c : cid) : bool :=
  match p_conns p !! c with Some pc => pc_alive pc | None => false end.
Definition busy_of (p : pool) (c : cid) : nat :=
  match p_conns p !! c with Some pc => pc_busy pc | None => 0%nat end.
Definition last_of (p : pool) (c : cid) : Z :=
  match p_conns p !! c with Some pc => pc_last pc | None => 0 end.

(* newPersistConn: dial; Some (new id, pool) or None = ErrDial *)
Definition dial (a : addr) (ok : bool) (now : Z) (p : pool) : option (cid * pool) :=
  if ok then
    let c := p_next p in
    let pc := {| pc_addr := a; pc_alive := true; pc_closed := false; pc_last := now; pc_busy := 0 |} in
    Some (c, {| p_maxconns := p_maxconns p; p_maxidle := p_maxidle p; p_keepalive := p_keepalive p; p_idleto := p_idleto p;
                p_now := p_now p; p_conns := <[c := pc]> (p_conns p); p_next := S c; p_active := p_active p;
                p_idle := p_idle p; p_closed := p_closed p; p_out := p_out p |})
  else None.

(* conns.Cursor(): advance, wrap *)
Definition next_cursor (cur len : nat) : nat := if Nat.ltb (len - 1) (S cur) then 0%nat else S cur.

Definition idle_dequeue (a : addr) (p : pool) : option (cid * pool) :=
  match p_idle p !! a with
  | Some (c :: rest, cap) => Some (c, set_idle (<[a := (rest, cap)]> (p_idle p)) p)
  | _ => None
  end.

Definition get_conn (a : addr) (dial_ok : bool) (now : Z) (p : pool) : pool :=
  match p_active p !! a with
  | Some (cs, cur) =>
      if Nat.ltb (length cs) (p_maxconns p) then
        (* below the limit: reuse an idle connection or dial *)
        match idle_dequeue a p with
        | Some (c, p1) =>
            let p2 := upd_conn c (pc_set_last (p_now p)) p1 in
            if alive_of p2 c then push_out (Some c) (set_active (<[a := (cs ++ [c], cur)]> (p_active p2)) p2)
            else match dial a dial_ok now p2 with
                 | Some (c', p3) => push_out (Some c') (set_active (<[a := (cs ++ [c'], cur)]> (p_active p3)) p3)
                 | None => push_out None p2
                 end
        | None =>
            match dial a dial_ok now p with
            | Some (c', p3) => push_out (Some c') (set_active (<[a := (cs ++ [c'], cur)]> (p_active p3)) p3)
            | None => push_out None p
            end
        end
      else
        (* at the limit: round robin, replacing a dead entry in place *)
        let cur' := next_cursor cur (length cs) in
        let p0 := set_active (<[a := (cs, cur')]> (p_active p)) p in
        match cs !! cur' with
        | Some c =>
            if alive_of p0 c then push_out (Some c) p0
            else match dial a dial_ok now p0 with
                 | Some (c', p3) => push_out (Some c') (set_active (<[a := (<[cur' := c']> cs, cur')]> (p_active p3)) p3)
                 | None => push_out None p0
                 end
        | None => push_out None p0   (* unreachable: the list is non-empty *)
        end
  | None =>
      (* first use of the address (or all its connections were retired) *)
      match idle_dequeue a p with
      | Some (c, p1) =>
          let p2 := upd_conn c (pc_set_last now) p1 in
          if alive_of p2 c then push_out (Some c) (set_active (<[a := ([c], 0%nat)]> (p_active p2)) p2)
          else match dial a dial_ok now p2 with
               | Some (c', p3) => push_out (Some c') (set_active (<[a := ([c'], 0%nat)]> (p_active p3)) p3)
               | None => push_out None p2
               end
      | None =>
          match dial a dial_ok now p with
          | Some (c', p3) => push_out (Some c') (set_active (<[a := ([c'], 0%nat)]> (p_active p3)) p3)
          | None => push_out None p
          end
      end
  end.

(* ---- housekeeping ---- *)
(* first loop, one address: retire connections older than KeepAlive with no outstanding call *)
Fixpoint retire (a : addr) (now : Z) (cs : list cid) (p : pool) : list cid * pool :=
  match cs with
  | [] => ([], p)
  | c :: rest =>
      if (last_of p c + p_keepalive p <? now) && Nat.eqb (busy_of p c) 0 then
        let p1 :=
          match p_idle p !! a with
          | Some (q, cap) =>
              if Nat.eqb (length q) cap then upd_conn c pc_close p   (* queue full: close *)
              else set_idle (<[a := (q ++ [c], cap)]> (p_idle p)) p
          | None => set_idle (<[a := ([c], p_maxidle p)]> (p_idle p)) p
          end in
        retire a now rest p1
      else
        let '(kept, p1) := retire a now rest p in (c :: kept, p1)
  end.

Definition tick_active (now : Z) (p : pool) (a : addr) : pool :=
  match p_active p !! a with
  | Some (cs, cur) =>
      let '(kept, p1) := retire a now cs p in
      match kept with
      | [] => set_active (delete a (p_active p1)) p1
      | _ => set_active (<[a := (kept, cur)]> (p_active p1)) p1
      end
  | None => p
  end.

(* second loop, one address: "test the rear, close the front", length times;
   the front is spared while it still carries a call *)
Fixpoint expire (n : nat) (now : Z) (q : list cid) (p : pool) : list cid * pool :=
  match n with
  | O => (q, p)
  | S n' =>
      match list.last q, q with
      | Some r, c :: rest =>
          if (last_of p r + p_idleto p <? now) && Nat.eqb (busy_of p c) 0
          then expire n' now rest (upd_conn c pc_close p)
          else expire n' now q p
      | _, _ => (q, p)
      end
  end.

Definition tick_idle (now : Z) (p : pool) (a : addr) : pool :=
  match p_idle p !! a with
  | Some (q, cap) =>
      let '(q', p1) := expire (length q) now q p in
      match q' with
      | [] => set_idle (delete a (p_idle p1)) p1
      | _ => set_idle (<[a := (q', cap)]> (p_idle p1)) p1
      end
  | None => p
  end.

Definition addrs_of (m : gmap addr (list cid * nat)) : list addr := map fst (map_to_list m).

Definition tick (now : Z) (p : pool) : pool :=
  let p0 := set_now now p in
  let p1 := fold_left (tick_active now) (addrs_of (p_active p0)) p0 in
  fold_left (tick_idle now) (addrs_of (p_idle p1)) p1.

(* CloseIdleConnections *)
Fixpoint close_unused (cs : list cid) (p : pool) : list cid * pool :=
  match cs with
  | [] => ([], p)
  | c :: rest =>
      if Nat.eqb (busy_of p c) 0 then close_unused rest (upd_conn c pc_close p)
      else let '(kept, p1) := close_unused rest p in (c :: kept, p1)
  end.

Definition close_idle_active (p : pool) (a : addr) : pool :=
  match p_active p !! a with
  | Some (cs, cur) =>
      let '(kept, p1) := close_unused cs p in
      match kept with
      | [] => set_active (delete a (p_active p1)) p1
      | _ => set_active (<[a := (kept, cur)]> (p_active p1)) p1
      end
  | None => p
  end.

Definition close_all (cs : list cid) (p : pool) : pool := fold_left (fun p c => upd_conn c pc_close p) cs p.

(* CloseIdleConnections, idle queues: dequeue each entry once; close it, or
   re-enqueue it at the rear while it still carries a call *)
Fixpoint close_queue (n : nat) (q : list cid) (p : pool) : list cid * pool :=
  match n, q with
  | S n', c :: rest =>
      if Nat.eqb (busy_of p c) 0 then close_queue n' rest (upd_conn c pc_close p)
      else close_queue n' (rest ++ [c]) p
  | _, _ => (q, p)
  end.

Definition close_idle_queue (p : pool) (a : addr) : pool :=
  match p_idle p !! a with
  | Some (q, cap) =>
      let '(q', p1) := close_queue (length q) q p in
      match q' with
      | [] => set_idle (delete a (p_idle p1)) p1
      | _ => set_idle (<[a := (q', cap)]> (p_idle p1)) p1
      end
  | None => p
  end.

Definition close_idle (p : pool) : pool :=
  let p1 := fold_left close_idle_active (addrs_of (p_active p)) p in
  fold_left close_idle_queue (addrs_of (p_idle p1)) p1.

Definition close_transport (p : pool) : pool :=
  if p_closed p then p else
  let p1 := fold_left (fun p a => match p_active p !! a with Some (cs, _) => close_all cs p | None => p end)
                      (addrs_of (p_active p)) p in
  let p2 := set_active ∅ p1 in
  let p3 := fold_left (fun p a => match p_idle p !! a with Some (q, _) => close_all q p | None => p end)
                      (addrs_of (p_idle p2)) p2 in
  set_closed (set_idle ∅ p3).

Definition step (p : pool) (a : action) : pool :=
  match a with
  | GetConn ad ok now => get_conn ad ok now p
  | CallBegin c => upd_conn c (fun pc => pc_busy_set (S (pc_busy pc)) pc) p
  | CallEnd c sh =>
      let p1 := upd_conn c (fun pc => pc_set_last (p_now p) (pc_busy_set (pc_busy pc - 1) pc)) p in
      if sh then upd_conn c pc_kill p1 else p1
  | StreamEnd c => upd_conn c (fun pc => pc_busy_set (pc_busy pc - 1) pc) p
  | Tick now => tick now p
  | CloseIdle => close_idle p
  | Close => close_transport p
  end.

Definition run (tr : list action) (p : pool) : pool := fold_left step tr p.

(* ---- observables ---- *)
Definition active_of (p : pool) (a : addr) : list cid :=
  match p_active p !! a with Some (cs, _) => cs | None => [] end.
Definition idle_of (p : pool) (a : addr) : list cid :=
  match p_idle p !! a with Some (q, _) => q | None => [] end.
Definition is_open (p : pool) (c : cid) : bool :=
  match p_conns p !! c with Some pc => negb (pc_closed pc) | None => false end.
(* connections dialed to [a] and not yet closed locally *)
Definition open_to (p : pool) (a : addr) : list cid :=
  map fst (filter (fun x => Nat.eqb (pc_addr (snd x)) a && negb (pc_closed (snd x))) (map_to_list (p_conns p))).
