(* Pool/InvGetConn.v — getConn: shape of every branch, invariance and result. *)
From stdpp Require Import gmap.
From RPC Require Import Res.
From RPC.Pool Require Import Model InvLemmas.
Open Scope Z_scope.
Local Notation NoDup := base.NoDup (only parsing).

Ltac gs_other := let a' := fresh "a'" in let N := fresh "N" in
  intros a' N; gc_simpl; rewrite ?lookup_insert_ne by done; done.
Ltac gs_split := split; gc_simpl; [done..| | | | | | | | ].
Ltac unfold_fl := unfold fl, active_of, idle_of; gc_simpl; rewrite ?lookup_insert.

Lemma app_cons_not_nil {A} (l : list A) x : l ++ [x] <> [].
Proof. by destruct l. Qed.

Lemma acquire_shape p a ok now t cs cur : PInv p ->
  active_of p a = cs -> (length cs < p_maxconns p)%nat ->
  let p' := acquire a ok now t cs cur p in
  (exists Kp Dd Nn, gc_shape p p' a now Kp Dd Nn) /\ gc_out p p' a ok.
Proof.
  intros I Ecs Lcs. unfold acquire. destruct (idle_dequeue a p) as [[c p1]|] eqn:DQ.
  - apply idle_dequeue_some in DQ as (rest & cap & Ei & ->). cbv zeta.
    assert (Eidle : idle_of p a = c :: rest) by (unfold idle_of; by rewrite Ei).
    destruct (pi_idle_addr _ I a c) as (pc & Ec & Ac); [rewrite Eidle; set_solver|].
    destruct (pi_idle_cap _ I _ _ _ Ei) as [-> Lq].
    assert (Efl : fl p a = cs ++ c :: rest) by (unfold fl; by rewrite Ecs, Eidle).
    rewrite alive_of_upd_last.
    assert (EA : alive_of (set_idle (<[a:=(rest, p_maxidle p)]> (p_idle p)) p) c = pc_alive pc).
    { unfold alive_of. simpl. by rewrite Ec. }
    rewrite EA. clear EA.
    assert (Hcap : forall q cap, <[a:=(rest, p_maxidle p)]> (p_idle p) !! a = Some (q, cap) ->
                     cap = p_maxidle p /\ (length q <= cap)%nat).
    { intros q' cap'. rewrite lookup_insert. intros; simplify_eq. simpl in Lq. split; [done|lia]. }
    destruct (pc_alive pc) eqn:AL.
    + (* reuse the idle connection *) split.
      * exists (fl p a), [], []. gs_split.
        -- gs_other.
        -- eexists. split; [right; eexists _, _; reflexivity|]. left. done.
        -- by rewrite app_nil_r.
        -- rewrite Efl, app_nil_r. unfold_fl. rewrite <- app_assoc. done.
        -- set_solver.
        -- left. lia.
        -- done.
        -- intros cs0 cur0. rewrite lookup_insert. intros; simplify_eq. apply app_cons_not_nil.
      * exists (Some c). gc_simpl. split; [done|]. rewrite lookup_alter, Ec. simpl.
        eexists. split; [done|]. simpl. split_and!; try done.
        -- destruct (pc_closed pc) eqn:CL; [|done].
           rewrite (pi_filed_closed _ I c pc) in AL; [done| |done|done]. exists a. right. rewrite Eidle. set_solver.
        -- unfold active_of. gc_simpl. rewrite lookup_insert. set_solver.
    + (* the idle connection is dead: drop it and dial *)
      assert (Dc : forall c0, c0 ∈ [c] -> alive_of p c0 = false).
      { intros c0 H. apply elem_of_list_singleton in H as ->. unfold alive_of. by rewrite Ec. }
      destruct ok; simpl dial; cbv iota beta.
      * split.
        -- exists (cs ++ rest), [c], [p_next p]. gs_split.
           ++ gs_other.
           ++ eexists. split; [right; eexists _, _; reflexivity|]. right. done.
           ++ rewrite Efl. rewrite <- app_assoc. apply Permutation_app_head. apply Permutation_cons_append.
           ++ unfold_fl. rewrite <- !app_assoc. apply Permutation_app_head. apply Permutation_app_comm.
           ++ done.
           ++ left. simpl. lia.
           ++ done.
           ++ intros cs0 cur0. rewrite lookup_insert. intros; simplify_eq. apply app_cons_not_nil.
        -- exists (Some (p_next p)). gc_simpl. split; [done|]. rewrite lookup_insert.
           eexists. split; [done|]. simpl. split_and!; try done.
           unfold active_of. gc_simpl. rewrite lookup_insert. set_solver.
      * split.
        -- exists (cs ++ rest), [c], []. gs_split.
           ++ gs_other.
           ++ eexists. split; [right; eexists _, _; reflexivity|]. left. done.
           ++ rewrite Efl. rewrite <- app_assoc. apply Permutation_app_head. apply Permutation_cons_append.
           ++ unfold_fl. fold (active_of p a). rewrite Ecs, app_nil_r. done.
           ++ done.
           ++ left. simpl. lia.
           ++ done.
           ++ apply I.
        -- exists None. gc_simpl. done.
  - (* nothing idle: dial *)
    apply idle_dequeue_none in DQ.
    assert (Efl : fl p a = cs) by (unfold fl; by rewrite Ecs, DQ, app_nil_r).
    destruct ok; simpl dial; cbv iota beta.
    + split.
      * exists cs, [], [p_next p]. gs_split.
        -- gs_other.
        -- eexists. split; [left; reflexivity|]. right. done.
        -- by rewrite Efl, app_nil_r.
        -- unfold_fl. fold (idle_of p a). rewrite DQ, app_nil_r. done.
        -- set_solver.
        -- right. rewrite Efl. done.
        -- apply I.
        -- intros cs0 cur0. rewrite lookup_insert. intros; simplify_eq. apply app_cons_not_nil.
      * exists (Some (p_next p)). gc_simpl. split; [done|]. rewrite lookup_insert.
        eexists. split; [done|]. simpl. split_and!; try done.
        unfold active_of. gc_simpl. rewrite lookup_insert. set_solver.
    + split.
      * exists cs, [], []. gs_split.
        -- done.
        -- eexists. split; [left; reflexivity|]. left. done.
        -- by rewrite Efl, app_nil_r.
        -- change (fl (push_out None p) a) with (fl p a). by rewrite Efl, app_nil_r.
        -- set_solver.
        -- left. lia.
        -- apply I.
        -- apply I.
      * exists None. gc_simpl. done.
Qed.

Lemma next_cursor_lt cur len : (0 < len)%nat -> (next_cursor cur len < len)%nat.
Proof. intros H. unfold next_cursor. destruct (Nat.ltb_spec (len - 1) (S cur)); lia. Qed.

Lemma round_robin_shape p a ok now cs cur : PInv p ->
  p_active p !! a = Some (cs, cur) ->
  let p' := round_robin a ok now cs cur p in
  (exists Kp Dd Nn, gc_shape p p' a now Kp Dd Nn) /\ gc_out p p' a ok.
Proof.
  intros I Ea. unfold round_robin. cbv zeta.
  assert (Ecs : active_of p a = cs) by (unfold active_of; by rewrite Ea).
  assert (Ne : cs <> []) by (eapply pi_active_nonempty; eauto).
  set (i := next_cursor cur (length cs)).
  assert (Li : (i < length cs)%nat) by (apply next_cursor_lt; destruct cs; simpl; [done|lia]).
  destruct (lookup_lt_is_Some_2 cs i Li) as [c Ec]. rewrite Ec.
  assert (Hc : c ∈ cs) by (eapply elem_of_list_lookup_2; eauto).
  destruct (pi_active_addr _ I a c) as (pc & Erc & Ac); [by rewrite Ecs|].
  assert (EA : alive_of (set_active (<[a:=(cs, i)]> (p_active p)) p) c = pc_alive pc).
  { unfold alive_of. simpl. by rewrite Erc. }
  rewrite EA. clear EA.
  assert (Efl : fl (set_active (<[a:=(cs, i)]> (p_active p)) p) a = fl p a).
  { unfold fl at 1. unfold active_of at 1. simpl. rewrite lookup_insert. unfold fl. by rewrite Ecs. }
  assert (Hne : forall cs0 cur0, <[a:=(cs, i)]> (p_active p) !! a = Some (cs0, cur0) -> cs0 <> []).
  { intros cs0 cur0. rewrite lookup_insert. intros; by simplify_eq. }
  destruct (pc_alive pc) eqn:AL.
  - (* the entry under the cursor is live *) split.
    + exists (fl p a), [], []. gs_split.
      * gs_other.
      * eexists. split; [left; reflexivity|]. left. done.
      * by rewrite app_nil_r.
      * rewrite app_nil_r, <- Efl. reflexivity.
      * set_solver.
      * left. lia.
      * apply I.
      * done.
    + exists (Some c). gc_simpl. split; [done|]. exists pc. split_and!; try done.
      * destruct (pc_closed pc) eqn:CL; [|done].
        rewrite (pi_filed_closed _ I c pc) in AL; [done| |done|done]. exists a. left. by rewrite Ecs.
      * unfold active_of. simpl. by rewrite lookup_insert.
  - destruct ok; simpl dial; cbv iota beta.
    + (* replace the dead entry in place *)
      set (K0 := take i cs ++ drop (S i) cs).
      assert (P1 : cs ≡ₚ c :: K0).
      { rewrite <- (take_drop_middle cs i c Ec) at 1. unfold K0. symmetry. apply Permutation_middle. }
      assert (P2 : <[i:=p_next p]> cs ≡ₚ p_next p :: K0).
      { rewrite insert_take_drop by done. unfold K0. symmetry. apply Permutation_middle. }
      split.
      * exists (K0 ++ idle_of p a), [c], [p_next p]. gs_split.
        -- gs_other.
        -- eexists. split; [left; reflexivity|]. right. done.
        -- unfold fl. rewrite Ecs, P1. simpl. rewrite <- Permutation_cons_append. done.
        -- unfold_fl. fold (idle_of p a). rewrite P2. simpl. rewrite <- Permutation_cons_append. done.
        -- intros c0 H. apply elem_of_list_singleton in H as ->. unfold alive_of. by rewrite Erc.
        -- left. simpl. lia.
        -- apply I.
        -- intros cs0 cur0. rewrite lookup_insert. intros; simplify_eq.
           intros E0. apply (f_equal length) in E0. rewrite insert_length in E0. simpl in E0. lia.
      * exists (Some (p_next p)). gc_simpl. split; [done|]. rewrite lookup_insert.
        eexists. split; [done|]. simpl. split_and!; try done.
        unfold active_of. gc_simpl. rewrite lookup_insert.
        eapply elem_of_list_lookup_2. apply list_lookup_insert. done.
    + split.
      * exists (fl p a), [], []. gs_split.
        -- gs_other.
        -- eexists. split; [left; reflexivity|]. left. done.
        -- by rewrite app_nil_r.
        -- rewrite app_nil_r, <- Efl. reflexivity.
        -- set_solver.
        -- left. lia.
        -- apply I.
        -- done.
      * exists None. gc_simpl. done.
Qed.

Lemma get_conn_shape p a ok now : PInv p ->
  let p' := get_conn a ok now p in
  (exists Kp Dd Nn, gc_shape p p' a now Kp Dd Nn) /\ gc_out p p' a ok.
Proof.
  intros I. rewrite get_conn_eq. destruct (p_active p !! a) as [[cs cur]|] eqn:Ea.
  - destruct (Nat.ltb_spec (length cs) (p_maxconns p)) as [L|L].
    + apply acquire_shape; [done| |done]. unfold active_of. by rewrite Ea.
    + by apply round_robin_shape.
  - apply acquire_shape; [done| |].
    + unfold active_of. by rewrite Ea.
    + simpl. pose proof (pi_limits _ I). lia.
Qed.

Lemma get_conn_inv p a ok now : PInv p -> PInv (get_conn a ok now p).
Proof.
  intros I. destruct (get_conn_shape p a ok now I) as [(Kp & Dd & Nn & S) _]. eapply gc_shape_inv; eauto.
Qed.

Lemma get_conn_out p a ok now : PInv p -> gc_out p (get_conn a ok now p) a ok.
Proof. intros I. apply (get_conn_shape p a ok now I). Qed.

Lemma get_conn_old p a ok now (c : cid) pc : PInv p -> p_conns p !! c = Some pc ->
  exists pc1, p_conns (get_conn a ok now p) !! c = Some pc1 /\ pc_addr pc1 = pc_addr pc /\ pc_alive pc1 = pc_alive pc /\
    pc_closed pc1 = pc_closed pc /\ pc_busy pc1 = pc_busy pc.
Proof.
  intros I E. destruct (get_conn_shape p a ok now I) as [(Kp & Dd & Nn & S) _]. eapply gc_shape_old; eauto.
Qed.
