(* Pool/InvTick.v — effect of the housekeeping tick and of CloseIdleConnections:
   what the folds over the address snapshot do to one address and to the records. *)
From stdpp Require Import gmap.
From RPC Require Import Res.
From RPC.Pool Require Import Model InvLemmas.
Open Scope Z_scope.
Local Notation NoDup := base.NoDup (only parsing).

(* housekeeping relation: only [pc_closed] of connections without outstanding calls changes *)
Definition hk (p p' : pool) : Prop :=
  meta p' = meta p /\ exists D, cc (p_conns p) (p_conns p') D /\ forall c, c ∈ D -> busy_of p c = 0%nat.

Lemma hk_refl p : hk p p.
Proof. split; [done|]. exists []. split; [apply cc_nil|set_solver]. Qed.

Lemma hk_trans p q r : hk p q -> hk q r -> hk p r.
Proof.
  intros (M1 & D1 & C1 & B1) (M2 & D2 & C2 & B2). split; [congruence|].
  exists (D1 ++ D2). split; [eapply cc_trans; eauto|].
  intros c H. apply elem_of_app in H as [H|H]; [by apply B1|].
  rewrite <- (busy_of_cc _ _ _ c C1). by apply B2.
Qed.

Lemma hk_conns_eq p p' : meta p' = meta p -> p_conns p' = p_conns p -> hk p p'.
Proof. intros M E. split; [done|]. exists []. rewrite E. split; [apply cc_nil|set_solver]. Qed.

Lemma closes_hk p p1 D : closes p p1 D -> (forall c, c ∈ D -> busy_of p c = 0%nat) -> hk p p1.
Proof. intros (M & _ & _ & C) B. split; [done|]. eauto. Qed.

Lemma hk_busy p p' c : hk p p' -> busy_of p' c = busy_of p c.
Proof. intros (_ & D & C & _). eapply busy_of_cc; eauto. Qed.
Lemma hk_last p p' c : hk p p' -> last_of p' c = last_of p c.
Proof. intros (_ & D & C & _). eapply last_of_cc; eauto. Qed.
Lemma hk_alive p p' c : hk p p' -> alive_of p' c = alive_of p c.
Proof. intros (_ & D & C & _). eapply alive_of_cc; eauto. Qed.
Lemma hk_rcond p p' now c : hk p p' -> rcond p' now c = rcond p now c.
Proof. intros (M & D & C & _). eapply rcond_cc; eauto. Qed.
Lemma hk_econd p p' now q : hk p p' -> econd p' now q = econd p now q.
Proof.
  intros H. unfold econd. destruct (list.last q); [|done]. destruct q; [done|].
  rewrite !(hk_last _ _ _ H), !(hk_busy _ _ _ H). destruct H as (M & _). by rewrite (meta_idleto _ _ M).
Qed.
Lemma hk_open_mono p p' c : hk p p' -> is_open p c = false -> is_open p' c = false.
Proof. intros (_ & D & C & _). eapply is_open_cc_mono; eauto. Qed.
Lemma hk_open_busy p p' c : hk p p' -> (0 < busy_of p c)%nat -> is_open p' c = is_open p c.
Proof.
  intros (_ & D & C & B) H. eapply is_open_cc_notin; eauto. intros F. apply B in F. lia.
Qed.
Lemma hk_lookup p p' (c : cid) pc : hk p p' -> p_conns p !! c = Some pc ->
  exists pc1, p_conns p' !! c = Some pc1 /\ (pc1 = pc \/ pc1 = pc_close pc).
Proof. intros (_ & D & C & _) E. destruct (cc_lookup _ _ _ _ _ C E) as (pc1 & ? & [?|[? _]]); eauto. Qed.
Lemma hk_lookup_none p p' (c : cid) : hk p p' -> p_conns p !! c = None -> p_conns p' !! c = None.
Proof. intros (_ & D & C & _) E. eapply cc_lookup_none; eauto. Qed.

Lemma rcond_busy p now c : rcond p now c = true -> busy_of p c = 0%nat.
Proof. unfold rcond. intros H. apply andb_true_iff in H as [_ H]. by apply Nat.eqb_eq in H. Qed.

Definition same_at (a : addr) (p p' : pool) : Prop :=
  p_active p' !! a = p_active p !! a /\ p_idle p' !! a = p_idle p !! a.
Lemma same_at_refl a p : same_at a p p.
Proof. done. Qed.
Lemma same_at_trans a p q r : same_at a p q -> same_at a q r -> same_at a p r.
Proof. intros [? ?] [? ?]. split; congruence. Qed.

(* ------------------------------------------------------------------ *)
(* folds over an address snapshot                                      *)
(* ------------------------------------------------------------------ *)
Lemma fold_rel {A} (f : pool -> A -> pool) (P : pool -> Prop) (R : pool -> pool -> Prop) (Q : A -> Prop) l :
  (forall p, R p p) -> (forall p q r, R p q -> R q r -> R p r) ->
  (forall p a, P p -> Q a -> P (f p a) /\ R p (f p a)) ->
  Forall Q l -> forall p, P p -> P (fold_left f l p) /\ R p (fold_left f l p).
Proof.
  intros Rr Rt H FQ. induction FQ as [|a l Qa FQ IH]; intros p Pp; simpl; [eauto|].
  destruct (H p a Pp Qa) as [P1 R1]. destruct (IH _ P1) as [P2 R2]. eauto.
Qed.

Lemma fold_left_split {A} (f : pool -> A -> pool) (l : list A) a : a ∈ l -> NoDup l ->
  exists l1 l2, a ∉ l1 /\ a ∉ l2 /\ forall p, fold_left f l p = fold_left f l2 (f (fold_left f l1 p) a).
Proof.
  intros H ND. apply elem_of_list_split in H as (l1 & l2 & ->). exists l1, l2.
  apply NoDup_app in ND as (_ & N1 & N2). apply list.NoDup_cons in N2 as [N2 _]. split_and!.
  - intros F. apply (N1 a F). set_solver.
  - done.
  - intros p. rewrite fold_left_app. done.
Qed.

Section snapshot.
  Context (f : pool -> addr -> pool).
  Hypothesis f_inv : forall p a, PInv p -> PInv (f p a).
  Hypothesis f_hk : forall p a, PInv p -> hk p (f p a).
  Hypothesis f_other : forall p a a', PInv p -> a' <> a -> same_at a p (f p a').

  Lemma fold_hk l p : PInv p -> PInv (fold_left f l p) /\ hk p (fold_left f l p).
  Proof.
    intros I. apply (fold_rel f PInv hk (fun _ => True));
      [apply hk_refl | apply hk_trans | intros q a' Iq _; split; [by apply f_inv|by apply f_hk]
      | by apply Forall_forall | done].
  Qed.

  Lemma fold_notin l a p : PInv p -> a ∉ l -> same_at a p (fold_left f l p).
  Proof.
    intros I N. apply (fold_rel f PInv (same_at a) (fun a' => a' <> a));
      [apply same_at_refl | apply same_at_trans | intros q a' Iq Na; split; [by apply f_inv|by apply f_other]
      | apply list.Forall_forall; by intros a' H -> | done].
  Qed.

  (* the fold visits [a] exactly once; before and after, [a]'s entries are untouched *)
  Lemma fold_in l a p : PInv p -> NoDup l -> a ∈ l ->
    exists pa, PInv pa /\ hk p pa /\ same_at a p pa /\
      hk (f pa a) (fold_left f l p) /\ same_at a (f pa a) (fold_left f l p).
  Proof.
    intros I ND H. destruct (fold_left_split f l a H ND) as (l1 & l2 & N1 & N2 & E).
    exists (fold_left f l1 p). destruct (fold_hk l1 p I) as [I1 H1]. split_and!; try done.
    - by apply fold_notin.
    - rewrite E. apply fold_hk. by apply f_inv.
    - rewrite E. apply fold_notin; [by apply f_inv|done].
  Qed.
End snapshot.

(* ------------------------------------------------------------------ *)
(* tick_active                                                         *)
(* ------------------------------------------------------------------ *)
Lemma tick_active_hk now p a : PInv p -> hk p (tick_active now p a).
Proof.
  intros I. rewrite tick_active_eq. destruct (p_active p !! a) as [[cs cur]|] eqn:E; [|apply hk_refl].
  destruct (retire a now cs p) as [kept p1] eqn:R.
  assert (OK : idle_ok p a) by (intros q cap; apply I).
  destruct (retire_spec a now cs p kept p1 ltac:(apply I) OK R) as (pk & D & P & M & A & C & O & Id & OK1 & K & T).
  split; [by rewrite put_active_meta|]. exists D. rewrite put_active_conns. split; [done|].
  intros c H. apply (rcond_busy p now). apply T. set_solver.
Qed.

Lemma tick_active_other now p a a' : PInv p -> a' <> a -> same_at a p (tick_active now p a').
Proof.
  intros I N. rewrite tick_active_eq. destruct (p_active p !! a') as [[cs cur]|] eqn:E; [|done].
  destruct (retire a' now cs p) as [kept p1] eqn:R.
  assert (OK : idle_ok p a') by (intros q cap; apply I).
  destruct (retire_spec a' now cs p kept p1 ltac:(apply I) OK R) as (pk & D & P & M & A & C & O & Id & OK1 & K & T).
  split.
  - rewrite put_active_other by done. by rewrite A.
  - rewrite put_active_idle. by apply O.
Qed.

Lemma tick_active_at now p a cs cur : PInv p -> p_active p !! a = Some (cs, cur) ->
  let p' := tick_active now p a in
  (forall c, c ∈ active_of p' a <-> c ∈ cs /\ rcond p now c = false) /\
  (forall cs' cur', p_active p' !! a = Some (cs', cur') -> cs' <> [] /\ cs' = active_of p' a).
Proof.
  intros I E. cbv zeta. rewrite tick_active_eq, E.
  destruct (retire a now cs p) as [kept p1] eqn:R.
  assert (OK : idle_ok p a) by (intros q cap; apply I).
  destruct (retire_spec a now cs p kept p1 ltac:(apply I) OK R) as (pk & D & P & M & A & C & O & Id & OK1 & K & T).
  rewrite put_active_at. split; [done|].
  intros cs' cur' H. apply put_active_lookup in H as (-> & _ & N). done.
Qed.

Lemma put_active_id a cs cur p : p_active p !! a = Some (cs, cur) -> cs <> [] -> put_active a cs cur p = p.
Proof.
  intros E N. destruct cs; [done|]. simpl. apply pool_eq; try done. simpl. by apply insert_id.
Qed.
Lemma put_idle_id a q cap p : p_idle p !! a = Some (q, cap) -> q <> [] -> put_idle a q cap p = p.
Proof.
  intros E N. destruct q; [done|]. simpl. apply pool_eq; try done. simpl. by apply insert_id.
Qed.

Lemma tick_active_noop now p a :
  (forall cs cur, p_active p !! a = Some (cs, cur) -> cs <> [] /\ forall c, c ∈ cs -> rcond p now c = false) ->
  tick_active now p a = p.
Proof.
  intros H. rewrite tick_active_eq. destruct (p_active p !! a) as [[cs cur]|] eqn:E; [|done].
  destruct (H _ _ eq_refl) as [N F]. rewrite retire_none by done. by apply put_active_id.
Qed.

(* ------------------------------------------------------------------ *)
(* tick_idle                                                           *)
(* ------------------------------------------------------------------ *)
Lemma tick_idle_hk now p a : hk p (tick_idle now p a).
Proof.
  rewrite tick_idle_eq. destruct (p_idle p !! a) as [[q cap]|] eqn:E; [|apply hk_refl].
  destruct (expire (length q) now q p) as [q' p1] eqn:R.
  destruct (expire_spec _ _ _ _ _ _ R) as (D & -> & CL & B & _).
  eapply hk_trans; [eapply closes_hk; eauto|]. apply hk_conns_eq; [apply put_idle_meta|apply put_idle_conns].
Qed.

Lemma tick_idle_active now p a : p_active (tick_idle now p a) = p_active p.
Proof.
  rewrite tick_idle_eq. destruct (p_idle p !! a) as [[q cap]|] eqn:E; [|done].
  destruct (expire (length q) now q p) as [q' p1] eqn:R.
  destruct (expire_spec _ _ _ _ _ _ R) as (D & -> & (_ & A & _) & _). by rewrite put_idle_active.
Qed.

Lemma tick_idle_other now p a a' : a' <> a -> same_at a p (tick_idle now p a').
Proof.
  intros N. split; [by rewrite tick_idle_active|].
  rewrite tick_idle_eq. destruct (p_idle p !! a') as [[q cap]|] eqn:E; [|done].
  destruct (expire (length q) now q p) as [q' p1] eqn:R.
  destruct (expire_spec _ _ _ _ _ _ R) as (D & -> & (_ & _ & Id & _) & _).
  rewrite put_idle_other by done. by rewrite Id.
Qed.

Lemma tick_idle_at now p a q cap : p_idle p !! a = Some (q, cap) ->
  let p' := tick_idle now p a in
  (forall q' cap', p_idle p' !! a = Some (q', cap') -> q' <> [] /\ econd p now q' = false) /\
  ((forall c, c ∈ q -> busy_of p c = 0%nat /\ last_of p c + p_idleto p < now) ->
   p_idle p' !! a = None /\ forall c, c ∈ q -> is_open p' c = false).
Proof.
  intros E. cbv zeta. rewrite tick_idle_eq, E.
  destruct (expire (length q) now q p) as [q' p1] eqn:R. split.
  - intros q0 cap0 H. apply put_idle_lookup in H as (-> & _ & N). split; [done|].
    destruct (expire_spec _ _ _ _ _ _ R) as (D & _ & _ & _ & F). by apply F.
  - intros H. destruct (expire_all _ _ _ _ _ H R) as [-> (_ & _ & _ & C)]. split; [apply put_idle_lookup_nil|].
    intros c Hc. unfold is_open. rewrite put_idle_conns. fold (is_open p1 c). eapply is_open_cc_in; eauto.
Qed.

Lemma tick_idle_noop now p a :
  (forall q cap, p_idle p !! a = Some (q, cap) -> q <> [] /\ econd p now q = false) ->
  tick_idle now p a = p.
Proof.
  intros H. rewrite tick_idle_eq. destruct (p_idle p !! a) as [[q cap]|] eqn:E; [|done].
  destruct (H _ _ eq_refl) as [N F]. rewrite expire_stuck by done. by apply put_idle_id.
Qed.

(* ------------------------------------------------------------------ *)
(* CloseIdleConnections                                                *)
(* ------------------------------------------------------------------ *)
Lemma close_idle_active_hk p a : hk p (close_idle_active p a).
Proof.
  rewrite close_idle_active_eq. destruct (p_active p !! a) as [[cs cur]|] eqn:E; [|apply hk_refl].
  destruct (close_unused cs p) as [kept p1] eqn:R.
  destruct (close_unused_spec _ _ _ _ R) as (D & P & CL & B).
  eapply hk_trans; [eapply closes_hk; eauto|]. apply hk_conns_eq; [apply put_active_meta|apply put_active_conns].
Qed.

Lemma close_idle_queue_hk p a : hk p (close_idle_queue p a).
Proof.
  rewrite close_idle_queue_eq. destruct (p_idle p !! a) as [[q cap]|] eqn:E; [|apply hk_refl].
  destruct (close_queue (length q) q p) as [q' p1] eqn:R.
  destruct (close_queue_spec _ _ _ _ _ R) as (D & P & CL & B).
  eapply hk_trans; [eapply closes_hk; eauto|]. apply hk_conns_eq; [apply put_idle_meta|apply put_idle_conns].
Qed.

Lemma fold_hk_simple {A} (f : pool -> A -> pool) l : (forall p a, hk p (f p a)) -> forall p, hk p (fold_left f l p).
Proof.
  intros H. induction l as [|a l IH]; intros p; simpl; [apply hk_refl|]. eapply hk_trans; [apply H|apply IH].
Qed.

Lemma close_idle_hk p : hk p (close_idle p).
Proof.
  unfold close_idle. eapply hk_trans.
  - apply (fold_hk_simple close_idle_active). apply close_idle_active_hk.
  - apply (fold_hk_simple close_idle_queue). apply close_idle_queue_hk.
Qed.

(* ------------------------------------------------------------------ *)
(* the whole tick                                                      *)
(* ------------------------------------------------------------------ *)
Definition tick1 (now : Z) (p : pool) : pool :=
  fold_left (tick_active now) (addrs_of (p_active (set_now now p))) (set_now now p).

Lemma tick_eq now p : tick now p = fold_left (tick_idle now) (addrs_of (p_idle (tick1 now p))) (tick1 now p).
Proof. reflexivity. Qed.

Lemma tick1_facts now p : PInv p -> PInv (tick1 now p) /\ hk (set_now now p) (tick1 now p).
Proof.
  intros I. apply fold_hk; [apply tick_active_inv|apply tick_active_hk|by apply set_now_inv].
Qed.

Lemma fold_tick_idle_active now l : forall q, p_active (fold_left (tick_idle now) l q) = p_active q.
Proof. induction l as [|a l IH]; intros q; simpl; [done|]. rewrite IH. apply tick_idle_active. Qed.

Lemma tick_facts now p : PInv p -> hk (set_now now p) (tick now p) /\ p_active (tick now p) = p_active (tick1 now p).
Proof.
  intros I. destruct (tick1_facts now p I) as [I1 H1]. rewrite tick_eq. split.
  - eapply hk_trans; [done|]. apply fold_hk_simple. intros; apply tick_idle_hk.
  - apply fold_tick_idle_active.
Qed.

Lemma tick_hk_busy now p c : PInv p -> busy_of (tick now p) c = busy_of p c.
Proof. intros I. destruct (tick_facts now p I) as [H _]. by rewrite (hk_busy _ _ c H). Qed.

Lemma rcond_set_now n p now c : rcond (set_now n p) now c = rcond p now c.
Proof. reflexivity. Qed.

Lemma lookup_addrs_of_None (m : gmap addr (list cid * nat)) (a : addr) : a ∉ addrs_of m -> m !! a = None.
Proof. intros N. destruct (m !! a) eqn:E; [|done]. exfalso. apply N, elem_of_addrs_of. eauto. Qed.

(* first loop of the tick, seen from address [a] *)
Lemma tick1_at now p a : PInv p ->
  let p1 := tick1 now p in
  (forall c, c ∈ active_of p1 a <-> c ∈ active_of p a /\ rcond p now c = false) /\
  (forall cs' cur', p_active p1 !! a = Some (cs', cur') -> cs' <> [] /\ cs' = active_of p1 a) /\
  ((forall c, c ∈ active_of p a -> rcond p now c = false) -> p_idle p1 !! a = p_idle p !! a).
Proof.
  intros I. cbv zeta. unfold tick1.
  set (p0 := set_now now p). assert (I0 : PInv p0) by (by apply set_now_inv).
  set (l := addrs_of (p_active p0)).
  destruct (decide (a ∈ l)) as [Hin|Hnot].
  - destruct (fold_in (tick_active now) (tick_active_inv now) (tick_active_hk now)
               (fun p a a' => tick_active_other now p a a') l a p0 I0 (NoDup_addrs_of _) Hin)
      as (pa & Ia & Ha & [Sa1 Sa2] & Hb & [Sb1 Sb2]).
    apply elem_of_addrs_of in Hin as [[cs cur] E]. change (p_active p0) with (p_active p) in *.
    change (p_idle p0) with (p_idle p) in *.
    assert (Ea : p_active pa !! a = Some (cs, cur)) by congruence.
    assert (Ecs : active_of p a = cs) by (unfold active_of; by rewrite E).
    destruct (tick_active_at now pa a cs cur Ia Ea) as [K F].
    assert (RC : forall c, rcond pa now c = rcond p now c).
    { intros c. rewrite (hk_rcond _ _ now c Ha). apply rcond_set_now. }
    rewrite (active_of_eq _ _ a Sb1). split_and!.
    + intros c. rewrite K, RC, Ecs. done.
    + intros cs' cur' H. rewrite Sb1 in H. apply (F _ _ H).
    + intros H. rewrite Sb2. rewrite tick_active_noop; [congruence|].
      intros cs0 cur0 H0. rewrite Ea in H0. injection H0 as <- <-. split; [eapply pi_active_nonempty; eauto|].
      intros c Hc. rewrite RC. apply H. by rewrite Ecs.
  - pose proof (fold_notin (tick_active now) (tick_active_inv now)
               (fun p a a' => tick_active_other now p a a') l a p0 I0 Hnot) as [S1 S2].
    apply lookup_addrs_of_None in Hnot. change (p_active p0) with (p_active p) in *.
    change (p_idle p0) with (p_idle p) in *.
    assert (Ecs : active_of p a = []) by (unfold active_of; by rewrite Hnot).
    rewrite (active_of_eq _ _ a S1). split_and!.
    + intros c. rewrite Ecs. set_solver.
    + intros cs' cur'. rewrite S1, Hnot. done.
    + done.
Qed.

(* second loop of the tick, seen from address [a] *)
Lemma tick2_at now p1 a : PInv p1 ->
  let p' := fold_left (tick_idle now) (addrs_of (p_idle p1)) p1 in
  (forall q' cap', p_idle p' !! a = Some (q', cap') -> q' <> [] /\ econd p1 now q' = false) /\
  (forall q cap, p_idle p1 !! a = Some (q, cap) ->
     (forall c, c ∈ q -> busy_of p1 c = 0%nat /\ last_of p1 c + p_idleto p1 < now) ->
     p_idle p' !! a = None /\ forall c, c ∈ q -> is_open p' c = false).
Proof.
  intros I. cbv zeta. set (l := addrs_of (p_idle p1)).
  destruct (decide (a ∈ l)) as [Hin|Hnot].
  - destruct (fold_in (tick_idle now) (tick_idle_inv now) (fun p a _ => tick_idle_hk now p a)
               (fun p a a' _ => tick_idle_other now p a a') l a p1 I (NoDup_addrs_of _) Hin)
      as (pa & Ia & Ha & [Sa1 Sa2] & Hb & [Sb1 Sb2]).
    apply elem_of_addrs_of in Hin as [[q cap] E].
    assert (Ea : p_idle pa !! a = Some (q, cap)) by congruence.
    destruct (tick_idle_at now pa a q cap Ea) as [F G]. split.
    + intros q' cap' H. rewrite Sb2 in H. destruct (F _ _ H) as [N EC]. split; [done|].
      by rewrite <- (hk_econd _ _ now q' Ha).
    + intros q0 cap0 E0 H. rewrite E in E0. simplify_eq. destruct G as [G1 G2].
      { intros c Hc. rewrite (hk_busy _ _ c Ha), (hk_last _ _ c Ha).
        destruct Ha as (M & _). rewrite (meta_idleto _ _ M). by apply H. }
      split; [congruence|]. intros c Hc. eapply hk_open_mono; eauto.
  - pose proof (fold_notin (tick_idle now) (tick_idle_inv now)
               (fun p a a' _ => tick_idle_other now p a a') l a p1 I Hnot) as [S1 S2].
    apply lookup_addrs_of_None in Hnot. split.
    + intros q' cap'. rewrite S2, Hnot. done.
    + intros q cap. rewrite Hnot. done.
Qed.

Lemma fold_id {A} (f : pool -> A -> pool) l p : (forall a, f p a = p) -> fold_left f l p = p.
Proof. intros H. induction l as [|a l IH]; simpl; [done|]. by rewrite H. Qed.
