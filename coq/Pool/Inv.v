(* Pool/Inv.v — invariant of the Transport pool machine and the lemmas the
   property files cite (Props/C13.v, C14.v, C15.v).

   The invariant [PInv] (and [filed]) is defined in Pool/InvLemmas.v; the
   supporting lemmas are in Pool/InvLemmas.v (setters, local-update lemma,
   sweeps, Close), Pool/InvGetConn.v (getConn) and Pool/InvTick.v (tick,
   CloseIdleConnections). *)
From stdpp Require Import gmap.
From RPC Require Import Res.
From RPC.Pool Require Import Model.
From RPC.Pool Require Export InvLemmas.
From RPC.Pool Require Import InvGetConn InvTick.
Open Scope Z_scope.

(* ====================================================================
   TARGET STATEMENTS.  [run tr (init ...)] ranges over every history of
   pool operations, dial outcomes, clock values and call begins/ends.
   ==================================================================== *)
Definition reachable (p : pool) : Prop :=
  exists mc mi ka it now tr, p = run tr (init mc mi ka it now).

(* ---- helpers ---- *)
Lemma norm_limits_aux mc mi : (1 <= norm_maxidle mi mc <= norm_maxconns mc)%nat.
Proof.
  unfold norm_maxidle, norm_maxconns, Generated.c_DefaultMaxConnsPerHost, Generated.c_DefaultMaxIdleConnsPerHost.
  repeat (match goal with |- context [Z.ltb ?a ?b] => destruct (Z.ltb_spec a b) end); lia.
Qed.

Lemma init_inv mc mi ka it now : PInv (init mc mi ka it now).
Proof.
  split; simpl; unfold active_of, idle_of, filed, active_of, idle_of; simpl; intros;
    rewrite ?lookup_empty in *; try done.
  - apply norm_limits_aux.
  - set_solver.
  - set_solver.
  - simpl. lia.
  - constructor.
  - by destruct H.
Qed.

Lemma benign_callend t : benign (fun pc => pc_set_last t (pc_busy_set (pc_busy pc - 1) pc)).
Proof. intros pc. simpl. split; [done|left; done]. Qed.

Lemma step_inv p x : PInv p -> PInv (step p x).
Proof.
  intros I. destruct x as [a ok now|c|c sh|c|now| |]; simpl.
  - by apply get_conn_inv.
  - apply PInv_upd_conn; [done|]. apply (benign_busy (fun pc => S (pc_busy pc))).
  - destruct sh; [apply PInv_upd_conn; [|apply benign_kill]|]; (apply PInv_upd_conn; [done|apply benign_callend]).
  - apply PInv_upd_conn; [done|]. apply (benign_busy (fun pc => (pc_busy pc - 1)%nat)).
  - by apply tick_inv.
  - by apply close_idle_inv.
  - by apply close_transport_inv.
Qed.

Lemma run_inv tr : forall p, PInv p -> PInv (run tr p).
Proof. induction tr as [|x tr IH]; intros p I; simpl; [done|]. apply IH, step_inv, I. Qed.

Lemma run_snoc tr x p : run (tr ++ [x]) p = step (run tr p) x.
Proof. unfold run. by rewrite fold_left_app. Qed.

Theorem reachable_inv p : reachable p -> PInv p.
Proof. intros (mc & mi & ka & it & now & tr & ->). apply run_inv, init_inv. Qed.

(* ---- C13 ---- *)
Theorem normalise_limits mc mi :
  (1 <= norm_maxidle mi mc <= norm_maxconns mc)%nat /\
  (mc < 1 -> norm_maxconns mc = Z.to_nat Generated.c_DefaultMaxConnsPerHost) /\
  (1 <= mc -> norm_maxconns mc = Z.to_nat mc) /\
  (mi < 1 -> norm_maxidle mi mc = Z.to_nat Generated.c_DefaultMaxIdleConnsPerHost) /\
  (1 <= mi -> Z.of_nat (norm_maxconns mc) < mi -> norm_maxidle mi mc = norm_maxconns mc) /\
  (1 <= mi -> mi <= Z.of_nat (norm_maxconns mc) -> norm_maxidle mi mc = Z.to_nat mi).
Proof.
  split; [apply norm_limits_aux|].
  unfold norm_maxidle, norm_maxconns.
  split_and!; intros; repeat (match goal with |- context [Z.ltb ?a ?b] => destruct (Z.ltb_spec a b) end); try lia.
Qed.

Lemma elem_of_fst_filter {A B} (f : A * B -> bool) (l : list (A * B)) k :
  k ∈ (List.filter f l).*1 -> k ∈ l.*1.
Proof.
  rewrite !elem_of_list_fmap. intros (y & -> & H). exists y. split; [done|].
  apply elem_of_list_In in H. apply filter_In in H as [H _]. by apply elem_of_list_In.
Qed.

Lemma NoDup_fst_filter {A B} (f : A * B -> bool) (l : list (A * B)) :
  base.NoDup (l.*1) -> base.NoDup ((List.filter f l).*1).
Proof.
  induction l as [|x l IH]; simpl; [done|]. intros [N ND]%list.NoDup_cons.
  destruct (f x); simpl; [|by apply IH]. apply list.NoDup_cons. split; [|by apply IH].
  intros F. by apply N, (elem_of_fst_filter f).
Qed.

Lemma NoDup_open_to p a : base.NoDup (open_to p a).
Proof. unfold open_to. apply (NoDup_fst_filter _ (map_to_list (p_conns p))). apply NoDup_fst_map_to_list. Qed.

Lemma elem_of_open_to p a (c : cid) : c ∈ open_to p a <->
  exists pc, p_conns p !! c = Some pc /\ pc_addr pc = a /\ pc_closed pc = false.
Proof.
  unfold open_to. rewrite elem_of_list_In, in_map_iff. split.
  - intros ([c' pc] & <- & H). apply filter_In in H as [H1 H2]. simpl in *.
    apply elem_of_list_In, elem_of_map_to_list in H1. apply andb_true_iff in H2 as [H2 H3].
    apply Nat.eqb_eq in H2. apply negb_true_iff in H3. eauto.
  - intros (pc & E & A & C). exists (c, pc). split; [done|]. apply filter_In. split.
    + by apply elem_of_list_In, elem_of_map_to_list.
    + simpl. rewrite A, C, Nat.eqb_refl. done.
Qed.

(* at no time more than MaxConnsPerHost open connections to one address (active plus idle),
   nor more than MaxIdleConnsPerHost idle ones *)
Theorem bounds p a : reachable p ->
  (length (open_to p a) <= p_maxconns p)%nat /\ (length (idle_of p a) <= p_maxidle p)%nat.
Proof.
  intros I%reachable_inv. split.
  - transitivity (length (fl p a)).
    + apply submseteq_length, NoDup_submseteq; [apply NoDup_open_to|].
      intros c (pc & E & <- & C)%elem_of_open_to. apply elem_of_app. eapply pi_open_filed; eauto.
    + unfold fl. rewrite app_length. apply I.
  - unfold idle_of. destruct (p_idle p !! a) as [[q cap]|] eqn:E; [|simpl; lia].
    destruct (pi_idle_cap _ I _ _ _ E) as [-> L]. done.
Qed.

(* ---- C14 ---- *)
(* getConn(a) returns a live, open connection dialed to a, or ErrDial *)
Theorem getconn_result p a ok now : reachable p ->
  let p' := step p (GetConn a ok now) in
  exists o, p_out p' = p_out p ++ [o] /\
    match o with
    | Some c => exists pc, p_conns p' !! c = Some pc /\ pc_addr pc = a /\ pc_alive pc = true /\ pc_closed pc = false /\
                           c ∈ active_of p' a
    | None => ok = false
    end.
Proof. intros I%reachable_inv. apply (get_conn_out p a ok now I). Qed.

(* a dial is attempted only when needed; when it succeeds the call gets a connection *)
Theorem getconn_dial_ok p a now : reachable p ->
  exists c, list.last (p_out (step p (GetConn a true now))) = Some (Some c).
Proof.
  intros R. destruct (getconn_result p a true now R) as (o & -> & H).
  destruct o as [c|]; [|done]. exists c. apply last_snoc.
Qed.

(* a connection on which a call failed with ErrShutdown is never handed out afterwards *)
Definition dead (p : pool) (c : cid) : Prop := exists pc, p_conns p !! c = Some pc /\ pc_alive pc = false.

Lemma dead_hk p p' c : hk p p' -> dead p c -> dead p' c.
Proof.
  intros H (pc & E & A). destruct (hk_lookup _ _ _ _ H E) as (pc1 & E1 & [E2|E2]);
    exists pc1; (split; [done|]); subst pc1; done.
Qed.

Lemma out_nil (o o' : list (option cid)) (c : cid) : o' = o -> exists l, o' = o ++ l /\ Some c ∉ l.
Proof. intros ->. exists []. rewrite app_nil_r. split; [done|set_solver]. Qed.

Lemma step_dead p x c : PInv p -> dead p c ->
  dead (step p x) c /\ exists l, p_out (step p x) = p_out p ++ l /\ Some c ∉ l.
Proof.
  intros I (pc & E & A). destruct x as [a ok now|c'|c' sh|c'|now| |]; simpl.
  - destruct (get_conn_old p a ok now c pc I E) as (pc1 & E1 & _ & A1 & _).
    split; [exists pc1; split; [done|congruence]|].
    destruct (get_conn_out p a ok now I) as (o & Eo & Ho). exists [o]. split; [done|].
    intros F. apply elem_of_list_singleton in F as <-. destruct Ho as (pc2 & E2 & _ & A2 & _). congruence.
  - split; [|apply out_nil; by rewrite upd_conn_out].
    eexists. split; [by apply lookup_upd_conn_fwd|]. case_decide; done.
  - split.
    + destruct sh.
      * eexists. split; [apply lookup_upd_conn_fwd; by apply lookup_upd_conn_fwd|]. repeat case_decide; done.
      * eexists. split; [by apply lookup_upd_conn_fwd|]. case_decide; done.
    + apply out_nil. destruct sh; by rewrite ?upd_conn_out.
  - split; [|apply out_nil; by rewrite upd_conn_out].
    eexists. split; [by apply lookup_upd_conn_fwd|]. case_decide; done.
  - destruct (tick_facts now p I) as [H _]. split.
    + apply (dead_hk (set_now now p)); [done|]. exists pc. done.
    + apply out_nil. destruct H as (M & _). by rewrite (meta_out _ _ M).
  - pose proof (close_idle_hk p) as H. split.
    + apply (dead_hk p); [done|]. exists pc. done.
    + apply out_nil. destruct H as (M & _). by rewrite (meta_out _ _ M).
  - destruct (p_closed p) eqn:NC.
    { rewrite close_transport_eq, NC. split; [by exists pc|]. by apply out_nil. }
    destruct (close_transport_spec p NC) as (D & C & _ & _ & _ & _ & _ & _ & _ & O & _). split.
    + destruct (cc_lookup _ _ _ _ _ C E) as (pc1 & E1 & [E2|[E2 _]]);
        exists pc1; (split; [done|]); subst pc1; done.
    + by apply out_nil.
Qed.

Lemma run_dead c tr : forall p, PInv p -> dead p c -> exists l, p_out (run tr p) = p_out p ++ l /\ Some c ∉ l.
Proof.
  induction tr as [|x tr IH]; intros p I Dd; simpl.
  - by apply out_nil.
  - destruct (step_dead p x c I Dd) as (D1 & l1 & E1 & N1).
    destruct (IH _ (step_inv p x I) D1) as (l2 & E2 & N2). exists (l1 ++ l2).
    rewrite E2, E1, app_assoc. split; [done|]. set_solver.
Qed.

(* STATEMENT CHANGED: added the hypothesis that [c] names an existing connection when the call fails.
   Without it the statement is false: [CallEnd c true] on an id that was never dialed is a no-op and
   the id can be dialed and handed out later (tr1 = [], c = 0, tr2 = [GetConn 0 true 0], i = 0). *)
Theorem dead_never_handed_out tr1 c tr2 mc mi ka it now :
  is_Some (p_conns (run tr1 (init mc mi ka it now)) !! c) ->
  let p1 := run (tr1 ++ [CallEnd c true]) (init mc mi ka it now) in
  let p2 := run tr2 p1 in
  forall i, (length (p_out p1) <= i)%nat -> p_out p2 !! i <> Some (Some c).
Proof.
  intros [pc E] p1 p2 i Li.
  assert (I0 : PInv (run tr1 (init mc mi ka it now))) by apply run_inv, init_inv.
  assert (I1 : PInv p1) by apply run_inv, init_inv.
  assert (D1 : dead p1 c).
  { unfold p1. rewrite run_snoc. simpl. eexists. split.
    - apply lookup_upd_conn_fwd. by apply lookup_upd_conn_fwd.
    - repeat case_decide; done. }
  destruct (run_dead c tr2 p1 I1 D1) as (l & El & Nl). fold p2 in El. rewrite El.
  rewrite lookup_app_r by done. intros F. apply Nl. eapply elem_of_list_lookup_2; eauto.
Qed.

(* the counterexample to the original statement *)
Example dead_never_handed_out_cex :
  let p1 := run ([] ++ [CallEnd 0%nat true]) (init 1 1 1 1 0) in
  let p2 := run [GetConn 0%nat true 0] p1 in
  (length (p_out p1) <= 0)%nat /\ p_out p2 !! 0%nat = Some (Some 0%nat).
Proof. split; vm_compute; reflexivity. Qed.

(* recovery: each ErrShutdown removes one pooled connection for good, so a sequential caller
   sees at most (number of pooled connections to a) failures before getConn must dial *)
Theorem failure_consumes_connection p c pc : reachable p -> p_conns p !! c = Some pc -> pc_alive pc = true ->
  let p' := step p (CallEnd c true) in
  alive_of p' c = false /\ is_open p' c = false /\
  (forall c', c' <> c -> p_conns p' !! c' = p_conns p !! c') /\
  p_active p' = p_active p /\ p_idle p' = p_idle p.
Proof.
  intros _ E A. simpl. unfold alive_of, is_open. autorewrite with pool.
  rewrite !lookup_alter, E. simpl. split_and!; try done.
  intros c' N. rewrite !lookup_alter_ne by done. done.
Qed.

(* ---- C15 ---- *)
(* housekeeping and CloseIdleConnections never close a connection that carries a call or stream *)
Theorem spares_busy p a c : reachable p -> (exists now, a = Tick now) \/ a = CloseIdle ->
  (0 < busy_of p c)%nat -> is_open p c = true -> is_open (step p a) c = true.
Proof.
  intros I%reachable_inv [[now ->]| ->] B O; simpl.
  - destruct (tick_facts now p I) as [H _]. rewrite (hk_open_busy _ _ c H); done.
  - rewrite (hk_open_busy _ _ c (close_idle_hk p)); done.
Qed.

(* closing a stream changes nothing but the occupancy count of its connection *)
Lemma stream_end_only_busy c p : let p' := step p (StreamEnd c) in
  p_active p' = p_active p /\ p_idle p' = p_idle p /\ p_closed p' = p_closed p /\
  (forall c' pc, c' <> c -> p_conns p' !! c' = Some pc <-> p_conns p !! c' = Some pc).
Proof.
  simpl. autorewrite with pool. split_and!; try done.
  intros c' pc N. by rewrite lookup_alter_ne.
Qed.

Lemma rcond_true p now c : busy_of p c = 0%nat -> last_of p c + p_keepalive p < now -> rcond p now c = true.
Proof. intros B L. unfold rcond. rewrite B. simpl. rewrite andb_true_r. lia. Qed.

(* an unused connection older than KeepAlive is retired (parked, or closed when the idle queue is full) by the next tick *)
Theorem tick_retires p a c now : reachable p -> c ∈ active_of p a -> busy_of p c = 0%nat ->
  last_of p c + p_keepalive p < now ->
  c ∉ active_of (step p (Tick now)) a.
Proof.
  intros I%reachable_inv Hc B L. simpl.
  destruct (tick_facts now p I) as [_ EA]. rewrite (active_of_eq _ _ a (f_equal (.!! a) EA)).
  destruct (tick1_at now p a I) as (K & _). rewrite K. intros [_ R]. rewrite rcond_true in R; done.
Qed.

(* an idle queue whose newest entry is older than IdleConnTimeout and whose entries carry no call
   is closed and removed by the next tick *)
Theorem tick_closes_idle p a q cap now : reachable p -> p_idle p !! a = Some (q, cap) -> q <> [] ->
  (forall c, c ∈ q -> busy_of p c = 0%nat /\ last_of p c + p_idleto p < now) ->
  (forall c, c ∈ active_of p a -> ~ (busy_of p c = 0%nat /\ last_of p c + p_keepalive p < now)) ->
  let p' := step p (Tick now) in
  idle_of p' a = [] /\ forall c, c ∈ q -> is_open p' c = false.
Proof.
  intros I%reachable_inv E N Hq Ha. simpl.
  destruct (tick1_facts now p I) as [I1 H1]. destruct (tick1_at now p a I) as (_ & _ & Id).
  rewrite tick_eq. destruct (tick2_at now (tick1 now p) a I1) as [_ G].
  destruct (G q cap) as [G1 G2].
  - rewrite Id; [done|]. intros c Hc. destruct (rcond p now c) eqn:R; [|done]. exfalso. apply (Ha c Hc).
    unfold rcond in R. apply andb_true_iff in R as [R1 R2]. apply Nat.eqb_eq in R2. split; [done|lia].
  - intros c Hc. rewrite (hk_busy _ _ c H1), (hk_last _ _ c H1). destruct H1 as (M & _).
    rewrite (meta_idleto _ _ M). by apply Hq.
  - split; [|done]. unfold idle_of. by rewrite G1.
Qed.

(* Transport.Close closes every pooled connection, empties both structures, and is idempotent *)
(* STATEMENT CHANGED: added the hypothesis [p_closed p = false].  The model (like transport.go) lets
   getConn file new connections after Close, and a second Close is then a no-op that leaves them
   filed and open: p = run [Close; GetConn 0 true 0] (init 1 1 1 1 0). *)
Theorem close_closes_all p : reachable p -> p_closed p = false ->
  let p' := step p Close in
  p_active p' = ∅ /\ p_idle p' = ∅ /\ (forall c, is_Some (p_conns p' !! c) -> is_open p' c = false) /\
  step p' Close = p'.
Proof.
  intros I%reachable_inv NC. simpl.
  pose proof (close_transport_inv p I) as I'.
  destruct (close_transport_spec p NC) as (D & C & HD & A & Id & CL & _). split_and!; try done.
  - intros c [pc E]. unfold is_open. rewrite E. destruct (pc_closed pc) eqn:O; [done|]. exfalso.
    destruct (pi_open_filed _ I' c pc E O) as [F|F]; unfold active_of, idle_of in F;
      rewrite ?A, ?Id, lookup_empty in F; set_solver.
  - rewrite close_transport_eq at 1. by rewrite CL.
Qed.

(* the counterexample to the original statement *)
Example close_closes_all_cex :
  let p := run [Close; GetConn 0%nat true 0] (init 1 1 1 1 0) in
  step p Close = p /\ p_active p <> ∅.
Proof.
  split; [vm_compute; reflexivity|]. intros H. apply (f_equal (.!! 0%nat)) in H. vm_compute in H. discriminate.
Qed.

(* housekeeping is idempotent at a fixed clock (the harness may wait for "at least one" tick) *)
Theorem tick_idempotent p now : reachable p -> step (step p (Tick now)) (Tick now) = step p (Tick now).
Proof.
  intros I%reachable_inv. simpl.
  destruct (tick_facts now p I) as [H EA]. destruct (tick1_facts now p I) as [I1 H1].
  set (p' := tick now p) in *.
  assert (Enow : set_now now p' = p').
  { destruct H as (M & _). pose proof (meta_now _ _ M) as Hn. simpl in Hn.
    apply pool_eq; try done. unfold meta. simpl. by rewrite Hn. }
  assert (E1 : tick1 now p' = p').
  { unfold tick1. rewrite Enow. apply fold_id. intros a. apply tick_active_noop. intros cs cur Ea.
    rewrite EA in Ea. destruct (tick1_at now p a I) as (K & F & _). destruct (F _ _ Ea) as [N ->].
    split; [done|]. intros c Hc. apply K in Hc as [_ R]. by rewrite (hk_rcond _ _ now c H), rcond_set_now. }
  rewrite (tick_eq now p'), E1. apply fold_id. intros a. apply tick_idle_noop. intros q cap Ea.
  unfold p' in Ea. rewrite tick_eq in Ea. destruct (tick2_at now (tick1 now p) a I1) as [F _].
  destruct (F _ _ Ea) as [N EC]. split; [done|].
  assert (H2 : hk (tick1 now p) p').
  { unfold p'. rewrite tick_eq. apply fold_hk_simple. intros; apply tick_idle_hk. }
  by rewrite (hk_econd _ _ now q H2).
Qed.

(* non-vacuity: a history that reaches the limit, retires, reuses and replaces *)
Example pool_example :
  let p := run [GetConn 7%nat true 0; GetConn 7%nat true 1; GetConn 7%nat true 2; CallBegin 0%nat; Tick 200;
                GetConn 7%nat true 201; CallEnd 0%nat true; GetConn 7%nat true 202; GetConn 7%nat false 203]
               (init 2 5 100 50 0) in
  p_out p = [Some 0; Some 1; Some 1; Some 2; Some 3; Some 2]%nat /\ p_maxidle p = 2%nat /\
  length (open_to p 7%nat) = 2%nat.
Proof. repeat split; vm_compute; reflexivity. Qed.

(* ---- audit ---- *)
Print Assumptions reachable_inv.
Print Assumptions normalise_limits.
Print Assumptions bounds.
Print Assumptions getconn_result.
Print Assumptions getconn_dial_ok.
Print Assumptions dead_never_handed_out.
Print Assumptions failure_consumes_connection.
Print Assumptions spares_busy.
Print Assumptions stream_end_only_busy.
Print Assumptions tick_retires.
Print Assumptions tick_closes_idle.
Print Assumptions close_closes_all.
Print Assumptions tick_idempotent.
Print Assumptions pool_example.
