(* Pool/Inv.v — invariant of the Transport pool machine and the lemmas the
   property files cite (Props/C13.v, C14.v, C15.v). *)
From stdpp Require Import gmap.
From RPC Require Import Res.
From RPC.Pool Require Import Model.
Open Scope Z_scope.

Definition filed (p : pool) (c : cid) : Prop :=
  exists a, c ∈ active_of p a \/ c ∈ idle_of p a.

Record PInv (p : pool) : Prop := {
  (* limits are normalised *)
  pi_limits : (1 <= p_maxidle p <= p_maxconns p)%nat;
  (* a connection is filed under the address it was dialed to *)
  pi_active_addr : forall a c, c ∈ active_of p a -> exists pc, p_conns p !! c = Some pc /\ pc_addr pc = a;
  pi_idle_addr : forall a c, c ∈ idle_of p a -> exists pc, p_conns p !! c = Some pc /\ pc_addr pc = a;
  (* per-host bounds *)
  pi_total : forall a, (length (active_of p a) + length (idle_of p a) <= p_maxconns p)%nat;
  pi_idle_cap : forall a q cap, p_idle p !! a = Some (q, cap) -> cap = p_maxidle p /\ (length q <= cap)%nat;
  pi_active_nonempty : forall a cs cur, p_active p !! a = Some (cs, cur) -> cs <> [];
  (* nothing is filed twice *)
  pi_nodup : forall a, NoDup (active_of p a ++ idle_of p a);
  (* every connection that is still open is filed (no leak) ... *)
  pi_open_filed : forall c pc, p_conns p !! c = Some pc -> pc_closed pc = false ->
      c ∈ active_of p (pc_addr pc) \/ c ∈ idle_of p (pc_addr pc);
  (* ... a filed connection that the pool has closed is a dead one awaiting replacement *)
  pi_filed_closed : forall c pc, filed p c -> p_conns p !! c = Some pc -> pc_closed pc = true -> pc_alive pc = false;
  (* dead connections are closed *)
  pi_dead_closed : forall c pc, p_conns p !! c = Some pc -> pc_alive pc = false -> pc_closed pc = true;
  pi_ids : forall c, is_Some (p_conns p !! c) -> (c < p_next p)%nat
}.

(* ====================================================================
   TARGET STATEMENTS.  [run tr (init ...)] ranges over every history of
   pool operations, dial outcomes, clock values and call begins/ends.
   ==================================================================== *)
Definition reachable (p : pool) : Prop :=
  exists mc mi ka it now tr, p = run tr (init mc mi ka it now).

Theorem reachable_inv p : reachable p -> PInv p.
Proof. Admitted.

(* ---- C13 ---- *)
Theorem normalise_limits mc mi :
  (1 <= norm_maxidle mi mc <= norm_maxconns mc)%nat /\
  (mc < 1 -> norm_maxconns mc = Z.to_nat Generated.c_DefaultMaxConnsPerHost) /\
  (1 <= mc -> norm_maxconns mc = Z.to_nat mc) /\
  (mi < 1 -> norm_maxidle mi mc = Z.to_nat Generated.c_DefaultMaxIdleConnsPerHost) /\
  (1 <= mi -> Z.of_nat (norm_maxconns mc) < mi -> norm_maxidle mi mc = norm_maxconns mc) /\
  (1 <= mi -> mi <= Z.of_nat (norm_maxconns mc) -> norm_maxidle mi mc = Z.to_nat mi).
Proof. Admitted.

(* at no time more than MaxConnsPerHost open connections to one address (active plus idle),
   nor more than MaxIdleConnsPerHost idle ones *)
Theorem bounds p a : reachable p ->
  (length (open_to p a) <= p_maxconns p)%nat /\ (length (idle_of p a) <= p_maxidle p)%nat.
Proof. Admitted.

(* ---- C14 ---- *)
(* getConn(a) returns a live, open connection dialed to a, or ErrDial *)
Theorem getconn_result p a ok now : reachable p ->
  let p' := step p (GetConn a ok now) in
  exists o, p_out p' = p_out p ++ [o] /\
    match o with
    | Some c => exists pc, p_conns p' !! c = Some pc /\ pc_addr pc = a /\ pc_alive pc = true /\ pc_closed pc = false /\
                           c ∈ active_of p' a
    | None => ok = false
    end.
Proof. Admitted.

(* a dial is attempted only when needed; when it succeeds the call gets a connection *)
Theorem getconn_dial_ok p a now : reachable p ->
  exists c, list.last (p_out (step p (GetConn a true now))) = Some (Some c).
Proof. Admitted.

(* a connection on which a call failed with ErrShutdown is never handed out afterwards *)
Theorem dead_never_handed_out tr1 c tr2 mc mi ka it now :
  let p1 := run (tr1 ++ [CallEnd c true]) (init mc mi ka it now) in
  let p2 := run tr2 p1 in
  forall i, (length (p_out p1) <= i)%nat -> p_out p2 !! i <> Some (Some c).
Proof. Admitted.

(* recovery: each ErrShutdown removes one pooled connection for good, so a sequential caller
   sees at most (number of pooled connections to a) failures before getConn must dial *)
Theorem failure_consumes_connection p c pc : reachable p -> p_conns p !! c = Some pc -> pc_alive pc = true ->
  let p' := step p (CallEnd c true) in
  alive_of p' c = false /\ is_open p' c = false /\
  (forall c', c' <> c -> p_conns p' !! c' = p_conns p !! c') /\
  p_active p' = p_active p /\ p_idle p' = p_idle p.
Proof. Admitted.

(* ---- C15 ---- *)
(* housekeeping and CloseIdleConnections never close a connection that carries a call or stream *)
Theorem spares_busy p a c : reachable p -> (exists now, a = Tick now) \/ a = CloseIdle ->
  (0 < busy_of p c)%nat -> is_open p c = true -> is_open (step p a) c = true.
Proof. Admitted.

(* an unused connection older than KeepAlive is retired (parked, or closed when the idle queue is full) by the next tick *)
Theorem tick_retires p a c now : reachable p -> c ∈ active_of p a -> busy_of p c = 0%nat ->
  last_of p c + p_keepalive p < now ->
  c ∉ active_of (step p (Tick now)) a.
Proof. Admitted.

(* an idle queue whose newest entry is older than IdleConnTimeout and whose entries carry no call
   is closed and removed by the next tick *)
Theorem tick_closes_idle p a q cap now : reachable p -> p_idle p !! a = Some (q, cap) -> q <> [] ->
  (forall c, c ∈ q -> busy_of p c = 0%nat /\ last_of p c + p_idleto p < now) ->
  (forall c, c ∈ active_of p a -> ~ (busy_of p c = 0%nat /\ last_of p c + p_keepalive p < now)) ->
  let p' := step p (Tick now) in
  idle_of p' a = [] /\ forall c, c ∈ q -> is_open p' c = false.
Proof. Admitted.

(* Transport.Close closes every pooled connection, empties both structures, and is idempotent *)
Theorem close_closes_all p : reachable p ->
  let p' := step p Close in
  p_active p' = ∅ /\ p_idle p' = ∅ /\ (forall c, is_Some (p_conns p' !! c) -> is_open p' c = false) /\
  step p' Close = p'.
Proof. Admitted.

(* housekeeping is idempotent at a fixed clock (the harness may wait for "at least one" tick) *)
Theorem tick_idempotent p now : reachable p -> step (step p (Tick now)) (Tick now) = step p (Tick now).
Proof. Admitted.

(* non-vacuity: a history that reaches the limit, retires, reuses and replaces *)
Example pool_example :
  let p := run [GetConn 7%nat true 0; GetConn 7%nat true 1; GetConn 7%nat true 2; CallBegin 0%nat; Tick 200;
                GetConn 7%nat true 201; CallEnd 0%nat true; GetConn 7%nat true 202; GetConn 7%nat false 203]
               (init 2 5 100 50 0) in
  p_out p = [Some 0; Some 1; Some 1; Some 2; Some 3; Some 2]%nat /\ p_maxidle p = 2%nat /\
  length (open_to p 7%nat) = 2%nat.
Proof. Admitted.
