(* Code.v — codec.code.go transcribed: request / response Marshal (three-way
   0 / <=127 / >127 branch per field) and Unmarshal. *)
From RPC Require Export Varint PB.
From RPC Require Generated.
Open Scope N_scope.

(* one field of Marshal: the three-way branch on len(x) *)
Definition code_field_enc (hi lo : N) (x : bytes) : list bytes :=
  if hi <? len x then [varint_enc (len x); x]
  else if lo <? len x then [[len x mod 256]; x]
  else [[0]].

Definition code_req_chunks (r : pbreq) : list bytes :=
  [varint_enc (q_seq r)] ++
  code_field_enc (nthN Generated.code_req_thresholds 0) (nthN Generated.code_req_thresholds 1) (q_upgrade r) ++
  code_field_enc (nthN Generated.code_req_thresholds 2) (nthN Generated.code_req_thresholds 3) (q_method r) ++
  code_field_enc (nthN Generated.code_req_thresholds 4) (nthN Generated.code_req_thresholds 5) (q_args r).
Definition code_resp_chunks (r : pbresp) : list bytes :=
  [varint_enc (p_seq r)] ++
  code_field_enc (nthN Generated.code_resp_thresholds 0) (nthN Generated.code_resp_thresholds 1) (p_error r) ++
  code_field_enc (nthN Generated.code_resp_thresholds 2) (nthN Generated.code_resp_thresholds 3) (p_reply r).

Definition code_req_size (r : pbreq) : N :=
  sumN Generated.code_req_slack + len (q_upgrade r) + len (q_method r) + len (q_args r).
Definition code_resp_size (r : pbresp) : N :=
  sumN Generated.code_resp_slack + len (p_error r) + len (p_reply r).

(* Marshal(buf): reuse buf when its capacity suffices, else make(size) (zeros) *)
Definition code_marshal (size : N) (chunks : list bytes) (buf : bytes) : res bytes :=
  let b := if size <=? len buf then firstn (N.to_nat size) buf else repeat 0 (N.to_nat size) in
  let* (b', off) := write_all b 0 chunks in Ok (firstn off b').

Definition code_req_marshal (buf : bytes) (r : pbreq) : res bytes :=
  code_marshal (code_req_size r) (code_req_chunks r) buf.
Definition code_resp_marshal (buf : bytes) (r : pbresp) : res bytes :=
  code_marshal (code_resp_size r) (code_resp_chunks r) buf.

Definition code_req_bytes (r : pbreq) : bytes := concat (code_req_chunks r).
Definition code_resp_bytes (r : pbresp) : bytes := concat (code_resp_chunks r).

(* one field of Unmarshal:
     if !checkBytes(data[offset:]) { return errShortBuffer }     (guard)
     if data[offset] > 127 { DecodeBytes } else if data[offset] > 0 { data[offset+1:offset+s] } else { n = 1 }
   and the two-way variant used for strings. *)
Definition code_field_dec3 (g : bool) (b : bytes) : res (bytes * bytes) :=
  if g && negb (check_bytes b) then Err EShort else
  match b with
  | [] => Panic
  | x :: r =>
      if 127 <? x then (let* (t, r') := varint_dec b in take t r')
      else if 0 <? x then take x r
      else Ok ([], r)
  end.
Definition code_field_dec2 (g : bool) (b : bytes) : res (bytes * bytes) :=
  if g && negb (check_bytes b) then Err EShort else
  match b with
  | [] => Panic
  | x :: r =>
      if 0 <? x then (let* (t, r') := varint_dec b in take t r')
      else Ok ([], r)
  end.

Definition code_req_dec (g : bool) (b : bytes) : res pbreq :=
  let* (s, b1) := read_varint g b in
  let* (u, b2) := code_field_dec3 g b1 in
  let* (m, b3) := code_field_dec2 g b2 in
  let* (a, _) := code_field_dec3 g b3 in
  Ok {| q_seq := s; q_upgrade := u; q_method := m; q_args := a |}.

Definition code_resp_dec (g : bool) (b : bytes) : res pbresp :=
  let* (s, b1) := read_varint g b in
  let* (e, b2) := code_field_dec2 g b1 in
  let* (r, _) := code_field_dec3 g b2 in
  Ok {| p_seq := s; p_error := e; p_reply := r |}.
