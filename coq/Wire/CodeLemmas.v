(* CodeLemmas.v — facts about codec.code.go's model. *)
From RPC Require Import Varint VarintLemmas PB PBLemmas Code.
From RPC Require Generated.
From Coq Require Import ZifyBool ZifyN ZifyNat.
Ltac Zify.zify_post_hook ::= Z.div_mod_to_equations.
Open Scope N_scope.

Lemma varint_enc_small v : v < 128 -> varint_enc v = [v].
Proof.
  intros H. unfold varint_enc, sizeof_varint. change (2^7) with 128.
  replace (v <? 128) with true by lia. cbn [Nat.sub enc_loop]. rewrite N.mod_small by lia. reflexivity.
Qed.

(* the three-way branch collapses to the documented length prefix *)
Lemma code_field_enc_lp x : concat (code_field_enc 127 0 x) = lp x.
Proof.
  unfold code_field_enc, lp.
  destruct (127 <? len x) eqn:E1; [simpl; rewrite app_nil_r; reflexivity|].
  destruct (0 <? len x) eqn:E2.
  - simpl. rewrite app_nil_r, varint_enc_small by lia. rewrite N.mod_small by lia. reflexivity.
  - rewrite (len_zero_nil x E2). reflexivity.
Qed.

Theorem code_req_format r :
  code_req_bytes r = varint_enc (q_seq r) ++ lp (q_upgrade r) ++ lp (q_method r) ++ lp (q_args r).
Proof.
  unfold code_req_bytes, code_req_chunks.
  change (nthN Generated.code_req_thresholds 0) with 127. change (nthN Generated.code_req_thresholds 1) with 0.
  change (nthN Generated.code_req_thresholds 2) with 127. change (nthN Generated.code_req_thresholds 3) with 0.
  change (nthN Generated.code_req_thresholds 4) with 127. change (nthN Generated.code_req_thresholds 5) with 0.
  rewrite !concat_app, !code_field_enc_lp. simpl. rewrite app_nil_r. reflexivity.
Qed.

Theorem code_resp_format r :
  code_resp_bytes r = varint_enc (p_seq r) ++ lp (p_error r) ++ lp (p_reply r).
Proof.
  unfold code_resp_bytes, code_resp_chunks.
  change (nthN Generated.code_resp_thresholds 0) with 127. change (nthN Generated.code_resp_thresholds 1) with 0.
  change (nthN Generated.code_resp_thresholds 2) with 127. change (nthN Generated.code_resp_thresholds 3) with 0.
  rewrite !concat_app, !code_field_enc_lp. simpl. rewrite app_nil_r. reflexivity.
Qed.

Lemma code_req_size_bound r : len (code_req_bytes r) <= code_req_size r.
Proof.
  rewrite code_req_format. unfold code_req_size. change (sumN Generated.code_req_slack) with 40.
  rewrite !len_app. pose proof (len_varint_enc (q_seq r)).
  pose proof (len_lp (q_upgrade r)). pose proof (len_lp (q_method r)). pose proof (len_lp (q_args r)). lia.
Qed.
Lemma code_resp_size_bound r : len (code_resp_bytes r) <= code_resp_size r.
Proof.
  rewrite code_resp_format. unfold code_resp_size. change (sumN Generated.code_resp_slack) with 30.
  rewrite !len_app. pose proof (len_varint_enc (p_seq r)).
  pose proof (len_lp (p_error r)). pose proof (len_lp (p_reply r)). lia.
Qed.

Lemma code_marshal_ok size chunks buf :
  len (concat chunks) <= size -> code_marshal size chunks buf = Ok (concat chunks).
Proof.
  intros H. unfold code_marshal.
  rewrite write_all_ok.
  - cbn [bind]. f_equal. rewrite firstn_app, Nat.sub_diag, firstn_all, firstn_O, app_nil_r. reflexivity.
  - unfold len in *. destruct (size <=? N.of_nat (length buf)) eqn:E.
    + rewrite firstn_length. apply Nat.min_glb; lia.
    + rewrite repeat_length. lia.
Qed.

Theorem code_req_marshal_any_buffer buf r : code_req_marshal buf r = Ok (code_req_bytes r).
Proof. apply code_marshal_ok, code_req_size_bound. Qed.
Theorem code_resp_marshal_any_buffer buf r : code_resp_marshal buf r = Ok (code_resp_bytes r).
Proof. apply code_marshal_ok, code_resp_size_bound. Qed.

(* the decoder's per-field branches are the plain length-prefixed read *)
Lemma varint_dec_small x r : x < 128 -> varint_dec (x :: r) = Ok (x, r).
Proof.
  intros H. unfold varint_dec. cbn [dvar]. rewrite land128_gen.
  replace ((x / 128) mod 2 =? 0) with true by lia. cbn [orb].
  rewrite land127, (N.mod_small x 128) by lia. cbn [N.of_nat N.mul]. rewrite N.shiftl_0_r, N.lor_0_l.
  rewrite N.mod_small; [reflexivity|]. eapply N.lt_trans; [exact H|]. vm_compute. reflexivity.
Qed.

Lemma take_zero r : take 0 r = Ok ([], r).
Proof. unfold take. replace (0 <=? len r) with true by lia. reflexivity. Qed.

Lemma code_field_dec3_eq g b : code_field_dec3 g b = read_bytes g b.
Proof.
  unfold code_field_dec3, read_bytes. destruct (g && negb (check_bytes b)); [reflexivity|].
  destruct b as [|x r]; [reflexivity|].
  destruct (127 <? x) eqn:E1; [reflexivity|].
  rewrite varint_dec_small by lia. cbn [bind].
  destruct (0 <? x) eqn:E2; [reflexivity|].
  replace x with 0 by lia. symmetry. apply take_zero.
Qed.

Lemma code_field_dec2_eq g b : code_field_dec2 g b = read_bytes g b.
Proof.
  unfold code_field_dec2, read_bytes. destruct (g && negb (check_bytes b)); [reflexivity|].
  destruct b as [|x r]; [reflexivity|].
  destruct (0 <? x) eqn:E2; [reflexivity|].
  replace x with 0 by lia. rewrite varint_dec_small by lia. cbn [bind]. symmetry. apply take_zero.
Qed.

Theorem code_req_roundtrip g r : wf_pbreq r -> code_req_dec g (code_req_bytes r) = Ok r.
Proof.
  intros (H1 & H2 & H3 & H4). rewrite code_req_format. unfold code_req_dec.
  rewrite read_varint_enc by lia. cbn [bind].
  rewrite code_field_dec3_eq, read_bytes_lp by lia. cbn [bind].
  rewrite code_field_dec2_eq, read_bytes_lp by lia. cbn [bind].
  rewrite code_field_dec3_eq. rewrite <- (app_nil_r (lp (q_args r))). rewrite read_bytes_lp by lia. cbn [bind].
  destruct r; reflexivity.
Qed.

Theorem code_resp_roundtrip g r : wf_pbresp r -> code_resp_dec g (code_resp_bytes r) = Ok r.
Proof.
  intros (H1 & H2 & H3). rewrite code_resp_format. unfold code_resp_dec.
  rewrite read_varint_enc by lia. cbn [bind].
  rewrite code_field_dec2_eq, read_bytes_lp by lia. cbn [bind].
  rewrite code_field_dec3_eq. rewrite <- (app_nil_r (lp (p_reply r))). rewrite read_bytes_lp by lia. cbn [bind].
  destruct r; reflexivity.
Qed.

Theorem code_req_dec_total b : code_req_dec true b <> Panic.
Proof.
  unfold code_req_dec.
  apply bind_not_panic; [apply read_varint_total|intros [s b1] _].
  apply bind_not_panic; [rewrite code_field_dec3_eq; apply read_bytes_total|intros [u b2] _].
  apply bind_not_panic; [rewrite code_field_dec2_eq; apply read_bytes_total|intros [m b3] _].
  apply bind_not_panic; [rewrite code_field_dec3_eq; apply read_bytes_total|intros [a b4] _].
  discriminate.
Qed.

Theorem code_resp_dec_total b : code_resp_dec true b <> Panic.
Proof.
  unfold code_resp_dec.
  apply bind_not_panic; [apply read_varint_total|intros [s b1] _].
  apply bind_not_panic; [rewrite code_field_dec2_eq; apply read_bytes_total|intros [u b2] _].
  apply bind_not_panic; [rewrite code_field_dec3_eq; apply read_bytes_total|intros [a b4] _].
  discriminate.
Qed.

(* the pinned tree's unguarded decoders do panic (F3) *)
Example pb_req_dec_legacy_panics : pb_req_dec false [8] = Panic /\ pb_req_dec false [18] = Panic
                                   /\ pb_req_dec false [18; 5; 1] = Panic.
Proof. repeat split; vm_compute; reflexivity. Qed.
Example code_req_dec_legacy_panics : code_req_dec false [] = Panic /\ code_req_dec false [1] = Panic.
Proof. repeat split; vm_compute; reflexivity. Qed.
Example code_resp_dec_legacy_panics : code_resp_dec false [] = Panic /\ code_resp_dec false [1] = Panic.
Proof. repeat split; vm_compute; reflexivity. Qed.
