(* EndToEnd.v — the wire as a channel of MESSAGES.

   Frame.v/FrameLemmas.v say that frames survive any chunking of the byte
   stream; PBLemmas.v/CodeLemmas.v say that a header survives
   encode/decode.  Composed: a sequence of headers written one frame each
   (codec WriteRequest / WriteResponse -> messages.WriteMessage), carried by
   a byte stream that the transport may fragment, batch or delay at will,
   and read back frame by frame (messages.ReadMessage -> ReadRequestHeader /
   ReadResponseHeader), is received as exactly that sequence: nothing lost,
   nothing duplicated, nothing reordered, nothing altered.  And when the
   stream is cut at any byte, what is received is exactly the sequence of the
   headers whose frames end at or before the cut.

   The generic statement is over any encoder/decoder pair with a round trip
   on well-formed values; it is then instantiated for the two header
   encoders modelled (pb = default, code), requests and responses. *)
From RPC Require Import Varint VarintLemmas PB PBLemmas Code CodeLemmas Frame FrameLemmas.
Open Scope N_scope.

Section Channel.
  Context {A : Type}.
  Variable enc : A -> bytes.
  Variable dec : bytes -> res A.
  Variable wf : A -> Prop.
  Hypothesis roundtrip : forall a, wf a -> dec (enc a) = Ok a.

  (* what the writer puts on the stream for a sequence of messages *)
  Definition wire_of (msgs : list A) : bytes := concat (map (fun m => frame_enc (enc m)) msgs).

  Lemma wire_of_frames msgs : wire_of msgs = concat (map frame_enc (map enc msgs)).
  Proof. unfold wire_of. rewrite map_map. reflexivity. Qed.

  Lemma decode_all msgs : Forall wf msgs -> map dec (map enc msgs) = map Ok msgs.
  Proof.
    induction 1 as [|a l Ha _ IH]; simpl; [reflexivity|].
    rewrite (roundtrip a Ha), IH. reflexivity.
  Qed.

  (* every chunking of the stream delivers exactly the messages written, in order *)
  Theorem messages_survive msgs chunks :
    Forall wf msgs -> frames_ok (map enc msgs) ->
    concat chunks = wire_of msgs ->
    exists frames, feed_all chunks = Ok (frames, []) /\ map dec frames = map Ok msgs.
  Proof.
    intros Hwf Hok E. exists (map enc msgs). split.
    - apply frame_reassembly; [exact Hok|]. rewrite E. apply wire_of_frames.
    - apply decode_all. exact Hwf.
  Qed.

  (* a stream cut inside (or just before) the frame of message m delivers exactly the
     messages before m, and the torn bytes stay in the reader's buffer: they are never
     handed to the decoder *)
  Theorem messages_cut msgs m pre chunks :
    Forall wf msgs -> frames_ok (map enc (msgs ++ [m])) ->
    (exists suf, suf <> [] /\ frame_enc (enc m) = pre ++ suf) ->
    concat chunks = wire_of msgs ++ pre ->
    exists frames, feed_all chunks = Ok (frames, pre) /\ map dec frames = map Ok msgs.
  Proof.
    intros Hwf Hok Hcut E. exists (map enc msgs). split.
    - apply (frame_cut (map enc msgs) (enc m) pre chunks).
      + rewrite map_app in Hok. exact Hok.
      + exact Hcut.
      + rewrite E, wire_of_frames. reflexivity.
    - apply decode_all. exact Hwf.
  Qed.
End Channel.

(* a header of a well-formed request is shorter than 2^63 bytes whenever the Go slice holding
   it exists at all; the instantiations keep this as the hypothesis [frames_ok] *)

(* ---- instantiations: the two header encoders, both directions ---- *)
Theorem pb_requests_survive g reqs chunks :
  Forall wf_pbreq reqs -> frames_ok (map pb_req_bytes reqs) ->
  concat chunks = wire_of pb_req_bytes reqs ->
  exists frames, feed_all chunks = Ok (frames, []) /\ map (pb_req_dec g) frames = map Ok reqs.
Proof. apply messages_survive. intros a Ha. apply pb_req_roundtrip. exact Ha. Qed.

Theorem pb_responses_survive g resps chunks :
  Forall wf_pbresp resps -> frames_ok (map pb_resp_bytes resps) ->
  concat chunks = wire_of pb_resp_bytes resps ->
  exists frames, feed_all chunks = Ok (frames, []) /\ map (pb_resp_dec g) frames = map Ok resps.
Proof. apply messages_survive. intros a Ha. apply pb_resp_roundtrip. exact Ha. Qed.

Theorem code_requests_survive g reqs chunks :
  Forall wf_pbreq reqs -> frames_ok (map code_req_bytes reqs) ->
  concat chunks = wire_of code_req_bytes reqs ->
  exists frames, feed_all chunks = Ok (frames, []) /\ map (code_req_dec g) frames = map Ok reqs.
Proof. apply messages_survive. intros a Ha. apply code_req_roundtrip. exact Ha. Qed.

Theorem code_responses_survive g resps chunks :
  Forall wf_pbresp resps -> frames_ok (map code_resp_bytes resps) ->
  concat chunks = wire_of code_resp_bytes resps ->
  exists frames, feed_all chunks = Ok (frames, []) /\ map (code_resp_dec g) frames = map Ok resps.
Proof. apply messages_survive. intros a Ha. apply code_resp_roundtrip. exact Ha. Qed.

Theorem pb_responses_cut g resps m pre chunks :
  Forall wf_pbresp resps -> frames_ok (map pb_resp_bytes (resps ++ [m])) ->
  (exists suf, suf <> [] /\ frame_enc (pb_resp_bytes m) = pre ++ suf) ->
  concat chunks = wire_of pb_resp_bytes resps ++ pre ->
  exists frames, feed_all chunks = Ok (frames, pre) /\ map (pb_resp_dec g) frames = map Ok resps.
Proof. apply messages_cut. intros a Ha. apply pb_resp_roundtrip. exact Ha. Qed.

Theorem pb_requests_cut g reqs m pre chunks :
  Forall wf_pbreq reqs -> frames_ok (map pb_req_bytes (reqs ++ [m])) ->
  (exists suf, suf <> [] /\ frame_enc (pb_req_bytes m) = pre ++ suf) ->
  concat chunks = wire_of pb_req_bytes reqs ++ pre ->
  exists frames, feed_all chunks = Ok (frames, pre) /\ map (pb_req_dec g) frames = map Ok reqs.
Proof. apply messages_cut. intros a Ha. apply pb_req_roundtrip. exact Ha. Qed.

(* non-vacuity: two requests, chunked byte by byte across the frame boundary *)
Definition ex_r1 : pbreq := {| q_seq := 1; q_upgrade := []; q_method := [65]; q_args := [7; 8] |}.
Definition ex_r2 : pbreq := {| q_seq := 300; q_upgrade := [1]; q_method := [66; 67]; q_args := [] |}.
Definition ex_chunks : list bytes :=
  let w := wire_of pb_req_bytes [ex_r1; ex_r2] in
  [firstn 3 w; firstn 9 (skipn 3 w); skipn 12 w].
Example ex_two_requests :
  concat ex_chunks = wire_of pb_req_bytes [ex_r1; ex_r2] /\
  (exists frames, feed_all ex_chunks = Ok (frames, []) /\
     map (pb_req_dec true) frames = [Ok ex_r1; Ok ex_r2]).
Proof. split; [vm_compute; reflexivity|]. eexists; split; vm_compute; reflexivity. Qed.

Print Assumptions messages_survive.
Print Assumptions messages_cut.
Print Assumptions pb_requests_survive.
Print Assumptions code_responses_survive.
