(* Upgrade.v — upgrade.go transcribed: the one-byte flag field. Shift amounts
   and masks are read from the source (Gen/Generated.v). *)
From RPC Require Export Bytes.
From RPC Require Generated.
From Coq Require String.
Open Scope N_scope.

Record upgrade := { NoRequest : N; NoResponse : N; Heartbeat : N; Stream : N }.

Definition upgrade0 : upgrade := {| NoRequest := 0; NoResponse := 0; Heartbeat := 0; Stream := 0 |}.

(* IsZero: the byte-sum of the four fields is zero (uint8 arithmetic) *)
Definition is_zero (u : upgrade) : bool :=
  (NoRequest u + NoResponse u + Heartbeat u + Stream u) mod 256 =? 0.

Definition mshift (i : nat) : N := snd (nth i Generated.upgrade_marshal_shifts (String.EmptyString, 0)).
Definition ushift (i : nat) : N := snd (fst (nth i Generated.upgrade_unmarshal_fields (String.EmptyString, 0, 0))).
Definition umask (i : nat) : N := snd (nth i Generated.upgrade_unmarshal_fields (String.EmptyString, 0, 0)).

(* buf[0] = u.NoRequest<<7 + u.NoResponse<<6 + u.Heartbeat<<5 + u.Stream<<3  (uint8) *)
Definition upgrade_byte (u : upgrade) : N :=
  ((N.shiftl (NoRequest u) (mshift 0)) mod 256 + (N.shiftl (NoResponse u) (mshift 1)) mod 256
   + (N.shiftl (Heartbeat u) (mshift 2)) mod 256 + (N.shiftl (Stream u) (mshift 3)) mod 256) mod 256.

(* Marshal(buf): buf[:1] if cap(buf) >= 1 else make(1); always succeeds *)
Definition upgrade_enc (u : upgrade) : bytes := [upgrade_byte u].

(* Unmarshal(data) *)
Definition upgrade_dec (d : bytes) : res upgrade :=
  match d with
  | [] => Err EShort
  | b :: _ => Ok {| NoRequest := N.land (N.shiftr b (ushift 0)) (umask 0);
                    NoResponse := N.land (N.shiftr b (ushift 1)) (umask 1);
                    Heartbeat := N.land (N.shiftr b (ushift 2)) (umask 2);
                    Stream := N.land (N.shiftr b (ushift 3)) (umask 3) |}
  end.

Definition wf_upgrade (u : upgrade) : bool :=
  (NoRequest u <? 2) && (NoResponse u <? 2) && (Heartbeat u <? 2) && (Stream u <? 4).

Definition upgrade_eqb (a b : upgrade) : bool :=
  (NoRequest a =? NoRequest b) && (NoResponse a =? NoResponse b) &&
  (Heartbeat a =? Heartbeat b) && (Stream a =? Stream b).

(* the 32 well-formed flag combinations *)
Definition all_upgrades : list upgrade :=
  flat_map (fun a => flat_map (fun b => flat_map (fun c => map (fun d =>
    {| NoRequest := a; NoResponse := b; Heartbeat := c; Stream := d |}) [0;1;2;3]) [0;1]) [0;1]) [0;1].
