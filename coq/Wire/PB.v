(* PB.v — codec.pb.go transcribed: pbRequest / pbResponse Size, MarshalTo
   (writes into a caller-supplied buffer of arbitrary prior contents),
   Unmarshal (single-byte-tag loop).  Tag bytes, Size() slack and the
   (field, wire type) table are read from the source on every run
   (Gen/Generated.v). *)
From RPC Require Export Varint.
From RPC Require Generated.
Open Scope N_scope.

Record pbreq := { q_seq : N; q_upgrade : bytes; q_method : bytes; q_args : bytes }.
Record pbresp := { p_seq : N; p_error : bytes; p_reply : bytes }.

Definition nthN (l : list N) (i : nat) : N := nth i l 0.
Definition sumN (l : list N) : N := fold_right N.add 0 l.

(* Size(): slack constants plus the lengths *)
Definition pb_req_size (r : pbreq) : N :=
  sumN Generated.pb_req_slack + len (q_upgrade r) + len (q_method r) + len (q_args r).
Definition pb_resp_size (r : pbresp) : N :=
  sumN Generated.pb_resp_slack + len (p_error r) + len (p_reply r).

(* the pieces MarshalTo stores, in order *)
Definition pb_varint_field (tag v : N) : list bytes :=
  if v =? 0 then [] else [[tag]; varint_enc v].
Definition pb_bytes_field (tag : N) (x : bytes) : list bytes :=
  if 0 <? len x then [[tag]; varint_enc (len x); x] else [].

Definition pb_req_chunks (r : pbreq) : list bytes :=
  pb_varint_field (nthN Generated.pb_req_tags 0) (q_seq r) ++
  pb_bytes_field (nthN Generated.pb_req_tags 1) (q_upgrade r) ++
  pb_bytes_field (nthN Generated.pb_req_tags 2) (q_method r) ++
  pb_bytes_field (nthN Generated.pb_req_tags 3) (q_args r).
Definition pb_resp_chunks (r : pbresp) : list bytes :=
  pb_varint_field (nthN Generated.pb_resp_tags 0) (p_seq r) ++
  pb_bytes_field (nthN Generated.pb_resp_tags 1) (p_error r) ++
  pb_bytes_field (nthN Generated.pb_resp_tags 2) (p_reply r).

Definition pb_req_bytes (r : pbreq) : bytes := concat (pb_req_chunks r).
Definition pb_resp_bytes (r : pbresp) : bytes := concat (pb_resp_chunks r).

(* MarshalTo(buf): [buf] stands for buf[:cap(buf)] with whatever it held *)
Definition marshal_to (size : N) (chunks : list bytes) (buf : bytes) : res bytes :=
  if size <=? len buf then
    let* (b, off) := write_all (firstn (N.to_nat size) buf) 0 chunks in
    Ok (firstn off b)
  else Err EBufShort.

Definition pb_req_marshal_to (buf : bytes) (r : pbreq) : res bytes :=
  marshal_to (pb_req_size r) (pb_req_chunks r) buf.
Definition pb_resp_marshal_to (buf : bytes) (r : pbresp) : res bytes :=
  marshal_to (pb_resp_size r) (pb_resp_chunks r) buf.

(* Unmarshal: for { tag := data[offset]; switch tag>>3 {...} }.  Unknown
   field numbers fall through the switch: only the tag byte is skipped. *)
Definition pb_case (cases : list (N * N)) (i : nat) : N * N := nth i cases (0, 0).

Fixpoint pb_req_loop (fuel : nat) (g : bool) (b : bytes) (r : pbreq) : res pbreq :=
  match fuel with
  | O => Err EFuel
  | S f =>
    match b with
    | [] => Ok r
    | tag :: rest =>
      let fn := tag / 8 in
      let wt := tag mod 8 in
      if fn =? fst (pb_case Generated.pb_req_cases 0) then
        if negb (wt =? snd (pb_case Generated.pb_req_cases 0)) then Err EWireType else
        let* (v, rest') := read_varint g rest in
        pb_req_loop f g rest' {| q_seq := v; q_upgrade := q_upgrade r; q_method := q_method r; q_args := q_args r |}
      else if fn =? fst (pb_case Generated.pb_req_cases 1) then
        if negb (wt =? snd (pb_case Generated.pb_req_cases 1)) then Err EWireType else
        let* (x, rest') := read_bytes g rest in
        pb_req_loop f g rest' {| q_seq := q_seq r; q_upgrade := x; q_method := q_method r; q_args := q_args r |}
      else if fn =? fst (pb_case Generated.pb_req_cases 2) then
        if negb (wt =? snd (pb_case Generated.pb_req_cases 2)) then Err EWireType else
        let* (x, rest') := read_bytes g rest in
        pb_req_loop f g rest' {| q_seq := q_seq r; q_upgrade := q_upgrade r; q_method := x; q_args := q_args r |}
      else if fn =? fst (pb_case Generated.pb_req_cases 3) then
        if negb (wt =? snd (pb_case Generated.pb_req_cases 3)) then Err EWireType else
        let* (x, rest') := read_bytes g rest in
        pb_req_loop f g rest' {| q_seq := q_seq r; q_upgrade := q_upgrade r; q_method := q_method r; q_args := x |}
      else pb_req_loop f g rest r
    end
  end.

Definition pbreq0 : pbreq := {| q_seq := 0; q_upgrade := []; q_method := []; q_args := [] |}.
Definition pb_req_dec (g : bool) (b : bytes) : res pbreq := pb_req_loop (S (length b)) g b pbreq0.

Fixpoint pb_resp_loop (fuel : nat) (g : bool) (b : bytes) (r : pbresp) : res pbresp :=
  match fuel with
  | O => Err EFuel
  | S f =>
    match b with
    | [] => Ok r
    | tag :: rest =>
      let fn := tag / 8 in
      let wt := tag mod 8 in
      if fn =? fst (pb_case Generated.pb_resp_cases 0) then
        if negb (wt =? snd (pb_case Generated.pb_resp_cases 0)) then Err EWireType else
        let* (v, rest') := read_varint g rest in
        pb_resp_loop f g rest' {| p_seq := v; p_error := p_error r; p_reply := p_reply r |}
      else if fn =? fst (pb_case Generated.pb_resp_cases 1) then
        if negb (wt =? snd (pb_case Generated.pb_resp_cases 1)) then Err EWireType else
        let* (x, rest') := read_bytes g rest in
        pb_resp_loop f g rest' {| p_seq := p_seq r; p_error := x; p_reply := p_reply r |}
      else if fn =? fst (pb_case Generated.pb_resp_cases 2) then
        if negb (wt =? snd (pb_case Generated.pb_resp_cases 2)) then Err EWireType else
        let* (x, rest') := read_bytes g rest in
        pb_resp_loop f g rest' {| p_seq := p_seq r; p_error := p_error r; p_reply := x |}
      else pb_resp_loop f g rest r
    end
  end.

Definition pbresp0 : pbresp := {| p_seq := 0; p_error := []; p_reply := [] |}.
Definition pb_resp_dec (g : bool) (b : bytes) : res pbresp := pb_resp_loop (S (length b)) g b pbresp0.

(* well-formed header values: what a Go value can be *)
Definition wf_pbreq (r : pbreq) : Prop :=
  q_seq r < 2^64 /\ len (q_upgrade r) < 2^63 /\ len (q_method r) < 2^63 /\ len (q_args r) < 2^63.
Definition wf_pbresp (r : pbresp) : Prop :=
  p_seq r < 2^64 /\ len (p_error r) < 2^63 /\ len (p_reply r) < 2^63.

(* ---- independent reference: the protobuf wire format (proto3) ----
   message Request { uint64 seq = 1; bytes upgrade = 2; string method = 3; bytes args = 4; }
   message Response { uint64 seq = 1; string error = 2; bytes reply = 3; }
   key = (field_number << 3) | wire_type as a varint; wire type 0 = varint,
   2 = length-delimited; fields with default value are not emitted. *)
Inductive p3val := P3Varint (v : N) | P3Bytes (b : bytes).
Definition p3_key (fn wt : N) : bytes := leb128 10 (fn * 8 + wt).
Definition p3_field (f : N * p3val) : bytes :=
  match snd f with
  | P3Varint v => if v =? 0 then [] else p3_key (fst f) 0 ++ leb128 10 v
  | P3Bytes b => match b with [] => [] | _ => p3_key (fst f) 2 ++ leb128 10 (len b) ++ b end
  end.
Definition proto3_enc (fs : list (N * p3val)) : bytes := concat (map p3_field fs).
