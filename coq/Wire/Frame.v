(* Frame.v — hslam/socket messages framing (a dependency, modelled and
   validated, not verified): WriteMessage prefixes the payload with its
   length as a varint; ReadMessage accumulates whatever chunks the stream
   delivers and returns complete frames. *)
From RPC Require Export Varint.
Open Scope N_scope.

Definition frame_enc (payload : bytes) : bytes := leb128 10 (len payload) ++ payload.

(* parse the length prefix as messages.ReadMessage does: Some (len, rest) when
   a complete prefix is buffered, None when more bytes are needed; [Panic]
   mirrors its "varint overflows a 64-bit integer" panic *)
Fixpoint frame_len (i : nat) (s : N) (acc : N) (b : bytes) : res (option (N * bytes)) :=
  match b with
  | [] => Ok None
  | x :: r =>
      if 128 <=? x then frame_len (S i) (s + 7) (N.lor acc (N.shiftl (N.land x 127) s)) r
      else if (Nat.ltb 9 i) || (Nat.eqb i 9 && (1 <? x)) then Panic
      else Ok (Some (N.lor acc (N.shiftl x s), r))
  end.

(* one ReadMessage attempt on the accumulated buffer *)
Definition frame_try (buf : bytes) : res (option (bytes * bytes)) :=
  let* o := frame_len 0 0 0 buf in
  match o with
  | None => Ok None
  | Some (n, r) => if n <=? len r then Ok (Some (firstn (N.to_nat n) r, skipn (N.to_nat n) r)) else Ok None
  end.

(* drain every complete frame from the buffer (fuel = buffer length + 1) *)
Fixpoint frame_drain (fuel : nat) (buf : bytes) : res (list bytes * bytes) :=
  match fuel with
  | O => Ok ([], buf)
  | S f =>
      let* o := frame_try buf in
      match o with
      | None => Ok ([], buf)
      | Some (fr, rest) => let* (fs, b') := frame_drain f rest in Ok (fr :: fs, b')
      end
  end.

(* feed chunks; returns the frames produced and the unconsumed remainder *)
Fixpoint feed (buf : bytes) (chunks : list bytes) : res (list bytes * bytes) :=
  match chunks with
  | [] => Ok ([], buf)
  | c :: cs =>
      let b := buf ++ c in
      let* (fs, b') := frame_drain (S (length b)) b in
      let* (fs', b'') := feed b' cs in
      Ok (fs ++ fs', b'')
  end.
Definition feed_all (chunks : list bytes) : res (list bytes * bytes) := feed [] chunks.
