(* PBLemmas.v — facts about codec.pb.go's model: size bound, MarshalTo into
   any buffer, protobuf wire format, round trip, totality. *)
From RPC Require Import Varint VarintLemmas PB.
From RPC Require Generated.
From Coq Require Import ZifyBool ZifyN ZifyNat.
Ltac Zify.zify_post_hook ::= Z.div_mod_to_equations.
Open Scope N_scope.

(* ---- shapes of the pieces ---- *)
Lemma concat_varint_field t v :
  concat (pb_varint_field t v) = if v =? 0 then [] else t :: varint_enc v.
Proof. unfold pb_varint_field. destruct (v =? 0); simpl; rewrite ?app_nil_r; reflexivity. Qed.

Lemma concat_bytes_field t x :
  concat (pb_bytes_field t x) = if 0 <? len x then t :: lp x else [].
Proof. unfold pb_bytes_field, lp. destruct (0 <? len x); simpl; rewrite ?app_nil_r; reflexivity. Qed.

Lemma pb_req_bytes_eq r :
  pb_req_bytes r =
    (if q_seq r =? 0 then [] else 8 :: varint_enc (q_seq r)) ++
    (if 0 <? len (q_upgrade r) then 18 :: lp (q_upgrade r) else []) ++
    (if 0 <? len (q_method r) then 26 :: lp (q_method r) else []) ++
    (if 0 <? len (q_args r) then 34 :: lp (q_args r) else []).
Proof.
  unfold pb_req_bytes, pb_req_chunks.
  rewrite !concat_app, concat_varint_field, !concat_bytes_field. reflexivity.
Qed.

Lemma pb_resp_bytes_eq r :
  pb_resp_bytes r =
    (if p_seq r =? 0 then [] else 8 :: varint_enc (p_seq r)) ++
    (if 0 <? len (p_error r) then 18 :: lp (p_error r) else []) ++
    (if 0 <? len (p_reply r) then 26 :: lp (p_reply r) else []).
Proof.
  unfold pb_resp_bytes, pb_resp_chunks.
  rewrite !concat_app, concat_varint_field, !concat_bytes_field. reflexivity.
Qed.

Lemma len_varint_enc v : 1 <= len (varint_enc v) <= 10.
Proof. unfold len. rewrite varint_enc_length. pose proof (sizeof_varint_range v). lia. Qed.

Lemma len_lp x : len (lp x) <= 10 + len x.
Proof. unfold lp. rewrite len_app. pose proof (len_varint_enc (len x)). lia. Qed.

(* ---- Size() is an upper bound of what MarshalTo writes ---- *)
Lemma pb_req_size_bound r : len (pb_req_bytes r) <= pb_req_size r.
Proof.
  rewrite pb_req_bytes_eq. unfold pb_req_size.
  change (sumN Generated.pb_req_slack) with 44.
  rewrite !len_app.
  pose proof (len_varint_enc (q_seq r)).
  pose proof (len_lp (q_upgrade r)). pose proof (len_lp (q_method r)). pose proof (len_lp (q_args r)).
  destruct (q_seq r =? 0); destruct (0 <? len (q_upgrade r)) eqn:E1;
    destruct (0 <? len (q_method r)) eqn:E2; destruct (0 <? len (q_args r)) eqn:E3;
    rewrite ?len_cons, ?len_nil; lia.
Qed.

Lemma pb_resp_size_bound r : len (pb_resp_bytes r) <= pb_resp_size r.
Proof.
  rewrite pb_resp_bytes_eq. unfold pb_resp_size.
  change (sumN Generated.pb_resp_slack) with 33.
  rewrite !len_app.
  pose proof (len_varint_enc (p_seq r)).
  pose proof (len_lp (p_error r)). pose proof (len_lp (p_reply r)).
  destruct (p_seq r =? 0); destruct (0 <? len (p_error r)) eqn:E1;
    destruct (0 <? len (p_reply r)) eqn:E2;
    rewrite ?len_cons, ?len_nil; lia.
Qed.

(* ---- MarshalTo: result independent of the buffer's size and contents ---- *)
Lemma marshal_to_ok size chunks buf :
  len (concat chunks) <= size -> size <= len buf ->
  marshal_to size chunks buf = Ok (concat chunks).
Proof.
  intros H1 H2. unfold marshal_to. replace (size <=? len buf) with true by lia.
  rewrite write_all_ok.
  - cbn [bind]. f_equal. rewrite firstn_app, Nat.sub_diag, firstn_all, firstn_O, app_nil_r. reflexivity.
  - rewrite firstn_length. unfold len in *. lia.
Qed.

Lemma marshal_to_short size chunks buf :
  len buf < size -> marshal_to size chunks buf = Err EBufShort.
Proof. intros H. unfold marshal_to. replace (size <=? len buf) with false by lia. reflexivity. Qed.

Theorem pb_req_marshal_to_any_buffer buf r :
  pb_req_size r <= len buf -> pb_req_marshal_to buf r = Ok (pb_req_bytes r).
Proof. intros H. apply marshal_to_ok; [apply pb_req_size_bound|exact H]. Qed.

Theorem pb_resp_marshal_to_any_buffer buf r :
  pb_resp_size r <= len buf -> pb_resp_marshal_to buf r = Ok (pb_resp_bytes r).
Proof. intros H. apply marshal_to_ok; [apply pb_resp_size_bound|exact H]. Qed.

Theorem pb_marshal_to_never_panics buf rq rs :
  pb_req_marshal_to buf rq <> Panic /\ pb_resp_marshal_to buf rs <> Panic.
Proof.
  split.
  - destruct (N.le_gt_cases (pb_req_size rq) (len buf)) as [H|H].
    + rewrite pb_req_marshal_to_any_buffer by exact H. discriminate.
    + unfold pb_req_marshal_to. rewrite marshal_to_short by exact H. discriminate.
  - destruct (N.le_gt_cases (pb_resp_size rs) (len buf)) as [H|H].
    + rewrite pb_resp_marshal_to_any_buffer by exact H. discriminate.
    + unfold pb_resp_marshal_to. rewrite marshal_to_short by exact H. discriminate.
Qed.

(* ---- the bytes are the protobuf wire format ---- *)
Lemma len_pos_cons (x : bytes) : 0 <? len x = true -> exists y t, x = y :: t.
Proof. destruct x as [|y t]; [discriminate|eauto]. Qed.
Lemma len_zero_nil (x : bytes) : 0 <? len x = false -> x = [].
Proof. destruct x as [|y t]; [reflexivity|]. rewrite len_cons. intros H. lia. Qed.

Lemma p3_bytes_field fn x : fn < 16 -> len x < 2^64 ->
  p3_field (fn, P3Bytes x) = if 0 <? len x then (fn * 8 + 2) :: lp x else [].
Proof.
  intros Hfn Hx. unfold p3_field. cbn [fst snd].
  destruct (0 <? len x) eqn:E.
  - destruct (len_pos_cons x E) as (y & t & ->).
    unfold p3_key, lp. rewrite <- (varint_enc_leb128 (len (y :: t))) by exact Hx.
    cbn [leb128]. replace (fn * 8 + 2 <? 128) with true by lia. reflexivity.
  - rewrite (len_zero_nil x E). reflexivity.
Qed.

Lemma p3_varint_field fn v : fn < 16 -> v < 2^64 ->
  p3_field (fn, P3Varint v) = if v =? 0 then [] else (fn * 8) :: varint_enc v.
Proof.
  intros Hfn Hv. unfold p3_field. cbn [fst snd]. destruct (v =? 0); [reflexivity|].
  unfold p3_key. rewrite <- (varint_enc_leb128 v) by exact Hv.
  cbn [leb128]. replace (fn * 8 + 0 <? 128) with true by lia.
  rewrite N.add_0_r. reflexivity.
Qed.

Theorem pb_req_is_proto3 r : wf_pbreq r ->
  pb_req_bytes r = proto3_enc [(1, P3Varint (q_seq r)); (2, P3Bytes (q_upgrade r));
                               (3, P3Bytes (q_method r)); (4, P3Bytes (q_args r))].
Proof.
  intros (H1 & H2 & H3 & H4). rewrite pb_req_bytes_eq. unfold proto3_enc. cbn [map concat].
  rewrite p3_varint_field, !p3_bytes_field by lia. rewrite app_nil_r. reflexivity.
Qed.

Theorem pb_resp_is_proto3 r : wf_pbresp r ->
  pb_resp_bytes r = proto3_enc [(1, P3Varint (p_seq r)); (2, P3Bytes (p_error r)); (3, P3Bytes (p_reply r))].
Proof.
  intros (H1 & H2 & H3). rewrite pb_resp_bytes_eq. unfold proto3_enc. cbn [map concat].
  rewrite p3_varint_field, !p3_bytes_field by lia. rewrite app_nil_r. reflexivity.
Qed.

(* ---- readers consume input ---- *)
Lemma dvar_shorter i acc b v r : dvar i acc b = Ok (v, r) -> (length r < length b)%nat.
Proof.
  revert i acc; induction b as [|x b IH]; intros i acc H; simpl in H; [discriminate|].
  destruct ((N.land x 128 =? 0) || Nat.eqb i 9).
  - inversion H; subst. simpl. lia.
  - apply IH in H. simpl. lia.
Qed.

Lemma read_varint_shorter g b v r : read_varint g b = Ok (v, r) -> (length r < length b)%nat.
Proof.
  unfold read_varint. destruct (g && Nat.eqb (check_varint b) 0); [discriminate|].
  apply dvar_shorter.
Qed.

Lemma read_bytes_shorter g b x r : read_bytes g b = Ok (x, r) -> (length r < length b)%nat.
Proof.
  unfold read_bytes. destruct (g && negb (check_bytes b)); [discriminate|].
  intros H. apply bind_ok_inv in H as ((t & r0) & Hd & Ht).
  apply dvar_shorter in Hd. apply take_ok in Ht as [-> _]. rewrite app_length in Hd. lia.
Qed.

(* ---- totality and fuel ---- *)
Lemma pb_req_loop_total f : forall b r, pb_req_loop f true b r <> Panic.
Proof.
  induction f as [|f IH]; intros b r; cbn [pb_req_loop]; [discriminate|].
  destruct b as [|tag rest]; [discriminate|].
  repeat match goal with
  | |- (if ?c then _ else _) <> Panic => destruct c
  | |- Err _ <> Panic => discriminate
  | |- bind (read_varint true ?x) _ <> Panic =>
      apply bind_not_panic; [apply read_varint_total|intros [? ?] _; apply IH]
  | |- bind (read_bytes true ?x) _ <> Panic =>
      apply bind_not_panic; [apply read_bytes_total|intros [? ?] _; apply IH]
  end.
  apply IH.
Qed.

Lemma pb_resp_loop_total f : forall b r, pb_resp_loop f true b r <> Panic.
Proof.
  induction f as [|f IH]; intros b r; cbn [pb_resp_loop]; [discriminate|].
  destruct b as [|tag rest]; [discriminate|].
  repeat match goal with
  | |- (if ?c then _ else _) <> Panic => destruct c
  | |- Err _ <> Panic => discriminate
  | |- bind (read_varint true ?x) _ <> Panic =>
      apply bind_not_panic; [apply read_varint_total|intros [? ?] _; apply IH]
  | |- bind (read_bytes true ?x) _ <> Panic =>
      apply bind_not_panic; [apply read_bytes_total|intros [? ?] _; apply IH]
  end.
  apply IH.
Qed.

Lemma bind_fuel_irrel {A B} (m : res A) (k1 k2 : A -> res B) :
  (forall a, m = Ok a -> k1 a = k2 a) -> bind m k1 = bind m k2.
Proof. destruct m; simpl; intros H; [apply H; reflexivity|reflexivity|reflexivity]. Qed.

Lemma pb_req_loop_fuel f : forall f' g b r,
  (length b < f)%nat -> (length b < f')%nat -> pb_req_loop f g b r = pb_req_loop f' g b r.
Proof.
  induction f as [|f IH]; intros f' g b r H H'; [lia|].
  destruct f' as [|f']; [lia|]. cbn [pb_req_loop].
  destruct b as [|tag rest]; [reflexivity|]. simpl in H, H'.
  repeat match goal with
  | |- (if ?c then _ else _) = (if ?c then _ else _) => destruct c
  | |- Err _ = Err _ => reflexivity
  | |- bind (read_varint g rest) _ = _ =>
      apply bind_fuel_irrel; intros [? ?] E; apply read_varint_shorter in E; apply IH; lia
  | |- bind (read_bytes g rest) _ = _ =>
      apply bind_fuel_irrel; intros [? ?] E; apply read_bytes_shorter in E; apply IH; lia
  end.
  apply IH; lia.
Qed.

Lemma pb_resp_loop_fuel f : forall f' g b r,
  (length b < f)%nat -> (length b < f')%nat -> pb_resp_loop f g b r = pb_resp_loop f' g b r.
Proof.
  induction f as [|f IH]; intros f' g b r H H'; [lia|].
  destruct f' as [|f']; [lia|]. cbn [pb_resp_loop].
  destruct b as [|tag rest]; [reflexivity|]. simpl in H, H'.
  repeat match goal with
  | |- (if ?c then _ else _) = (if ?c then _ else _) => destruct c
  | |- Err _ = Err _ => reflexivity
  | |- bind (read_varint g rest) _ = _ =>
      apply bind_fuel_irrel; intros [? ?] E; apply read_varint_shorter in E; apply IH; lia
  | |- bind (read_bytes g rest) _ = _ =>
      apply bind_fuel_irrel; intros [? ?] E; apply read_bytes_shorter in E; apply IH; lia
  end.
  apply IH; lia.
Qed.

Lemma dvar_err i acc b e : dvar i acc b <> Err e.
Proof.
  revert i acc; induction b as [|x b IH]; intros i acc; simpl; [discriminate|].
  destruct ((N.land x 128 =? 0) || Nat.eqb i 9); [discriminate|apply IH].
Qed.

Lemma read_varint_err g b e : read_varint g b = Err e -> e = EShort.
Proof.
  unfold read_varint. destruct (g && Nat.eqb (check_varint b) 0); [congruence|].
  intros H. exfalso. exact (dvar_err _ _ _ _ H).
Qed.

Lemma read_bytes_err g b e : read_bytes g b = Err e -> e = EShort.
Proof.
  unfold read_bytes. destruct (g && negb (check_bytes b)); [congruence|].
  unfold varint_dec. destruct (dvar 0 0 b) as [[t r]|e'|] eqn:E; cbn [bind].
  - unfold take. destruct (t <=? len r); discriminate.
  - exfalso. exact (dvar_err _ _ _ _ E).
  - discriminate.
Qed.

Lemma pb_req_loop_no_fuel_error f : forall g b r,
  (length b < f)%nat -> pb_req_loop f g b r <> Err EFuel.
Proof.
  induction f as [|f IH]; intros g b r H; [lia|]. cbn [pb_req_loop].
  destruct b as [|tag rest]; [discriminate|]. simpl in H.
  repeat match goal with
  | |- (if ?c then _ else _) <> _ => destruct c
  | |- Err EWireType <> _ => discriminate
  | |- bind (read_varint g rest) _ <> _ =>
      let E := fresh "E" in destruct (read_varint g rest) as [[? ?]|e|] eqn:E; cbn [bind];
      [ apply read_varint_shorter in E; apply IH; lia
      | apply read_varint_err in E; subst; discriminate | discriminate ]
  | |- bind (read_bytes g rest) _ <> _ =>
      let E := fresh "E" in destruct (read_bytes g rest) as [[? ?]|e|] eqn:E; cbn [bind];
      [ apply read_bytes_shorter in E; apply IH; lia
      | apply read_bytes_err in E; subst; discriminate | discriminate ]
  end.
  apply IH; lia.
Qed.

Lemma pb_resp_loop_no_fuel_error f : forall g b r,
  (length b < f)%nat -> pb_resp_loop f g b r <> Err EFuel.
Proof.
  induction f as [|f IH]; intros g b r H; [lia|]. cbn [pb_resp_loop].
  destruct b as [|tag rest]; [discriminate|]. simpl in H.
  repeat match goal with
  | |- (if ?c then _ else _) <> _ => destruct c
  | |- Err EWireType <> _ => discriminate
  | |- bind (read_varint g rest) _ <> _ =>
      let E := fresh "E" in destruct (read_varint g rest) as [[? ?]|e|] eqn:E; cbn [bind];
      [ apply read_varint_shorter in E; apply IH; lia
      | apply read_varint_err in E; subst; discriminate | discriminate ]
  | |- bind (read_bytes g rest) _ <> _ =>
      let E := fresh "E" in destruct (read_bytes g rest) as [[? ?]|e|] eqn:E; cbn [bind];
      [ apply read_bytes_shorter in E; apply IH; lia
      | apply read_bytes_err in E; subst; discriminate | discriminate ]
  end.
  apply IH; lia.
Qed.

Theorem pb_req_dec_total b : pb_req_dec true b <> Panic /\ pb_req_dec true b <> Err EFuel.
Proof. split; [apply pb_req_loop_total|apply pb_req_loop_no_fuel_error; lia]. Qed.
Theorem pb_resp_dec_total b : pb_resp_dec true b <> Panic /\ pb_resp_dec true b <> Err EFuel.
Proof. split; [apply pb_resp_loop_total|apply pb_resp_loop_no_fuel_error; lia]. Qed.

(* ---- round trip ---- *)
Definition req_from g b r := pb_req_loop (S (length b)) g b r.
Definition resp_from g b r := pb_resp_loop (S (length b)) g b r.

Lemma req_from_seq g v rest r : v < 2^64 ->
  req_from g (8 :: varint_enc v ++ rest) r =
  req_from g rest {| q_seq := v; q_upgrade := q_upgrade r; q_method := q_method r; q_args := q_args r |}.
Proof.
  intros Hv. unfold req_from at 1. cbn [pb_req_loop].
  change (8 / 8 =? fst (pb_case Generated.pb_req_cases 0)) with true.
  change (negb (8 mod 8 =? snd (pb_case Generated.pb_req_cases 0))) with false. cbv iota.
  rewrite read_varint_enc by exact Hv. cbn [bind].
  unfold req_from. apply pb_req_loop_fuel; simpl; rewrite ?app_length; lia.
Qed.

Ltac req_bytes_step tag k :=
  unfold req_from at 1; cbn [pb_req_loop];
  change (tag / 8 =? fst (pb_case Generated.pb_req_cases 0)) with false;
  try change (tag / 8 =? fst (pb_case Generated.pb_req_cases 1)) with false;
  try change (tag / 8 =? fst (pb_case Generated.pb_req_cases 2)) with false;
  change (tag / 8 =? fst (pb_case Generated.pb_req_cases k)) with true;
  change (negb (tag mod 8 =? snd (pb_case Generated.pb_req_cases k))) with false; cbv iota.

Lemma req_from_upgrade g x rest r : len x < 2^64 ->
  req_from g (18 :: lp x ++ rest) r =
  req_from g rest {| q_seq := q_seq r; q_upgrade := x; q_method := q_method r; q_args := q_args r |}.
Proof.
  intros Hx. req_bytes_step 18 1%nat.
  rewrite read_bytes_lp by exact Hx. cbn [bind].
  unfold req_from. apply pb_req_loop_fuel; simpl; rewrite ?app_length; lia.
Qed.
Lemma req_from_method g x rest r : len x < 2^64 ->
  req_from g (26 :: lp x ++ rest) r =
  req_from g rest {| q_seq := q_seq r; q_upgrade := q_upgrade r; q_method := x; q_args := q_args r |}.
Proof.
  intros Hx. req_bytes_step 26 2%nat.
  rewrite read_bytes_lp by exact Hx. cbn [bind].
  unfold req_from. apply pb_req_loop_fuel; simpl; rewrite ?app_length; lia.
Qed.
Lemma req_from_args g x rest r : len x < 2^64 ->
  req_from g (34 :: lp x ++ rest) r =
  req_from g rest {| q_seq := q_seq r; q_upgrade := q_upgrade r; q_method := q_method r; q_args := x |}.
Proof.
  intros Hx. req_bytes_step 34 3%nat.
  rewrite read_bytes_lp by exact Hx. cbn [bind].
  unfold req_from. apply pb_req_loop_fuel; simpl; rewrite ?app_length; lia.
Qed.

Theorem pb_req_roundtrip g r : wf_pbreq r -> pb_req_dec g (pb_req_bytes r) = Ok r.
Proof.
  intros (H1 & H2 & H3 & H4). change (pb_req_dec g (pb_req_bytes r)) with (req_from g (pb_req_bytes r) pbreq0).
  rewrite pb_req_bytes_eq. destruct r as [s u m a]. cbn [q_seq q_upgrade q_method q_args] in *.
  assert (E1 : req_from g ((if s =? 0 then [] else 8 :: varint_enc s) ++
                 (if 0 <? len u then 18 :: lp u else []) ++ (if 0 <? len m then 26 :: lp m else []) ++
                 (if 0 <? len a then 34 :: lp a else [])) pbreq0 =
               req_from g ((if 0 <? len u then 18 :: lp u else []) ++ (if 0 <? len m then 26 :: lp m else []) ++
                 (if 0 <? len a then 34 :: lp a else [])) {| q_seq := s; q_upgrade := []; q_method := []; q_args := [] |}).
  { destruct (N.eqb_spec s 0) as [->|N]; [reflexivity|].
    cbn [app]. rewrite req_from_seq by lia. reflexivity. }
  rewrite E1; clear E1.
  assert (E2 : forall r0 rest, q_upgrade r0 = [] ->
     req_from g ((if 0 <? len u then 18 :: lp u else []) ++ rest) r0 =
     req_from g rest {| q_seq := q_seq r0; q_upgrade := u; q_method := q_method r0; q_args := q_args r0 |}).
  { intros r0 rest E0. destruct (0 <? len u) eqn:E.
    - cbn [app]. rewrite req_from_upgrade by lia. reflexivity.
    - rewrite (len_zero_nil u E). destruct r0; simpl in *; subst; reflexivity. }
  rewrite E2 by reflexivity; clear E2. cbn [q_seq q_method q_args].
  assert (E3 : forall r0 rest, q_method r0 = [] ->
     req_from g ((if 0 <? len m then 26 :: lp m else []) ++ rest) r0 =
     req_from g rest {| q_seq := q_seq r0; q_upgrade := q_upgrade r0; q_method := m; q_args := q_args r0 |}).
  { intros r0 rest E0. destruct (0 <? len m) eqn:E.
    - cbn [app]. rewrite req_from_method by lia. reflexivity.
    - rewrite (len_zero_nil m E). destruct r0; simpl in *; subst; reflexivity. }
  rewrite E3 by reflexivity; clear E3. cbn [q_seq q_upgrade q_method q_args].
  destruct (0 <? len a) eqn:E.
  - rewrite <- (app_nil_r (lp a)). rewrite req_from_args by lia. reflexivity.
  - rewrite (len_zero_nil a E). reflexivity.
Qed.

Lemma resp_from_seq g v rest r : v < 2^64 ->
  resp_from g (8 :: varint_enc v ++ rest) r =
  resp_from g rest {| p_seq := v; p_error := p_error r; p_reply := p_reply r |}.
Proof.
  intros Hv. unfold resp_from at 1. cbn [pb_resp_loop].
  change (8 / 8 =? fst (pb_case Generated.pb_resp_cases 0)) with true.
  change (negb (8 mod 8 =? snd (pb_case Generated.pb_resp_cases 0))) with false. cbv iota.
  rewrite read_varint_enc by exact Hv. cbn [bind].
  unfold resp_from. apply pb_resp_loop_fuel; simpl; rewrite ?app_length; lia.
Qed.

Ltac resp_bytes_step tag k :=
  unfold resp_from at 1; cbn [pb_resp_loop];
  change (tag / 8 =? fst (pb_case Generated.pb_resp_cases 0)) with false;
  try change (tag / 8 =? fst (pb_case Generated.pb_resp_cases 1)) with false;
  change (tag / 8 =? fst (pb_case Generated.pb_resp_cases k)) with true;
  change (negb (tag mod 8 =? snd (pb_case Generated.pb_resp_cases k))) with false; cbv iota.

Lemma resp_from_error g x rest r : len x < 2^64 ->
  resp_from g (18 :: lp x ++ rest) r =
  resp_from g rest {| p_seq := p_seq r; p_error := x; p_reply := p_reply r |}.
Proof.
  intros Hx. resp_bytes_step 18 1%nat.
  rewrite read_bytes_lp by exact Hx. cbn [bind].
  unfold resp_from. apply pb_resp_loop_fuel; simpl; rewrite ?app_length; lia.
Qed.
Lemma resp_from_reply g x rest r : len x < 2^64 ->
  resp_from g (26 :: lp x ++ rest) r =
  resp_from g rest {| p_seq := p_seq r; p_error := p_error r; p_reply := x |}.
Proof.
  intros Hx. resp_bytes_step 26 2%nat.
  rewrite read_bytes_lp by exact Hx. cbn [bind].
  unfold resp_from. apply pb_resp_loop_fuel; simpl; rewrite ?app_length; lia.
Qed.

Theorem pb_resp_roundtrip g r : wf_pbresp r -> pb_resp_dec g (pb_resp_bytes r) = Ok r.
Proof.
  intros (H1 & H2 & H3). change (pb_resp_dec g (pb_resp_bytes r)) with (resp_from g (pb_resp_bytes r) pbresp0).
  rewrite pb_resp_bytes_eq. destruct r as [s e a]. cbn [p_seq p_error p_reply] in *.
  assert (E1 : resp_from g ((if s =? 0 then [] else 8 :: varint_enc s) ++
                 (if 0 <? len e then 18 :: lp e else []) ++ (if 0 <? len a then 26 :: lp a else [])) pbresp0 =
               resp_from g ((if 0 <? len e then 18 :: lp e else []) ++ (if 0 <? len a then 26 :: lp a else []))
                 {| p_seq := s; p_error := []; p_reply := [] |}).
  { destruct (N.eqb_spec s 0) as [->|N]; [reflexivity|].
    cbn [app]. rewrite resp_from_seq by lia. reflexivity. }
  rewrite E1; clear E1.
  assert (E2 : forall r0 rest, p_error r0 = [] ->
     resp_from g ((if 0 <? len e then 18 :: lp e else []) ++ rest) r0 =
     resp_from g rest {| p_seq := p_seq r0; p_error := e; p_reply := p_reply r0 |}).
  { intros r0 rest E0. destruct (0 <? len e) eqn:E.
    - cbn [app]. rewrite resp_from_error by lia. reflexivity.
    - rewrite (len_zero_nil e E). destruct r0; simpl in *; subst; reflexivity. }
  rewrite E2 by reflexivity; clear E2. cbn [p_seq p_error p_reply].
  destruct (0 <? len a) eqn:E.
  - rewrite <- (app_nil_r (lp a)). rewrite resp_from_reply by lia. reflexivity.
  - rewrite (len_zero_nil a E). reflexivity.
Qed.
