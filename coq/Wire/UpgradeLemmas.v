(* UpgradeLemmas.v — the one-byte upgrade field: finite domains, decided by
   exhaustive evaluation and lifted to all values (a proof, not a sample). *)
From RPC Require Import Upgrade VarintLemmas.
From Coq Require Import ZifyBool ZifyN ZifyNat.
Open Scope N_scope.

Lemma wf_upgrade_in u : wf_upgrade u = true -> In u all_upgrades.
Proof.
  destruct u as [a b c d]. unfold wf_upgrade. simpl. intros H.
  assert (Ha : a = 0 \/ a = 1) by lia. assert (Hb : b = 0 \/ b = 1) by lia.
  assert (Hc : c = 0 \/ c = 1) by lia. assert (Hd : d = 0 \/ d = 1 \/ d = 2 \/ d = 3) by lia.
  destruct Ha as [->| ->]; destruct Hb as [->| ->]; destruct Hc as [->| ->];
    destruct Hd as [->|[->|[->| ->]]]; vm_compute; tauto.
Qed.

Lemma upgrade_sweep (P : upgrade -> bool) :
  forallb P all_upgrades = true -> forall u, wf_upgrade u = true -> P u = true.
Proof. intros H u Hu. rewrite forallb_forall in H. apply H, wf_upgrade_in, Hu. Qed.

Definition res_upgrade_eqb (r : res upgrade) (u : upgrade) : bool :=
  match r with Ok x => upgrade_eqb x u | _ => false end.

Lemma upgrade_eqb_eq a b : upgrade_eqb a b = true -> a = b.
Proof.
  destruct a, b. unfold upgrade_eqb. simpl. intros H.
  f_equal; lia.
Qed.

(* every one of the 32 flag combinations survives Marshal ; Unmarshal *)
Theorem upgrade_roundtrip u : wf_upgrade u = true -> upgrade_dec (upgrade_enc u) = Ok u.
Proof.
  intros Hu.
  assert (H : res_upgrade_eqb (upgrade_dec (upgrade_enc u)) u = true).
  { apply (upgrade_sweep (fun u => res_upgrade_eqb (upgrade_dec (upgrade_enc u)) u)); [vm_compute; reflexivity|exact Hu]. }
  destruct (upgrade_dec (upgrade_enc u)) as [x| |]; try discriminate.
  f_equal. apply upgrade_eqb_eq, H.
Qed.

(* every byte decodes to well-formed flags, and re-encodes to its five flag bits *)
Theorem upgrade_dec_enc b : b < 256 ->
  exists u, upgrade_dec [b] = Ok u /\ wf_upgrade u = true /\ upgrade_enc u = [N.land b 248].
Proof.
  intros Hb.
  assert (H : (match upgrade_dec [b] with
               | Ok u => wf_upgrade u && (upgrade_byte u =? N.land b 248)
               | _ => false end) = true).
  { apply (byte_sweep (fun b => match upgrade_dec [b] with
               | Ok u => wf_upgrade u && (upgrade_byte u =? N.land b 248)
               | _ => false end)); [vm_compute; reflexivity|exact Hb]. }
  destruct (upgrade_dec [b]) as [u| |]; try discriminate.
  apply andb_true_iff in H as [H1 H2]. exists u. repeat split; [exact H1|].
  unfold upgrade_enc. f_equal. apply N.eqb_eq, H2.
Qed.

Theorem upgrade_dec_total d : upgrade_dec d <> Panic.
Proof. destruct d; discriminate. Qed.

Theorem upgrade_is_zero u : wf_upgrade u = true -> (is_zero u = true <-> u = upgrade0).
Proof.
  intros Hu.
  assert (H : Bool.eqb (is_zero u) (upgrade_eqb u upgrade0) = true).
  { apply (upgrade_sweep (fun u => Bool.eqb (is_zero u) (upgrade_eqb u upgrade0))); [vm_compute; reflexivity|exact Hu]. }
  apply eqb_prop in H. rewrite H. split.
  - apply upgrade_eqb_eq.
  - intros ->. reflexivity.
Qed.

(* distinct well-formed flag sets have distinct bytes *)
Theorem upgrade_enc_injective u v :
  wf_upgrade u = true -> wf_upgrade v = true -> upgrade_enc u = upgrade_enc v -> u = v.
Proof.
  intros Hu Hv E. pose proof (upgrade_roundtrip u Hu) as Ru. pose proof (upgrade_roundtrip v Hv) as Rv.
  rewrite E in Ru. rewrite Ru in Rv. congruence.
Qed.
