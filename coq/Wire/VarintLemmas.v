(* VarintLemmas.v — round trip, LEB128 format, lengths, and totality of the
   guarded varint / length-prefixed reads. *)
From RPC Require Import Varint.
From Coq Require Import ZifyBool ZifyN ZifyNat.
Ltac Zify.zify_post_hook ::= Z.div_mod_to_equations.
Open Scope N_scope.

(* ---- finite byte facts, by exhaustive evaluation lifted to all bytes ---- *)
Definition all_bytes : list N := map N.of_nat (seq 0 256).

Lemma in_all_bytes x : x < 256 -> In x all_bytes.
Proof.
  intros H. unfold all_bytes. apply in_map_iff. exists (N.to_nat x). split; [lia|].
  apply in_seq. lia.
Qed.

Lemma byte_sweep (P : N -> bool) :
  forallb P all_bytes = true -> forall x, x < 256 -> P x = true.
Proof. intros H x Hx. rewrite forallb_forall in H. apply H, in_all_bytes, Hx. Qed.

Lemma lor128 x : x < 256 -> N.lor x 128 = x mod 128 + 128.
Proof.
  intros Hx. apply N.eqb_eq.
  apply (byte_sweep (fun x => N.lor x 128 =? x mod 128 + 128)); [vm_compute; reflexivity|exact Hx].
Qed.

Lemma land127 x : N.land x 127 = x mod 128.
Proof. change 127 with (N.ones 7). rewrite N.land_ones. reflexivity. Qed.

Lemma land128 x : x < 256 -> (N.land x 128 =? 0) = (x <? 128).
Proof.
  intros Hx. apply eqb_true_iff.
  apply (byte_sweep (fun x => Bool.eqb (N.land x 128 =? 0) (x <? 128))); [vm_compute; reflexivity|exact Hx].
Qed.

(* the msb test on arbitrary N (not only bytes) *)
Lemma land128_gen x : (N.land x 128 =? 0) = ((x / 128) mod 2 =? 0).
Proof.
  change 128 with (2^7) at 1.
  destruct (N.testbit x 7) eqn:E.
  - assert (N.land x (2^7) = 2^7) as ->.
    { apply N.bits_inj. intros n. rewrite N.land_spec, N.pow2_bits_eqb.
      destruct (N.eqb_spec 7 n) as [<-|]; [rewrite E; reflexivity|apply andb_false_r]. }
    pose proof (N.testbit_spec' x 7) as S. rewrite E in S. change (2^7) with 128 in *. cbn [N.b2n] in S.
    destruct ((x / 128) mod 2 =? 0) eqn:F; [|reflexivity]. lia.
  - assert (N.land x (2^7) = 0) as ->.
    { apply N.bits_inj. intros n. rewrite N.land_spec, N.pow2_bits_eqb, N.bits_0.
      destruct (N.eqb_spec 7 n) as [<-|]; [rewrite E; reflexivity|apply andb_false_r]. }
    pose proof (N.testbit_spec' x 7) as S. rewrite E in S. change (2^7) with 128 in *. cbn [N.b2n] in S.
    destruct ((x / 128) mod 2 =? 0) eqn:F; [reflexivity|]. lia.
Qed.

Lemma lor_disjoint acc y k : acc < 2^k -> N.lor acc (N.shiftl y k) = acc + y * 2^k.
Proof.
  intros Hacc.
  rewrite <- N.lxor_lor.
  - rewrite <- N.add_nocarry_lxor; [rewrite N.shiftl_mul_pow2; reflexivity|].
    apply N.bits_inj. intros n. rewrite N.land_spec, N.bits_0.
    destruct (N.ltb_spec n k) as [L|L].
    + rewrite N.shiftl_spec_low by exact L. apply andb_false_r.
    + destruct (N.eq_dec acc 0) as [->|NZ]; [rewrite N.bits_0; reflexivity|].
      rewrite N.bits_above_log2; [reflexivity|].
      apply N.log2_lt_pow2; [lia|]. eapply N.lt_le_trans; [exact Hacc|].
      apply N.pow_le_mono_r; lia.
  - apply N.bits_inj. intros n. rewrite N.land_spec, N.bits_0.
    destruct (N.ltb_spec n k) as [L|L].
    + rewrite N.shiftl_spec_low by exact L. apply andb_false_r.
    + destruct (N.eq_dec acc 0) as [->|NZ]; [rewrite N.bits_0; reflexivity|].
      rewrite N.bits_above_log2; [reflexivity|].
      apply N.log2_lt_pow2; [lia|]. eapply N.lt_le_trans; [exact Hacc|].
      apply N.pow_le_mono_r; lia.
Qed.

Lemma pow7_succ i : 2^(7 * N.of_nat (S i)) = 128 * 2^(7 * N.of_nat i).
Proof.
  replace (7 * N.of_nat (S i)) with (7 + 7 * N.of_nat i) by lia.
  rewrite N.pow_add_r. reflexivity.
Qed.

Lemma pow7_pos i : 0 < 2^(7 * N.of_nat i).
Proof. apply N.neq_0_lt_0, N.pow_nonzero. discriminate. Qed.

(* ---- lengths ---- *)
Lemma enc_loop_length k t : length (enc_loop k t) = S k.
Proof. revert t; induction k as [|k IH]; intros t; simpl; [reflexivity|rewrite IH; reflexivity]. Qed.

Lemma sizeof_varint_range v : (1 <= sizeof_varint v <= 10)%nat.
Proof. unfold sizeof_varint. repeat (destruct (_ <? _); [lia|]). lia. Qed.

Lemma varint_enc_length v : length (varint_enc v) = sizeof_varint v.
Proof. unfold varint_enc. rewrite enc_loop_length. pose proof (sizeof_varint_range v). lia. Qed.

Lemma varint_enc_wf v : wfbs (varint_enc v) = true.
Proof.
  unfold varint_enc. generalize (sizeof_varint v - 1)%nat as k. intros k. revert v.
  induction k as [|k IH]; intros v; simpl.
  - unfold wfb. assert (v mod 256 < 256) by lia. rewrite andb_true_r. lia.
  - rewrite IH, andb_true_r. unfold wfb. rewrite lor128 by lia. lia.
Qed.

(* ---- the decoder on an encoder run ---- *)
Lemma dvar_enc_loop k : forall i acc t rest,
  (i + k <= 9)%nat ->
  acc < 2^(7 * N.of_nat i) ->
  t < 2^(7 * N.of_nat (S k)) ->
  acc + t * 2^(7 * N.of_nat i) < 2^64 ->
  dvar i acc (enc_loop k t ++ rest) = Ok (acc + t * 2^(7 * N.of_nat i), rest).
Proof.
  induction k as [|k IH]; intros i acc t rest Hik Hacc Ht Hfit.
  - change (2^(7 * N.of_nat 1)) with 128 in Ht.
    cbn [enc_loop app dvar].
    rewrite (N.mod_small t 256) by lia.
    rewrite land127, (N.mod_small t 128) by lia.
    rewrite lor_disjoint by exact Hacc.
    rewrite N.mod_small by exact Hfit.
    rewrite land128 by lia.
    replace (t <? 128) with true by lia. reflexivity.
  - cbn [enc_loop app dvar].
    rewrite pow7_succ in Ht.
    rewrite lor128 by lia.
    replace ((t mod 256) mod 128) with (t mod 128) by lia.
    rewrite land127.
    replace ((t mod 128 + 128) mod 128) with (t mod 128) by lia.
    rewrite lor_disjoint by exact Hacc.
    rewrite N.shiftr_div_pow2. change (2^7) with 128.
    pose proof (pow7_pos i) as Hp.
    assert (Hdm : t = 128 * (t / 128) + t mod 128) by lia.
    assert (Hm : t mod 128 < 128) by lia.
    pose proof (pow7_succ i) as Hps.
    set (p := 2^(7 * N.of_nat i)) in *.
    set (m := t mod 128) in *. set (q := t / 128) in *. clearbody m q p.
    assert (Hmp : m * p <= t * p) by (apply N.mul_le_mono_r; lia).
    rewrite N.mod_small by lia.
    rewrite land128 by lia.
    replace (m + 128 <? 128) with false by lia.
    replace (Nat.eqb i 9) with false by (symmetry; apply Nat.eqb_neq; lia).
    cbn [orb].
    assert (Hm1 : m * p <= 127 * p) by (apply N.mul_le_mono_r; lia).
    assert (Hexp : t * p = 128 * q * p + m * p) by (rewrite Hdm; lia).
    rewrite IH; rewrite ?Hps.
    + f_equal. f_equal. lia.
    + lia.
    + lia.
    + rewrite pow7_succ in *. lia.
    + lia.
Qed.

Lemma sizeof_varint_bound v : v < 2^64 -> v < 2^(7 * N.of_nat (sizeof_varint v)) \/ sizeof_varint v = 10%nat.
Proof.
  intros Hv. unfold sizeof_varint.
  repeat (match goal with |- context [?a <? ?b] => destruct (N.ltb_spec a b) end;
          [left; simpl; assumption|]).
  right; reflexivity.
Qed.

Theorem varint_roundtrip v rest :
  v < 2^64 -> varint_dec (varint_enc v ++ rest) = Ok (v, rest).
Proof.
  intros Hv. unfold varint_dec, varint_enc.
  pose proof (sizeof_varint_range v) as Hr.
  rewrite dvar_enc_loop.
  - f_equal. f_equal. simpl. lia.
  - lia.
  - simpl. lia.
  - replace (S (sizeof_varint v - 1)) with (sizeof_varint v) by lia.
    destruct (sizeof_varint_bound v Hv) as [H|H]; [exact H|].
    rewrite H. eapply N.lt_trans; [exact Hv|]. vm_compute. reflexivity.
  - simpl. lia.
Qed.

(* ---- the Go loop produces LEB128 ---- *)
Lemma enc_loop_leb128 k : forall t f,
  (k < f)%nat -> t < 2^(7 * N.of_nat (S k)) -> ((k > 0)%nat -> 2^(7 * N.of_nat k) <= t) ->
  enc_loop k t = leb128 f t.
Proof.
  induction k as [|k IH]; intros t f Hf Ht Hlo.
  - change (2^(7 * N.of_nat 1)) with 128 in Ht.
    destruct f as [|f]; [lia|]. cbn [enc_loop leb128].
    replace (t <? 128) with true by lia. rewrite N.mod_small by lia. reflexivity.
  - destruct f as [|f]; [lia|]. cbn [enc_loop leb128].
    assert (Hge : 2^(7 * N.of_nat (S k)) <= t) by (apply Hlo; lia).
    rewrite pow7_succ in Hge. pose proof (pow7_pos k) as Hp.
    replace (t <? 128) with false by nia.
    rewrite lor128 by lia.
    replace ((t mod 256) mod 128) with (t mod 128) by lia.
    rewrite N.shiftr_div_pow2. change (2^7) with 128.
    f_equal. apply IH.
    + lia.
    + rewrite pow7_succ in Ht. set (X := 2^(7 * N.of_nat (S k))) in *. clearbody X. lia.
    + intros _. set (X := 2^(7 * N.of_nat k)) in *. clearbody X. lia.
Qed.

Lemma sizeof_varint_lower v :
  (sizeof_varint v - 1 > 0)%nat -> 2^(7 * N.of_nat (sizeof_varint v - 1)) <= v.
Proof.
  unfold sizeof_varint.
  repeat (match goal with |- context [?a <? ?b] => destruct (N.ltb_spec a b) end;
          [simpl; intros; try lia|]).
  simpl; intros; lia.
Qed.

Theorem varint_enc_leb128 v : v < 2^64 -> varint_enc v = leb128 10 v.
Proof.
  intros Hv. unfold varint_enc. pose proof (sizeof_varint_range v) as Hr.
  apply enc_loop_leb128.
  - lia.
  - replace (S (sizeof_varint v - 1)) with (sizeof_varint v) by lia.
    destruct (sizeof_varint_bound v Hv) as [H|H]; [exact H|].
    rewrite H. eapply N.lt_trans; [exact Hv|]. vm_compute. reflexivity.
  - apply sizeof_varint_lower.
Qed.

(* ---- totality: the guards exclude every panic ---- *)
Lemma check_varint_dvar i acc b :
  check_varint_from i b <> 0%nat -> exists v r, dvar i acc b = Ok (v, r) /\
     (length b = length r + (check_varint_from i b - i))%nat /\ (i < check_varint_from i b)%nat.
Proof.
  revert i acc; induction b as [|x b IH]; intros i acc H; simpl in *; [congruence|].
  destruct ((N.land x 128 =? 0) || Nat.eqb i 9).
  - eexists _, _. split; [reflexivity|]. split; lia.
  - destruct (IH (S i) ((N.lor acc (N.shiftl (N.land x 127) (7 * N.of_nat i))) mod 2^64) H)
      as (v & r & E & L & G).
    exists v, r. split; [exact E|]. split; lia.
Qed.

Lemma read_varint_total b : read_varint true b <> Panic.
Proof.
  unfold read_varint. cbn [andb]. destruct (Nat.eqb_spec (check_varint b) 0) as [E|E]; [discriminate|].
  destruct (check_varint_dvar 0 0 b E) as (v & r & H & _). unfold varint_dec. rewrite H. discriminate.
Qed.

Lemma read_bytes_total b : read_bytes true b <> Panic.
Proof.
  unfold read_bytes. cbn [andb].
  destruct (check_bytes b) eqn:C; cbn [negb]; [|discriminate].
  unfold check_bytes in C.
  destruct (check_varint b) as [|n] eqn:E; [discriminate|].
  assert (E' : check_varint_from 0 b <> 0%nat) by (unfold check_varint in E; rewrite E; discriminate).
  destruct (check_varint_dvar 0 0 b E') as (v & r & H & L & _).
  unfold varint_dec in *. rewrite H in *. cbn [bind].
  apply take_not_panic. unfold check_varint in E. rewrite E in L. unfold len in *. lia.
Qed.

(* a guarded read only returns bytes that lie inside its input *)
Lemma read_bytes_inside g b x r : read_bytes g b = Ok (x, r) -> exists p, b = p ++ x ++ r.
Proof.
  unfold read_bytes. destruct (g && negb (check_bytes b)); [discriminate|].
  intros H. apply bind_ok_inv in H as ((t & r0) & Hd & Ht).
  apply take_ok in Ht as [-> _].
  assert (G : forall i acc b v r, dvar i acc b = Ok (v, r) -> exists p, b = p ++ r).
  { clear. intros i acc b; revert i acc; induction b as [|y b IH]; intros i acc v r H; simpl in H; [discriminate|].
    destruct ((N.land y 128 =? 0) || Nat.eqb i 9).
    - inversion H; subst. exists [y]. reflexivity.
    - apply IH in H as [p ->]. exists (y :: p). reflexivity. }
  apply G in Hd as [p ->]. exists p. reflexivity.
Qed.

(* reading what [lp] wrote *)
Theorem read_bytes_lp g x rest :
  len x < 2^64 -> read_bytes g (lp x ++ rest) = Ok (x, rest).
Proof.
  intros Hx. unfold read_bytes, lp. rewrite <- app_assoc.
  assert (Hd : varint_dec (varint_enc (len x) ++ x ++ rest) = Ok (len x, x ++ rest))
    by (apply varint_roundtrip; exact Hx).
  assert (Hc : check_bytes (varint_enc (len x) ++ x ++ rest) = true).
  { unfold check_bytes. rewrite Hd.
    destruct (check_varint (varint_enc (len x) ++ x ++ rest)) as [|n] eqn:E.
    - exfalso. unfold varint_dec in Hd.
      assert (forall i acc b, check_varint_from i b = 0%nat -> dvar i acc b = Panic) as G.
      { clear. intros i acc b; revert i acc; induction b as [|y b IH]; intros i acc H; simpl in *; [reflexivity|].
        destruct ((N.land y 128 =? 0) || Nat.eqb i 9); [discriminate|]. apply IH, H. }
      rewrite (G _ _ _ E) in Hd. discriminate.
    - assert (E' : check_varint_from 0 (varint_enc (len x) ++ x ++ rest) <> 0%nat)
        by (unfold check_varint in E; rewrite E; discriminate).
      destruct (check_varint_dvar 0 0 _ E') as (v & r & H & L & _).
      unfold varint_dec in Hd. rewrite Hd in H. inversion H; subst.
      unfold check_varint in E. rewrite E in L.
      rewrite !len_app. unfold len in *. rewrite !app_length in L. lia. }
  rewrite Hc, andb_false_r, Hd. simpl. apply take_app.
Qed.

Theorem read_varint_enc g v rest :
  v < 2^64 -> read_varint g (varint_enc v ++ rest) = Ok (v, rest).
Proof.
  intros Hv. unfold read_varint.
  pose proof (varint_roundtrip v rest Hv) as Hd.
  destruct (Nat.eqb_spec (check_varint (varint_enc v ++ rest)) 0) as [E|E].
  - exfalso. unfold varint_dec in Hd.
    assert (forall i acc b, check_varint_from i b = 0%nat -> dvar i acc b = Panic) as G.
    { clear. intros i acc b; revert i acc; induction b as [|y b IH]; intros i acc H; simpl in *; [reflexivity|].
      destruct ((N.land y 128 =? 0) || Nat.eqb i 9); [discriminate|]. apply IH, H. }
    rewrite (G _ _ _ E) in Hd. discriminate.
  - rewrite andb_false_r. exact Hd.
Qed.
