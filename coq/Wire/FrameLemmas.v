(* FrameLemmas.v — the framing layer (model of hslam/socket messages):
   however the byte stream of a sequence of frames is cut into chunks, the
   reader yields exactly those frames, in order. *)
From RPC Require Import Varint VarintLemmas Frame.
From Coq Require Import ZifyBool ZifyN ZifyNat.
Ltac Zify.zify_post_hook ::= Z.div_mod_to_equations.
Open Scope N_scope.

(* payload lengths a Go slice can have *)
Definition frames_ok (frames : list bytes) : Prop := Forall (fun p => len p < 2^63) frames.

(* ---- the length prefix ---- *)
Lemma frame_len_last i s acc n rest : (i <= 8)%nat -> acc < 2^s -> n < 128 ->
  frame_len i s acc (n :: rest) = Ok (Some (acc + n * 2^s, rest)).
Proof.
  intros Hi Hacc Hn. cbn [frame_len].
  replace (128 <=? n) with false by lia.
  destruct (Nat.ltb_spec 9 i) as [L|L]; [lia|].
  destruct (Nat.eqb_spec i 9) as [E|E]; [lia|].
  cbn [orb andb]. rewrite lor_disjoint by exact Hacc. reflexivity.
Qed.

(* the reader on a LEB128 run that ends at byte index <= 8: no panic, the
   un-wrapped accumulation is exact *)
Lemma frame_len_leb k : forall f i s acc n rest,
  (k < f)%nat -> (i + k <= 8)%nat -> s = 7 * N.of_nat i -> acc < 2^s ->
  n < 2^(7 * N.of_nat (S k)) ->
  frame_len i s acc (leb128 f n ++ rest) = Ok (Some (acc + n * 2^s, rest)).
Proof.
  induction k as [|k IH]; intros f i s acc n rest Hf Hik Hs Hacc Hn;
    (destruct f as [|f]; [lia|]); cbn [leb128].
  - change (2^(7 * N.of_nat 1)) with 128 in Hn.
    replace (n <? 128) with true by lia. cbn [app].
    apply frame_len_last; [lia|exact Hacc|exact Hn].
  - destruct (N.ltb_spec n 128) as [L|L].
    + cbn [app]. apply frame_len_last; [lia|exact Hacc|exact L].
    + cbn [app frame_len].
      replace (128 <=? n mod 128 + 128) with true by lia.
      rewrite land127.
      replace ((n mod 128 + 128) mod 128) with (n mod 128) by lia.
      rewrite lor_disjoint by exact Hacc.
      rewrite pow7_succ in Hn.
      assert (Hp7 : 2^(s + 7) = 128 * 2^s) by (rewrite N.pow_add_r; change (2^7) with 128; lia).
      assert (Hdm : n = 128 * (n / 128) + n mod 128) by lia.
      assert (Hm : n mod 128 < 128) by lia.
      assert (Hq : n / 128 < 2^(7 * N.of_nat (S k))) by lia.
      set (p := 2^s) in *. set (m := n mod 128) in *. set (q := n / 128) in *.
      assert (Hm1 : m * p <= 127 * p) by (apply N.mul_le_mono_r; lia).
      rewrite (IH f (S i) (s + 7) (acc + m * p) q rest); try lia.
      * rewrite Hp7. f_equal. f_equal. f_equal. rewrite Hdm. lia.
Qed.

Lemma frame_len_prefix p rest : len p < 2^63 ->
  frame_len 0 0 0 (leb128 10 (len p) ++ rest) = Ok (Some (len p, rest)).
Proof.
  intros Hp. rewrite (frame_len_leb 8 10 0 0 0 (len p) rest); try lia.
  rewrite N.pow_0_r. f_equal. f_equal. f_equal. lia.
Qed.

(* every byte of a LEB128 run but the last has the continuation bit: on a
   proper prefix the reader runs off the end of the buffer *)
Lemma frame_len_short f : forall n i s acc pre suf,
  leb128 f n = pre ++ suf -> suf <> [] -> frame_len i s acc pre = Ok None.
Proof.
  induction f as [|f IH]; intros n i s acc pre suf E Hs; cbn [leb128] in E.
  - destruct pre; [|discriminate]. destruct suf; [congruence|discriminate].
  - destruct pre as [|x pre]; [reflexivity|].
    destruct (n <? 128).
    + injection E as _ E. destruct pre; [|discriminate]. destruct suf; [congruence|discriminate].
    + injection E as <- E. cbn [frame_len].
      replace (128 <=? n mod 128 + 128) with true by lia.
      eapply IH; [exact E|exact Hs].
Qed.

(* one frame followed by anything is split off *)
Theorem frame_try_complete p rest : len p < 2^63 ->
  frame_try (frame_enc p ++ rest) = Ok (Some (p, rest)).
Proof.
  intros Hp. unfold frame_try, frame_enc. rewrite <- app_assoc.
  rewrite frame_len_prefix by exact Hp. cbn [bind].
  pose proof (take_app p rest) as T. unfold take in T.
  destruct (len p <=? len (p ++ rest)); [|discriminate].
  injection T as T1 T2. rewrite T1, T2. reflexivity.
Qed.

(* a proper prefix of a frame is not yet a frame: the reader waits for more bytes *)
Theorem frame_try_incomplete p pre : len p < 2^63 ->
  (exists suf, suf <> [] /\ frame_enc p = pre ++ suf) -> frame_try pre = Ok None.
Proof.
  intros Hp (suf & Hs & E). unfold frame_enc in E.
  assert (Hsl : 0 < len suf) by (destruct suf; [congruence|rewrite len_cons; lia]).
  apply app_eq_app in E as [l [[E1 E2]|[E1 E2]]]; unfold frame_try.
  - destruct l as [|x l].
    + rewrite app_nil_r in E1. cbn [app] in E2. subst suf.
      rewrite <- E1, <- (app_nil_r (leb128 10 (len p))).
      rewrite frame_len_prefix by exact Hp. cbn [bind].
      rewrite len_nil. replace (len p <=? 0) with false by lia. reflexivity.
    + rewrite (frame_len_short _ _ 0%nat 0 0 _ _ E1) by discriminate. reflexivity.
  - subst pre. rewrite frame_len_prefix by exact Hp. cbn [bind].
    rewrite E2, len_app. replace (len l + len suf <=? len l) with false by lia. reflexivity.
Qed.

(* ---- streams of frames ---- *)
Definition stream (fs : list bytes) (pre : bytes) : bytes := concat (map frame_enc fs) ++ pre.

(* a buffer that is a proper prefix of some frame (the empty buffer included) *)
Definition partial (pre : bytes) : Prop :=
  exists p suf, len p < 2^63 /\ suf <> [] /\ frame_enc p = pre ++ suf.

Lemma stream_nil pre : stream [] pre = pre.
Proof. reflexivity. Qed.

Lemma stream_cons p fs pre : stream (p :: fs) pre = frame_enc p ++ stream fs pre.
Proof. unfold stream. cbn [map concat]. rewrite app_assoc. reflexivity. Qed.

Lemma partial_nil : partial [].
Proof. exists [], [0]. split; [vm_compute; reflexivity|]. split; [discriminate|reflexivity]. Qed.

Lemma partial_try pre : partial pre -> frame_try pre = Ok None.
Proof. intros (p & suf & Hp & Hs & E). apply (frame_try_incomplete p pre Hp). exists suf. split; assumption. Qed.

Lemma frame_enc_length p : (1 <= length (frame_enc p))%nat.
Proof.
  unfold frame_enc. rewrite app_length. change 10%nat with (S 9).
  generalize 9%nat. intros f. cbn [leb128]. destruct (len p <? 128); simpl; lia.
Qed.

(* each frame is at least one byte: the drain fuel suffices *)
Lemma stream_length fs pre : (length fs <= length (stream fs pre))%nat.
Proof.
  induction fs as [|p fs IH]; [simpl; lia|].
  rewrite stream_cons, app_length. pose proof (frame_enc_length p). simpl. lia.
Qed.

Lemma frame_drain_frames fs : forall pre fuel,
  frames_ok fs -> frame_try pre = Ok None -> (length fs < fuel)%nat ->
  frame_drain fuel (stream fs pre) = Ok (fs, pre).
Proof.
  induction fs as [|p fs IH]; intros pre fuel Hok Hpre Hfuel; (destruct fuel as [|fuel]; [simpl in Hfuel; lia|]).
  - rewrite stream_nil. cbn [frame_drain]. rewrite Hpre. reflexivity.
  - apply Forall_cons_iff in Hok as [Hp Hok].
    rewrite stream_cons. cbn [frame_drain]. rewrite frame_try_complete by exact Hp. cbn [bind].
    rewrite IH; [reflexivity|exact Hok|exact Hpre|simpl in Hfuel; lia].
Qed.

(* a prefix of a stream is a stream: whole frames, then a partial one *)
Lemma stream_split fs : forall b rest pre0,
  frames_ok fs -> partial pre0 -> b ++ rest = stream fs pre0 ->
  exists fs1 fs2 pre1, fs = fs1 ++ fs2 /\ b = stream fs1 pre1 /\ partial pre1 /\
    pre1 ++ rest = stream fs2 pre0.
Proof.
  induction fs as [|p fs IH]; intros b rest pre0 Hok Hpre E.
  - rewrite stream_nil in E. exists [], [], b. split; [reflexivity|]. split; [reflexivity|].
    split; [|rewrite stream_nil; exact E].
    destruct Hpre as (q & suf & Hq & Hs & Eq). exists q, (rest ++ suf). split; [exact Hq|].
    split; [destruct rest; [exact Hs|discriminate]|].
    rewrite Eq, <- E, app_assoc. reflexivity.
  - apply Forall_cons_iff in Hok as [Hp Hok]. rewrite stream_cons in E.
    apply app_eq_app in E as [l [[E1 E2]|[E1 E2]]].
    + symmetry in E2. destruct (IH l rest pre0 Hok Hpre E2) as (fs1 & fs2 & pre1 & -> & El & Hp1 & Er).
      exists (p :: fs1), fs2, pre1. split; [reflexivity|]. split; [|split; assumption].
      rewrite stream_cons, <- El. exact E1.
    + destruct l as [|x l].
      * rewrite app_nil_r in E1. cbn [app] in E2. subst rest.
        exists [p], fs, []. split; [reflexivity|]. split; [|split; [apply partial_nil|reflexivity]].
        rewrite stream_cons, stream_nil, app_nil_r. symmetry; exact E1.
      * exists [], (p :: fs), b. split; [reflexivity|]. split; [reflexivity|]. split.
        -- exists p, (x :: l). split; [exact Hp|]. split; [discriminate|exact E1].
        -- rewrite stream_cons, E2, E1, app_assoc. reflexivity.
Qed.

(* the reader invariant: the buffer holds no complete frame *)
Lemma feed_stream chunks : forall buf fs pre,
  frames_ok fs -> partial pre -> frame_try buf = Ok None ->
  buf ++ concat chunks = stream fs pre -> feed buf chunks = Ok (fs, pre).
Proof.
  induction chunks as [|c cs IH]; intros buf fs pre Hok Hpre Hbuf E.
  - cbn [concat] in E. rewrite app_nil_r in E. subst buf. cbn [feed].
    destruct fs as [|p fs]; [reflexivity|].
    apply Forall_cons_iff in Hok as [Hp Hok].
    rewrite stream_cons, frame_try_complete in Hbuf by exact Hp. discriminate.
  - cbn [concat] in E. rewrite app_assoc in E.
    destruct (stream_split fs (buf ++ c) (concat cs) pre Hok Hpre E)
      as (fs1 & fs2 & pre1 & -> & Eb & Hp1 & Er).
    apply Forall_app in Hok as [Hok1 Hok2].
    cbn [feed]. rewrite Eb.
    rewrite frame_drain_frames;
      [|exact Hok1|apply partial_try; exact Hp1|pose proof (stream_length fs1 pre1); lia].
    cbn [bind].
    rewrite (IH pre1 fs2 pre Hok2 Hpre (partial_try _ Hp1) Er). reflexivity.
Qed.

(* fragmentation, batching and delay are invisible *)
Theorem frame_reassembly frames chunks : frames_ok frames ->
  concat chunks = concat (map frame_enc frames) ->
  feed_all chunks = Ok (frames, []).
Proof.
  intros Hok E. unfold feed_all. apply feed_stream.
  - exact Hok.
  - apply partial_nil.
  - reflexivity.
  - unfold stream. rewrite app_nil_r. exact E.
Qed.

(* a stream cut after any byte offset yields exactly the frames that end at or before the cut *)
Theorem frame_cut frames1 p pre chunks : frames_ok (frames1 ++ [p]) ->
  (exists suf, suf <> [] /\ frame_enc p = pre ++ suf) ->
  concat chunks = concat (map frame_enc frames1) ++ pre ->
  feed_all chunks = Ok (frames1, pre).
Proof.
  intros Hok (suf & Hs & Ep) E. apply Forall_app in Hok as [Hok1 Hp].
  apply Forall_cons_iff in Hp as [Hp _].
  unfold feed_all. apply feed_stream.
  - exact Hok1.
  - exists p, suf. split; [exact Hp|]. split; assumption.
  - reflexivity.
  - exact E.
Qed.

Example frame_example :
  feed_all [[3; 1]; [2]; [3; 0; 2; 9]; [9]] = Ok ([[1; 2; 3]; []; [9; 9]], []).
Proof. vm_compute. reflexivity. Qed.

Print Assumptions frame_try_complete.
Print Assumptions frame_try_incomplete.
Print Assumptions frame_reassembly.
Print Assumptions frame_cut.
Print Assumptions frame_example.
