(* Varint.v — hslam/code's SizeofVarint / DecodeVarint and the encoder loop
   that codec.pb.go / codec.code.go inline, transcribed; the LEB128
   specification; the bounds guards [checkVarint]/[checkBytes] of codec.go. *)
From RPC Require Export Bytes.
Open Scope N_scope.

(* code.SizeofVarint: the ten-way switch *)
Definition sizeof_varint (v : N) : nat :=
  if v <? 2^7 then 1 else if v <? 2^14 then 2 else if v <? 2^21 then 3
  else if v <? 2^28 then 4 else if v <? 2^35 then 5 else if v <? 2^42 then 6
  else if v <? 2^49 then 7 else if v <? 2^56 then 8 else if v <? 2^63 then 9
  else 10%nat.

(* the inlined encoder loop:
     for i := 0; i < size-1; i++ { buf[offset+i] = byte(t) | 0x80; t >>= 7 }
     buf[offset+size-1] = byte(t)
   [k] is size-1. *)
Fixpoint enc_loop (k : nat) (t : N) : bytes :=
  match k with
  | O => [t mod 256]
  | S k' => N.lor (t mod 256) 128 :: enc_loop k' (N.shiftr t 7)
  end.

Definition varint_enc (v : N) : bytes := enc_loop (sizeof_varint v - 1) v.

(* documented format: LEB128, little-endian base 128, msb = continuation *)
Fixpoint leb128 (fuel : nat) (v : N) : bytes :=
  match fuel with
  | O => []
  | S f => if v <? 128 then [v] else (v mod 128 + 128) :: leb128 f (v / 128)
  end.

(* code.DecodeVarint (and the identical prefix of DecodeBytes/DecodeString):
   ten unrolled steps; the tenth byte ends the varint whatever its msb; the
   shift by 63 wraps in uint64.  Reading past the slice panics. *)
Fixpoint dvar (i : nat) (acc : N) (b : bytes) : res (N * bytes) :=
  match b with
  | [] => Panic
  | x :: r =>
      let acc' := (N.lor acc (N.shiftl (N.land x 127) (7 * N.of_nat i))) mod 2^64 in
      if (N.land x 128 =? 0) || Nat.eqb i 9 then Ok (acc', r) else dvar (S i) acc' r
  end.
Definition varint_dec (b : bytes) : res (N * bytes) := dvar 0 0 b.

(* codec.go checkVarint: number of bytes of the varint at the start of buf,
   0 if buf ends first *)
Fixpoint check_varint_from (i : nat) (b : bytes) : nat :=
  match b with
  | [] => 0%nat
  | x :: r => if (N.land x 128 =? 0) || Nat.eqb i 9 then S i else check_varint_from (S i) r
  end.
Definition check_varint (b : bytes) : nat := check_varint_from 0 b.

(* guarded varint read as the fixed decoders perform it; [guard = false] is
   the pinned tree's unguarded read *)
Definition read_varint (guard : bool) (b : bytes) : res (N * bytes) :=
  if guard && Nat.eqb (check_varint b) 0 then Err EShort else varint_dec b.

(* codec.go checkBytes + code.DecodeBytes / DecodeString *)
Definition check_bytes (b : bytes) : bool :=
  match check_varint b with
  | O => false
  | n => match varint_dec b with
         | Ok (t, _) => t <=? len b - N.of_nat n
         | _ => false
         end
  end.

Definition read_bytes (guard : bool) (b : bytes) : res (bytes * bytes) :=
  if guard && negb (check_bytes b) then Err EShort
  else let* (t, r) := varint_dec b in take t r.

(* length-prefixed field: the documented format of the code header *)
Definition lp (x : bytes) : bytes := varint_enc (len x) ++ x.
