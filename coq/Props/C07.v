(* C07 — Wire headers round-trip losslessly and keep their documented format.
   Statements only; every proof is [exact <lemma>]. *)
From RPC Require Import Varint VarintLemmas PB PBLemmas Code CodeLemmas Upgrade UpgradeLemmas.
Open Scope N_scope.

(* varints: every 64-bit value, any trailing bytes *)
Theorem C07_varint_roundtrip : forall v rest, v < 2^64 -> varint_dec (varint_enc v ++ rest) = Ok (v, rest).
Proof. exact varint_roundtrip. Qed.
Theorem C07_varint_is_leb128 : forall v, v < 2^64 -> varint_enc v = leb128 10 v.
Proof. exact varint_enc_leb128. Qed.
Theorem C07_varint_length : forall v, length (varint_enc v) = sizeof_varint v /\ (1 <= sizeof_varint v <= 10)%nat.
Proof. intros v. split; [exact (varint_enc_length v)|exact (sizeof_varint_range v)]. Qed.
(* length-prefixed fields of any length, in particular at 127/128, 16383/16384, 2097151/2097152 *)
Theorem C07_length_prefixed_roundtrip : forall g x rest, len x < 2^64 -> read_bytes g (lp x ++ rest) = Ok (x, rest).
Proof. exact read_bytes_lp. Qed.

(* default / pb header: whatever the size or previous contents of the reused buffer *)
Theorem C07_pb_request_any_buffer : forall buf r, pb_req_size r <= len buf -> pb_req_marshal_to buf r = Ok (pb_req_bytes r).
Proof. exact pb_req_marshal_to_any_buffer. Qed.
Theorem C07_pb_response_any_buffer : forall buf r, pb_resp_size r <= len buf -> pb_resp_marshal_to buf r = Ok (pb_resp_bytes r).
Proof. exact pb_resp_marshal_to_any_buffer. Qed.
Theorem C07_pb_marshal_never_panics : forall buf rq rs, pb_req_marshal_to buf rq <> Panic /\ pb_resp_marshal_to buf rs <> Panic.
Proof. exact pb_marshal_to_never_panics. Qed.
Theorem C07_pb_request_roundtrip : forall g r, wf_pbreq r -> pb_req_dec g (pb_req_bytes r) = Ok r.
Proof. exact pb_req_roundtrip. Qed.
Theorem C07_pb_response_roundtrip : forall g r, wf_pbresp r -> pb_resp_dec g (pb_resp_bytes r) = Ok r.
Proof. exact pb_resp_roundtrip. Qed.
(* documented format: protobuf wire format of the two messages *)
Theorem C07_pb_request_is_protobuf : forall r, wf_pbreq r ->
  pb_req_bytes r = proto3_enc [(1, P3Varint (q_seq r)); (2, P3Bytes (q_upgrade r)); (3, P3Bytes (q_method r)); (4, P3Bytes (q_args r))].
Proof. exact pb_req_is_proto3. Qed.
Theorem C07_pb_response_is_protobuf : forall r, wf_pbresp r ->
  pb_resp_bytes r = proto3_enc [(1, P3Varint (p_seq r)); (2, P3Bytes (p_error r)); (3, P3Bytes (p_reply r))].
Proof. exact pb_resp_is_proto3. Qed.

(* code header: varint-length-prefixed fields; result independent of the scratch buffer *)
Theorem C07_code_request_format : forall r, code_req_bytes r = varint_enc (q_seq r) ++ lp (q_upgrade r) ++ lp (q_method r) ++ lp (q_args r).
Proof. exact code_req_format. Qed.
Theorem C07_code_response_format : forall r, code_resp_bytes r = varint_enc (p_seq r) ++ lp (p_error r) ++ lp (p_reply r).
Proof. exact code_resp_format. Qed.
Theorem C07_code_request_any_buffer : forall buf r, code_req_marshal buf r = Ok (code_req_bytes r).
Proof. exact code_req_marshal_any_buffer. Qed.
Theorem C07_code_response_any_buffer : forall buf r, code_resp_marshal buf r = Ok (code_resp_bytes r).
Proof. exact code_resp_marshal_any_buffer. Qed.
Theorem C07_code_request_roundtrip : forall g r, wf_pbreq r -> code_req_dec g (code_req_bytes r) = Ok r.
Proof. exact code_req_roundtrip. Qed.
Theorem C07_code_response_roundtrip : forall g r, wf_pbresp r -> code_resp_dec g (code_resp_bytes r) = Ok r.
Proof. exact code_resp_roundtrip. Qed.

(* upgrade flags: all 32 combinations, all 256 bytes *)
Theorem C07_upgrade_roundtrip : forall u, wf_upgrade u = true -> upgrade_dec (upgrade_enc u) = Ok u.
Proof. exact upgrade_roundtrip. Qed.
Theorem C07_upgrade_every_byte : forall b, b < 256 ->
  exists u, upgrade_dec [b] = Ok u /\ wf_upgrade u = true /\ upgrade_enc u = [N.land b 248].
Proof. exact upgrade_dec_enc. Qed.
Theorem C07_upgrade_injective : forall u v, wf_upgrade u = true -> wf_upgrade v = true -> upgrade_enc u = upgrade_enc v -> u = v.
Proof. exact upgrade_enc_injective. Qed.
Theorem C07_upgrade_is_zero : forall u, wf_upgrade u = true -> (is_zero u = true <-> u = upgrade0).
Proof. exact upgrade_is_zero. Qed.

(* non-vacuity: a concrete non-trivial header meets the hypotheses *)
Example C07_wf_example :
  wf_pbreq {| q_seq := 2^63; q_upgrade := [128]; q_method := repeat 97 200; q_args := repeat 7 300 |}
  /\ pb_req_dec true (pb_req_bytes {| q_seq := 2^63; q_upgrade := [128]; q_method := repeat 97 200; q_args := repeat 7 300 |})
     = Ok {| q_seq := 2^63; q_upgrade := [128]; q_method := repeat 97 200; q_args := repeat 7 300 |}.
Proof. split; [unfold wf_pbreq; cbn -[N.pow]; repeat split; vm_compute; reflexivity|vm_compute; reflexivity]. Qed.

Print Assumptions C07_varint_roundtrip.
Print Assumptions C07_varint_is_leb128.
Print Assumptions C07_length_prefixed_roundtrip.
Print Assumptions C07_pb_request_any_buffer.
Print Assumptions C07_pb_response_any_buffer.
Print Assumptions C07_pb_marshal_never_panics.
Print Assumptions C07_pb_request_roundtrip.
Print Assumptions C07_pb_response_roundtrip.
Print Assumptions C07_pb_request_is_protobuf.
Print Assumptions C07_pb_response_is_protobuf.
Print Assumptions C07_code_request_format.
Print Assumptions C07_code_response_format.
Print Assumptions C07_code_request_any_buffer.
Print Assumptions C07_code_response_any_buffer.
Print Assumptions C07_code_request_roundtrip.
Print Assumptions C07_code_response_roundtrip.
Print Assumptions C07_upgrade_roundtrip.
Print Assumptions C07_upgrade_every_byte.
Print Assumptions C07_upgrade_injective.
Print Assumptions C07_upgrade_is_zero.
