(* C20 — Close releases every resource and is idempotent.
   Statements only; every proof is [exact <lemma>].  The component machines carry the ledger of what
   each component started: queued work, running handlers, pooled connections, waiting callers, blocked
   stream readers; "released" means the ledger is empty and every thread's exit condition holds. *)
From stdpp Require Import gmap.
From RPC Require Import Res.
From RPC.Conn Require Model Inv Close.
From RPC.Pool Require Model InvLemmas Inv.
From RPC.LB Require Model Inv.
From RPC.Server Require Model Inv Live.
From RPC.Stream Require Model Inv.

(* ---- Conn ---- *)
(* the first Close marks the connection closing and closes the codec; a second Close reports ErrShutdown
   (false) and changes nothing else *)
Theorem C20_conn_first_close : forall v cf s, Conn.Model.s_closing s = false ->
  exists s', Conn.Model.step v cf s Conn.Model.AClose = Some s' /\ Conn.Model.s_closing s' = true /\
             Conn.Model.s_codec_closed s' = true /\
             Conn.Model.s_close_ret s' = Conn.Model.s_close_ret s ++ [true] /\
             Conn.Model.s_pending s' = Conn.Model.s_pending s /\ Conn.Model.s_calls s' = Conn.Model.s_calls s /\
             Conn.Model.s_decq s' = Conn.Model.s_decq s /\ Conn.Model.s_finq s' = Conn.Model.s_finq s /\
             Conn.Model.s_rd s' = Conn.Model.s_rd s /\ Conn.Model.s_shutdown s' = Conn.Model.s_shutdown s.
Proof. exact Conn.Close.first_close. Qed.

Theorem C20_conn_second_close_reports_shutdown : forall v cf s, Conn.Model.s_closing s = true ->
  exists s', Conn.Model.step v cf s Conn.Model.AClose = Some s' /\
             Conn.Model.s_close_ret s' = Conn.Model.s_close_ret s ++ [false] /\
             Conn.Model.s_closing s' = true /\ Conn.Model.s_codec_closed s' = Conn.Model.s_codec_closed s /\
             Conn.Model.s_pending s' = Conn.Model.s_pending s /\ Conn.Model.s_calls s' = Conn.Model.s_calls s /\
             Conn.Model.s_decq s' = Conn.Model.s_decq s /\ Conn.Model.s_finq s' = Conn.Model.s_finq s /\
             Conn.Model.s_rd s' = Conn.Model.s_rd s /\ Conn.Model.s_shutdown s' = Conn.Model.s_shutdown s /\
             Conn.Model.s_seq s' = Conn.Model.s_seq s /\ Conn.Model.s_sigs s' = Conn.Model.s_sigs s.
Proof. exact Conn.Close.repeated_close. Qed.

(* once the reader has exited and every queue has drained, nothing is owed to anybody: every started
   call has been completed (the reader, the queue workers and the callers can all end) *)
Theorem C20_conn_everything_released : forall cf s c k, Conn.Inv.reachable cf s -> Conn.Inv.quiescent s ->
  Conn.Model.s_calls s !! c = Some k -> Conn.Model.k_sig k = 1%nat.
Proof. exact Conn.Inv.quiescent_complete. Qed.

(* the reader's exit empties the pending table and leaves nothing queued for decoding *)
Theorem C20_conn_reader_exit : forall cf s s' e, Conn.Inv.reachable cf s -> Conn.Model.s_rd s = Conn.Model.RdDraining e ->
  Conn.Model.step Conn.Model.current cf s Conn.Model.ASweep = Some s' ->
  Conn.Model.s_pending s' = ∅ /\ Conn.Model.s_shutdown s' = true /\
  (forall q c, Conn.Model.s_pending s !! q = Some c ->
     exists k', Conn.Model.s_calls s' !! c = Some k' /\ Conn.Model.k_sig k' = 1%nat /\ Conn.Model.k_err k' = Some e) /\
  (forall c k, Conn.Model.s_calls s !! c = Some k -> (forall q, Conn.Model.k_loc k <> Conn.Model.LPending q) ->
     Conn.Model.s_calls s' !! c = Some k).
Proof. exact Conn.Inv.sweep_fails_pending. Qed.

(* ---- Transport ---- *)
Theorem C20_transport_close : forall p, Pool.Inv.reachable p -> Pool.Model.p_closed p = false ->
  let p' := Pool.Model.step p Pool.Model.Close in
  Pool.Model.p_active p' = ∅ /\ Pool.Model.p_idle p' = ∅ /\
  (forall c, is_Some (Pool.Model.p_conns p' !! c) -> Pool.Model.is_open p' c = false) /\
  Pool.Model.step p' Pool.Model.Close = p'.
Proof. exact Pool.Inv.close_closes_all. Qed.

(* ---- Client ---- *)
Theorem C20_client_close : forall l, LB.Inv.reachable l -> LB.Model.l_closed l = false ->
  let l' := LB.Model.step l LB.Model.Close in
  LB.Model.l_closed l' = true /\ LB.Model.l_waiters l' = ∅ /\
  (forall w, is_Some (LB.Model.l_waiters l !! w) -> (w, LB.Model.ClosedErr) ∈ LB.Model.l_released l') /\
  LB.Model.step l' LB.Model.Close = l'.
Proof. exact LB.Inv.close_releases_all. Qed.

(* ---- Server connection ---- *)
(* after the peer has gone, the teardown runs to completion once the queues have drained ... *)
Theorem C20_server_teardown_progress : forall tail0 cf s, Server.Inv.reachable tail0 cf s ->
  Server.Model.s_rd_alive s = false -> Server.Model.s_tail s <> [] -> Server.Model.s_decq s = [] ->
  Server.Model.s_wg s = 0%nat -> Server.Model.step tail0 cf s Server.Model.STail <> None.
Proof. exact Server.Inv.teardown_progress. Qed.

(* ... the WaitGroup counts exactly the handlers that have not returned, so the wait ends when they do *)
Theorem C20_server_waitgroup_exact : forall tail0 cf s, Server.Inv.reachable tail0 cf s ->
  Server.Model.s_wg s = (length (Server.Model.s_execq s) + length (Server.Model.s_running s))%nat.
Proof. exact Server.Inv.wg_counts. Qed.

(* ... in the order read from the source, which closes the codec, the queues and every stream *)
Theorem C20_server_tail_order : Server.Model.tail_steps Generated.servecodec_tail <> None /\
  Server.Model.safe_order Server.Model.servecodec_tail = true.
Proof. exact Server.Inv.servecodec_tail_safe. Qed.

(* ... and, as one theorem about runs rather than one step at a time: once the reader has left its
   loop there is a finite run of the connection's own steps (queued requests are decoded, dispatched
   handlers run and return, the teardown tail is executed) after which ServeCodec has returned,
   nothing is queued or running, the WaitGroup counter is zero, and - for the order read from the
   source - no fault (WaitGroup reuse, stream table iterated while writable) occurred on the way *)
Theorem C20_server_teardown_terminates : forall tail0 cf s, Server.Inv.reachable tail0 cf s ->
  Server.Model.s_rd_alive s = false ->
  exists tr s', Forall Server.Live.internal tr /\ Server.Model.run tail0 cf tr s = Some s' /\
    Server.Live.idle s' /\ Server.Model.s_tail s' = [] /\ Server.Model.s_wg s' = 0%nat /\
    Server.Model.s_arrived s' = Server.Model.s_arrived s /\
    (Server.Model.safe_order tail0 = true -> Server.Model.s_fault s' = false).
Proof. exact Server.Live.teardown_terminates. Qed.

(* ---- streams ---- *)
Theorem C20_client_streams_closed_with_connection : forall x x', Stream.Inv.reachable Stream.Model.current x ->
  Stream.Model.step Stream.Model.current x Stream.Model.ConnLoss = Some x' ->
  (forall s c, Stream.Model.lookup s (Stream.Model.cstreams x') = Some c ->
     Stream.Model.c_closed c = true /\ Stream.Model.c_blocked c = 0%nat).
Proof. exact Stream.Inv.connloss_closes_all. Qed.

Theorem C20_server_streams_closed_by_teardown : forall x x', Stream.Inv.reachable Stream.Model.current x ->
  Stream.Model.step Stream.Model.current x Stream.Model.STeardown = Some x' ->
  (forall s c, Stream.Model.lookup s (Stream.Model.sstreams x') = Some c ->
     Stream.Model.s_closed c = true /\ Stream.Model.s_blocked c = 0%nat) /\
  Stream.Model.sdecq x' = nil /\ Stream.Model.torn x' = true.
Proof. exact Stream.Inv.teardown_closes_all. Qed.

Print Assumptions C20_conn_first_close.
Print Assumptions C20_conn_second_close_reports_shutdown.
Print Assumptions C20_conn_everything_released.
Print Assumptions C20_conn_reader_exit.
Print Assumptions C20_transport_close.
Print Assumptions C20_client_close.
Print Assumptions C20_server_teardown_progress.
Print Assumptions C20_server_waitgroup_exact.
Print Assumptions C20_server_tail_order.
Print Assumptions C20_server_teardown_terminates.
Print Assumptions C20_client_streams_closed_with_connection.
Print Assumptions C20_server_streams_closed_by_teardown.
