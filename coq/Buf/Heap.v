(* Buf/Heap.v — C11: buffers with owners.  The library takes buffers from
   pools, fills them, hands regions to user code and returns buffers to the
   pools; sync.Pool may hand a returned buffer to anybody next.  The paths of
   the code that hand data to user code are transcribed as sequences of heap
   operations; the theorem says what they hand over is never written again,
   whatever the pools do and whatever traffic follows. *)
From Coq Require Import List Arith Bool Lia.
Import ListNotations.
Open Scope nat_scope.

Inductive owner := Pool | Lib | User.

Record buffer := { b_owner : owner; b_data : list nat }.

Definition heap := list buffer.   (* a buffer's id is its index *)

Definition get (h : heap) (i : nat) : option buffer := nth_error h i.

Fixpoint set (h : heap) (i : nat) (b : buffer) : heap :=
  match h, i with
  | [], _ => []
  | _ :: r, O => b :: r
  | x :: r, S j => x :: set r j b
  end.

Definition owner_eqb (a b : owner) : bool :=
  match a, b with Pool, Pool | Lib, Lib | User, User => true | _, _ => false end.

(* what the library can do to the heap *)
Inductive op :=
| Alloc (n : nat)                     (* make([]byte, n): a fresh buffer owned by the library *)
| PoolGet (i : nat) (n : nat)         (* sync.Pool hands out buffer i (its free choice among pooled ones of capacity >= n) *)
| PoolPut (i : nat)                   (* return buffer i to the pool: only the library's own buffers *)
| Write (i : nat) (off : nat) (d : list nat)   (* store into a buffer: only the library's own buffers *)
| HandOff (i : nat)                   (* hand buffer i to user code *)
| UserFree (i : nat).                 (* FreeContextBuffer: the user gives a buffer it was handed back to the pool *)

Definition splice (l : list nat) (off : nat) (d : list nat) : list nat :=
  firstn off l ++ d ++ skipn (off + length d) l.

(* a step is refused (None) when the library would touch a buffer it does not own *)
Definition step (h : heap) (o : op) : option heap :=
  match o with
  | Alloc n => Some (h ++ [{| b_owner := Lib; b_data := repeat 0 n |}])
  | PoolGet i n =>
      match get h i with
      | Some b => if owner_eqb (b_owner b) Pool && Nat.leb n (length (b_data b))
                  then Some (set h i {| b_owner := Lib; b_data := b_data b |}) else None
      | None => None
      end
  | PoolPut i =>
      match get h i with
      | Some b => if owner_eqb (b_owner b) Lib then Some (set h i {| b_owner := Pool; b_data := b_data b |}) else None
      | None => None
      end
  | Write i off d =>
      match get h i with
      | Some b => if owner_eqb (b_owner b) Lib && Nat.leb (off + length d) (length (b_data b))
                  then Some (set h i {| b_owner := Lib; b_data := splice (b_data b) off d |}) else None
      | None => None
      end
  | HandOff i =>
      match get h i with
      | Some b => if owner_eqb (b_owner b) Lib then Some (set h i {| b_owner := User; b_data := b_data b |}) else None
      | None => None
      end
  | UserFree i =>
      match get h i with
      | Some b => if owner_eqb (b_owner b) User then Some (set h i {| b_owner := Pool; b_data := b_data b |}) else None
      | None => None
      end
  end.

Fixpoint run (ops : list op) (h : heap) : option heap :=
  match ops with
  | [] => Some h
  | o :: r => match step h o with Some h' => run r h' | None => None end
  end.

(* ---- the hand-over paths of the code, as programs ----
   [rd] is the pooled read buffer holding the frame, [n] the payload length, [payload] its bytes.
   Each path returns the operations it performs and the id of the buffer it hands to user code. *)

(* server.go readRequestBody without NoCopy: value := make(len); copy(value, ctx.value); decode(value) *)
Definition path_request_args (h : heap) (rd : nat) (payload : list nat) : list op * nat :=
  let fresh := length h in
  ([Alloc (length payload); Write fresh 0 payload; HandOff fresh; PoolPut rd], fresh).

(* conn.go finishCall without a caller buffer: Value := make(len); copy; decode(Value); then PutBuffer(read buffer) *)
Definition path_reply (h : heap) (rd : nat) (payload : list nat) : list op * nat :=
  let fresh := length h in
  ([Alloc (length payload); Write fresh 0 payload; HandOff fresh; PoolPut rd], fresh).

(* conn.go read (streaming) + stream.go ReadMessage without NoCopy: the event buffer comes from the pool,
   the message is copied out into a fresh buffer before the event buffer is returned *)
Definition path_stream_message (h : heap) (rd ev : nat) (payload : list nat) : list op * nat :=
  let fresh := length h in
  ([PoolGet ev (length payload); Write ev 0 payload; PoolPut rd;
    Alloc (length payload); Write fresh 0 payload; PoolPut ev; HandOff fresh], fresh).

(* conn.go read, error branch (current): the text is copied out of the read buffer *)
Definition path_error_text (h : heap) (rd : nat) (text : list nat) : list op * nat :=
  let fresh := length h in
  ([Alloc (length text); Write fresh 0 text; HandOff fresh; PoolPut rd], fresh).

(* pinned tree, error branch: the text handed to the caller is a view of the read buffer, which then goes
   back to the pool *)
Definition path_error_text_legacy (h : heap) (rd : nat) : list op * nat :=
  ([PoolPut rd], rd).

(* finishCall with a caller-supplied context buffer [ub] of capacity k: used only when it is large enough;
   exactly the first len(payload) cells are written *)
Definition ctx_buffer_write (ub : list nat) (payload : list nat) : list nat * bool :=
  if Nat.leb (length payload) (length ub)
  then (payload ++ skipn (length payload) ub, true)
  else (ub, false).

(* ---- what "unchanged for as long as the user keeps it" means ---- *)
Definition user_data (h : heap) (i : nat) : option (list nat) :=
  match get h i with
  | Some b => match b_owner b with User => Some (b_data b) | _ => None end
  | None => None
  end.

Definition is_user_free (o : op) : bool := match o with UserFree _ => true | _ => false end.
