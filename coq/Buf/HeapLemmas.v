(* Buf/HeapLemmas.v — C11 theorems about the ownership heap. *)
From Coq Require Import List Arith Bool Lia.
From RPC.Buf Require Import Heap.
Import ListNotations.
Open Scope nat_scope.

(* ---- get / set / run infrastructure ---- *)
Lemma get_lt h i b : get h i = Some b -> i < length h.
Proof. unfold get. intros H. apply nth_error_Some. congruence. Qed.

Lemma set_length h : forall i b, length (set h i b) = length h.
Proof. induction h; intros [|i] b; simpl; auto. Qed.

Lemma get_set_eq h : forall i b, i < length h -> get (set h i b) i = Some b.
Proof.
  unfold get. induction h; intros [|i] b H; simpl in *; try lia; auto.
  apply IHh. lia.
Qed.

Lemma get_set_neq h : forall i j b, j <> i -> get (set h i b) j = get h j.
Proof.
  unfold get. induction h; intros [|i] [|j] b H; simpl in *; auto; try congruence.
Qed.

Lemma get_app_last h b i : i = length h -> get (h ++ [b]) i = Some b.
Proof.
  intros ->. unfold get. rewrite nth_error_app2 by lia. rewrite Nat.sub_diag. reflexivity.
Qed.

Lemma get_app_lt h b i : i < length h -> get (h ++ [b]) i = get h i.
Proof. intros. unfold get. apply nth_error_app1; auto. Qed.

Lemma splice_fresh p : splice (repeat 0 (length p)) 0 p = p.
Proof.
  unfold splice. simpl. rewrite skipn_all2 by (rewrite repeat_length; lia). apply app_nil_r.
Qed.

Lemma run_app a : forall b h,
  run (a ++ b) h = match run a h with Some h' => run b h' | None => None end.
Proof.
  induction a as [|o a IH]; intros b h; simpl; auto.
  destruct (step h o); auto.
Qed.

Lemma step_Alloc h n : step h (Alloc n) = Some (h ++ [{| b_owner := Lib; b_data := repeat 0 n |}]).
Proof. reflexivity. Qed.

Lemma step_PoolGet h i n d : get h i = Some {| b_owner := Pool; b_data := d |} -> n <= length d ->
  step h (PoolGet i n) = Some (set h i {| b_owner := Lib; b_data := d |}).
Proof.
  intros G L. unfold step. rewrite G. cbn [b_owner b_data owner_eqb andb].
  apply Nat.leb_le in L. rewrite L. reflexivity.
Qed.

Lemma step_PoolPut h i d : get h i = Some {| b_owner := Lib; b_data := d |} ->
  step h (PoolPut i) = Some (set h i {| b_owner := Pool; b_data := d |}).
Proof. intros G. unfold step. rewrite G. reflexivity. Qed.

Lemma step_Write h i off p d : get h i = Some {| b_owner := Lib; b_data := d |} -> off + length p <= length d ->
  step h (Write i off p) = Some (set h i {| b_owner := Lib; b_data := splice d off p |}).
Proof.
  intros G L. unfold step. rewrite G. cbn [b_owner b_data owner_eqb andb].
  apply Nat.leb_le in L. rewrite L. reflexivity.
Qed.

Lemma step_HandOff h i d : get h i = Some {| b_owner := Lib; b_data := d |} ->
  step h (HandOff i) = Some (set h i {| b_owner := User; b_data := d |}).
Proof. intros G. unfold step. rewrite G. reflexivity. Qed.

Lemma user_data_get h i d : get h i = Some {| b_owner := User; b_data := d |} -> user_data h i = Some d.
Proof. intros G. unfold user_data. rewrite G. reflexivity. Qed.

(* no library operation changes a buffer the user holds (only the user's own FreeContextBuffer gives it up) *)
Theorem user_data_stable_step h o h' i d : step h o = Some h' -> user_data h i = Some d -> o <> UserFree i ->
  user_data h' i = Some d.
Proof.
  intros Hs Hu Hne. unfold user_data in Hu.
  destruct (get h i) as [bi|] eqn:Hi; [|discriminate].
  destruct (b_owner bi) eqn:Ho; try discriminate.
  assert (Hlt : i < length h) by (eapply get_lt; eauto).
  assert (Hkeep : forall j b, j <> i -> user_data (set h j b) i = Some d).
  { intros j b Hj. unfold user_data. rewrite get_set_neq by auto. rewrite Hi, Ho. exact Hu. }
  destruct o as [n|j n|j|j off p|j|j]; simpl in Hs.
  - inversion Hs; subst. unfold user_data. rewrite get_app_lt by auto. rewrite Hi, Ho. exact Hu.
  - destruct (Nat.eq_dec j i) as [->|Hj].
    + rewrite Hi, Ho in Hs. simpl in Hs. discriminate.
    + destruct (get h j) as [bj|]; [|discriminate].
      destruct (_ && _); inversion Hs; subst. apply Hkeep; auto.
  - destruct (Nat.eq_dec j i) as [->|Hj].
    + rewrite Hi, Ho in Hs. simpl in Hs. discriminate.
    + destruct (get h j) as [bj|]; [|discriminate].
      destruct (owner_eqb _ _); inversion Hs; subst. apply Hkeep; auto.
  - destruct (Nat.eq_dec j i) as [->|Hj].
    + rewrite Hi, Ho in Hs. simpl in Hs. discriminate.
    + destruct (get h j) as [bj|]; [|discriminate].
      destruct (_ && _); inversion Hs; subst. apply Hkeep; auto.
  - destruct (Nat.eq_dec j i) as [->|Hj].
    + rewrite Hi, Ho in Hs. simpl in Hs. discriminate.
    + destruct (get h j) as [bj|]; [|discriminate].
      destruct (owner_eqb _ _); inversion Hs; subst. apply Hkeep; auto.
  - destruct (Nat.eq_dec j i) as [->|Hj].
    + congruence.
    + destruct (get h j) as [bj|]; [|discriminate].
      destruct (owner_eqb _ _); inversion Hs; subst. apply Hkeep; auto.
Qed.

Theorem user_data_stable ops : forall h h' i d, run ops h = Some h' -> user_data h i = Some d ->
  (forall o, In o ops -> o <> UserFree i) -> user_data h' i = Some d.
Proof.
  induction ops as [|o ops IH]; intros h h' i d Hr Hu Hall; simpl in Hr.
  - inversion Hr; subst. exact Hu.
  - destruct (step h o) as [h1|] eqn:Hs; [|discriminate].
    eapply IH; eauto.
    + eapply user_data_stable_step; eauto. apply Hall. left; reflexivity.
    + intros o' Hin. apply Hall. right; exact Hin.
Qed.

(* the copy-out sequence shared by the request, reply and error-text paths *)
Lemma copy_out_path h rd p : (exists d, get h rd = Some {| b_owner := Lib; b_data := d |}) ->
  exists h', run [Alloc (length p); Write (length h) 0 p; HandOff (length h); PoolPut rd] h = Some h' /\
             user_data h' (length h) = Some p.
Proof.
  intros [d Hd]. pose proof (get_lt _ _ _ Hd) as Hlt.
  set (h1 := h ++ [{| b_owner := Lib; b_data := repeat 0 (length p) |}]).
  assert (L1 : length h1 = S (length h)) by (unfold h1; rewrite app_length; simpl; lia).
  assert (G1 : get h1 (length h) = Some {| b_owner := Lib; b_data := repeat 0 (length p) |})
    by (apply get_app_last; reflexivity).
  set (h2 := set h1 (length h) {| b_owner := Lib; b_data := p |}).
  assert (S2 : step h1 (Write (length h) 0 p) = Some h2).
  { erewrite step_Write; [| exact G1 | rewrite repeat_length; simpl; lia].
    rewrite splice_fresh. reflexivity. }
  assert (L2 : length h2 = S (length h)) by (unfold h2; rewrite set_length; exact L1).
  assert (G2 : get h2 (length h) = Some {| b_owner := Lib; b_data := p |})
    by (apply get_set_eq; lia).
  set (h3 := set h2 (length h) {| b_owner := User; b_data := p |}).
  assert (L3 : length h3 = S (length h)) by (unfold h3; rewrite set_length; exact L2).
  assert (G3 : get h3 rd = Some {| b_owner := Lib; b_data := d |}).
  { unfold h3, h2. rewrite !get_set_neq by lia. unfold h1. rewrite get_app_lt by lia. exact Hd. }
  exists (set h3 rd {| b_owner := Pool; b_data := d |}). split.
  - cbn [run]. rewrite step_Alloc. fold h1. rewrite S2.
    rewrite (step_HandOff _ _ _ G2). fold h3. rewrite (step_PoolPut _ _ _ G3). reflexivity.
  - apply user_data_get. rewrite get_set_neq by lia. apply get_set_eq. lia.
Qed.

(* each hand-over path runs without touching foreign buffers and hands over exactly the payload,
   in a buffer the user now owns *)
Definition lib_owned (h : heap) (i : nat) : Prop := exists d, get h i = Some {| b_owner := Lib; b_data := d |}.
Definition pooled (h : heap) (i : nat) (n : nat) : Prop :=
  exists d, get h i = Some {| b_owner := Pool; b_data := d |} /\ n <= length d.

Theorem request_args_handed_over h rd payload : lib_owned h rd ->
  let '(ops, id) := path_request_args h rd payload in
  exists h', run ops h = Some h' /\ user_data h' id = Some payload.
Proof. intros Hl. unfold path_request_args. apply copy_out_path. exact Hl. Qed.

Theorem reply_handed_over h rd payload : lib_owned h rd ->
  let '(ops, id) := path_reply h rd payload in
  exists h', run ops h = Some h' /\ user_data h' id = Some payload.
Proof. intros Hl. unfold path_reply. apply copy_out_path. exact Hl. Qed.

Theorem stream_message_handed_over h rd ev payload : lib_owned h rd -> pooled h ev (length payload) -> rd <> ev ->
  let '(ops, id) := path_stream_message h rd ev payload in
  exists h', run ops h = Some h' /\ user_data h' id = Some payload.
Proof.
  intros [drd Hrd] (dev & Hev & Hn) Hne. unfold path_stream_message.
  pose proof (get_lt _ _ _ Hrd) as Lrd. pose proof (get_lt _ _ _ Hev) as Lev.
  set (p := payload) in *.
  set (h1 := set h ev {| b_owner := Lib; b_data := dev |}).
  assert (L1 : length h1 = length h) by (unfold h1; apply set_length).
  assert (G1 : get h1 ev = Some {| b_owner := Lib; b_data := dev |}) by (apply get_set_eq; lia).
  set (h2 := set h1 ev {| b_owner := Lib; b_data := splice dev 0 p |}).
  assert (L2 : length h2 = length h) by (unfold h2; rewrite set_length; exact L1).
  assert (G2 : get h2 rd = Some {| b_owner := Lib; b_data := drd |}).
  { unfold h2, h1. rewrite !get_set_neq by lia. exact Hrd. }
  set (h3 := set h2 rd {| b_owner := Pool; b_data := drd |}).
  assert (L3 : length h3 = length h) by (unfold h3; rewrite set_length; exact L2).
  set (h4 := h3 ++ [{| b_owner := Lib; b_data := repeat 0 (length p) |}]).
  assert (L4 : length h4 = S (length h)) by (unfold h4; rewrite app_length; simpl; lia).
  assert (G4 : get h4 (length h) = Some {| b_owner := Lib; b_data := repeat 0 (length p) |})
    by (apply get_app_last; auto).
  set (h5 := set h4 (length h) {| b_owner := Lib; b_data := p |}).
  assert (S5 : step h4 (Write (length h) 0 p) = Some h5).
  { erewrite step_Write; [| exact G4 | rewrite repeat_length; simpl; lia].
    rewrite splice_fresh. reflexivity. }
  assert (L5 : length h5 = S (length h)) by (unfold h5; rewrite set_length; exact L4).
  assert (G5 : get h5 ev = Some {| b_owner := Lib; b_data := splice dev 0 p |}).
  { unfold h5. rewrite get_set_neq by lia. unfold h4. rewrite get_app_lt by lia.
    unfold h3. rewrite get_set_neq by lia. apply get_set_eq. lia. }
  set (h6 := set h5 ev {| b_owner := Pool; b_data := splice dev 0 p |}).
  assert (L6 : length h6 = S (length h)) by (unfold h6; rewrite set_length; exact L5).
  assert (G6 : get h6 (length h) = Some {| b_owner := Lib; b_data := p |}).
  { unfold h6. rewrite get_set_neq by lia. apply get_set_eq. lia. }
  exists (set h6 (length h) {| b_owner := User; b_data := p |}). split.
  - cbn [run].
    rewrite (step_PoolGet _ _ _ _ Hev Hn). fold h1.
    rewrite (step_Write _ _ _ _ _ G1) by (simpl; lia). fold h2.
    rewrite (step_PoolPut _ _ _ G2). fold h3.
    rewrite step_Alloc. fold h4. rewrite S5.
    rewrite (step_PoolPut _ _ _ G5). fold h6.
    rewrite (step_HandOff _ _ _ G6). reflexivity.
  - apply user_data_get. apply get_set_eq. lia.
Qed.

Theorem error_text_handed_over h rd text : lib_owned h rd ->
  let '(ops, id) := path_error_text h rd text in
  exists h', run ops h = Some h' /\ user_data h' id = Some text.
Proof. intros Hl. unfold path_error_text. apply copy_out_path. exact Hl. Qed.

(* hence: whatever traffic follows (any operations the library can perform, any pool choices), what was
   handed over stays what it was, as long as the user does not free it *)
Theorem handed_over_never_mutated h rd payload later : lib_owned h rd ->
  let '(ops, id) := path_reply h rd payload in
  (forall o, In o later -> o <> UserFree id) ->
  forall h'', run (ops ++ later) h = Some h'' -> user_data h'' id = Some payload.
Proof.
  intros Hl. pose proof (reply_handed_over h rd payload Hl) as H.
  unfold path_reply in *. destruct H as (h' & Hr & Hu).
  intros Hlater h'' Hrun. rewrite run_app, Hr in Hrun.
  eapply user_data_stable; eauto.
Qed.

(* the pinned tree's error text is a view of a pooled buffer: later traffic rewrites it (F7) *)
Example legacy_error_text_mutated :
  let h := [{| b_owner := Lib; b_data := [101; 114; 114] |}] in
  let '(ops, id) := path_error_text_legacy h 0 in
  exists h'', run (ops ++ [PoolGet 0 3; Write 0 0 [1; 2; 3]]) h = Some h'' /\
              user_data h'' id = None /\ option_map b_data (get h'' id) = Some [1; 2; 3].
Proof. vm_compute. eexists. repeat split. Qed.

(* a caller-supplied context buffer: used only when large enough; exactly the first len(reply) cells are
   written, the rest is untouched; a buffer that is too small is not written at all *)
Theorem ctx_buffer_fits ub payload : length payload <= length ub ->
  let '(ub', used) := ctx_buffer_write ub payload in
  used = true /\ firstn (length payload) ub' = payload /\ skipn (length payload) ub' = skipn (length payload) ub /\
  length ub' = length ub.
Proof.
  intros H. unfold ctx_buffer_write.
  pose proof H as Hb. apply Nat.leb_le in Hb. rewrite Hb.
  split; [reflexivity|]. split; [|split].
  - rewrite firstn_app, Nat.sub_diag, firstn_all. simpl. apply app_nil_r.
  - rewrite skipn_app, skipn_all, Nat.sub_diag. reflexivity.
  - rewrite app_length, skipn_length. lia.
Qed.

Theorem ctx_buffer_too_small ub payload : length ub < length payload ->
  ctx_buffer_write ub payload = (ub, false).
Proof.
  intros H. unfold ctx_buffer_write.
  destruct (Nat.leb_spec (length payload) (length ub)); [lia|reflexivity].
Qed.

Print Assumptions user_data_stable_step.
Print Assumptions user_data_stable.
Print Assumptions request_args_handed_over.
Print Assumptions reply_handed_over.
Print Assumptions stream_message_handed_over.
Print Assumptions error_text_handed_over.
Print Assumptions handed_over_never_mutated.
Print Assumptions legacy_error_text_mutated.
Print Assumptions ctx_buffer_fits.
Print Assumptions ctx_buffer_too_small.
