(* Opt/Resolve.v — C12: how DialWithOptions (dialer.go) and
   ListenWithOptions (server.go) turn an Options value into a socket, a body
   codec and a header encoder, transcribed separately, and NewClientCodec /
   NewServerCodec's defaulting; checkBuffer (codec.go). *)
From Coq Require Import List Arith Bool Lia ZArith.
Import ListNotations.

(* identities of components: a registered name resolves to [Named n]; a constructor function given
   in Options is [Func k] *)
Inductive comp := Named (n : nat) | Func (k : nat).

Record options := {
  o_network : option nat;          (* Options.Network ("" = None) *)
  o_newsocket : option nat;        (* Options.NewSocket *)
  o_codec : option nat;            (* Options.Codec *)
  o_newcodec : option nat;         (* Options.NewCodec *)
  o_header : option nat;           (* Options.HeaderEncoder *)
  o_newheader : option nat;        (* Options.NewHeaderEncoder *)
  o_bufsize : Z                    (* Options.ClientBufferSize / the server's buffer size *)
}.

(* the registries: which names are registered (RegisterSocket / RegisterCodec / RegisterHeaderEncoder) *)
Record registry := { r_socket : nat -> bool; r_codec : nat -> bool; r_header : nat -> bool }.

(* "if f := Lookup(name); f != nil { use it } else if opts.New != nil { use that }" *)
Definition pick (reg : nat -> bool) (name fn : option nat) : option comp :=
  match name with
  | Some n => if reg n then Some (Named n)
              else match fn with Some k => Some (Func k) | None => None end
  | None => match fn with Some k => Some (Func k) | None => None end
  end.

Inductive outcome :=
| Rejected                          (* the early "need opts..." errors *)
| Resolved (sock : option comp) (body : option comp) (header : option comp) (buf : Z).

Definition is_some {A} (o : option A) : bool := match o with Some _ => true | None => false end.

(* NewClientCodec / NewServerCodec: a nil body codec defaults to the header encoder's codec; no codec at all
   means no codec object (nil); a write buffer size below 1 becomes the default *)
Definition codec_defaulting (body header : option comp) : option (option comp * option comp) :=
  match body, header with
  | Some b, h => Some (Some b, h)
  | None, Some (Named n) => Some (Some (Named n), Some (Named n))   (* headerEncoder.NewCodec() *)
  | None, Some (Func k) => Some (Some (Func k), Some (Func k))
  | None, None => None
  end.

Definition norm_buf (default b : Z) : Z := if Z.ltb b 1 then default else b.

(* dialer.go: DialWithOptions *)
Definition resolve_dial (reg : registry) (o : options) : outcome :=
  if negb (is_some (o_newcodec o)) && negb (is_some (o_newheader o)) && negb (is_some (o_codec o)) then Rejected
  else if negb (is_some (o_newsocket o)) && negb (is_some (o_network o)) then Rejected
  else
    let sock := pick (r_socket reg) (o_network o) (o_newsocket o) in
    let body := pick (r_codec reg) (o_codec o) (o_newcodec o) in
    let header := pick (r_header reg) (o_header o) (o_newheader o) in
    Resolved sock body header (o_bufsize o).

(* server.go: ListenWithOptions *)
Definition resolve_listen (reg : registry) (o : options) : outcome :=
  if negb (is_some (o_newcodec o)) && negb (is_some (o_newheader o)) && negb (is_some (o_codec o)) then Rejected
  else if negb (is_some (o_newsocket o)) && negb (is_some (o_network o)) then Rejected
  else
    let sock := match o_network o with
                | Some n => if r_socket reg n then Some (Named n)
                            else match o_newsocket o with Some k => Some (Func k) | None => None end
                | None => match o_newsocket o with Some k => Some (Func k) | None => None end
                end in
    let body := match o_codec o with
                | Some n => if r_codec reg n then Some (Named n)
                            else match o_newcodec o with Some k => Some (Func k) | None => None end
                | None => match o_newcodec o with Some k => Some (Func k) | None => None end
                end in
    let header := match o_header o with
                  | Some n => if r_header reg n then Some (Named n)
                              else match o_newheader o with Some k => Some (Func k) | None => None end
                  | None => match o_newheader o with Some k => Some (Func k) | None => None end
                  end in
    Resolved sock body header (o_bufsize o).

(* both ends resolve the same Options to the same components: a registered name wins over a
   constructor function, identically *)
Theorem resolution_agrees reg o : resolve_dial reg o = resolve_listen reg o.
Proof.
  unfold resolve_dial, resolve_listen, pick.
  destruct (negb (is_some (o_newcodec o)) && negb (is_some (o_newheader o)) && negb (is_some (o_codec o))); [reflexivity|].
  destruct (negb (is_some (o_newsocket o)) && negb (is_some (o_network o))); reflexivity.
Qed.

Theorem name_wins reg name fn n : name = Some n -> reg n = true -> pick reg name fn = Some (Named n).
Proof. intros -> H. unfold pick. rewrite H. reflexivity. Qed.

Theorem function_fallback reg name fn k : (forall n, name = Some n -> reg n = false) -> fn = Some k ->
  pick reg name fn = Some (Func k).
Proof.
  intros H ->. unfold pick. destruct name as [n|]; [rewrite (H n eq_refl)|]; reflexivity.
Qed.

(* the codec pair both ends build from the same resolution is the same, and the body codec defaults to
   the header encoder's own codec when none is given *)
Theorem codec_defaulting_deterministic body header :
  match codec_defaulting body header with
  | Some (Some b, h) => h = header /\ (body = Some b \/ (body = None /\ header = Some b))
  | Some (None, _) => False
  | None => body = None /\ header = None
  end.
Proof. destruct body as [b|], header as [[n|k]|]; simpl; auto. Qed.

(* ---- checkBuffer (codec.go): reuse when the capacity suffices, otherwise allocate ---- *)
Definition check_buffer {A} (zero : A) (buf : list A) (n : nat) : list A :=
  if Nat.leb n (length buf) then firstn n buf else repeat zero n.

Theorem check_buffer_length {A} (zero : A) buf n : length (check_buffer zero buf n) = n.
Proof.
  unfold check_buffer. destruct (Nat.leb_spec n (length buf)).
  - rewrite firstn_length. lia.
  - apply repeat_length.
Qed.

Theorem check_buffer_reuses {A} (zero : A) buf n : n <= length buf -> check_buffer zero buf n = firstn n buf.
Proof. intros H. unfold check_buffer. destruct (Nat.leb_spec n (length buf)); [reflexivity|lia]. Qed.

Example resolution_example :
  let reg := {| r_socket := fun n => Nat.eqb n 1; r_codec := fun n => Nat.eqb n 2; r_header := fun n => Nat.eqb n 3 |} in
  resolve_dial reg {| o_network := Some 1; o_newsocket := Some 7; o_codec := Some 9; o_newcodec := Some 8;
                      o_header := None; o_newheader := None; o_bufsize := 0 |}
  = Resolved (Some (Named 1)) (Some (Func 8)) None 0.
Proof. reflexivity. Qed.
