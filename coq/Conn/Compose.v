(* Conn/Compose.v — C01 end to end: the client connection machine composed with
   an honest peer.

   Conn/Own.v proves [own_reply] under the hypothesis [honest_run'], which
   ASSUMES of every arriving frame that it is [honest] and [answered_only].
   Here that hypothesis is discharged: the peer is given as a rule
   ([peer_may_send]: what a server behind a reliable ordered byte pipe may
   deliver at a given moment — a response to a request that was issued, and a
   success response carries the reply computed for that request), a run of the
   composition is a run of the connection machine in which every arriving
   frame obeys the rule at the moment it arrives ([peer_run]), and the
   invariant of the connection machine (sequence numbers are below the counter
   and pairwise distinct, [NInv]) turns the rule into the two assumptions of
   Own.v.  The result, [end_to_end_own_reply], has no hypothesis on the trace
   other than that the peer follows its rule (and [short], no 2^64 wrap). *)
From stdpp Require Import gmap.
From RPC Require Import Res.
From RPC.Conn Require Import Model InvLemmas Inv Own.
Open Scope N_scope.

Section Compose.
  (* the reply the server computes for call c (from c's own method and arguments) *)
  Variable expected : nat -> bytes.

  (* ---------------------------------------------------------------- *)
  (* 1. the peer rule                                                  *)
  (* ---------------------------------------------------------------- *)
  (* An honest peer never sends an undecodable header.  A response with number q answers a
     request that was issued under q: some call holds the number q (the number is assigned
     in ASend, before the write, so this is more permissive than "the request's bytes were
     written" — which makes the theorem stronger); and a success response carries the reply
     computed for that request.  An error response (e <> []) may carry any body. *)
  Definition peer_may_send (s : st) (f : frame) : Prop :=
    match f with
    | FBad => False
    | FResp q e body ok =>
        exists c k, s_calls s !! c = Some k /\ k_q k = Some q /\ (e = [] -> body = expected c)
    end.

  (* ---------------------------------------------------------------- *)
  (* 2. runs of the composition                                        *)
  (* ---------------------------------------------------------------- *)
  (* exactly [honest_run'] with the peer rule in place of the two assumptions *)
  Fixpoint peer_run (cf : cfg) (tr : list action) (s : st) : Prop :=
    match tr with
    | [] => True
    | a :: tr' =>
        (match a with AArrive f => peer_may_send s f | _ => True end) /\
        match step current cf s a with
        | Some s' => peer_run cf tr' s'
        | None => True
        end
    end.

  (* ---------------------------------------------------------------- *)
  (* 3. the rule gives the assumptions of Own.v                        *)
  (* ---------------------------------------------------------------- *)
  (* in one state: numbers are unique among ALL calls that hold one ([n_qinj]), so the call
     [honest] quantifies over is the peer's; and every assigned number is below the counter
     ([n_qlt]) *)
  Lemma peer_may_send_honest s f : NInv s -> peer_may_send s f ->
    honest expected s f /\ answered_only s f.
  Proof.
    intros NI H. destruct f as [|q e body ok]; [contradiction|].
    destruct H as (c & k & Hc & Hq & Hb). split.
    - intros c' k' Hc' Hq' He.
      assert (c' = c) as -> by (eapply (n_qinj _ NI); eauto).
      auto.
    - simpl. eapply (n_qlt _ NI); eauto.
  Qed.

  Lemma peer_run_honest_gen cf tr s n :
    WInv cf s -> NInv s -> s_seq s <= n -> n + N.of_nat (length tr) < 2^64 ->
    peer_run cf tr s -> honest_run' expected cf tr s.
  Proof.
    revert s n. induction tr as [|a tr IH]; intros s n W NI Hn Hb H; simpl; [exact I|].
    simpl in H. destruct H as [Ha H]. split.
    - destruct a; try exact I. apply peer_may_send_honest; assumption.
    - destruct (step current cf s a) as [s1|] eqn:E; [|exact I].
      destruct (step_good _ _ _ _ W E) as (W1 & _ & St).
      simpl length in Hb. rewrite Nat2N.inj_succ in Hb.
      destruct (St n NI Hn) as (NI1 & Hn1); [lia|].
      apply (IH s1 (n + 1)); [exact W1|exact NI1|exact Hn1|lia|exact H].
  Qed.

  (* from any reachable state, as long as the counter cannot wrap during [tr] *)
  Lemma peer_run_honest cf tr s :
    reachable cf s -> s_seq s + N.of_nat (length tr) < 2^64 ->
    peer_run cf tr s -> honest_run' expected cf tr s.
  Proof.
    intros R Hb. destruct (reach_WN _ _ R) as [W NI].
    apply (peer_run_honest_gen cf tr s (s_seq s)); [exact W|exact NI|lia|exact Hb].
  Qed.

  Lemma peer_run_honest_init cf tr : short tr -> peer_run cf tr init -> honest_run' expected cf tr init.
  Proof.
    intros Hs. apply (peer_run_honest_gen cf tr init 0);
      [apply init_W|apply init_N|simpl; lia|unfold short in Hs; lia].
  Qed.

  (* ---------------------------------------------------------------- *)
  (* 4. end to end                                                     *)
  (* ---------------------------------------------------------------- *)
  (* the connection talking to a peer that follows its rule: every call that holds a reply
     holds its own — however many calls are outstanding, in whatever order the peer answers,
     and whatever else (write errors, Close, read errors, contexts) races with them *)
  Theorem end_to_end_own_reply cf tr s :
    short tr -> run current cf tr init = Some s -> peer_run cf tr init ->
    forall c k b, s_calls s !! c = Some k -> k_reply k = Some b -> b = expected c.
  Proof.
    intros Hs Hr Hp. apply (own_reply expected cf tr s Hs Hr).
    apply peer_run_honest_init; assumption.
  Qed.

  (* with [ok_has_reply]: a call completed on the success path holds exactly its own reply *)
  Corollary end_to_end_ok_own_reply cf tr s c k :
    short tr -> run current cf tr init = Some s -> peer_run cf tr init ->
    s_calls s !! c = Some k -> k_ok k = true -> k_kind k <> KPing -> k_reply k = Some (expected c).
  Proof.
    intros Hs Hr Hp Hc Hok Hk.
    destruct (ok_has_reply cf s c k) as [b Hb]; [exists tr; split; assumption|assumption..|].
    rewrite Hb. f_equal. eapply end_to_end_own_reply; eauto.
  Qed.
End Compose.

Print Assumptions peer_run_honest.
Print Assumptions end_to_end_own_reply.
Print Assumptions end_to_end_ok_own_reply.

(* ------------------------------------------------------------------ *)
(* 5. the hypothesis is satisfiable: two pipelined calls, answered out  *)
(*    of order (the second first), decoded in arrival order, finished   *)
(*    out of order again; each ends with its own reply                  *)
(* ------------------------------------------------------------------ *)
Definition ex_expected (c : nat) : bytes := [10 + N.of_nat c].
Definition ex_trace : list action :=
  [AStart 0 KGo; AStart 1 KGo; ASend 0; ASend 1; AWriteRet 0 None; AWriteRet 1 None;
   AArrive (FResp 1 [] [11] true); AArrive (FResp 0 [] [10] true);
   APickup; ADecode; APickup; ADecode; AFinish 1; AFinish 0; ARecv 0; ARecv 1].

(* run the machine (by computation) up to the next arriving frame *)
Ltac peer_steps :=
  repeat match goal with
         | |- True => exact I
         | |- True /\ _ => split; [exact I|]
         | |- match ?x with Some _ => _ | None => _ end =>
             let y := eval vm_compute in x in change x with y; cbv beta iota
         end.
(* the arriving frame answers call c *)
Ltac peer_answers c :=
  exists c; eexists; split; [vm_compute; reflexivity|]; split; [reflexivity|]; intros _; reflexivity.

Example peer_run_out_of_order :
  short ex_trace /\ peer_run ex_expected cfg_async ex_trace init /\
  exists s, run current cfg_async ex_trace init = Some s /\
    reply_of s 0 = Some (ex_expected 0) /\ reply_of s 1 = Some (ex_expected 1) /\
    sig_of s 0 = 1%nat /\ sig_of s 1 = 1%nat /\ err_of s 0 = None /\ err_of s 1 = None /\
    s_sigs s = [0; 1]%nat.
Proof.
  split; [vm_compute; reflexivity|]. split.
  - unfold ex_trace. cbn [peer_run]. peer_steps.
    (* number 1 is held by call 1 *)
    split; [peer_answers 1%nat|]. peer_steps.
    (* number 0 is held by call 0 *)
    split; [peer_answers 0%nat|]. peer_steps.
  - eexists. split; [vm_compute; reflexivity|]. vm_compute. repeat split.
Qed.

(* the general theorem applies to it *)
Example peer_run_out_of_order_by_theorem s c k b :
  run current cfg_async ex_trace init = Some s ->
  s_calls s !! c = Some k -> k_reply k = Some b -> b = ex_expected c.
Proof.
  intros Hr. destruct peer_run_out_of_order as (Hs & Hp & _).
  exact (end_to_end_own_reply ex_expected cfg_async ex_trace s Hs Hr Hp c k b).
Qed.

(* ------------------------------------------------------------------ *)
(* 6. the rule is needed: one frame that breaks it — a success response *)
(*    for number 0 carrying call 1's reply, both requests written —     *)
(*    and call 0 ends with a reply that is not its own                  *)
(* ------------------------------------------------------------------ *)
Definition ex_prefix : list action :=
  [AStart 0 KGo; AStart 1 KGo; ASend 0; ASend 1; AWriteRet 0 None; AWriteRet 1 None].
Definition ex_bad_frame : frame := FResp 0 [] (ex_expected 1) true.
Definition ex_bad_trace : list action :=
  ex_prefix ++ [AArrive ex_bad_frame; APickup; ADecode; AFinish 0].

Example own_reply_false_without_peer_rule :
  (exists s1, run current cfg_async ex_prefix init = Some s1 /\
     ~ peer_may_send ex_expected s1 ex_bad_frame /\
     (* ... although the frame does answer an issued request (so [answered_only] holds):
        it is exactly the clause "carries the reply computed for that request" that fails *)
     answered_only s1 ex_bad_frame /\
     (exists k, s_calls s1 !! 0%nat = Some k /\ k_q k = Some 0)) /\
  short ex_bad_trace /\
  ~ peer_run ex_expected cfg_async ex_bad_trace init /\
  exists s k, run current cfg_async ex_bad_trace init = Some s /\ s_calls s !! 0%nat = Some k /\
    k_ok k = true /\ k_reply k = Some (ex_expected 1) /\ ex_expected 1 <> ex_expected 0.
Proof.
  assert (P : exists s1, run current cfg_async ex_prefix init = Some s1 /\
     ~ peer_may_send ex_expected s1 ex_bad_frame /\ answered_only s1 ex_bad_frame /\
     (exists k, s_calls s1 !! 0%nat = Some k /\ k_q k = Some 0)).
  { eexists. split; [vm_compute; reflexivity|].
    match goal with |- ~ peer_may_send _ ?s _ /\ _ => set (s1 := s) end.
    assert (R : reachable cfg_async s1).
    { exists ex_prefix. split; vm_compute; reflexivity. }
    assert (H0 : exists k, s_calls s1 !! 0%nat = Some k /\ k_q k = Some 0).
    { eexists. split; vm_compute; reflexivity. }
    split; [|split; [vm_compute; reflexivity|exact H0]].
    intros (c & k & Hc & Hq & Hb). destruct H0 as (k0 & Hc0 & Hq0).
    assert (c = 0%nat) as -> by (eapply (registered_number_unique cfg_async s1); eauto).
    specialize (Hb eq_refl). discriminate Hb. }
  split; [exact P|]. split; [vm_compute; reflexivity|]. split.
  - destruct P as (s1 & Hr & Hn & _). intros H. apply Hn. clear Hn.
    revert H. unfold ex_bad_trace.
    assert (G : forall tr1 tr2 s, peer_run ex_expected cfg_async (tr1 ++ tr2) s ->
              forall s', run current cfg_async tr1 s = Some s' -> peer_run ex_expected cfg_async tr2 s').
    { induction tr1 as [|a tr1 IH]; intros tr2 s H s' E; simpl in *.
      - injection E as <-. exact H.
      - destruct H as [_ H]. destruct (step current cfg_async s a) as [s2|]; [|discriminate].
        eapply IH; eauto. }
    intros H. pose proof (G _ _ _ H _ Hr) as H1. simpl in H1. tauto.
  - eexists. eexists. split; [vm_compute; reflexivity|]. split; [vm_compute; reflexivity|].
    split; [reflexivity|]. split; [reflexivity|]. vm_compute. discriminate.
Qed.
