(* Conn/Own.v — C01 on the client connection machine: if every response frame
   the peer sends for sequence number q carries the reply computed for the
   call that was registered under q (what an honest server does: it echoes
   the request's number, see Server/ and the wire round trips), then every
   call that completes without error holds exactly its own reply — however
   many calls are outstanding, in whatever order the frames arrive, are
   decoded and finished, and whatever else races with them. *)
From stdpp Require Import gmap.
From RPC Require Import Res.
From RPC.Conn Require Import Model InvLemmas Inv.
Open Scope N_scope.

(* ------------------------------------------------------------------ *)
(* what one action does to the fields this file talks about            *)
(* ------------------------------------------------------------------ *)
(* the record of a call keeps kind / number / reply / success flag *)
Definition keeps (k k' : call) : Prop :=
  k_kind k' = k_kind k /\ k_q k' = k_q k /\ k_reply k' = k_reply k /\ k_ok k' = k_ok k.

Inductive origin (s : st) (c : nat) (k' : call) : Prop :=
| o_keep k : s_calls s !! c = Some k -> keeps k k' -> origin s c k'
| o_fresh : k_q k' = None -> k_reply k' = None -> k_ok k' = false -> origin s c k'
| o_reg k : s_calls s !! c = Some k -> k_kind k' = k_kind k -> k_q k' = Some (s_seq s) ->
    k_reply k' = k_reply k -> k_ok k' = k_ok k -> origin s c k'
| o_fin k body ok : s_calls s !! c = Some k -> FinReply c body ok ∈ s_finq s ->
    k_kind k' = k_kind k -> k_q k' = k_q k -> k_reply k' = Some body -> origin s c k'
| o_ping k : s_calls s !! c = Some k -> k_kind k' = KPing -> k_q k' = k_q k ->
    k_reply k' = k_reply k -> origin s c k'.

Lemma keeps_refl k : keeps k k. Proof. repeat split. Qed.

Ltac look Hc :=
  autorewrite with calls in Hc; rewrite <- ?alter_compose in Hc;
  first [ apply lookup_alter_Some in Hc as [[<- (?k & ?Hk & ->)]|[?N ?Hk]]
        | apply lookup_insert_Some in Hc as [[<- <-]|[?N ?Hk]]
        | idtac ].
Ltac keep_tac := solve [eapply o_keep; [eassumption | repeat split; reflexivity]].
Ltac lk Hc := look Hc; try keep_tac.

Lemma step_origin cf s a s' c k' : WInv cf s -> step current cf s a = Some s' ->
  s_calls s' !! c = Some k' -> origin s c k'.
Proof.
  intros W H Hc. destruct a; unfold step in H.
  - (* AStart *)
    destruct (s_calls s !! c0) eqn:Hc0; [discriminate|].
    destruct (pipelining cf); simplify_eq; lk Hc. all: apply o_fresh; reflexivity.
  - (* ASend *)
    destruct (s_calls s !! c0) as [k|] eqn:Hc0; [|discriminate].
    destruct (k_wpc k) eqn:Hw; try discriminate.
    match type of H with (if negb ?e then _ else _) = _ => destruct e; [|discriminate] end.
    step_simpl H.
    destruct (s_shutdown s || s_closing s); destruct (pipelining cf); simplify_eq; lk Hc.
    all: eapply o_reg; [eassumption|reflexivity..].
  - (* AWriteRet *)
    destruct (s_calls s !! c0) as [k|] eqn:Hc0; [|discriminate].
    destruct (k_wpc k) as [|q|] eqn:Hw; try discriminate.
    step_simpl H.
    destruct r as [e|]; [destruct (bool_decide (s_pending s !! q = Some c0))|];
      destruct (pipelining cf); simplify_eq; lk Hc.
  - (* AArrive *)
    repeat case_match; simplify_eq. all: lk Hc.
  - (* APickup *)
    repeat case_match; simplify_eq. all: lk Hc.
  - (* ADecode *)
    destruct (s_decq s) as [|f rest] eqn:Hd; [discriminate|].
    destruct (s_held s) eqn:Hh; [|discriminate].
    step_simpl H.
    destruct f as [|q e body bodyok]; [simplify_eq; lk Hc|].
    destruct (s_shutdown s); [simplify_eq; lk Hc|].
    destruct (s_pending s !! q) as [c0|] eqn:Hp; [|simplify_eq; lk Hc].
    destruct (s_calls s !! c0) as [k|] eqn:Hc0; [|simplify_eq; lk Hc].
    destruct (negb (beqb e [])).
    + destruct (pipelining cf); simplify_eq; lk Hc.
    + destruct (k_kind k) eqn:Hkd; simplify_eq; lk Hc.
      eapply o_ping; [eassumption|simpl; congruence..].
  - (* AFinish *)
    match type of H with (if ?b then _ else _) = _ => destruct b; [discriminate|] end.
    destruct (s_finq s !! i) as [t|] eqn:Hi; [|discriminate].
    assert (Ht : t ∈ s_finq s) by (eapply elem_of_list_lookup_2; eauto).
    destruct t as [c0 body bodyok|c0]; simplify_eq; lk Hc.
    eapply o_fin; [eassumption|exact Ht|reflexivity..].
  - (* AReadErr *)
    repeat case_match; simplify_eq. all: lk Hc.
  - (* ASweep *)
    destruct (s_rd s) as [|e|] eqn:Hrd; try discriminate.
    step_simpl H.
    match type of H with (if ?b then _ else _) = _ => destruct b eqn:Hb; [discriminate|] end.
    assert (PI : pinj (set_shutdown s)).
    { intros q1 q2 c0. simpl. eapply pend_inj; eauto. }
    destruct (sweep_spec e _ PI) as (S1 & S2 & S3 & _).
    simplify_eq. simpl in Hc.
    destruct (decide (swept (set_shutdown s) c)) as [Y|N].
    + rewrite (S2 _ Y) in Hc. simpl in Hc. destruct (s_calls s !! c) as [k|] eqn:Hc0; [|discriminate].
      simpl in Hc. simplify_eq. keep_tac.
    + rewrite (S3 _ N) in Hc. simpl in Hc. keep_tac.
  - (* AClose *)
    repeat case_match; simplify_eq. all: lk Hc.
  - (* ACtxDone *)
    destruct (s_calls s !! c0) as [k|] eqn:Hc0; [|discriminate].
    destruct (k_kind k) eqn:Hkd; try discriminate.
    repeat case_match; simplify_eq. all: lk Hc.
  - (* ARecv *)
    destruct (s_calls s !! c0) as [k|] eqn:Hc0; [|discriminate].
    repeat case_match; simplify_eq. all: lk Hc.
Qed.

Lemma sweep_fields cf s e : WInv cf s ->
  s_seq (sweep current e (set_shutdown s)) = s_seq s /\
  s_decq (sweep current e (set_shutdown s)) = s_decq s /\
  s_finq (sweep current e (set_shutdown s)) = s_finq s.
Proof.
  intros W.
  assert (PI : pinj (set_shutdown s)).
  { intros q1 q2 c0. simpl. eapply pend_inj; eauto. }
  destruct (sweep_spec e _ PI) as (S1 & S2 & S3 & S4 & S5 & S6 & S7 & _). auto.
Qed.

Lemma step_decq cf s a s' f : WInv cf s -> step current cf s a = Some s' ->
  f ∈ s_decq s' -> f ∈ s_decq s \/ a = AArrive f.
Proof.
  intros W H Hf. destruct a; unfold step in H.
  - repeat case_match; simplify_eq; simpl in Hf; auto.
  - repeat case_match; simplify_eq; simpl in Hf; auto.
  - repeat case_match; simplify_eq; simpl in Hf; auto.
  - destruct (s_rd s); try discriminate. case_match; [discriminate|]. simplify_eq. simpl in Hf.
    apply elem_of_app in Hf as [Hf|Hf]; [auto|]. apply elem_of_list_singleton in Hf. right; congruence.
  - destruct (s_decq s) as [|f1 rest] eqn:Hd; [discriminate|].
    repeat case_match; simplify_eq; simpl in Hf; rewrite ?Hd in Hf; auto; left; right; exact Hf.
  - destruct (s_decq s) as [|f1 rest] eqn:Hd; [discriminate|].
    assert (f ∈ s_decq s' -> f ∈ f1 :: rest \/ ADecode = AArrive f) as X; [|exact (X Hf)].
    clear Hf. repeat case_match; simplify_eq; simpl; intros Hf; left; right; exact Hf.
  - repeat case_match; simplify_eq; simpl in Hf; auto.
  - destruct (s_rd s); try discriminate. case_match; [discriminate|]. simplify_eq. simpl in Hf. auto.
  - destruct (s_rd s) as [|e|]; try discriminate. case_match; [discriminate|]. simplify_eq.
    simpl in Hf. destruct (sweep_fields cf s e W) as (_ & -> & _) in Hf. auto.
  - repeat case_match; simplify_eq; simpl in Hf; auto.
  - repeat case_match; simplify_eq; simpl in Hf; auto.
  - repeat case_match; simplify_eq; simpl in Hf; auto.
Qed.

Lemma step_seq cf s a s' : WInv cf s -> step current cf s a = Some s' ->
  s_seq s' = s_seq s \/ s_seq s' = (s_seq s + 1) mod 2^64.
Proof.
  intros W H. destruct a; unfold step in H.
  9: { destruct (s_rd s) as [|e|]; try discriminate. case_match; [discriminate|]. simplify_eq.
       simpl. destruct (sweep_fields cf s e W) as (-> & _). auto. }
  all: repeat case_match; simplify_eq; simpl; auto.
Qed.

Lemma step_finq cf s a s' c body ok : WInv cf s -> step current cf s a = Some s' ->
  FinReply c body ok ∈ s_finq s' ->
  FinReply c body ok ∈ s_finq s \/
  exists q rest, s_decq s = FResp q [] body ok :: rest /\ s_pending s !! q = Some c.
Proof.
  intros W H Hf.
  assert (E : s_finq s' = s_finq s -> FinReply c body ok ∈ s_finq s) by (intros <-; exact Hf).
  destruct a; unfold step in H.
  9: { destruct (s_rd s) as [|e|]; try discriminate. case_match; [discriminate|]. simplify_eq.
       simpl in Hf. destruct (sweep_fields cf s e W) as (_ & _ & ->) in Hf. auto. }
  7: { case_match; [discriminate|]. destruct (s_finq s !! i) as [t|] eqn:Hi; [|discriminate].
       destruct (remove_nth_facts fin_call _ _ _ Hi (w_nodup _ _ W)) as (R1 & R2 & R3).
       left. destruct t; simplify_eq; simpl in Hf; apply R2 in Hf; tauto. }
  6: { clear E. destruct (s_decq s) as [|f rest] eqn:Hd; [discriminate|].
       destruct (s_held s) eqn:Hh; [|discriminate].
       step_simpl H.
       destruct f as [|q e body0 bodyok]; [simplify_eq; auto|].
       destruct (s_shutdown s); [simplify_eq; auto|].
       destruct (s_pending s !! q) as [c0|] eqn:Hp; [|simplify_eq; auto].
       destruct (s_calls s !! c0) as [k|] eqn:Hc0; [|simplify_eq; auto].
       destruct (negb (beqb e [])) eqn:He.
       - destruct (pipelining cf); simplify_eq; simpl in Hf; auto.
         apply elem_of_app in Hf as [Hf|Hf]; [auto|]. apply elem_of_list_singleton in Hf. discriminate.
       - apply negb_false_iff in He. unfold beqb in He. apply bool_decide_eq_true in He. subst e.
         destruct (k_kind k) eqn:Hkd; simplify_eq; simpl in Hf; auto.
         all: apply elem_of_app in Hf as [Hf|Hf]; [auto|]; apply elem_of_list_singleton in Hf;
           simplify_eq; right; eauto. }
  all: left; apply E; clear E Hf; repeat case_match; simplify_eq; simpl; congruence.
Qed.

(* ------------------------------------------------------------------ *)
(* a success flag on a non-ping call comes with a reply                *)
(* ------------------------------------------------------------------ *)
Definition OkInv (s : st) : Prop :=
  forall c k, s_calls s !! c = Some k -> k_ok k = true -> k_kind k = KPing \/ k_reply k <> None.

Lemma step_Ok cf s a s' : WInv cf s -> OkInv s -> step current cf s a = Some s' -> OkInv s'.
Proof.
  intros W I H c k' Hc Hok.
  destruct (step_origin _ _ _ _ _ _ W H Hc) as
    [k Hk (E1 & E2 & E3 & E4)| E1 E2 E3 | k Hk E1 E2 E3 E4 | k body ok Hk Ht E1 E2 E3 | k Hk E1 E2 E3].
  - rewrite E1, E3. apply (I _ _ Hk). congruence.
  - congruence.
  - rewrite E1, E3. apply (I _ _ Hk). congruence.
  - right. congruence.
  - left. exact E1.
Qed.

Lemma run_Ok cf tr s s' : WInv cf s -> OkInv s -> run current cf tr s = Some s' -> OkInv s'.
Proof.
  revert s. induction tr as [|a tr IH]; intros s W I H; simpl in H.
  - injection H as <-. exact I.
  - destruct (step current cf s a) as [s1|] eqn:E; [|discriminate].
    destruct (step_good _ _ _ _ W E) as (W1 & _ & _).
    eapply IH; [exact W1| |exact H]. exact (step_Ok _ _ _ _ W I E).
Qed.

Lemma init_Ok : OkInv init.
Proof. intros c k H. simpl in H. rewrite lookup_empty in H. discriminate. Qed.

Section Own.
  (* the reply the server computes for call c (from c's own method and arguments) *)
  Variable expected : nat -> bytes.

  (* a frame is honest in state s when, if it is a success response carrying number q, its body is
     the reply of the call registered under q *)
  Definition honest (s : st) (f : frame) : Prop :=
    match f with
    | FBad => True
    | FResp q e body ok =>
        forall c k, s_calls s !! c = Some k -> k_q k = Some q -> e = [] -> body = expected c
    end.

  (* a run all of whose arriving frames are honest at the time they arrive *)
  Fixpoint honest_run (cf : cfg) (tr : list action) (s : st) : Prop :=
    match tr with
    | [] => True
    | a :: tr' =>
        (match a with AArrive f => honest s f | _ => True end) /\
        match step current cf s a with
        | Some s' => honest_run cf tr' s'
        | None => True
        end
    end.

  (* NEW (see STATEMENT CHANGED at [own_reply]): a server only answers requests it has
     received, so a response frame carries a number that has already been assigned *)
  Definition answered_only (s : st) (f : frame) : Prop :=
    match f with FResp q _ _ _ => q < s_seq s | FBad => True end.

  Fixpoint honest_run' (cf : cfg) (tr : list action) (s : st) : Prop :=
    match tr with
    | [] => True
    | a :: tr' =>
        (match a with AArrive f => honest s f /\ answered_only s f | _ => True end) /\
        match step current cf s a with
        | Some s' => honest_run' cf tr' s'
        | None => True
        end
    end.

  Lemma honest_run'_honest_run cf tr s : honest_run' cf tr s -> honest_run cf tr s.
  Proof.
    revert s. induction tr as [|a tr IH]; intros s; simpl; [auto|]. intros [H1 H2]. split.
    - destruct a; tauto.
    - destruct (step current cf s a); auto.
  Qed.

  (* whatever is in flight towards a call carries that call's reply
     (first clause strengthened by [answered_only]: without it the clause is not inductive,
     an ASend could register a call under the number of a frame already queued) *)
  Definition OwnInv (s : st) : Prop :=
    (forall f, f ∈ s_decq s -> honest s f /\ answered_only s f) /\
    (forall c body ok, FinReply c body ok ∈ s_finq s -> body = expected c) /\
    (forall c k b, s_calls s !! c = Some k -> k_reply k = Some b -> b = expected c).

  (* an honest frame for an assigned number stays honest *)
  Lemma frame_pres cf s a s' f n :
    WInv cf s -> s_seq s <= n -> n + 1 < 2^64 -> step current cf s a = Some s' ->
    honest s f /\ answered_only s f -> honest s' f /\ answered_only s' f.
  Proof.
    intros W Hn Hn2 H [Hh Ha]. destruct f as [|q e body ok]; [split; exact I|]. simpl in *.
    assert (Hs : s_seq s <= s_seq s').
    { destruct (step_seq _ _ _ _ W H) as [-> | ->]; [lia|]. rewrite (mod_small_64 _ _ Hn Hn2). lia. }
    split; [|lia].
    intros c k' Hc Hq He.
    destruct (step_origin _ _ _ _ _ _ W H Hc) as
      [k Hk (E1 & E2 & E3 & E4)| E1 E2 E3 | k Hk E1 E2 E3 E4 | k body0 ok0 Hk Ht E1 E2 E3 | k Hk E1 E2 E3].
    - eapply Hh; eauto. congruence.
    - congruence.
    - rewrite E2 in Hq. injection Hq as <-. lia.
    - eapply Hh; eauto. congruence.
    - eapply Hh; eauto. congruence.
  Qed.

  Lemma step_Own cf s a s' n :
    WInv cf s -> s_seq s <= n -> n + 1 < 2^64 -> OwnInv s ->
    (match a with AArrive f => honest s f /\ answered_only s f | _ => True end) ->
    step current cf s a = Some s' -> OwnInv s'.
  Proof.
    intros W Hn Hn2 (O1 & O2 & O3) Ha H. split; [|split].
    - intros f Hf. eapply frame_pres; eauto.
      destruct (step_decq _ _ _ _ _ W H Hf) as [Hf0 | ->]; [apply O1; exact Hf0|exact Ha].
    - intros c body ok Ht.
      destruct (step_finq _ _ _ _ _ _ _ W H Ht) as [Ht0|(q & rest & Hd & Hp)]; [eapply O2; eauto|].
      destruct (w_pend _ _ W _ _ Hp) as (k & Hc & Hl).
      pose proof (ck_locq _ _ (w_call _ _ W _ _ Hc) Hl) as Hq.
      destruct (O1 (FResp q [] body ok)) as [Hh _]; [rewrite Hd; left|].
      eapply Hh; eauto.
    - intros c k' b Hc Hb.
      destruct (step_origin _ _ _ _ _ _ W H Hc) as
        [k Hk (E1 & E2 & E3 & E4)| E1 E2 E3 | k Hk E1 E2 E3 E4 | k body0 ok0 Hk Ht E1 E2 E3 | k Hk E1 E2 E3].
      + eapply O3; eauto. congruence.
      + congruence.
      + eapply O3; eauto. congruence.
      + assert (b = body0) by congruence. subst. eapply O2; eauto.
      + eapply O3; eauto. congruence.
  Qed.

  Lemma run_Own cf tr s s' n :
    WInv cf s -> NInv s -> s_seq s <= n -> n + N.of_nat (length tr) < 2^64 ->
    OwnInv s -> honest_run' cf tr s -> run current cf tr s = Some s' -> OwnInv s'.
  Proof.
    revert s n. induction tr as [|a tr IH]; intros s n W NI Hn Hb O Hh H; simpl in H.
    - injection H as <-. exact O.
    - simpl in Hh. destruct Hh as [Ha Hh].
      destruct (step current cf s a) as [s1|] eqn:E; [|discriminate].
      destruct (step_good _ _ _ _ W E) as (W1 & _ & St).
      simpl length in *. rewrite Nat2N.inj_succ in *.
      destruct (St n NI Hn) as (NI1 & Hn1); [lia|].
      rewrite ?E in Hh.
      apply (IH s1 (n + 1)); [exact W1|exact NI1|exact Hn1|lia| |exact Hh|exact H].
      apply (step_Own cf s a s1 n); [exact W|exact Hn|lia|exact O|exact Ha|exact E].
  Qed.

  Lemma init_Own : OwnInv init.
  Proof.
    split; [|split]; simpl.
    - intros f H. apply elem_of_nil in H. contradiction.
    - intros c body ok H. apply elem_of_nil in H. contradiction.
    - intros c k b H. rewrite lookup_empty in H. discriminate.
  Qed.

  (* STATEMENT CHANGED: the hypothesis [honest_run cf tr init] is replaced by the stronger
     [honest_run' cf tr init], which additionally requires of every arriving response frame
     that its number has already been assigned ([answered_only]: q < s_seq at arrival).
     With [honest_run] alone the statement is FALSE of the model: [honest s f] is vacuous for
     a number q that no call is registered under yet, so the peer may pre-send a success
     response for a future number with any body; the next ASend registers a call under exactly
     that number, and the stale frame is then decoded and completes it with the wrong body.
     Witness: [own_reply_false_without_answered_only] below (checked by vm_compute).
     A server only answers requests it has received, so honest peers satisfy the new side
     condition; [honest_run'_honest_run] shows the new hypothesis implies the old one. *)
  Theorem own_reply cf tr s :
    short tr -> run current cf tr init = Some s -> honest_run' cf tr init ->
    forall c k b, s_calls s !! c = Some k -> k_reply k = Some b -> b = expected c.
  Proof.
    intros Hs Hr Hh.
    assert (O : OwnInv s).
    { apply (run_Own cf tr init s 0);
        [apply init_W|apply init_N|simpl; lia|unfold short in Hs; lia|apply init_Own|exact Hh|exact Hr]. }
    apply O.
  Qed.

  (* and a call completed on the success path does hold a reply *)
  Theorem ok_has_reply cf s c k : reachable cf s -> s_calls s !! c = Some k -> k_ok k = true ->
    k_kind k <> KPing -> exists b, k_reply k = Some b.
  Proof.
    intros (tr & _ & Hr) Hc Hok Hk.
    destruct (run_Ok _ _ _ _ (init_W cf) init_Ok Hr _ _ Hc Hok) as [E|E]; [contradiction|].
    destruct (k_reply k) as [b|]; [eauto|congruence].
  Qed.
End Own.

(* the original statement of [own_reply] (hypothesis [honest_run]) fails: the peer sends a
   success response for number 0 with body [1] before any call exists (vacuously honest),
   call 0 is then registered under number 0, and the queued frame completes it with [1]
   although the reply computed for call 0 is []. *)
Example own_reply_false_without_answered_only :
  let expected := fun _ : nat => @nil N in
  let tr := [AArrive (FResp 0 [] [1] true); AStart 0 KGo; ASend 0; APickup; ADecode; AFinish 0] in
  short tr /\ honest_run expected cfg_async tr init /\
  exists s k, run current cfg_async tr init = Some s /\ s_calls s !! 0%nat = Some k /\
    k_reply k = Some [1] /\ [1] <> expected 0%nat.
Proof.
  split; [vm_compute; reflexivity|]. split.
  - vm_compute. repeat split. intros c k H. discriminate.
  - eexists. eexists. split; [vm_compute; reflexivity|]. split; [vm_compute; reflexivity|].
    split; [reflexivity|discriminate].
Qed.

(* sequence numbers: what makes "registered under q" unambiguous *)
Theorem registered_number_unique cf s c1 c2 k1 k2 q : reachable cf s ->
  s_calls s !! c1 = Some k1 -> s_calls s !! c2 = Some k2 -> k_q k1 = Some q -> k_q k2 = Some q -> c1 = c2.
Proof. intros R. apply (inv_q_inj _ _ (reachable_inv _ _ R)). Qed.

(* a response is handed to the call registered under its own number, and to nobody else *)
Theorem response_goes_to_its_call cf s s' q c e body ok rest : reachable cf s ->
  s_held s = true -> s_decq s = FResp q e body ok :: rest -> s_pending s !! q = Some c ->
  step current cf s ADecode = Some s' ->
  (exists k, s_calls s !! c = Some k /\ k_q k = Some q) /\
  (forall c', c' <> c -> s_calls s' !! c' = s_calls s !! c').
Proof.
  intros R Hh Hd Hp H. pose proof (reachable_inv _ _ R) as I.
  destruct (inv_pend_loc _ _ I _ _ Hp) as (k & Hc & Hl).
  split. { exists k. split; [exact Hc|]. eapply inv_loc_q; eauto. }
  unfold step in H. rewrite Hd, Hh, Hp, Hc in H. simpl negb in H. cbv iota zeta in H.
  intros c' N.
  repeat case_match; simplify_eq; autorewrite with calls; rewrite <- ?alter_compose;
    try reflexivity; apply lookup_alter_ne; congruence.
Qed.

Print Assumptions own_reply.
Print Assumptions ok_has_reply.
Print Assumptions registered_number_unique.
Print Assumptions response_goes_to_its_call.
