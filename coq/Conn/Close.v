(* Conn/Close.v — Conn.Close: the first call marks the connection closing and closes the codec,
   every later call reports ErrShutdown and changes nothing else. *)
From stdpp Require Import gmap.
From RPC Require Import Res.
From RPC.Conn Require Import Model.
Open Scope N_scope.

Theorem first_close v cf s : s_closing s = false ->
  exists s', step v cf s AClose = Some s' /\ s_closing s' = true /\ s_codec_closed s' = true /\
             s_close_ret s' = s_close_ret s ++ [true] /\
             s_pending s' = s_pending s /\ s_calls s' = s_calls s /\ s_decq s' = s_decq s /\ s_finq s' = s_finq s /\
             s_rd s' = s_rd s /\ s_shutdown s' = s_shutdown s.
Proof.
  intros H. unfold step. rewrite H. eexists. split; [reflexivity|]. cbn. repeat split; reflexivity.
Qed.

Theorem repeated_close v cf s : s_closing s = true ->
  exists s', step v cf s AClose = Some s' /\ s_close_ret s' = s_close_ret s ++ [false] /\
             s_closing s' = true /\ s_codec_closed s' = s_codec_closed s /\
             s_pending s' = s_pending s /\ s_calls s' = s_calls s /\ s_decq s' = s_decq s /\ s_finq s' = s_finq s /\
             s_rd s' = s_rd s /\ s_shutdown s' = s_shutdown s /\ s_seq s' = s_seq s /\ s_sigs s' = s_sigs s.
Proof.
  intros H. unfold step. rewrite H. eexists. split; [reflexivity|]. cbn. repeat split; try reflexivity. exact H.
Qed.

(* Close is always enabled *)
Theorem close_enabled v cf s : step v cf s AClose <> None.
Proof. unfold step. destruct (s_closing s); discriminate. Qed.
