(* Conn/Inv.v — the invariant of the client connection machine for the
   [current] code variant, and the lemmas the property files cite.
   No property statements here (see Props/C02.v, C03.v, C06.v, C19.v).

   The preservation proofs are in Conn/InvLemmas.v ([WInv], [NInv],
   [step_good], [run_W], [run_N]); this file packages them as [Inv] and
   derives the cited statements. *)
From stdpp Require Import gmap.
From RPC Require Import Res.
From RPC.Conn Require Import Model InvLemmas.
Open Scope N_scope.

Definition in_finq (c : nat) (t : fin_task) : Prop :=
  match t with FinReply c' _ _ => c' = c | FinDone c' => c' = c end.
(* [fin_call] is defined in Conn/InvLemmas.v *)

(* "the call is owed exactly one completion by exactly one place" *)
Record Inv (cf : cfg) (s : st) : Prop := {
  (* the pending table and the ghost location agree *)
  inv_pend_loc : forall q c, s_pending s !! q = Some c ->
      exists k, s_calls s !! c = Some k /\ k_loc k = LPending q;
  inv_loc_pend : forall c k q, s_calls s !! c = Some k -> k_loc k = LPending q -> s_pending s !! q = Some c;
  (* signals are counted by the ghost location *)
  inv_sig : forall c k, s_calls s !! c = Some k -> k_sig k = (match k_loc k with LDone => 1 | _ => 0 end)%nat;
  (* nothing is written to a call after its signal *)
  inv_late : forall c k, s_calls s !! c = Some k -> k_late k = 0%nat;
  (* completion tasks and the ghost location agree; one task per call *)
  inv_fin_loc : forall t, t ∈ s_finq s -> exists k, s_calls s !! fin_call t = Some k /\ k_loc k = LFinish;
  inv_loc_fin : forall c k, s_calls s !! c = Some k -> k_loc k = LFinish -> exists t, t ∈ s_finq s /\ fin_call t = c;
  inv_fin_nodup : NoDup (map fin_call (s_finq s));
  (* sequence numbers: registered ones are below the counter and pairwise distinct (no 2^64 wrap) *)
  inv_q_lt : forall c k q, s_calls s !! c = Some k -> k_q k = Some q -> q < s_seq s;
  inv_q_inj : forall c1 c2 k1 k2 q, s_calls s !! c1 = Some k1 -> s_calls s !! c2 = Some k2 ->
      k_q k1 = Some q -> k_q k2 = Some q -> c1 = c2;
  inv_wr_q : forall c k q, s_calls s !! c = Some k -> k_wpc k = WWriting q -> k_q k = Some q;
  inv_loc_q : forall c k q, s_calls s !! c = Some k -> k_loc k = LPending q -> k_q k = Some q;
  (* a fresh call has not been through send yet *)
  inv_fresh : forall c k, s_calls s !! c = Some k -> k_loc k = LFresh -> k_wpc k = WQueued;
  inv_queued : forall c k, s_calls s !! c = Some k -> k_wpc k = WQueued -> k_loc k = LFresh /\ k_q k = None;
  (* outcome of a completed call *)
  inv_outcome : forall c k, s_calls s !! c = Some k -> k_loc k = LDone -> k_err k <> None \/ k_ok k = true;
  (* recycled and received calls have been completed *)
  inv_recv : forall c k, s_calls s !! c = Some k -> (k_recv k <= k_sig k)%nat;
  inv_recycled : forall c k, s_calls s !! c = Some k -> k_recycled k = true -> k_loc k = LDone /\ k_abandoned k = false;
  (* the reader: shut down exactly after the sweep, which leaves nothing pending or queued for decoding *)
  inv_shutdown : s_shutdown s = true <-> s_rd s = RdDead;
  inv_dead : s_rd s = RdDead -> s_pending s = ∅ /\ s_decq s = [];
  (* ---- clauses added to make the invariant inductive ---- *)
  (* a recycled call has been received (so ACtxDone can no longer abandon it) *)
  inv_recycled_recv : forall c k, s_calls s !! c = Some k -> k_recycled k = true -> (0 < k_recv k)%nat;
  (* a queued call.done() of an error response finds the error already stored *)
  inv_fin_err : forall c, FinDone c ∈ s_finq s -> exists k, s_calls s !! c = Some k /\ k_err k <> None;
  (* directIO: the reader decodes in line, nothing is queued once it has failed *)
  inv_dio : directIO cf = true -> s_rd s <> RdAlive -> s_decq s = [];
  (* a frame that passed the codec's closed check is still at the head of the queue *)
  inv_held : s_held s = true -> s_decq s <> []
}.

Lemma Inv_of cf s : WInv cf s -> NInv s -> Inv cf s.
Proof.
  intros W NI. destruct (w_rd _ _ W) as (R1 & R2 & R3 & R4).
  constructor; try assumption; try apply NI; try apply W.
  - intros t H. destruct (w_fin _ _ W _ H) as (k & ? & ? & ?). eauto.
  - apply NoDup_ListNoDup. apply W.
  - intros c k q H. apply ck_wr. eapply W; eauto.
  - intros c k q H. apply ck_locq. eapply W; eauto.
  - intros c k H H2. destruct (ck_recycled k) as (? & ? & ?); eauto. eapply W; eauto.
  - intros c H. destruct (w_fin _ _ W _ H) as (k & ? & ? & ?). eauto.
Qed.

(* ====================================================================
   TARGET STATEMENTS (interface used by Props/C02.v, C03.v, C06.v, C19.v).
   [short tr] excludes the 2^64 wrap of the per-connection sequence
   counter: each action allocates at most one sequence number.
   ==================================================================== *)
Definition short (tr : list action) : Prop := N.of_nat (length tr) < 2^64.

Definition reachable (cf : cfg) (s : st) : Prop :=
  exists tr, short tr /\ run current cf tr init = Some s.

Lemma reach_WN cf s : reachable cf s -> WInv cf s /\ NInv s.
Proof.
  intros (tr & Hs & Hr). split.
  - eapply run_W; [apply init_W|exact Hr].
  - eapply (run_N cf tr init s 0); [apply init_W|apply init_N|simpl; lia| |exact Hr].
    unfold short in Hs. lia.
Qed.
Lemma reach_W cf s : reachable cf s -> WInv cf s.
Proof. intros H. apply reach_WN in H. tauto. Qed.
Lemma reach_call cf s c k : reachable cf s -> s_calls s !! c = Some k -> call_ok k.
Proof. intros H. apply reach_W in H. apply (w_call _ _ H). Qed.

Lemma sig1_done k : call_ok k -> k_sig k = 1%nat -> k_loc k = LDone.
Proof. intros H E. rewrite (ck_sig _ H) in E. destruct (k_loc k); congruence. Qed.

(* T0: the invariant holds in every reachable state *)
Theorem reachable_inv cf s : reachable cf s -> Inv cf s.
Proof. intros H. apply reach_WN in H as [W NI]. apply Inv_of; assumption. Qed.

(* ---- C02 ---- *)
Theorem at_most_once cf s c k : reachable cf s -> s_calls s !! c = Some k -> (k_sig k <= 1)%nat.
Proof.
  intros R H. rewrite (ck_sig _ (reach_call _ _ _ _ R H)). destruct (k_loc k); lia.
Qed.

Theorem no_late_write cf s c k : reachable cf s -> s_calls s !! c = Some k -> k_late k = 0%nat.
Proof. intros R H. apply ck_late. eapply reach_call; eauto. Qed.

(* once signalled, Error / reply / signal count never change again, whatever happens next *)
Theorem completion_stable cf s1 tr2 s2 c k1 :
  reachable cf s1 -> short tr2 -> run current cf tr2 s1 = Some s2 ->
  s_calls s1 !! c = Some k1 -> k_sig k1 = 1%nat ->
  exists k2, s_calls s2 !! c = Some k2 /\ k_sig k2 = 1%nat /\ k_err k2 = k_err k1 /\
             k_reply k2 = k_reply k1 /\ k_ok k2 = k_ok k1.
Proof.
  intros R _ Hr Hc Hs. pose proof (reach_W _ _ R) as W.
  destruct (run_W _ _ _ _ W Hr) as (_ & St).
  destruct (St _ _ Hc (sig1_done _ (w_call _ _ W _ _ Hc) Hs)) as (k2 & Hc2 & (_ & E1 & E2 & E3 & E4)).
  exists k2. repeat split; congruence.
Qed.

Theorem outcome cf s c k : reachable cf s -> s_calls s !! c = Some k -> k_sig k = 1%nat ->
  k_err k <> None \/ k_ok k = true.
Proof.
  intros R H E. pose proof (reach_call _ _ _ _ R H) as Hk. apply ck_outcome; [exact Hk|].
  apply sig1_done; assumption.
Qed.

(* a call counted by NumCalls has not been completed *)
Theorem pending_unsignalled cf s q c : reachable cf s -> s_pending s !! q = Some c ->
  exists k, s_calls s !! c = Some k /\ k_sig k = 0%nat.
Proof.
  intros R H. pose proof (reach_W _ _ R) as W. destruct (w_pend _ _ W _ _ H) as (k & Hc & Hl).
  exists k. split; [exact Hc|]. rewrite (ck_sig _ (w_call _ _ W _ _ Hc)), Hl. reflexivity.
Qed.

(* exactly once = at most once + nobody is forgotten: in a state where every
   queue has drained, every write has returned and the reader has exited,
   every call that was started has been signalled *)
Definition quiescent (s : st) : Prop :=
  s_rd s = RdDead /\ s_decq s = [] /\ s_finq s = [] /\
  forall c k, s_calls s !! c = Some k -> k_wpc k = WDone.
Theorem quiescent_complete cf s c k : reachable cf s -> quiescent s ->
  s_calls s !! c = Some k -> k_sig k = 1%nat.
Proof.
  intros R (Q1 & Q2 & Q3 & Q4) Hc. destruct (reach_WN _ _ R) as [W NI].
  pose proof (w_call _ _ W _ _ Hc) as Hk. rewrite (ck_sig _ Hk).
  destruct (k_loc k) as [|q| |] eqn:Hl; try reflexivity; exfalso.
  - pose proof (ck_fresh _ Hk Hl) as E. rewrite (Q4 _ _ Hc) in E. discriminate.
  - pose proof (n_locpend _ NI _ _ _ Hc Hl) as E. destruct (w_rd _ _ W) as (_ & R2 & _).
    destruct (R2 Q1) as [E2 _]. rewrite E2, lookup_empty in E. discriminate.
  - destruct (w_locfin _ _ W _ _ Hc Hl) as (t & Ht & _). rewrite Q3 in Ht.
    apply elem_of_nil in Ht. exact Ht.
Qed.

(* the draining actions are enabled whenever there is something to drain *)
(* STATEMENT CHANGED (authorised by the coordinator after Model.v gained [s_held]/[APickup]):
   the enabling condition of ADecode is now just "a frame is held". *)
Theorem decode_enabled cf s : reachable cf s -> s_held s = true -> step current cf s ADecode <> None.
Proof.
  intros R Hh. pose proof (reach_W _ _ R) as W. destruct (w_rd _ _ W) as (_ & _ & _ & R4).
  specialize (R4 Hh). unfold step. destruct (s_decq s) as [|f rest]; [congruence|].
  rewrite Hh. simpl. repeat case_match; discriminate.
Qed.
(* NEW (requested by the coordinator) *)
Theorem pickup_enabled cf s : s_decq s <> [] -> s_held s = false ->
  (directIO cf = true -> pipelining cf = false -> s_finq s = []) -> step current cf s APickup <> None.
Proof.
  intros Hd Hh Hf. unfold step. destruct (s_decq s) as [|f rest]; [congruence|]. rewrite Hh.
  destruct (directIO cf) eqn:E1; destruct (pipelining cf) eqn:E2; simpl;
    try (destruct (s_codec_closed s); discriminate).
  rewrite Hf by reflexivity. simpl. destruct (s_codec_closed s); discriminate.
Qed.
Theorem finish_enabled cf s : s_finq s <> [] -> step current cf s (AFinish 0) <> None.
Proof.
  intros H. unfold step. rewrite andb_false_r. destruct (s_finq s) as [|t l]; [congruence|].
  simpl. destruct t; discriminate.
Qed.
Theorem writeret_enabled cf s c k q r : s_calls s !! c = Some k -> k_wpc k = WWriting q ->
  step current cf s (AWriteRet c r) <> None.
Proof.
  intros H1 H2. unfold step. rewrite H1, H2. destruct r; [|discriminate].
  match goal with |- (if ?b then _ else _) <> _ => destruct b; discriminate end.
Qed.
Theorem sweep_enabled cf s e : s_rd s = RdDraining e -> s_decq s = [] -> step current cf s ASweep <> None.
Proof.
  intros H1 H2. unfold step. rewrite H1, H2. simpl. rewrite andb_false_r. discriminate.
Qed.

(* ---- C03 ---- *)
(* the sweep fails exactly the registered, not yet completed calls with the terminal error, and empties the table *)
Theorem sweep_fails_pending cf s s' e : reachable cf s -> s_rd s = RdDraining e ->
  step current cf s ASweep = Some s' ->
  s_pending s' = ∅ /\ s_shutdown s' = true /\
  (forall q c, s_pending s !! q = Some c ->
     exists k', s_calls s' !! c = Some k' /\ k_sig k' = 1%nat /\ k_err k' = Some e) /\
  (forall c k, s_calls s !! c = Some k -> (forall q, k_loc k <> LPending q) -> s_calls s' !! c = Some k).
Proof.
  intros R Hrd H. pose proof (reach_W _ _ R) as W. unfold step in H. rewrite Hrd in H.
  match type of H with (if ?b then _ else _) = _ => destruct b; [discriminate|] end.
  injection H as <-.
  assert (PI : pinj (set_shutdown s)).
  { intros q1 q2 c. simpl. eapply pend_inj; eauto. }
  destruct (sweep_spec e _ PI) as (S1 & S2 & S3 & S4 & S5 & _).
  assert (SW : forall c, swept (set_shutdown s) c <-> exists q, s_pending s !! q = Some c).
  { intros c. apply (swept_iff (set_shutdown s)). }
  simpl. repeat split.
  - exact S1.
  - exact S5.
  - intros q c Hq. destruct (w_pend _ _ W _ _ Hq) as (k & Hc & Hl).
    rewrite S2 by (apply SW; eauto). simpl. rewrite Hc. simpl. eexists. split; [reflexivity|].
    simpl. rewrite (ck_sig _ (w_call _ _ W _ _ Hc)), Hl. auto.
  - intros c k Hc Hl. rewrite S3; [exact Hc|]. intros Y. apply SW in Y as (q & Hq).
    destruct (w_pend _ _ W _ _ Hq) as (k0 & H1 & H2). rewrite Hc in H1. injection H1 as <-.
    exact (Hl _ H2).
Qed.

Ltac calls_norm Hc :=
  autorewrite with calls; rewrite <- ?alter_compose; rewrite (alter_Some _ _ _ _ Hc).

(* after shutdown or Close a new call is refused at once and never registered *)
Theorem send_refused cf s s' c : reachable cf s -> (s_shutdown s = true \/ s_closing s = true) ->
  step current cf s (ASend c) = Some s' ->
  s_pending s' = s_pending s /\
  exists k', s_calls s' !! c = Some k' /\ k_sig k' = 1%nat /\ k_err k' = Some EShutdown /\ k_wpc k' = WDone.
Proof.
  intros R Hs H. unfold step in H.
  destruct (s_calls s !! c) as [k|] eqn:Hc; [|discriminate].
  destruct (k_wpc k) eqn:Hw; try discriminate.
  match type of H with (if negb ?e then _ else _) = _ => destruct e; [|discriminate] end.
  simpl negb in H. cbv iota zeta in H.
  assert (E : s_shutdown s || s_closing s = true) by (destruct Hs as [-> | ->]; auto using orb_true_r).
  rewrite E in H. injection H as <-.
  pose proof (reach_call _ _ _ _ R Hc) as Hk. destruct (ck_queued _ Hk Hw) as [Hl _].
  split; [destruct (pipelining cf); reflexivity|].
  eexists. split; [destruct (pipelining cf); calls_norm Hc; apply lookup_insert|].
  simpl. rewrite (ck_sig _ Hk), Hl. auto.
Qed.

(* no received frame is ever dropped because of the shutdown flag *)
Theorem no_frame_dropped_by_shutdown cf s : reachable cf s -> s_decq s <> [] -> s_shutdown s = false.
Proof.
  intros R H. apply reach_W in R. apply (rd_ok_nonempty cf s); [apply R|exact H].
Qed.

(* a response that was received while its call was registered completes the call with that reply *)
(* STATEMENT CHANGED (authorised by the coordinator): hypothesis [s_codec_closed s = false]
   replaced by [s_held s = true] — the closed check now happens in APickup. *)
Theorem received_wins cf s s' q c k body rest :
  reachable cf s -> s_decq s = FResp q [] body true :: rest -> s_pending s !! q = Some c ->
  s_calls s !! c = Some k -> k_kind k <> KPing -> s_held s = true ->
  step current cf s ADecode = Some s' ->
  FinReply c body true ∈ s_finq s' /\ s_pending s' !! q = None /\
  forall i s'', s_finq s' !! i = Some (FinReply c body true) -> step current cf s' (AFinish i) = Some s'' ->
    exists k'', s_calls s'' !! c = Some k'' /\ k_sig k'' = 1%nat /\ k_err k'' = k_err k /\
                k_reply k'' = Some body /\ k_ok k'' = true.
Proof.
  intros R Hd Hp Hc Hkd Hh H.
  assert (Hsh : s_shutdown s = false).
  { eapply no_frame_dropped_by_shutdown; eauto. rewrite Hd. discriminate. }
  pose proof (reach_W _ _ R) as W. pose proof (w_call _ _ W _ _ Hc) as Hk.
  assert (Hl : k_loc k = LPending q).
  { destruct (w_pend _ _ W _ _ Hp) as (k0 & H1 & H2). congruence. }
  unfold step in H. rewrite Hd, Hh, Hsh, Hp, Hc in H. simpl negb in H. cbv iota zeta in H.
  change (beqb [] []) with true in H. simpl negb in H. cbv iota in H.
  assert (H' : Some (set_finq (s_finq (set_pending (delete q (s_pending (set_held false (set_decq rest s))))
                                         (set_held false (set_decq rest s))) ++ [FinReply c body true])
                      (upd_call c (k_set_loc LFinish)
                         (set_pending (delete q (s_pending (set_held false (set_decq rest s))))
                                         (set_held false (set_decq rest s))))) = Some s').
  { destruct (k_kind k); try exact H. congruence. }
  clear H. injection H' as <-. split; [|split].
  - simpl. apply elem_of_app. right. left.
  - simpl. apply lookup_delete.
  - intros i s'' Hi H2. unfold step in H2.
    match type of H2 with (if ?b then _ else _) = _ => destruct b; [discriminate|] end.
    rewrite Hi in H2. cbv zeta in H2. injection H2 as <-.
    eexists. split; [calls_norm Hc; apply lookup_insert|].
    simpl. rewrite (ck_sig _ Hk), Hl. auto.
Qed.

(* the pinned tree loses fully received responses (F2) and completes twice (F1) *)
Definition cfg_async : cfg := {| directIO := false; pipelining := false |}.
Example legacy_loses_received_response :
  exists s, run legacy cfg_async
      [AStart 0 KGo; ASend 0; AWriteRet 0 None; AArrive (FResp 0 [] [42] true); AReadErr EShutdown; ASweep; APickup; ADecode] init = Some s
    /\ err_of s 0 = Some EShutdown /\ reply_of s 0 = None /\ s_finq s = [].
Proof. eexists. split; [vm_compute; reflexivity|]. vm_compute. repeat split. Qed.
(* STATEMENT CHANGED: the last conjunct read [num_calls s = 1%nat], which is false of the model
   (and of the pinned code): the legacy write-error path of conn.send runs
   [delete(conn.pending, seq)] unconditionally, so after the failed write the table is empty.
   [vm_compute] of the trace gives [num_calls s = 0].  The stale entry (NumCalls = 1) exists only
   between ASweep and AWriteRet. *)
Example legacy_completes_twice :
  exists s, run legacy cfg_async
      [AStart 0 KGo; ASend 0; AReadErr EShutdown; ASweep; AWriteRet 0 (Some (EWrite [1]))] init = Some s
    /\ sig_of s 0 = 2%nat /\ err_of s 0 = Some (EWrite [1]) /\ num_calls s = 0%nat.
Proof. eexists. split; [vm_compute; reflexivity|]. vm_compute. repeat split. Qed.
Example current_on_the_same_traces :
  (exists s, run current cfg_async
      [AStart 0 KGo; ASend 0; AWriteRet 0 None; AArrive (FResp 0 [] [42] true); AReadErr EShutdown; APickup; ADecode; ASweep; AFinish 0] init = Some s
    /\ err_of s 0 = None /\ reply_of s 0 = Some [42] /\ sig_of s 0 = 1%nat) /\
  (exists s, run current cfg_async
      [AStart 0 KGo; ASend 0; AReadErr EShutdown; ASweep; AWriteRet 0 (Some (EWrite [1]))] init = Some s
    /\ sig_of s 0 = 1%nat /\ err_of s 0 = Some EShutdown /\ num_calls s = 0%nat).
Proof.
  split; (eexists; split; [vm_compute; reflexivity|]; vm_compute; repeat split).
Qed.

(* ---- C06 ---- *)
(* an error response completes exactly the call registered under its number, with the text verbatim,
   leaves that call's reply untouched and every other call and the rest of the table unchanged *)
(* STATEMENT CHANGED (authorised by the coordinator): hypothesis [s_codec_closed s = false]
   replaced by [s_held s = true]. *)
Theorem error_response cf s s' q c k e body bodyok rest :
  reachable cf s -> s_decq s = FResp q e body bodyok :: rest -> e <> [] ->
  s_pending s !! q = Some c -> s_calls s !! c = Some k ->
  s_held s = true -> step current cf s ADecode = Some s' ->
  (exists k', s_calls s' !! c = Some k' /\
      k_err k' = Some (if bool_decide (e = shutdown_msg) then EShutdown else EText e) /\
      k_reply k' = k_reply k /\ k_ok k' = k_ok k /\
      (k_sig k' = 1%nat \/ (pipelining cf = true /\ FinDone c ∈ s_finq s'))) /\
  (forall c', c' <> c -> s_calls s' !! c' = s_calls s !! c') /\
  s_pending s' = delete q (s_pending s) /\ s_decq s' = rest.
Proof.
  intros R Hd He Hp Hc Hh H.
  assert (Hsh : s_shutdown s = false).
  { eapply no_frame_dropped_by_shutdown; eauto. rewrite Hd. discriminate. }
  pose proof (reach_W _ _ R) as W. pose proof (w_call _ _ W _ _ Hc) as Hk.
  assert (Hl : k_loc k = LPending q).
  { destruct (w_pend _ _ W _ _ Hp) as (k0 & H1 & H2). congruence. }
  unfold step in H. rewrite Hd, Hh, Hsh, Hp, Hc in H. simpl negb in H. cbv iota zeta in H.
  unfold beqb in H. rewrite (bool_decide_eq_false_2 _ He) in H. simpl negb in H. cbv iota in H.
  cbn [current v_err_via_q andb] in H.
  destruct (pipelining cf) eqn:Hpl; injection H as <-.
  - split; [|split; [|split]]; try reflexivity.
    + eexists. split; [calls_norm Hc; apply lookup_insert|]. simpl. repeat split.
      right. split; [reflexivity|]. apply elem_of_app. right. left.
    + intros c' N. calls_norm Hc. apply lookup_insert_ne. congruence.
  - split; [|split; [|split]]; try reflexivity.
    + eexists. split; [calls_norm Hc; apply lookup_insert|]. simpl. repeat split.
      left. rewrite (ck_sig _ Hk), Hl. reflexivity.
    + intros c' N. calls_norm Hc. apply lookup_insert_ne. congruence.
Qed.

(* a request that cannot be written fails only that call and leaves no residue *)
Theorem write_failure_no_residue cf s s' c k q e :
  reachable cf s -> s_calls s !! c = Some k -> k_wpc k = WWriting q -> k_loc k = LPending q ->
  step current cf s (AWriteRet c (Some e)) = Some s' ->
  s_pending s' = delete q (s_pending s) /\ s_pending s' !! q = None /\
  (exists k', s_calls s' !! c = Some k' /\ k_sig k' = 1%nat /\ k_err k' = Some e /\ k_reply k' = k_reply k) /\
  (forall c', c' <> c -> s_calls s' !! c' = s_calls s !! c').
Proof.
  intros R Hc Hw Hl H. destruct (reach_WN _ _ R) as [W NI].
  pose proof (w_call _ _ W _ _ Hc) as Hk.
  pose proof (n_locpend _ NI _ _ _ Hc Hl) as Hp.
  unfold step in H. rewrite Hc, Hw in H. cbv zeta in H.
  rewrite (bool_decide_eq_true_2 _ Hp) in H. rewrite orb_true_r in H. injection H as <-.
  split; [|split; [|split]].
  - destruct (pipelining cf); reflexivity.
  - destruct (pipelining cf); simpl; apply lookup_delete.
  - eexists. split; [destruct (pipelining cf); calls_norm Hc; apply lookup_insert|].
    simpl. rewrite (ck_sig _ Hk), Hl. auto.
  - intros c' N. destruct (pipelining cf); calls_norm Hc; apply lookup_insert_ne; congruence.
Qed.

(* any action that concerns call c (or frame of c) leaves the other calls' records alone — except the sweep *)
Theorem step_frame cf s s' a c' : reachable cf s -> step current cf s a = Some s' -> a <> ASweep ->
  (forall k', s_calls s !! c' = Some k' -> exists k'', s_calls s' !! c' = Some k'').
Proof.
  intros _ H Na k' Hc'.
  assert (IS : is_Some (s_calls s !! c')) by eauto.
  cut (is_Some (s_calls s' !! c')). { intros [x Hx]. eauto. }
  destruct a; try congruence; unfold step in H; repeat case_match; simplify_eq;
    autorewrite with calls; rewrite ?lookup_alter_is_Some; try exact IS.
  all: apply lookup_insert_is_Some'; right; exact IS.
Qed.

(* ---- C19 ---- *)
Theorem ctx_enabled cf s c k : reachable cf s -> s_calls s !! c = Some k -> k_kind k = KCtx ->
  k_abandoned k = false -> k_recv k = 0%nat -> (pipelining cf = true \/ k_wpc k = WDone) ->
  exists s', step current cf s (ACtxDone c) = Some s' /\
    (forall c', c' <> c -> s_calls s' !! c' = s_calls s !! c') /\
    s_pending s' = s_pending s /\ s_finq s' = s_finq s /\ s_decq s' = s_decq s.
Proof.
  intros _ Hc Hkd Hab Hr Hp. exists (upd_call c k_abandon s). split; [|split].
  - unfold step. rewrite Hc, Hkd, Hab, Hr. simpl.
    destruct Hp as [-> | ->]; simpl; [reflexivity|]. rewrite andb_false_r. reflexivity.
  - intros c' N. calls_norm Hc. apply lookup_insert_ne. congruence.
  - repeat split.
Qed.

Theorem recycled_completed cf s c k : reachable cf s -> s_calls s !! c = Some k -> k_recycled k = true ->
  k_sig k = 1%nat /\ k_abandoned k = false /\ (forall q, s_pending s !! q <> Some c) /\
  (forall t, t ∈ s_finq s -> fin_call t <> c).
Proof.
  intros R Hc Hr. pose proof (reach_W _ _ R) as W. pose proof (w_call _ _ W _ _ Hc) as Hk.
  destruct (ck_recycled _ Hk Hr) as (Hl & Ha & _). split; [|split; [|split]].
  - rewrite (ck_sig _ Hk), Hl. reflexivity.
  - exact Ha.
  - intros q Hq. destruct (w_pend _ _ W _ _ Hq) as (k0 & H1 & H2). congruence.
  - intros t Ht. eapply fin_not; eauto. congruence.
Qed.

(* an abandoned call is never recycled, so a late response lands on the abandoned object only *)
Theorem abandoned_not_recycled cf s c k : reachable cf s -> s_calls s !! c = Some k -> k_abandoned k = true ->
  k_recycled k = false.
Proof.
  intros R Hc Ha. pose proof (reach_call _ _ _ _ R Hc) as Hk.
  destruct (k_recycled k) eqn:Hr; [|reflexivity].
  destruct (ck_recycled _ Hk Hr) as (_ & Ha' & _). congruence.
Qed.

(* F12: the late response still writes the abandoned call's reply (full discard is false of the code) *)
Example late_response_writes_abandoned_call :
  exists s, run current cfg_async
      [AStart 0 KCtx; ASend 0; AWriteRet 0 None; ACtxDone 0; AArrive (FResp 0 [] [7] true); APickup; ADecode; AFinish 0] init = Some s
    /\ reply_of s 0 = Some [7] /\ (exists k, s_calls s !! 0%nat = Some k /\ k_abandoned k = true).
Proof.
  eexists. split; [vm_compute; reflexivity|]. split; [vm_compute; reflexivity|].
  eexists. split; vm_compute; reflexivity.
Qed.

Print Assumptions reachable_inv.
Print Assumptions at_most_once.
Print Assumptions completion_stable.
Print Assumptions quiescent_complete.
Print Assumptions sweep_fails_pending.
Print Assumptions received_wins.
Print Assumptions error_response.
Print Assumptions write_failure_no_residue.
Print Assumptions recycled_completed.
