(* Conn/InvLemmas.v — the working invariant of the client connection machine
   and its preservation by every action of the [current] variant.

   The invariant is split in two:
     [WInv cf s]  holds in every state reachable by ANY trace (it does not
                  depend on the absence of a 2^64 wrap of the sequence counter);
     [NInv s]     additionally needs that the counter has not wrapped.
   Conn/Inv.v packages both as [Inv] and derives the cited theorems. *)
From RPC Require Import Res.
From Coq Require Import ZifyBool ZifyN ZifyNat.
From stdpp Require Import gmap.
From RPC.Conn Require Import Model.
Open Scope N_scope.

Definition fin_call (t : fin_task) : nat :=
  match t with FinReply c _ _ => c | FinDone c => c end.

(* ------------------------------------------------------------------ *)
(* per-call part of the invariant                                      *)
(* ------------------------------------------------------------------ *)
Definition call_ok (k : call) : Prop :=
  k_sig k = (match k_loc k with LDone => 1 | _ => 0 end)%nat ∧
  k_late k = 0%nat ∧
  (∀ q, k_wpc k = WWriting q → k_q k = Some q) ∧
  (∀ q, k_loc k = LPending q → k_q k = Some q) ∧
  (k_loc k = LFresh → k_wpc k = WQueued) ∧
  (k_wpc k = WQueued → k_loc k = LFresh ∧ k_q k = None) ∧
  (k_loc k = LDone → k_err k ≠ None ∨ k_ok k = true) ∧
  (k_recv k ≤ k_sig k)%nat ∧
  (k_recycled k = true → k_loc k = LDone ∧ k_abandoned k = false ∧ (0 < k_recv k)%nat).

(* a queued completion task that only signals must find the error already set *)
Definition task_ok (t : fin_task) (k : call) : Prop :=
  match t with FinDone _ => k_err k ≠ None | FinReply _ _ _ => True end.

Definition rd_ok (cf : cfg) (s : st) : Prop :=
  (s_shutdown s = true ↔ s_rd s = RdDead) ∧
  (s_rd s = RdDead → s_pending s = ∅ ∧ s_decq s = []) ∧
  (directIO cf = true → s_rd s ≠ RdAlive → s_decq s = []) ∧
  (s_held s = true → s_decq s ≠ []).

Record WInv (cf : cfg) (s : st) : Prop := {
  w_call : ∀ c k, s_calls s !! c = Some k → call_ok k;
  w_pend : ∀ q c, s_pending s !! q = Some c →
      ∃ k, s_calls s !! c = Some k ∧ k_loc k = LPending q;
  w_fin : ∀ t, t ∈ s_finq s →
      ∃ k, s_calls s !! fin_call t = Some k ∧ k_loc k = LFinish ∧ task_ok t k;
  w_locfin : ∀ c k, s_calls s !! c = Some k → k_loc k = LFinish →
      ∃ t, t ∈ s_finq s ∧ fin_call t = c;
  w_nodup : NoDup (fin_call <$> s_finq s);
  w_rd : rd_ok cf s
}.

Record NInv (s : st) : Prop := {
  n_locpend : ∀ c k q, s_calls s !! c = Some k → k_loc k = LPending q → s_pending s !! q = Some c;
  n_qlt : ∀ c k q, s_calls s !! c = Some k → k_q k = Some q → q < s_seq s;
  n_qinj : ∀ c1 c2 k1 k2 q, s_calls s !! c1 = Some k1 → s_calls s !! c2 = Some k2 →
      k_q k1 = Some q → k_q k2 = Some q → c1 = c2
}.

(* a completed call keeps its observable outcome *)
Definition same_outcome (k k' : call) : Prop :=
  k_loc k' = LDone ∧ k_sig k' = k_sig k ∧ k_err k' = k_err k ∧ k_reply k' = k_reply k ∧ k_ok k' = k_ok k.
Definition stable (s s' : st) : Prop :=
  ∀ c k, s_calls s !! c = Some k → k_loc k = LDone →
    ∃ k', s_calls s' !! c = Some k' ∧ same_outcome k k'.

(* ------------------------------------------------------------------ *)
(* projections of the state updates                                    *)
(* ------------------------------------------------------------------ *)
Lemma alter_Some {A} (f : A → A) (m : gmap nat A) c k :
  m !! c = Some k → alter f c m = <[c := f k]> m.
Proof.
  intros H. apply map_eq. intros i. destruct (decide (i = c)) as [E|E]; subst.
  - rewrite lookup_alter, lookup_insert, H. reflexivity.
  - rewrite lookup_alter_ne, lookup_insert_ne by congruence. reflexivity.
Qed.
Lemma alter_None {A} (f : A → A) (m : gmap nat A) c :
  m !! c = None → alter f c m = m.
Proof.
  intros H. apply map_eq. intros i. destruct (decide (i = c)) as [E|E]; subst.
  - rewrite lookup_alter, H. reflexivity.
  - rewrite lookup_alter_ne by congruence. reflexivity.
Qed.

Lemma calls_upd_call c f s : s_calls (upd_call c f s) = alter f c (s_calls s).
Proof.
  unfold upd_call. cbn [s_calls]. destruct (s_calls s !! c) eqn:E.
  - symmetry. apply alter_Some. exact E.
  - symmetry. apply alter_None. exact E.
Qed.
Lemma calls_signal c s : s_calls (signal c s) = alter k_signal c (s_calls s).
Proof. unfold signal, log_sig. cbn [s_calls]. apply calls_upd_call. Qed.
Lemma calls_set_pending p s : s_calls (set_pending p s) = s_calls s. Proof. reflexivity. Qed.
Lemma calls_set_seq p s : s_calls (set_seq p s) = s_calls s. Proof. reflexivity. Qed.
Lemma calls_set_writeq w b s : s_calls (set_writeq w b s) = s_calls s. Proof. reflexivity. Qed.
Lemma calls_set_decq p s : s_calls (set_decq p s) = s_calls s. Proof. reflexivity. Qed.
Lemma calls_set_held p s : s_calls (set_held p s) = s_calls s. Proof. reflexivity. Qed.
Lemma calls_set_finq p s : s_calls (set_finq p s) = s_calls s. Proof. reflexivity. Qed.
Lemma calls_set_rd p s : s_calls (set_rd p s) = s_calls s. Proof. reflexivity. Qed.
Lemma calls_set_shutdown s : s_calls (set_shutdown s) = s_calls s. Proof. reflexivity. Qed.
Lemma calls_set_closing b s : s_calls (set_closing b s) = s_calls s. Proof. reflexivity. Qed.
Lemma calls_add_close_ret b s : s_calls (add_close_ret b s) = s_calls s. Proof. reflexivity. Qed.
Lemma calls_add_call c k s : s_calls (add_call c k s) = <[c := k]> (s_calls s). Proof. reflexivity. Qed.
Global Hint Rewrite calls_upd_call calls_signal calls_set_pending calls_set_seq calls_set_writeq
  calls_set_decq calls_set_held calls_set_finq calls_set_rd calls_set_shutdown calls_set_closing
  calls_add_close_ret calls_add_call : calls.

(* [s_calls s' = <[c := F k]> (s_calls s)] for a composite [s'] all of whose
   call updates are at [c], given [s_calls s !! c = Some k] *)
Ltac calls_tac :=
  autorewrite with calls; rewrite <- ?alter_compose;
  match goal with
  | H : s_calls ?s !! ?c = Some ?k |- alter _ ?c (s_calls ?s) = _ => apply (alter_Some _ _ _ _ H)
  end.

(* ------------------------------------------------------------------ *)
(* per-call transitions                                                *)
(* ------------------------------------------------------------------ *)
Ltac cok :=
  unfold call_ok, same_outcome, task_ok, compose in *;
  repeat match goal with k : call |- _ => destruct k end;
  simpl in *; subst; simpl in *;
  intuition (subst; simpl in *; try congruence; try discriminate; try lia).

Lemma call_ok_fresh kd : call_ok (fresh_call kd).
Proof. cok. Qed.

(* ------------------------------------------------------------------ *)
(* generic preservation lemmas                                         *)
(* ------------------------------------------------------------------ *)
Lemma W_upd cf s s' c k' :
  WInv cf s →
  s_calls s' = <[c := k']> (s_calls s) →
  call_ok k' →
  (∀ q0 c0, s_pending s' !! q0 = Some c0 →
      (c0 ≠ c ∧ s_pending s !! q0 = Some c0) ∨ (c0 = c ∧ k_loc k' = LPending q0)) →
  (∀ t, t ∈ s_finq s' →
      (fin_call t ≠ c ∧ t ∈ s_finq s) ∨ (fin_call t = c ∧ k_loc k' = LFinish ∧ task_ok t k')) →
  (∀ t, t ∈ s_finq s → fin_call t ≠ c → t ∈ s_finq s') →
  (k_loc k' = LFinish → ∃ t, t ∈ s_finq s' ∧ fin_call t = c) →
  NoDup (fin_call <$> s_finq s') →
  rd_ok cf s' →
  WInv cf s'.
Proof.
  intros W Hc Hk Hp Hf Hf2 Hf3 Hnd Hrd. constructor; try assumption.
  - intros c0 k0. rewrite Hc. destruct (decide (c0 = c)) as [E|E]; subst.
    + rewrite lookup_insert. intros [= <-]. exact Hk.
    + rewrite lookup_insert_ne by congruence. apply (w_call _ _ W).
  - intros q0 c0 H. rewrite Hc. destruct (Hp _ _ H) as [[N H1]|[-> H1]].
    + rewrite lookup_insert_ne by congruence. apply (w_pend _ _ W). exact H1.
    + rewrite lookup_insert. eauto.
  - intros t H. rewrite Hc. destruct (Hf _ H) as [[N H1]|[E H1]].
    + rewrite lookup_insert_ne by congruence. apply (w_fin _ _ W). exact H1.
    + rewrite E, lookup_insert. exists k'. tauto.
  - intros c0 k0. rewrite Hc. destruct (decide (c0 = c)) as [E|E]; subst.
    + rewrite lookup_insert. intros [= <-]. exact Hf3.
    + rewrite lookup_insert_ne by congruence. intros H1 H2.
      destruct (w_locfin _ _ W _ _ H1 H2) as (t & Ht & Et). exists t. split; [|exact Et].
      apply Hf2; congruence.
Qed.

(* steps that leave the calls and the completion queue alone *)
Lemma W_env cf s s' :
  WInv cf s →
  s_calls s' = s_calls s →
  s_finq s' = s_finq s →
  (∀ q0 c0, s_pending s' !! q0 = Some c0 → s_pending s !! q0 = Some c0) →
  rd_ok cf s' →
  WInv cf s'.
Proof.
  intros W Hc Hf Hp Hrd. constructor; rewrite ?Hc, ?Hf; try assumption; try apply W.
  intros q0 c0 H. apply (w_pend _ _ W). auto.
Qed.

Lemma N_upd cf s s' c k' :
  WInv cf s → NInv s →
  s_calls s' = <[c := k']> (s_calls s) →
  (∀ q0 c0, c0 ≠ c → s_pending s !! q0 = Some c0 → s_pending s' !! q0 = Some c0) →
  (∀ q0, k_loc k' = LPending q0 → s_pending s' !! q0 = Some c) →
  (∀ q, k_q k' = Some q →
     (∃ k, s_calls s !! c = Some k ∧ k_q k = Some q) ∨ (q = s_seq s ∧ s_seq s < s_seq s')) →
  s_seq s ≤ s_seq s' →
  NInv s'.
Proof.
  intros W NI Hc Hp Hp2 Hq Hs. constructor.
  - intros c0 k0 q0. rewrite Hc. destruct (decide (c0 = c)) as [E|E]; subst.
    + rewrite lookup_insert. intros [= <-]. apply Hp2.
    + rewrite lookup_insert_ne by congruence. intros H1 H2. apply Hp; [exact E|].
      eapply n_locpend; eauto.
  - intros c0 k0 q0. rewrite Hc. destruct (decide (c0 = c)) as [E|E]; subst.
    + rewrite lookup_insert. intros [= <-] H. destruct (Hq _ H) as [(k & H1 & H2)|[-> H1]].
      * pose proof (n_qlt _ NI _ _ _ H1 H2). lia.
      * exact H1.
    + rewrite lookup_insert_ne by congruence. intros H1 H2.
      pose proof (n_qlt _ NI _ _ _ H1 H2). lia.
  - assert (Aux : ∀ c2 k2 q, c2 ≠ c → s_calls s !! c2 = Some k2 → k_q k' = Some q → k_q k2 = Some q → False).
    { intros c2 k2 q N H2 E1 E2. destruct (Hq _ E1) as [(k & H1 & H3)|[-> H1]].
      - apply N. eapply (n_qinj _ NI c2 c); eauto.
      - pose proof (n_qlt _ NI _ _ _ H2 E2). lia. }
    intros c1 c2 k1 k2 q. rewrite Hc.
    destruct (decide (c1 = c)) as [E1|E1]; destruct (decide (c2 = c)) as [E2|E2]; subst;
      rewrite ?lookup_insert; rewrite ?lookup_insert_ne by congruence; try congruence.
    + intros [= <-] H2 Q1 Q2. exfalso. eauto.
    + intros H2 [= <-] Q1 Q2. exfalso. eauto.
    + apply (n_qinj _ NI).
Qed.

Lemma N_env s s' :
  NInv s → s_calls s' = s_calls s → s_pending s' = s_pending s → s_seq s' = s_seq s → NInv s'.
Proof.
  intros NI Hc Hp Hs. constructor; rewrite ?Hc, ?Hp, ?Hs; apply NI.
Qed.

Lemma stable_upd s s' c k' :
  s_calls s' = <[c := k']> (s_calls s) →
  (∀ k, s_calls s !! c = Some k → k_loc k = LDone → same_outcome k k') →
  stable s s'.
Proof.
  intros Hc H c0 k0 H1 H2. rewrite Hc. destruct (decide (c0 = c)) as [E|E]; subst.
  - rewrite lookup_insert. eauto.
  - rewrite lookup_insert_ne by congruence. exists k0. split; [exact H1|]. cok.
Qed.
Lemma stable_env s s' : s_calls s' = s_calls s → stable s s'.
Proof. intros Hc c0 k0 H1 H2. rewrite Hc. exists k0. split; [exact H1|]. cok. Qed.

(* ------------------------------------------------------------------ *)
(* small consequences of the invariant                                 *)
(* ------------------------------------------------------------------ *)
Lemma ck_sig k : call_ok k → k_sig k = (match k_loc k with LDone => 1 | _ => 0 end)%nat.
Proof. unfold call_ok; tauto. Qed.
Lemma ck_late k : call_ok k → k_late k = 0%nat.
Proof. unfold call_ok; tauto. Qed.
Lemma ck_wr k q : call_ok k → k_wpc k = WWriting q → k_q k = Some q.
Proof. unfold call_ok; intros H; apply H. Qed.
Lemma ck_locq k q : call_ok k → k_loc k = LPending q → k_q k = Some q.
Proof. unfold call_ok; intros H; apply H. Qed.
Lemma ck_fresh k : call_ok k → k_loc k = LFresh → k_wpc k = WQueued.
Proof. unfold call_ok; tauto. Qed.
Lemma ck_queued k : call_ok k → k_wpc k = WQueued → k_loc k = LFresh ∧ k_q k = None.
Proof. unfold call_ok; tauto. Qed.
Lemma ck_outcome k : call_ok k → k_loc k = LDone → k_err k ≠ None ∨ k_ok k = true.
Proof. unfold call_ok; tauto. Qed.
Lemma ck_recv k : call_ok k → (k_recv k ≤ k_sig k)%nat.
Proof. unfold call_ok; tauto. Qed.
Lemma ck_recycled k : call_ok k → k_recycled k = true →
  k_loc k = LDone ∧ k_abandoned k = false ∧ (0 < k_recv k)%nat.
Proof. unfold call_ok; tauto. Qed.

Lemma pend_not cf s c k q0 c0 :
  WInv cf s → s_calls s !! c = Some k → (∀ q, k_loc k ≠ LPending q) →
  s_pending s !! q0 = Some c0 → c0 ≠ c.
Proof.
  intros W Hc Hl Hp ->. destruct (w_pend _ _ W _ _ Hp) as (k0 & H1 & H2).
  rewrite Hc in H1. injection H1 as <-. exact (Hl _ H2).
Qed.
Lemma fin_not cf s c k t :
  WInv cf s → s_calls s !! c = Some k → k_loc k ≠ LFinish → t ∈ s_finq s → fin_call t ≠ c.
Proof.
  intros W Hc Hl Ht E. destruct (w_fin _ _ W _ Ht) as (k0 & H1 & H2 & _).
  rewrite E, Hc in H1. injection H1 as <-. exact (Hl H2).
Qed.
Lemma pend_inj cf s q1 q2 c :
  WInv cf s → s_pending s !! q1 = Some c → s_pending s !! q2 = Some c → q1 = q2.
Proof.
  intros W H1 H2. destruct (w_pend _ _ W _ _ H1) as (k1 & E1 & L1).
  destruct (w_pend _ _ W _ _ H2) as (k2 & E2 & L2). congruence.
Qed.

Lemma rd_ok_pres cf s s' :
  rd_ok cf s → s_shutdown s' = s_shutdown s → s_rd s' = s_rd s →
  s_decq s' = s_decq s → s_held s' = s_held s →
  (s_rd s = RdDead → s_pending s = ∅ → s_pending s' = ∅) →
  rd_ok cf s'.
Proof.
  unfold rd_ok. intros (H1 & H2 & H3 & H5) E1 E2 E3 E5 E4. rewrite E1, E2, E3, E5.
  split; [exact H1|]. split; [|split; assumption].
  intros D. destruct (H2 D). auto.
Qed.
Lemma rd_ok_nonempty cf s :
  rd_ok cf s → s_decq s ≠ [] → s_shutdown s = false ∧ s_rd s ≠ RdDead ∧ (directIO cf = true → s_rd s = RdAlive).
Proof.
  unfold rd_ok. intros (H1 & H2 & H3 & _) N.
  assert (s_rd s ≠ RdDead) by (intros D; destruct (H2 D); congruence).
  split; [|split].
  - destruct (s_shutdown s); [|reflexivity]. exfalso. tauto.
  - assumption.
  - intros D. destruct (s_rd s); try reflexivity; exfalso; apply N, H3; congruence.
Qed.

Lemma remove_nth_facts {A B} (f : A → B) (l : list A) i t :
  l !! i = Some t → NoDup (f <$> l) →
  NoDup (f <$> remove_nth i l) ∧
  (∀ x, x ∈ remove_nth i l → x ∈ l ∧ f x ≠ f t) ∧
  (∀ x, x ∈ l → f x ≠ f t → x ∈ remove_nth i l).
Proof.
  intros H ND. unfold remove_nth. pose proof (take_drop_middle l i t H) as El.
  remember (take i l) as l1. remember (drop (S i) l) as l2. clear Heql1 Heql2 H. subst l.
  rewrite fmap_app, fmap_cons in ND. apply NoDup_app in ND as (N1 & N2 & N3).
  apply NoDup_cons in N3 as (N3 & N4).
  split; [|split].
  - rewrite fmap_app. apply NoDup_app. split; [exact N1|]. split; [|exact N4].
    intros x Hx Hx2. apply (N2 x Hx). right. exact Hx2.
  - intros x Hx. apply elem_of_app in Hx as [Hx|Hx].
    + split; [apply elem_of_app; left; exact Hx|]. intros E. apply (N2 (f x)).
      * apply elem_of_list_fmap. eauto.
      * rewrite E. left.
    + split; [apply elem_of_app; right; right; exact Hx|]. intros E. apply N3. rewrite <- E.
      apply elem_of_list_fmap. eauto.
  - intros x Hx Nx. apply elem_of_app in Hx as [Hx|Hx]; [apply elem_of_app; left; exact Hx|].
    apply elem_of_cons in Hx as [->|Hx]; [congruence|]. apply elem_of_app; right; exact Hx.
Qed.

(* ------------------------------------------------------------------ *)
(* one action preserves everything                                     *)
(* ------------------------------------------------------------------ *)
Definition good (cf : cfg) (s s' : st) : Prop :=
  WInv cf s' ∧ stable s s' ∧
  ∀ n, NInv s → s_seq s ≤ n → n + 1 < 2^64 → NInv s' ∧ s_seq s' ≤ n + 1.

(* a call changes without moving: same ghost location, same error;
   the pending table may lose entries *)
Lemma W_local cf s s' c k k' :
  WInv cf s → s_calls s !! c = Some k →
  s_calls s' = <[c := k']> (s_calls s) →
  call_ok k' → k_loc k' = k_loc k → k_err k' = k_err k →
  (∀ q0 c0, s_pending s' !! q0 = Some c0 → s_pending s !! q0 = Some c0) →
  s_finq s' = s_finq s →
  rd_ok cf s' →
  WInv cf s'.
Proof.
  intros W Hc Hcs Hk Hl He Hp Hf Hrd. eapply W_upd; eauto; rewrite ?Hf.
  - intros q0 c0 H. apply Hp in H. destruct (decide (c0 = c)) as [E|E]; [right|left]; split; auto.
    subst. destruct (w_pend _ _ W _ _ H) as (k0 & H1 & H2). congruence.
  - intros t Ht. destruct (decide (fin_call t = c)) as [E|E]; [right|left]; split; auto.
    destruct (w_fin _ _ W _ Ht) as (k0 & H1 & H2 & H3). rewrite E, Hc in H1. injection H1 as <-.
    split; [congruence|]. destruct t; simpl in *; congruence.
  - auto.
  - intros H. eapply (w_locfin _ _ W); eauto. congruence.
  - apply W.
Qed.

Lemma step_start cf s s' c kd : WInv cf s → step current cf s (AStart c kd) = Some s' → good cf s s'.
Proof.
  intros W H. unfold step in H. destruct (s_calls s !! c) eqn:Hc; [discriminate|].
  assert (Hcs : s_calls s' = <[c := fresh_call kd]> (s_calls s) ∧ s_pending s' = s_pending s ∧
                s_finq s' = s_finq s ∧ s_seq s' = s_seq s ∧ s_shutdown s' = s_shutdown s ∧
                s_rd s' = s_rd s ∧ s_decq s' = s_decq s ∧ s_held s' = s_held s).
  { injection H as <-. destruct (pipelining cf); repeat split. }
  destruct Hcs as (E1 & E2 & E3 & E4 & E5 & E6 & E7 & E8). clear H.
  assert (P : ∀ q0 c0, s_pending s !! q0 = Some c0 → c0 ≠ c).
  { intros q0 c0 Hp ->. destruct (w_pend _ _ W _ _ Hp) as (k0 & H1 & _). congruence. }
  assert (F : ∀ t, t ∈ s_finq s → fin_call t ≠ c).
  { intros t Ht E. destruct (w_fin _ _ W _ Ht) as (k0 & H1 & _). congruence. }
  split; [|split].
  - eapply W_upd; eauto; rewrite ?E2, ?E3.
    + apply call_ok_fresh.
    + intros; left; eauto.
    + intros; left; eauto.
    + auto.
    + discriminate.
    + apply W.
    + eapply rd_ok_pres; [apply W|..]; congruence.
  - eapply stable_upd; eauto. congruence.
  - intros n NI Hn Hn2. split; [|lia]. eapply N_upd; eauto; rewrite ?E2.
    + auto.
    + discriminate.
    + discriminate.
    + lia.
Qed.

Ltac step_simpl H :=
  cbn [current v_sweep_deletes v_send_checks v_drain v_err_via_q negb orb andb] in H; cbv zeta in H.

Lemma mod_small_64 q n : q ≤ n → n + 1 < 2^64 → (q + 1) mod 2^64 = q + 1.
Proof. intros. apply N.mod_small. lia. Qed.

Lemma step_send cf s s' c : WInv cf s → step current cf s (ASend c) = Some s' → good cf s s'.
Proof.
  intros W H. unfold step in H.
  destruct (s_calls s !! c) as [k|] eqn:Hc; [|discriminate].
  destruct (k_wpc k) eqn:Hw; try discriminate.
  match type of H with (if negb ?e then _ else _) = _ => destruct e; [|discriminate] end.
  step_simpl H.
  pose proof (w_call _ _ W _ _ Hc) as Hk.
  destruct (ck_queued _ Hk Hw) as [Hl Hq].
  assert (P : ∀ q0 c0, s_pending s !! q0 = Some c0 → c0 ≠ c).
  { intros q0 c0. eapply pend_not; eauto. congruence. }
  assert (F : ∀ t, t ∈ s_finq s → fin_call t ≠ c).
  { intros t. eapply fin_not; eauto. congruence. }
  destruct (s_shutdown s || s_closing s) eqn:Hsh.
  - (* refused *)
    injection H as <-. split; [|split].
    + eapply W_upd; [exact W| destruct (pipelining cf); calls_tac |..].
      * cok.
      * destruct (pipelining cf); simpl; intros; left; eauto.
      * destruct (pipelining cf); simpl; intros; left; eauto.
      * destruct (pipelining cf); simpl; auto.
      * cok.
      * destruct (pipelining cf); simpl; apply W.
      * eapply rd_ok_pres; [apply W|..]; destruct (pipelining cf); simpl; auto.
    + eapply stable_upd; [destruct (pipelining cf); calls_tac|]. intros k0 E L; rewrite Hc in E; injection E as <-; congruence.
    + intros n NI Hn Hn2. split; [|destruct (pipelining cf); simpl; lia].
      eapply N_upd; [exact W|exact NI|destruct (pipelining cf); calls_tac|..].
      * destruct (pipelining cf); simpl; auto.
      * cok.
      * intros q. left. exists k. split; [exact Hc|]. cok.
      * destruct (pipelining cf); simpl; lia.
  - (* registered *)
    apply orb_false_iff in Hsh as [Hsh Hcl].
    assert (ND : s_rd s ≠ RdDead).
    { intros D. destruct (w_rd _ _ W) as (R1 & _). apply R1 in D. congruence. }
    injection H as <-. split; [|split].
    + eapply W_upd; [exact W| destruct (pipelining cf); calls_tac |..].
      * cok.
      * assert (∀ q0 c0, <[s_seq s := c]> (s_pending s) !! q0 = Some c0 →
           c0 ≠ c ∧ s_pending s !! q0 = Some c0 ∨ c0 = c ∧ LPending (s_seq s) = LPending q0).
        { intros q0 c0. destruct (decide (q0 = s_seq s)) as [E|E]; subst.
          - rewrite lookup_insert. intros [= <-]. right. auto.
          - rewrite lookup_insert_ne by congruence. intros. left. eauto. }
        destruct (pipelining cf); simpl; assumption.
      * destruct (pipelining cf); simpl; intros; left; eauto.
      * destruct (pipelining cf); simpl; auto.
      * cok.
      * destruct (pipelining cf); simpl; apply W.
      * destruct (w_rd _ _ W) as (R1 & R2 & R3 & R4).
        unfold rd_ok. destruct (pipelining cf); simpl; repeat split; try tauto; intros D; tauto.
    + eapply stable_upd; [destruct (pipelining cf); calls_tac|]. intros k0 E L; rewrite Hc in E; injection E as <-; congruence.
    + intros n NI Hn Hn2.
      assert (Q : ∀ q0 c0, s_pending s !! q0 = Some c0 → q0 < s_seq s).
      { intros q0 c0 Hp. destruct (w_pend _ _ W _ _ Hp) as (k0 & H1 & H2).
        eapply (n_qlt _ NI); eauto. eapply ck_locq; eauto. eapply W; eauto. }
      pose proof (mod_small_64 _ _ Hn Hn2) as Hm.
      split; [|destruct (pipelining cf); simpl; lia].
      eapply N_upd; [exact W|exact NI|destruct (pipelining cf); calls_tac|..].
      * assert (∀ q0 c0, c0 ≠ c → s_pending s !! q0 = Some c0 → <[s_seq s := c]> (s_pending s) !! q0 = Some c0).
        { intros q0 c0 N Hp. rewrite lookup_insert_ne; [exact Hp|]. apply Q in Hp. lia. }
        destruct (pipelining cf); simpl; assumption.
      * assert (∀ q0, LPending (s_seq s) = LPending q0 → <[s_seq s := c]> (s_pending s) !! q0 = Some c).
        { intros q0 [= <-]. apply lookup_insert. }
        destruct (pipelining cf); simpl; assumption.
      * intros q E. right. assert (q = s_seq s) by (cok). subst q.
        destruct (pipelining cf); simpl; split; auto; lia.
      * destruct (pipelining cf); simpl; lia.
Qed.

Ltac pl cf := destruct (pipelining cf); simpl.
Ltac plc cf := destruct (pipelining cf); calls_tac.

Lemma step_writeret cf s s' c r : WInv cf s → step current cf s (AWriteRet c r) = Some s' → good cf s s'.
Proof.
  intros W H. unfold step in H.
  destruct (s_calls s !! c) as [k|] eqn:Hc; [|discriminate].
  destruct (k_wpc k) as [|q|] eqn:Hw; try discriminate.
  step_simpl H.
  pose proof (w_call _ _ W _ _ Hc) as Hk.
  pose proof (ck_wr _ _ Hk Hw) as Hq.
  assert (RD : ∀ s1, s_shutdown s1 = s_shutdown s → s_rd s1 = s_rd s → s_decq s1 = s_decq s →
               s_held s1 = s_held s → s_pending s1 = delete q (s_pending s) → rd_ok cf s1).
  { intros s1 E1 E2 E3 E5 E4. eapply rd_ok_pres; [apply W|..]; auto.
    intros _ E. rewrite E4, E. apply delete_empty. }
  destruct r as [e|].
  2: { (* the write succeeded *)
    injection H as <-. split; [|split].
    - eapply W_local; [exact W|exact Hc|plc cf|cok|cok|cok|..].
      + pl cf; auto.
      + pl cf; reflexivity.
      + eapply rd_ok_pres; [apply W|..]; pl cf; auto.
    - eapply stable_upd; [plc cf|]. intros k0 E L; rewrite Hc in E; injection E as <-. cok.
    - intros n NI Hn Hn2. split; [|pl cf; lia].
      eapply N_upd; [exact W|exact NI|plc cf|..].
      + pl cf; auto.
      + intros q0 L. assert (L' : k_loc k = LPending q0) by cok.
        pl cf; eapply (n_locpend _ NI); eauto.
      + intros q1 E. left. exists k. split; [exact Hc|cok].
      + pl cf; lia. }
  destruct (bool_decide (s_pending s !! q = Some c)) eqn:Hpres.
  - apply bool_decide_eq_true in Hpres.
    assert (Hl : k_loc k = LPending q).
    { destruct (w_pend _ _ W _ _ Hpres) as (k0 & H1 & H2). congruence. }
    assert (F : ∀ t, t ∈ s_finq s → fin_call t ≠ c).
    { intros t. eapply fin_not; eauto. congruence. }
    injection H as <-. split; [|split].
    + eapply W_upd; [exact W| plc cf |..].
      * cok.
      * assert (∀ q0 c0, delete q (s_pending s) !! q0 = Some c0 →
           c0 ≠ c ∧ s_pending s !! q0 = Some c0 ∨ c0 = c ∧ LDone = LPending q0).
        { intros q0 c0 H. apply lookup_delete_Some in H as [N H]. left. split; [|exact H].
          intros ->. apply N. eapply pend_inj; eauto. }
        pl cf; assumption.
      * pl cf; intros; left; eauto.
      * pl cf; auto.
      * cok.
      * pl cf; apply W.
      * apply RD; pl cf; auto.
    + eapply stable_upd; [plc cf|]. intros k0 E L; rewrite Hc in E; injection E as <-; congruence.
    + intros n NI Hn Hn2. split; [|pl cf; lia].
      eapply N_upd; [exact W|exact NI|plc cf|..].
      * assert (∀ q0 c0, c0 ≠ c → s_pending s !! q0 = Some c0 → delete q (s_pending s) !! q0 = Some c0).
        { intros q0 c0 N H. rewrite lookup_delete_ne; [exact H|]. intros <-. congruence. }
        pl cf; assumption.
      * cok.
      * intros q1 E. left. exists k. split; [exact Hc|cok].
      * pl cf; lia.
  - apply bool_decide_eq_false in Hpres.
    injection H as <-. split; [|split].
    + eapply W_local; [exact W|exact Hc|plc cf|cok|cok|cok|..].
      * assert (∀ q0 c0, delete q (s_pending s) !! q0 = Some c0 → s_pending s !! q0 = Some c0).
        { intros q0 c0 H. apply lookup_delete_Some in H as [N H]. exact H. }
        pl cf; assumption.
      * pl cf; reflexivity.
      * apply RD; pl cf; auto.
    + eapply stable_upd; [plc cf|]. intros k0 E L; rewrite Hc in E; injection E as <-. cok.
    + intros n NI Hn Hn2. split; [|pl cf; lia].
      eapply N_upd; [exact W|exact NI|plc cf|..].
      * assert (∀ q0 c0, c0 ≠ c → s_pending s !! q0 = Some c0 → delete q (s_pending s) !! q0 = Some c0).
        { intros q0 c0 N H. rewrite lookup_delete_ne; [exact H|]. intros <-. apply N.
          destruct (w_pend _ _ W _ _ H) as (k0 & H1 & H2).
          eapply (n_qinj _ NI c0 c); eauto. eapply ck_locq; eauto. eapply W; eauto. }
        pl cf; assumption.
      * intros q0 L. exfalso. apply Hpres. assert (L' : k_loc k = LPending q0) by cok.
        pose proof (ck_locq _ _ Hk L') as Q. assert (q0 = q) by congruence. subst q0.
        eapply (n_locpend _ NI); eauto.
      * intros q1 E. left. exists k. split; [exact Hc|cok].
      * pl cf; lia.
Qed.

Lemma good_env cf s s' :
  WInv cf s → s_calls s' = s_calls s → s_finq s' = s_finq s → s_pending s' = s_pending s →
  s_seq s' = s_seq s → rd_ok cf s' → good cf s s'.
Proof.
  intros W E1 E2 E3 E4 R. split; [|split].
  - eapply W_env; eauto. rewrite E3. auto.
  - apply stable_env; auto.
  - intros n NI Hn Hn2. split; [|lia]. eapply N_env; eauto.
Qed.

Lemma step_arrive cf s s' f : WInv cf s → step current cf s (AArrive f) = Some s' → good cf s s'.
Proof.
  intros W H. unfold step in H. destruct (s_rd s) eqn:Hrd; try discriminate.
  match type of H with (if ?b then _ else _) = _ => destruct b; [discriminate|] end.
  injection H as <-. apply good_env; auto.
  destruct (w_rd _ _ W) as (R1 & R2 & R3 & R4). unfold rd_ok. simpl. rewrite Hrd in *.
  repeat split; try tauto; try discriminate.
  intros _. destruct (s_decq s); discriminate.
Qed.

Lemma step_readerr cf s s' e : WInv cf s → step current cf s (AReadErr e) = Some s' → good cf s s'.
Proof.
  intros W H. unfold step in H. destruct (s_rd s) eqn:Hrd; try discriminate.
  match type of H with (if ?b then _ else _) = _ => destruct b eqn:Hb; [discriminate|] end.
  injection H as <-. apply good_env; auto.
  destruct (w_rd _ _ W) as (R1 & R2 & R3 & R4). unfold rd_ok. simpl. rewrite Hrd in *.
  repeat split; try tauto; try discriminate.
  - intros D. apply R1 in D. discriminate.
  - intros D _. rewrite D in Hb. destruct (s_decq s); [reflexivity|discriminate].
Qed.

Lemma step_close cf s s' : WInv cf s → step current cf s AClose = Some s' → good cf s s'.
Proof.
  intros W H. unfold step in H.
  destruct (s_closing s); injection H as <-; apply good_env; auto;
    (eapply rd_ok_pres; [apply W|..]; auto).
Qed.

Lemma step_ctxdone cf s s' c : WInv cf s → step current cf s (ACtxDone c) = Some s' → good cf s s'.
Proof.
  intros W H. unfold step in H.
  destruct (s_calls s !! c) as [k|] eqn:Hc; [|discriminate].
  destruct (k_kind k) eqn:Hkd; try discriminate.
  destruct (k_abandoned k || (0 <? k_recv k)%nat) eqn:Hb; [discriminate|].
  match type of H with (if ?b then _ else _) = _ => destruct b; [discriminate|] end.
  pose proof (w_call _ _ W _ _ Hc) as Hk.
  injection H as <-. split; [|split].
  - eapply W_local; [exact W|exact Hc|calls_tac|cok|cok|cok|..]; simpl; auto.
    eapply rd_ok_pres; [apply W|..]; auto.
  - eapply stable_upd; [calls_tac|]. intros k0 E L; rewrite Hc in E; injection E as <-. cok.
  - intros n NI Hn Hn2. split; [|simpl; lia].
    eapply N_upd; [exact W|exact NI|calls_tac|..]; simpl; auto.
    + intros q0 L. assert (L' : k_loc k = LPending q0) by cok. eapply (n_locpend _ NI); eauto.
    + intros q1 E. left. exists k. split; [exact Hc|cok].
Qed.

Lemma step_recv cf s s' c : WInv cf s → step current cf s (ARecv c) = Some s' → good cf s s'.
Proof.
  intros W H. unfold step in H.
  destruct (s_calls s !! c) as [k|] eqn:Hc; [|discriminate].
  destruct (k_abandoned k || negb (k_recv k <? k_sig k)%nat) eqn:Hb; [discriminate|].
  match type of H with (if ?b then _ else _) = _ => destruct b; [discriminate|] end.
  pose proof (w_call _ _ W _ _ Hc) as Hk.
  injection H as <-. split; [|split].
  - eapply W_local; [exact W|exact Hc|calls_tac| |cok|cok|..]; simpl; auto.
    + clear W Hc. cok; destruct k_loc; try lia; destruct k_kind; try congruence; try lia; tauto.
    + eapply rd_ok_pres; [apply W|..]; auto.
  - eapply stable_upd; [calls_tac|]. intros k0 E L; rewrite Hc in E; injection E as <-. cok.
  - intros n NI Hn Hn2. split; [|simpl; lia].
    eapply N_upd; [exact W|exact NI|calls_tac|..]; simpl; auto.
    + intros q0 L. assert (L' : k_loc k = LPending q0) by cok. eapply (n_locpend _ NI); eauto.
    + intros q1 E. left. exists k. split; [exact Hc|cok].
Qed.

Lemma step_finish cf s s' i : WInv cf s → step current cf s (AFinish i) = Some s' → good cf s s'.
Proof.
  intros W H. unfold step in H.
  match type of H with (if ?b then _ else _) = _ => destruct b; [discriminate|] end.
  destruct (s_finq s !! i) as [t|] eqn:Hi; [|discriminate].
  destruct (remove_nth_facts fin_call _ _ _ Hi (w_nodup _ _ W)) as (R1 & R2 & R3).
  assert (Ht : t ∈ s_finq s) by (eapply elem_of_list_lookup_2; eauto).
  destruct (w_fin _ _ W _ Ht) as (k & Hc & Hl & Hto).
  pose proof (w_call _ _ W _ _ Hc) as Hk.
  assert (P : ∀ q0 c0, s_pending s !! q0 = Some c0 → c0 ≠ fin_call t).
  { intros q0 c0. eapply pend_not; eauto. congruence. }
  assert (RD : ∀ s1, s_shutdown s1 = s_shutdown s → s_rd s1 = s_rd s → s_decq s1 = s_decq s →
               s_held s1 = s_held s → s_pending s1 = s_pending s → rd_ok cf s1).
  { intros s1 E1 E2 E3 E5 E4. eapply rd_ok_pres; [apply W|..]; auto; congruence. }
  destruct t as [c body bodyok|c]; simpl in *; injection H as <-.
  - split; [|split].
    + eapply W_upd; [exact W|calls_tac|..]; simpl.
      * destruct bodyok; cok.
      * intros; left; eauto.
      * intros t0 H0. left. apply R2 in H0. tauto.
      * intros t0 H0 N. apply R3; auto.
      * discriminate.
      * exact R1.
      * apply RD; auto.
    + eapply stable_upd; [calls_tac|]. intros k0 E L; rewrite Hc in E; injection E as <-; congruence.
    + intros n NI Hn Hn2. split; [|simpl; lia].
      eapply N_upd; [exact W|exact NI|calls_tac|..]; simpl; auto.
      * discriminate.
      * intros q1 E. left. exists k. split; [exact Hc|cok].
  - split; [|split].
    + eapply W_upd; [exact W|calls_tac|..]; simpl.
      * cok.
      * intros; left; eauto.
      * intros t0 H0. left. apply R2 in H0. tauto.
      * intros t0 H0 N. apply R3; auto.
      * discriminate.
      * exact R1.
      * apply RD; auto.
    + eapply stable_upd; [calls_tac|]. intros k0 E L; rewrite Hc in E; injection E as <-; congruence.
    + intros n NI Hn Hn2. split; [|simpl; lia].
      eapply N_upd; [exact W|exact NI|calls_tac|..]; simpl; auto.
      * discriminate.
      * intros q1 E. left. exists k. split; [exact Hc|cok].
Qed.

Lemma step_pickup cf s s' : WInv cf s → step current cf s APickup = Some s' → good cf s s'.
Proof.
  intros W H. unfold step in H.
  destruct (s_decq s) as [|f rest] eqn:Hd; [discriminate|].
  destruct (s_held s) eqn:Hh; [discriminate|].
  match type of H with (if ?b then _ else _) = _ => destruct b; [discriminate|] end.
  destruct (rd_ok_nonempty _ _ (w_rd _ _ W)) as (Hsh & Hnd & Hdio). { rewrite Hd; discriminate. }
  destruct (w_rd _ _ W) as (R1 & R2 & R3 & R4).
  destruct (s_codec_closed s); injection H as <-; apply good_env; auto; unfold rd_ok; simpl;
    rewrite ?Hd, ?Hh; repeat split; try tauto; try discriminate.
Qed.

(* the two ways a decoded response leaves the pending table *)
Lemma decode_done cf s s' q c k k' :
  WInv cf s → s_pending s !! q = Some c → s_calls s !! c = Some k →
  s_calls s' = <[c := k']> (s_calls s) → s_pending s' = delete q (s_pending s) →
  s_finq s' = s_finq s → s_seq s' = s_seq s → rd_ok cf s' →
  call_ok k' → k_loc k' = LDone → k_q k' = k_q k →
  good cf s s'.
Proof.
  intros W Hp Hc E1 E2 E3 E4 RD Hk' Hl' Hq'.
  assert (Hl : k_loc k = LPending q).
  { destruct (w_pend _ _ W _ _ Hp) as (k0 & H1 & H2). congruence. }
  assert (F : ∀ t, t ∈ s_finq s → fin_call t ≠ c).
  { intros t. eapply fin_not; eauto. congruence. }
  split; [|split].
  - eapply W_upd; eauto; rewrite ?E2, ?E3.
    + intros q0 c0 H. apply lookup_delete_Some in H as [N H]. left. split; [|exact H].
      intros ->. apply N. eapply pend_inj; eauto.
    + intros; left; eauto.
    + auto.
    + congruence.
    + apply W.
  - eapply stable_upd; eauto. intros k0 E L; rewrite Hc in E; injection E as <-; congruence.
  - intros n NI Hn Hn2. split; [|lia]. eapply N_upd; eauto; rewrite ?E2.
    + intros q0 c0 N H. rewrite lookup_delete_ne; [exact H|]. intros <-. congruence.
    + congruence.
    + intros q1 E. left. exists k. split; [exact Hc|congruence].
    + lia.
Qed.

Lemma decode_enq cf s s' q c k k' t1 :
  WInv cf s → s_pending s !! q = Some c → s_calls s !! c = Some k →
  s_calls s' = <[c := k']> (s_calls s) → s_pending s' = delete q (s_pending s) →
  s_finq s' = s_finq s ++ [t1] → s_seq s' = s_seq s → rd_ok cf s' →
  call_ok k' → k_loc k' = LFinish → k_q k' = k_q k → fin_call t1 = c → task_ok t1 k' →
  good cf s s'.
Proof.
  intros W Hp Hc E1 E2 E3 E4 RD Hk' Hl' Hq' Ht1 Hto.
  assert (Hl : k_loc k = LPending q).
  { destruct (w_pend _ _ W _ _ Hp) as (k0 & H1 & H2). congruence. }
  assert (F : ∀ t, t ∈ s_finq s → fin_call t ≠ c).
  { intros t. eapply fin_not; eauto. congruence. }
  split; [|split].
  - eapply W_upd; eauto; rewrite ?E2, ?E3.
    + intros q0 c0 H. apply lookup_delete_Some in H as [N H]. left. split; [|exact H].
      intros ->. apply N. eapply pend_inj; eauto.
    + intros t Ht. apply elem_of_app in Ht as [Ht|Ht]; [left; eauto|].
      apply elem_of_list_singleton in Ht as ->. right. auto.
    + intros t Ht _. apply elem_of_app. left. exact Ht.
    + intros _. exists t1. split; [|exact Ht1]. apply elem_of_app. right. left.
    + rewrite fmap_app. apply NoDup_app. split; [apply W|]. split; [|apply NoDup_singleton].
      intros x Hx Hx2. apply elem_of_list_singleton in Hx2 as ->.
      apply elem_of_list_fmap in Hx as (t & Et & Ht). rewrite Ht1 in Et. eapply F; eauto.
  - eapply stable_upd; eauto. intros k0 E L; rewrite Hc in E; injection E as <-; congruence.
  - intros n NI Hn Hn2. split; [|lia]. eapply N_upd; eauto; rewrite ?E2.
    + intros q0 c0 N H. rewrite lookup_delete_ne; [exact H|]. intros <-. congruence.
    + congruence.
    + intros q1 E. left. exists k. split; [exact Hc|congruence].
    + lia.
Qed.

Lemma step_decode cf s s' : WInv cf s → step current cf s ADecode = Some s' → good cf s s'.
Proof.
  intros W H. unfold step in H.
  destruct (s_decq s) as [|f rest] eqn:Hd; [discriminate|].
  destruct (s_held s) eqn:Hh; [|discriminate].
  step_simpl H.
  destruct (rd_ok_nonempty _ _ (w_rd _ _ W)) as (Hsh & Hnd & Hdio). { rewrite Hd; discriminate. }
  assert (RD : ∀ s1, s_shutdown s1 = s_shutdown s → s_rd s1 = s_rd s → s_decq s1 = rest →
               s_held s1 = false → rd_ok cf s1).
  { intros s1 E1 E2 E3 E5. destruct (w_rd _ _ W) as (R1 & R2 & R3 & R4). unfold rd_ok.
    rewrite E1, E2, E3, E5. split; [exact R1|]. split; [|split].
    - intros D; contradiction.
    - intros D N. apply Hdio in D. contradiction.
    - discriminate. }
  assert (ENV : good cf s (set_held false (set_decq rest s))).
  { apply good_env; auto. }
  destruct f as [|q e body bodyok]; [injection H as <-; exact ENV|].
  rewrite Hsh in H.
  destruct (s_pending s !! q) as [c|] eqn:Hp; [|injection H as <-; exact ENV].
  destruct (w_pend _ _ W _ _ Hp) as (k & Hc & Hl). rewrite Hc in H.
  pose proof (w_call _ _ W _ _ Hc) as Hk.
  destruct (negb (beqb e [])).
  - destruct (pipelining cf) eqn:Hpl; injection H as <-.
    + (eapply decode_enq; [exact W|exact Hp|exact Hc|calls_tac|reflexivity|reflexivity|reflexivity|apply RD; reflexivity|cok|cok|cok|reflexivity|cok]).
    + (eapply decode_done; [exact W|exact Hp|exact Hc|calls_tac|reflexivity|reflexivity|reflexivity|apply RD; reflexivity|cok|cok|cok]).
  - destruct (k_kind k); injection H as <-.
    1-4: (eapply decode_enq; [exact W|exact Hp|exact Hc|calls_tac|reflexivity|reflexivity|reflexivity|apply RD; reflexivity|cok|cok|cok|reflexivity|cok]).
    (eapply decode_done; [exact W|exact Hp|exact Hc|calls_tac|reflexivity|reflexivity|reflexivity|apply RD; reflexivity|cok|cok|cok]).
Qed.

(* ------------------------------------------------------------------ *)
(* the sweep                                                           *)
(* ------------------------------------------------------------------ *)
Definition Fsw (e : errv) : call → call := k_signal ∘ k_set_err e.

Lemma sweep_one_calls e s qc : s_calls (sweep_one current e s qc) = alter (Fsw e) qc.2 (s_calls s).
Proof.
  unfold sweep_one. cbn [current v_sweep_deletes]. autorewrite with calls.
  rewrite <- alter_compose. reflexivity.
Qed.

Lemma fold_pres {A} (P : st → A) v e :
  (∀ s qc, P (sweep_one v e s qc) = P s) → ∀ l s, P (fold_left (sweep_one v e) l s) = P s.
Proof. intros H l. induction l as [|a l IH]; intros s; simpl; [reflexivity|]. rewrite IH. apply H. Qed.

Lemma fold_calls e l s :
  s_calls (fold_left (sweep_one current e) l s) =
  fold_left (λ m (qc : N * nat), alter (Fsw e) qc.2 m) l (s_calls s).
Proof.
  revert s. induction l as [|a l IH]; intros s; simpl; [reflexivity|].
  rewrite IH, sweep_one_calls. reflexivity.
Qed.
Lemma fold_pending e l s :
  s_pending (fold_left (sweep_one current e) l s) =
  fold_left (λ p (qc : N * nat), delete qc.1 p) l (s_pending s).
Proof.
  revert s. induction l as [|a l IH]; intros s; simpl; [reflexivity|].
  rewrite IH. reflexivity.
Qed.

Lemma fold_alter_notin {A} (F : A → A) (l : list (N * nat)) (m : gmap nat A) c :
  c ∉ l.*2 → fold_left (λ m (qc : N * nat), alter F qc.2 m) l m !! c = m !! c.
Proof.
  revert m. induction l as [|a l IH]; intros m H; simpl; [reflexivity|].
  rewrite fmap_cons, not_elem_of_cons in H. destruct H as [H1 H2].
  rewrite IH by exact H2. apply lookup_alter_ne. congruence.
Qed.
Lemma fold_alter_in {A} (F : A → A) (l : list (N * nat)) (m : gmap nat A) c :
  NoDup l.*2 → c ∈ l.*2 → fold_left (λ m (qc : N * nat), alter F qc.2 m) l m !! c = F <$> m !! c.
Proof.
  revert m. induction l as [|a l IH]; intros m ND H; simpl.
  - apply elem_of_nil in H. contradiction.
  - rewrite fmap_cons in ND, H. apply NoDup_cons in ND as [N1 N2].
    apply elem_of_cons in H as [->|H].
    + rewrite fold_alter_notin by exact N1. apply lookup_alter.
    + rewrite IH by assumption. rewrite lookup_alter_ne; [reflexivity|]. intros <-. contradiction.
Qed.
Lemma fold_delete_None (l : list (N * nat)) (p : gmap N nat) q :
  p !! q = None → fold_left (λ p (qc : N * nat), delete qc.1 p) l p !! q = None.
Proof.
  revert p. induction l as [|a l IH]; intros p H; simpl; [exact H|].
  apply IH. apply lookup_delete_None. auto.
Qed.
Lemma fold_delete_in (l : list (N * nat)) (p : gmap N nat) q :
  q ∈ l.*1 → fold_left (λ p (qc : N * nat), delete qc.1 p) l p !! q = None.
Proof.
  revert p. induction l as [|a l IH]; intros p H; simpl.
  - apply elem_of_nil in H. contradiction.
  - rewrite fmap_cons in H. apply elem_of_cons in H as [->|H].
    + apply fold_delete_None. apply lookup_delete.
    + apply IH. exact H.
Qed.
Lemma fold_delete_all (p : gmap N nat) :
  fold_left (λ p (qc : N * nat), delete qc.1 p) (map_to_list p) p = ∅.
Proof.
  apply map_empty. intros q. destruct (p !! q) as [c|] eqn:E.
  - apply fold_delete_in. apply elem_of_list_fmap. exists (q, c). split; [reflexivity|].
    apply elem_of_map_to_list. exact E.
  - apply fold_delete_None. exact E.
Qed.

Definition swept (s : st) (c : nat) : Prop := c ∈ (map_to_list (s_pending s)).*2.
Global Instance swept_dec s c : Decision (swept s c).
Proof. unfold swept. apply _. Qed.
Lemma swept_iff s c : swept s c ↔ ∃ q, s_pending s !! q = Some c.
Proof.
  unfold swept. rewrite elem_of_list_fmap. split.
  - intros ([q c'] & -> & H). exists q. apply elem_of_map_to_list in H. exact H.
  - intros (q & H). exists (q, c). split; [reflexivity|]. apply elem_of_map_to_list. exact H.
Qed.
Definition pinj (s : st) : Prop :=
  ∀ q1 q2 c, s_pending s !! q1 = Some c → s_pending s !! q2 = Some c → q1 = q2.
Lemma swept_nodup s : pinj s → NoDup (map_to_list (s_pending s)).*2.
Proof.
  intros W. apply NoDup_fmap_2_strong; [|apply NoDup_map_to_list].
  intros [q1 c1] [q2 c2] H1 H2. simpl. intros <-.
  apply elem_of_map_to_list in H1, H2. f_equal. eapply W; eauto.
Qed.

(* what the sweep does, field by field *)
Lemma sweep_spec e s :
  pinj s →
  let s' := sweep current e s in
  s_pending s' = ∅ ∧
  (∀ c, swept s c → s_calls s' !! c = Fsw e <$> s_calls s !! c) ∧
  (∀ c, ¬ swept s c → s_calls s' !! c = s_calls s !! c) ∧
  s_seq s' = s_seq s ∧ s_shutdown s' = s_shutdown s ∧ s_decq s' = s_decq s ∧
  s_finq s' = s_finq s ∧ s_rd s' = s_rd s ∧ s_held s' = s_held s.
Proof.
  intros W s'. subst s'. unfold sweep. split; [|split; [|split]].
  - rewrite fold_pending. apply fold_delete_all.
  - intros c Hc. rewrite fold_calls. apply fold_alter_in; [eapply swept_nodup; eauto|exact Hc].
  - intros c Hc. rewrite fold_calls. apply fold_alter_notin. exact Hc.
  - repeat split.
    + apply (fold_pres s_seq). reflexivity.
    + apply (fold_pres s_shutdown). reflexivity.
    + apply (fold_pres s_decq). reflexivity.
    + apply (fold_pres s_finq). reflexivity.
    + apply (fold_pres s_rd). reflexivity.
    + apply (fold_pres s_held). reflexivity.
Qed.

Lemma step_sweep cf s s' : WInv cf s → step current cf s ASweep = Some s' → good cf s s'.
Proof.
  intros W H. unfold step in H. destruct (s_rd s) as [|e|] eqn:Hrd; try discriminate.
  step_simpl H.
  match type of H with (if ?b then _ else _) = _ => destruct b eqn:Hb; [discriminate|] end.
  assert (PI : pinj (set_shutdown s)).
  { intros q1 q2 c. simpl. eapply pend_inj; eauto. }
  destruct (sweep_spec e _ PI) as (S1 & S2 & S3 & S4 & S5 & S6 & S7 & S8 & S9).
  simpl in S4, S5, S6, S7, S8, S9.
  assert (SW : ∀ c, swept (set_shutdown s) c ↔ ∃ q, s_pending s !! q = Some c).
  { intros c. apply (swept_iff (set_shutdown s)). }
  set (s1 := sweep current e (set_shutdown s)) in *.
  injection H as <-.
  assert (Hd : s_decq s = []).
  { destruct (w_rd _ _ W) as (R1 & R2 & R3 & R4). destruct (directIO cf) eqn:Hdio.
    - apply R3; [reflexivity|]. congruence.
    - simpl in Hb. destruct (s_decq s); [reflexivity|discriminate]. }
  (* every call of the new state comes from one of the old state *)
  assert (OLD : ∀ c k', s_calls s1 !! c = Some k' →
            (¬ swept (set_shutdown s) c ∧ s_calls s !! c = Some k') ∨
            (∃ k q, s_pending s !! q = Some c ∧ s_calls s !! c = Some k ∧ k_loc k = LPending q ∧ k' = Fsw e k)).
  { intros c k' Hc. destruct (decide (swept (set_shutdown s) c)) as [Y|N].
    - right. rewrite (S2 _ Y) in Hc. simpl in Hc. apply SW in Y as (q & Hq).
      destruct (w_pend _ _ W _ _ Hq) as (k & H1 & H2). rewrite H1 in Hc. simpl in Hc.
      injection Hc as <-. eauto 6.
    - left. rewrite (S3 _ N) in Hc. auto. }
  split; [|split].
  - constructor; simpl; rewrite ?S1, ?S7.
    + intros c k' Hc. destruct (OLD _ _ Hc) as [[N H1]|(k & q & Hq & H1 & H2 & ->)].
      * eapply W; eauto.
      * pose proof (w_call _ _ W _ _ H1). unfold Fsw. cok.
    + intros q c Hq. rewrite lookup_empty in Hq. discriminate.
    + intros t Ht. destruct (w_fin _ _ W _ Ht) as (k & H1 & H2 & H3). exists k.
      split; [|auto]. rewrite S3; [exact H1|]. intros Y. apply SW in Y as (q & Hq).
      destruct (w_pend _ _ W _ _ Hq) as (k0 & H4 & H5). congruence.
    + intros c k' Hc Hl. destruct (OLD _ _ Hc) as [[N H1]|(k & q & Hq & H1 & H2 & ->)].
      * eapply W; eauto.
      * discriminate.
    + apply W.
    + unfold rd_ok. simpl. rewrite S1, S6, S9, Hd. repeat split; try tauto; try discriminate.
      destruct (w_rd _ _ W) as (R1 & R2 & R3 & R4). rewrite Hd in R4. exact R4.
  - intros c k Hc Hl. exists k. simpl. split; [|cok]. rewrite S3; [exact Hc|].
    intros Y. apply SW in Y as (q & Hq). destruct (w_pend _ _ W _ _ Hq) as (k0 & H4 & H5). congruence.
  - intros n NI Hn Hn2. split; [|simpl; lia]. constructor; simpl; rewrite ?S1, ?S4.
    + intros c k' q Hc Hl. destruct (OLD _ _ Hc) as [[N H1]|(k & q0 & Hq & H1 & H2 & ->)].
      * exfalso. apply N. apply SW. exists q. eapply (n_locpend _ NI); eauto.
      * discriminate.
    + intros c k' q Hc Hq. destruct (OLD _ _ Hc) as [[N H1]|(k & q0 & Hq0 & H1 & H2 & ->)].
      * eapply (n_qlt _ NI); eauto.
      * eapply (n_qlt _ NI); eauto.
    + intros c1 c2 k1 k2 q Hc1 Hc2 Q1 Q2.
      assert (A1 : ∃ k, s_calls s !! c1 = Some k ∧ k_q k = Some q).
      { destruct (OLD _ _ Hc1) as [[N H1]|(k & q0 & Hq0 & H1 & H2 & ->)]; eauto. }
      assert (A2 : ∃ k, s_calls s !! c2 = Some k ∧ k_q k = Some q).
      { destruct (OLD _ _ Hc2) as [[N H1]|(k & q0 & Hq0 & H1 & H2 & ->)]; eauto. }
      destruct A1 as (k1' & ? & ?), A2 as (k2' & ? & ?). eapply (n_qinj _ NI); eauto.
Qed.

(* ------------------------------------------------------------------ *)
(* all actions, and runs                                               *)
(* ------------------------------------------------------------------ *)
Lemma step_good cf s s' a : WInv cf s → step current cf s a = Some s' → good cf s s'.
Proof.
  destruct a; eauto using step_start, step_send, step_writeret, step_arrive, step_pickup, step_decode,
    step_finish, step_readerr, step_sweep, step_close, step_ctxdone, step_recv.
Qed.

Lemma init_W cf : WInv cf init.
Proof.
  constructor; simpl.
  - intros c k H. rewrite lookup_empty in H. discriminate.
  - intros q c H. rewrite lookup_empty in H. discriminate.
  - intros t H. apply elem_of_nil in H. contradiction.
  - intros c k H. rewrite lookup_empty in H. discriminate.
  - apply NoDup_nil_2.
  - unfold rd_ok. simpl. repeat split; try discriminate; auto.
Qed.
Lemma init_N : NInv init.
Proof.
  constructor; simpl; intros *; rewrite lookup_empty; discriminate.
Qed.

Lemma stable_refl s : stable s s.
Proof. apply stable_env. reflexivity. Qed.
Lemma stable_trans s1 s2 s3 : stable s1 s2 → stable s2 s3 → stable s1 s3.
Proof.
  intros H1 H2 c k Hc Hl. destruct (H1 _ _ Hc Hl) as (k2 & Hc2 & Ho2).
  assert (Hl2 : k_loc k2 = LDone) by apply Ho2.
  destruct (H2 _ _ Hc2 Hl2) as (k3 & Hc3 & Ho3). exists k3. split; [exact Hc3|].
  unfold same_outcome in *. intuition congruence.
Qed.

Lemma run_W cf tr s s' : WInv cf s → run current cf tr s = Some s' → WInv cf s' ∧ stable s s'.
Proof.
  revert s. induction tr as [|a tr IH]; intros s W H; simpl in H.
  - injection H as <-. split; [exact W|apply stable_refl].
  - destruct (step current cf s a) as [s1|] eqn:E; [|discriminate].
    destruct (step_good _ _ _ _ W E) as (W1 & St & _).
    destruct (IH _ W1 H) as (W2 & St2). split; [exact W2|]. eapply stable_trans; eauto.
Qed.

Lemma run_N cf tr s s' n :
  WInv cf s → NInv s → s_seq s ≤ n → n + N.of_nat (length tr) < 2^64 →
  run current cf tr s = Some s' → NInv s' ∧ s_seq s' ≤ n + N.of_nat (length tr).
Proof.
  revert s n. induction tr as [|a tr IH]; intros s n W NI Hn Hb H; simpl in H.
  - injection H as <-. split; [exact NI|]. simpl. lia.
  - destruct (step current cf s a) as [s1|] eqn:E; [|discriminate].
    destruct (step_good _ _ _ _ W E) as (W1 & _ & St).
    simpl length in *. rewrite Nat2N.inj_succ in *.
    destruct (St n NI Hn) as (NI1 & Hn1); [lia|].
    destruct (IH s1 (n + 1) W1 NI1 Hn1) as (NI2 & Hn2); [lia|exact H|].
    split; [exact NI2|lia].
Qed.
