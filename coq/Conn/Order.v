(* Conn/Order.v — C05, client half: with client pipelining every completion that results from a decoded
   response goes through one FIFO queue, successes and (code variant [current]) errors alike:
   decoding appends at the tail and only the head can be finished. *)
From stdpp Require Import gmap.
From RPC Require Import Res.
From RPC.Conn Require Import Model InvLemmas.
Open Scope N_scope.

Definition pipe (d : bool) : cfg := {| directIO := d; pipelining := true |}.

(* only the head of the completion queue can be finished, and that signals exactly its call *)
Theorem finish_is_fifo d s i s' : step current (pipe d) s (AFinish i) = Some s' ->
  i = 0%nat /\ exists t rest, s_finq s = t :: rest /\ s_finq s' = rest /\ s_sigs s' = s_sigs s ++ [fin_call t].
Proof.
  unfold step, ordered_fin, pipe. cbn [pipelining directIO orb].
  destruct (Nat.eqb_spec i 0) as [->|N]; cbn [negb andb]; [|discriminate].
  destruct (s_finq s) as [|t rest] eqn:E; cbn; [discriminate|].
  intros H. split; [reflexivity|]. exists t, rest. split; [reflexivity|].
  destruct t as [c body ok|c]; inversion H; subst; clear H; cbn; split; reflexivity.
Qed.

(* decoding a response never signals a non-heartbeat call directly: it appends one completion task at the tail
   (or drops the frame) *)
Theorem decode_appends d s s' : step current (pipe d) s ADecode = Some s' ->
  (s_finq s' = s_finq s /\ (s_sigs s' = s_sigs s \/
      exists c k, s_calls s !! c = Some k /\ k_kind k = KPing /\ s_sigs s' = s_sigs s ++ [c])) \/
  (exists t, s_finq s' = s_finq s ++ [t] /\ s_sigs s' = s_sigs s).
Proof.
  unfold step, pipe. cbn [pipelining directIO v_err_via_q current andb].
  destruct (s_decq s) as [|f rest]; [discriminate|].
  destruct (s_held s); cbn [negb]; [|discriminate].
  destruct f as [|q e body bodyok]; [intros H; inversion H; subst; left; cbn; auto|].
  destruct (s_shutdown s); [intros H; inversion H; subst; left; cbn; auto|].
  destruct (s_pending s !! q) as [c|]; [|intros H; inversion H; subst; left; cbn; auto].
  destruct (s_calls s !! c) as [k|] eqn:Ek; [|intros H; inversion H; subst; left; cbn; auto].
  destruct (negb (beqb e [])).
  - intros H; inversion H; subst; clear H. right. eexists. cbn. split; reflexivity.
  - destruct (k_kind k) eqn:Kk; intros H; inversion H; subst; clear H;
      try (right; eexists; cbn; split; reflexivity).
    left. cbn. split; [reflexivity|]. right. exists c, k. repeat split; try assumption.
Qed.

Lemma sweep_finq e s : s_finq (sweep current e s) = s_finq s.
Proof. unfold sweep. apply (fold_pres s_finq). reflexivity. Qed.

(* every other action leaves the order of the queued completions alone *)
Theorem queue_only_grows_at_tail d s a s' : step current (pipe d) s a = Some s' ->
  (forall i, a <> AFinish i) -> exists l, s_finq s' = s_finq s ++ l.
Proof.
  intros H Hn.
  destruct a as [c k| | |f| | |i|e| | |c|c].
  6: { apply decode_appends in H as [[E _]|[t [E _]]];
         [exists []; rewrite app_nil_r; exact E|exists [t]; exact E]. }
  6: { exfalso; eapply Hn; reflexivity. }
  all: exists []; rewrite app_nil_r; unfold step in H; repeat case_match; simplify_eq; cbn;
       rewrite ?sweep_finq; (reflexivity || congruence).
Qed.
