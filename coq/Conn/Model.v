(* Conn/Model.v — the client connection (conn.go: send / recv / read /
   finishCall / Close / CallWithContext) as a machine of atomic actions.

   One action = one mutex critical section of the code, or one event of
   the environment (a frame arrives, a write returns, the read fails, a
   context fires).  The model has no proofs in it; it runs under
   vm_compute for the correspondence check (Corr/RunConn.v). *)
From stdpp Require Import gmap.
From RPC Require Import Res.
Open Scope N_scope.

Definition bytes := list N.

(* "The connection is shut down" *)
Definition shutdown_msg : bytes :=
  [84;104;101;32;99;111;110;110;101;99;116;105;111;110;32;105;115;32;115;104;117;116;32;100;111;119;110].

Inductive errv :=
| EShutdown                 (* ErrShutdown *)
| EText (t : bytes)         (* errors.New(text) from an error response *)
| EWrite (t : bytes)        (* the error WriteRequest returned *)
| ERead (t : bytes)         (* the error ReadMessage returned (not EOF) *)
| EBody.                    (* "reading body ..." *)

Inductive kind := KGo | KCall | KRoundTrip | KCtx | KPing.

(* where the thread executing conn.send for this call is *)
Inductive wpc := WQueued | WWriting (q : N) | WDone.

(* ghost: who currently owes this call its completion signal *)
Inductive loc := LFresh | LPending (q : N) | LFinish | LDone.

Record call := {
  k_kind : kind;
  k_wpc : wpc;
  k_q : option N;          (* ghost: the sequence number it was registered under *)
  k_loc : loc;             (* ghost *)
  k_sig : nat;             (* times put on its Done channel *)
  k_recv : nat;            (* times the caller took it from Done *)
  k_err : option errv;     (* Call.Error *)
  k_ok : bool;             (* completed on the success path *)
  k_reply : option bytes;  (* bytes handed to the body decoder *)
  k_late : nat;            (* writes to Error / Reply after the first signal *)
  k_abandoned : bool;      (* CallWithContext returned with ctx.Err() *)
  k_recycled : bool        (* PutCall has run *)
}.

Inductive frame :=
| FBad                                            (* header does not decode *)
| FResp (q : N) (e : bytes) (body : bytes) (bodyok : bool).

Inductive fin_task :=
| FinReply (c : nat) (body : bytes) (bodyok : bool)  (* finishCall *)
| FinDone (c : nat).                                  (* queued call.done() of an error response *)

Inductive rdstate := RdAlive | RdDraining (e : errv) | RdDead.

Record st := {
  s_seq : N;
  s_pending : gmap N nat;
  s_closing : bool;
  s_shutdown : bool;
  s_codec_closed : bool;
  s_calls : gmap nat call;
  s_writeq : list nat;      (* client pipelining: the write queue *)
  s_wbusy : bool;           (* client pipelining: the write worker is inside send *)
  s_decq : list frame;      (* the reader's decode queue ("pipeline") *)
  s_held : bool;            (* the head of the decode queue has passed the codec's closed check *)
  s_finq : list fin_task;   (* completion tasks (readSched, or the unordered pool) *)
  s_rd : rdstate;
  s_sigs : list nat;        (* order of completion signals *)
  s_close_ret : list bool   (* results of Close calls: true = nil, false = ErrShutdown *)
}.

(* code variants: [legacy] is the pinned tree, [current] the tree after the fix: commits *)
Record variant := {
  v_sweep_deletes : bool;   (* recv's sweep removes what it completes *)
  v_send_checks : bool;     (* send's write-error path completes only if still registered *)
  v_drain : bool;           (* recv drains the decode queue before the sweep *)
  v_err_via_q : bool        (* error responses complete through the completion queue when pipelining *)
}.
Definition legacy : variant := {| v_sweep_deletes := false; v_send_checks := false; v_drain := false; v_err_via_q := false |}.
Definition current : variant := {| v_sweep_deletes := true; v_send_checks := true; v_drain := true; v_err_via_q := true |}.

Record cfg := { directIO : bool; pipelining : bool }.

Inductive action :=
| AStart (c : nat) (k : kind)        (* the API call creates the Call and enters conn.write *)
| ASend (c : nat)                    (* conn.send: first critical section *)
| AWriteRet (c : nat) (r : option errv)  (* WriteRequest returns (None = nil error) *)
| AArrive (f : frame)                (* ReadMessage returns a frame *)
| APickup                            (* the decode worker takes the head: ReadResponseHeader's closed check *)
| ADecode                            (* conn.read on the head of the decode queue (header decode onwards) *)
| AFinish (i : nat)                  (* run the i-th completion task *)
| AReadErr (e : errv)                (* ReadMessage fails: EShutdown for io.EOF *)
| ASweep                             (* recv: mark shut down, fail what is pending *)
| AClose                             (* Conn.Close *)
| ACtxDone (c : nat)                 (* CallWithContext's select takes ctx.Done *)
| ARecv (c : nat).                   (* the caller receives from Done *)

Definition init : st := {|
  s_seq := 0; s_pending := ∅; s_closing := false; s_shutdown := false; s_codec_closed := false;
  s_calls := ∅; s_writeq := []; s_wbusy := false; s_decq := []; s_held := false; s_finq := []; s_rd := RdAlive;
  s_sigs := []; s_close_ret := [] |}.

Definition fresh_call (k : kind) : call := {|
  k_kind := k; k_wpc := WQueued; k_q := None; k_loc := LFresh; k_sig := 0; k_recv := 0; k_err := None;
  k_ok := false; k_reply := None; k_late := 0; k_abandoned := false; k_recycled := false |}.

(* ---- updates of one call ---- *)
Definition upd_call (c : nat) (f : call -> call) (s : st) : st :=
  {| s_seq := s_seq s; s_pending := s_pending s; s_closing := s_closing s; s_shutdown := s_shutdown s;
     s_codec_closed := s_codec_closed s;
     s_calls := match s_calls s !! c with Some k => <[c := f k]> (s_calls s) | None => s_calls s end;
     s_writeq := s_writeq s; s_wbusy := s_wbusy s; s_decq := s_decq s; s_held := s_held s; s_finq := s_finq s; s_rd := s_rd s;
     s_sigs := s_sigs s; s_close_ret := s_close_ret s |}.

(* call.Error = e *)
Definition k_set_err (e : errv) (k : call) : call :=
  {| k_kind := k_kind k; k_wpc := k_wpc k; k_q := k_q k; k_loc := k_loc k; k_sig := k_sig k; k_recv := k_recv k;
     k_err := Some e; k_ok := k_ok k; k_reply := k_reply k;
     k_late := if Nat.ltb 0 (k_sig k) then S (k_late k) else k_late k;
     k_abandoned := k_abandoned k; k_recycled := k_recycled k |}.

(* call.Value = b; body decode succeeded? *)
Definition k_set_reply (b : bytes) (ok : bool) (k : call) : call :=
  {| k_kind := k_kind k; k_wpc := k_wpc k; k_q := k_q k; k_loc := k_loc k; k_sig := k_sig k; k_recv := k_recv k;
     k_err := if ok then k_err k else Some EBody; k_ok := ok; k_reply := Some b;
     k_late := if Nat.ltb 0 (k_sig k) then S (k_late k) else k_late k;
     k_abandoned := k_abandoned k; k_recycled := k_recycled k |}.

Definition k_set_ok (k : call) : call :=
  {| k_kind := k_kind k; k_wpc := k_wpc k; k_q := k_q k; k_loc := k_loc k; k_sig := k_sig k; k_recv := k_recv k;
     k_err := k_err k; k_ok := true; k_reply := k_reply k; k_late := k_late k;
     k_abandoned := k_abandoned k; k_recycled := k_recycled k |}.

(* call.done() *)
Definition k_signal (k : call) : call :=
  {| k_kind := k_kind k; k_wpc := k_wpc k; k_q := k_q k; k_loc := LDone; k_sig := S (k_sig k); k_recv := k_recv k;
     k_err := k_err k; k_ok := k_ok k; k_reply := k_reply k; k_late := k_late k;
     k_abandoned := k_abandoned k; k_recycled := k_recycled k |}.

Definition k_set_wpc (w : wpc) (k : call) : call :=
  {| k_kind := k_kind k; k_wpc := w; k_q := k_q k; k_loc := k_loc k; k_sig := k_sig k; k_recv := k_recv k;
     k_err := k_err k; k_ok := k_ok k; k_reply := k_reply k; k_late := k_late k;
     k_abandoned := k_abandoned k; k_recycled := k_recycled k |}.

Definition k_register (q : N) (k : call) : call :=
  {| k_kind := k_kind k; k_wpc := WWriting q; k_q := Some q; k_loc := LPending q; k_sig := k_sig k; k_recv := k_recv k;
     k_err := k_err k; k_ok := k_ok k; k_reply := k_reply k; k_late := k_late k;
     k_abandoned := k_abandoned k; k_recycled := k_recycled k |}.

Definition k_set_loc (l : loc) (k : call) : call :=
  {| k_kind := k_kind k; k_wpc := k_wpc k; k_q := k_q k; k_loc := l; k_sig := k_sig k; k_recv := k_recv k;
     k_err := k_err k; k_ok := k_ok k; k_reply := k_reply k; k_late := k_late k;
     k_abandoned := k_abandoned k; k_recycled := k_recycled k |}.

Definition k_abandon (k : call) : call :=
  {| k_kind := k_kind k; k_wpc := k_wpc k; k_q := k_q k; k_loc := k_loc k; k_sig := k_sig k; k_recv := k_recv k;
     k_err := k_err k; k_ok := k_ok k; k_reply := k_reply k; k_late := k_late k;
     k_abandoned := true; k_recycled := k_recycled k |}.

Definition k_recv1 (k : call) : call :=
  {| k_kind := k_kind k; k_wpc := k_wpc k; k_q := k_q k; k_loc := k_loc k; k_sig := k_sig k; k_recv := S (k_recv k);
     k_err := k_err k; k_ok := k_ok k; k_reply := k_reply k; k_late := k_late k;
     k_abandoned := k_abandoned k;
     k_recycled := match k_kind k with KCall | KPing | KCtx => true | _ => k_recycled k end |}.

(* ---- updates of the shared state ---- *)
Definition set_pending (p : gmap N nat) (s : st) : st :=
  {| s_seq := s_seq s; s_pending := p; s_closing := s_closing s; s_shutdown := s_shutdown s;
     s_codec_closed := s_codec_closed s; s_calls := s_calls s; s_writeq := s_writeq s; s_wbusy := s_wbusy s;
     s_decq := s_decq s; s_held := s_held s; s_finq := s_finq s; s_rd := s_rd s; s_sigs := s_sigs s; s_close_ret := s_close_ret s |}.
Definition set_seq (n : N) (s : st) : st :=
  {| s_seq := n; s_pending := s_pending s; s_closing := s_closing s; s_shutdown := s_shutdown s;
     s_codec_closed := s_codec_closed s; s_calls := s_calls s; s_writeq := s_writeq s; s_wbusy := s_wbusy s;
     s_decq := s_decq s; s_held := s_held s; s_finq := s_finq s; s_rd := s_rd s; s_sigs := s_sigs s; s_close_ret := s_close_ret s |}.
Definition set_writeq (w : list nat) (b : bool) (s : st) : st :=
  {| s_seq := s_seq s; s_pending := s_pending s; s_closing := s_closing s; s_shutdown := s_shutdown s;
     s_codec_closed := s_codec_closed s; s_calls := s_calls s; s_writeq := w; s_wbusy := b;
     s_decq := s_decq s; s_held := s_held s; s_finq := s_finq s; s_rd := s_rd s; s_sigs := s_sigs s; s_close_ret := s_close_ret s |}.
Definition set_decq (d : list frame) (s : st) : st :=
  {| s_seq := s_seq s; s_pending := s_pending s; s_closing := s_closing s; s_shutdown := s_shutdown s;
     s_codec_closed := s_codec_closed s; s_calls := s_calls s; s_writeq := s_writeq s; s_wbusy := s_wbusy s;
     s_decq := d; s_held := s_held s; s_finq := s_finq s; s_rd := s_rd s; s_sigs := s_sigs s; s_close_ret := s_close_ret s |}.
Definition set_held (h : bool) (s : st) : st :=
  {| s_seq := s_seq s; s_pending := s_pending s; s_closing := s_closing s; s_shutdown := s_shutdown s;
     s_codec_closed := s_codec_closed s; s_calls := s_calls s; s_writeq := s_writeq s; s_wbusy := s_wbusy s;
     s_decq := s_decq s; s_held := h; s_finq := s_finq s; s_rd := s_rd s; s_sigs := s_sigs s; s_close_ret := s_close_ret s |}.
Definition set_finq (f : list fin_task) (s : st) : st :=
  {| s_seq := s_seq s; s_pending := s_pending s; s_closing := s_closing s; s_shutdown := s_shutdown s;
     s_codec_closed := s_codec_closed s; s_calls := s_calls s; s_writeq := s_writeq s; s_wbusy := s_wbusy s;
     s_decq := s_decq s; s_held := s_held s; s_finq := f; s_rd := s_rd s; s_sigs := s_sigs s; s_close_ret := s_close_ret s |}.
Definition set_rd (r : rdstate) (s : st) : st :=
  {| s_seq := s_seq s; s_pending := s_pending s; s_closing := s_closing s; s_shutdown := s_shutdown s;
     s_codec_closed := s_codec_closed s; s_calls := s_calls s; s_writeq := s_writeq s; s_wbusy := s_wbusy s;
     s_decq := s_decq s; s_held := s_held s; s_finq := s_finq s; s_rd := r; s_sigs := s_sigs s; s_close_ret := s_close_ret s |}.
Definition set_shutdown (s : st) : st :=
  {| s_seq := s_seq s; s_pending := s_pending s; s_closing := s_closing s; s_shutdown := true;
     s_codec_closed := s_codec_closed s; s_calls := s_calls s; s_writeq := s_writeq s; s_wbusy := s_wbusy s;
     s_decq := s_decq s; s_held := s_held s; s_finq := s_finq s; s_rd := s_rd s; s_sigs := s_sigs s; s_close_ret := s_close_ret s |}.
Definition set_closing (ret : bool) (s : st) : st :=
  {| s_seq := s_seq s; s_pending := s_pending s; s_closing := true; s_shutdown := s_shutdown s;
     s_codec_closed := true; s_calls := s_calls s; s_writeq := s_writeq s; s_wbusy := s_wbusy s;
     s_decq := s_decq s; s_held := s_held s; s_finq := s_finq s; s_rd := s_rd s; s_sigs := s_sigs s; s_close_ret := s_close_ret s ++ [ret] |}.
Definition add_close_ret (ret : bool) (s : st) : st :=
  {| s_seq := s_seq s; s_pending := s_pending s; s_closing := s_closing s; s_shutdown := s_shutdown s;
     s_codec_closed := s_codec_closed s; s_calls := s_calls s; s_writeq := s_writeq s; s_wbusy := s_wbusy s;
     s_decq := s_decq s; s_held := s_held s; s_finq := s_finq s; s_rd := s_rd s; s_sigs := s_sigs s; s_close_ret := s_close_ret s ++ [ret] |}.
Definition add_call (c : nat) (k : call) (s : st) : st :=
  {| s_seq := s_seq s; s_pending := s_pending s; s_closing := s_closing s; s_shutdown := s_shutdown s;
     s_codec_closed := s_codec_closed s; s_calls := <[c := k]> (s_calls s); s_writeq := s_writeq s; s_wbusy := s_wbusy s;
     s_decq := s_decq s; s_held := s_held s; s_finq := s_finq s; s_rd := s_rd s; s_sigs := s_sigs s; s_close_ret := s_close_ret s |}.
Definition log_sig (c : nat) (s : st) : st :=
  {| s_seq := s_seq s; s_pending := s_pending s; s_closing := s_closing s; s_shutdown := s_shutdown s;
     s_codec_closed := s_codec_closed s; s_calls := s_calls s; s_writeq := s_writeq s; s_wbusy := s_wbusy s;
     s_decq := s_decq s; s_held := s_held s; s_finq := s_finq s; s_rd := s_rd s; s_sigs := s_sigs s ++ [c]; s_close_ret := s_close_ret s |}.

(* call.done(): signal and log the order *)
Definition signal (c : nat) (s : st) : st := log_sig c (upd_call c k_signal s).

Definition beqb (a b : bytes) : bool := bool_decide (a = b).

(* the sweep of recv: every (q, c) of the pending table, in the table's order *)
Definition sweep_one (v : variant) (e : errv) (s : st) (qc : N * nat) : st :=
  let s1 := if v_sweep_deletes v then set_pending (delete qc.1 (s_pending s)) s else s in
  signal qc.2 (upd_call qc.2 (k_set_err e) s1).
Definition sweep (v : variant) (e : errv) (s : st) : st :=
  fold_left (sweep_one v e) (map_to_list (s_pending s)) s.

Definition remove_nth {A} (i : nat) (l : list A) : list A := take i l ++ drop (S i) l.

Definition ordered_fin (cf : cfg) : bool := pipelining cf || directIO cf.

Definition step (v : variant) (cf : cfg) (s : st) (a : action) : option st :=
  match a with
  | AStart c k =>
      match s_calls s !! c with
      | Some _ => None
      | None =>
          let s1 := add_call c (fresh_call k) s in
          Some (if pipelining cf then set_writeq (s_writeq s ++ [c]) (s_wbusy s) s1 else s1)
      end
  | ASend c =>
      match s_calls s !! c with
      | Some k =>
          match k_wpc k with
          | WQueued =>
              let enabled := if pipelining cf then
                               match s_writeq s with c' :: _ => Nat.eqb c c' && negb (s_wbusy s) | [] => false end
                             else true in
              if negb enabled then None else
              let s0 := if pipelining cf then set_writeq (tl (s_writeq s)) (s_wbusy s) s else s in
              if s_shutdown s || s_closing s then
                Some (signal c (upd_call c (k_set_err EShutdown) (upd_call c (k_set_wpc WDone) s0)))
              else
                let q := s_seq s in
                let s1 := set_seq ((q + 1) mod 2^64) (set_pending (<[q := c]> (s_pending s0)) s0) in
                let s2 := upd_call c (k_register q) s1 in
                Some (if pipelining cf then set_writeq (s_writeq s2) true s2 else s2)
          | _ => None
          end
      | None => None
      end
  | AWriteRet c r =>
      match s_calls s !! c with
      | Some k =>
          match k_wpc k with
          | WWriting q =>
              let s0 := upd_call c (k_set_wpc WDone) (if pipelining cf then set_writeq (s_writeq s) false s else s) in
              match r with
              | None => Some s0
              | Some e =>
                  let present := bool_decide (s_pending s !! q = Some c) in
                  let s1 := set_pending (delete q (s_pending s0)) s0 in
                  if negb (v_send_checks v) || present
                  then Some (signal c (upd_call c (k_set_err e) s1))
                  else Some s1
              end
          | _ => None
          end
      | None => None
      end
  | AArrive f =>
      match s_rd s with
      | RdAlive =>
          if directIO cf && (negb (match s_decq s with [] => true | _ => false end) ||
                             (negb (pipelining cf) && negb (match s_finq s with [] => true | _ => false end)))
          then None else Some (set_decq (s_decq s ++ [f]) s)
      | _ => None
      end
  | APickup =>
      match s_decq s with
      | [] => None
      | f :: rest =>
          if s_held s then None else
          if directIO cf && negb (pipelining cf) && negb (match s_finq s with [] => true | _ => false end) then None else
          if s_codec_closed s then Some (set_decq rest s) else Some (set_held true s)
      end
  | ADecode =>
      match s_decq s with
      | [] => None
      | f :: rest =>
          if negb (s_held s) then None else
          let s0 := set_held false (set_decq rest s) in
          match f with
          | FBad => Some s0
          | FResp q e body bodyok =>
              if s_shutdown s then Some s0 else
              match s_pending s !! q with
              | None => Some s0
              | Some c =>
                  let s1 := set_pending (delete q (s_pending s0)) s0 in
                  match s_calls s !! c with
                  | None => Some s1
                  | Some k =>
                      if negb (beqb e []) then
                        let s2 := upd_call c (k_set_err (if beqb e shutdown_msg then EShutdown else EText e)) s1 in
                        if v_err_via_q v && pipelining cf
                        then Some (set_finq (s_finq s2 ++ [FinDone c]) (upd_call c (k_set_loc LFinish) s2))
                        else Some (signal c s2)
                      else match k_kind k with
                           | KPing => Some (signal c (upd_call c k_set_ok s1))
                           | _ => Some (set_finq (s_finq s1 ++ [FinReply c body bodyok]) (upd_call c (k_set_loc LFinish) s1))
                           end
                  end
              end
          end
      end
  | AFinish i =>
      if ordered_fin cf && negb (Nat.eqb i 0) then None else
      match s_finq s !! i with
      | None => None
      | Some t =>
          let s0 := set_finq (remove_nth i (s_finq s)) s in
          match t with
          | FinDone c => Some (signal c s0)
          | FinReply c body bodyok => Some (signal c (upd_call c (k_set_reply body bodyok) s0))
          end
      end
  | AReadErr e =>
      match s_rd s with
      | RdAlive =>
          if directIO cf && (negb (match s_decq s with [] => true | _ => false end) ||
                             (negb (pipelining cf) && negb (match s_finq s with [] => true | _ => false end)))
          then None else Some (set_rd (RdDraining e) s)
      | _ => None
      end
  | ASweep =>
      match s_rd s with
      | RdDraining e =>
          if v_drain v && negb (directIO cf) && negb (match s_decq s with [] => true | _ => false end) then None
          else Some (set_rd RdDead (sweep v e (set_shutdown s)))
      | _ => None
      end
  | AClose =>
      if s_closing s then Some (add_close_ret false s) else Some (set_closing true s)
  | ACtxDone c =>
      match s_calls s !! c with
      | Some k =>
          match k_kind k with
          | KCtx =>
              if k_abandoned k || Nat.ltb 0 (k_recv k) then None else
              if negb (pipelining cf) && negb (match k_wpc k with WDone => true | _ => false end) then None else
              Some (upd_call c k_abandon s)
          | _ => None
          end
      | None => None
      end
  | ARecv c =>
      match s_calls s !! c with
      | Some k =>
          if k_abandoned k || negb (Nat.ltb (k_recv k) (k_sig k)) then None else
          let blocking := match k_kind k with KCall | KPing | KCtx => true | _ => false end in
          if blocking && negb (pipelining cf) && negb (match k_wpc k with WDone => true | _ => false end) then None else
          Some (upd_call c k_recv1 s)
      | None => None
      end
  end.

Fixpoint run (v : variant) (cf : cfg) (tr : list action) (s : st) : option st :=
  match tr with
  | [] => Some s
  | a :: tr' => match step v cf s a with Some s' => run v cf tr' s' | None => None end
  end.

(* ---- observables ---- *)
Definition num_calls (s : st) : nat := size (s_pending s).
Definition sig_of (s : st) (c : nat) : nat := match s_calls s !! c with Some k => k_sig k | None => 0%nat end.
Definition err_of (s : st) (c : nat) : option errv := match s_calls s !! c with Some k => k_err k | None => None end.
Definition reply_of (s : st) (c : nat) : option bytes := match s_calls s !! c with Some k => k_reply k | None => None end.
