(* Conn/Live.v — C03 "no caller hangs" as theorems about runs.

   Conn/Inv.v proves one-step facts: each drain action is enabled while its
   queue is non-empty (pickup_enabled, decode_enabled, finish_enabled,
   sweep_enabled, writeret_enabled), and a quiescent state owes nothing
   (quiescent_complete).  Here they are put together by induction on the
   outstanding work:

   - [reader_side_completes]: once the read direction has ended (EOF, error:
     the reader is draining or dead) and every write has returned, there is a
     finite run of the connection's OWN steps (take a frame from the decode
     queue, decode it, run a completion task, the sweep) that ends in a
     quiescent state, and in that state every call that was ever started has
     been signalled exactly once.  No step of the peer, no timer and no
     further event of the environment is needed: a caller cannot hang.
   - [connection_loss_completes_all]: the same without the hypothesis on the
     writes — the run may also let calls that were queued for sending enter
     send (in the run built here the sweep comes first, so they are refused
     at once and no sequence number is allocated) and let the writes
     in progress return (the step AWriteRet is the socket write returning,
     with or without an error; that it does return once the connection is
     lost is the one thing assumed of the socket). *)
From stdpp Require Import gmap.
From RPC Require Import Res.
From RPC.Conn Require Import Model InvLemmas Inv.
Open Scope N_scope.

(* the reader side's own steps *)
Definition reader_act (a : action) : Prop :=
  match a with APickup | ADecode | AFinish _ | ASweep => True | _ => False end.

(* ... plus: a queued call enters send, a write returns *)
Definition settle_act (a : action) : Prop :=
  match a with ASend _ | AWriteRet _ _ | APickup | ADecode | AFinish _ | ASweep => True | _ => False end.

Definition writes_done (s : st) : Prop := forall c k, s_calls s !! c = Some k -> k_wpc k = WDone.

Lemma run_app v cf tr1 tr2 s s1 :
  run v cf tr1 s = Some s1 -> run v cf (tr1 ++ tr2) s = run v cf tr2 s1.
Proof.
  revert s. induction tr1 as [|a tr1 IH]; intros s H.
  - cbn [run] in H. injection H as <-. reflexivity.
  - cbn [run app] in *. destruct (step v cf s a) as [s2|]; [apply IH; exact H|discriminate].
Qed.

(* ------------------------------------------------------------------ *)
(* the write side of a state, seen through k_wpc                       *)
(* ------------------------------------------------------------------ *)
Definition wmap (s : st) : gmap nat wpc := k_wpc <$> s_calls s.

Lemma wmap_lookup s c : wmap s !! c = k_wpc <$> s_calls s !! c.
Proof. unfold wmap. apply lookup_fmap. Qed.

Lemma wpc_alter (f : call -> call) c (m : gmap nat call) :
  (forall k, k_wpc (f k) = k_wpc k) -> k_wpc <$> alter f c m = k_wpc <$> m.
Proof.
  intros Hf. apply map_eq. intros i. rewrite !lookup_fmap.
  destruct (decide (i = c)) as [->|N].
  - rewrite lookup_alter. destruct (m !! c); simpl; [rewrite Hf|]; reflexivity.
  - rewrite lookup_alter_ne by congruence. reflexivity.
Qed.

Definition write_act (a : action) : Prop :=
  match a with AStart _ _ | ASend _ | AWriteRet _ _ => True | _ => False end.

Lemma sweep_frame e s :
  wmap (sweep current e s) = wmap s /\ s_writeq (sweep current e s) = s_writeq s /\
  s_wbusy (sweep current e s) = s_wbusy s /\ s_seq (sweep current e s) = s_seq s.
Proof.
  unfold sweep. split; [|split; [|split]].
  - unfold wmap. rewrite fold_calls. generalize (map_to_list (s_pending s)) (s_calls s).
    intros l. induction l as [|a l IH]; intros m; simpl; [reflexivity|].
    rewrite IH. apply wpc_alter. intros k. reflexivity.
  - apply (fold_pres s_writeq). reflexivity.
  - apply (fold_pres s_wbusy). reflexivity.
  - apply (fold_pres s_seq). reflexivity.
Qed.

(* every action other than AStart / ASend / AWriteRet leaves the write side and the counter alone *)
Lemma other_frame cf s a s' : ~ write_act a -> step current cf s a = Some s' ->
  wmap s' = wmap s /\ s_writeq s' = s_writeq s /\ s_wbusy s' = s_wbusy s /\ s_seq s' = s_seq s.
Proof.
  intros Na H. destruct a; try (exfalso; apply Na; exact I).
  6: { unfold step in H. destruct (s_rd s) as [|e|]; try discriminate.
       match type of H with (if ?b then _ else _) = _ => destruct b; [discriminate|] end.
       injection H as <-. exact (sweep_frame e (set_shutdown s)). }
  all: unfold step in H; repeat case_match; simplify_eq.
  all: (split; [unfold wmap; autorewrite with calls; rewrite ?wpc_alter by (intros; reflexivity); reflexivity
               | split; [|split]; reflexivity]).
Qed.

(* what the three write-side actions do to it *)
Lemma start_spec cf s c kd s' : step current cf s (AStart c kd) = Some s' ->
  wmap s !! c = None /\ wmap s' = <[c := WQueued]> (wmap s) /\ s_wbusy s' = s_wbusy s /\
  s_writeq s' = (if pipelining cf then s_writeq s ++ [c] else s_writeq s).
Proof.
  unfold step. destruct (s_calls s !! c) eqn:Hc; [discriminate|]. intros [= <-].
  split; [rewrite wmap_lookup, Hc; reflexivity|].
  destruct (pipelining cf);
    (split; [unfold wmap; simpl; rewrite fmap_insert; reflexivity | split; reflexivity]).
Qed.

Lemma send_spec cf s c s' : step current cf s (ASend c) = Some s' ->
  wmap s !! c = Some WQueued /\
  (pipelining cf = true -> exists rest, s_writeq s = c :: rest /\ s_wbusy s = false) /\
  s_rd s' = s_rd s /\
  (pipelining cf = true -> s_writeq s' = tl (s_writeq s)) /\
  ((s_shutdown s || s_closing s = true /\ wmap s' = <[c := WDone]> (wmap s) /\
      s_seq s' = s_seq s /\ s_wbusy s' = s_wbusy s) \/
   (s_shutdown s || s_closing s = false /\ wmap s' = <[c := WWriting (s_seq s)]> (wmap s) /\
      (pipelining cf = true -> s_wbusy s' = true))).
Proof.
  unfold step. destruct (s_calls s !! c) as [k|] eqn:Hc; [|discriminate].
  destruct (k_wpc k) eqn:Hw; try discriminate.
  intros H.
  match type of H with (if negb ?e then _ else _) = _ => destruct e eqn:He; [|discriminate] end.
  cbn [negb] in H. cbv zeta in H.
  split; [rewrite wmap_lookup, Hc; simpl; congruence|].
  split.
  { intros Hp. rewrite Hp in He. destruct (s_writeq s) as [|c' rest]; [discriminate|].
    apply andb_true_iff in He as [E1 E2]. apply Nat.eqb_eq in E1 as <-.
    exists rest. split; [reflexivity|]. destruct (s_wbusy s); [discriminate|reflexivity]. }
  destruct (s_shutdown s || s_closing s) eqn:Hsh; injection H as <-.
  - split; [pl cf; reflexivity|]. split; [intros ->; reflexivity|]. left.
    split; [reflexivity|]. split; [|pl cf; split; reflexivity].
    unfold wmap. destruct (pipelining cf); calls_norm Hc; rewrite fmap_insert; reflexivity.
  - split; [pl cf; reflexivity|]. split; [intros ->; reflexivity|]. right.
    split; [reflexivity|]. split; [|intros ->; reflexivity].
    unfold wmap. destruct (pipelining cf); calls_norm Hc; rewrite fmap_insert; reflexivity.
Qed.

Lemma writeret_spec cf s c r s' : step current cf s (AWriteRet c r) = Some s' ->
  (exists q, wmap s !! c = Some (WWriting q)) /\ wmap s' = <[c := WDone]> (wmap s) /\
  s_rd s' = s_rd s /\ s_seq s' = s_seq s /\
  (pipelining cf = true -> s_writeq s' = s_writeq s /\ s_wbusy s' = false).
Proof.
  unfold step. destruct (s_calls s !! c) as [k|] eqn:Hc; [|discriminate].
  destruct (k_wpc k) as [|q|] eqn:Hw; try discriminate.
  intros H. cbv zeta in H.
  split; [exists q; rewrite wmap_lookup, Hc; simpl; congruence|].
  destruct r as [e|].
  - match type of H with (if ?b then _ else _) = _ => destruct b end; injection H as <-;
      (split; [unfold wmap; destruct (pipelining cf); calls_norm Hc; rewrite fmap_insert; reflexivity|]);
      (split; [pl cf; reflexivity|]); (split; [pl cf; reflexivity|]); intros ->; split; reflexivity.
  - injection H as <-.
    (split; [unfold wmap; destruct (pipelining cf); calls_norm Hc; rewrite fmap_insert; reflexivity|]);
      (split; [pl cf; reflexivity|]); (split; [pl cf; reflexivity|]); intros ->; split; reflexivity.
Qed.

(* ------------------------------------------------------------------ *)
(* client pipelining: the write queue holds exactly the calls that     *)
(* have not entered send, and the busy flag is up only while a write   *)
(* is in progress                                                      *)
(* ------------------------------------------------------------------ *)
Definition PInv (cf : cfg) (s : st) : Prop :=
  pipelining cf = true ->
  base.NoDup (s_writeq s) /\
  (forall c, c ∈ s_writeq s <-> wmap s !! c = Some WQueued) /\
  (s_wbusy s = true -> exists c q, wmap s !! c = Some (WWriting q)).

Lemma init_P cf : PInv cf init.
Proof.
  intros _. unfold wmap. simpl. rewrite fmap_empty. split; [apply NoDup_nil_2|]. split.
  - intros c. rewrite lookup_empty. split; [intros H; apply elem_of_nil in H; contradiction|discriminate].
  - discriminate.
Qed.

Lemma step_P cf s a s' : PInv cf s -> step current cf s a = Some s' -> PInv cf s'.
Proof.
  intros P H Hp. destruct (P Hp) as (ND & Q & B).
  assert (OTHER : ~ write_act a -> PInv cf s' ).
  { intros Na _. destruct (other_frame _ _ _ _ Na H) as (E1 & E2 & E3 & _).
    rewrite E1, E2, E3. auto. }
  destruct a as [c kd|c|c r| | | | | | | | |]; try (apply OTHER; [intros X; exact X|exact Hp]); clear OTHER.
  - (* AStart *)
    destruct (start_spec _ _ _ _ _ H) as (Hn & Hw & Hb & Hq). rewrite Hp in Hq. rewrite Hq, Hw, Hb.
    assert (Hnc : c ∉ s_writeq s). { intros X. apply Q in X. congruence. }
    split; [|split].
    + apply NoDup_app. split; [exact ND|]. split; [|apply NoDup_singleton].
      intros x Hx Hx2. apply elem_of_list_singleton in Hx2 as ->. contradiction.
    + intros c1. rewrite elem_of_app, elem_of_list_singleton. destruct (decide (c1 = c)) as [->|N].
      * rewrite lookup_insert. tauto.
      * rewrite lookup_insert_ne by congruence. split.
        -- intros [X|X]; [apply Q; exact X|contradiction].
        -- intros X. left. apply Q. exact X.
    + intros Hb'. destruct (B Hb') as (c1 & q & X). exists c1, q.
      rewrite lookup_insert_ne; [exact X|]. intros <-. congruence.
  - (* ASend *)
    destruct (send_spec _ _ _ _ H) as (Hc & Hhd & _ & Hq & Hcase).
    destruct (Hhd Hp) as (rest & Ewq & Ebusy). rewrite (Hq Hp), Ewq. simpl tl.
    rewrite Ewq in ND, Q. apply list.NoDup_cons in ND as [Hnc ND].
    assert (QQ : forall w, w <> WQueued -> forall c1, c1 ∈ rest <-> <[c := w]> (wmap s) !! c1 = Some WQueued).
    { intros w Hw c1. destruct (decide (c1 = c)) as [->|N].
      - rewrite lookup_insert. split; [contradiction|congruence].
      - rewrite lookup_insert_ne by congruence. rewrite <- Q. rewrite elem_of_cons. tauto. }
    destruct Hcase as [(_ & Hw & _ & Hb)|(_ & Hw & Hb)]; rewrite Hw.
    + split; [exact ND|]. split; [apply QQ; discriminate|]. rewrite Hb, Ebusy. discriminate.
    + split; [exact ND|]. split; [apply QQ; discriminate|]. intros _.
      exists c, (s_seq s). apply lookup_insert.
  - (* AWriteRet *)
    destruct (writeret_spec _ _ _ _ _ H) as ((q & Hc) & Hw & _ & _ & Hq).
    destruct (Hq Hp) as [E1 E2]. rewrite E1, E2, Hw.
    split; [exact ND|]. split; [|discriminate].
    intros c1. destruct (decide (c1 = c)) as [->|N].
    + rewrite lookup_insert, Q, Hc. split; congruence.
    + rewrite lookup_insert_ne by congruence. apply Q.
Qed.

Lemma run_P cf tr s s' : PInv cf s -> run current cf tr s = Some s' -> PInv cf s'.
Proof.
  revert s. induction tr as [|a tr IH]; intros s P H; cbn [run] in H.
  - injection H as <-. exact P.
  - destruct (step current cf s a) as [s1|] eqn:E; [|discriminate].
    eapply IH; [|exact H]. eapply step_P; eauto.
Qed.

(* ------------------------------------------------------------------ *)
(* what a witness run carries along                                    *)
(* ------------------------------------------------------------------ *)
(* [reachable] bounds the length of the trace from [init] (no 2^64 wrap of the sequence
   counter), so it is NOT closed under arbitrary further runs.  The runs built below never
   allocate a sequence number; they carry the invariants themselves, with the counter
   unchanged. *)
Definition G (cf : cfg) (s : st) : Prop :=
  WInv cf s /\ NInv s /\ PInv cf s /\ s_seq s + 1 < 2^64.

Lemma init_step_seq cf a s1 : step current cf init a = Some s1 -> s_seq s1 = 0.
Proof.
  intros H. destruct a; unfold step in H; cbn [init s_calls s_rd s_decq s_finq s_closing] in H;
    rewrite ?lookup_empty in H; try discriminate; repeat case_match; simplify_eq; reflexivity.
Qed.

Lemma reach_seq cf s : reachable cf s -> s_seq s + 1 < 2^64.
Proof.
  intros (tr & Hs & Hr). unfold short in Hs. destruct tr as [|a tr].
  - injection Hr as <-. simpl. lia.
  - cbn [run] in Hr. destruct (step current cf init a) as [s1|] eqn:E; [|discriminate].
    destruct (step_good _ _ _ _ (init_W cf) E) as (W1 & _ & St).
    destruct (St 0 init_N) as (N1 & _); [simpl; lia|lia|].
    pose proof (init_step_seq _ _ _ E) as E0.
    simpl length in Hs. rewrite Nat2N.inj_succ in Hs.
    destruct (run_N cf tr s1 s 0 W1 N1) as (_ & Hb); [lia|lia|exact Hr|]. lia.
Qed.

Lemma reach_G cf s : reachable cf s -> G cf s.
Proof.
  intros R. destruct (reach_WN _ _ R) as [W NI]. split; [exact W|]. split; [exact NI|].
  split; [|apply (reach_seq _ _ R)].
  destruct R as (tr & _ & Hr). eapply run_P; [apply init_P|exact Hr].
Qed.

Lemma G_step cf s a s' : G cf s -> step current cf s a = Some s' -> s_seq s' = s_seq s -> G cf s'.
Proof.
  intros (W & NI & P & Hb) H E. destruct (step_good _ _ _ _ W H) as (W1 & _ & St).
  destruct (St (s_seq s) NI) as (N1 & _); [lia|exact Hb|].
  split; [exact W1|]. split; [exact N1|]. split; [eapply step_P; eauto|]. rewrite E. exact Hb.
Qed.

(* the two facts of Conn/Inv.v that are stated for [reachable], from the invariants *)
Lemma decode_enabled_W cf s : WInv cf s -> s_held s = true -> step current cf s ADecode <> None.
Proof.
  intros W Hh. destruct (w_rd _ _ W) as (_ & _ & _ & R4).
  specialize (R4 Hh). unfold step. destruct (s_decq s) as [|f rest]; [congruence|].
  rewrite Hh. simpl. repeat case_match; discriminate.
Qed.

Lemma quiescent_complete_G cf s c k : G cf s -> quiescent s -> s_calls s !! c = Some k -> k_sig k = 1%nat.
Proof.
  intros (W & NI & _) (Q1 & Q2 & Q3 & Q4) Hc.
  pose proof (w_call _ _ W _ _ Hc) as Hk. rewrite (ck_sig _ Hk).
  destruct (k_loc k) as [|q| |] eqn:Hl; try reflexivity; exfalso.
  - pose proof (ck_fresh _ Hk Hl) as E. rewrite (Q4 _ _ Hc) in E. discriminate.
  - pose proof (n_locpend _ NI _ _ _ Hc Hl) as E. destruct (w_rd _ _ W) as (_ & R2 & _).
    destruct (R2 Q1) as [E2 _]. rewrite E2, lookup_empty in E. discriminate.
  - destruct (w_locfin _ _ W _ _ Hc Hl) as (t & Ht & _). rewrite Q3 in Ht.
    apply elem_of_nil in Ht. exact Ht.
Qed.

(* a run inside the allowed prefix of [short] stays reachable (in general [reachable] is not
   closed under runs: see the remark above [G]) *)
Lemma reachable_run_short cf tr0 tr s s' : short (tr0 ++ tr) ->
  run current cf tr0 init = Some s -> run current cf tr s = Some s' -> reachable cf s'.
Proof.
  intros Hs H0 H. exists (tr0 ++ tr). split; [exact Hs|]. rewrite (run_app _ _ _ _ _ _ H0). exact H.
Qed.

(* ... and the unrestricted statement
     reachable cf s -> run current cf tr s = Some s' -> reachable cf s'
   is false: 2^64 Close calls from [init] leave 2^64 entries in [s_close_ret], and every
   action adds at most one *)
Lemma close_ret_step cf s a s' : step current cf s a = Some s' ->
  (length (s_close_ret s') <= S (length (s_close_ret s)))%nat.
Proof.
  intros H. destruct a.
  9: { unfold step in H. destruct (s_rd s) as [|e|]; try discriminate.
       match type of H with (if ?b then _ else _) = _ => destruct b; [discriminate|] end.
       injection H as <-. cbn [s_close_ret set_rd]. unfold sweep.
       rewrite (fold_pres s_close_ret) by reflexivity. simpl. lia. }
  all: unfold step in H; repeat case_match; simplify_eq; simpl; rewrite ?app_length; simpl; lia.
Qed.
Lemma close_ret_run cf tr : forall s s', run current cf tr s = Some s' ->
  (length (s_close_ret s') <= length tr + length (s_close_ret s))%nat.
Proof.
  induction tr as [|a tr IH]; intros s s' H; cbn [run] in H.
  - injection H as <-. simpl. lia.
  - destruct (step current cf s a) as [s1|] eqn:E; [|discriminate].
    apply close_ret_step in E. apply IH in H. simpl length. lia.
Qed.
Lemma close_run cf n : forall s, exists s', run current cf (repeat AClose n) s = Some s' /\
  length (s_close_ret s') = (n + length (s_close_ret s))%nat.
Proof.
  induction n as [|n IH]; intros s; [exists s; split; reflexivity|].
  cbn [repeat run]. unfold step at 1.
  destruct (s_closing s); [destruct (IH (add_close_ret false s)) as (s' & H1 & H2)
                          |destruct (IH (set_closing true s)) as (s' & H1 & H2)];
    exists s'; (split; [exact H1|]); rewrite H2; simpl; rewrite app_length; simpl; lia.
Qed.
Lemma reachable_not_closed_under_runs cf :
  ~ (forall tr s s', reachable cf s -> run current cf tr s = Some s' -> reachable cf s').
Proof.
  intros H. remember (N.to_nat (2^64)) as n eqn:En.
  assert (Hn : N.of_nat n = 2^64) by (rewrite En; apply N2Nat.id). clear En.
  destruct (close_run cf n init) as (s' & H1 & H2).
  assert (R0 : reachable cf init). { exists []. split; [unfold short; simpl; lia|reflexivity]. }
  destruct (H _ _ _ R0 H1) as (tr' & Hs & Hr). apply close_ret_run in Hr.
  unfold short in Hs. simpl in Hr, H2. lia.
Qed.

(* ------------------------------------------------------------------ *)
(* draining the decode queue and the completion queue                  *)
(* ------------------------------------------------------------------ *)
Definition rmeasure (s : st) : nat :=
  (3 * length (s_decq s) + length (s_finq s) + (if s_held s then 0 else 1))%nat.

Lemma pickup_meas cf s s1 : step current cf s APickup = Some s1 ->
  s_rd s1 = s_rd s /\ (rmeasure s1 < rmeasure s)%nat.
Proof.
  unfold step, rmeasure. destruct (s_decq s) as [|f rest] eqn:Hd; [discriminate|].
  destruct (s_held s) eqn:Hh; [discriminate|].
  intros H. match type of H with (if ?b then _ else _) = _ => destruct b; [discriminate|] end.
  destruct (s_codec_closed s); injection H as <-; simpl; rewrite ?Hd, ?Hh; simpl; split; (reflexivity || lia).
Qed.

Lemma decode_meas cf s s1 : step current cf s ADecode = Some s1 ->
  s_rd s1 = s_rd s /\ (rmeasure s1 < rmeasure s)%nat.
Proof.
  unfold step, rmeasure. destruct (s_decq s) as [|f rest] eqn:Hd; [discriminate|].
  destruct (s_held s) eqn:Hh; [|discriminate].
  intros H. cbn [negb] in H. cbv zeta in H.
  repeat case_match; simplify_eq; simpl; rewrite ?app_length; simpl; split; (reflexivity || lia).
Qed.

Lemma finish_meas cf s s1 : step current cf s (AFinish 0) = Some s1 ->
  s_rd s1 = s_rd s /\ (rmeasure s1 < rmeasure s)%nat.
Proof.
  unfold step, rmeasure. rewrite andb_false_r.
  destruct (s_finq s) as [|t l] eqn:Hf; [discriminate|]. simpl.
  intros H. destruct t; injection H as <-; simpl; unfold remove_nth; simpl; rewrite drop_0; split; (reflexivity || lia).
Qed.

Lemma drain cf : forall n s, G cf s -> (rmeasure s <= n)%nat ->
  exists tr s', Forall reader_act tr /\ run current cf tr s = Some s' /\ G cf s' /\
    s_decq s' = [] /\ s_finq s' = [] /\ s_rd s' = s_rd s /\ wmap s' = wmap s.
Proof.
  induction n as [|n IH]; intros s HG Hm.
  - exists [], s. unfold rmeasure in Hm.
    destruct (s_decq s); [|simpl in Hm; lia]. destruct (s_finq s); [|simpl in Hm; lia].
    split; [constructor|]. split; [reflexivity|]. split; [exact HG|]. repeat split; auto.
  - assert (STEP : forall a s1, reader_act a -> ~ write_act a -> step current cf s a = Some s1 ->
               s_rd s1 = s_rd s /\ (rmeasure s1 < rmeasure s)%nat ->
               exists tr s', Forall reader_act tr /\ run current cf tr s = Some s' /\ G cf s' /\
                 s_decq s' = [] /\ s_finq s' = [] /\ s_rd s' = s_rd s /\ wmap s' = wmap s).
    { intros a s1 Ra Na E (Erd & Hlt).
      destruct (other_frame _ _ _ _ Na E) as (Ew & _ & _ & Eseq).
      destruct (IH s1) as (tr & s' & Htr & Hrun & HG' & Hd' & Hf' & Hrd' & Hw'); [eapply G_step; eauto|lia|].
      exists (a :: tr), s'. split; [constructor; assumption|]. split; [cbn [run]; rewrite E; exact Hrun|].
      split; [exact HG'|]. repeat split; auto; congruence. }
    destruct (s_finq s) as [|t l] eqn:Hf.
    2: { (* a completion task is queued: run it *)
      destruct (step current cf s (AFinish 0)) as [s1|] eqn:E.
      - apply (STEP (AFinish 0) s1 I (fun x => x) E). eapply finish_meas; eauto.
      - exfalso. apply (finish_enabled cf s); [rewrite Hf; discriminate|exact E]. }
    destruct (s_decq s) as [|f rest] eqn:Hd.
    { exists [], s. split; [constructor|]. split; [reflexivity|]. split; [exact HG|]. repeat split; auto. }
    destruct (s_held s) eqn:Hh.
    + destruct (step current cf s ADecode) as [s1|] eqn:E.
      * apply (STEP ADecode s1 I (fun x => x) E). eapply decode_meas; eauto.
      * exfalso. apply (decode_enabled_W cf s); [apply HG|exact Hh|exact E].
    + destruct (step current cf s APickup) as [s1|] eqn:E.
      * apply (STEP APickup s1 I (fun x => x) E). eapply pickup_meas; eauto.
      * exfalso. apply (pickup_enabled cf s); [rewrite Hd; discriminate|exact Hh|auto|exact E].
Qed.

(* from a reader that has stopped reading to a reader that has exited *)
Lemma to_dead cf s : G cf s -> s_rd s <> RdAlive ->
  exists tr s', Forall reader_act tr /\ run current cf tr s = Some s' /\ G cf s' /\
    s_rd s' = RdDead /\ wmap s' = wmap s.
Proof.
  intros HG Hrd.
  destruct (drain cf _ s HG (le_n _)) as (tr1 & s1 & Htr1 & Hrun1 & HG1 & Hd1 & Hf1 & Hrd1 & Hw1).
  destruct (s_rd s1) as [|e|] eqn:E1.
  - congruence.
  - destruct (step current cf s1 ASweep) as [s2|] eqn:E.
    2: { exfalso. apply (sweep_enabled cf s1 e); assumption. }
    destruct (other_frame cf s1 ASweep s2 (fun x => x) E) as (Ew & _ & _ & Eseq).
    exists (tr1 ++ [ASweep]), s2. split; [apply Forall_app; split; [exact Htr1|repeat constructor]|].
    split; [rewrite (run_app _ _ _ _ _ _ Hrun1); cbn [run]; rewrite E; reflexivity|].
    split; [eapply G_step; eauto|]. split; [|congruence].
    unfold step in E. rewrite E1 in E.
    match type of E with (if ?b then _ else _) = _ => destruct b; [discriminate|] end.
    injection E as <-. reflexivity.
  - exists tr1, s1. split; [exact Htr1|]. split; [exact Hrun1|]. split; [exact HG1|]. split; [exact E1|exact Hw1].
Qed.

Lemma wmap_is_Some s c : is_Some (wmap s !! c) <-> is_Some (s_calls s !! c).
Proof. rewrite wmap_lookup. apply fmap_is_Some. Qed.

Lemma wd_wmap s : writes_done s <-> forall c w, wmap s !! c = Some w -> w = WDone.
Proof.
  unfold writes_done. split.
  - intros H c w. rewrite wmap_lookup. destruct (s_calls s !! c) as [k|] eqn:E; simpl; [|discriminate].
    intros [= <-]. eauto.
  - intros H c k Hc. apply (H c). rewrite wmap_lookup, Hc. reflexivity.
Qed.

(* a dead reader whose writes have all returned: run the completion tasks that are left *)
Lemma finish_dead cf s : G cf s -> s_rd s = RdDead -> writes_done s ->
  exists tr s', Forall reader_act tr /\ run current cf tr s = Some s' /\ quiescent s' /\ G cf s' /\
    wmap s' = wmap s.
Proof.
  intros HG Hrd Hwd.
  destruct (drain cf _ s HG (le_n _)) as (tr & s' & Htr & Hrun & HG' & Hd & Hf & Hrd' & Hw).
  exists tr, s'. split; [exact Htr|]. split; [exact Hrun|]. split; [|split; [exact HG'|exact Hw]].
  split; [congruence|]. split; [exact Hd|]. split; [exact Hf|].
  apply wd_wmap. rewrite Hw. apply wd_wmap. exact Hwd.
Qed.

Theorem reader_side_completes cf s : reachable cf s -> s_rd s <> RdAlive -> writes_done s ->
  exists tr s', Forall reader_act tr /\ run current cf tr s = Some s' /\ quiescent s' /\
    (forall c, is_Some (s_calls s !! c) -> is_Some (s_calls s' !! c)) /\
    (forall c k, s_calls s' !! c = Some k -> k_sig k = 1%nat).
Proof.
  intros R Hrd Hwd. pose proof (reach_G _ _ R) as HG.
  destruct (to_dead _ _ HG Hrd) as (tr1 & s1 & Htr1 & Hrun1 & HG1 & Hrd1 & Hw1).
  assert (Hwd1 : writes_done s1). { apply wd_wmap. rewrite Hw1. apply wd_wmap. exact Hwd. }
  destruct (finish_dead _ _ HG1 Hrd1 Hwd1) as (tr2 & s2 & Htr2 & Hrun2 & Hq & HG2 & Hw2).
  exists (tr1 ++ tr2), s2. split; [apply Forall_app; split; assumption|].
  split; [rewrite (run_app _ _ _ _ _ _ Hrun1); exact Hrun2|]. split; [exact Hq|]. split.
  - intros c. rewrite <- !wmap_is_Some. rewrite Hw2, Hw1. auto.
  - intros c k Hc. eapply quiescent_complete_G; eauto.
Qed.

(* ------------------------------------------------------------------ *)
(* after the sweep: every queued call is refused, every write returns  *)
(* ------------------------------------------------------------------ *)
#[local] Instance wpc_eq_dec : EqDecision wpc.
Proof. solve_decision. Defined.

Definition is_wr (w : wpc) : bool := match w with WWriting _ => true | _ => false end.

Lemma send_enabled cf s c k : s_calls s !! c = Some k -> k_wpc k = WQueued ->
  (pipelining cf = true -> exists rest, s_writeq s = c :: rest /\ s_wbusy s = false) ->
  step current cf s (ASend c) <> None.
Proof.
  intros Hc Hw Hp. unfold step. rewrite Hc, Hw. destruct (pipelining cf).
  - destruct (Hp eq_refl) as (rest & -> & ->). rewrite Nat.eqb_refl. simpl.
    destruct (s_shutdown s || s_closing s); discriminate.
  - simpl. destruct (s_shutdown s || s_closing s); discriminate.
Qed.

Lemma wmap_Some s c w : wmap s !! c = Some w -> exists k, s_calls s !! c = Some k /\ k_wpc k = w.
Proof.
  rewrite wmap_lookup. destruct (s_calls s !! c) as [k|]; simpl; [|discriminate].
  intros [= <-]. eauto.
Qed.

Lemma settle cf : forall n s (D : gset nat), G cf s -> s_rd s = RdDead -> (size D <= n)%nat ->
  (forall c w, wmap s !! c = Some w -> w <> WDone -> c ∈ D) ->
  exists tr s', Forall settle_act tr /\ run current cf tr s = Some s' /\ G cf s' /\
    s_rd s' = RdDead /\ writes_done s' /\ (forall c, is_Some (wmap s !! c) -> is_Some (wmap s' !! c)).
Proof.
  induction n as [|n IH]; intros s D HG Hrd Hsz Hcov.
  all: destruct (decide (map_Forall (fun (_ : nat) w => w = WDone) (wmap s))) as [Hall|Hnot];
    [exists [], s; split; [constructor|]; split; [reflexivity|]; split; [exact HG|]; split; [exact Hrd|];
       split; [apply wd_wmap; exact Hall|auto] |].
  all: apply map_not_Forall in Hnot as (c0 & w0 & Hc0 & Hw0); [|apply _].
  - exfalso. assert (E : D = ∅) by (apply leibniz_equiv, size_empty_iff; lia).
    specialize (Hcov _ _ Hc0 Hw0). rewrite E in Hcov. set_solver.
  - assert (Hsh : s_shutdown s = true).
    { destruct HG as (W & _). destruct (w_rd _ _ W) as (R1 & _). apply R1. exact Hrd. }
    assert (STEP : forall a s1 c w, settle_act a -> step current cf s a = Some s1 ->
              wmap s !! c = Some w -> w <> WDone -> wmap s1 = <[c := WDone]> (wmap s) ->
              s_rd s1 = s_rd s -> s_seq s1 = s_seq s ->
              exists tr s', Forall settle_act tr /\ run current cf tr s = Some s' /\ G cf s' /\
                s_rd s' = RdDead /\ writes_done s' /\
                (forall c, is_Some (wmap s !! c) -> is_Some (wmap s' !! c))).
    { intros a s1 c w Sa E Hc Hw Hw1 Hrd1 Hseq1.
      assert (HcD : c ∈ D) by (eapply Hcov; eauto).
      destruct (IH s1 (D ∖ {[c]})) as (tr & s' & Htr & Hrun & HG' & Hrd' & Hwd' & Hdom').
      - eapply G_step; eauto.
      - congruence.
      - rewrite size_difference by (apply singleton_subseteq_l; exact HcD). rewrite size_singleton. lia.
      - intros c1 w1. rewrite Hw1. destruct (decide (c1 = c)) as [->|N].
        + rewrite lookup_insert. congruence.
        + rewrite lookup_insert_ne by congruence. intros X Y. specialize (Hcov _ _ X Y). set_solver.
      - exists (a :: tr), s'. split; [constructor; assumption|].
        split; [cbn [run]; rewrite E; exact Hrun|]. split; [exact HG'|]. split; [exact Hrd'|].
        split; [exact Hwd'|]. intros c1 X. apply Hdom'. rewrite Hw1. apply lookup_insert_is_Some'. auto. }
    destruct (decide (map_Forall (fun (_ : nat) w => is_wr w = false) (wmap s))) as [Hnw|Hwr].
    2: { (* a write is in progress: it returns *)
      apply map_not_Forall in Hwr as (c1 & w1 & Hc1 & Hw1); [|apply _].
      destruct w1 as [|q|]; try (exfalso; apply Hw1; reflexivity).
      destruct (wmap_Some _ _ _ Hc1) as (k1 & Hk1 & Hkw1).
      destruct (step current cf s (AWriteRet c1 None)) as [s1|] eqn:E.
      2: { exfalso. eapply writeret_enabled; eauto. }
      destruct (writeret_spec _ _ _ _ _ E) as (_ & Hw' & Hrd' & Hseq' & _).
      apply (STEP (AWriteRet c1 None) s1 c1 (WWriting q) I E Hc1); try discriminate; auto. }
    (* no write in progress: the call that is not done is queued; the head of the write queue
       (client pipelining) or the call itself enters send and is refused *)
    assert (Hq0 : w0 = WQueued).
    { specialize (Hnw _ _ Hc0). destruct w0; [reflexivity|discriminate|contradiction]. }
    subst w0.
    assert (HEAD : exists c1 k1, s_calls s !! c1 = Some k1 /\ k_wpc k1 = WQueued /\
              (pipelining cf = true -> exists rest, s_writeq s = c1 :: rest /\ s_wbusy s = false)).
    { destruct (pipelining cf) eqn:Hp.
      - destruct HG as (_ & _ & P & _). destruct (P Hp) as (_ & Q & B).
        assert (Hb : s_wbusy s = false).
        { destruct (s_wbusy s); [|reflexivity]. destruct (B eq_refl) as (c2 & q2 & X).
          specialize (Hnw _ _ X). discriminate. }
        apply Q in Hc0. destruct (s_writeq s) as [|c1 rest] eqn:Ewq; [apply elem_of_nil in Hc0; contradiction|].
        assert (X : wmap s !! c1 = Some WQueued) by (apply Q; left).
        destruct (wmap_Some _ _ _ X) as (k1 & Hk1 & Hkw1). exists c1, k1. eauto 6.
      - destruct (wmap_Some _ _ _ Hc0) as (k0 & Hk0 & Hkw0). exists c0, k0.
        split; [exact Hk0|]. split; [exact Hkw0|discriminate]. }
    destruct HEAD as (c1 & k1 & Hk1 & Hkw1 & Hhd).
    destruct (step current cf s (ASend c1)) as [s1|] eqn:E.
    2: { exfalso. eapply send_enabled; eauto. }
    destruct (send_spec _ _ _ _ E) as (Hc1 & _ & Hrd' & _ & [(_ & Hw' & Hseq' & _)|(Hno & _)]).
    + apply (STEP (ASend c1) s1 c1 WQueued I E Hc1); try discriminate; auto.
    + rewrite Hsh in Hno. discriminate.
Qed.

Theorem connection_loss_completes_all cf s : reachable cf s -> s_rd s <> RdAlive ->
  exists tr s', Forall settle_act tr /\ run current cf tr s = Some s' /\ quiescent s' /\
    (forall c, is_Some (s_calls s !! c) -> is_Some (s_calls s' !! c)) /\
    (forall c k, s_calls s' !! c = Some k -> k_sig k = 1%nat).
Proof.
  intros R Hrd. pose proof (reach_G _ _ R) as HG.
  assert (RS : forall tr, Forall reader_act tr -> Forall settle_act tr).
  { intros tr. apply Forall_impl. intros a; destruct a; simpl; auto. }
  destruct (to_dead _ _ HG Hrd) as (tr1 & s1 & Htr1 & Hrun1 & HG1 & Hrd1 & Hw1).
  destruct (settle cf _ s1 (dom (wmap s1)) HG1 Hrd1 (le_n _)) as (tr2 & s2 & Htr2 & Hrun2 & HG2 & Hrd2 & Hwd2 & Hdom2).
  { intros c w Hc _. apply elem_of_dom. eauto. }
  destruct (finish_dead _ _ HG2 Hrd2 Hwd2) as (tr3 & s3 & Htr3 & Hrun3 & Hq & HG3 & Hw3).
  exists (tr1 ++ tr2 ++ tr3), s3.
  split; [apply Forall_app; split; [auto|apply Forall_app; split; auto]|].
  split; [rewrite (run_app _ _ _ _ _ _ Hrun1), (run_app _ _ _ _ _ _ Hrun2); exact Hrun3|].
  split; [exact Hq|]. split.
  - intros c. rewrite <- !wmap_is_Some. rewrite Hw3, <- Hw1. apply Hdom2.
  - intros c k Hc. eapply quiescent_complete_G; eauto.
Qed.

(* non-vacuity: three calls — one answered but not yet decoded, one registered and still being
   written, one not yet sent — and the read direction ends *)
Definition ex_cfg : cfg := {| directIO := false; pipelining := false |}.
Definition ex_prefix : list action :=
  [AStart 0 KGo; ASend 0; AWriteRet 0 None; AStart 1 KCall; ASend 1; AStart 2 KGo;
   AArrive (FResp 0 [] [42] true); AReadErr EShutdown].
Example ex_live :
  exists s, run current ex_cfg ex_prefix init = Some s /\ s_rd s = RdDraining EShutdown /\
    s_decq s <> [] /\ ~ writes_done s /\ sig_of s 0 = 0%nat /\ sig_of s 1 = 0%nat /\ sig_of s 2 = 0%nat.
Proof.
  eexists. split; [vm_compute; reflexivity|].
  split; [vm_compute; reflexivity|]. split; [vm_compute; discriminate|]. split.
  - intros H. specialize (H 2%nat). vm_compute in H. specialize (H _ eq_refl). discriminate.
  - vm_compute. repeat split.
Qed.

Print Assumptions reader_side_completes.
Print Assumptions connection_loss_completes_all.
Print Assumptions ex_live.
