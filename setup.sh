#!/bin/sh
# setup_cmd: build everything from files on disk only (offline).
set -e
cd "$(dirname "$0")"
export GOFLAGS=-mod=mod GOPROXY=off GOSUMDB=off GOTOOLCHAIN=local
exec ./check --setup
