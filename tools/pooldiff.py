#!/usr/bin/env python3
import sys, subprocess, re
f, idx = sys.argv[1], int(sys.argv[2])
src = open(f).read().split('\n')
c = src[2 + idx].rstrip(';')
assert c.startswith("PStep "), c[:80]
body = c[len("PStep "):]
op = re.search(r"pcs_ops := (.*?); pcs_after", body).group(1)
open('/tmp/pc.v', 'w').write(src[0] + "\nFrom stdpp Require Import gmap.\nFrom RPC.Pool Require Import Model.\nDefinition c : pcase := " + body + ".\nDefinition p' := fst (RunPool.apply_all (pcs_ops c) (of_snap (pcs_before c))).\n"
 "Eval vm_compute in (ps_active (pcs_before c), ps_idle (pcs_before c), map (fun x => (sc_id x, sc_closed x, sc_alive x, sc_age x, sc_busy x)) (ps_conns (pcs_before c))).\n"
 "Eval vm_compute in (RunPool.sorted_assoc (p_active p'), RunPool.sorted_assoc (p_idle p'), p_next p', p_out p', map (fun x => (sc_id x, match p_conns p' !! sc_id x with Some pc => (pc_closed pc, pc_alive pc, - pc_last pc, pc_busy pc) | None => (false,false,0%Z,0%nat) end)) (ps_conns (pcs_after c))).\n"
 "Eval vm_compute in (ps_active (pcs_after c), ps_idle (pcs_after c), ps_next (pcs_after c), map (fun x => (sc_id x, sc_closed x, sc_alive x, sc_age x, sc_busy x)) (ps_conns (pcs_after c))).\n")
out = subprocess.run(["coqc", "-Q", "/verif/coq", "RPC", "pc.v"], cwd="/tmp", stdout=subprocess.PIPE, stderr=subprocess.STDOUT, text=True).stdout
out = re.sub(r"\s+", " ", out).replace("%nat", "").replace("%Z", "")
parts = out.split(" = ")
print("OP:", op)
for name, p in zip(["BEFORE", "MODEL ", "AFTER "], parts[1:]):
    print(name, p.split(" : ")[0][:1200])
