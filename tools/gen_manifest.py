#!/usr/bin/env python3
"""Regenerates MANIFEST.json from the table below; a property is claimed only
when its Props file and harness command exist."""
import json, os, re, subprocess
ROOT = os.path.dirname(os.path.dirname(os.path.abspath(__file__)))
BASE = json.load(open("/root/.vp/BASELINE.json"))["cmd"] if os.path.exists("/root/.vp/BASELINE.json") else "cd /repo && go test -vet=off -count=1 ./..."

T = {
 "C01": ("sys", "proof (partial): own-reply theorems on the client connection machine (under a peer rule) and on the composed system client machine x wire x server machine as one transition system with no hypothesis about the peer (Sys/Compose.v; the wire delivers in any order, never or repeatedly), for any number of calls, completion orders and interleavings; message-level wire theorem (frames and headers composed: any chunking, any cut); correspondence by trace replay of the real Conn and Server over gated in-memory Messages and end-to-end byte comparison. The server model carries request numbers and kinds, not payload bytes (a ghost owner table stands for them); TCP/TLS and hslam/socket framing are validated, not verified.",
         "proof over executable model + trace correspondence"),
 "C02": ("conn", "proof: at-most-once / error-stability / outcome invariants of the client connection machine for every interleaving (induction over traces), progress of the fair drain; correspondence by deterministic gated trace replay against the real Conn.",
         "inductive invariant over action traces + gated trace replay"),
 "C03": ("conn", "proof (partial): sweep / refusal / no-blocked-caller / received-wins theorems on the connection machine, and liveness as theorems about runs (from every reachable state in which the read direction has ended a finite run of the connection's own steps completes every call exactly once; assumes only that a socket write in progress returns); wall-clock promptness is measured by the harness only.",
         "inductive invariant over action traces + gated trace replay"),
 "C04": ("server", "proof (partial): exec-once / one-response / no-phantom theorems, each response is the one its own request dictates, and run-level liveness (every queue drains; every request is eventually executed once and answered once if entered handlers return) on the per-connection server machine in its four modes; over the composed system client x wire x server (Sys/Once.v): no request is executed twice and a call reported successful was executed exactly once by a handler that returned no error; poll-mode scheduling compared on final logs only. The clause 'the library never retries' is checked on the Transport by snapshot-step correspondence (one Call refines to one getConn and one registration) and by per-call execution counts under cut connections, not by a theorem of its own; arguments are compared byte for byte over header encoders x modes x sizes around every length-prefix boundary.",
         "inductive invariant over server machine + trace replay"),
 "C05": ("server", "proof (partial): FIFO theorems for the single-worker queue transcription and order theorems for server and client pipelining; the real scheduler's goroutine hand-offs are exercised only; independence of connections (poll and non-poll listeners) is exercised over real sockets with several connections at once, not modelled.",
         "refinement to FIFO spec + trace replay"),
 "C06": ("conn", "proof (partial): verbatim text, reply-untouched, isolation and no-residue theorems on the connection machine and wire round trips; sync.Pool reuse is provoked, not forced.",
         "inductive invariant + wire round-trip theorems + trace replay"),
 "C07": ("wire", "proof (partial): round-trip, buffer-independence and documented-format theorems for every header value, every buffer (default/pb, code, upgrade byte; unbounded lengths); function-level differential against the real encoders. The json header is exercised (round trip, keys) but only its canonical form is modelled.",
         "algebraic round-trip theorems + function-level differential"),
 "C08": ("wire", "proof (partial): totality (never Panic) of every pb/code/upgrade decoder on every byte string, dispatch totality for all 256 flag bytes, teardown-order safety read from source; json decoder and panics inside dependencies are exercised only.",
         "totality theorems over Panic-explicit model + malformed-input differential"),
 "C09": ("stream", "proof (partial): per-stream FIFO delivery and routing invariants on the composed stream model; correspondence by trace replay.", "inductive invariant + trace replay"),
 "C10": ("stream", "proof (partial): unblocking theorems for close / connection loss / server teardown (incl. opens still queued at the loss) on the stream model, in every reachable state; promptness measured only; poll mode exercised over a real socket.", "progress of fair drain + trace replay"),
 "C11": ("buf", "proof (partial): ownership discipline of the buffer-heap model (hand-off regions are never written again) for every pool choice; real pool reuse is provoked, not forced.", "ownership invariant + digest re-verification"),
 "C12": ("opt", "proof (partial): resolution agreement of Dial/Listen option resolution and mode-independence via the specification outcome; the network cross product is exercised only.", "equational theorem + configuration sweep"),
 "C13": ("pool", "proof: per-host bounds as an inductive invariant of the transport pool machine under every interleaving of its actions; snapshot-step correspondence with the real Transport.", "inductive invariant + snapshot-step refinement check"),
 "C14": ("pool", "proof (partial): address filing, no-dead-handout and bounded-recovery theorems on the pool machine; dead-peer detection relies on C03.", "inductive invariant + snapshot-step refinement check"),
 "C15": ("pool", "proof (partial): spares-busy / retire / idle-close / close-all theorems on the pool machine; 'eventually' is 'at the next tick'.", "inductive invariant + snapshot-step refinement check"),
 "C16": ("lb", "proof: live-subset / route-current / after-update invariants of the load-balancing client machine for every trace; snapshot-step correspondence.", "inductive invariant + snapshot-step refinement check"),
 "C17": ("lb", "proof (partial): round-robin window, random-in-live, heap-root-minimal, probe-rate and EWMA theorems; float64 rounding of the EWMA is compared with a tolerance.", "theorems on transcribed scheduler/heap + function-level differential"),
 "C18": ("lb", "proof (partial): no-stranded-waiter / close-now / error-kind theorems on the waiter machine; detection time is measured only.", "inductive invariant + scripted-health replay"),
 "C19": ("conn", "proof (partial): ctx-enabled / reply-first / no-recycle / isolation theorems on the connection machine; promptness while blocked in the kernel is not claimed; through the Transport (a call given up at its deadline leaves the pooled connection and its other calls alone) by snapshot-step correspondence with the pool machine.", "inductive invariant + gated trace replay"),
 "C20": ("life", "proof (partial): ledger-empties-after-close and idempotence theorems; the server teardown terminates (a finite run of own steps ends with ServeCodec returned, nothing queued or running, in the order read from the source and without fault); goroutine exit itself is observed by the harness.", "progress of fair drain over resource ledger + lifecycle replay"),
}

def main():
    chk = open(os.path.join(ROOT, "check")).read()
    hsrc = ""
    for f in os.listdir(os.path.join(ROOT, "harness")):
        if f.endswith(".go"): hsrc += open(os.path.join(ROOT, "harness", f)).read()
    checks, na = [], []
    hooks_commits = subprocess.run(["git", "-C", "/repo", "log", "--format=%h", "--grep=^verif hooks"], stdout=subprocess.PIPE, text=True).stdout.split()
    for pid in sorted(T):
        engine, text, tech = T[pid]
        m = re.search(r'P\("%s",\s*"[^"]*",\s*\[([^\]]*)\]' % pid, chk)
        cmds = re.findall(r'"([^"]+)"', m.group(1)) if m else []
        have = os.path.exists(os.path.join(ROOT, "coq/Props/%s.v" % pid)) and cmds and all(('commands["%s"]' % c) in hsrc for c in cmds)
        if not have:
            na.append({"property_id": pid, "reason": "not claimed yet: the model/theorems/harness for this property are still being built (the technique applies; see DESIGN.md section 6)"})
            continue
        checks.append({
            "property_id": pid,
            "quick_cmd": "./check %s --tier=quick" % pid,
            "thorough_cmd": "./check %s --tier=thorough" % pid,
            "evidence_file": "/verif/evidence/%s.json" % pid,
            "replay_cmd_template": "./check %s --replay {path}" % pid,
            "engine": engine,
            "level_claimed": {"category": "proof", "text": text, "design_ref": "DESIGN.md section 6 (%s)" % pid},
            "level_note": "Trusted: Coq 8.16.1 kernel + vm_compute; no axioms (Print Assumptions: closed under the global context); hand-written Gallina model tied to /repo by the correspondence check (Go harness, generators, projection, Coq mismatches) and by tools/extract regenerating coq/Gen/Generated.v on every run; atomicity reading of mutex sections; dependency models validated not verified. See DESIGN.md section 8.",
            "technique": "Coq proof: " + tech,
        })
    man = {
        "version": 1,
        "setup_cmd": "./setup.sh",
        "hooks": {"guard": "verif", "enable": "go build -tags verif (the harness module replaces github.com/hslam/rpc by /repo)",
                  "baseline_off_cmd": BASE, "source_commits": hooks_commits, "add_only": True},
        "engines": [{"name": e, "path": "/verif/coq + /verif/harness", "serves_properties": sorted(p for p in T if T[p][0] == e),
                     "kind_free_text": "Coq model + theorems, Go correspondence harness"} for e in sorted({v[0] for v in T.values()})],
        "checks": checks,
        "not_applicable": na,
        "notes": "All checks: ./check <id> --tier=quick|thorough (cwd /verif). known findings: /verif/known_findings.json.",
    }
    json.dump(man, open(os.path.join(ROOT, "MANIFEST.json"), "w"), indent=1)
    print("claimed:", [c["property_id"] for c in checks])

main()
