#!/usr/bin/env python3
# usage: diverge.py <cases_k.v> — prints for each mismatching case where it diverges and the step text
import re, subprocess, sys, os
f = sys.argv[1]
src = open(f).read()
hdr = src.split("\n")[0]
body = src[src.index("Definition cases"):]
body = body[:body.index("Definition M :=")]
tmp = "/tmp/diverge_%d.v" % os.getpid()
open(tmp, "w").write(hdr + "\n" + body + "\nDefinition D := Eval vm_compute in divergences cases.\nPrint D.\n")
out = subprocess.run(["coqc", "-Q", "/verif/coq", "RPC", tmp], stdout=subprocess.PIPE, stderr=subprocess.STDOUT, text=True, cwd="/tmp").stdout
m = re.search(r"D\s*=\s*(\[.*?\])\s*:\s*list", out, re.S)
if not m:
    print(out[-2000:]); sys.exit(1)
items = [x.strip() for x in m.group(1).strip()[1:-1].split(";")]
# split cases text
cases = re.split(r"\n\{\| cc_cfg", body)[1:]
for i, it in enumerate(items):
    if it.startswith("Some"):
        k = int(re.search(r"(\d+)", it).group(1))
        c = cases[i]
        cfg = re.search(r":= \{\| directIO := (\w+); pipelining := (\w+)", c)
        steps = re.findall(r"\n  \((H\w+[^\n]*?), \{\| o_calls", c)
        obs = re.findall(r"\n  \(H\w+[^\n]*?, (\{\| o_calls[^\n]*)\)", c)
        idx = k % 1000
        print("case %d cfg direct=%s pipe=%s diverges at %d (%s)" % (i, cfg.group(1), cfg.group(2), k, "not enabled in model" if k >= 1000 else "obs differ"))
        for j, s in enumerate(steps[: idx + 1]):
            print("   %2d %s" % (j, s[:150]))
        if idx < len(obs): print("      impl obs:", obs[idx][:600])
