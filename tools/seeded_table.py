#!/usr/bin/env python3
"""seeded_table.py — rewrites the table of DESIGN.md section 12.5 from seeded/*/meta.json."""
import json, glob, os, re
ROOT = os.path.dirname(os.path.dirname(os.path.abspath(__file__)))
rows = ["| seeded change | needs | caught by | how |", "|---|---|---|---|"]
def cell(s, n=260):
    t = re.sub(r"\s+", " ", str(s or "")).replace("|", "\\|").strip()
    return t if len(t) <= n else t[:n].rsplit(" ", 1)[0] + " …"
for d in sorted(glob.glob(os.path.join(ROOT, "seeded", "S*"))):
    m = json.load(open(os.path.join(d, "meta.json")))
    rows.append("| `%s` (%s): %s | %s | %s | %s |" % (os.path.basename(d), m["property"], cell(m.get("summary")), cell(m.get("needs")),
                ", ".join(m.get("caught_by") or []), cell(m.get("how"))))
p = os.path.join(ROOT, "DESIGN.md")
s = open(p).read()
i = s.index("| seeded change | needs | caught by | how |")
j = s.find("\n\n", i)
tail = s[j:] if j >= 0 else "\n"
open(p, "w").write(s[:i] + "\n".join(rows) + tail)
print(len(rows) - 2, "rows")
