// extract re-reads hslam/rpc's source on every run and emits the facts the
// Coq model imports (coq/Gen/Generated.v): numeric constants, the tag and
// shift constants of the hand-written codecs, and the order of calls in the
// function tails whose order is the mechanism of a property.  It fails
// closed: an unexpected shape is an error, Generated.v is not produced and
// the build (hence every check) reports it.
package main

import (
	"fmt"
	"go/ast"
	"go/constant"
	"go/parser"
	"go/token"
	"os"
	"path/filepath"
	"sort"
	"strings"
)

var fset = token.NewFileSet()
var files = map[string]*ast.File{}
var consts = map[string]constant.Value{}

func die(f string, a ...interface{}) {
	fmt.Fprintf(os.Stderr, "extract: "+f+"\n", a...)
	os.Exit(2)
}

func load(dir string) {
	names, _ := filepath.Glob(filepath.Join(dir, "*.go"))
	sort.Strings(names)
	for _, n := range names {
		if strings.HasSuffix(n, "_test.go") || strings.HasPrefix(filepath.Base(n), "verif_") {
			continue
		}
		f, err := parser.ParseFile(fset, n, nil, 0)
		if err != nil {
			die("parse %s: %v", n, err)
		}
		files[filepath.Base(n)] = f
	}
	// package-level constants, iterated to a fixpoint (they may refer to each other)
	for round := 0; round < 5; round++ {
		for _, f := range files {
			for _, d := range f.Decls {
				gd, ok := d.(*ast.GenDecl)
				if !ok || (gd.Tok != token.CONST && gd.Tok != token.VAR) {
					continue
				}
				for _, s := range gd.Specs {
					vs := s.(*ast.ValueSpec)
					for i, name := range vs.Names {
						if i < len(vs.Values) {
							if v, ok := eval(vs.Values[i]); ok {
								consts[name.Name] = v
							}
						}
					}
				}
			}
		}
	}
}

var timeUnits = map[string]int64{"Nanosecond": 1, "Microsecond": 1e3, "Millisecond": 1e6, "Second": 1e9, "Minute": 60e9, "Hour": 3600e9}

func eval(e ast.Expr) (constant.Value, bool) {
	switch x := e.(type) {
	case *ast.BasicLit:
		v := constant.MakeFromLiteral(x.Value, x.Kind, 0)
		return v, v.Kind() != constant.Unknown
	case *ast.ParenExpr:
		return eval(x.X)
	case *ast.Ident:
		v, ok := consts[x.Name]
		return v, ok
	case *ast.SelectorExpr:
		if id, ok := x.X.(*ast.Ident); ok && id.Name == "time" {
			if u, ok := timeUnits[x.Sel.Name]; ok {
				return constant.MakeInt64(u), true
			}
		}
		return nil, false
	case *ast.CallExpr: // conversions such as int64(dialTimeout), uint64(1)
		if len(x.Args) == 1 {
			if id, ok := x.Fun.(*ast.Ident); ok {
				switch id.Name {
				case "int64", "uint64", "int", "byte", "uint8", "int32", "uint32", "float64":
					return eval(x.Args[0])
				}
			}
		}
		return nil, false
	case *ast.UnaryExpr:
		v, ok := eval(x.X)
		if !ok {
			return nil, false
		}
		return constant.UnaryOp(x.Op, v, 0), true
	case *ast.BinaryExpr:
		a, ok1 := eval(x.X)
		b, ok2 := eval(x.Y)
		if !ok1 || !ok2 {
			return nil, false
		}
		switch x.Op {
		case token.SHL, token.SHR:
			s, ok := constant.Uint64Val(b)
			if !ok {
				return nil, false
			}
			return constant.Shift(a, x.Op, uint(s)), true
		case token.QUO:
			if a.Kind() == constant.Int && b.Kind() == constant.Int {
				return constant.BinaryOp(a, token.QUO_ASSIGN, b), true
			}
		}
		return constant.BinaryOp(a, x.Op, b), true
	}
	return nil, false
}

func mustConst(name string) string {
	v, ok := consts[name]
	if !ok {
		die("constant %s not found", name)
	}
	return v.ExactString()
}

func findFunc(file, recv, name string) *ast.FuncDecl {
	f, ok := files[file]
	if !ok {
		die("file %s not found", file)
	}
	for _, d := range f.Decls {
		fd, ok := d.(*ast.FuncDecl)
		if !ok || fd.Name.Name != name {
			continue
		}
		r := ""
		if fd.Recv != nil && len(fd.Recv.List) > 0 {
			t := fd.Recv.List[0].Type
			if st, ok := t.(*ast.StarExpr); ok {
				t = st.X
			}
			if id, ok := t.(*ast.Ident); ok {
				r = id.Name
			}
		}
		if r == recv {
			return fd
		}
	}
	die("func (%s).%s not found in %s", recv, name, file)
	return nil
}

func exprString(e ast.Expr) string {
	switch x := e.(type) {
	case *ast.Ident:
		return x.Name
	case *ast.SelectorExpr:
		return exprString(x.X) + "." + x.Sel.Name
	case *ast.IndexExpr:
		return exprString(x.X) + "[" + exprString(x.Index) + "]"
	case *ast.CallExpr:
		return exprString(x.Fun) + "()"
	case *ast.StarExpr:
		return "*" + exprString(x.X)
	case *ast.BasicLit:
		return x.Value
	case *ast.ParenExpr:
		return "(" + exprString(x.X) + ")"
	case *ast.BinaryExpr:
		return exprString(x.X) + x.Op.String() + exprString(x.Y)
	case *ast.UnaryExpr:
		return x.Op.String() + exprString(x.X)
	}
	return fmt.Sprintf("<%T>", e)
}

// tags written by MarshalTo: assignments `buf[offset] = <const>` in order
func marshalTags(file, recv string) []string {
	fd := findFunc(file, recv, "MarshalTo")
	var out []string
	ast.Inspect(fd.Body, func(n ast.Node) bool {
		as, ok := n.(*ast.AssignStmt)
		if !ok || len(as.Lhs) != 1 || len(as.Rhs) != 1 {
			return true
		}
		if exprString(as.Lhs[0]) == "buf[offset]" {
			v, ok := eval(as.Rhs[0])
			if !ok {
				die("%s.MarshalTo: non-constant tag %s", recv, exprString(as.Rhs[0]))
			}
			out = append(out, v.ExactString())
		}
		return true
	})
	return out
}

// constants added to `size` (the Size()/Marshal slack): `size += K` or `size += K + uint64(len(..))`
func sizeSlack(file, recv, fn string) []string {
	fd := findFunc(file, recv, fn)
	var out []string
	ast.Inspect(fd.Body, func(n ast.Node) bool {
		as, ok := n.(*ast.AssignStmt)
		if !ok || as.Tok != token.ADD_ASSIGN || exprString(as.Lhs[0]) != "size" {
			return true
		}
		e := as.Rhs[0]
		if be, ok := e.(*ast.BinaryExpr); ok && be.Op == token.ADD {
			e = be.X
		}
		v, ok := eval(e)
		if !ok {
			die("%s.%s: non-constant size slack", recv, fn)
		}
		out = append(out, v.ExactString())
		return true
	})
	return out
}

// (field number, required wire type) pairs of the Unmarshal switch
func unmarshalCases(file, recv string) [][2]string {
	fd := findFunc(file, recv, "Unmarshal")
	var out [][2]string
	ast.Inspect(fd.Body, func(n ast.Node) bool {
		cc, ok := n.(*ast.CaseClause)
		if !ok || len(cc.List) != 1 {
			return true
		}
		fn, ok := eval(cc.List[0])
		if !ok {
			return true
		}
		wt := ""
		ast.Inspect(cc, func(m ast.Node) bool {
			be, ok := m.(*ast.BinaryExpr)
			if ok && be.Op == token.NEQ && exprString(be.X) == "wireType" {
				if v, ok := eval(be.Y); ok {
					wt = v.ExactString()
				}
			}
			return true
		})
		if wt == "" {
			die("%s.Unmarshal: case %s has no wireType check", recv, fn.ExactString())
		}
		out = append(out, [2]string{fn.ExactString(), wt})
		return true
	})
	return out
}

// thresholds `len(x) > K` of the code Marshal three-way branches
func codeThresholds(recv string) []string {
	fd := findFunc("codec.code.go", recv, "Marshal")
	var out []string
	ast.Inspect(fd.Body, func(n ast.Node) bool {
		is, ok := n.(*ast.IfStmt)
		if !ok {
			return true
		}
		if be, ok := is.Cond.(*ast.BinaryExpr); ok && be.Op == token.GTR && strings.HasPrefix(exprString(be.X), "len()") {
			if v, ok := eval(be.Y); ok {
				out = append(out, v.ExactString())
			}
		}
		return true
	})
	return out
}

// upgrade.Marshal: buf[0] = u.A<<s1 + u.B<<s2 + ...
func upgradeShifts() (m [][2]string, u [][3]string) {
	fd := findFunc("upgrade.go", "upgrade", "Marshal")
	ast.Inspect(fd.Body, func(n ast.Node) bool {
		as, ok := n.(*ast.AssignStmt)
		if !ok || exprString(as.Lhs[0]) != "buf[0]" {
			return true
		}
		var walk func(e ast.Expr)
		walk = func(e ast.Expr) {
			be, ok := e.(*ast.BinaryExpr)
			if !ok {
				die("upgrade.Marshal: unexpected expression")
			}
			switch be.Op {
			case token.ADD, token.OR:
				walk(be.X)
				walk(be.Y)
			case token.SHL:
				v, ok := eval(be.Y)
				if !ok {
					die("upgrade.Marshal: shift not constant")
				}
				m = append(m, [2]string{exprString(be.X), v.ExactString()})
			default:
				die("upgrade.Marshal: unexpected operator %s", be.Op)
			}
		}
		walk(as.Rhs[0])
		return true
	})
	fd = findFunc("upgrade.go", "upgrade", "Unmarshal")
	ast.Inspect(fd.Body, func(n ast.Node) bool {
		as, ok := n.(*ast.AssignStmt)
		if !ok || !strings.HasPrefix(exprString(as.Lhs[0]), "u.") {
			return true
		}
		// data[0] >> s & mask  parses as (data[0] >> s) & mask
		be, ok := as.Rhs[0].(*ast.BinaryExpr)
		if !ok || be.Op != token.AND {
			die("upgrade.Unmarshal: unexpected expression for %s", exprString(as.Lhs[0]))
		}
		sh, ok := be.X.(*ast.BinaryExpr)
		if !ok || sh.Op != token.SHR || exprString(sh.X) != "data[0]" {
			die("upgrade.Unmarshal: unexpected shift for %s", exprString(as.Lhs[0]))
		}
		s, ok1 := eval(sh.Y)
		mk, ok2 := eval(be.Y)
		if !ok1 || !ok2 {
			die("upgrade.Unmarshal: non-constant")
		}
		u = append(u, [3]string{exprString(as.Lhs[0]), s.ExactString(), mk.ExactString()})
		return true
	})
	return
}

// ---- call order of function tails ----

// callsIn lists the calls of a statement list in source order, flattening
// if-bodies (guards like `if sched != nil`) and marking range loops.
func callsIn(stmts []ast.Stmt, out *[]string) {
	for _, s := range stmts {
		switch x := s.(type) {
		case *ast.ExprStmt:
			if c, ok := x.X.(*ast.CallExpr); ok {
				*out = append(*out, exprString(c.Fun))
			}
		case *ast.IfStmt:
			callsIn(x.Body.List, out)
			if x.Else != nil {
				if b, ok := x.Else.(*ast.BlockStmt); ok {
					callsIn(b.List, out)
				}
			}
		case *ast.RangeStmt:
			*out = append(*out, "range:"+exprString(x.X))
			callsIn(x.Body.List, out)
			*out = append(*out, "end:"+exprString(x.X))
		case *ast.AssignStmt:
			for _, r := range x.Rhs {
				if c, ok := r.(*ast.CallExpr); ok {
					*out = append(*out, exprString(c.Fun))
				}
			}
		case *ast.BlockStmt:
			callsIn(x.List, out)
		}
	}
}

// statements after the last top-level `for` loop of a function body
func tailAfterFor(fd *ast.FuncDecl) []ast.Stmt {
	last := -1
	for i, s := range fd.Body.List {
		if _, ok := s.(*ast.ForStmt); ok {
			last = i
		}
	}
	if last < 0 {
		die("%s: no top-level for loop", fd.Name.Name)
	}
	return fd.Body.List[last+1:]
}

// the body of `if atomic.CompareAndSwapInt32(&svrctx.closed, 0, 1) {...}` in listen
func pollEOFBranch() []ast.Stmt {
	fd := findFunc("server.go", "Server", "listen")
	var body []ast.Stmt
	ast.Inspect(fd.Body, func(n ast.Node) bool {
		is, ok := n.(*ast.IfStmt)
		if !ok {
			return true
		}
		if c, ok := is.Cond.(*ast.CallExpr); ok && exprString(c.Fun) == "atomic.CompareAndSwapInt32" && len(c.Args) > 0 && strings.Contains(exprString(c.Args[0]), "closed") {
			body = is.Body.List
			return false
		}
		return true
	})
	if body == nil {
		die("listen: poll EOF branch not found")
	}
	return body
}

func coqStrList(xs []string) string {
	q := make([]string, len(xs))
	for i, x := range xs {
		q[i] = "\"" + x + "\""
	}
	return "[" + strings.Join(q, "; ") + "]"
}

func nlist(xs []string) string { return "[" + strings.Join(xs, "; ") + "]%N" }

func main() {
	if len(os.Args) != 3 {
		die("usage: extract <repo dir> <out.v>")
	}
	load(os.Args[1])
	var b strings.Builder
	p := func(f string, a ...interface{}) { fmt.Fprintf(&b, f+"\n", a...) }
	p("(* GENERATED by tools/extract from the current source of hslam/rpc — do not edit. *)")
	p("From Coq Require Import List NArith ZArith String.")
	p("Import ListNotations.")
	p("Open Scope string_scope.")
	p("")
	p("(* upgrade.go *)")
	for _, c := range []string{"upgradeSize", "noRequest", "noResponse", "heartbeat", "openStream", "streaming", "closeStream"} {
		p("Definition c_%s : N := %s%%N.", c, mustConst(c))
	}
	m, u := upgradeShifts()
	var ms, us []string
	for _, x := range m {
		ms = append(ms, fmt.Sprintf("(\"%s\", %s%%N)", x[0], x[1]))
	}
	for _, x := range u {
		us = append(us, fmt.Sprintf("(\"%s\", %s%%N, %s%%N)", x[0], x[1], x[2]))
	}
	p("Definition upgrade_marshal_shifts : list (string * N) := [%s].", strings.Join(ms, "; "))
	p("Definition upgrade_unmarshal_fields : list (string * N * N) := [%s].", strings.Join(us, "; "))
	p("")
	p("(* codec.pb.go *)")
	p("Definition pb_req_tags : list N := %s.", nlist(marshalTags("codec.pb.go", "pbRequest")))
	p("Definition pb_resp_tags : list N := %s.", nlist(marshalTags("codec.pb.go", "pbResponse")))
	p("Definition pb_req_slack : list N := %s.", nlist(sizeSlack("codec.pb.go", "pbRequest", "Size")))
	p("Definition pb_resp_slack : list N := %s.", nlist(sizeSlack("codec.pb.go", "pbResponse", "Size")))
	cs := func(xs [][2]string) string {
		var o []string
		for _, x := range xs {
			o = append(o, fmt.Sprintf("(%s, %s)", x[0], x[1]))
		}
		return "[" + strings.Join(o, "; ") + "]%N"
	}
	p("Definition pb_req_cases : list (N * N) := %s.", cs(unmarshalCases("codec.pb.go", "pbRequest")))
	p("Definition pb_resp_cases : list (N * N) := %s.", cs(unmarshalCases("codec.pb.go", "pbResponse")))
	p("")
	p("(* codec.code.go *)")
	p("Definition code_req_slack : list N := %s.", nlist(sizeSlack("codec.code.go", "request", "Marshal")))
	p("Definition code_resp_slack : list N := %s.", nlist(sizeSlack("codec.code.go", "response", "Marshal")))
	p("Definition code_req_thresholds : list N := %s.", nlist(codeThresholds("request")))
	p("Definition code_resp_thresholds : list N := %s.", nlist(codeThresholds("response")))
	p("")
	p("(* codec.go, transport.go, client.go *)")
	p("Definition c_bufferSize : N := %s%%N.", mustConst("bufferSize"))
	p("Definition c_DefaultMaxConnsPerHost : Z := %s%%Z.", mustConst("DefaultMaxConnsPerHost"))
	p("Definition c_DefaultMaxIdleConnsPerHost : Z := %s%%Z.", mustConst("DefaultMaxIdleConnsPerHost"))
	p("Definition c_DefaultKeepAlive : Z := %s%%Z.", mustConst("DefaultKeepAlive"))
	p("Definition c_DefaultIdleConnTimeout : Z := %s%%Z.", mustConst("DefaultIdleConnTimeout"))
	p("Definition c_clientTick : Z := %s%%Z.", mustConst("clientTick"))
	p("Definition c_dialTimeout : Z := %s%%Z.", mustConst("dialTimeout"))
	p("Definition c_clientLatency : Z := %s%%Z.", mustConst("clientLatency"))
	// clientAlpha as a rational num/den (0.8 -> 8/10)
	av := consts["clientAlpha"]
	if av == nil {
		die("clientAlpha not found")
	}
	num, den := constant.Num(av), constant.Denom(av)
	p("Definition c_clientAlpha_num : Z := %s%%Z.", num.ExactString())
	p("Definition c_clientAlpha_den : Z := %s%%Z.", den.ExactString())
	p("")
	p("(* order of calls in the function tails *)")
	var t []string
	callsIn(tailAfterFor(findFunc("server.go", "Server", "ServeCodec")), &t)
	p("Definition servecodec_tail : list string := %s.", coqStrList(t))
	t = nil
	callsIn(pollEOFBranch(), &t)
	p("Definition poll_eof_tail : list string := %s.", coqStrList(t))
	t = nil
	callsIn(tailAfterFor(findFunc("conn.go", "Conn", "recv")), &t)
	p("Definition conn_recv_tail : list string := %s.", coqStrList(t))
	if err := os.WriteFile(os.Args[2], []byte(b.String()), 0644); err != nil {
		die("%v", err)
	}
}
