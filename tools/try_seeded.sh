#!/bin/bash
# usage: try_seeded.sh <out-dir with patch.diff + demo + meta.json> <property> [check ids...]
# 1. confirms the seeded change in a scratch worktree (builds, suite passes, demo fails with / passes without)
# 2. applies it to /repo, runs the given checks (default: the property's), and undoes it
set -u
OUT=$1; PROP=$2; shift 2; CHECKS="$PROP $@"
export GOFLAGS=-mod=mod GOPROXY=off GOSUMDB=off GOTOOLCHAIN=local
W=/tmp/mut/verify-$$
git -C /repo worktree add -q --detach $W HEAD || exit 2
cd $W
res() { echo "$1" ; }
if ! git apply $OUT/patch.diff; then echo "RESULT patch-does-not-apply"; git -C /repo worktree remove --force $W; exit 3; fi
go build ./... || { echo "RESULT does-not-build"; git -C /repo worktree remove --force $W; exit 3; }
SUITE=$(unshare -rn sh -c 'ip link set lo up; go test -vet=off -count=1 -timeout 25m . 2>&1' | tail -1)
echo "suite with change: $SUITE"
DEMO=$(ls $OUT/*_test.go 2>/dev/null | head -1)
if [ -n "$DEMO" ]; then
  cp $DEMO $W/
  T=$(grep -o 'func Test[A-Za-z0-9_]*' $DEMO | sed 's/func //' | paste -sd'|')
  WITH=$(unshare -rn sh -c "ip link set lo up; timeout 300 go test -vet=off -count=1 -timeout 200s -run '^($T)\$' . 2>&1" | tail -1)
  echo "demo with change: $WITH"
  git apply -R $OUT/patch.diff
  WITHOUT=$(unshare -rn sh -c "ip link set lo up; timeout 300 go test -vet=off -count=1 -timeout 200s -run '^($T)\$' . 2>&1" | tail -1)
  echo "demo without change: $WITHOUT"
fi
cd /; git -C /repo worktree remove --force $W
# run the checks against the change
cd /repo && git apply $OUT/patch.diff || { echo "RESULT cannot-apply-to-repo"; exit 3; }
cd /verif
for c in $CHECKS; do
  ./check $c --tier=quick > /tmp/mut/check_$c.out 2>&1; rc=$?
  echo "check $c exit=$rc: $(grep -c VIOLATION /tmp/mut/check_$c.out) violation line(s); $(grep VIOLATION /tmp/mut/check_$c.out | head -2 | tr '\n' ' ')"
  tail -1 /tmp/mut/check_$c.out
done
git -C /repo checkout -- . ; git -C /repo status --short | head -3
