#!/usr/bin/env python3
"""keep_seeded.py <name> <src-dir> <property> <caught-by> <how> — copies a confirmed seeded change into /verif/seeded/<name>/"""
import json, os, shutil, sys, glob
name, src, prop, caught, how = sys.argv[1:6]
dst = os.path.join("/verif/seeded", name)
os.makedirs(dst, exist_ok=True)
shutil.copy(os.path.join(src, "patch.diff"), dst)
for f in glob.glob(os.path.join(src, "*_test.go")) + glob.glob(os.path.join(src, "*.go")):
    shutil.copy(f, os.path.join(dst, os.path.basename(f) + ".txt"))   # .txt: not part of any Go package
m = {}
try: m = json.load(open(os.path.join(src, "meta.json")))
except Exception: pass
meta = {"property": prop, "summary": m.get("summary"), "needs": m.get("needs"), "demo_cmd": m.get("demo_cmd"),
        "author_ran": m.get("ran"),
        "confirmed": "tools/try_seeded.sh: applied to a scratch worktree of /repo HEAD; go build ok; the 81-test suite passes with the change (run in a private network namespace); the demonstration fails with the change and passes without it",
        "caught_by": caught.split(","), "how": how}
json.dump(meta, open(os.path.join(dst, "meta.json"), "w"), indent=1)
print("kept", dst)
