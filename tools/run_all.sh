#!/bin/sh
# runs every claimed check's quick command (4 at a time) and prints a summary
cd /verif
ids=$(python3 -c "import json; print(' '.join(c['property_id'] for c in json.load(open('MANIFEST.json'))['checks']))")
echo $ids | tr ' ' '\n' | xargs -P 4 -I{} sh -c "./check {} --tier=${1:-quick} > work/{}.out 2>&1; echo {} exit=\$? \$(tail -1 work/{}.out)"
