#!/bin/bash
# usage: apply_run.sh <patch> <check ids...> — applies a seeded change to /repo, runs the checks, undoes it
P=$1; shift
cd /repo && git apply $P || { echo cannot-apply; exit 3; }
cd /verif
for c in "$@"; do
  ./check $c --tier=quick > /tmp/mut/check_$c.out 2>&1; rc=$?
  echo "check $c exit=$rc: $(grep VIOLATION /tmp/mut/check_$c.out | head -2 | tr '\n' ' ')"
  tail -1 /tmp/mut/check_$c.out
done
git -C /repo checkout -- . ; git -C /repo status --short | head -3
