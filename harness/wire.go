package main

// Function-level differential for the wire layer (C07, decoder half of C08):
// the same values go through the real encoders/decoders; outputs and outcome
// classes are written as a Coq case file for comparison with the model, and
// the property oracles are evaluated directly on the implementation.

import (
	"bytes"
	"encoding/binary"
	"encoding/hex"
	"encoding/json"
	"fmt"
	"io"
	"strings"
	"sync"
	"unicode/utf8"

	"github.com/hslam/rpc"
	"github.com/hslam/socket"
)

func init() {
	commands["wire-c07"] = func(w string) { runWire(w, "C07") }
	commands["wire-c08"] = func(w string) { runWire(w, "C08") }
}

type hdr struct {
	Seq            uint64
	Upgrade        []byte
	Method, Errtxt []byte
	Body           []byte
}

// reference encodings, written independently of the library (encoding/binary)
func uv(x uint64) []byte {
	var b [binary.MaxVarintLen64]byte
	n := binary.PutUvarint(b[:], x)
	return b[:n]
}
func refLP(x []byte) []byte { return append(uv(uint64(len(x))), x...) }
func refPBField(fn int, x []byte) []byte {
	if len(x) == 0 {
		return nil
	}
	return append(uv(uint64(fn<<3|2)), refLP(x)...)
}
func refPBReq(h hdr) []byte {
	var o []byte
	if h.Seq != 0 {
		o = append(o, uv(1<<3|0)...)
		o = append(o, uv(h.Seq)...)
	}
	o = append(o, refPBField(2, h.Upgrade)...)
	o = append(o, refPBField(3, h.Method)...)
	o = append(o, refPBField(4, h.Body)...)
	return o
}
func refPBResp(h hdr) []byte {
	var o []byte
	if h.Seq != 0 {
		o = append(o, uv(1<<3|0)...)
		o = append(o, uv(h.Seq)...)
	}
	o = append(o, refPBField(2, h.Errtxt)...)
	o = append(o, refPBField(3, h.Body)...)
	return o
}
func refCodeReq(h hdr) []byte {
	o := uv(h.Seq)
	o = append(o, refLP(h.Upgrade)...)
	o = append(o, refLP(h.Method)...)
	o = append(o, refLP(h.Body)...)
	return o
}
func refCodeResp(h hdr) []byte {
	o := uv(h.Seq)
	o = append(o, refLP(h.Errtxt)...)
	o = append(o, refLP(h.Body)...)
	return o
}

type encSpec struct {
	name string
	coq  string // "" = not modelled in Coq (json)
	mk   func() rpc.Encoder
}

var encoders = []encSpec{
	{"pb", "EPb", rpc.NewPBEncoder},
	{"code", "ECode", rpc.NewCODEEncoder},
	{"json", "", rpc.NewJSONEncoder},
}

// safely runs f, reporting whether it panicked
func safely(f func()) (panicked bool, val interface{}) {
	defer func() {
		if r := recover(); r != nil {
			panicked, val = true, r
		}
	}()
	f()
	return
}

func scratch(cap_ int, fill byte) []byte {
	b := make([]byte, cap_)
	for i := range b {
		b[i] = fill
	}
	return b[:0]
}

func genBytes(e *Env, n int, mode int) []byte {
	b := make([]byte, n)
	if n > 600 {
		// large payloads: runs of constant bytes (kept compact in case files),
		// with a short random head and tail
		for i := 0; i < n; {
			l := 64 + e.Rng.Intn(n)
			c := byte(e.Rng.Intn(256))
			for j := 0; j < l && i < n; j++ {
				b[i] = c
				i++
			}
		}
		e.Rng.Read(b[:16])
		e.Rng.Read(b[n-16:])
		return b
	}
	switch mode % 3 {
	case 0:
		e.Rng.Read(b)
	case 1:
		c := byte(e.Rng.Intn(256))
		for i := range b {
			b[i] = c
		}
	default:
		for i := range b {
			b[i] = byte('a' + i%26)
		}
	}
	return b
}

func genUTF8(e *Env, n int) []byte {
	pool := []rune{'a', 'Z', '0', ' ', '"', '\\', '/', '<', '>', '&', '\n', '\r', '\t', 0x01, 0x1f, 0x7f, 0xe9, 0x4e16, 0x2028, 0x2029, 0x1f600, 0xfffd}
	var sb strings.Builder
	if n > 600 {
		sb.WriteString(strings.Repeat("x", n-300))
	}
	for sb.Len() < n {
		sb.WriteRune(pool[e.Rng.Intn(len(pool))])
	}
	s := sb.String()
	for len(s) > n || !utf8.ValidString(s) {
		_, sz := utf8.DecodeLastRuneInString(s)
		s = s[:len(s)-sz]
	}
	return []byte(s)
}

var boundarySeqs = []uint64{0, 1, 127, 128, 16383, 16384, 2097151, 2097152, 1<<28 - 1, 1 << 28, 1<<35 - 1, 1 << 35,
	1<<42 - 1, 1 << 42, 1<<49 - 1, 1 << 49, 1<<56 - 1, 1 << 56, 1<<63 - 1, 1 << 63, 1<<64 - 1}
var boundaryLens = []int{0, 1, 2, 126, 127, 128, 129, 255, 256, 16383, 16384, 16385}

func encodeReq(enc rpc.Encoder, h hdr, buf []byte) ([]byte, error) {
	r := enc.NewRequest()
	r.SetSeq(h.Seq)
	r.SetUpgrade(h.Upgrade)
	r.SetServiceMethod(string(h.Method))
	r.SetArgs(h.Body)
	return enc.NewCodec().Marshal(buf, r)
}
func encodeResp(enc rpc.Encoder, h hdr, buf []byte) ([]byte, error) {
	r := enc.NewResponse()
	r.SetSeq(h.Seq)
	r.SetError(string(h.Errtxt))
	r.SetReply(h.Body)
	return enc.NewCodec().Marshal(buf, r)
}
func decodeReq(enc rpc.Encoder, data []byte) (h hdr, err error) {
	r := enc.NewRequest()
	r.Reset()
	err = enc.NewCodec().Unmarshal(data, r)
	h = hdr{Seq: r.GetSeq(), Upgrade: r.GetUpgrade(), Method: []byte(r.GetServiceMethod()), Body: r.GetArgs()}
	return
}
func decodeResp(enc rpc.Encoder, data []byte) (h hdr, err error) {
	r := enc.NewResponse()
	r.Reset()
	err = enc.NewCodec().Unmarshal(data, r)
	h = hdr{Seq: r.GetSeq(), Errtxt: []byte(r.GetError()), Body: r.GetReply()}
	return
}

func eqb(a, b []byte) bool { return bytes.Equal(a, b) || (len(a) == 0 && len(b) == 0) }

func short(b []byte) string {
	if len(b) > 24 {
		return fmt.Sprintf("%s..(%d bytes)", hex.EncodeToString(b[:24]), len(b))
	}
	return hex.EncodeToString(b)
}

type recMessages struct {
	mu  sync.Mutex
	out [][]byte
}

func (m *recMessages) ReadMessage(buf []byte) ([]byte, error) { select {} }
func (m *recMessages) WriteMessage(b []byte) error {
	m.mu.Lock()
	m.out = append(m.out, append([]byte(nil), b...))
	m.mu.Unlock()
	return nil
}
func (m *recMessages) Close() error { return nil }

// scripted in-memory stream for socket.NewMessages
type chunkRW struct {
	chunks [][]byte
	w      bytes.Buffer
}

func (c *chunkRW) Read(p []byte) (int, error) {
	for len(c.chunks) > 0 && len(c.chunks[0]) == 0 {
		c.chunks = c.chunks[1:]
	}
	if len(c.chunks) == 0 {
		return 0, io.EOF
	}
	n := copy(p, c.chunks[0])
	c.chunks[0] = c.chunks[0][n:]
	return n, nil
}
func (c *chunkRW) Write(p []byte) (int, error) { return c.w.Write(p) }
func (c *chunkRW) Close() error                { return nil }

func classOf(panicked bool, err error) string {
	if panicked {
		return "CPanic"
	}
	if err != nil {
		return "CErr"
	}
	return "COk"
}

func runWire(work, prop string) {
	e := newEnv(prop, "wire", work)
	defer e.finish()
	var cases []string
	add := func(s string) { cases = append(cases, s) }

	if prop == "C07" {
		wireUpgrade(e, add)
		wireEncode(e, add)
		wireFrames(e, add)
		wireCodecPath(e, add)
	}
	wireDecode(e, add, prop)
	e.Res.Rule = "boundary-first then seeded random header values (seq at every varint boundary, field lengths 0,1,126..129,255,256,16383..16385,64K,2M; random/constant/patterned contents; scratch buffers of capacity 0, size-1, size, size+1, 64K pre-filled with 0xFF/0x00/random); every truncation and sampled single-byte corruptions of valid frames; random byte strings; non-trivial = distinct (kind, encoder, length classes, outcome class)"
	names := writeCases(work, "From RPC Require Import RunWire.", "wcase", cases, 700)
	e.Res.ModelCases = len(cases)
	e.Res.Extra["case_files"] = names
}

func lenClass(n int) string {
	switch {
	case n == 0:
		return "0"
	case n < 128:
		return "<128"
	case n < 16384:
		return "<16K"
	case n < 2097152:
		return "<2M"
	}
	return ">=2M"
}

func wireUpgrade(e *Env, add func(string)) {
	// all 32 well-formed combinations, and ill-formed field values
	for a := 0; a < 2; a++ {
		for b := 0; b < 2; b++ {
			for c := 0; c < 2; c++ {
				for d := 0; d < 4; d++ {
					for _, capb := range []int{0, 1, 8} {
						out, err := rpc.VerifUpgradeMarshal(byte(a), byte(b), byte(c), byte(d), scratch(capb, 0xff))
						e.count("upgrade-enc", fmt.Sprintf("ue%d%d%d%d", a, b, c, d))
						if err != nil || len(out) != 1 {
							e.fail("C07-upgrade-marshal", "upgrade.Marshal failed", []int{a, b, c, d})
							continue
						}
						add(fmt.Sprintf("UpgEnc %d %d %d %d %d", a, b, c, d, out[0]))
						a2, b2, c2, d2, n, err := rpc.VerifUpgradeUnmarshal(out)
						if err != nil || n != 1 || int(a2) != a || int(b2) != b || int(c2) != c || int(d2) != d {
							e.fail("C07-upgrade-roundtrip", fmt.Sprintf("flags %d%d%d%d decode as %d%d%d%d", a, b, c, d, a2, b2, c2, d2), []int{a, b, c, d})
						}
					}
					add(fmt.Sprintf("UpgZero %d %d %d %d %s", a, b, c, d, coqBool(rpc.VerifUpgradeIsZero(byte(a), byte(b), byte(c), byte(d)))))
				}
			}
		}
	}
	for i := 0; i < 40; i++ {
		a, b, c, d := byte(e.Rng.Intn(256)), byte(e.Rng.Intn(256)), byte(e.Rng.Intn(256)), byte(e.Rng.Intn(256))
		out, _ := rpc.VerifUpgradeMarshal(a, b, c, d, nil)
		add(fmt.Sprintf("UpgEnc %d %d %d %d %d", a, b, c, d, out[0]))
		add(fmt.Sprintf("UpgZero %d %d %d %d %s", a, b, c, d, coqBool(rpc.VerifUpgradeIsZero(a, b, c, d))))
		e.count("upgrade-enc-illformed", "")
	}
	for x := 0; x < 256; x++ {
		a, b, c, d, _, err := rpc.VerifUpgradeUnmarshal([]byte{byte(x), 0xaa})
		add(fmt.Sprintf("UpgDec [Hx \"%02xaa\"] %s %d %d %d %d", x, classOf(false, err), a, b, c, d))
		e.count("upgrade-dec", fmt.Sprintf("ud%d", x))
		// encode(decode b) keeps the five flag bits
		out, _ := rpc.VerifUpgradeMarshal(a, b, c, d, nil)
		if out[0] != byte(x)&0xF8 {
			e.fail("C07-upgrade-bits", fmt.Sprintf("byte %#x re-encodes as %#x", x, out[0]), x)
		}
	}
	_, _, _, _, _, err := rpc.VerifUpgradeUnmarshal(nil)
	add(fmt.Sprintf("UpgDec [] %s 0 0 0 0", classOf(false, err)))
	e.sample(map[string]interface{}{"kind": "upgrade", "flags": []int{1, 1, 0, 2}, "byte": "0xd0"})
}

func genHeaders(e *Env) []hdr {
	var hs []hdr
	// boundary sequence numbers with small fields
	for _, s := range boundarySeqs {
		hs = append(hs, hdr{Seq: s, Upgrade: []byte{0x80}, Method: []byte("Arith.Multiply"), Errtxt: []byte("boom"), Body: []byte{1, 2, 3}})
	}
	// boundary lengths for each field in turn
	for i, n := range boundaryLens {
		hs = append(hs, hdr{Seq: uint64(i + 1), Upgrade: genBytes(e, n%300, i), Method: genUTF8(e, n), Errtxt: genUTF8(e, n), Body: genBytes(e, n, i+1)})
		hs = append(hs, hdr{Seq: uint64(i + 1), Method: genBytes(e, n, 2), Errtxt: genBytes(e, n, 0), Body: nil})
		hs = append(hs, hdr{Seq: 0, Body: genBytes(e, n, 1)})
	}
	// buffer-size boundaries and the 2 MB varint boundary (run-compressible contents)
	big := []int{65535, 65536, 65537, 70000}
	if e.thorough() {
		big = append(big, 2097151, 2097152, 2097153)
	} else {
		big = append(big, 2097151, 2097152)
	}
	for i, n := range big {
		hs = append(hs, hdr{Seq: 77, Method: []byte("M"), Errtxt: genBytes(e, n/3, 2), Body: genBytes(e, n, 1+3*(i%2))})
	}
	nrand := 120
	if e.thorough() {
		nrand = 3000
	}
	for i := 0; i < nrand; i++ {
		l := func() int {
			switch e.Rng.Intn(6) {
			case 0:
				return 0
			case 1:
				return boundaryLens[e.Rng.Intn(len(boundaryLens))]
			case 2:
				return e.Rng.Intn(20000)
			}
			return e.Rng.Intn(300)
		}
		var s uint64
		if e.Rng.Intn(2) == 0 {
			s = boundarySeqs[e.Rng.Intn(len(boundarySeqs))]
		} else {
			s = e.Rng.Uint64() >> uint(e.Rng.Intn(64))
		}
		up := []byte(nil)
		if e.Rng.Intn(2) == 0 {
			up = []byte{byte(e.Rng.Intn(256)) & 0xF8}
		}
		hs = append(hs, hdr{Seq: s, Upgrade: up, Method: genUTF8(e, l()%400), Errtxt: genUTF8(e, l()), Body: genBytes(e, l(), i)})
	}
	return hs
}

func wireEncode(e *Env, add func(string)) {
	hs := genHeaders(e)
	for i, h := range hs {
		for _, es := range encoders {
			enc := es.mk()
			isJSON := es.coq == ""
			if isJSON && (!utf8.Valid(h.Method) || !utf8.Valid(h.Errtxt)) {
				continue // the property restricts the json header to valid UTF-8
			}
			// natural size of the encoding, to place scratch capacities around it
			probe, err := encodeReq(enc, h, nil)
			if err != nil {
				e.fail("C07-encode-error", es.name+" request encode error: "+err.Error(), short(h.Body))
				continue
			}
			caps := []int{0, len(probe) + 64, 65536}
			huge := len(h.Body) > 1000000
			if huge {
				caps = []int{0}
				if !e.thorough() && ((es.name == "pb") != (len(h.Body)%2 == 0)) {
					continue
				}
			}
			if i%4 == 0 && !huge {
				caps = append(caps, len(probe)-1, len(probe), len(probe)+1, len(probe)+43, len(probe)+44, len(probe)+45)
			}
			for ci, c := range caps {
				if c < 0 {
					continue
				}
				fill := []byte{0xff, 0x00, 0xa5}[(i+ci)%3]
				for _, isReq := range []bool{true, false} {
					if huge && !e.thorough() && isReq != (es.name == "pb") {
						continue
					}
					var out []byte
					var err error
					if isReq {
						out, err = encodeReq(enc, h, scratch(c, fill))
					} else {
						out, err = encodeResp(enc, h, scratch(c, fill))
					}
					kind := es.name + map[bool]string{true: "-req", false: "-resp"}[isReq]
					e.count("enc-"+kind, fmt.Sprintf("enc-%s-%s-%s-%s-%d", kind, lenClass(len(h.Method)), lenClass(len(h.Errtxt)), lenClass(len(h.Body)), len(uv(h.Seq))))
					if err != nil {
						e.fail("C07-encode-error", kind+" encode error: "+err.Error(), short(h.Body))
						continue
					}
					raw := out
					out = append([]byte(nil), out...)
					// the bytes handed back belong to the caller until it has consumed them: other users of
					// the shared buffer pool, taking and filling buffers of the same size class meanwhile, do
					// not change them
					if !huge && len(raw) > 0 {
						var junk [][]byte
						for k := 0; k < 3; k++ {
							b := rpc.GetBuffer(len(raw))
							for j := range b {
								b[j] = 0x5c
							}
							junk = append(junk, b)
						}
						for _, b := range junk {
							rpc.PutBuffer(b)
						}
						if !bytes.Equal(raw, out) {
							e.fail("C07-encoded-bytes-not-owned", fmt.Sprintf("%s with a scratch buffer of capacity %d: the %d bytes it returned were overwritten when other code took buffers from the shared pool", kind, c, len(raw)), short(h.Body))
						}
					}
					// oracle 1: decode(encode x) = x on the implementation
					var back hdr
					var derr error
					pan, pv := safely(func() {
						if isReq {
							back, derr = decodeReq(enc, out)
						} else {
							back, derr = decodeResp(enc, out)
						}
					})
					ok := !pan && derr == nil && back.Seq == h.Seq && eqb(back.Body, h.Body)
					if isReq {
						ok = ok && eqb(back.Upgrade, h.Upgrade) && eqb(back.Method, h.Method)
					} else {
						ok = ok && eqb(back.Errtxt, h.Errtxt)
					}
					if !ok {
						e.fail("C07-roundtrip-"+kind, fmt.Sprintf("%s: decode(encode x) != x (seq=%d lens u=%d m=%d e=%d b=%d cap=%d panic=%v %v err=%v)", kind, h.Seq, len(h.Upgrade), len(h.Method), len(h.Errtxt), len(h.Body), c, pan, pv, derr),
							map[string]interface{}{"encoder": es.name, "request": isReq, "seq": h.Seq, "upgrade": hex.EncodeToString(h.Upgrade), "method": hex.EncodeToString(h.Method), "error": hex.EncodeToString(h.Errtxt), "body_len": len(h.Body), "cap": c})
					}
					// oracle 2: documented format, from an independent encoder
					var ref []byte
					switch {
					case es.name == "pb" && isReq:
						ref = refPBReq(h)
					case es.name == "pb":
						ref = refPBResp(h)
					case es.name == "code" && isReq:
						ref = refCodeReq(h)
					case es.name == "code":
						ref = refCodeResp(h)
					}
					if !isJSON && !bytes.Equal(ref, out) {
						e.fail("C07-format-"+kind, fmt.Sprintf("%s: bytes differ from the documented format (seq=%d lens u=%d m=%d e=%d b=%d): got %s want %s", kind, h.Seq, len(h.Upgrade), len(h.Method), len(h.Errtxt), len(h.Body), short(out), short(ref)),
							map[string]interface{}{"encoder": es.name, "request": isReq, "seq": h.Seq, "body_len": len(h.Body)})
					}
					if isJSON {
						var m map[string]json.RawMessage
						if json.Unmarshal(out, &m) != nil {
							e.fail("C07-format-json", "json header is not a JSON object", short(out))
						} else {
							want := map[bool][]string{true: {"i", "u", "m", "p"}, false: {"i", "e", "r"}}[isReq]
							if len(m) != len(want) {
								e.fail("C07-format-json", "json header keys differ from the documented ones", short(out))
							}
							for _, k := range want {
								if _, ok := m[k]; !ok {
									e.fail("C07-format-json", "json header lacks key "+k, short(out))
								}
							}
						}
						continue
					}
					// model comparison
					if isReq {
						add(fmt.Sprintf("EncReq %s %d %s %s %s %d %d %s", es.coq, h.Seq, bspec(h.Upgrade), bspec(h.Method), bspec(h.Body), c, fill, bspec(out)))
					} else {
						add(fmt.Sprintf("EncResp %s %d %s %s %d %d %s", es.coq, h.Seq, bspec(h.Errtxt), bspec(h.Body), c, fill, bspec(out)))
					}
					if len(out) < 64 {
						e.sample(map[string]interface{}{"kind": "enc-" + kind, "seq": h.Seq, "cap": c, "out": hex.EncodeToString(out)})
					}
				}
			}
		}
	}
}

// the default (nil header encoder) path of the client and server codecs:
// pooled scratch buffers, Size/checkBuffer/MarshalTo
func wireCodecPath(e *Env, add func(string)) {
	n := 40
	if e.thorough() {
		n = 400
	}
	for i := 0; i < n; i++ {
		body := genBytes(e, []int{0, 5, 127, 128, 300, 16384, 65500, 65536, 70000}[i%9], i)
		seq := boundarySeqs[i%len(boundarySeqs)]
		method := genUTF8(e, i%40)
		rm := &recMessages{}
		cc := rpc.NewClientCodec(&rpc.BYTESCodec{}, nil, rm, []int{0, 512, 65536, 1 << 20}[i%4])
		ctx := rpc.VerifNewContext(seq, 0, 0, 0, 0, string(method), "")
		if err := cc.WriteRequest(ctx, &body); err != nil || len(rm.out) != 1 {
			e.fail("C07-codec-path", "client codec WriteRequest failed", nil)
			continue
		}
		h := hdr{Seq: seq, Method: method, Body: body}
		if !bytes.Equal(rm.out[0], refPBReq(h)) {
			e.fail("C07-format-clientcodec", fmt.Sprintf("clientCodec.WriteRequest bytes differ from protobuf wire format (seq=%d method=%d body=%d)", seq, len(method), len(body)), map[string]interface{}{"seq": seq, "body_len": len(body)})
		}
		add(fmt.Sprintf("EncReq EPb %d [] %s %s %d 0 %s", seq, bspec(method), bspec(body), 65536, bspec(rm.out[0])))
		e.count("enc-clientcodec", fmt.Sprintf("cc-%s-%d", lenClass(len(body)), len(uv(seq))))
		// server side
		sm := &recMessages{}
		sc := rpc.NewServerCodec(&rpc.BYTESCodec{}, nil, sm, i%2 == 0, []int{0, 512, 65536, 1 << 20}[i%4])
		errText := ""
		if i%3 == 0 {
			errText = string(genUTF8(e, 1+i%200))
		}
		sctx := rpc.VerifNewContext(seq, 0, 0, 0, 0, "", errText)
		if err := sc.WriteResponse(sctx, &body); err != nil || len(sm.out) != 1 {
			e.fail("C07-codec-path", "server codec WriteResponse failed", nil)
			continue
		}
		rh := hdr{Seq: seq, Errtxt: []byte(errText)}
		if errText == "" {
			rh.Body = body
		}
		if !bytes.Equal(sm.out[0], refPBResp(rh)) {
			e.fail("C07-format-servercodec", fmt.Sprintf("serverCodec.WriteResponse bytes differ from protobuf wire format (seq=%d err=%d body=%d)", seq, len(errText), len(body)), map[string]interface{}{"seq": seq, "body_len": len(body)})
		}
		add(fmt.Sprintf("EncResp EPb %d %s %s %d 0 %s", seq, bspec(rh.Errtxt), bspec(rh.Body), 65536, bspec(sm.out[0])))
		e.count("enc-servercodec", fmt.Sprintf("sc-%s-%d", lenClass(len(body)), len(uv(seq))))
		// and back through the peer's ReadRequestHeader / ReadResponseHeader
		rctx := &rpc.Context{}
		rctx.VerifSetData(rm.out[0])
		if err := sc.ReadRequestHeader(rctx); err != nil || rctx.Seq != seq || rctx.ServiceMethod != string(method) || !eqb(rctx.VerifValue(), body) {
			e.fail("C07-roundtrip-codecpath", "serverCodec.ReadRequestHeader does not recover what clientCodec.WriteRequest wrote", map[string]interface{}{"seq": seq, "body_len": len(body)})
		}
		cctx := &rpc.Context{}
		cctx.VerifSetData(sm.out[0])
		if err := cc.ReadResponseHeader(cctx); err != nil || cctx.Seq != seq || cctx.Error != errText || !eqb(cctx.VerifValue(), rh.Body) {
			e.fail("C07-roundtrip-codecpath", "clientCodec.ReadResponseHeader does not recover what serverCodec.WriteResponse wrote", map[string]interface{}{"seq": seq, "body_len": len(body)})
		}
	}
}

func wireFrames(e *Env, add func(string)) {
	n := 60
	if e.thorough() {
		n = 1500
	}
	for i := 0; i < n; i++ {
		k := 1 + e.Rng.Intn(5)
		var frames [][]byte
		var stream []byte
		for j := 0; j < k; j++ {
			l := []int{0, 1, 127, 128, 200, 16383, 16384, 70000}[e.Rng.Intn(8)]
			if e.Rng.Intn(3) == 0 {
				l = e.Rng.Intn(400)
			}
			p := genBytes(e, l, 1+e.Rng.Intn(2))
			// WriteMessage through the real framer
			w := &chunkRW{}
			m := socket.NewMessages(w, false)
			if err := m.WriteMessage(p); err != nil {
				e.fail("C01-frame-write", "WriteMessage failed", nil)
			}
			fr := append([]byte(nil), w.w.Bytes()...)
			if j == 0 {
				add(fmt.Sprintf("FrameEnc %s %s", bspec(p), bspec(fr)))
			}
			frames = append(frames, p)
			stream = append(stream, fr...)
		}
		// cut the byte stream into arbitrary chunks
		var chunks [][]byte
		mode := i % 4
		for pos := 0; pos < len(stream); {
			var c int
			switch mode {
			case 0:
				c = len(stream) // batched: all at once
			case 1:
				c = 1 + e.Rng.Intn(3) // drip
			case 2:
				c = 1 + e.Rng.Intn(len(stream))
			default:
				c = 1 + e.Rng.Intn(70)
			}
			if mode == 1 && len(stream) > 3000 {
				c = 1 + e.Rng.Intn(2000)
			}
			if pos+c > len(stream) {
				c = len(stream) - pos
			}
			chunks = append(chunks, stream[pos:pos+c])
			pos += c
		}
		rw := &chunkRW{chunks: append([][]byte(nil), chunks...)}
		m := socket.NewMessages(rw, false)
		var got [][]byte
		for {
			p, err := m.ReadMessage(nil)
			if err != nil {
				break
			}
			got = append(got, append([]byte(nil), p...))
		}
		ok := len(got) == len(frames)
		for j := 0; ok && j < len(got); j++ {
			ok = bytes.Equal(got[j], frames[j])
		}
		if !ok {
			e.fail("C01-frame-reassembly", fmt.Sprintf("frames read differ from frames written (%d vs %d, %d chunks)", len(got), len(frames), len(chunks)), nil)
		}
		var cs, fs []string
		for _, c := range chunks {
			cs = append(cs, bspec(c))
		}
		for _, f := range got {
			fs = append(fs, bspec(f))
		}
		if len(chunks) <= 400 {
			add(fmt.Sprintf("FrameDec [%s] [%s]", strings.Join(cs, "; "), strings.Join(fs, "; ")))
		}
		e.count("frames", fmt.Sprintf("fr-%d-%d-%d", mode, k, len(chunks)/8))
	}
}

// every truncation / corruption of valid frames, and random byte strings
func wireDecode(e *Env, add func(string), prop string) {
	var valids []hdr
	valids = append(valids,
		hdr{Seq: 1, Upgrade: []byte{0x40}, Method: []byte("A.B"), Errtxt: []byte("err"), Body: []byte{9, 8, 7}},
		hdr{Seq: 300, Method: []byte("Arith.Multiply"), Errtxt: nil, Body: genBytes(e, 20, 0)},
		hdr{Seq: 1 << 40, Upgrade: []byte{0xd0}, Method: genBytes(e, 130, 2), Errtxt: genBytes(e, 130, 2), Body: genBytes(e, 140, 0)},
		hdr{Seq: 0},
		hdr{Seq: 1<<64 - 1, Method: []byte("m"), Errtxt: []byte("The connection is shut down"), Body: []byte{0}},
	)
	nextra := 6
	if e.thorough() {
		nextra = 60
	}
	for i := 0; i < nextra; i++ {
		valids = append(valids, hdr{Seq: e.Rng.Uint64() >> uint(e.Rng.Intn(64)), Upgrade: genBytes(e, e.Rng.Intn(3), 0), Method: genUTF8(e, e.Rng.Intn(40)), Errtxt: genUTF8(e, e.Rng.Intn(40)), Body: genBytes(e, e.Rng.Intn(200), i)})
	}
	try := func(es encSpec, isReq bool, in []byte, kind string, emit bool) {
		enc := es.mk()
		var h hdr
		var err error
		pan, pv := safely(func() {
			if isReq {
				h, err = decodeReq(enc, in)
			} else {
				h, err = decodeResp(enc, in)
			}
		})
		cls := classOf(pan, err)
		nm := es.name + map[bool]string{true: "-req", false: "-resp"}[isReq]
		e.count("dec-"+nm+"-"+kind, fmt.Sprintf("dec-%s-%s-%s-%d", nm, kind, cls, len(in)/16))
		if pan {
			e.fail("C08-decoder-panic-"+nm, fmt.Sprintf("%s decoder panics on %s: %v", nm, short(in), pv), map[string]interface{}{"encoder": es.name, "request": isReq, "input": hex.EncodeToString(in)})
		}
		if !pan && err == nil {
			// every decoded field must lie inside the input (no stale bytes from beyond the frame)
			for _, f := range [][]byte{h.Upgrade, h.Method, h.Errtxt, h.Body} {
				if len(f) > 0 && es.coq != "" && !bytes.Contains(in, f) {
					e.fail("C08-decoder-overread-"+nm, fmt.Sprintf("%s decoder returns bytes that are not in its input %s", nm, short(in)), map[string]interface{}{"encoder": es.name, "request": isReq, "input": hex.EncodeToString(in)})
				}
			}
		}
		if emit && es.coq != "" {
			if isReq {
				add(fmt.Sprintf("DecReq %s %s %s %d %s %s %s", es.coq, bspec(in), cls, h.Seq, bspec(h.Upgrade), bspec(h.Method), bspec(h.Body)))
			} else {
				add(fmt.Sprintf("DecResp %s %s %s %d %s %s", es.coq, bspec(in), cls, h.Seq, bspec(h.Errtxt), bspec(h.Body)))
			}
		}
	}
	emitBudget := 1500
	if e.thorough() {
		emitBudget = 12000
	}
	emitted := 0
	for vi, h := range valids {
		for _, es := range encoders {
			for _, isReq := range []bool{true, false} {
				enc := es.mk()
				var frame []byte
				if isReq {
					frame, _ = encodeReq(enc, h, nil)
				} else {
					frame, _ = encodeResp(enc, h, nil)
				}
				frame = append([]byte(nil), frame...)
				// place the frame inside a larger pooled-style buffer so that reads
				// beyond len (within cap) would be visible as foreign bytes
				padded := make([]byte, len(frame), len(frame)+64)
				copy(padded, frame)
				for i := len(frame); i < cap(padded); i++ {
					padded[:cap(padded)][i] = 0xEE
				}
				try(es, isReq, padded, "valid", true)
				for cut := 0; cut < len(frame); cut++ {
					em := emitted < emitBudget && (vi < 2 || cut%7 == 0)
					if em {
						emitted++
					}
					try(es, isReq, padded[:cut], "trunc", em)
				}
				// single-byte corruptions: every position, all 255 values in thorough, 6 values in quick
				for pos := 0; pos < len(frame); pos++ {
					vals := []byte{frame[pos] ^ 0x80, frame[pos] ^ 0x01, 0x00, 0xff, frame[pos] + 1, byte(e.Rng.Intn(256))}
					if e.thorough() {
						vals = vals[:0]
						for v := 0; v < 256; v++ {
							vals = append(vals, byte(v))
						}
					}
					for k, v := range vals {
						if v == frame[pos] {
							continue
						}
						c := make([]byte, len(frame), len(frame)+64)
						copy(c, frame)
						c[pos] = v
						em := emitted < emitBudget && ((pos+k)%5 == 0)
						if em {
							emitted++
						}
						try(es, isReq, c, "corrupt", em)
					}
				}
				// hostile length prefixes: a multi-byte varint spliced in at every position (lengths near
				// 2^64, 2^63, 2^32, just beyond the frame; overlong and unterminated encodings)
				hostile := [][]byte{
					uv(^uint64(0)), uv(^uint64(0) - 9), uv(^uint64(0) - uint64(len(frame)) + 4), uv(1 << 63), uv(1<<63 - 1), uv(1 << 32), uv(1<<31 - 1),
					uv(uint64(len(frame))), uv(uint64(len(frame)) + 1),
					{0xff, 0xff, 0xff, 0xff, 0xff, 0xff, 0xff, 0xff, 0xff, 0x7f},
					{0x80, 0x80, 0x80, 0x80, 0x80, 0x80, 0x80, 0x80, 0x80, 0x80, 0x01},
					{0xff, 0xff, 0xff, 0xff, 0xff, 0xff, 0xff, 0xff, 0xff, 0xff, 0xff, 0xff},
				}
				step := 1
				if len(frame) > 64 && !e.thorough() {
					step = 3
				}
				for pos := 0; pos < len(frame); pos += step {
					for k, hv := range hostile {
						c := make([]byte, 0, len(frame)+len(hv)+64)
						c = append(c, frame[:pos]...)
						c = append(c, hv...)
						c = append(c, frame[pos+1:]...)
						em := emitted < emitBudget+800 && ((pos+k)%4 == 0 || pos < 12)
						if em {
							emitted++
						}
						try(es, isReq, c, "hostile-length", em)
					}
				}
			}
		}
	}
	nr := 3000
	if e.thorough() {
		nr = 200000
	}
	for i := 0; i < nr; i++ {
		l := e.Rng.Intn(24)
		b := make([]byte, l, l+32)
		e.Rng.Read(b)
		if i%3 == 0 && l > 0 {
			b[0] = []byte{0x08, 0x12, 0x1a, 0x22, 0x80, 0xff}[e.Rng.Intn(6)]
		}
		es := encoders[i%3]
		em := emitted < emitBudget+600 && i%2 == 0
		if em {
			emitted++
		}
		try(es, i%2 == 0, b, "random", em)
	}
	e.sample(map[string]interface{}{"kind": "dec-truncation", "encoder": "pb", "input": "0812", "class": "CErr"})
	_ = prop
}
