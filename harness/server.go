package main

// Trace replay of one server connection (Server.ServeCodec) through gated
// fakes, for C04 and the server half of C05, and the crash-resistance runs
// of C08 (in a worker subprocess, since a handler panic kills the process).

import (
	"bytes"
	"context"
	"errors"
	"fmt"
	"io"
	"os"
	"os/exec"
	"strings"
	"sync"
	"time"

	"github.com/hslam/rpc"
)

func init() {
	commands["server-c04"] = func(w string) { runServer(w, "C04") }
	commands["order-c05"] = func(w string) { runServer(w, "C05") }
	commands["server-c08"] = func(w string) { runServerC08(w) }
	commands["c08-worker"] = func(w string) { c08Worker(w) }
}

// HSvc is the registered service; handlers are held at a gate on entry.
type HSvc struct {
	r *srvRun
}

func (h *HSvc) handle(req []byte) ([]byte, error) {
	id := -1
	if len(req) >= 3 && req[0] == 0xC0 {
		id = int(req[1])
	}
	h.r.mu.Lock()
	h.r.inFlight++
	if h.r.inFlight > h.r.maxInFlight {
		h.r.maxInFlight = h.r.inFlight
	}
	h.r.argsSeen = append(h.r.argsSeen, append([]byte(nil), req...))
	h.r.mu.Unlock()
	h.r.handlerGate.enter(id, nil)
	h.r.mu.Lock()
	h.r.inFlight--
	h.r.ended = append(h.r.ended, id)
	h.r.mu.Unlock()
	if len(req) >= 3 && req[2] == 1 {
		return nil, fmt.Errorf("handler failed %d", id)
	}
	return []byte{0xA0, byte(id)}, nil
}

// Do is the plain shape.
func (h *HSvc) Do(req *[]byte, res *[]byte) error {
	out, err := h.handle(*req)
	*res = out
	return err
}

// DoCtx takes a context.
func (h *HSvc) DoCtx(ctx context.Context, req *[]byte, res *[]byte) error {
	out, err := h.handle(*req)
	*res = out
	return err
}

// DoOut returns its reply.
func (h *HSvc) DoOut(req *[]byte) (*[]byte, error) {
	out, err := h.handle(*req)
	return &out, err
}

var handlerShapes = []string{"HSvc.Do", "HSvc.DoCtx", "HSvc.DoOut"}

type sreq struct {
	id   int
	kind string // bad, ping, unknown, badargs, call, callfail
	args []byte
}

type srvRun struct {
	e           *Env
	pipelining  bool
	directIO    bool
	msgs        *gatedMessages
	decGate     gate
	handlerGate gate
	bodyGate    gate
	server      *rpc.Server
	mu          sync.Mutex
	inFlight    int
	maxInFlight int
	argsSeen    [][]byte
	started     []int
	ended       []int
	sent        []sreq
	steps       []string
	trace       []string
	readerDead  bool
	exited      chan struct{}
	pendingDec  int
}

func newSrvRun(e *Env, pipelining, directIO bool) *srvRun {
	r := &srvRun{e: e, pipelining: pipelining, directIO: directIO, exited: make(chan struct{})}
	r.msgs = newGatedMessages()
	r.msgs.passWrite = true
	r.server = rpc.NewServer()
	r.server.SetLogLevel(rpc.OffLogLevel)
	r.server.SetPipelining(pipelining)
	r.server.SetDirectIO(directIO)
	r.server.RegisterName("HSvc", &HSvc{r: r})
	enc := &gatedEncoder{inner: rpc.NewPBEncoder(), decodeGate: &r.decGate, holdReq: !directIO}
	body := &gatedBody{bodyGate: &r.bodyGate, hold: false}
	codec := rpc.NewServerCodec(body, enc, r.msgs, directIO, 0)
	go func() { r.server.ServeCodec(codec); close(r.exited) }()
	quiesce()
	return r
}

func (r *srvRun) hasExited() bool {
	select {
	case <-r.exited:
		return true
	default:
		return false
	}
}

func kindCoqOf(k string) string {
	switch k {
	case "bad":
		return "KBadHeader"
	case "ping":
		return "KPing"
	case "unknown":
		return "KUnknown"
	case "badargs":
		return "KBadArgs"
	case "callfail":
		return "KCall true"
	}
	return "KCall false"
}

func (r *srvRun) observe() string {
	// handler entries in order
	r.mu.Lock()
	for _, w := range r.handlerGate.list() {
		id := w.tag.(int)
		seen := false
		for _, s := range r.started {
			if s == id {
				seen = true
			}
		}
		if !seen {
			r.started = append(r.started, id)
		}
	}
	starts := append([]int(nil), r.started...)
	ends := append([]int(nil), r.ended...)
	r.mu.Unlock()
	// responses written
	r.msgs.mu.Lock()
	written := append([][]byte(nil), r.msgs.written...)
	r.msgs.mu.Unlock()
	var resps []string
	for _, f := range written {
		h, err := decodeResp(rpc.NewPBEncoder(), f)
		if err != nil {
			r.e.fail("C04-bad-response-frame", "the server wrote an undecodable response", r.replay())
			continue
		}
		id := int(h.Seq) - 1
		kind := "RReply"
		if len(h.Errtxt) > 0 {
			kind = "RError"
		} else if id >= 0 && id < len(r.sent) && r.sent[id].kind == "ping" {
			kind = "RAck"
		}
		resps = append(resps, fmt.Sprintf("(%d, %s)", id, kind))
	}
	return fmt.Sprintf("{| o_starts := %s; o_ends := %s; o_resps := [%s]; o_dgate := %s; o_reader_exited := %s |}",
		natList0(starts), natList0(ends), strings.Join(resps, "; "), coqBool(len(r.decGate.list()) > 0), coqBool(r.hasExited()))
}

func natList0(xs []int) string {
	s := make([]string, len(xs))
	for i, x := range xs {
		s[i] = fmt.Sprintf("%d", x)
	}
	return "[" + strings.Join(s, "; ") + "]"
}

func (r *srvRun) record(act, human string) {
	r.e.inflight(map[string]interface{}{"trace_so_far": r.replay(), "last": human})
	quiesce()
	r.trace = append(r.trace, human)
	r.steps = append(r.steps, "("+act+", "+r.observe()+")")
	// C05 oracle: with pipelining never two handlers at once
	if r.pipelining && len(r.handlerGate.list()) > 1 {
		r.e.fail("C05-handlers-overlap", fmt.Sprintf("%d handlers of one pipelining connection are running at the same time", len(r.handlerGate.list())), r.replay())
	}
}

func (r *srvRun) replay() interface{} {
	return map[string]interface{}{"pipelining": r.pipelining, "directIO": r.directIO, "trace": append([]string(nil), r.trace...), "seed": r.e.Seed}
}

func (r *srvRun) arrive(kind string) {
	id := len(r.sent)
	q := sreq{id: id, kind: kind}
	var frame []byte
	seq := uint64(id + 1)
	method := handlerShapes[id%len(handlerShapes)]
	switch kind {
	case "bad":
		frame = []byte{0x08}
	case "ping":
		frame = refPBReq(hdr{Seq: seq, Upgrade: []byte{0xE0}})
	case "unknown":
		frame = refPBReq(hdr{Seq: seq, Method: []byte("HSvc.Nope"), Body: []byte{0xC0, byte(id), 0}})
	case "badargs":
		frame = refPBReq(hdr{Seq: seq, Method: []byte(method), Body: []byte{0xBD, byte(id)}})
	case "callfail":
		q.args = []byte{0xC0, byte(id), 1, byte(r.e.Rng.Intn(256))}
		frame = refPBReq(hdr{Seq: seq, Method: []byte(method), Body: q.args})
	default:
		q.args = []byte{0xC0, byte(id), 0, byte(r.e.Rng.Intn(256))}
		frame = refPBReq(hdr{Seq: seq, Method: []byte(method), Body: q.args})
	}
	if (kind == "call" || kind == "callfail") && r.e.Rng.Intn(4) == 0 {
		// a request larger than the server's read buffer takes the same way through the queues as any other
		q.args = append(q.args, bytes.Repeat([]byte{0x5A}, 70000)...)
		frame = refPBReq(hdr{Seq: seq, Method: []byte(method), Body: q.args})
	}
	r.sent = append(r.sent, q)
	r.msgs.readCh <- readItem{frame: frame}
	r.record(fmt.Sprintf("HArrive {| r_id := %d; r_kind := %s |}", id, kindCoqOf(kind)), fmt.Sprintf("Arrive %d %s", id, kind))
}

func (r *srvRun) decode() {
	ws := r.decGate.list()
	r.decGate.release(ws[0], nil)
	r.record("HDecode", "Decode")
}

func (r *srvRun) end(w *waiter) {
	id := w.tag.(int)
	r.handlerGate.release(w, nil)
	r.record(fmt.Sprintf("HEnd %d", id), fmt.Sprintf("End %d", id))
}

func (r *srvRun) readFail() {
	r.msgs.readCh <- readItem{err: io.EOF}
	r.readerDead = true
	r.record("HReadFail", "ReadFail")
}

func (r *srvRun) teardown() {
	for guard := 0; guard < 400; guard++ {
		switch {
		case len(r.decGate.list()) > 0:
			r.decode()
		case len(r.handlerGate.list()) > 0:
			r.end(r.handlerGate.list()[0])
		case !r.readerDead && r.msgs.readerWaiting():
			// C04 oracles on the live, drained connection
			r.liveOracles()
			r.readFail()
		default:
			quiesce()
			if len(r.decGate.list()) == 0 && len(r.handlerGate.list()) == 0 && (r.readerDead || !r.msgs.readerWaiting()) {
				if !r.hasExited() {
					r.e.fail("C20-servecodec-does-not-return", "ServeCodec did not return after its connection ended and everything drained", r.replay())
				}
				return
			}
		}
	}
	panic("server teardown does not terminate")
}

// on a live connection whose queues have drained: executed exactly once with the right
// arguments, answered exactly once, pings without handler
func (r *srvRun) liveOracles() {
	r.mu.Lock()
	seen := append([][]byte(nil), r.argsSeen...)
	r.mu.Unlock()
	count := map[int]int{}
	for _, a := range seen {
		if len(a) >= 2 && a[0] == 0xC0 {
			id := int(a[1])
			count[id]++
			if id >= len(r.sent) || string(r.sent[id].args) != string(a) {
				r.e.fail("C04-wrong-arguments", fmt.Sprintf("handler of request %d ran with arguments %x, sent %x", id, a, r.sent[id].args), r.replay())
			}
		} else {
			r.e.fail("C04-phantom-execution", fmt.Sprintf("a handler ran with arguments %x that nobody sent", a), r.replay())
		}
	}
	r.msgs.mu.Lock()
	written := append([][]byte(nil), r.msgs.written...)
	r.msgs.mu.Unlock()
	rc := map[int]int{}
	var order []int
	for _, f := range written {
		h, err := decodeResp(rpc.NewPBEncoder(), f)
		if err == nil {
			rc[int(h.Seq)-1]++
			if id := int(h.Seq) - 1; id >= 0 && id < len(r.sent) && r.sent[id].kind != "ping" {
				order = append(order, id)
			}
			id := int(h.Seq) - 1
			if id >= 0 && id < len(r.sent) {
				switch r.sent[id].kind {
				case "call":
					if len(h.Errtxt) != 0 || string(h.Body) != string([]byte{0xA0, byte(id)}) {
						r.e.fail("C01-wrong-reply", fmt.Sprintf("request %d answered with err=%q body=%x", id, h.Errtxt, h.Body), r.replay())
					}
				case "callfail":
					if string(h.Errtxt) != fmt.Sprintf("handler failed %d", id) {
						r.e.fail("C06-server-error-text", fmt.Sprintf("request %d: handler error arrived as %q", id, h.Errtxt), r.replay())
					}
				case "unknown":
					if string(h.Errtxt) != "can't find service HSvc.Nope" {
						r.e.fail("C06-server-error-text", fmt.Sprintf("request %d: unknown method answered with %q", id, h.Errtxt), r.replay())
					}
				case "badargs":
					if len(h.Errtxt) == 0 {
						r.e.fail("C06-server-error-text", fmt.Sprintf("request %d: undecodable arguments answered without error", id), r.replay())
					}
				}
			}
		}
	}
	var wantOrder []int
	for _, q := range r.sent {
		want := 1
		switch q.kind {
		case "bad":
			want = 0
		}
		if rc[q.id] != want {
			r.e.fail("C04-response-count", fmt.Sprintf("request %d (%s) was answered %d times, want %d", q.id, q.kind, rc[q.id], want), r.replay())
		}
		wantExec := 0
		if q.kind == "call" || q.kind == "callfail" {
			wantExec = 1
		}
		if count[q.id] != wantExec {
			r.e.fail("C04-execution-count", fmt.Sprintf("request %d (%s) was executed %d times, want %d", q.id, q.kind, count[q.id], wantExec), r.replay())
		}
		if q.kind != "bad" && q.kind != "ping" {
			wantOrder = append(wantOrder, q.id)
		}
	}
	if r.pipelining {
		// C05: executed and answered in arrival order
		var execOrder []int
		for _, a := range seen {
			if len(a) >= 2 {
				execOrder = append(execOrder, int(a[1]))
			}
		}
		var wantExec []int
		for _, q := range r.sent {
			if q.kind == "call" || q.kind == "callfail" {
				wantExec = append(wantExec, q.id)
			}
		}
		if fmt.Sprint(execOrder) != fmt.Sprint(wantExec) {
			r.e.fail("C05-execution-order", fmt.Sprintf("pipelining: handlers ran in order %v, requests arrived in order %v", execOrder, wantExec), r.replay())
		}
		if fmt.Sprint(order) != fmt.Sprint(wantOrder) {
			r.e.fail("C05-response-order", fmt.Sprintf("pipelining: responses written in order %v, requests arrived in order %v", order, wantOrder), r.replay())
		}
		if r.maxInFlight > 1 {
			r.e.fail("C05-handlers-overlap", fmt.Sprintf("pipelining: up to %d handlers ran at the same time", r.maxInFlight), r.replay())
		}
	}
}

func (r *srvRun) coqCase() string {
	return fmt.Sprintf("{| sc_cfg := {| pipelining := %s; directIO := %s |}; sc_steps := [\n  %s\n] |}",
		coqBool(r.pipelining), coqBool(r.directIO), strings.Join(r.steps, ";\n  "))
}

func runServer(work, prop string) {
	e := newEnv(prop, "server", work)
	defer e.finish()
	var cases []string
	modes := [][2]bool{{false, false}, {true, false}, {false, true}, {true, true}}
	if prop == "C05" {
		modes = [][2]bool{{true, false}, {true, true}, {true, false}, {false, false}}
	}
	n := 240
	if e.thorough() {
		n = 3000
	}
	for i := 0; i < n; i++ {
		m := modes[i%4]
		r := newSrvRun(e, m[0], m[1])
		steps := 4 + e.Rng.Intn(16)
		early := e.Rng.Intn(5) == 0 // disconnect in the middle of traffic
		for s := 0; s < steps; s++ {
			var cs []choice
			if !r.readerDead && r.msgs.readerWaiting() && len(r.sent) < 12 {
				kinds := []string{"call", "call", "call", "callfail", "ping", "unknown", "badargs", "bad"}
				k := kinds[e.Rng.Intn(len(kinds))]
				cs = append(cs, choice{6, func() { r.arrive(k) }, "arrive"})
				if early && s > steps/2 {
					cs = append(cs, choice{3, func() { r.readFail() }, "readfail"})
				}
			}
			if len(r.decGate.list()) > 0 {
				cs = append(cs, choice{5, func() { r.decode() }, "decode"})
			}
			for _, w := range r.handlerGate.list() {
				w := w
				cs = append(cs, choice{3, func() { r.end(w) }, "end"})
			}
			if len(cs) == 0 {
				break
			}
			tot := 0
			for _, c := range cs {
				tot += c.w
			}
			x := e.Rng.Intn(tot)
			for _, c := range cs {
				if x < c.w {
					c.run()
					e.Res.Distribution["act-"+c.tag]++
					break
				}
				x -= c.w
			}
		}
		r.teardown()
		cases = append(cases, r.coqCase())
		e.count("trace", fmt.Sprintf("%v-%v-%s", m[0], m[1], strings.Join(shape(r.trace), ",")))
		if len(e.Res.Samples) < 5 {
			e.sample(map[string]interface{}{"pipelining": m[0], "directIO": m[1], "trace": r.trace})
		}
	}
	if prop == "C05" {
		pollOrder(e)
		fakePollOrder(e)
	}
	if prop == "C04" {
		serverArgsSweep(e)
		serverConcurrentAnswers(e)
		callsAfterStreamPushes(e)
	}
	e.Res.Rule = "seeded random walks over the gated actions of one server connection (request arrives: call on three handler shapes / failing call / ping / unknown method / undecodable arguments / undecodable header; header decode; handler returns; peer disconnects, also in the middle of traffic) in the four modes pipelining x directIO, each followed by a drain and a disconnect; observables (handler entries, returns, responses on the wire, teardown completion) compared with the model after every action; non-trivial = distinct (mode, action-shape sequence)"
	names := writeCases(work, "From Coq Require Import List. Import ListNotations. From RPC Require Import RunServer. From RPC.Server Require Import Model.", "scase", cases, 60)
	e.Res.ModelCases = len(cases)
	e.Res.Extra["case_files"] = names
}

// ---- C08: crash resistance, in a worker subprocess ----

func runServerC08(work string) {
	e := newEnv("C08", "server", work)
	defer e.finish()
	scenarios := []string{"flags", "malformed", "bursts", "client-frames", "stream-abuse"}
	for _, sc := range scenarios {
		rounds := 1
		if sc == "bursts" {
			rounds = 3
			if e.thorough() {
				rounds = 12
			}
		}
		for k := 0; k < rounds; k++ {
			ctx, cancel := context.WithTimeout(context.Background(), 240*time.Second)
			cmd := exec.CommandContext(ctx, os.Args[0], "c08-worker", work)
			cmd.Env = append(os.Environ(), "C08_SCENARIO="+sc, fmt.Sprintf("C08_ROUND=%d", k), fmt.Sprintf("VERIF_SEED=%d", e.Seed+int64(k)))
			out, err := cmd.CombinedOutput()
			cancel()
			e.count("worker-"+sc, fmt.Sprintf("%s-%d", sc, k))
			n := strings.Count(string(out), "CASE ")
			e.Res.Evaluations += n
			e.Res.Nontrivial += n / 4
			if err != nil || !strings.Contains(string(out), "WORKER-OK") {
				tail := string(out)
				if len(tail) > 1500 {
					tail = tail[len(tail)-1500:]
				}
				e.fail("C08-process-crashed-"+sc, fmt.Sprintf("the worker process running scenario %q died or reported a failure: %v", sc, err), map[string]interface{}{"scenario": sc, "round": k, "output_tail": tail})
			}
			for _, l := range strings.Split(string(out), "\n") {
				if strings.HasPrefix(l, "FAIL ") {
					e.fail("C08-"+sc+"-probe", l[5:], map[string]interface{}{"scenario": sc, "round": k})
				}
			}
		}
	}
	e.sample(map[string]interface{}{"scenario": "flags", "what": "every upgrade byte 0..255 on a known and an unknown method, then a well-formed probe on the same and on a second connection"})
	e.Res.Rule = "worker subprocesses: (flags) requests with every upgrade byte on known/unknown methods and stream ids; (malformed) truncations and corruptions of valid request frames delivered to ServeCodec; (bursts) 1..64 requests then disconnect with ungated handlers, repeated; (client-frames) malformed/unsolicited response frames delivered to a client Conn; after each, well-formed probes on the same (where it survives) and on a second connection must be answered; non-trivial = distinct scenario rounds"
	writeCases(work, "From Coq Require Import List. Import ListNotations. From RPC Require Import RunServer.", "scase", nil, 60)
}

type plainSvc struct{}

func (p *plainSvc) Do(req *[]byte, res *[]byte) error {
	*res = append([]byte{0xA0}, *req...)
	return nil
}
func (p *plainSvc) Fail(req *[]byte, res *[]byte) error { return errors.New("nope") }

// Chat is a stream handler: it echoes until its stream ends.
func (p *plainSvc) Chat(h *hStream) error {
	for {
		var m []byte
		if err := h.s.ReadMessage(nil, &m); err != nil {
			return nil
		}
		h.s.WriteMessage(&m)
	}
}

// serve starts a server connection over an in-memory pipe and returns the client end
func c08Serve(pipelining, directIO bool) (*pipeEnd, *rpc.Server, chan struct{}) {
	srv := rpc.NewServer()
	srv.SetLogLevel(rpc.OffLogLevel)
	srv.SetPipelining(pipelining)
	srv.SetDirectIO(directIO)
	srv.RegisterName("P", &plainSvc{})
	cend, send := newPipeCap(1 << 16)
	done := make(chan struct{})
	go func() {
		srv.ServeCodec(rpc.NewServerCodec(&rpc.BYTESCodec{}, nil, send, directIO, 0))
		close(done)
	}()
	return cend, srv, done
}

func c08Probe(c *pipeEnd, seq uint64) error {
	body := []byte{1, 2, 3}
	if err := c.WriteMessage(refPBReq(hdr{Seq: seq, Method: []byte("P.Do"), Body: body})); err != nil {
		return err
	}
	deadline := time.After(5 * time.Second)
	got := make(chan []byte, 1)
	go func() {
		for {
			m, err := c.ReadMessage(nil)
			if err != nil {
				got <- nil
				return
			}
			h, derr := decodeResp(rpc.NewPBEncoder(), m)
			if derr == nil && h.Seq == seq {
				got <- h.Body
				return
			}
		}
	}()
	select {
	case b := <-got:
		if string(b) != string(append([]byte{0xA0}, body...)) {
			return fmt.Errorf("probe answered with %x", b)
		}
		return nil
	case <-deadline:
		return errors.New("probe not answered within 5s")
	}
}

func c08Probe2(pipelining, directIO bool) error {
	c2, _, _ := c08Serve(pipelining, directIO)
	defer c2.Close()
	return c08Probe(c2, 77)
}

func c08Worker(work string) {
	sc := os.Getenv("C08_SCENARIO")
	e := newEnv("C08", "worker", work+"/worker")
	switch sc {
	case "flags":
		for _, mode := range [][2]bool{{false, false}, {true, false}, {false, true}} {
			c, _, _ := c08Serve(mode[0], mode[1])
			seq := uint64(1)
			for b := 0; b < 256; b++ {
				for _, method := range []string{"P.Do", "P.Nope", ""} {
					for _, body := range [][]byte{nil, {7}} {
						c.WriteMessage(refPBReq(hdr{Seq: seq, Upgrade: []byte{byte(b)}, Method: []byte(method), Body: body}))
						fmt.Println("CASE flags", b, method)
						seq++
					}
				}
			}
			// longer upgrade fields and stream ids nobody opened
			c.WriteMessage(refPBReq(hdr{Seq: seq, Upgrade: []byte{0x10, 0xff, 0xff}, Method: []byte("P.Do")}))
			c.WriteMessage(refPBReq(hdr{Seq: 999999, Upgrade: []byte{0x18}}))
			if err := c08Probe(c, 1<<40); err != nil {
				fmt.Println("FAIL after the flag sweep the same connection does not serve a well-formed request:", err)
			}
			c2, _, _ := c08Serve(mode[0], mode[1])
			if err := c08Probe(c2, 5); err != nil {
				fmt.Println("FAIL after the flag sweep a second connection does not serve a well-formed request:", err)
			}
		}
	case "malformed":
		valid := [][]byte{
			refPBReq(hdr{Seq: 300, Method: []byte("P.Do"), Body: []byte{1, 2, 3, 4, 5}}),
			refPBReq(hdr{Seq: 1 << 50, Upgrade: []byte{0xE0}}),
			refPBReq(hdr{Seq: 7, Upgrade: []byte{0xC8}, Method: []byte("P.Do"), Body: genBytes(e, 140, 0)}),
		}
		c, _, _ := c08Serve(false, false)
		for _, f := range valid {
			for cut := 0; cut <= len(f); cut++ {
				c.WriteMessage(f[:cut])
				fmt.Println("CASE trunc", cut)
			}
			for pos := 0; pos < len(f); pos++ {
				for _, v := range []byte{0x00, 0xff, f[pos] ^ 0x80, f[pos] + 1} {
					g := append([]byte(nil), f...)
					g[pos] = v
					c.WriteMessage(g)
					fmt.Println("CASE corrupt", pos)
				}
			}
		}
		for i := 0; i < 3000; i++ {
			b := make([]byte, e.Rng.Intn(30))
			e.Rng.Read(b)
			c.WriteMessage(b)
			fmt.Println("CASE random", i)
		}
		if err := c08Probe(c, 1<<41); err != nil {
			fmt.Println("FAIL after malformed frames the same connection does not serve a well-formed request:", err)
		}
		c2, _, _ := c08Serve(false, false)
		if err := c08Probe(c2, 9); err != nil {
			fmt.Println("FAIL after malformed frames a second connection does not serve a well-formed request:", err)
		}
	case "bursts":
		// 1..64 requests then disconnect, handlers ungated, all modes; the decode queue is still
		// busy when the reader sees EOF
		for rep := 0; rep < 40; rep++ {
			for _, mode := range [][2]bool{{false, false}, {true, false}, {false, true}, {true, true}} {
				c, _, done := c08Serve(mode[0], mode[1])
				n := 1 + e.Rng.Intn(64)
				for i := 0; i < n; i++ {
					up := []byte(nil)
					if i%7 == 3 {
						up = []byte{0xD8} // open a stream nobody serves
					}
					c.WriteMessage(refPBReq(hdr{Seq: uint64(i + 1), Upgrade: up, Method: []byte("P.Do"), Body: []byte{byte(i)}}))
				}
				c.Close()
				select {
				case <-done:
				case <-time.After(10 * time.Second):
					fmt.Println("FAIL ServeCodec did not return within 10s after a burst of", n, "requests and a disconnect")
				}
				fmt.Println("CASE burst", n)
			}
		}
		c2, _, _ := c08Serve(false, false)
		if err := c08Probe(c2, 11); err != nil {
			fmt.Println("FAIL after disconnect bursts a new connection does not serve a well-formed request:", err)
		}
	case "stream-abuse":
		// stream control frames in every order over a small id space: opens on missing / non-stream /
		// stream methods, messages and closes for ids that are open, failed, closed or unknown, the same
		// id opened twice; then the peer disconnects and the teardown must complete
		ups := []byte{0x08, 0x48, 0x88, 0xC8, 0x10, 0x50, 0x90, 0xD0, 0x18, 0x58, 0x98, 0xD8, 0x00, 0xE0}
		methods := []string{"P.Nope", "P.Do", "P.Chat", "P.Chat", ""}
		reps := 60
		if e.thorough() {
			reps = 600
		}
		// an established stream first: messages of every size class, larger than any buffer of the server too
		for _, mode := range [][2]bool{{false, false}, {true, false}, {false, true}} {
			c, _, done := c08Serve(mode[0], mode[1])
			go func() {
				for {
					if _, err := c.ReadMessage(nil); err != nil {
						return
					}
				}
			}()
			c.WriteMessage(refPBReq(hdr{Seq: 1, Upgrade: []byte{0xC8}, Method: []byte("P.Chat")}))
			for _, n := range []int{10, 1000, 65000, 65536, 65537, 70000, 200000, 5} {
				for _, up := range []byte{0x10, 0x50, 0x90, 0xD0} {
					c.WriteMessage(refPBReq(hdr{Seq: 1, Upgrade: []byte{up}, Body: genBytes(e, n, 0)}))
				}
				fmt.Println("CASE stream-message", n)
			}
			time.Sleep(5 * time.Millisecond)
			if err := c08Probe2(mode[0], mode[1]); err != nil {
				fmt.Println("FAIL after large stream messages a second connection does not serve a well-formed request:", err)
			}
			c.Close()
			select {
			case <-done:
			case <-time.After(10 * time.Second):
				fmt.Println("FAIL ServeCodec did not return within 10s after large stream messages and a disconnect")
			}
		}
		for rep := 0; rep < reps; rep++ {
			mode := [][2]bool{{false, false}, {true, false}, {false, true}, {true, true}}[rep%4]
			c, _, done := c08Serve(mode[0], mode[1])
			go func() { // drain whatever the server answers
				for {
					if _, err := c.ReadMessage(nil); err != nil {
						return
					}
				}
			}()
			n := 2 + e.Rng.Intn(24)
			for i := 0; i < n; i++ {
				id := uint64(1 + e.Rng.Intn(3))
				up := ups[e.Rng.Intn(len(ups))]
				m := methods[e.Rng.Intn(len(methods))]
				if rep < 12 { // the plain sequences first: failed open, then close / message / disconnect
					id = 1
					up = []byte{0xC8, 0xD8, 0xD0, 0xC8}[(i+rep)%4]
					m = methods[rep%len(methods)]
				}
				c.WriteMessage(refPBReq(hdr{Seq: id, Upgrade: []byte{up}, Method: []byte(m), Body: []byte{byte(i)}}))
				if e.Rng.Intn(3) == 0 {
					time.Sleep(200 * time.Microsecond)
				}
			}
			if rep%2 == 0 {
				if err := c08Probe2(mode[0], mode[1]); err != nil {
					fmt.Println("FAIL during stream control abuse a second connection does not serve a well-formed request:", err)
				}
			}
			time.Sleep(time.Millisecond)
			c.Close()
			select {
			case <-done:
			case <-time.After(10 * time.Second):
				fmt.Println("FAIL ServeCodec did not return within 10s after stream control frames and a disconnect")
			}
			fmt.Println("CASE stream-abuse", n)
		}
		if err := c08Probe2(false, false); err != nil {
			fmt.Println("FAIL after stream control abuse a new connection does not serve a well-formed request:", err)
		}
	case "client-frames":
		// malformed and unsolicited frames delivered to a client connection
		cend, send := newPipeCap(1 << 16)
		conn := rpc.NewConnWithCodec(rpc.NewClientCodec(&rpc.BYTESCodec{}, nil, cend, 0))
		valid := pbRespFrame(1<<40, "some error", []byte{1, 2, 3})
		for cut := 0; cut <= len(valid); cut++ {
			send.WriteMessage(valid[:cut])
			fmt.Println("CASE ctrunc", cut)
		}
		for pos := 0; pos < len(valid); pos++ {
			for _, v := range []byte{0x00, 0xff, valid[pos] ^ 0x80} {
				g := append([]byte(nil), valid...)
				g[pos] = v
				send.WriteMessage(g)
				fmt.Println("CASE ccorrupt", pos)
			}
		}
		for i := 0; i < 2000; i++ {
			b := make([]byte, e.Rng.Intn(24))
			e.Rng.Read(b)
			send.WriteMessage(b)
			fmt.Println("CASE crandom", i)
		}
		// the connection still works: answer a real call
		go func() {
			for {
				m, err := send.ReadMessage(nil)
				if err != nil {
					return
				}
				h, derr := decodePBReq(m)
				if derr == nil {
					send.WriteMessage(pbRespFrame(h.Seq, "", append([]byte{0xA0}, h.Body...)))
				}
			}
		}()
		// (an adversarial frame may legitimately have answered an early call: try a few)
		ok := false
		var lastErr error
		for try := 0; try < 4 && !ok; try++ {
			req, res := []byte{9, byte(try)}, []byte(nil)
			errc := make(chan error, 1)
			go func() { errc <- conn.Call("P.Do", &req, &res) }()
			select {
			case err := <-errc:
				lastErr = err
				ok = err == nil && string(res) == string([]byte{0xA0, 9, byte(try)})
			case <-time.After(5 * time.Second):
				lastErr = errors.New("call hangs")
			}
		}
		if !ok {
			fmt.Println("FAIL after malformed responses the client connection does not complete a call:", lastErr)
		}
	}
	fmt.Println("WORKER-OK")
}
