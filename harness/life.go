package main

// Lifecycles (C20): use a Conn / Transport / Client / non-poll Server in
// various ways, close the participants in various orders, and check that
// every goroutine the library started has exited and every socket is
// released (goroutine profile filtered to library frames; open file
// descriptors), that repeated Close calls return what the property says, and
// that Server.Close makes Listen return.

import (
	"fmt"
	"os"
	"path/filepath"
	"regexp"
	"runtime"
	"strings"
	"sync"
	"time"

	"github.com/hslam/rpc"
)

func init() {
	commands["life-c20"] = func(w string) { runLife(w) }
	commands["conn-c20"] = func(w string) { runConn(w, "C20") }
}

var libFrame = regexp.MustCompile(`github\.com/hslam/(rpc|socket|netpoll|writer)[./(]`)

// libGoroutines returns the stacks of goroutines that are inside the library (not the scheduler's
// process-wide helpers, which are shared and long-lived by design)
func libGoroutines() []string {
	buf := make([]byte, 4<<20)
	n := runtime.Stack(buf, true)
	var out []string
	for _, g := range strings.Split(string(buf[:n]), "\n\n") {
		if libFrame.MatchString(g) && !strings.Contains(g, "verif/harness.libGoroutines") {
			out = append(out, g)
		}
	}
	return out
}

func openFDs() int {
	ents, err := os.ReadDir("/proc/self/fd")
	if err != nil {
		return -1
	}
	return len(ents)
}

// settle waits until the number of library goroutines and descriptors is back to the baseline
func settleTo(baseG, baseFD int, d time.Duration) (gs []string, fds int, ok bool) {
	deadline := time.Now().Add(d)
	for {
		gs, fds = libGoroutines(), openFDs()
		if len(gs) <= baseG && fds <= baseFD {
			return gs, fds, true
		}
		if time.Now().After(deadline) {
			return gs, fds, false
		}
		time.Sleep(5 * time.Millisecond)
	}
}

type SlowSvc struct {
	gate chan struct{}
}

func (s *SlowSvc) Echo(req *[]byte, res *[]byte) error {
	*res = append([]byte{0xE0}, *req...)
	return nil
}
func (s *SlowSvc) Slow(req *[]byte, res *[]byte) error {
	<-s.gate
	*res = []byte{1}
	return nil
}
func (s *SlowSvc) Chat(h *hStream) error {
	for {
		var m []byte
		if err := h.s.ReadMessage(nil, &m); err != nil {
			return nil
		}
		h.s.WriteMessage(&m)
	}
}

func runLife(work string) {
	e := newEnv("C20", "life", work)
	defer e.finish()
	rpc.RegisterCodec("bytes", func() rpc.Codec { return &rpc.BYTESCodec{} })
	dir, _ := os.MkdirTemp(e.Work, "life")
	defer os.RemoveAll(dir)
	// warm up once so that process-wide helpers (scheduler wake loop, pools) exist before the baseline
	lifeScenario(e, dir, 0, true)
	time.Sleep(50 * time.Millisecond)
	n := 24
	if e.thorough() {
		n = 300
	}
	for i := 1; i <= n; i++ {
		lifeScenario(e, dir, i, false)
	}
	lifeOpenThenGone(e)
	e.Res.Rule = "lifecycles over real unix sockets: a non-poll Server with 1-3 clients (direct Conn, Transport, load-balancing Client) used idle / with calls in flight on a slow handler / with an open stream / with callers waiting for a target / with a dead peer, then closed in a seeded order (client first, server first, transport before conns ...), every Close repeated; afterwards the goroutine profile restricted to library frames and the number of open descriptors must be back to the baseline, repeated Close calls must return ErrShutdown (Conn) or nil (others), and Listen must have returned; a peer that opens a stream and disconnects at once (the handler started for it must return); non-trivial = distinct (usage, close order)"
	writeCases(work, "From Coq Require Import List. Import ListNotations. From RPC Require Import RunServer.", "scase", nil, 60)
}

func lifeScenario(e *Env, dir string, i int, warm bool) {
	baseG, baseFD := len(libGoroutines()), openFDs()
	addr := filepath.Join(dir, fmt.Sprintf("s%d.sock", i))
	srv := rpc.NewServer()
	srv.SetLogLevel(rpc.OffLogLevel)
	srv.SetPipelining(i%3 == 1)
	srv.SetDirectIO(i%4 == 2)
	svc := &SlowSvc{gate: make(chan struct{})}
	srv.RegisterName("S", svc)
	listenRet := make(chan error, 1)
	go func() { listenRet <- srv.Listen("unix", addr, "bytes") }()
	var conn *rpc.Conn
	var err error
	for try := 0; try < 400; try++ {
		conn, err = rpc.Dial("unix", addr, "bytes")
		if err == nil {
			break
		}
		time.Sleep(2 * time.Millisecond)
	}
	if err != nil {
		e.fail("C20-setup", "cannot dial the test server: "+err.Error(), nil)
		return
	}
	usage := i % 6
	closeOrder := (i / 6) % 4
	desc := map[string]interface{}{"usage": usage, "close_order": closeOrder, "pipelining": i%3 == 1, "server_directIO": i%4 == 2, "seed": e.Seed}
	fail := func(sig, what string) {
		if !warm {
			e.fail(sig, what, desc)
		}
	}
	tr := &rpc.Transport{Network: "unix", Codec: "bytes", MaxConnsPerHost: 2, MaxIdleConnsPerHost: 1}
	tr.VerifSetTicker(5 * time.Millisecond)
	cl := rpc.NewClient(nil)
	cl.Transport = &rpc.Transport{Network: "unix", Codec: "bytes"}
	cl.DialTimeout = 2 * time.Second
	var wg sync.WaitGroup
	var stream rpc.Stream
	inflight := make(chan error, 4)
	switch usage {
	case 0: // idle
	case 1: // calls in flight on a slow handler at close time
		for k := 0; k < 2; k++ {
			wg.Add(1)
			go func() {
				defer wg.Done()
				a, b := []byte{1}, []byte(nil)
				inflight <- conn.Call("S.Slow", &a, &b)
			}()
		}
		time.Sleep(5 * time.Millisecond)
	case 2: // an open stream with a blocked reader
		stream, err = conn.NewStream("S.Chat")
		if err != nil {
			fail("C20-setup", "NewStream: "+err.Error())
		} else {
			// a few messages travel first (the handler echoes them); then a reader blocks
			for k := 0; k < 2; k++ {
				m := []byte{byte(k), 7}
				stream.WriteMessage(&m)
				var back []byte
				if _, err, ok := readWithTimeout(stream, 3*time.Second); !ok || err != nil {
					_ = back
					fail("C09-message-lost", fmt.Sprintf("stream echo did not arrive (%v)", err))
				}
			}
			wg.Add(1)
			go func() {
				defer wg.Done()
				var m []byte
				stream.ReadMessage(nil, &m)
			}()
		}
	case 3: // transport with pooled connections, some calls
		for k := 0; k < 3; k++ {
			a, b := []byte{byte(k)}, []byte(nil)
			if err := tr.Call(addr, "S.Echo", &a, &b); err != nil {
				fail("C20-setup", "transport call: "+err.Error())
			}
		}
	case 4: // load-balancing client: one live target, one dead, and callers waiting on a client without live targets
		cl.Update(addr, filepath.Join(dir, "nobody.sock"))
		for k := 0; k < 3; k++ {
			a, b := []byte{byte(k)}, []byte(nil)
			cl.Call("S.Echo", &a, &b)
		}
		cl.Fallback(time.Hour)
		cl.Fallback(30 * time.Minute) // several pauses pending at Close: all their timers' goroutines end with it
		for k := 0; k < 2; k++ {
			wg.Add(1)
			go func() {
				defer wg.Done()
				a, b := []byte{9}, []byte(nil)
				if err := cl.Call("S.Echo", &a, &b); err != rpc.ErrShutdown && err != rpc.ErrTimeout {
					fail("C18-close-error-kind", fmt.Sprintf("a caller waiting at Client.Close returned %v", err))
				}
			}()
		}
		time.Sleep(10 * time.Millisecond)
	case 5: // dead peer: the server goes first
	}
	closeConn := func() {
		if err := conn.Close(); err != nil {
			fail("C20-first-close", fmt.Sprintf("first Conn.Close returned %v", err))
		}
		if err := conn.Close(); err != rpc.ErrShutdown {
			fail("C20-second-close", fmt.Sprintf("second Conn.Close returned %v, want ErrShutdown", err))
		}
	}
	closeServer := func() {
		close(svc.gate)
		for k := 0; k < 2; k++ {
			if err := srv.Close(); err != nil {
				fail("C20-server-close", fmt.Sprintf("Server.Close returned %v", err))
			}
		}
		select {
		case <-listenRet:
		case <-time.After(5 * time.Second):
			fail("C20-listen-does-not-return", "Listen did not return after Server.Close")
		}
	}
	closeRest := func() {
		for k := 0; k < 2; k++ {
			if err := tr.Close(); err != nil {
				fail("C20-transport-close", fmt.Sprintf("Transport.Close #%d returned %v", k+1, err))
			}
			if err := cl.Close(); err != nil {
				fail("C20-client-close", fmt.Sprintf("Client.Close #%d returned %v", k+1, err))
			}
		}
	}
	switch closeOrder {
	case 0:
		closeConn()
		closeRest()
		closeServer()
	case 1:
		closeServer()
		closeConn()
		closeRest()
	case 2:
		closeRest()
		closeServer()
		closeConn()
	default:
		closeRest()
		closeConn()
		closeServer()
	}
	for len(inflight) > 0 {
		<-inflight
	}
	wgDone := make(chan struct{})
	go func() { wg.Wait(); close(wgDone) }()
	select {
	case <-wgDone:
	case <-time.After(6 * time.Second):
		fail("C03-caller-hangs", "a caller was still blocked 6s after every participant had been closed")
	}
	if warm {
		return
	}
	gs, fds, ok := settleTo(baseG, baseFD, 6*time.Second)
	e.count("lifecycle", fmt.Sprintf("u%d-o%d-%v", usage, closeOrder, i%3 == 1))
	if !ok {
		if len(gs) > baseG {
			top := gs[len(gs)-1]
			if len(top) > 900 {
				top = top[:900]
			}
			fail("C20-goroutine-leak", fmt.Sprintf("%d library goroutines are still running 6s after everything was closed (baseline %d); one of them:\n%s", len(gs), baseG, top))
		}
		if fds > baseFD {
			fail("C20-descriptor-leak", fmt.Sprintf("%d descriptors are open 6s after everything was closed (baseline %d)", fds, baseFD))
		}
	}
	if len(e.Res.Samples) < 4 {
		e.sample(desc)
	}
}

// lifeOpenThenGone: a peer sends a stream-open request and disconnects at once, so that the open request
// may still be queued for decoding when the reader sees the end of the connection.  The handler that is
// started for it must be released by the teardown and return; ServeCodec returns; nothing is left behind.
type GoneSvc struct {
	mu      sync.Mutex
	started int
	exited  int
}

func (g *GoneSvc) Chat(h *hStream) error {
	g.mu.Lock()
	g.started++
	g.mu.Unlock()
	for {
		var m []byte
		if err := h.s.ReadMessage(nil, &m); err != nil {
			break
		}
	}
	g.mu.Lock()
	g.exited++
	g.mu.Unlock()
	return nil
}

func lifeOpenThenGone(e *Env) {
	pid := e.Res.Property
	rounds := 60
	if e.thorough() {
		rounds = 600
	}
	for k := 0; k < rounds; k++ {
		mode := [][2]bool{{false, false}, {true, false}, {false, true}, {true, true}}[k%4]
		desc := map[string]interface{}{"scenario": "stream open request, then the peer disconnects at once", "server_pipelining": mode[0], "server_directIO": mode[1], "extra_frames": k % 3, "round": k, "seed": e.Seed}
		e.inflight(desc)
		svc := &GoneSvc{}
		srv := rpc.NewServer()
		srv.SetLogLevel(rpc.OffLogLevel)
		srv.SetPipelining(mode[0])
		srv.SetDirectIO(mode[1])
		srv.RegisterName("G", svc)
		cend, send := newPipeCap(64)
		done := make(chan struct{})
		go func() {
			srv.ServeCodec(rpc.NewServerCodec(&rpc.BYTESCodec{}, nil, send, mode[1], 0))
			close(done)
		}()
		for i := 0; i < k%3; i++ { // some ordinary traffic in front of it
			cend.WriteMessage(refPBReq(hdr{Seq: uint64(100 + i), Upgrade: []byte{0xE0}}))
		}
		cend.WriteMessage(refPBReq(hdr{Seq: 1, Upgrade: []byte{0xC8}, Method: []byte("G.Chat")}))
		if k%5 >= 3 { // and stream messages right behind it
			for j := 0; j < k%5-2; j++ {
				cend.WriteMessage(refPBReq(hdr{Seq: 1, Upgrade: []byte{0xD0}, Body: []byte{byte(j), 1, 2}}))
			}
		}
		cend.Close()
		select {
		case <-done:
		case <-time.After(5 * time.Second):
			e.fail(pid+"-servecodec-does-not-return", "ServeCodec had not returned 5s after its peer disconnected right after a stream-open request", desc)
		}
		deadline := time.Now().Add(3 * time.Second)
		for {
			svc.mu.Lock()
			st, ex := svc.started, svc.exited
			svc.mu.Unlock()
			if st == ex {
				break
			}
			if time.Now().After(deadline) {
				e.fail(pid+"-stream-handler-left-behind", fmt.Sprintf("a peer sent a stream-open request and disconnected at once: the handler started for it was still blocked in ReadMessage 3s after ServeCodec had returned (started %d, returned %d)", st, ex), desc)
				break
			}
			time.Sleep(time.Millisecond)
		}
		e.count("open-then-gone", fmt.Sprintf("otg-%d", k%12))
	}
}
