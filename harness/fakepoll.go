package main

// C05, poll mode: netpoll may call a connection's handler from several worker
// goroutines (the connection becomes readable again while an earlier event is
// still being handled).  A fake socket does exactly that with prepared
// request frames; the header decode of the first request is slow.  Requests
// must still be executed, and answered, in the order they were read.

import (
	"crypto/tls"
	"errors"
	"fmt"
	"net"
	"sync"
	"syscall"
	"time"

	"github.com/hslam/netpoll"
	"github.com/hslam/rpc"
	"github.com/hslam/socket"
)

type fpMessages struct {
	mu      sync.Mutex
	frames  [][]byte
	written [][]byte
	taken   chan struct{} // closed when the first frame has been handed out
	once    sync.Once
}

func (m *fpMessages) ReadMessage(buf []byte) ([]byte, error) {
	m.mu.Lock()
	defer m.mu.Unlock()
	if len(m.frames) == 0 {
		return nil, syscall.EAGAIN
	}
	f := m.frames[0]
	m.frames = m.frames[1:]
	m.once.Do(func() { close(m.taken) })
	return append(buf[:0], f...), nil
}
func (m *fpMessages) WriteMessage(b []byte) error {
	m.mu.Lock()
	m.written = append(m.written, append([]byte(nil), b...))
	m.mu.Unlock()
	return nil
}
func (m *fpMessages) Close() error { return nil }

// slow header decode for the request with sequence number 1
type fpEncoder struct{ rpc.Encoder }

func (e *fpEncoder) NewCodec() rpc.Codec { return &fpCodec{e.Encoder.NewCodec()} }

type fpCodec struct{ rpc.Codec }

func (c *fpCodec) Unmarshal(data []byte, v interface{}) error {
	err := c.Codec.Unmarshal(data, v)
	if req, ok := v.(rpc.Request); ok && err == nil && req.GetSeq() == 1 {
		time.Sleep(30 * time.Millisecond)
	}
	return err
}

type fpSocket struct{ lis *fpListener }

func (s *fpSocket) Scheme() string                         { return "fp" }
func (s *fpSocket) Dial(string) (socket.Conn, error)       { return nil, errors.New("no dial") }
func (s *fpSocket) Listen(string) (socket.Listener, error) { return s.lis, nil }

type fpListener struct {
	msgs    *fpMessages
	workers int
	done    chan struct{}
	once    sync.Once
	served  sync.WaitGroup
}

func (l *fpListener) Accept() (socket.Conn, error) { <-l.done; return nil, errors.New("closed") }
func (l *fpListener) Close() error                 { l.once.Do(func() { close(l.done) }); return nil }
func (l *fpListener) Addr() net.Addr               { return &net.TCPAddr{} }
func (l *fpListener) Serve(netpoll.Handler) error  { return errors.New("unsupported") }
func (l *fpListener) ServeData(func(net.Conn) error, func([]byte) []byte) error {
	return errors.New("unsupported")
}
func (l *fpListener) ServeConn(func(net.Conn) (socket.Context, error), func(socket.Context) error) error {
	return errors.New("unsupported")
}
func (l *fpListener) ServeMessages(opened func(socket.Messages) (socket.Context, error), serve func(socket.Context) error) error {
	ctx, err := opened(l.msgs)
	if err != nil {
		return err
	}
	for w := 0; w < l.workers; w++ {
		l.served.Add(1)
		go func(w int) {
			defer l.served.Done()
			if w > 0 {
				<-l.msgs.taken // readable again while the first event is being handled
			}
			for {
				if err := serve(ctx); err != nil {
					return
				}
				l.msgs.mu.Lock()
				left := len(l.msgs.frames)
				l.msgs.mu.Unlock()
				if left == 0 {
					return
				}
			}
		}(w)
	}
	<-l.done
	return errors.New("closed")
}

type FPSvc struct {
	mu    sync.Mutex
	order []int
}

func (s *FPSvc) Exec(req *[]byte, res *[]byte) error {
	s.mu.Lock()
	s.order = append(s.order, int((*req)[0]))
	s.mu.Unlock()
	*res = []byte{(*req)[0]}
	return nil
}

func fakePollOrder(e *Env) {
	for k := 0; k < 8; k++ {
		direct := k%2 == 1
		nreq := 3 + k%4
		workers := 2 + k%2
		desc := map[string]interface{}{"scenario": "poll-mode handler called from several worker goroutines for one connection; slow header decode of the first request", "server_directIO": direct, "requests": nreq, "workers": workers, "seed": e.Seed}
		e.inflight(desc)
		msgs := &fpMessages{taken: make(chan struct{})}
		for i := 1; i <= nreq; i++ {
			msgs.frames = append(msgs.frames, refPBReq(hdr{Seq: uint64(i), Method: []byte("FP.Exec"), Body: []byte{byte(i)}}))
		}
		lis := &fpListener{msgs: msgs, workers: workers, done: make(chan struct{})}
		svc := &FPSvc{}
		srv := rpc.NewServer()
		srv.SetLogLevel(rpc.OffLogLevel)
		srv.SetPoll(true)
		srv.SetPipelining(true)
		srv.SetDirectIO(direct)
		srv.RegisterName("FP", svc)
		opts := &rpc.Options{NewSocket: func(*tls.Config) socket.Socket { return &fpSocket{lis} },
			NewCodec:         func() rpc.Codec { return &rpc.BYTESCodec{} },
			NewHeaderEncoder: func() rpc.Encoder { return &fpEncoder{rpc.NewPBEncoder()} }}
		ret := make(chan error, 1)
		go func() { ret <- srv.ListenWithOptions("fp://x", opts) }()
		deadline := time.Now().Add(5 * time.Second)
		for time.Now().Before(deadline) {
			msgs.mu.Lock()
			n := len(msgs.written)
			msgs.mu.Unlock()
			if n >= nreq {
				break
			}
			time.Sleep(time.Millisecond)
		}
		svc.mu.Lock()
		order := append([]int(nil), svc.order...)
		svc.mu.Unlock()
		msgs.mu.Lock()
		var resp []int
		for _, f := range msgs.written {
			if h, err := decodeResp(rpc.NewPBEncoder(), f); err == nil {
				resp = append(resp, int(h.Seq))
			}
		}
		msgs.mu.Unlock()
		want := make([]int, nreq)
		for i := range want {
			want[i] = i + 1
		}
		if fmt.Sprint(order) != fmt.Sprint(want) {
			e.fail("C05-execution-order", fmt.Sprintf("poll mode with pipelining, %d handler goroutines on one connection: requests read in order %v were executed in order %v", workers, want, order), desc)
		}
		if fmt.Sprint(resp) != fmt.Sprint(want) {
			e.fail("C05-response-order", fmt.Sprintf("poll mode with pipelining, %d handler goroutines on one connection: requests read in order %v were answered in order %v", workers, want, resp), desc)
		}
		lis.Close()
		srv.Close()
		select {
		case <-ret:
		case <-time.After(2 * time.Second):
		}
		e.count("fake-poll", fmt.Sprintf("fp-%d", k))
	}
}
