package main

// C03 under real concurrency: many goroutines are calling on one connection
// at the moment its peer goes away.  Writes after the cut are swallowed
// without error (a buffered writer, a half-closed socket), so nothing but
// the connection's own teardown can complete those calls: every caller must
// come back with an error promptly, and nothing stays registered.

import (
	"fmt"
	"io"
	"sync"
	"sync/atomic"
	"time"

	"github.com/hslam/rpc"
)

// cutMessages answers every request with an echo until it is cut; after the
// cut, reads fail and writes are swallowed.
type cutMessages struct {
	mu    sync.Mutex
	cut   bool
	eof   bool
	resp  chan []byte
	once  sync.Once
	dead  chan struct{}
	swall int32
}

func newCutMessages() *cutMessages {
	return &cutMessages{resp: make(chan []byte, 4096), dead: make(chan struct{})}
}

func (m *cutMessages) ReadMessage(buf []byte) ([]byte, error) {
	select {
	case b := <-m.resp:
		return b, nil
	case <-m.dead:
		if m.eof {
			return nil, io.EOF
		}
		return nil, fmt.Errorf("read: connection reset by peer")
	}
}

func (m *cutMessages) WriteMessage(b []byte) error {
	m.mu.Lock()
	cut := m.cut
	m.mu.Unlock()
	if cut {
		atomic.AddInt32(&m.swall, 1)
		return nil
	}
	if h, err := decodePBReq(b); err == nil {
		select {
		case m.resp <- pbRespFrame(h.Seq, "", append([]byte{0xA0}, h.Body...)):
		default:
		}
	}
	return nil
}

func (m *cutMessages) Close() error {
	m.cutNow(true)
	return nil
}

func (m *cutMessages) cutNow(eof bool) {
	m.mu.Lock()
	m.cut = true
	m.eof = eof
	m.mu.Unlock()
	m.once.Do(func() { close(m.dead) })
}

func connCutStress(e *Env) {
	rounds := 60
	if e.thorough() {
		rounds = 1500
	}
	const callers = 48
	for round := 0; round < rounds; round++ {
		msgs := newCutMessages()
		conn := rpc.NewConnWithCodec(rpc.NewClientCodec(&rpc.BYTESCodec{}, nil, msgs, 0))
		switch round % 3 {
		case 1:
			conn.SetPipelining(true)
		case 2:
			conn.SetDirectIO(true)
		}
		desc := map[string]interface{}{"scenario": "peer goes away while many goroutines are calling on the connection", "callers": callers, "mode": []string{"default", "pipelining", "directIO"}[round%3], "round": round, "seed": e.Seed}
		var wg sync.WaitGroup
		var last int64
		stop := make(chan struct{})
		for g := 0; g < callers; g++ {
			wg.Add(1)
			go func(g int) {
				defer wg.Done()
				for i := 0; ; i++ {
					req, res := []byte{byte(g), byte(i)}, []byte(nil)
					err := conn.Call("S.M", &req, &res)
					atomic.StoreInt64(&last, time.Now().UnixNano())
					if err != nil {
						return
					}
					select {
					case <-stop:
						return
					default:
					}
				}
			}(g)
		}
		spin(time.Duration(200+e.Rng.Intn(400)) * time.Microsecond)
		msgs.cutNow(round%2 == 0)
		cutAt := time.Now()
		done := make(chan struct{})
		go func() { wg.Wait(); close(done) }()
		select {
		case <-done:
		case <-time.After(4 * time.Second):
			snap := conn.VerifSnapshot()
			e.fail(e.Res.Property+"-caller-blocked-after-cut", fmt.Sprintf("4s after the peer went away some of %d concurrent callers were still blocked in Call (calls left registered: %d, shutdown flag: %v)", callers, len(snap.Pending), snap.Shutdown), desc)
			close(stop)
			conn.Close()
			return
		}
		close(stop)
		if d := time.Duration(atomic.LoadInt64(&last) - cutAt.UnixNano()); d > 2*time.Second {
			e.fail(e.Res.Property+"-not-prompt", fmt.Sprintf("the last caller returned %v after the peer went away", d), desc)
		}
		if snap := conn.VerifSnapshot(); len(snap.Pending) != 0 {
			e.fail(e.Res.Property+"-residue-after-cut", fmt.Sprintf("%d calls are still registered on a connection that has ended", len(snap.Pending)), desc)
		}
		conn.Close()
		e.count("cut-stress", fmt.Sprintf("cs-%d", round%30))
	}
}
