package main

// Trace replay of the client connection (conn.go) through gated fakes, for
// C02, C03, C06, C19 (and the client half of C05).  The harness chooses one
// enabled action at a time, performs it on the real Conn, waits for
// quiescence, and records the projected observables; the Coq model
// (Corr/RunConn.v) must predict the same observables after every action.
// Independently of the model, the property oracles are evaluated on what the
// implementation did.

import (
	"bytes"
	"context"
	"encoding/hex"
	"errors"
	"fmt"
	"io"
	"net"
	"os"
	"sort"
	"strings"
	"syscall"

	"github.com/hslam/rpc"
)

func init() {
	commands["conn-c01"] = func(w string) { runConn(w, "C01") }
	commands["conn-c02"] = func(w string) { runConn(w, "C02") }
	commands["conn-c03"] = func(w string) { runConn(w, "C03") }
	commands["conn-c05"] = func(w string) { runConn(w, "C05") }
	commands["conn-c06"] = func(w string) { runConn(w, "C06") }
	commands["conn-c19"] = func(w string) { runConn(w, "C19") }
}

const (
	kGo = iota
	kCall
	kRoundTrip
	kCtx
	kPing
)

var kindCoq = []string{"KGo", "KCall", "KRoundTrip", "KCtx", "KPing"}

type hcall struct {
	id        int
	kind      int
	args      []byte
	reply     *[]byte
	done      chan *rpc.Call
	call      *rpc.Call // known for RoundTrip at once, for Go after Go returned
	returned  bool      // blocking API returned / Go returned
	retErr    error
	cancel    context.CancelFunc
	ctxBuf    []byte
	seq       uint64
	hasSeq    bool
	abandoned bool
	// oracle bookkeeping
	firstErr        string
	firstSeen       bool
	respArrived     bool   // a well-formed success response for it was delivered while registered and before any cut/close
	respBody        []byte // that response's body
	expectErrTxt    string // error response text delivered first, if any
	replyAtAbandon  []byte
	written         bool // its request write returned nil
	startedAfterCut bool
	decodedIdx      int // C05: position of its response among the decoded ones (0 = none counted)
}

type connRun struct {
	e            *Env
	directIO     bool
	pipelining   bool
	msgs         *gatedMessages
	decGate      gate
	bodyGate     gate
	conn         *rpc.Conn
	calls        []*hcall
	sendOrder    []int // pipelining: started calls not yet seen at the write gate, FIFO
	atGate       map[*waiter]int
	readerDead   bool
	closed       bool
	closeRets    []bool
	steps        []string
	trace        []string
	arrivedQ     []arrived // frames fed and not yet decoded
	cutDone      bool
	closedBefore bool
	nDecoded     int
	c05Reported  bool
	stuck        bool
}

type arrived struct {
	sampled, closedAtPickup bool
	call                    int // -1: unknown/bad
	ok                      bool
	body                    []byte
	errT                    string
}

func newConnRun(e *Env, directIO, pipelining bool) *connRun {
	r := &connRun{e: e, directIO: directIO, pipelining: pipelining, atGate: map[*waiter]int{}}
	r.msgs = newGatedMessages()
	enc := &gatedEncoder{inner: rpc.NewPBEncoder(), decodeGate: &r.decGate, holdResp: true}
	body := &gatedBody{bodyGate: &r.bodyGate, hold: true}
	codec := rpc.NewClientCodec(body, enc, r.msgs, 0)
	r.conn = rpc.NewConnWithCodec(codec)
	if pipelining {
		r.conn.SetPipelining(true)
	}
	if directIO {
		r.conn.SetDirectIO(true)
	}
	quiesce()
	return r
}

// ---- observation ----

func (r *connRun) classify(err error) string {
	switch {
	case err == nil:
		return "ONone"
	case err == rpc.ErrShutdown:
		return "OShutdown"
	case strings.HasPrefix(err.Error(), "reading body "):
		return "OBody"
	}
	return "OText " + bspec([]byte(err.Error()))
}

func (r *connRun) doneCount(c *hcall) int {
	switch c.kind {
	case kGo, kRoundTrip:
		return len(c.done)
	}
	if c.returned {
		return 1
	}
	return 0
}

// callErr reads the call's error at quiescence.
func (r *connRun) callErr(c *hcall) error {
	switch c.kind {
	case kGo, kRoundTrip:
		if c.call != nil {
			return c.call.Error
		}
		if len(c.done) > 0 { // Go has not returned yet: peek
			n := len(c.done)
			var first *rpc.Call
			for i := 0; i < n; i++ {
				x := <-c.done
				if first == nil {
					first = x
				}
				c.done <- x
			}
			return first.Error
		}
		return nil
	}
	return c.retErr
}

func (r *connRun) wgateIDs() []int {
	var ids []int
	for _, w := range r.msgs.writeGate.list() {
		if id, ok := r.atGate[w]; ok {
			ids = append(ids, id)
		}
	}
	sort.Ints(ids)
	return ids
}

func (r *connRun) fgateIDs() []int {
	var ids []int
	for _, w := range r.bodyGate.list() {
		for _, c := range r.calls {
			if w.tag == interface{}(c.reply) {
				ids = append(ids, c.id)
			}
		}
	}
	sort.Ints(ids)
	return ids
}

func natList(xs []int) string {
	s := make([]string, len(xs))
	for i, x := range xs {
		s[i] = fmt.Sprintf("%d%%nat", x)
	}
	return "[" + strings.Join(s, "; ") + "]"
}

// assignGates maps new write-gate entries to calls.
func (r *connRun) assignGates() {
	// calls that completed without ever reaching the write gate were refused
	var keep []int
	for _, x := range r.sendOrder {
		if !(r.doneCount(r.calls[x]) >= 1 && !r.calls[x].hasSeq) {
			keep = append(keep, x)
		}
	}
	r.sendOrder = keep
	for _, w := range r.msgs.writeGate.list() {
		if _, ok := r.atGate[w]; ok {
			continue
		}
		h, err := decodePBReq(w.data)
		id := -1
		if err == nil && len(h.Body) >= 2 && h.Body[0] == 0xC0 {
			id = int(h.Body[1])
		} else if len(r.sendOrder) > 0 {
			// pings carry no body: the oldest started call that has not been seen yet
			for _, x := range r.sendOrder {
				if r.calls[x].kind == kPing {
					id = x
					break
				}
			}
		}
		if id < 0 {
			panic("conn harness: cannot attribute a written request")
		}
		for i, x := range r.sendOrder {
			if x == id {
				r.sendOrder = append(r.sendOrder[:i], r.sendOrder[i+1:]...)
				break
			}
		}
		r.atGate[w] = id
		r.calls[id].seq, r.calls[id].hasSeq = h.Seq, true
	}
}

func (r *connRun) observe() string {
	r.assignGates()
	// the codec's closed flag is read when the decode worker picks a frame up,
	// before the header-decode gate
	if len(r.decGate.list()) > 0 && len(r.arrivedQ) > 0 && !r.arrivedQ[0].sampled {
		r.arrivedQ[0].sampled, r.arrivedQ[0].closedAtPickup = true, r.closedBefore
	}
	var cs []string
	for _, c := range r.calls {
		dc := r.doneCount(c)
		errS, rep := "ONone", "None"
		if dc >= 1 && !c.abandoned {
			err := r.callErr(c)
			errS = r.classify(err)
			if err == nil && c.kind != kPing {
				rep = "(Some " + bspec(*c.reply) + ")"
			}
			// C02 oracle: Error stable after completion
			if !c.firstSeen {
				c.firstSeen, c.firstErr = true, string([]byte(errString(err))) // a private copy: the text itself must not change
			} else if c.firstErr != errString(err) {
				r.e.fail("C02-error-rewritten", fmt.Sprintf("call %d: Error changed after completion from %q to %q", c.id, c.firstErr, errString(err)), r.replay())
			}
		}
		if dc > 1 {
			r.e.fail("C02-signalled-twice", fmt.Sprintf("call %d signalled %d times on its Done channel", c.id, dc), r.replay())
		}
		cs = append(cs, fmt.Sprintf("{| oc_id := %d; oc_done := %d; oc_err := %s; oc_reply := %s |}", c.id, dc, errS, rep))
	}
	var cl []string
	for _, b := range r.closeRets {
		cl = append(cl, coqBool(b))
	}
	return fmt.Sprintf("{| o_calls := [%s]; o_numcalls := %d; o_wgate := %s; o_dgate := %s; o_fgate := %s; o_close := [%s] |}",
		strings.Join(cs, "; "), r.conn.NumCalls(), natList(r.wgateIDs()), coqBool(len(r.decGate.list()) > 0), natList(r.fgateIDs()), strings.Join(cl, "; "))
}

func (r *connRun) record(act, human string) {
	r.e.inflight(map[string]interface{}{"trace_so_far": r.replay(), "last": human})
	quiesce()
	defer func() { r.closedBefore = r.closed }()
	r.trace = append(r.trace, human)
	r.steps = append(r.steps, "("+act+", "+r.observe()+")")
	r.orderOracle()
}

// C05, client half: with client pipelining the completions that result from
// decoded responses are signalled in the order the responses were decoded,
// successes and errors alike.  Judged only while the connection is intact
// (the end of a connection completes what is left in one sweep).
func (r *connRun) orderOracle() {
	if !r.pipelining || r.readerDead || r.closed || r.c05Reported {
		return
	}
	for _, b := range r.calls {
		if b.decodedIdx == 0 || b.abandoned || r.doneCount(b) == 0 {
			continue
		}
		for _, a := range r.calls {
			if a.decodedIdx != 0 && a.decodedIdx < b.decodedIdx && !a.abandoned && r.doneCount(a) == 0 {
				r.c05Reported = true
				r.e.fail("C05-client-completion-overtakes", fmt.Sprintf("client pipelining: call %d was signalled complete while call %d, whose response was decoded earlier, was not", b.id, a.id), r.replay())
				return
			}
		}
	}
}

func (r *connRun) replay() interface{} {
	return map[string]interface{}{"directIO": r.directIO, "pipelining": r.pipelining, "trace": append([]string(nil), r.trace...), "seed": r.e.Seed}
}

// ---- actions ----

func (r *connRun) start(kind int) {
	id := len(r.calls)
	c := &hcall{id: id, kind: kind, args: []byte{0xC0, byte(id), byte(r.e.Rng.Intn(256))}, reply: new([]byte), done: make(chan *rpc.Call, 10)}
	r.calls = append(r.calls, c)
	r.sendOrder = append(r.sendOrder, id)
	// the connection has ended for new calls once the reader has swept (it
	// waits for the decode queue first) or Close was called; with client
	// pipelining a refusal additionally waits for its turn in the write queue
	swept := r.readerDead && len(r.decGate.list()) == 0 && len(r.arrivedQ) == 0
	c.startedAfterCut = (swept || r.closed) && !(r.pipelining && (len(r.msgs.writeGate.list()) > 0 || len(r.sendOrder) > 1))
	switch kind {
	case kGo:
		go func() { c.call = r.conn.Go("S.M", &c.args, c.reply, c.done); c.returned = true }()
	case kRoundTrip:
		c.call = &rpc.Call{ServiceMethod: "S.M", Args: &c.args, Reply: c.reply, Done: c.done}
		go func() { r.conn.RoundTrip(c.call); c.returned = true }()
	case kCall:
		go func() { c.retErr = r.conn.Call("S.M", &c.args, c.reply); c.returned = true }()
	case kCtx:
		ctx, cancel := context.WithCancel(context.Background())
		c.cancel = cancel
		go func() { c.retErr = r.conn.CallWithContext(ctx, "S.M", &c.args, c.reply); c.returned = true }()
	case kPing:
		go func() { c.retErr = r.conn.Ping(); c.returned = true }()
	}
	quiesce()
	r.assignGates()
	r.record(fmt.Sprintf("HStart %d %s", id, kindCoq[kind]), fmt.Sprintf("Start %d %s", id, kindCoq[kind]))
	// C03 oracle: a call started after the cut fails at once with ErrShutdown
	if c.startedAfterCut {
		if r.doneCount(c) != 1 || r.callErr(c) != rpc.ErrShutdown {
			r.e.fail("C03-not-refused", fmt.Sprintf("call %d started after the connection ended: done=%d err=%v (want immediate ErrShutdown)", id, r.doneCount(c), r.callErr(c)), r.replay())
		}
	}
}

func (r *connRun) writeRet(w *waiter, fail string) {
	id := r.atGate[w]
	delete(r.atGate, w)
	if fail == "" {
		r.calls[id].written = true
		r.msgs.writeGate.release(w, nil)
		r.record(fmt.Sprintf("HWriteRet %d None", id), fmt.Sprintf("WriteRet %d ok", id))
	} else {
		var werr error = errors.New(fail)
		if fail == "EOF" {
			werr = io.EOF // the very value a closed socket returns
		}
		r.msgs.writeGate.release(w, werr)
		r.record(fmt.Sprintf("HWriteRet %d (Some %s)", id, bspec([]byte(fail))), fmt.Sprintf("WriteRet %d err %q", id, fail))
	}
}

func (r *connRun) arrive(kind string, c *hcall, errT string, body []byte) {
	var frame []byte
	var act, human string
	a := arrived{call: -1}
	switch kind {
	case "bad":
		frame = []byte{0x08} // truncated varint: header decode fails
		act, human = "HArrive HBad", "Arrive bad"
	case "unknown":
		var big []byte
		if r.e.Rng.Intn(2) == 0 {
			// a frame larger than the connection's read buffer takes the same way through the queues as any other
			big = bytes.Repeat([]byte{0xA5}, 70000)
		}
		frame = pbRespFrame(1<<63+12345, "", big)
		act, human = "HArrive HUnknown", "Arrive unknown-seq"
	default:
		frame = pbRespFrame(c.seq, errT, body)
		ok := !(len(body) > 0 && body[0] == 0xBD)
		act = fmt.Sprintf("HArrive (HResp %d %s %s %s)", c.id, bspec([]byte(errT)), bspec(body), coqBool(ok))
		human = fmt.Sprintf("Arrive resp(%d) err=%q body=%s", c.id, errT, hex.EncodeToString(body))
		a = arrived{call: c.id, ok: ok && errT == "", body: body, errT: errT}
	}
	r.arrivedQ = append(r.arrivedQ, a)
	r.msgs.readCh <- readItem{frame: frame}
	r.record(act, human)
}

func (r *connRun) decode() {
	ws := r.decGate.list()
	if len(ws) == 0 || len(r.arrivedQ) == 0 {
		// the frame that was fed never reached the header decoder: the connection does something
		// the gated protocol of this harness does not know
		r.e.fail(r.e.Res.Property+"-frame-not-decoded", "a response frame was delivered to the connection but its header decode never started", r.replay())
		r.stuck = true
		return
	}
	a := r.arrivedQ[0]
	r.arrivedQ = r.arrivedQ[1:]
	// oracle bookkeeping: is the call registered right now, and nothing cut/closed?
	if a.call >= 0 {
		c := r.calls[a.call]
		snap := r.conn.VerifSnapshot()
		reg := false
		for _, q := range snap.Pending {
			if c.hasSeq && q == c.seq {
				reg = true
			}
		}
		if reg && !a.closedAtPickup && c.decodedIdx == 0 && c.kind != kPing && !c.abandoned && !r.readerDead && !r.closed {
			r.nDecoded++
			c.decodedIdx = r.nDecoded
		}
		if reg && !a.closedAtPickup && !c.respArrived && c.expectErrTxt == "" {
			if a.errT != "" {
				c.expectErrTxt = a.errT
			} else if c.kind != kPing {
				c.respArrived, c.respBody = true, a.body
			}
		}
	}
	r.decGate.release(ws[0], nil)
	r.record("HDecode", "Decode")
}

func (r *connRun) finish(id int) {
	for _, w := range r.bodyGate.list() {
		if w.tag == interface{}(r.calls[id].reply) {
			r.bodyGate.release(w, nil)
			r.record(fmt.Sprintf("HFinish %d", id), fmt.Sprintf("Finish %d", id))
			return
		}
	}
	panic("finish: no such gate")
}

func (r *connRun) readErr(eof bool) {
	if eof {
		r.msgs.readCh <- readItem{err: io.EOF}
		r.readerDead = true
		r.record("HReadErr true []", "ReadErr EOF")
	} else {
		// whatever kind of error ends the read direction — a plain one, a reset, a link that timed out
		// (a net.Error whose Timeout() is true), a torn frame — the connection is over
		errs := []error{errors.New("read: boom"), &net.OpError{Op: "read", Net: "tcp", Err: syscall.ETIMEDOUT},
			&net.OpError{Op: "read", Net: "tcp", Err: syscall.ECONNRESET}, os.ErrDeadlineExceeded, io.ErrUnexpectedEOF}
		err := errs[r.e.Rng.Intn(len(errs))]
		r.msgs.readCh <- readItem{err: err}
		r.readerDead = true
		r.record("HReadErr false "+bspec([]byte(err.Error())), "ReadErr "+err.Error())
	}
}

func (r *connRun) close() {
	err := r.conn.Close()
	r.closeRets = append(r.closeRets, err == nil)
	if !r.closed && err != nil {
		// the first Close is what ends the connection for its outstanding callers: it must go through
		r.e.fail("C03-close-does-not-close", fmt.Sprintf("the first Conn.Close returned %v and left the codec open: calls still outstanding are never failed", err), r.replay())
		r.e.fail("C20-first-close", fmt.Sprintf("first Conn.Close returned %v", err), r.replay())
	}
	if r.closed && err != rpc.ErrShutdown {
		r.e.fail("C20-second-close", fmt.Sprintf("second Conn.Close returned %v, want ErrShutdown", err), r.replay())
	}
	r.closed = true
	r.record("HClose", "Close")
}

func (r *connRun) ctxDone(c *hcall) {
	c.abandoned = true
	c.replyAtAbandon = append([]byte(nil), *c.reply...)
	c.cancel()
	r.record(fmt.Sprintf("HCtxDone %d", c.id), fmt.Sprintf("CtxDone %d", c.id))
	if !c.returned || c.retErr != context.Canceled {
		r.e.fail("C19-ctx-not-prompt", fmt.Sprintf("call %d: CallWithContext did not return ctx.Err() when the context was cancelled (returned=%v err=%v)", c.id, c.returned, c.retErr), r.replay())
	}
}

// ---- enabled actions, chosen at random with weights ----

type choice struct {
	w   int
	run func()
	tag string
}

func (r *connRun) choices(prop string) []choice {
	var cs []choice
	e := r.e
	nActive := 0
	for _, c := range r.calls {
		if r.doneCount(c) == 0 {
			nActive++
		}
	}
	if len(r.calls) < 6 {
		w := 6
		if nActive >= 3 {
			w = 2
		}
		kinds := []int{kGo, kGo, kRoundTrip, kCall, kCtx, kPing}
		if prop == "C19" {
			kinds = []int{kCtx, kCtx, kCtx, kGo, kCall}
		}
		if prop == "C05" {
			kinds = []int{kGo, kGo, kGo, kGo, kRoundTrip, kPing}
		}
		k := kinds[e.Rng.Intn(len(kinds))]
		cs = append(cs, choice{w, func() { r.start(k) }, "start"})
	}
	for _, w := range r.msgs.writeGate.list() {
		w := w
		cs = append(cs, choice{5, func() { r.writeRet(w, "") }, "write-ok"})
		werr := 2
		if prop == "C01" {
			werr = 4 // requests that fail to be written while other calls are outstanding
		}
		cs = append(cs, choice{werr, func() {
			r.writeRet(w, []string{"write: broken pipe", "EOF", "The connection is shut down"}[e.Rng.Intn(3)])
		}, "write-err"})
	}
	if !r.readerDead && r.msgs.readerWaiting() {
		for _, c := range r.calls {
			c := c
			if !c.hasSeq {
				continue
			}
			wgt := 1
			if r.doneCount(c) == 0 {
				wgt = 5
			}
			body := []byte{0xA0, byte(c.id), byte(e.Rng.Intn(256))}
			switch e.Rng.Intn(8) {
			case 0, 7:
				if prop != "C05" && e.Rng.Intn(2) == 0 {
					break
				}
				body = nil
			case 1:
				body = []byte{0xBD, 1} // undecodable body
			case 2:
				body = genBytes(e, 200+e.Rng.Intn(400), 0)
			}
			errT := ""
			if e.Rng.Intn(4) == 0 || (prop == "C06" && e.Rng.Intn(2) == 0) {
				errT = []string{"boom", "The connection is shut down", "can't find service S.M", string(genUTF8(e, 1+e.Rng.Intn(300))),
					"relay: The connection is shut down (upstream)", "The connection is shut down."}[e.Rng.Intn(6)]
			}
			cs = append(cs, choice{wgt, func() { r.arrive("resp", c, errT, body) }, "arrive"})
		}
		cs = append(cs, choice{1, func() { r.arrive("unknown", nil, "", nil) }, "arrive-unknown"})
		cs = append(cs, choice{1, func() { r.arrive("bad", nil, "", nil) }, "arrive-bad"})
		cs = append(cs, choice{2, func() { r.readErr(e.Rng.Intn(3) != 0) }, "readerr"})
	}
	if len(r.decGate.list()) > 0 {
		cs = append(cs, choice{6, func() { r.decode() }, "decode"})
	}
	for _, id := range r.fgateIDs() {
		id := id
		cs = append(cs, choice{5, func() { r.finish(id) }, "finish"})
	}
	if len(r.closeRets) < 2 {
		cs = append(cs, choice{1, func() { r.close() }, "close"})
	}
	for _, c := range r.calls {
		c := c
		if c.kind == kCtx && !c.abandoned && !c.returned {
			atGate := false
			for _, id := range r.wgateIDs() {
				if id == c.id {
					atGate = true
				}
			}
			queued := false
			for _, id := range r.sendOrder {
				if id == c.id {
					queued = true
				}
			}
			if r.pipelining || (!atGate && !queued) {
				cs = append(cs, choice{3, func() { r.ctxDone(c) }, "ctxdone"})
			}
		}
	}
	return cs
}

// finish the trace: end the connection and release everything, then check
// the end-state oracles.
func (r *connRun) teardown() {
	for guard := 0; guard < 200; guard++ {
		switch {
		case len(r.decGate.list()) > 0:
			r.decode()
		case len(r.fgateIDs()) > 0:
			r.finish(r.fgateIDs()[0])
		case len(r.msgs.writeGate.list()) > 0:
			r.writeRet(r.msgs.writeGate.list()[0], []string{"", "write: broken pipe"}[guard%2])
		case !r.readerDead && r.msgs.readerWaiting():
			r.readErr(true)
		default:
			quiesce()
			if len(r.decGate.list()) == 0 && len(r.fgateIDs()) == 0 && len(r.msgs.writeGate.list()) == 0 && (r.readerDead || !r.msgs.readerWaiting()) {
				return
			}
		}
	}
	r.e.fail(r.e.Res.Property+"-connection-does-not-wind-down", "after the end of the trace the connection still had work in flight that no gate of the harness could release", r.replay())
	r.stuck = true
}

func (r *connRun) endOracles() {
	for _, c := range r.calls {
		dc := r.doneCount(c)
		if c.abandoned {
			// C19: a response arriving after CallWithContext returned must not touch the caller's reply
			if !bytes.Equal(*c.reply, c.replyAtAbandon) {
				r.e.fail("C19-late-response-writes-caller-memory", fmt.Sprintf("call %d: after CallWithContext returned the context error, a late response overwrote the caller's reply object (%x -> %x)", c.id, c.replyAtAbandon, *c.reply), r.replay())
			}
			continue
		}
		if dc != 1 {
			r.e.fail("C02-not-exactly-once", fmt.Sprintf("call %d (%s) completed %d times by the end of the connection", c.id, kindCoq[c.kind], dc), r.replay())
			for _, o := range r.calls {
				if o.abandoned {
					r.e.fail("C19-cancel-harms-other-call", fmt.Sprintf("call %d (%s), which was not cancelled, completed %d times by the end of a connection on which call %d was given up at its context's end", c.id, kindCoq[c.kind], dc, o.id), r.replay())
					break
				}
			}
			continue
		}
		err := r.callErr(c)
		if c.kind != kPing && err == nil && !c.respArrived {
			r.e.fail("C02-success-without-response", fmt.Sprintf("call %d completed without error but no response for it was decoded", c.id), r.replay())
		}
		// C01: every response this harness feeds for a call carries that call's number in its body; a call
		// that completed without error holds its own reply, never the one addressed to another call
		if err == nil && len(*c.reply) >= 3 && (*c.reply)[0] == 0xA0 && int((*c.reply)[1]) != c.id {
			r.e.fail("C01-foreign-reply", fmt.Sprintf("call %d completed without error holding reply %x, which is the reply addressed to call %d", c.id, *c.reply, (*c.reply)[1]), r.replay())
		}
		// C03: a fully received response wins over the cut
		if c.respArrived {
			okBody := !(len(c.respBody) > 0 && c.respBody[0] == 0xBD)
			if okBody && (err != nil || !bytes.Equal(*c.reply, c.respBody)) && !(len(c.respBody) == 0 && len(*c.reply) == 0 && err == nil) {
				r.e.fail("C03-received-response-lost", fmt.Sprintf("call %d: its response was completely received while it was registered, yet it completed with err=%v reply=%x (want %x)", c.id, err, *c.reply, c.respBody), r.replay())
			}
		}
		// C06: error text verbatim
		if c.expectErrTxt != "" {
			want := c.expectErrTxt
			if err == nil || (err.Error() != want) {
				r.e.fail("C06-error-text", fmt.Sprintf("call %d: server error text %q arrived as %v", c.id, want, err), r.replay())
			}
			if len(*c.reply) != 0 {
				r.e.fail("C06-reply-touched", fmt.Sprintf("call %d failed but its reply object was modified", c.id), r.replay())
			}
		}
	}
	if n := r.conn.NumCalls(); n != 0 {
		r.e.fail("C03-numcalls-after-cut", fmt.Sprintf("NumCalls() = %d after the connection ended", n), r.replay())
	}
}

func (r *connRun) coqCase() string {
	return fmt.Sprintf("{| cc_cfg := {| directIO := %s; pipelining := %s |}; cc_steps := [\n  %s\n] |}",
		coqBool(r.directIO), coqBool(r.pipelining), strings.Join(r.steps, ";\n  "))
}

// scripted traces: the witnesses of the defects of the pinned tree (corpus)
func (r *connRun) script(name string) {
	switch name {
	case "F1-double-completion": // Go registered and blocked in write -> EOF -> write fails
		r.start(kGo)
		r.readErr(true)
		r.writeRet(r.msgs.writeGate.list()[0], "write: broken pipe")
	case "F2-received-then-eof": // response delivered, then EOF, then decode
		r.start(kGo)
		r.writeRet(r.msgs.writeGate.list()[0], "")
		r.arrive("resp", r.calls[0], "", []byte{0xA0, 0, 7})
		if !r.directIO {
			r.readErr(true)
			r.decode()
		} else {
			r.decode()
		}
	case "response-then-write-fails":
		r.start(kRoundTrip)
		r.arrive("resp", r.calls[0], "", []byte{0xA0, 0, 9})
		r.decode()
		r.writeRet(r.msgs.writeGate.list()[0], "write: broken pipe")
	case "close-then-calls":
		r.start(kGo)
		r.close()
		r.start(kCall)
		r.close()
	case "error-then-success":
		if r.directIO {
			return
		}
		r.start(kGo)
		r.start(kGo)
		for len(r.msgs.writeGate.list()) > 0 {
			r.writeRet(r.msgs.writeGate.list()[0], "")
		}
		r.arrive("resp", r.calls[0], "", []byte{0xA0, 0, 1})
		r.arrive("resp", r.calls[1], "handler failed", nil)
		r.decode()
		r.decode()
	case "held-success-then-empty-then-error": // C05: a reply held in its body decode, then an empty reply and an error response
		if !r.pipelining {
			return
		}
		for k := 0; k < 4; k++ {
			r.start(kGo)
		}
		for len(r.msgs.writeGate.list()) > 0 {
			r.writeRet(r.msgs.writeGate.list()[0], "")
		}
		feed := []func(){
			func() { r.arrive("resp", r.calls[0], "", []byte{0xA0, 0, 1}) },
			func() { r.arrive("resp", r.calls[1], "", nil) },
			func() { r.arrive("resp", r.calls[2], "handler failed", nil) },
			func() { r.arrive("resp", r.calls[3], "", []byte{0xBD, 1}) },
		}
		if r.directIO { // the reader decodes each frame itself before it reads the next
			for _, f := range feed {
				f()
				r.decode()
			}
		} else {
			for _, f := range feed {
				f()
			}
			for range feed {
				r.decode()
			}
		}
	case "ctx-late-response":
		r.start(kCtx)
		r.writeRet(r.msgs.writeGate.list()[0], "")
		r.ctxDone(r.calls[0])
		r.arrive("resp", r.calls[0], "", []byte{0xA0, 0, 5})
		r.decode()
	}
}

var connScripts = []string{"F1-double-completion", "F2-received-then-eof", "response-then-write-fails", "close-then-calls", "error-then-success", "ctx-late-response", "held-success-then-empty-then-error"}

func runConn(work, prop string) {
	e := newEnv(prop, "conn", work)
	defer e.finish()
	var cases []string
	modes := [][2]bool{{false, false}, {true, false}, {false, true}, {true, true}}
	runOne := func(r *connRun, kind string) {
		r.teardown()
		r.endOracles()
		cases = append(cases, r.coqCase())
		key := fmt.Sprintf("%v-%v-%s", r.directIO, r.pipelining, strings.Join(shape(r.trace), ","))
		e.count(kind, key)
		if len(e.Res.Samples) < 6 {
			e.sample(map[string]interface{}{"directIO": r.directIO, "pipelining": r.pipelining, "trace": r.trace})
		}
	}
	// corpus first
	for _, sc := range connScripts {
		for _, m := range modes {
			r := newConnRun(e, m[0], m[1])
			r.script(sc)
			runOne(r, "script-"+sc)
		}
	}
	n := 400
	if e.thorough() {
		n = 4000
	}
	for i := 0; i < n; i++ {
		m := modes[i%4]
		if prop == "C05" {
			m = modes[2+i%2] // client pipelining only
		}
		r := newConnRun(e, m[0], m[1])
		steps := 4 + e.Rng.Intn(14)
		if prop == "C05" {
			steps += 6
		}
		for s := 0; s < steps; s++ {
			cs := r.choices(prop)
			if len(cs) == 0 {
				break
			}
			tot := 0
			for _, c := range cs {
				tot += c.w
			}
			x := e.Rng.Intn(tot)
			for _, c := range cs {
				if x < c.w {
					e.inflight(map[string]interface{}{"trace_so_far": r.replay(), "next": c.tag})
					c.run()
					e.Res.Distribution["act-"+c.tag]++
					break
				}
				x -= c.w
			}
		}
		runOne(r, "random-trace")
	}
	if prop == "C02" {
		connCutStress(e) // a call that nothing completes after the cut is not completed exactly once
	}
	if prop == "C03" {
		connStreamCuts(e)
		connCutStress(e)
		streamMultiReader(e)
	}
	if prop == "C06" {
		errorTextSweep(e)
		linkNotPoisoned(e)
	}
	if prop == "C02" {
		goNilDone(e)
	}
	e.Res.Rule = "corpus of scripted witness traces in all four client modes (directIO x pipelining), then seeded random walks over the enabled gated actions (start Go/Call/RoundTrip/CallWithContext/Ping, write returns ok/error, response/duplicate/unknown/undecodable frame arrives, header decode, body decode, read fails EOF/error, Close, context cancel) of 4..17 actions, each followed by a teardown that ends the connection; observables compared with the model after every action; non-trivial = distinct (mode, action-shape sequence)"
	names := writeCases(work, "From Coq Require Import List. Import ListNotations. From RPC Require Import Hex RunConn. From RPC.Conn Require Import Model.", "ccase", cases, 40)
	e.Res.ModelCases = len(cases)
	e.Res.Extra["case_files"] = names
}

// shape abstracts a trace to its action kinds
func shape(tr []string) []string {
	out := make([]string, len(tr))
	for i, s := range tr {
		f := strings.Fields(s)
		out[i] = f[0]
		if f[0] == "WriteRet" || f[0] == "ReadErr" {
			out[i] += f[len(f)-1][:1]
		}
		if f[0] == "Arrive" && strings.Contains(s, "err=\"\"") {
			out[i] += "ok"
		}
	}
	return out
}
