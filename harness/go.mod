module verif/harness

go 1.15

require (
	github.com/hslam/netpoll v0.0.4-0.20230514092318-c286d2b379aa
	github.com/hslam/rpc v0.0.0
	github.com/hslam/socket v0.0.4-0.20230517140040-6048f4a0c39b
)

replace github.com/hslam/rpc => /repo
