package main

// End-to-end runs for C01: a real Conn and a real Server joined by a byte
// pipe that delivers the stream in arbitrary chunks through the real
// socket.Messages framing on both ends; concurrent callers, handlers that
// finish out of order, payloads around the buffer boundaries, all header
// encoders and client/server modes.  Every successful reply must be the one
// computed from the call's own arguments.  The chunkings observed on the wire
// are also given to the Coq framing model (FrameDec cases).

import (
	"bytes"
	"crypto/sha256"
	"fmt"
	"io"
	"os"
	"path/filepath"
	"runtime"
	"strings"
	"sync"
	"sync/atomic"
	"time"

	"github.com/hslam/rpc"
	"github.com/hslam/socket"
)

func init() {
	commands["sys-c01"] = func(w string) { runSys(w, "C01") }
}

// chunkPipe is one direction of a reliable ordered byte stream; Read returns
// chunks of scripted sizes.
type chunkPipe struct {
	mu     sync.Mutex
	cond   *sync.Cond
	buf    []byte
	closed bool
	sizes  func() int
	rec    *[][]byte // chunks delivered (when recording)
}

func newChunkPipe(sizes func() int) *chunkPipe {
	p := &chunkPipe{sizes: sizes}
	p.cond = sync.NewCond(&p.mu)
	return p
}

func (p *chunkPipe) Write(b []byte) (int, error) {
	p.mu.Lock()
	defer p.mu.Unlock()
	if p.closed {
		return 0, io.ErrClosedPipe
	}
	p.buf = append(p.buf, b...)
	p.cond.Broadcast()
	return len(b), nil
}

func (p *chunkPipe) Read(b []byte) (int, error) {
	p.mu.Lock()
	defer p.mu.Unlock()
	for len(p.buf) == 0 && !p.closed {
		p.cond.Wait()
	}
	if len(p.buf) == 0 {
		return 0, io.EOF
	}
	n := p.sizes()
	if n < 1 {
		n = 1
	}
	if n > len(p.buf) {
		n = len(p.buf)
	}
	if n > len(b) {
		n = len(b)
	}
	copy(b, p.buf[:n])
	if p.rec != nil && len(*p.rec) < 4000 {
		*p.rec = append(*p.rec, append([]byte(nil), p.buf[:n]...))
	}
	p.buf = p.buf[n:]
	return n, nil
}

func (p *chunkPipe) close() {
	p.mu.Lock()
	p.closed = true
	p.cond.Broadcast()
	p.mu.Unlock()
}

type duplex struct {
	r, w *chunkPipe
}

func (d *duplex) Read(b []byte) (int, error)  { return d.r.Read(b) }
func (d *duplex) Write(b []byte) (int, error) { return d.w.Write(b) }
func (d *duplex) Close() error                { d.r.close(); d.w.close(); return nil }

// recMsgs records the frames ReadMessage returns
type recMsgs struct {
	socket.Messages
	mu     sync.Mutex
	frames [][]byte
}

func (m *recMsgs) ReadMessage(buf []byte) ([]byte, error) {
	p, err := m.Messages.ReadMessage(buf)
	if err == nil {
		m.mu.Lock()
		if len(m.frames) < 4000 {
			m.frames = append(m.frames, append([]byte(nil), p...))
		}
		m.mu.Unlock()
	}
	return p, err
}

func (m *recMsgs) SetBufferedOutput(n int) {
	if s, ok := m.Messages.(socket.BufferedOutput); ok {
		s.SetBufferedOutput(n)
	}
}
func (m *recMsgs) SetBufferedInput(n int) {
	if s, ok := m.Messages.(socket.BufferedInput); ok {
		s.SetBufferedInput(n)
	}
}

// SysSvc computes replies that depend on every byte of the arguments.
type SysSvc struct {
	delay func()
	log   *sysLog
}

type sysLog struct {
	mu   sync.Mutex
	seen map[string]int
}

func expectedReply(args []byte) []byte {
	h := sha256.Sum256(args)
	out := append([]byte("R:"), h[:]...)
	// a reply whose size follows the request's, to cross the same buffer boundaries
	n := len(args)
	if n > 0 {
		out = append(out, bytes.Repeat([]byte{args[0] ^ 0x5a}, n)...)
	}
	return out
}

// Hash is the handler.
func (s *SysSvc) Hash(req *[]byte, res *[]byte) error {
	s.log.mu.Lock()
	s.log.seen[string((*req)[:min(len(*req), 16)])]++
	s.log.mu.Unlock()
	a := append([]byte(nil), *req...)
	s.delay()
	*res = expectedReply(a)
	return nil
}

// Empty returns an empty reply when asked to.
func (s *SysSvc) Empty(req *[]byte, res *[]byte) error {
	if len(*req) > 0 && (*req)[0] == 'E' {
		*res = nil
		return nil
	}
	*res = []byte("full")
	return nil
}

func min(a, b int) int {
	if a < b {
		return a
	}
	return b
}

type sysCfg struct {
	encoder   string // "", pb, code, json
	cliPipe   bool
	cliDirect bool
	srvPipe   bool
	srvDirect bool
	bufSize   int
	chunkMode int
	callers   int
	perCaller int
	scribble  bool // body codec that encodes into the library's buffer + header codec that overwrites every free pool buffer before it encodes
}

func encoderOf(name string) rpc.Encoder {
	switch name {
	case "pb":
		return rpc.NewPBEncoder()
	case "code":
		return rpc.NewCODEEncoder()
	case "json":
		return rpc.NewJSONEncoder()
	}
	return nil
}

// intoBuf is a body codec that encodes into the buffer the library hands it (as the pb, code and
// msgpack codecs do), so the encoded value lives in a library buffer until the library has copied it
type intoBuf struct{}

func (intoBuf) Marshal(buf []byte, v interface{}) ([]byte, error) {
	p, ok := v.(*[]byte)
	if !ok {
		return nil, fmt.Errorf("intoBuf: %T is not *[]byte", v)
	}
	if cap(buf) >= len(*p) {
		buf = buf[:len(*p)]
		copy(buf, *p)
		return buf, nil
	}
	return append([]byte(nil), *p...), nil
}
func (intoBuf) Unmarshal(data []byte, v interface{}) error {
	p, ok := v.(*[]byte)
	if !ok {
		return fmt.Errorf("intoBuf: %T is not *[]byte", v)
	}
	*p = append((*p)[:0], data...)
	return nil
}

// scribbleEncoder is a header encoder that behaves as the one it wraps, except that its codec
// overwrites every buffer the pools would hand out before it encodes: whatever the library still
// needs must not be in a buffer it has already given back
type scribbleEncoder struct{ inner rpc.Encoder }

func (s scribbleEncoder) NewRequest() rpc.Request   { return s.inner.NewRequest() }
func (s scribbleEncoder) NewResponse() rpc.Response { return s.inner.NewResponse() }
func (s scribbleEncoder) NewCodec() rpc.Codec       { return scribbleCodec{s.inner.NewCodec()} }

type scribbleCodec struct{ inner rpc.Codec }

func scribblePools() {
	for _, n := range []int{512, 65536} {
		var got [][]byte
		for j := 0; j < 6; j++ {
			b := rpc.GetBuffer(n)
			b = b[:cap(b)]
			for i := range b {
				b[i] = 0xEE
			}
			got = append(got, b)
		}
		for _, b := range got {
			rpc.PutBuffer(b)
		}
	}
}
func (c scribbleCodec) Marshal(buf []byte, v interface{}) ([]byte, error) {
	scribblePools()
	return c.inner.Marshal(buf, v)
}
func (c scribbleCodec) Unmarshal(data []byte, v interface{}) error { return c.inner.Unmarshal(data, v) }

func runSysOne(e *Env, cfg sysCfg, record bool) (cases []string) {
	rng := e.Rng
	var rmu sync.Mutex
	sizes := func() int {
		rmu.Lock()
		defer rmu.Unlock()
		switch cfg.chunkMode {
		case 0:
			return 1 << 20 // everything available at once (batching)
		case 1:
			return 1 + rng.Intn(3) // drip
		case 2:
			return 1 + rng.Intn(70)
		}
		return 1 + rng.Intn(70000)
	}
	c2s, s2c := newChunkPipe(sizes), newChunkPipe(sizes)
	var chunks [][]byte
	if record {
		c2s.rec = &chunks
	}
	cliRW := &duplex{r: s2c, w: c2s}
	srvRW := &duplex{r: c2s, w: s2c}
	srvMsgs := &recMsgs{Messages: socket.NewMessages(srvRW, false)}
	cliMsgs := socket.NewMessages(cliRW, false)

	srv := rpc.NewServer()
	srv.SetLogLevel(rpc.OffLogLevel)
	srv.SetPipelining(cfg.srvPipe)
	srv.SetDirectIO(cfg.srvDirect)
	if cfg.bufSize > 0 {
		srv.SetBufferSize(cfg.bufSize)
	}
	log := &sysLog{seen: map[string]int{}}
	var dmu sync.Mutex
	delay := func() {
		dmu.Lock()
		k := rng.Intn(4)
		dmu.Unlock()
		for i := 0; i < k*3; i++ {
			runtime.Gosched()
		}
		if k == 3 {
			time.Sleep(time.Duration(50) * time.Microsecond)
		}
	}
	srv.RegisterName("Sys", &SysSvc{delay: delay, log: log})
	done := make(chan struct{})
	go func() {
		if cfg.scribble {
			srv.ServeCodec(rpc.NewServerCodec(intoBuf{}, scribbleEncoder{encoderOf(cfg.encoder)}, srvMsgs, cfg.srvDirect, cfg.bufSize))
		} else {
			srv.ServeCodec(rpc.NewServerCodec(&rpc.BYTESCodec{}, encoderOf(cfg.encoder), srvMsgs, cfg.srvDirect, cfg.bufSize))
		}
		close(done)
	}()
	var conn *rpc.Conn
	if cfg.scribble {
		conn = rpc.NewConnWithCodec(rpc.NewClientCodec(intoBuf{}, scribbleEncoder{encoderOf(cfg.encoder)}, cliMsgs, cfg.bufSize))
	} else {
		conn = rpc.NewConnWithCodec(rpc.NewClientCodec(&rpc.BYTESCodec{}, encoderOf(cfg.encoder), cliMsgs, cfg.bufSize))
	}
	if cfg.cliPipe {
		conn.SetPipelining(true)
	}
	if cfg.cliDirect {
		conn.SetDirectIO(true)
	}
	// (Conn.SetBufferSize is not used here: on a started connection it blocks until the next frame
	// arrives — see the C12 known finding; the client buffer size is given to NewClientCodec above)

	replay := map[string]interface{}{"config": fmt.Sprintf("%+v", cfg), "seed": e.Seed}
	var wg sync.WaitGroup
	var bad int32
	sizesPool := []int{0, 1, 5, 127, 128, 300, 16383, 16384, 65500, 65536, 65537, 70000, 140000, 300000}
	for g := 0; g < cfg.callers; g++ {
		wg.Add(1)
		go func(g int) {
			defer wg.Done()
			r := newLocalRng(e.Seed*1000 + int64(g))
			for i := 0; i < cfg.perCaller; i++ {
				n := sizesPool[r.Intn(len(sizesPool))]
				if record && n > 3000 {
					n = r.Intn(300)
				}
				args := make([]byte, n)
				r.Read(args)
				if n >= 4 {
					args[0], args[1], args[2], args[3] = byte(g), byte(i), byte(i>>8), 0x77
				}
				var res []byte
				var err error
				var call *rpc.Call
				switch (g + i) % 3 {
				case 0:
					// (Call is Go + wait; done here with a deadline so that a lost completion is reported, not waited for)
					call = conn.Go("Sys.Hash", &args, &res, make(chan *rpc.Call, 1))
				case 1:
					call = conn.Go("Sys.Hash", &args, &res, make(chan *rpc.Call, 1))
				default:
					call = &rpc.Call{ServiceMethod: "Sys.Hash", Args: &args, Reply: &res, Done: make(chan *rpc.Call, 1)}
					conn.RoundTrip(call)
				}
				select {
				case <-call.Done:
					err = call.Error
				case <-time.After(20 * time.Second):
					atomic.AddInt32(&bad, 1)
					e.fail("C01-call-never-completes", fmt.Sprintf("caller %d call %d (args %d bytes) on a healthy connection was not completed within 20s", g, i, n), replay)
					return
				}
				e.count("call-"+lenClass(n), fmt.Sprintf("%s-%v-%v-%v-%v-%d-%s", cfg.encoder, cfg.cliPipe, cfg.cliDirect, cfg.srvPipe, cfg.srvDirect, cfg.chunkMode, lenClass(n)))
				if err != nil {
					atomic.AddInt32(&bad, 1)
					e.fail("C01-call-failed", fmt.Sprintf("a call failed on a healthy connection: %v", err), replay)
					continue
				}
				if !bytes.Equal(res, expectedReply(args)) {
					atomic.AddInt32(&bad, 1)
					e.fail("C01-wrong-reply", fmt.Sprintf("caller %d call %d (args %d bytes): the reply is not the one computed from its own arguments (got %d bytes, %s)", g, i, n, len(res), short(res)), replay)
				}
			}
		}(g)
	}
	wg.Wait()
	// F11: a reused Call whose second reply is empty must not show the first reply again
	{
		a1, a2 := []byte("F"), []byte("E")
		var r1 []byte
		call := &rpc.Call{ServiceMethod: "Sys.Empty", Args: &a1, Reply: &r1, Done: make(chan *rpc.Call, 2)}
		waitCall := func() {
			select {
			case <-call.Done:
			case <-time.After(20 * time.Second):
				e.fail("C01-call-never-completes", "a call on a healthy connection was not completed within 20s", replay)
			}
		}
		conn.RoundTrip(call)
		waitCall()
		first := string(r1)
		call.Args = &a2
		r1 = nil
		conn.RoundTrip(call)
		waitCall()
		// and with fresh calls: an empty reply right after a full one
		var f1, f2 []byte
		c1 := conn.Go("Sys.Empty", &a1, &f1, make(chan *rpc.Call, 1))
		select {
		case <-c1.Done:
		case <-time.After(20 * time.Second):
		}
		c2 := conn.Go("Sys.Empty", &a2, &f2, make(chan *rpc.Call, 1))
		select {
		case <-c2.Done:
		case <-time.After(20 * time.Second):
		}
		// the same with ONE reply variable used for both calls: the empty reply replaces the full one
		var shared []byte
		for _, a := range []*[]byte{&a1, &a2} {
			cc := conn.Go("Sys.Empty", a, &shared, make(chan *rpc.Call, 1))
			select {
			case <-cc.Done:
			case <-time.After(20 * time.Second):
			}
		}
		if len(shared) != 0 {
			e.fail("C01-wrong-reply", fmt.Sprintf("a call whose handler returned an empty reply completed without error but the caller's reply variable still holds %q, the reply of the previous call made with that variable", shared), replay)
		}
		if c2.Error != nil || string(f1) != "full" || len(f2) != 0 {
			e.fail("C01-wrong-reply", fmt.Sprintf("a call whose handler returned an empty reply got %q (err=%v) right after a call that got %q", f2, c2.Error, f1), replay)
		}
		if call.Error != nil || first != "full" || len(r1) != 0 {
			e.fail("C01-stale-reply-on-reused-call", fmt.Sprintf("reused Call: first reply %q, second (empty) reply arrived as %q err=%v", first, r1, call.Error), replay)
		}
		e.count("reused-call", "reused-"+cfg.encoder)
	}
	conn.Close()
	cliRW.Close()
	select {
	case <-done:
	case <-time.After(10 * time.Second):
		e.fail("C20-servecodec-does-not-return", "ServeCodec did not return after the client closed", replay)
	}
	if record {
		srvMsgs.mu.Lock()
		frames := srvMsgs.frames
		srvMsgs.mu.Unlock()
		var cs, fs []string
		total := 0
		for _, c := range chunks {
			cs = append(cs, bspec(c))
			total += len(c)
		}
		for _, f := range frames {
			fs = append(fs, bspec(f))
		}
		if len(chunks) > 0 && len(chunks) < 3000 && total < 60000 {
			cases = append(cases, fmt.Sprintf("FrameDec [%s] [%s]", strings.Join(cs, "; "), strings.Join(fs, "; ")))
		}
	}
	return
}

func runSys(work, prop string) {
	e := newEnv(prop, "sys", work)
	defer e.finish()
	var cases []string
	encs := []string{"", "pb", "code", "json"}
	n := 96
	if e.thorough() {
		n = 1200
	}
	for i := 0; i < n; i++ {
		cfg := sysCfg{encoder: encs[i%4], cliPipe: i%5 == 1, cliDirect: i%3 == 1, srvPipe: i%4 == 2 || i%5 == 1, srvDirect: i%7 == 3,
			bufSize: []int{0, 512, 65536, 1 << 20}[(i/4)%4], chunkMode: i % 4, callers: 1 + i%6, perCaller: 6 + i%5}
		record := i%3 == 0
		if !record && i%4 != 0 && i%8 >= 4 {
			// (never with the default header path, which has no header codec of the user's)
			cfg.scribble = true
		}
		if record {
			cfg.callers, cfg.perCaller = 2, 5
		}
		cs := runSysOne(e, cfg, record)
		cases = append(cases, cs...)
		if len(e.Res.Samples) < 4 {
			e.sample(map[string]interface{}{"config": fmt.Sprintf("%+v", cfg)})
		}
	}
	sysRealSockets(e)
	argsDuringHandler(e)
	e.Res.Rule = "end-to-end: real Conn and real Server over a byte pipe delivering arbitrary chunks (all at once / 1-3 bytes / <=70 bytes / <=70000 bytes) through the real socket.Messages framing; header encoders default/pb/code/json; client pipelining/directIO, server pipelining/directIO; buffer sizes 0/512/64K/1M; 1-6 concurrent callers using Call/Go/RoundTrip; payloads 0..300000 bytes around the 64K boundaries; handlers finish out of order; every reply compared with the reply computed from the call's own arguments; plus real unix/tcp sockets; the chunkings seen on the wire are replayed on the Coq framing model; non-trivial = distinct (encoder, modes, chunk mode, payload class)"
	names := writeCases(work, "From RPC Require Import RunWire.", "wcase", cases, 8)
	e.Res.ModelCases = len(cases)
	e.Res.Extra["case_files"] = names
}

// real sockets: unix and tcp, default codec path via Dial/Listen
func sysRealSockets(e *Env) {
	dir, _ := os.MkdirTemp(e.Work, "sock")
	defer os.RemoveAll(dir)
	for k, network := range []string{"unix", "tcp"} {
		addr := filepath.Join(dir, "s.sock")
		if network == "tcp" {
			addr = "127.0.0.1:0"
		}
		srv := rpc.NewServer()
		srv.SetLogLevel(rpc.OffLogLevel)
		srv.SetPipelining(k == 1)
		log := &sysLog{seen: map[string]int{}}
		srv.RegisterName("Sys", &SysSvc{delay: func() { runtime.Gosched() }, log: log})
		if network == "tcp" {
			// pick a free port
			addr = fmt.Sprintf("127.0.0.1:%d", 20000+int(e.Seed%1000)*7+os.Getpid()%5000)
		}
		errc := make(chan error, 1)
		go func() { errc <- srv.Listen(network, addr, "bytes") }()
		rpc.RegisterCodec("bytes", func() rpc.Codec { return &rpc.BYTESCodec{} })
		var conn *rpc.Conn
		var err error
		for try := 0; try < 200; try++ {
			conn, err = rpc.Dial(network, addr, "bytes")
			if err == nil {
				break
			}
			time.Sleep(5 * time.Millisecond)
		}
		if err != nil {
			e.Res.Extra["real-socket-"+network] = "skipped: " + err.Error()
			srv.Close()
			continue
		}
		var wg sync.WaitGroup
		for g := 0; g < 4; g++ {
			wg.Add(1)
			go func(g int) {
				defer wg.Done()
				r := newLocalRng(e.Seed*77 + int64(g))
				for i := 0; i < 25; i++ {
					n := []int{0, 3, 200, 65530, 65536, 70000, 200000}[r.Intn(7)]
					args := make([]byte, n)
					r.Read(args)
					var res []byte
					if err := conn.Call("Sys.Hash", &args, &res); err != nil {
						e.fail("C01-call-failed", fmt.Sprintf("%s: call failed: %v", network, err), nil)
					} else if !bytes.Equal(res, expectedReply(args)) {
						e.fail("C01-wrong-reply", fmt.Sprintf("%s socket: reply not computed from the call's own arguments (%d bytes)", network, n), nil)
					}
					e.count("real-"+network, fmt.Sprintf("real-%s-%s", network, lenClass(n)))
				}
			}(g)
		}
		wg.Wait()
		conn.Close()
		srv.Close()
		select {
		case <-errc:
		case <-time.After(5 * time.Second):
			e.fail("C20-listen-does-not-return", network+": Listen did not return after Server.Close", nil)
		}
	}
}
