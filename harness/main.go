// harness drives the real hslam/rpc code (built from /repo's working tree
// with -tags verif) and records what it observably does, for comparison
// with the Coq model and for the property oracles.
package main

import (
	"fmt"
	"os"
)

var commands = map[string]func(work string){}

func main() {
	if len(os.Args) < 3 {
		fmt.Fprintln(os.Stderr, "usage: harness <command> <workdir>")
		os.Exit(2)
	}
	f, ok := commands[os.Args[1]]
	if !ok {
		fmt.Fprintln(os.Stderr, "unknown command", os.Args[1])
		os.Exit(2)
	}
	f(os.Args[2])
}
