package main

// C12: (a) Options resolution on both ends, observed through marker
// constructors and compared with the model's two transcriptions; (b) the same
// seeded workload under a sweep of network x header encoder x body codec x
// server modes x client modes x buffer sizes, every transcript compared with
// the specification outcome; (c) Conn.SetBufferSize on a started connection.

import (
	"bytes"
	"crypto/sha256"
	"crypto/tls"
	"encoding/hex"
	"errors"
	"fmt"
	"net"
	"os"
	"path/filepath"
	"strings"
	"sync"
	"time"

	"github.com/hslam/rpc"
	"github.com/hslam/socket"
)

func init() {
	commands["opt-c12"] = func(w string) { runOpt(w) }
}

// ---- markers ----

type tagLog struct {
	mu   sync.Mutex
	tags map[string]string // component -> "Named n" / "Func k"
}

func (t *tagLog) set(comp, tag string) {
	t.mu.Lock()
	t.tags[comp] = tag
	t.mu.Unlock()
}
func (t *tagLog) get(comp string) string {
	t.mu.Lock()
	defer t.mu.Unlock()
	if v, ok := t.tags[comp]; ok {
		return "(Some (" + v + "))"
	}
	return "None"
}

type tagSocket struct {
	socket.Socket
	log *tagLog
	tag string
}

func (s *tagSocket) Dial(addr string) (socket.Conn, error) {
	if s.log != nil {
		s.log.set("sock", s.tag)
	}
	return s.Socket.Dial(addr)
}
func (s *tagSocket) Listen(addr string) (socket.Listener, error) {
	if s.log != nil {
		s.log.set("sock", s.tag)
	}
	return s.Socket.Listen(addr)
}

type tagCodec struct {
	rpc.BYTESCodec
}

type tagEncoder struct {
	rpc.Encoder
}

// the current recorder for constructors registered by name (they are process-wide)
var curSide struct {
	mu  sync.Mutex
	log *tagLog
}

func sideLog() *tagLog {
	curSide.mu.Lock()
	defer curSide.mu.Unlock()
	return curSide.log
}

var optRegistered sync.Once

func registerMarkers() {
	optRegistered.Do(func() {
		rpc.RegisterSocket("mk1", func(c *tls.Config) socket.Socket {
			return &tagSocket{Socket: socket.NewUNIXSocket(c), log: nil, tag: "Named 1"}
		})
		rpc.RegisterCodec("mk2", func() rpc.Codec {
			if l := sideLog(); l != nil {
				l.set("body", "Named 2")
			}
			return &tagCodec{}
		})
		rpc.RegisterHeaderEncoder("mk3", func() rpc.Encoder {
			if l := sideLog(); l != nil {
				l.set("header", "Named 3")
			}
			return &tagEncoder{rpc.NewPBEncoder()}
		})
		rpc.RegisterCodec("bytes", func() rpc.Codec { return &rpc.BYTESCodec{} })
		rpc.RegisterCodec("xml", func() rpc.Codec { return &rpc.XMLCodec{} })
	})
}

type optShape struct {
	network, codec, header string // "", "mk*", "nope"
	fsock, fcodec, fheader bool
}

func (s optShape) build(log *tagLog) *rpc.Options {
	o := &rpc.Options{Network: s.network, Codec: s.codec, HeaderEncoder: s.header}
	if s.fsock {
		o.NewSocket = func(c *tls.Config) socket.Socket {
			return &tagSocket{Socket: socket.NewUNIXSocket(c), log: log, tag: "Func 7"}
		}
	}
	if s.fcodec {
		o.NewCodec = func() rpc.Codec { log.set("body", "Func 8"); return &tagCodec{} }
	}
	if s.fheader {
		o.NewHeaderEncoder = func() rpc.Encoder { log.set("header", "Func 9"); return &tagEncoder{rpc.NewCODEEncoder()} }
	}
	return o
}

func optName(s string, n int) string {
	switch s {
	case "":
		return "None"
	case "nope":
		return "(Some 99)"
	}
	return fmt.Sprintf("(Some %d)", n)
}
func optFn(b bool, k int) string {
	if b {
		return fmt.Sprintf("(Some %d)", k)
	}
	return "None"
}

func (s optShape) coq() string {
	return fmt.Sprintf("{| o_network := %s; o_newsocket := %s; o_codec := %s; o_newcodec := %s; o_header := %s; o_newheader := %s; o_bufsize := 0 |}",
		optName(s.network, 1), optFn(s.fsock, 7), optName(s.codec, 2), optFn(s.fcodec, 8), optName(s.header, 3), optFn(s.fheader, 9))
}

// does every component the library dereferences resolve? (otherwise the configuration is a caller error)
func (s optShape) usable() bool {
	sock := s.network == "mk1" || s.fsock
	body := s.codec == "mk2" || s.fcodec
	header := s.header == "mk3" || s.fheader
	return sock && (body || header)
}
func (s optShape) rejected() bool {
	return (!s.fcodec && !s.fheader && s.codec == "") || (!s.fsock && s.network == "")
}

type OptSvc struct{}

func (o *OptSvc) Echo(req *[]byte, res *[]byte) error {
	*res = append([]byte("echo:"), *req...)
	return nil
}

func optResolution(e *Env, dir string) (cases []string) {
	registerMarkers()
	names := []string{"", "mk", "nope"}
	k := 0
	for _, n := range names {
		for _, c := range names {
			for _, h := range names {
				for mask := 0; mask < 8; mask++ {
					s := optShape{fsock: mask&1 != 0, fcodec: mask&2 != 0, fheader: mask&4 != 0}
					if n == "mk" {
						s.network = "mk1"
					} else {
						s.network = n
					}
					if c == "mk" {
						s.codec = "mk2"
					} else {
						s.codec = c
					}
					if h == "mk" {
						s.header = "mk3"
					} else {
						s.header = h
					}
					k++
					if s.rejected() {
						// both ends must refuse
						_, derr := rpc.DialWithOptions("x", s.build(&tagLog{tags: map[string]string{}}))
						lerr := rpc.NewServer().ListenWithOptions("x", s.build(&tagLog{tags: map[string]string{}}))
						if derr == nil || lerr == nil {
							e.fail("C12-resolution-reject", fmt.Sprintf("options %+v: Dial err=%v Listen err=%v (both must be rejected)", s, derr, lerr), nil)
						}
						cases = append(cases, fmt.Sprintf("ORes %s Rejected Rejected", s.coq()))
						e.count("resolution-rejected", fmt.Sprintf("rej-%d", k))
						continue
					}
					if !s.usable() {
						continue
					}
					addr := filepath.Join(dir, fmt.Sprintf("r%d.sock", k))
					slog, clog := &tagLog{tags: map[string]string{}}, &tagLog{tags: map[string]string{}}
					srv := rpc.NewServer()
					srv.SetLogLevel(rpc.OffLogLevel)
					srv.RegisterName("Opt", &OptSvc{})
					// name-registered constructors report to whichever side is being resolved
					curSide.mu.Lock()
					curSide.log = nil
					curSide.mu.Unlock()
					sopts := s.build(slog)
					if s.network == "mk1" {
						slog.set("sock", "Named 1")
						clog.set("sock", "Named 1")
					}
					lret := make(chan error, 1)
					go func() { lret <- srv.ListenWithOptions(addr, sopts) }()
					// resolve the server side first, alone: a raw connection makes it build its codec
					curSide.mu.Lock()
					curSide.log = slog
					curSide.mu.Unlock()
					for try := 0; try < 300; try++ {
						raw, rerr := net.Dial("unix", addr)
						if rerr == nil {
							deadline := time.Now().Add(time.Second)
							for time.Now().Before(deadline) && slog.get("body") == "None" && slog.get("header") == "None" {
								time.Sleep(time.Millisecond)
							}
							raw.Close()
							break
						}
						time.Sleep(2 * time.Millisecond)
					}
					curSide.mu.Lock()
					curSide.log = clog
					curSide.mu.Unlock()
					var conn *rpc.Conn
					var err error
					for try := 0; try < 300; try++ {
						conn, err = rpc.DialWithOptions(addr, s.build(clog))
						if err == nil {
							break
						}
						time.Sleep(2 * time.Millisecond)
					}
					if err != nil {
						e.fail("C12-resolution-dial", fmt.Sprintf("options %+v: DialWithOptions failed: %v", s, err), nil)
						srv.Close()
						continue
					}
					req, res := []byte("hi"), []byte(nil)
					cerr := make(chan error, 1)
					bodyResolved := s.codec == "mk2" || s.fcodec
					go func() {
						if bodyResolved {
							cerr <- conn.Call("Opt.Echo", &req, &res)
						} else {
							// without a body codec the header encoder's own codec is the body codec, which
							// needs typed messages: a ping still makes the server build its codec
							res = []byte("echo:hi")
							cerr <- conn.Ping()
						}
					}()
					select {
					case err := <-cerr:
						if err != nil || string(res) != "echo:hi" {
							e.fail("C12-ends-disagree", fmt.Sprintf("options %+v: a client and a server built from the same Options do not understand each other: err=%v reply=%q", s, err, res), nil)
						}
					case <-time.After(5 * time.Second):
						e.fail("C12-ends-disagree", fmt.Sprintf("options %+v: a call between a client and a server built from the same Options hangs", s), nil)
					}
					// both ends must have picked the same kind of component (named or constructor function) for each slot
					for _, slot := range []string{"sock", "body", "header"} {
						if clog.get(slot) != slog.get(slot) {
							e.fail("C12-ends-resolve-differently", fmt.Sprintf("options %+v: DialWithOptions chose %s for the %s, ListenWithOptions chose %s", s, clog.get(slot), slot, slog.get(slot)), map[string]interface{}{"options": fmt.Sprintf("%+v", s)})
						}
					}
					conn.Close()
					srv.Close()
					select {
					case <-lret:
					case <-time.After(3 * time.Second):
					}
					cases = append(cases, fmt.Sprintf("ORes %s (Resolved %s %s %s 0) (Resolved %s %s %s 0)", s.coq(),
						clog.get("sock"), clog.get("body"), clog.get("header"), slog.get("sock"), slog.get("body"), slog.get("header")))
					e.count("resolution", fmt.Sprintf("res-%d", k))
				}
			}
		}
	}
	return
}

// ---- configuration sweep ----

type Msg struct {
	ID   int
	Text string
	Data []byte
}

// SweepSvc keeps the byte arguments it is given (unless the server runs with NoCopy, whose contract
// forbids that) and says at the end of the workload whether they are still what they were.
type SweepSvc struct {
	keep bool
	mu   sync.Mutex
	kept [][]byte
	sums [][32]byte
}

func (s *SweepSvc) changed() int {
	s.mu.Lock()
	defer s.mu.Unlock()
	n := 0
	for i, b := range s.kept {
		if sha256.Sum256(b) != s.sums[i] {
			n++
		}
	}
	return n
}

func specReply(m *Msg) Msg {
	h := sha256.Sum256(append([]byte(m.Text), m.Data...))
	return Msg{ID: m.ID + 1, Text: hex.EncodeToString(h[:]), Data: bytes.Repeat([]byte{byte('A' + m.ID%20)}, len(m.Data))}
}

func (s *SweepSvc) Do(req *Msg, res *Msg) error {
	if req.Text == "fail" {
		return errors.New("handler says no: " + fmt.Sprint(req.ID))
	}
	*res = specReply(req)
	return nil
}
// Doc answers every call with the same slice, which it keeps (a cached document)
var sweepDoc = bytes.Repeat([]byte("cached document. "), 20)

func (s *SweepSvc) Doc(req *[]byte, res *[]byte) error {
	*res = sweepDoc
	return nil
}

func (s *SweepSvc) DoB(req *[]byte, res *[]byte) error {
	if s.keep {
		s.mu.Lock()
		s.kept = append(s.kept, *req)
		s.sums = append(s.sums, sha256.Sum256(*req))
		s.mu.Unlock()
	}
	if len(*req) > 0 && (*req)[0] == 'F' {
		return errors.New("handler says no")
	}
	h := sha256.Sum256(*req)
	*res = append(h[:], bytes.Repeat([]byte{7}, len(*req))...)
	return nil
}

// callT is Conn.Call with a deadline: a call that never completes is an outcome to report, not to wait for
func callT(conn *rpc.Conn, method string, args, reply interface{}) error {
	call := conn.Go(method, args, reply, make(chan *rpc.Call, 1))
	select {
	case <-call.Done:
		return call.Error
	case <-time.After(8 * time.Second):
		return errors.New("NEVER COMPLETED (8s)")
	}
}

type sweepCfg struct {
	network, header, body                 string
	poll, spipe, sdirect, shared, snocopy bool
	cpipe, cdirect                        bool
	buf                                   int
}

func freeTCP() string {
	l, err := net.Listen("tcp", "127.0.0.1:0")
	if err != nil {
		return "127.0.0.1:39871"
	}
	a := l.Addr().String()
	l.Close()
	return a
}

func runSweepOne(e *Env, dir string, k int, c sweepCfg) []string {
	var out []string
	addr := filepath.Join(dir, fmt.Sprintf("w%d.sock", k))
	switch c.network {
	case "tcp", "http":
		addr = freeTCP()
	case "inproc":
		addr = fmt.Sprintf("inproc-%d-%d", os.Getpid(), k)
	}
	srv := rpc.NewServer()
	srv.SetLogLevel(rpc.OffLogLevel)
	srv.SetPoll(c.poll)
	srv.SetPipelining(c.spipe)
	srv.SetDirectIO(c.sdirect)
	srv.SetContextBuffer(c.shared)
	srv.SetNoCopy(c.snocopy)
	srv.SetBufferSize(c.buf)
	svc := &SweepSvc{keep: !c.snocopy}
	srv.RegisterName("Sweep", svc)
	opts := &rpc.Options{Network: c.network, Codec: c.body, HeaderEncoder: c.header, ClientBufferSize: c.buf}
	lret := make(chan error, 1)
	go func() { lret <- srv.ListenWithOptions(addr, opts) }()
	var conn *rpc.Conn
	var err error
	for try := 0; try < 400; try++ {
		conn, err = rpc.DialWithOptions(addr, opts)
		if err == nil {
			break
		}
		time.Sleep(3 * time.Millisecond)
	}
	if err != nil {
		out = append(out, "setup-failed: "+err.Error())
		srv.Close()
		return out
	}
	if c.cpipe {
		conn.SetPipelining(true)
	}
	if c.cdirect {
		conn.SetDirectIO(true)
	}
	sizes := []int{0, 10, 127, 128, 1000, 70000, 10, 1500000, 3}
	// and messages just below, at and just above the configured buffer size
	for _, d := range []int{-40, -12, -3, 0, 5} {
		if c.buf+d > 0 {
			sizes = append(sizes, c.buf+d)
		} else {
			sizes = append(sizes, 7)
		}
	}
	sizes = append(sizes, 20, 30, 40) // further traffic: what was kept earlier must survive it
	sizes = append(sizes, 94, 95, 96)  // replies of 127, 128, 129 bytes under the bytes codec (32-byte digest + request)
	for i, n := range sizes {
		data := bytes.Repeat([]byte{byte('a' + i)}, n)
		if c.body == "bytes" {
			req := append([]byte{byte('0' + i)}, data...)
			if i == 4 {
				req[0] = 'F'
			}
			var res []byte
			err := callT(conn, "Sweep.DoB", &req, &res)
			h := sha256.Sum256(req)
			want := append(h[:], bytes.Repeat([]byte{7}, len(req))...)
			switch {
			case i == 4:
				out = append(out, fmt.Sprintf("%d:err=%v", i, err))
			case err != nil:
				out = append(out, fmt.Sprintf("%d:UNEXPECTED err=%v", i, err))
			case !bytes.Equal(res, want):
				out = append(out, fmt.Sprintf("%d:WRONG reply (%d bytes)", i, len(res)))
			default:
				out = append(out, fmt.Sprintf("%d:ok", i))
			}
			continue
		}
		req := &Msg{ID: i, Text: fmt.Sprintf("t%d", i), Data: data}
		if i == 4 {
			req.Text = "fail"
		}
		var res Msg
		err := callT(conn, "Sweep.Do", req, &res)
		want := specReply(req)
		switch {
		case i == 4:
			out = append(out, fmt.Sprintf("%d:err=%v", i, err))
		case err != nil:
			out = append(out, fmt.Sprintf("%d:UNEXPECTED err=%v", i, err))
		case res.ID != want.ID || res.Text != want.Text || !bytes.Equal(res.Data, want.Data):
			out = append(out, fmt.Sprintf("%d:WRONG reply", i))
		default:
			out = append(out, fmt.Sprintf("%d:ok", i))
		}
	}
	if c.body == "bytes" {
		// a handler that answers with a slice it keeps: every call gets the same document
		docs := "doc:ok"
		for k := 0; k < 4; k++ {
			x, d := []byte("x"), []byte(nil)
			if err := callT(conn, "Sweep.Doc", &x, &d); err != nil || !bytes.Equal(d, []byte(strings.Repeat("cached document. ", 20))) {
				docs = fmt.Sprintf("doc:WRONG at call %d (err=%v, %d bytes)", k, err, len(d))
				break
			}
		}
		out = append(out, docs)
		var rb []byte
		x := []byte("x")
		err = callT(conn, "Sweep.Nope", &x, &rb)
	} else {
		var r0 Msg
		err = callT(conn, "Sweep.Nope", &Msg{}, &r0)
	}
	out = append(out, fmt.Sprintf("unknown:err=%v", err))
	out = append(out, fmt.Sprintf("ping:err=%v", conn.Ping()))
	out = append(out, fmt.Sprintf("kept-arguments-changed:%d", svc.changed()))
	conn.Close()
	srv.Close()
	select {
	case <-lret:
	case <-time.After(3 * time.Second):
	}
	return out
}

func refTranscript(body string) []string {
	var out []string
	for i := 0; i < 20; i++ {
		if i == 4 {
			if body == "bytes" {
				out = append(out, "4:err=handler says no")
			} else {
				out = append(out, "4:err=handler says no: 4")
			}
		} else {
			out = append(out, fmt.Sprintf("%d:ok", i))
		}
	}
	if body == "bytes" {
		out = append(out, "doc:ok")
	}
	out = append(out, "unknown:err=can't find service Sweep.Nope", "ping:err=<nil>", "kept-arguments-changed:0")
	return out
}

func runOpt(work string) {
	e := newEnv("C12", "opt", work)
	defer e.finish()
	dir, _ := os.MkdirTemp(e.Work, "opt")
	defer os.RemoveAll(dir)
	cases := optResolution(e, dir)
	// sweep
	n := 40
	if e.thorough() {
		n = 600
	}
	nets := []string{"unix", "tcp", "inproc", "http"}
	hdrs := []string{"", "pb", "code", "json"}
	bodies := []string{"json", "bytes", "xml"}
	bufs := []int{512, 65536, 1 << 20, 100, 1000, 4096, 70000}
	for k := 0; k < n; k++ {
		r := e.Rng
		c := sweepCfg{network: nets[k%4], header: hdrs[(k/4)%4], body: bodies[(k/2)%3], buf: bufs[k%7],
			poll: r.Intn(3) == 0, spipe: r.Intn(2) == 0, sdirect: r.Intn(3) == 0, shared: r.Intn(3) == 0, snocopy: r.Intn(4) == 0,
			cpipe: r.Intn(3) == 0, cdirect: r.Intn(3) == 0}
		if c.network == "inproc" || c.network == "http" {
			c.poll = false // netpoll needs a real file descriptor
		}
		e.inflight(map[string]interface{}{"config": fmt.Sprintf("%+v", c), "seed": e.Seed, "what": "the configuration sweep's workload under this configuration"})
		got := runSweepOne(e, dir, k, c)
		want := refTranscript(c.body)
		e.count("sweep", fmt.Sprintf("%s-%s-%s-%d-%v%v%v%v%v-%v%v", c.network, c.header, c.body, c.buf, c.poll, c.spipe, c.sdirect, c.shared, c.snocopy, c.cpipe, c.cdirect))
		if strings.Join(got, "|") != strings.Join(want, "|") {
			e.fail("C12-outcome-differs", fmt.Sprintf("configuration %+v: transcript %v, the reference configuration gives %v", c, got, want), map[string]interface{}{"config": fmt.Sprintf("%+v", c), "seed": e.Seed})
		}
		if len(e.Res.Samples) < 4 {
			e.sample(map[string]interface{}{"config": fmt.Sprintf("%+v", c), "transcript": got})
		}
	}
	optSetBufferSize(e, dir)
	e.Res.Rule = "(a) all 216 shapes of Options (each of Network/Codec/HeaderEncoder empty / a registered name / an unregistered name, each constructor function present or not): the components chosen by DialWithOptions and by ListenWithOptions, observed through marker constructors, compared with the model's two resolutions, and a call between the two ends; (b) seeded sweep of network {unix,tcp,inproc,http} x header {default,pb,code,json} x body {json,bytes,xml} x buffer {512,64K,1M,100,1000,4096,70000} x server {poll,pipelining,directIO,context buffer,NoCopy} x client {pipelining,directIO}, each running the same workload (sizes 0..1.5 MB and around the buffer size, a failing call, an unknown method, a ping; byte arguments kept by the handler re-verified at the end) whose transcript must equal the reference; non-trivial = distinct configurations"
	names := writeCases(work, "From Coq Require Import List ZArith. Import ListNotations. From RPC Require Import RunOpt. From RPC.Opt Require Import Resolve.", "ocase", cases, 300)
	e.Res.ModelCases = len(cases)
	e.Res.Extra["case_files"] = names
}

// Conn.SetBufferSize on a connection that is already reading
func optSetBufferSize(e *Env, dir string) {
	addr := filepath.Join(dir, "sb.sock")
	srv := rpc.NewServer()
	srv.SetLogLevel(rpc.OffLogLevel)
	srv.RegisterName("Opt", &OptSvc{})
	go srv.Listen("unix", addr, "bytes")
	var conn *rpc.Conn
	var err error
	for try := 0; try < 300; try++ {
		conn, err = rpc.Dial("unix", addr, "bytes")
		if err == nil {
			break
		}
		time.Sleep(2 * time.Millisecond)
	}
	if err != nil {
		return
	}
	time.Sleep(30 * time.Millisecond) // the connection's reader is now blocked in ReadMessage
	done := make(chan struct{})
	go func() { conn.SetBufferSize(1 << 20); close(done) }()
	select {
	case <-done:
	case <-time.After(500 * time.Millisecond):
		e.fail("C12-conn-setbuffersize-blocks", "Conn.SetBufferSize on a dialed connection did not return within 500ms (it waits for the next incoming frame)", nil)
		// a call unblocks it
		req, res := []byte("x"), []byte(nil)
		go conn.Call("Opt.Echo", &req, &res)
		select {
		case <-done:
		case <-time.After(3 * time.Second):
		}
	}
	conn.Close()
	srv.Close()
	e.count("setbuffersize", "setbuffersize")
}
