package main

// C05 over real sockets, several connections at once: a pipelining server
// (poll mode or not, direct I/O or not) serves a few connections that each
// issue a burst of asynchronous calls with a slow first call, while other
// connections come, ping and go.  Per connection: handlers run one at a
// time in issue order, and a pipelining client sees the completions in
// issue order on one shared Done channel; what other connections do
// (including their disconnection) changes nothing.

import (
	"fmt"
	"os"
	"path/filepath"
	"sync"
	"time"

	"github.com/hslam/rpc"
)

type ordEvent struct {
	conn, idx int
	start     bool
}

type OrdSvc struct {
	mu  sync.Mutex
	log []ordEvent
}

// Do: req = [conn, idx, sleep in 100us units]
func (o *OrdSvc) Do(req *[]byte, res *[]byte) error {
	r := *req
	o.mu.Lock()
	o.log = append(o.log, ordEvent{int(r[0]), int(r[1]), true})
	o.mu.Unlock()
	time.Sleep(time.Duration(r[2]) * 100 * time.Microsecond)
	o.mu.Lock()
	o.log = append(o.log, ordEvent{int(r[0]), int(r[1]), false})
	o.mu.Unlock()
	*res = []byte{r[0], r[1]}
	if r[1]%5 == 4 {
		return fmt.Errorf("fail-%d-%d", r[0], r[1])
	}
	return nil
}

func pollOrder(e *Env) {
	rounds := 2
	if e.thorough() {
		rounds = 12
	}
	rpc.RegisterCodec("bytes", func() rpc.Codec { return &rpc.BYTESCodec{} })
	for round := 0; round < rounds; round++ {
		for mode := 0; mode < 4; mode++ {
			poll, direct := mode&1 == 1, mode&2 == 2
			desc := map[string]interface{}{"poll": poll, "server_directIO": direct, "round": round, "seed": e.Seed, "scenario": "several pipelining connections, slow first call, other connections come and go"}
			dir, _ := os.MkdirTemp(e.Work, "ord")
			addr := filepath.Join(dir, "o.sock")
			svc := &OrdSvc{}
			srv := rpc.NewServer()
			srv.SetLogLevel(rpc.OffLogLevel)
			srv.SetPoll(poll)
			srv.SetPipelining(true)
			srv.SetDirectIO(direct)
			srv.RegisterName("Ord", svc)
			go srv.Listen("unix", addr, "bytes")
			dial := func() *rpc.Conn {
				for try := 0; try < 400; try++ {
					c, err := rpc.Dial("unix", addr, "bytes")
					if err == nil {
						return c
					}
					time.Sleep(5 * time.Millisecond)
				}
				return nil
			}
			nconn := 2 + (round+mode)%3
			ncalls := 6 + e.Rng.Intn(5)
			var wg sync.WaitGroup
			var fmu sync.Mutex
			failed := map[string]bool{}
			fail := func(sig, what string) {
				fmu.Lock()
				defer fmu.Unlock()
				if !failed[sig] {
					failed[sig] = true
					e.fail(sig, what, desc)
				}
			}
			first := dial()
			if first == nil {
				e.Res.Extra["pollorder"] = "skipped: cannot dial the unix socket"
				srv.Close()
				os.RemoveAll(dir)
				return
			}
			// first is kept open: until the churn below starts, no connection of this listener has ended
			stopChurn := make(chan struct{})
			var cwg sync.WaitGroup
			cwg.Add(1)
			go func() { // the connections that come and go
				defer cwg.Done()
				time.Sleep(3 * time.Millisecond) // the first disconnection happens while the others have a backlog
				for k := 0; ; k++ {
					select {
					case <-stopChurn:
						return
					default:
					}
					c := dial()
					if c == nil {
						return
					}
					c.Ping()
					if k%2 == 1 {
						req, res := []byte{200, byte(k), 0}, []byte(nil)
						c.Call("Ord.Do", &req, &res)
					}
					c.Close()
					time.Sleep(300 * time.Microsecond)
				}
			}()
			for ci := 0; ci < nconn; ci++ {
				wg.Add(1)
				go func(ci int) {
					defer wg.Done()
					c := dial()
					if c == nil {
						fail("C05-dial-failed", "cannot dial the server")
						return
					}
					defer c.Close()
					c.SetPipelining(true)
					done := make(chan *rpc.Call, ncalls)
					reqs := make([][]byte, ncalls)
					calls := make([]*rpc.Call, ncalls)
					for k := 0; k < ncalls; k++ {
						sl := byte(2)
						if k == 0 {
							sl = 120 // 12 ms: a backlog builds up behind the first call
						}
						reqs[k] = []byte{byte(ci), byte(k), sl}
						calls[k] = c.Go("Ord.Do", &reqs[k], new([]byte), done)
					}
					var got []int
					for k := 0; k < ncalls; k++ {
						select {
						case call := <-done:
							idx := -1
							for j := range calls {
								if calls[j] == call {
									idx = j
								}
							}
							got = append(got, idx)
							wantErr := ""
							if idx%5 == 4 {
								wantErr = fmt.Sprintf("fail-%d-%d", ci, idx)
							}
							gotErr := ""
							if call.Error != nil {
								gotErr = call.Error.Error()
							}
							if gotErr != wantErr {
								fail("C05-other-connection-disturbs", fmt.Sprintf("connection %d call %d ended with error %q, want %q, while other connections came and went", ci, idx, gotErr, wantErr))
							}
						case <-time.After(20 * time.Second):
							fail("C05-call-stuck", fmt.Sprintf("connection %d: only %d of %d pipelined calls completed within 20s", ci, len(got), ncalls))
							return
						}
					}
					for k := range got {
						if got[k] != k {
							fail("C05-client-completion-order", fmt.Sprintf("connection %d (client and server pipelining): calls issued in order 0..%d were signalled complete in order %v", ci, ncalls-1, got))
							break
						}
					}
				}(ci)
			}
			wg.Wait()
			close(stopChurn)
			cwg.Wait()
			first.Close()
			srv.Close()
			os.RemoveAll(dir)
			// per-connection execution order and overlap
			svc.mu.Lock()
			log := append([]ordEvent(nil), svc.log...)
			svc.mu.Unlock()
			if os_getenv("VERIF_DEBUG") != "" {
				fmt.Fprintf(os.Stderr, "pollOrder %v: %v\n", desc, log)
			}
			for ci := 0; ci < nconn; ci++ {
				running, next := -1, 0
				var order []int
				for _, ev := range log {
					if ev.conn != ci {
						continue
					}
					if ev.start {
						order = append(order, ev.idx)
						if running >= 0 {
							fail("C05-handlers-overlap", fmt.Sprintf("connection %d: handler of call %d started while the handler of call %d was still running (other connections came and went meanwhile)", ci, ev.idx, running))
						}
						if ev.idx != next {
							fail("C05-execution-order", fmt.Sprintf("connection %d: handlers started in order %v, calls were issued in order 0..%d", ci, order, ncalls-1))
						}
						next = ev.idx + 1
						running = ev.idx
					} else if ev.idx == running {
						running = -1
					}
				}
			}
			e.count("multi-conn", fmt.Sprintf("mc-%v-%v-%d-%d", poll, direct, nconn, ncalls))
			if len(e.Res.Samples) < 8 {
				e.sample(desc)
			}
		}
	}
}
