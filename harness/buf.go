package main

// C11: data handed to user code is never mutated afterwards.  Handlers and
// callers retain every value they are given (request arguments, replies,
// stream messages, error texts) together with a digest; then traffic sized
// into the same pool classes churns the buffer pools; then the digests are
// re-verified and the pools are fished for buffers that alias a retained
// value.  Caller-supplied context buffers carry a canary beyond the reply.

import (
	"bytes"
	"context"
	"crypto/sha256"
	"fmt"
	"runtime"
	"sync"
	"time"
	"unsafe"

	"github.com/hslam/rpc"
	"github.com/hslam/socket"
)

func init() {
	commands["buf-c11"] = func(w string) { runBuf(w, "C11") }
	commands["buf-c19"] = func(w string) { runBuf(w, "C19") }
}

// Blob is a structured argument whose decoder keeps a view of its input (as the code codec and protobuf
// byte fields do).
type Blob struct{ Data []byte }

// flexCodec: BYTESCodec for *[]byte, zero-copy for *Blob
type flexCodec struct{ rpc.BYTESCodec }

func (c *flexCodec) Marshal(buf []byte, v interface{}) ([]byte, error) {
	if b, ok := v.(*Blob); ok && b != nil {
		return b.Data, nil
	}
	return c.BYTESCodec.Marshal(buf, v)
}

func (c *flexCodec) Unmarshal(data []byte, v interface{}) error {
	if b, ok := v.(*Blob); ok && b != nil {
		b.Data = data
		return nil
	}
	return c.BYTESCodec.Unmarshal(data, v)
}

type retained struct {
	kind string
	b    []byte
	sum  [32]byte
}

type retainer struct {
	mu sync.Mutex
	l  []*retained
}

func (r *retainer) keep(kind string, b []byte) {
	r.mu.Lock()
	r.l = append(r.l, &retained{kind, b, sha256.Sum256(b)})
	r.mu.Unlock()
}

type KeepSvc struct {
	r *retainer
}

// Keep retains its argument bytes and answers with bytes derived from them.
func (k *KeepSvc) Keep(req *[]byte, res *[]byte) error {
	k.r.keep("request-args", *req)
	if len(*req) > 0 && (*req)[0] == 'E' {
		return fmt.Errorf("E:%s", string((*req)[:min(len(*req), 4000)]))
	}
	out := make([]byte, len(*req))
	for i, c := range *req {
		out[i] = c ^ 0x3c
	}
	*res = out
	return nil
}

// Echo keeps its argument bytes and answers with the very same slice.
func (k *KeepSvc) Echo(req *[]byte, res *[]byte) error {
	k.r.keep("request-args", *req)
	*res = *req
	return nil
}

// KeepBlob keeps the bytes of a structured argument.
func (k *KeepSvc) KeepBlob(req *Blob, res *Blob) error {
	k.r.keep("request-args", req.Data)
	res.Data = []byte{byte(len(req.Data))}
	return nil
}

// KeepCtx is the with-context shape.
func (k *KeepSvc) KeepCtx(ctx context.Context, req *[]byte, res *[]byte) error {
	return k.Keep(req, res)
}

// Chat echoes stream messages, retaining what it reads.
func (k *KeepSvc) Chat(h *hStream) error {
	for {
		var m []byte
		if err := h.s.ReadMessage(nil, &m); err != nil {
			return nil
		}
		k.r.keep("stream-message-server", m)
		out := append([]byte(nil), m...)
		h.s.WriteMessage(&out)
	}
}

// trafficOver makes one call per size (and an error call for every third), keeping what comes back
func trafficOver(e *Env, conn *rpc.Conn, ret *retainer, enc string, desc map[string]interface{}, sizes []int, keep bool, errs *[]error, errWant *[]string) {
	for i, n := range sizes {
		req := make([]byte, n)
		e.Rng.Read(req)
		req[0] = 'a' + byte(i%20)
		var res []byte
		method := []string{"K.Keep", "K.KeepCtx"}[i%2]
		if err := conn.Call(method, &req, &res); err != nil {
			e.fail("C01-call-failed", fmt.Sprintf("call failed: %v", err), desc)
			continue
		}
		if keep {
			ret.keep("reply", res)
		}
		if i%3 == 0 {
			ereq := append([]byte("E"), req[:min(n, 3000)]...)
			var eres []byte
			err := conn.Call("K.Keep", &ereq, &eres)
			if keep && err != nil {
				*errs = append(*errs, err)
				*errWant = append(*errWant, "E:"+string(ereq))
			}
		}
		e.count("traffic", fmt.Sprintf("t-%s-%s", enc, lenClass(n)))
	}
}

func dataPtr(b []byte) uintptr {
	if cap(b) == 0 {
		return 0
	}
	return uintptr(unsafe.Pointer(&b[:1][0]))
}

func runBuf(work, prop string) {
	e := newEnv(prop, "buf", work)
	defer e.finish()
	old := runtime.GOMAXPROCS(1) // one P: sync.Pool hands a returned buffer straight back
	defer runtime.GOMAXPROCS(old)
	var cases []string
	rounds := 6
	if e.thorough() {
		rounds = 60
	}
	sizes := []int{1, 100, 500, 520, 4000, 16000, 65000, 65530, 65600, 70000}
	// every frame length around the 64K read buffer (the header adds a few bytes that depend on the
	// encoder and the sequence number): payloads 65500..65545, and around small non-pool buffer sizes
	var boundary []int
	for n := 65500; n <= 65545; n++ {
		boundary = append(boundary, n)
	}
	for _, c := range []int{100, 128, 1000, 1024} {
		for d := -24; d <= 8; d += 2 {
			boundary = append(boundary, c+d)
		}
	}
	for k := 0; k < rounds; k++ {
		enc := []string{"", "pb", "code"}[k%3]
		cliDirect := k%2 == 1
		shared := k%4 == 2
		ret := &retainer{}
		c2s, s2c := newChunkPipe(func() int { return 1 << 20 }), newChunkPipe(func() int { return 1 << 20 })
		cliRW := &duplex{r: s2c, w: c2s}
		srvRW := &duplex{r: c2s, w: s2c}
		srv := rpc.NewServer()
		srv.SetLogLevel(rpc.OffLogLevel)
		srv.SetContextBuffer(shared)
		bufSize := []int{0, 512, 65536, 100, 1000, 70000}[k%6] // pool classes and sizes between them
		srv.SetBufferSize(bufSize)
		srv.RegisterName("K", &KeepSvc{r: ret})
		go srv.ServeCodec(rpc.NewServerCodec(&flexCodec{}, encoderOf(enc), socket.NewMessages(srvRW, false), false, 0))
		conn := rpc.NewConnWithCodec(rpc.NewClientCodec(&flexCodec{}, encoderOf(enc), socket.NewMessages(cliRW, false), 0))
		if cliDirect {
			conn.SetDirectIO(true)
		}
		desc := map[string]interface{}{"encoder": enc, "client_directIO": cliDirect, "context_buffer": shared, "server_buffer_size": bufSize, "round": k, "seed": e.Seed}
		var errs []error
		var errWant []string
		traffic := func(keep bool) { trafficOver(e, conn, ret, enc, desc, sizes, keep, &errs, &errWant) }
		traffic(true)
		// replies and arguments of every length around the buffer boundaries, kept as well
		{
			bs := boundary
			if !e.thorough() { // a third of them per round, all of them over three rounds
				var part []int
				for i, n := range boundary {
					if i%3 == k%3 {
						part = append(part, n)
					}
				}
				bs = part
			}
			trafficOver(e, conn, ret, enc, desc, bs, true, &errs, &errWant)
		}
		// an echoing handler: its reply IS the argument it keeps (large ones go through the big buffers)
		for _, n := range []int{600, 66000, 69632, 140000} {
			req := make([]byte, n)
			e.Rng.Read(req)
			req[0] = 'q'
			var res []byte
			if err := conn.Call("K.Echo", &req, &res); err != nil {
				e.fail("C01-call-failed", fmt.Sprintf("call failed: %v", err), desc)
			} else if !bytes.Equal(res, req) {
				e.fail("C01-wrong-reply", "echo differs from what was sent", desc)
			}
			e.count("traffic", fmt.Sprintf("echo-%s-%s", enc, lenClass(n)))
		}
		// structured arguments decoded zero-copy, kept by the handler
		for _, n := range []int{40, 900, 5000, 66000} {
			req := &Blob{Data: make([]byte, n)}
			e.Rng.Read(req.Data)
			var res Blob
			if err := conn.Call("K.KeepBlob", req, &res); err != nil {
				e.fail("C01-call-failed", fmt.Sprintf("call failed: %v", err), desc)
			}
			e.count("traffic", fmt.Sprintf("blob-%s-%s", enc, lenClass(n)))
		}
		// one reply variable used for two calls while the first reply is kept
		{
			var shared []byte
			r1 := make([]byte, 300)
			e.Rng.Read(r1)
			r1[0] = 'a'
			if err := conn.Call("K.Keep", &r1, &shared); err == nil {
				ret.keep("reply", shared)
				r2 := make([]byte, 200)
				e.Rng.Read(r2)
				r2[0] = 'b'
				conn.Call("K.Keep", &r2, &shared)
			}
		}
		// stream messages
		st, err := conn.NewStream("K.Chat")
		if err == nil {
			for i, n := range []int{10, 600, 65530, 70000} {
				m := make([]byte, n)
				e.Rng.Read(m)
				m[0] = byte(i)
				st.WriteMessage(&m)
				var got []byte
				var buf []byte
				if i%2 == 1 {
					buf = make([]byte, 0, n+10)
				}
				if err := st.ReadMessage(buf, &got); err != nil {
					e.fail("C09-read-error", fmt.Sprintf("stream read failed: %v", err), desc)
					break
				}
				if !bytes.Equal(got, m) {
					e.fail("C09-corrupted", "stream echo differs from what was written", desc)
				}
				ret.keep("stream-message", got)
			}
		}
		// context buffers with a canary
		for _, n := range []int{50, 3000} {
			for _, d := range []int{-1, 0, 1, 64} {
				k2 := n + d
				buf := bytes.Repeat([]byte{0xCC}, k2)
				ctx := context.WithValue(context.Background(), rpc.BufferContextKey, buf[:0:k2])
				req := make([]byte, n)
				e.Rng.Read(req)
				req[0] = 'z'
				var res []byte
				if err := conn.CallWithContext(ctx, "K.Keep", &req, &res); err != nil {
					e.fail("C01-call-failed", fmt.Sprintf("CallWithContext failed: %v", err), desc)
					continue
				}
				want := make([]byte, n)
				for i, c := range req {
					want[i] = c ^ 0x3c
				}
				used := len(res) > 0 && dataPtr(res) == dataPtr(buf)
				replyOK := bytes.Equal(res, want)
				tailOK := true
				full := buf[:k2]
				start := 0
				if used {
					start = n
				}
				for i := start; i < k2; i++ {
					if full[i] != 0xCC {
						tailOK = false
					}
				}
				if !replyOK {
					e.fail("C19-ctx-buffer-reply", fmt.Sprintf("reply through a context buffer of capacity %d (reply %d bytes) is wrong", k2, n), desc)
				}
				if !tailOK {
					e.fail("C11-ctx-buffer-overrun", fmt.Sprintf("the library wrote beyond the reply length in a caller-supplied context buffer (capacity %d, reply %d bytes)", k2, n), desc)
				}
				if used != (k2 >= n) {
					e.fail("C19-ctx-buffer-use", fmt.Sprintf("context buffer of capacity %d for a %d-byte reply: used=%v", k2, n, used), desc)
				}
				cases = append(cases, fmt.Sprintf("BCtx %d %d %s %s %s", k2, n, coqBool(used), coqBool(replyOK), coqBool(tailOK)))
				// the caller keeps its buffer (reply and canary) and the reply it was handed: later calls
				// without a context buffer must leave both alone
				ret.keep("context-buffer", full)
				if used {
					ret.keep("reply", res)
				} else {
					ret.keep("reply-beside-context-buffer", res)
				}
				e.count("ctx-buffer", fmt.Sprintf("ctx-%d-%d", n, d))
			}
		}
		// churn the pools with traffic of the same sizes
		for rep := 0; rep < 4; rep++ {
			traffic(false)
		}
		// re-verify everything retained
		ret.mu.Lock()
		items := append([]*retained(nil), ret.l...)
		ret.mu.Unlock()
		stable := map[string]bool{}
		inPool := map[string]bool{}
		for _, it := range items {
			if _, ok := stable[it.kind]; !ok {
				stable[it.kind] = true
			}
			if sha256.Sum256(it.b) != it.sum {
				stable[it.kind] = false
				e.fail("C11-"+it.kind+"-mutated", fmt.Sprintf("%s bytes (%d) retained by user code changed after further traffic", it.kind, len(it.b)), desc)
				if it.kind == "reply-beside-context-buffer" {
					e.fail("C19-reply-beside-context-buffer-mutated", fmt.Sprintf("a reply (%d bytes) that did not fit the caller's context buffer, and was therefore handed over in memory of the library's choosing, changed after further traffic", len(it.b)), desc)
				}
				if it.kind == "context-buffer" {
					e.fail("C19-context-buffer-written-by-later-call", fmt.Sprintf("a caller-supplied context buffer (%d bytes, reply and canary) changed after the call it was given to had returned", len(it.b)), desc)
				}
			}
		}
		for i, er := range errs {
			if er.Error() != errWant[i] {
				stable["error-text"] = false
				e.fail("C11-error-text-mutated", "an error text retained by the caller changed after further traffic", desc)
			} else if _, ok := stable["error-text"]; !ok {
				stable["error-text"] = true
			}
		}
		// fish the pools: no retained value may live in a buffer a pool can hand out
		ptrs := map[uintptr]string{}
		for _, it := range items {
			if p := dataPtr(it.b); p != 0 {
				ptrs[p] = it.kind
			}
		}
		for _, n := range []int{64, 512, 4096, 16384, 65536, 70000, 131072} {
			var got [][]byte
			for j := 0; j < 24; j++ {
				b := rpc.GetBuffer(n)
				got = append(got, b)
				if kind, ok := ptrs[dataPtr(b)]; ok {
					inPool[kind] = true
					e.fail("C11-"+kind+"-in-pool", fmt.Sprintf("a buffer pool handed out the very buffer holding %s bytes that user code still retains", kind), desc)
				}
			}
			for _, b := range got {
				rpc.PutBuffer(b)
			}
		}
		if s, ok := stable["context-buffer"]; ok && !s {
			e.fail("C11-ctx-buffer-written-later", "a caller-supplied context buffer was written after the call it was given to had returned", desc)
		}
		for kind, p := range map[string]string{"request-args": "PRequestArgs", "reply": "PReply", "stream-message": "PStreamMessage", "error-text": "PErrorText"} {
			if s, ok := stable[kind]; ok {
				cases = append(cases, fmt.Sprintf("BObs %s %d %s %s", p, 40+k, coqBool(s), coqBool(inPool[kind])))
			}
		}
		if st != nil {
			st.Close()
		}
		conn.Close()
		cliRW.Close()
		time.Sleep(time.Millisecond)
		if len(e.Res.Samples) < 3 {
			e.sample(desc)
		}
	}
	e.Res.Rule = "per round (header default/pb/code, client directIO or not, server context buffer or not, read buffer 0/512/64K, GOMAXPROCS=1): handlers retain request arguments and stream messages, callers retain replies, stream messages and error texts, each with a digest, for payloads of 1..70000 bytes around the 512-byte and 64K pool classes; four further passes of the same traffic churn the pools; digests are re-verified and the pools fished for aliases; caller-supplied context buffers of capacity len-1, len, len+1, len+64 with a canary; non-trivial = distinct (configuration, payload class)"
	names := writeCases(work, "From Coq Require Import List. Import ListNotations. From RPC Require Import RunBuf. From RPC.Buf Require Import Heap.", "bcase", cases, 400)
	e.Res.ModelCases = len(cases)
	e.Res.Extra["case_files"] = names
}
