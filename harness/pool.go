package main

// Snapshot-step correspondence and oracles for Transport (C13, C14, C15).
// A real rpc.Transport is driven over in-memory connections to real
// rpc.Servers (one per dialed connection, so handlers know which connection
// served them); a counting wrapper follows dial (+1) and close (-1); virtual
// time is moved by backdating lastTime through the verif hook.

import (
	"context"
	"errors"
	"fmt"
	"io"
	"net"
	"os"
	"sort"
	"strings"
	"sync"
	"sync/atomic"
	"syscall"
	"time"

	"github.com/hslam/rpc"
)

func init() {
	commands["pool-c13"] = func(w string) { runPool(w, "C13") }
	commands["pool-c14"] = func(w string) { runPool(w, "C14") }
	commands["pool-c15"] = func(w string) { runPool(w, "C15") }
	commands["pool-c19"] = func(w string) { runPool(w, "C19") }
	commands["pool-c04"] = func(w string) { runPool(w, "C04") }
	commands["pool-c20"] = func(w string) { runPool(w, "C20") }
	commands["pool-c08"] = func(w string) { runPool(w, "C08") }
}

// ---- in-memory message pipe ----

type pipeEnd struct {
	in         chan []byte
	out        chan []byte
	closed     chan struct{}
	peer       *pipeEnd
	once       sync.Once
	onClose    func()
	closeDelay time.Duration
	lossMu     sync.Mutex
	lossErr    error // what ReadMessage reports once the peer has gone (nil: io.EOF)
}

func (p *pipeEnd) setLoss(err error) { p.lossMu.Lock(); p.lossErr = err; p.lossMu.Unlock() }
func (p *pipeEnd) loss() error {
	p.lossMu.Lock()
	defer p.lossMu.Unlock()
	if p.lossErr != nil {
		return p.lossErr
	}
	return io.EOF
}

func newPipe() (*pipeEnd, *pipeEnd) { return newPipeCap(256) }

func newPipeCap(n int) (*pipeEnd, *pipeEnd) {
	a2b, b2a := make(chan []byte, n), make(chan []byte, n)
	a := &pipeEnd{in: b2a, out: a2b, closed: make(chan struct{})}
	b := &pipeEnd{in: a2b, out: b2a, closed: make(chan struct{})}
	a.peer, b.peer = b, a
	return a, b
}

func (p *pipeEnd) ReadMessage(buf []byte) ([]byte, error) {
	select {
	case m := <-p.in:
		return m, nil
	default:
	}
	select {
	case m := <-p.in:
		return m, nil
	case <-p.closed:
		return nil, io.EOF
	case <-p.peer.closed:
		return nil, p.loss()
	}
}

func (p *pipeEnd) WriteMessage(b []byte) error {
	select {
	case <-p.closed:
		return io.EOF
	case <-p.peer.closed:
		return io.EOF
	default:
	}
	cp := append([]byte(nil), b...)
	select {
	case p.out <- cp:
		return nil
	case <-p.closed:
		return io.EOF
	case <-p.peer.closed:
		return io.EOF
	}
}

func (p *pipeEnd) Close() error {
	p.once.Do(func() {
		if p.closeDelay > 0 {
			time.Sleep(p.closeDelay)
		}
		close(p.closed)
		if p.onClose != nil {
			p.onClose()
		}
	})
	return nil
}

// ---- fake servers ----

// Svc is registered once per accepted connection.
type Svc struct {
	w      *world
	connID int
	addr   string
	gen    int
}

// Echo answers "addr/gen/conn|" + request.
func (s *Svc) Echo(req *[]byte, res *[]byte) error {
	s.w.logServe(s.connID)
	*res = append([]byte(fmt.Sprintf("%s/%d/%d|", s.addr, s.gen, s.connID)), *req...)
	return nil
}

// Block answers like Echo once the harness releases it.
func (s *Svc) Block(req *[]byte, res *[]byte) error {
	s.w.logServe(s.connID)
	k := 0
	fmt.Sscanf(string(*req), "held:%d", &k)
	s.w.mu.Lock()
	s.w.blockRuns[k]++
	s.w.mu.Unlock()
	s.w.blockGate.enter(heldTag{s.connID, k}, nil)
	*res = append([]byte(fmt.Sprintf("%s/%d/%d|", s.addr, s.gen, s.connID)), *req...)
	return nil
}

// Hold is a stream handler: it learns its tag from the first message and reads until the stream ends.
func (s *Svc) Hold(h *hStream) error {
	var m []byte
	if err := h.s.ReadMessage(nil, &m); err != nil {
		return nil
	}
	k := 0
	fmt.Sscanf(string(m), "hold:%d", &k)
	s.w.mu.Lock()
	s.w.holdConn[k] = s.connID
	s.w.mu.Unlock()
	for {
		var x []byte
		if err := h.s.ReadMessage(nil, &x); err != nil {
			return nil
		}
	}
}

type srvState struct {
	up   bool
	gen  int
	ends []*pipeEnd // server ends of live connections
}

type connInfo struct {
	id     int
	addr   string
	conn   *rpc.Conn
	closed int32
	cend   *pipeEnd
}

type world struct {
	mu        sync.Mutex
	e         *Env
	servers   map[string]*srvState
	conns     []*connInfo
	byConn    map[*rpc.Conn]int
	served    []int
	blockGate gate
	maxConns  int
	dialViol  string
	slowClose time.Duration
	holdConn  map[int]int // stream tag -> connection its handler runs on
	blockRuns map[int]int // held-call tag -> how many times its handler was entered
}

func (w *world) logServe(id int) {
	w.mu.Lock()
	w.served = append(w.served, id)
	w.mu.Unlock()
}

func (w *world) openTo(addr string) int {
	n := 0
	for _, c := range w.conns {
		if c.addr == addr && atomic.LoadInt32(&c.closed) == 0 {
			n++
		}
	}
	return n
}

func (w *world) dial(network, address, codec string) (*rpc.Conn, error) {
	w.mu.Lock()
	defer w.mu.Unlock()
	s := w.servers[address]
	if s == nil || !s.up {
		return nil, errors.New("connection refused")
	}
	cend, send := newPipe()
	id := len(w.conns)
	ci := &connInfo{id: id, addr: address, cend: cend}
	cend.onClose = func() { atomic.StoreInt32(&ci.closed, 1) }
	cend.closeDelay = w.slowClose
	srv := rpc.NewServer()
	srv.SetLogLevel(rpc.OffLogLevel)
	srv.RegisterName("Svc", &Svc{w: w, connID: id, addr: address, gen: s.gen})
	go srv.ServeCodec(rpc.NewServerCodec(&rpc.BYTESCodec{}, nil, send, false, 0))
	s.ends = append(s.ends, send)
	conn := rpc.NewConnWithCodec(rpc.NewClientCodec(&rpc.BYTESCodec{}, nil, cend, 0))
	ci.conn = conn
	w.conns = append(w.conns, ci)
	w.byConn[conn] = id
	// C13 oracle: checked at every dial
	if n := w.openTo(address); n > w.maxConns && w.dialViol == "" {
		w.dialViol = fmt.Sprintf("%d connections open to %s right after a dial (limit %d)", n, address, w.maxConns)
	}
	return conn, nil
}

func (w *world) kill(addr string) {
	w.mu.Lock()
	s := w.servers[addr]
	s.up = false
	ends := s.ends
	s.ends = nil
	w.mu.Unlock()
	for _, e := range ends {
		e.Close()
	}
}

// dropConns cuts every connection to addr while the server keeps accepting new ones
func (w *world) dropConns(addr string) {
	w.mu.Lock()
	s := w.servers[addr]
	ends := s.ends
	s.ends = nil
	w.mu.Unlock()
	for _, e := range ends {
		e.Close()
	}
}

func (w *world) restart(addr string) {
	w.mu.Lock()
	s := w.servers[addr]
	s.up = true
	s.gen++
	w.mu.Unlock()
}

// ---- the run ----

const poolUnit = time.Minute

type poolRun struct {
	e           *Env
	w           *world
	t           *rpc.Transport
	addrs       []string
	ids         map[uintptr]int // persistConn identity -> harness id (= dial order)
	cases       []string
	trace       []string
	closed      bool
	cfg         [4]int64
	held        map[int]*heldCall // by conn id
	nheld       int
	prop        string
	firstSnap   bool
	lastErr     error
	everDead    map[int]bool
	killedConns map[int]bool
	streams     map[int]*heldStream
	grabs       []*grabbed
	tickStamp   time.Time // the housekeeping clock when the current operation began
	ctxCalls    int
}

type heldStream struct {
	k, conn int
	s       rpc.Stream
}

type heldTag struct{ conn, k int }

type heldCall struct {
	k      int
	conn   int
	done   chan error
	res    *[]byte
	direct bool // made on a connection obtained earlier through the getConn hook, not through Transport.Call
}

// a connection a caller obtained from getConn and has not used yet
type grabbed struct {
	conn *rpc.Conn
	id   int
	addr string
}

func newPoolRun(e *Env, prop string, maxConns, maxIdle int, keepalive, idleto int64, naddr int) *poolRun {
	w := &world{e: e, servers: map[string]*srvState{}, byConn: map[*rpc.Conn]int{}, holdConn: map[int]int{}, blockRuns: map[int]int{}}
	r := &poolRun{e: e, w: w, ids: map[uintptr]int{}, held: map[int]*heldCall{}, streams: map[int]*heldStream{}, prop: prop, cfg: [4]int64{int64(maxConns), int64(maxIdle), keepalive, idleto}}
	for i := 0; i < naddr; i++ {
		a := fmt.Sprintf("srv%d", i)
		r.addrs = append(r.addrs, a)
		w.servers[a] = &srvState{up: true}
	}
	nm := maxConns
	if nm < 1 {
		nm = rpc.DefaultMaxConnsPerHost
	}
	w.maxConns = nm
	r.t = &rpc.Transport{MaxConnsPerHost: maxConns, MaxIdleConnsPerHost: maxIdle,
		KeepAlive: time.Duration(keepalive) * poolUnit, IdleConnTimeout: time.Duration(idleto) * poolUnit,
		Network: "fake", Codec: "bytes", Dial: w.dial}
	r.t.VerifSetTicker(4 * time.Millisecond)
	return r
}

func (r *poolRun) addrIdx(a string) int {
	for i, x := range r.addrs {
		if x == a {
			return i
		}
	}
	return 99
}

// snapshot renders the abstract state as a Coq psnap.
func (r *poolRun) snapshot() string {
	s := r.t.VerifSnapshot()
	// map persistConn identities to dial-order ids through the *rpc.Conn the world dialed
	r.w.mu.Lock()
	nconns := len(r.w.conns)
	r.w.mu.Unlock()
	info := map[int]rpc.PersistConnSnapshot{}
	filed := map[int]bool{}
	render := func(m map[string][]rpc.PersistConnSnapshot, extra map[string]int) string {
		var keys []string
		for k := range m {
			keys = append(keys, k)
		}
		sort.Strings(keys)
		var out []string
		for _, k := range keys {
			var ids []string
			for _, pc := range m[k] {
				id := r.idOf(pc)
				info[id] = pc
				filed[id] = true
				ids = append(ids, fmt.Sprintf("%d", id))
			}
			out = append(out, fmt.Sprintf("(%d, ([%s], %d))", r.addrIdx(k), strings.Join(ids, "; "), extra[k]))
		}
		return "[" + strings.Join(out, "; ") + "]%nat"
	}
	act := render(s.Active, s.Cursor)
	idl := render(s.Idle, s.IdleCap)
	var cs []string
	r.w.mu.Lock()
	for _, c := range r.w.conns {
		pc, ok := info[c.id]
		age := int64(0)
		alive, busy := false, uint64(0)
		if ok {
			age = int64((pc.Age + poolUnit/2) / poolUnit)
			alive, busy = pc.Alive, pc.NumCalls
		}
		cs = append(cs, fmt.Sprintf("{| sc_id := %d; sc_addr := %d; sc_alive := %s; sc_closed := %s; sc_age := %d; sc_busy := %d |}",
			c.id, r.addrIdx(c.addr), coqBool(alive), coqBool(atomic.LoadInt32(&c.closed) != 0), age, busy))
	}
	r.w.mu.Unlock()
	// C13 oracle on every snapshot
	for a, l := range s.Idle {
		if len(l) > s.MaxIdleConnsPerHost && s.Running {
			r.e.fail("C13-idle-limit", fmt.Sprintf("%d idle connections to %s (limit %d)", len(l), a, s.MaxIdleConnsPerHost), r.replay())
		}
	}
	for _, a := range r.addrs {
		if n := r.w.openTo(a); s.Running && n > s.MaxConnsPerHost {
			r.e.fail("C13-conn-limit", fmt.Sprintf("%d connections open to %s (limit %d)", n, a, s.MaxConnsPerHost), r.replay())
		}
	}
	return fmt.Sprintf("{| ps_maxconns := %d; ps_maxidle := %d; ps_keepalive := %d; ps_idleto := %d; ps_active := %s; ps_idle := %s; ps_conns := [%s]; ps_next := %d; ps_closed := %s |}",
		s.MaxConnsPerHost, s.MaxIdleConnsPerHost, int64(s.KeepAlive/poolUnit), int64(s.IdleConnTimeout/poolUnit), act, idl, strings.Join(cs, "; "), nconns, coqBool(s.Closed))
}

// idOf finds the dial-order id of a pooled connection: the snapshot carries
// the persistConn pointer only, so match by first appearance order (each
// step dials at most one connection).
func (r *poolRun) idOf(pc rpc.PersistConnSnapshot) int {
	r.w.mu.Lock()
	defer r.w.mu.Unlock()
	if id, ok := r.w.byConn[pc.Conn]; ok {
		return id
	}
	panic("pool harness: pooled connection was not dialed through the harness")
}

func (r *poolRun) replay() interface{} {
	return map[string]interface{}{"config": r.cfg, "trace": append([]string(nil), r.trace...), "seed": r.e.Seed}
}

func (r *poolRun) step(before, op, human string) {
	r.trace = append(r.trace, human)
	after := r.snapshot()
	if r.w.dialViol != "" {
		r.e.fail("C13-conn-limit-at-dial", r.w.dialViol, r.replay())
		r.w.dialViol = ""
	}
	if !r.firstSnap && r.t.VerifSnapshot().Running {
		r.firstSnap = true
		r.cases = append(r.cases, fmt.Sprintf("PInit {| ic_maxconns := %d; ic_maxidle := %d; ic_keepalive := %d; ic_idleto := %d; ic_first := %s |}", r.cfg[0], r.cfg[1], r.cfg[2], r.cfg[3], after))
	}
	if before != "" {
		// a background housekeeping round that ran inside this operation is not part of it (the real
		// Transport.Call refreshes lastTime after the call has left the connection, and a round can fall
		// in between): such steps are counted, not replayed; rounds are replayed as the explicit Tick steps
		if op != "[OpTick]" && !r.t.VerifNow().Equal(r.tickStamp) {
			r.e.Res.Distribution["step-overlapped-a-housekeeping-round"]++
			return
		}
		r.cases = append(r.cases, fmt.Sprintf("PStep {| pcs_before := %s; pcs_ops := %s; pcs_after := %s |}", before, op, after))
	}
}

func optNat(id int) string {
	if id < 0 {
		return "None"
	}
	return fmt.Sprintf("(Some %d%%nat)", id)
}

// parse "addr/gen/conn|payload"
func parseReply(b []byte) (addr string, gen, conn int, ok bool) {
	i := strings.IndexByte(string(b), '|')
	if i < 0 {
		return
	}
	parts := strings.Split(string(b[:i]), "/")
	if len(parts) != 3 {
		return
	}
	fmt.Sscanf(parts[1], "%d", &gen)
	fmt.Sscanf(parts[2], "%d", &conn)
	return parts[0], gen, conn, true
}

// the first operation initialises the transport; take the "before" snapshot only after that
func (r *poolRun) before() string {
	r.e.inflight(map[string]interface{}{"history_so_far": r.replay(), "next": "the next Transport operation of the history"})
	if !r.firstSnap {
		return ""
	}
	r.tickStamp = r.t.VerifNow()
	return r.snapshot()
}

func (r *poolRun) up(a string) bool {
	r.w.mu.Lock()
	defer r.w.mu.Unlock()
	return r.w.servers[a].up
}

// a whole synchronous call
func (r *poolRun) call(a string, ping bool) {
	before := r.before()
	ok := r.up(a)
	var err error
	req, res := []byte("x"), []byte(nil)
	nserved := len(r.w.served)
	if ping {
		err = r.t.Ping(a)
	} else {
		err = r.t.Call(a, "Svc.Echo", &req, &res)
	}
	got := -1
	sh := err == rpc.ErrShutdown
	if os_getenv("VERIF_DEBUG") != "" {
		sn := r.t.VerifSnapshot()
		ids := []int{}
		for _, pc := range sn.Active[a] {
			ids = append(ids, r.idOf(pc))
		}
		fmt.Fprintf(os.Stderr, "call %s ping=%v err=%v res=%q served=%v active=%v cursor=%d\n", a, ping, err, res, r.w.served[nserved:], ids, sn.Cursor[a])
	}
	if err == nil && !ping {
		addr, _, conn, pok := parseReply(res)
		got = conn
		if !pok || addr != a {
			r.e.fail("C14-wrong-address", fmt.Sprintf("call for %s was answered by %q", a, res), r.replay())
		}
	}
	r.w.mu.Lock()
	execs := len(r.w.served) - nserved
	r.w.mu.Unlock()
	switch {
	case ping && execs != 0:
		r.e.fail("C04-ping-ran-handler", fmt.Sprintf("a Ping to %s ran %d handler(s)", a, execs), r.replay())
	case !ping && err == nil && execs != 1:
		r.e.fail("C04-successful-call-not-once", fmt.Sprintf("a successful Call to %s was executed %d times", a, execs), r.replay())
	case !ping && err != nil && execs > 1:
		r.e.fail("C04-failed-call-executed-twice", fmt.Sprintf("a failed Call to %s was executed %d times", a, execs), r.replay())
	}
	r.checkShutdownConsumed(a, err)
	if err != nil && err != rpc.ErrDial && err != rpc.ErrShutdown {
		r.e.fail("C14-unexpected-error", fmt.Sprintf("call to %s failed with %v", a, err), r.replay())
	}
	if err == rpc.ErrDial && ok && r.mustDial(a) {
		r.e.fail("C14-errdial-while-up", fmt.Sprintf("call to reachable %s failed with ErrDial", a), r.replay())
	}
	kind := "Call"
	if ping {
		kind = "Ping"
	}
	r.step(before, fmt.Sprintf("[OpCall %d %s %s %s %s]", r.addrIdx(a), coqBool(ok), optNat(got), coqBool(err == rpc.ErrDial), coqBool(sh)), fmt.Sprintf("%s %s -> %v", kind, a, err))
	r.lastErr = err
}

func (r *poolRun) mustDial(a string) bool { return true }

// deadFiled lists the pooled connections currently marked dead
func (r *poolRun) deadFiled() map[int]bool {
	out := map[int]bool{}
	s := r.t.VerifSnapshot()
	for _, m := range []map[string][]rpc.PersistConnSnapshot{s.Active, s.Idle} {
		for _, l := range m {
			for _, pc := range l {
				if !pc.Alive {
					out[r.idOf(pc)] = true
				}
			}
		}
	}
	return out
}

// C14 oracle: a call that fails with ErrShutdown must have consumed a connection that was not
// known dead before (a connection on which a call failed is never handed out again)
func (r *poolRun) checkShutdownConsumed(a string, err error) {
	now := r.deadFiled()
	fresh := false
	for id := range now {
		if !r.everDead[id] {
			fresh = true
		}
		r.everDead[id] = true
	}
	if err == rpc.ErrShutdown && !fresh {
		r.e.fail("C14-dead-conn-handed-out", fmt.Sprintf("a call to %s failed with ErrShutdown although no live pooled connection died: a connection already marked dead was handed out", a), r.replay())
	}
}

// usedConn guesses the connection a failed/ping call used from the snapshot:
// the filed connection to a with the smallest age, or the one just marked dead.
func (r *poolRun) usedConn(a string, nserved int) int {
	r.w.mu.Lock()
	if len(r.w.served) > nserved {
		id := r.w.served[len(r.w.served)-1]
		r.w.mu.Unlock()
		return id
	}
	r.w.mu.Unlock()
	s := r.t.VerifSnapshot()
	best, bestAge := -1, time.Duration(1<<62)
	for _, l := range [][]rpc.PersistConnSnapshot{s.Active[a], s.Idle[a]} {
		for _, pc := range l {
			if pc.Age < bestAge {
				best, bestAge = r.idOf(pc), pc.Age
			}
		}
	}
	return best
}

// begin a call whose handler is held
func (r *poolRun) callBegin(a string) {
	before := r.before()
	ok := r.up(a)
	r.nheld++
	h := &heldCall{k: r.nheld, done: make(chan error, 1), res: new([]byte)}
	req := []byte(fmt.Sprintf("held:%d", h.k))
	nb := len(r.w.blockGate.list())
	go func() { h.done <- r.t.Call(a, "Svc.Block", &req, h.res) }()
	got := -1
	deadline := time.Now().Add(10 * time.Second)
	for {
		time.Sleep(200 * time.Microsecond)
		found := false
		for _, w := range r.w.blockGate.list() {
			if t := w.tag.(heldTag); t.k == h.k {
				got, found = t.conn, true
			}
		}
		if found {
			break
		}
		select {
		case err := <-h.done: // failed before reaching the handler
			sh := err == rpc.ErrShutdown
			r.step(before, fmt.Sprintf("[OpCall %d %s None %s %s]", r.addrIdx(a), coqBool(ok), coqBool(err == rpc.ErrDial), coqBool(sh)), fmt.Sprintf("CallBegin %s -> %v", a, err))
			r.lastErr = err
			return
		default:
		}
		if time.Now().After(deadline) {
			r.e.fail("C14-call-hangs", "a call neither reached its handler nor failed", r.replay())
			return
		}
	}
	h.conn = got
	r.held[h.k] = h
	_ = nb
	r.step(before, fmt.Sprintf("[OpCallBegin %d %s %s]", r.addrIdx(a), coqBool(ok), optNat(got)), fmt.Sprintf("CallBegin %s on conn %d", a, got))
}

func (r *poolRun) callEnd(k int) {
	h := r.held[k]
	delete(r.held, k)
	before := r.before()
	for _, w := range r.w.blockGate.list() {
		if w.tag.(heldTag).k == k {
			r.w.blockGate.release(w, nil)
		}
	}
	var err error
	select {
	case err = <-h.done:
	case <-time.After(10 * time.Second):
		r.e.fail("C15-held-call-hangs", "a held call did not return after its handler was released", r.replay())
		return
	}
	// C15 oracle: housekeeping must not have killed the call
	if err != nil && !r.killedConns[h.conn] {
		r.e.fail("C15-busy-connection-closed", fmt.Sprintf("a call in flight on connection %d across housekeeping failed with %v", h.conn, err), r.replay())
		if r.ctxCalls > 0 {
			r.e.fail("C19-cancel-harms-other-call", fmt.Sprintf("after %d call(s) had been given up at their context's end, a live call on connection %d was failed with %v by the pool's housekeeping", r.ctxCalls, h.conn, err), r.replay())
		}
	}
	if h.direct {
		// no Transport.Call around it: lastTime is not refreshed and a failure is not reported to the pool
		r.step(before, fmt.Sprintf("[OpStreamEnd %d]", h.conn), fmt.Sprintf("CallEnd (direct) conn %d -> %v", h.conn, err))
		// the connection may be parked and long expired: housekeeping reclaims it at its next round,
		// which is made a step of its own here
		r.tick()
		return
	}
	r.step(before, fmt.Sprintf("[OpCallEnd %d %s]", h.conn, coqBool(err == rpc.ErrShutdown)), fmt.Sprintf("CallEnd conn %d -> %v", h.conn, err))
}

// getConn alone: the caller holds the connection and makes its call later, so housekeeping can run
// in between (the window in which a connection that looks unused is about to be used)
func (r *poolRun) grab(a string) {
	before := r.before()
	ok := r.up(a)
	c, err := r.t.VerifGetConn(a)
	if err != nil {
		r.step(before, fmt.Sprintf("[OpCall %d %s None %s false]", r.addrIdx(a), coqBool(ok), coqBool(err == rpc.ErrDial)), fmt.Sprintf("Get %s -> %v", a, err))
		return
	}
	r.w.mu.Lock()
	id := r.w.byConn[c]
	r.w.mu.Unlock()
	r.grabs = append(r.grabs, &grabbed{conn: c, id: id, addr: a})
	r.step(before, fmt.Sprintf("[OpGet %d %s %s]", r.addrIdx(a), coqBool(ok), optNat(id)), fmt.Sprintf("Get %s -> conn %d", a, id))
}

// the caller that obtained a connection earlier now makes a call on it; the handler is held
func (r *poolRun) beginOn(g *grabbed) {
	r.w.mu.Lock()
	closed := atomic.LoadInt32(&r.w.conns[g.id].closed) != 0
	r.w.mu.Unlock()
	if closed || r.killedConns[g.id] {
		return // retired and closed, or its server went away, while the caller was holding it
	}
	before := r.before()
	r.nheld++
	h := &heldCall{k: r.nheld, conn: g.id, done: make(chan error, 1), res: new([]byte), direct: true}
	req := []byte(fmt.Sprintf("held:%d", h.k))
	go func() { h.done <- g.conn.Call("Svc.Block", &req, h.res) }()
	for deadline := time.Now().Add(10 * time.Second); ; time.Sleep(200 * time.Microsecond) {
		found := false
		for _, w := range r.w.blockGate.list() {
			if t := w.tag.(heldTag); t.k == h.k {
				found = true
			}
		}
		if found {
			break
		}
		select {
		case err := <-h.done:
			r.step(before, "[]", fmt.Sprintf("BeginOn conn %d -> %v", g.id, err))
			return
		default:
		}
		if time.Now().After(deadline) {
			r.e.fail("C14-call-hangs", "a call neither reached its handler nor failed", r.replay())
			return
		}
	}
	r.held[h.k] = h
	r.step(before, fmt.Sprintf("[OpBeginOn %d]", g.id), fmt.Sprintf("BeginOn conn %d", g.id))
}

// a call through the Transport whose context expires while its handler is still running: the caller
// gets the context's error at once; the pooled connection and the other calls on it are unharmed (C19)
func (r *poolRun) ctxCall(a string, deadline bool) {
	before := r.before()
	ok := r.up(a)
	r.nheld++
	k := r.nheld
	req := []byte(fmt.Sprintf("held:%d", k))
	var res []byte
	var ctx context.Context
	var cancel context.CancelFunc
	if deadline {
		ctx, cancel = context.WithTimeout(context.Background(), 3*time.Millisecond)
	} else {
		ctx, cancel = context.WithCancel(context.Background())
		go func() { time.Sleep(3 * time.Millisecond); cancel() }()
	}
	t0 := time.Now()
	err := r.t.CallWithContext(ctx, a, "Svc.Block", &req, &res)
	took := time.Since(t0)
	cancel()
	got := -1
	ctxErr := err == context.DeadlineExceeded || err == context.Canceled
	for dl := time.Now().Add(5 * time.Second); ctxErr && got < 0 && time.Now().Before(dl); time.Sleep(200 * time.Microsecond) {
		for _, w := range r.w.blockGate.list() {
			if t := w.tag.(heldTag); t.k == k {
				got = t.conn
				r.w.blockGate.release(w, nil)
			}
		}
	}
	switch {
	case ctxErr:
		r.ctxCalls++
		if took > 2*time.Second {
			r.e.fail("C19-ctx-not-prompt", fmt.Sprintf("CallWithContext through the Transport returned %v only after %v", err, took), r.replay())
		}
		time.Sleep(2 * time.Millisecond) // the late response is discarded
		if got >= 0 && !r.killedConns[got] {
			r.w.mu.Lock()
			closed := atomic.LoadInt32(&r.w.conns[got].closed) != 0
			r.w.mu.Unlock()
			if closed {
				r.e.fail("C19-ctx-error-closes-connection", fmt.Sprintf("a call given up at its context's end (%v) closed pooled connection %d, which other calls share", err, got), r.replay())
			}
		}
		r.step(before, fmt.Sprintf("[OpCall %d %s %s false false]", r.addrIdx(a), coqBool(ok), optNat(got)), fmt.Sprintf("CtxCall %s -> %v", a, err))
	default:
		r.checkShutdownConsumed(a, err)
		r.step(before, fmt.Sprintf("[OpCall %d %s None %s %s]", r.addrIdx(a), coqBool(ok), coqBool(err == rpc.ErrDial), coqBool(err == rpc.ErrShutdown)), fmt.Sprintf("CtxCall %s -> %v", a, err))
	}
	r.lastErr = nil
}

// open a stream through the Transport and keep it: the connection has one more occupant until the
// stream is closed (the stream outlives Kill: a connection's stream table is not cleared when it dies)
func (r *poolRun) streamOpen(a string) {
	before := r.before()
	ok := r.up(a)
	r.nheld++
	k := r.nheld
	s, err := r.t.NewStream(a, "Svc.Hold")
	if err != nil {
		r.checkShutdownConsumed(a, err)
		if err != rpc.ErrDial && err != rpc.ErrShutdown {
			r.e.fail("C14-unexpected-error", fmt.Sprintf("NewStream to %s failed with %v", a, err), r.replay())
		}
		r.step(before, fmt.Sprintf("[OpCall %d %s None %s %s]", r.addrIdx(a), coqBool(ok), coqBool(err == rpc.ErrDial), coqBool(err == rpc.ErrShutdown)), fmt.Sprintf("StreamOpen %s -> %v", a, err))
		r.lastErr = err
		return
	}
	r.lastErr = nil
	msg := []byte(fmt.Sprintf("hold:%d", k))
	s.WriteMessage(&msg)
	got := -1
	for deadline := time.Now().Add(10 * time.Second); time.Now().Before(deadline); time.Sleep(200 * time.Microsecond) {
		r.w.mu.Lock()
		c, found := r.w.holdConn[k]
		r.w.mu.Unlock()
		if found {
			got = c
			break
		}
	}
	if got < 0 {
		r.e.fail("C09-message-lost", "the first message on a stream opened through the Transport never reached its handler", r.replay())
		return
	}
	r.streams[k] = &heldStream{k: k, conn: got, s: s}
	r.step(before, fmt.Sprintf("[OpStreamOpen %d %s %s]", r.addrIdx(a), coqBool(ok), optNat(got)), fmt.Sprintf("StreamOpen %s on conn %d", a, got))
}

// a stream open the server refuses (unknown method): for the pool it is a completed exchange — the
// connection it used is left with no occupant, however early in the connection's life it happened
func (r *poolRun) streamRefused(a string) {
	before := r.before()
	ok := r.up(a)
	s, err := r.t.NewStream(a, "Svc.NoSuchStream")
	if err == nil {
		s.Close()
		r.e.fail("C06-unknown-stream-method-accepted", fmt.Sprintf("NewStream to %s for a method the server does not have succeeded", a), r.replay())
		return
	}
	r.checkShutdownConsumed(a, err)
	r.step(before, fmt.Sprintf("[OpCall %d %s None %s %s]", r.addrIdx(a), coqBool(ok), coqBool(err == rpc.ErrDial), coqBool(err == rpc.ErrShutdown)), fmt.Sprintf("StreamOpen (refused) %s -> %v", a, err))
	if err == rpc.ErrDial || err == rpc.ErrShutdown {
		r.lastErr = err
	} else {
		r.lastErr = nil
	}
}

// close a kept stream: on a live connection the close is acknowledged and the occupant leaves; on a
// connection that has ended the close fails and the stream stays in the connection's table
func (r *poolRun) streamClose(k int) {
	h := r.streams[k]
	delete(r.streams, k)
	before := r.before()
	err := h.s.Close()
	if err == nil {
		r.step(before, fmt.Sprintf("[OpStreamEnd %d]", h.conn), fmt.Sprintf("StreamClose conn %d", h.conn))
		r.tick() // as for a direct call: the connection may have been spared only because of the stream
	} else {
		if !r.killedConns[h.conn] {
			r.e.fail("C15-busy-connection-closed", fmt.Sprintf("closing a stream kept on connection %d across housekeeping failed with %v", h.conn, err), r.replay())
		}
		r.step(before, "[]", fmt.Sprintf("StreamClose conn %d -> %v", h.conn, err))
	}
}

// the link to an address times out: every connection to it is cut, and what the client's reader
// sees is not an orderly end but a read error (a net.Error whose Timeout() is true).  For the pool this
// is a dead connection like any other: the next call that meets it fails with ErrShutdown, the
// connection is retired, and the call after that dials again.  Only done while nothing is in flight on
// those connections (calls in flight end with the read error itself, which the model does not carry).
func (r *poolRun) linkTimeout(a string) {
	busy := false
	for _, h := range r.held {
		if r.w.conns[h.conn].addr == a {
			busy = true
		}
	}
	for _, s := range r.streams {
		if r.w.conns[s.conn].addr == a {
			busy = true
		}
	}
	for _, g := range r.grabs {
		if g.addr == a {
			busy = true
		}
	}
	if !busy {
		r.w.mu.Lock()
		for _, c := range r.w.conns {
			if c.addr == a && c.cend != nil {
				c.cend.setLoss(&net.OpError{Op: "read", Net: "fake", Err: syscall.ETIMEDOUT})
			}
		}
		r.w.mu.Unlock()
	}
	r.drop(a)
}

// kill the server of an address: the calls held on its connections end now
func (r *poolRun) kill(a string) { r.cut(a, true) }

// drop: every connection to the address is cut while its server keeps accepting new ones
func (r *poolRun) drop(a string) { r.cut(a, false) }

func (r *poolRun) cut(a string, down bool) {
	before := r.before()
	var ended []*heldCall
	for _, c := range r.w.conns {
		if c.addr == a {
			r.killedConns[c.id] = true
		}
	}
	for k, h := range r.held {
		if r.w.conns[h.conn].addr == a {
			ended = append(ended, h)
			delete(r.held, k)
		}
	}
	if down {
		r.w.kill(a)
	} else {
		r.w.dropConns(a)
	}
	var ops []string
	for _, h := range ended {
		var err error
		timeout := time.After(10 * time.Second)
	wait:
		for {
			select {
			case err = <-h.done:
				break wait
			case <-timeout:
				r.e.fail("C03-held-call-hangs", "a call in flight did not return after its connection was cut", r.replay())
				break wait
			case <-time.After(time.Millisecond):
				// C04: the library never retries: the handler of a call whose connection was cut is not entered again
				r.w.mu.Lock()
				runs := r.w.blockRuns[h.k]
				r.w.mu.Unlock()
				if runs > 1 {
					r.e.fail("C04-call-executed-twice", fmt.Sprintf("one Transport.Call whose connection was cut after its handler had started was executed %d times: the library sent the request again on another connection", runs), r.replay())
					for _, w := range r.w.blockGate.list() {
						if w.tag.(heldTag).k == h.k {
							r.w.blockGate.release(w, nil)
						}
					}
				}
			}
		}
		if h.direct {
			ops = append(ops, fmt.Sprintf("OpStreamEnd %d", h.conn))
			continue
		}
		ops = append(ops, fmt.Sprintf("OpCallEnd %d %s", h.conn, coqBool(err == rpc.ErrShutdown)))
	}
	// the handlers held on the dead connections are released so their goroutines end
	for _, w := range r.w.blockGate.list() {
		for _, h := range ended {
			if w.tag.(heldTag).k == h.k {
				r.w.blockGate.release(w, nil)
			}
		}
	}
	time.Sleep(2 * time.Millisecond)
	r.step(before, "["+strings.Join(ops, "; ")+"]", map[bool]string{true: "Kill ", false: "Drop "}[down]+a)
}

// wait until at least one whole housekeeping round ran
func (r *poolRun) tick() {
	if !r.firstSnap {
		return // the housekeeping goroutine starts with the first use
	}
	before := r.before()
	t0 := r.t.VerifNow()
	changes := 0
	deadline := time.Now().Add(10 * time.Second)
	for changes < 2 && time.Now().Before(deadline) {
		time.Sleep(time.Millisecond)
		if t1 := r.t.VerifNow(); !t1.Equal(t0) {
			t0 = t1
			changes++
		}
	}
	r.step(before, "[OpTick]", "Tick")
	// C15: after a whole housekeeping round no unused parked connection is left that is past its idle timeout
	// (the round removes from the front while the most recently parked one is expired and the front carries no call)
	s := r.t.VerifSnapshot()
	for a, l := range s.Idle {
		if len(l) == 0 || s.Closed {
			continue
		}
		front, rear := l[0], l[len(l)-1]
		if front.NumCalls == 0 && rear.Age > s.IdleConnTimeout+poolUnit {
			r.e.fail("C15-expired-parked-connection-kept", fmt.Sprintf("after a housekeeping round %d unused connection(s) to %s are still parked although the most recently parked one has been idle for %d units (IdleConnTimeout %d)", len(l), a, int64(rear.Age/poolUnit), int64(s.IdleConnTimeout/poolUnit)), r.replay())
		}
	}
}

func (r *poolRun) backdate(units int64) {
	r.t.VerifBackdate(time.Duration(units) * poolUnit)
	r.trace = append(r.trace, fmt.Sprintf("Advance %d", units))
}

func (r *poolRun) closeIdle() {
	before := r.before()
	r.t.CloseIdleConnections()
	r.step(before, "[OpCloseIdle]", "CloseIdleConnections")
}

func (r *poolRun) close() {
	before := r.before()
	err := r.t.Close()
	if err != nil {
		r.e.fail("C20-transport-close", fmt.Sprintf("Transport.Close returned %v", err), r.replay())
	}
	r.closed = true
	r.step(before, "[OpClose]", "Close")
	// C15: Close closes every pooled connection
	for _, a := range r.addrs {
		if n := r.w.openTo(a); n != 0 {
			r.e.fail("C15-close-leaves-open", fmt.Sprintf("%d connections to %s still open after Transport.Close", n, a), r.replay())
			r.e.fail("C20-transport-close-leaves-open", fmt.Sprintf("%d connections to %s still open after Transport.Close", n, a), r.replay())
		}
	}
}

func runPool(work, prop string) {
	e := newEnv(prop, "pool", work)
	defer e.finish()
	var cases []string
	n := 150
	if e.thorough() {
		n = 2000
	}
	for i := 0; i < n; i++ {
		limits := [][2]int{{1, 1}, {2, 1}, {2, 2}, {3, 2}, {2, 5}, {0, 0}, {-1, 3}, {4, 4}, {3, 1}}[i%9]
		ka, it := int64(101), int64(51)
		if i%3 == 1 {
			ka, it = 41, 91 // KeepAlive < IdleConnTimeout
		}
		naddr := 1 + i%3
		r := newPoolRun(e, prop, limits[0], limits[1], ka, it, naddr)
		r.killedConns = map[int]bool{}
		r.everDead = map[int]bool{}
		r.script(i)
		if !r.closed {
			// end every history with Close so nothing leaks into the next one
			for c := range r.held {
				r.callEnd(c)
			}
			r.close()
		}
		cases = append(cases, r.cases...)
		e.count("history", fmt.Sprintf("%v-%d-%s", limits, ka, strings.Join(poolShape(r.trace), ",")))
		if len(e.Res.Samples) < 5 {
			e.sample(map[string]interface{}{"limits": limits, "keepalive": ka, "idle_timeout": it, "trace": r.trace})
		}
	}
	if prop == "C13" {
		poolStress(e)
	}
	e.Res.Rule = "seeded random histories of Transport operations (Call/Ping per address, calls held in their handler across steps, housekeeping ticks, virtual-time advances around KeepAlive/IdleConnTimeout by backdating, CloseIdleConnections, server kill/restart, Close) over 1-3 addresses and limits {1,1},{2,1},{2,2},{3,2},{2,5},{0,0},{-1,3},{4,4},{3,1}; every operation is checked as one model step from the abstract state read before it to the one read after it; non-trivial = distinct (limits, operation-shape sequence)"
	names := writeCases(work, "From Coq Require Import List ZArith. Import ListNotations. From RPC Require Import RunPool. Open Scope Z_scope.", "anycase", cases, 150)
	e.Res.ModelCases = len(cases)
	e.Res.Extra["case_files"] = names
}

func poolShape(tr []string) []string {
	out := make([]string, len(tr))
	for i, s := range tr {
		f := strings.Fields(s)
		out[i] = f[0]
		if strings.Contains(s, "dial failed") {
			out[i] += "!dial"
		}
		if strings.Contains(s, "shut down") {
			out[i] += "!shut"
		}
	}
	return out
}

// script: a random walk; prop biases the choice of operations
// busyFront: two connections are parked by housekeeping while callers hold them; the caller holding the
// one at the front of the idle queue then makes a long call; the idle timeout passes
func (r *poolRun) busyFront(a string) {
	r.call(a, false)
	r.call(a, false)
	r.grab(a)
	r.grab(a)
	r.backdate(60) // past KeepAlive (41), short of IdleConnTimeout (91)
	if r.cfg[1] == 1 && r.cfg[0] >= 2 {
		// an idle queue of one: one of the two is used again just now and stays active; it goes stale
		// later, when the queue is full with the other one
		r.call(a, false)
	}
	r.tick()
	s := r.t.VerifSnapshot()
	if os_getenv("VERIF_DEBUG") != "" {
		fmt.Fprintf(os.Stderr, "busyFront: idle=%d active=%d cfg=%v\n", len(s.Idle[a]), len(s.Active[a]), r.cfg)
	}
	if len(s.Idle[a]) < 1 {
		return
	}
	front := r.idOf(s.Idle[a][0])
	for gi, g := range r.grabs {
		if g.id == front {
			r.grabs = append(r.grabs[:gi], r.grabs[gi+1:]...)
			r.beginOn(g)
			break
		}
	}
	if len(r.held) > 0 && (r.prop == "C13" || r.e.Rng.Intn(2) == 0) {
		// CloseIdleConnections while a parked connection carries a call: it is spared and stays in the pool
		r.closeIdle()
		r.call(a, false)
		r.call(a, false)
	}
	r.backdate(60) // now past IdleConnTimeout for the parked ones, past KeepAlive for whatever stayed active
	r.tick()
	for k, h := range r.held {
		if h.direct {
			r.callEnd(k)
		}
	}
}

func (r *poolRun) script(i int) {
	e := r.e
	steps := 10 + e.Rng.Intn(25)
	afterRestart := map[string]int{}
	if r.prop == "C20" && r.cfg[2] < r.cfg[3] && i%4 != 3 {
		// several connections in use at once, then unused past KeepAlive: parked; Close must close them all
		a := r.addrs[0]
		for k := 0; k < 4; k++ {
			r.callBegin(a)
		}
		for k := range r.held {
			r.callEnd(k)
		}
		r.backdate(60)
		r.tick()
		if i%2 == 0 {
			r.call(a, false) // one of them is taken back into use
		}
		r.close()
		return
	}
	if i%3 == 1 {
		// the very first exchange on a fresh connection is a refused stream open
		r.streamRefused(r.addrs[e.Rng.Intn(len(r.addrs))])
	}
	if r.cfg[2] < r.cfg[3] && (i%2 == 0 || r.prop == "C15") { // KeepAlive < IdleConnTimeout: parked connections stay a while
		r.busyFront(r.addrs[0])
	}
	for s := 0; s < steps && !r.closed; s++ {
		a := r.addrs[e.Rng.Intn(len(r.addrs))]
		x := e.Rng.Intn(100)
		switch {
		case x < 38:
			r.call(a, e.Rng.Intn(5) == 0)
			// C14 recovery oracle: after a restart a sequential caller sees at most one failure per pooled connection
			if cnt, ok := afterRestart[a]; ok && r.up(a) {
				if r.lastErr == nil {
					delete(afterRestart, a)
				} else if r.lastErr == rpc.ErrShutdown {
					afterRestart[a] = cnt - 1
					if cnt-1 < 0 {
						r.e.fail("C14-no-recovery", fmt.Sprintf("more ErrShutdown failures to %s after its restart than pooled connections", a), r.replay())
					}
				}
			}
		case x < 47:
			if len(r.held) < 3 {
				r.callBegin(a)
			}
		case x < 49:
			if len(r.grabs) < 2 {
				r.grab(a)
			} else {
				g := r.grabs[0]
				r.grabs = r.grabs[1:]
				if len(r.held) < 3 {
					r.beginOn(g)
				}
			}
		case x < 52:
			if e.Rng.Intn(3) == 0 {
				r.streamRefused(a)
			} else if len(r.streams) < 2 && r.up(a) {
				r.streamOpen(a)
			}
		case x < 55:
			if (r.prop == "C19" || e.Rng.Intn(2) == 0) && r.up(a) {
				r.ctxCall(a, e.Rng.Intn(2) == 0)
				break
			}
			for k := range r.streams {
				r.streamClose(k)
				break
			}
		case x < 60:
			for c := range r.held {
				r.callEnd(c)
				break
			}
		case x < 72:
			r.backdate([]int64{30, 40, 60, 90, 120, 200}[e.Rng.Intn(6)])
			r.tick()
		case x < 78:
			r.tick()
		case x < 84:
			if r.prop == "C19" && len(r.held) == 0 && r.up(a) {
				r.callBegin(a) // a live call for CloseIdleConnections to spare
			}
			r.closeIdle()
		case x < 91:
			if r.up(a) {
				if e.Rng.Intn(3) == 0 || r.prop == "C04" {
					if r.prop != "C04" && e.Rng.Intn(2) == 0 {
						r.linkTimeout(a)
					} else {
						r.drop(a)
					}
					// the recovery oracle counts failures against the connections pooled at the last
					// restart; connections dialed since and cut now are not among them
					delete(afterRestart, a)
				} else {
					r.kill(a)
				}
			}
		case x < 98:
			if !r.up(a) {
				r.w.restart(a)
				// pooled connections to a at restart time
				s := r.t.VerifSnapshot()
				afterRestart[a] = len(s.Active[a]) + len(s.Idle[a])
				r.trace = append(r.trace, "Restart "+a)
			}
		default:
			if r.prop == "C15" || e.Rng.Intn(3) == 0 {
				for c := range r.held {
					r.callEnd(c)
				}
				r.close()
			}
		}
	}
}

// concurrent callers against servers that are killed and restarted, with sockets that take a
// moment to close: the number of open connections is checked at every dial (uncontrolled
// interleavings; supporting exploration for the window between marking a connection dead and
// closing it)
func poolStress(e *Env) {
	rounds := 6
	if e.thorough() {
		rounds = 60
	}
	for k := 0; k < rounds; k++ {
		limits := [][2]int{{1, 1}, {2, 1}, {3, 2}}[k%3]
		r := newPoolRun(e, "C13", limits[0], limits[1], 1000, 1000, 1)
		r.w.slowClose = 1500 * time.Microsecond
		a := r.addrs[0]
		var wg sync.WaitGroup
		stop := make(chan struct{})
		for g := 0; g < 8; g++ {
			wg.Add(1)
			go func(g int) {
				defer wg.Done()
				for {
					select {
					case <-stop:
						return
					default:
					}
					req, res := []byte{byte(g)}, []byte(nil)
					if g%3 == 0 {
						r.t.Ping(a)
					} else {
						r.t.Call(a, "Svc.Echo", &req, &res)
					}
				}
			}(g)
		}
		for j := 0; j < 16; j++ {
			time.Sleep(2 * time.Millisecond)
			if j%4 == 3 {
				r.w.kill(a)
				time.Sleep(time.Millisecond)
				r.w.restart(a)
			} else {
				r.w.dropConns(a) // the server stays reachable: a replacement can be dialed at once
			}
		}
		close(stop)
		wg.Wait()
		r.w.mu.Lock()
		v := r.w.dialViol
		r.w.mu.Unlock()
		if v != "" {
			e.fail("C13-conn-limit-at-dial", "concurrent callers with a server that is killed and restarted: "+v, map[string]interface{}{"limits": limits, "round": k, "seed": e.Seed})
		}
		r.t.Close()
		e.count("stress", fmt.Sprintf("stress-%v-%d", limits, k))
	}
}
